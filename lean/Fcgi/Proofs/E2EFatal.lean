import Fcgi.Proofs.E2ETrunc
/-!
# C06 / C04 end to end: the preamble ends in a fatal parser error

The transport delivers (in any read splitting, with transient `Pending`s) a wire `W` on which the
request parser's loop ends in a FATAL state without ever filling the buffer (`FCtx`).  Then
`parse_request` writes what the parser produced up to the fatal record and returns the error
(`into_stream_parser` fails): no handler, `RET`, connection finished, write log = `L0 ++ (run W).out`.
Composed from `E2E.parse_loop` exactly as `Proofs/E2ETrunc`.
-/
namespace Fcgi.C06E
open Fcgi Fcgi.Req Fcgi.Str Fcgi.Async Fcgi.Run Fcgi.Spec Fcgi.E2E

/-- a final prefix decides: further bytes change neither state nor output -/
theorem run_final_ext {F : Bytes} {mc : Nat} (hf : (run .header F mc).st.isFinal = true) (x : Bytes) :
    (run .header (F ++ x) mc).st = (run .header F mc).st ∧ (run .header (F ++ x) mc).out = (run .header F mc).out := by
  by_cases hx : x = []
  · subst hx; rw [List.append_nil]; exact ⟨rfl, rfl⟩
  · rw [Req.run_split (st := .header) trivial F x mc hx, run_final _ mc hf]
    simp

/-- the whole wire reaches the transport; its loop ends in the fatal state `e`; no prefix is stuck -/
structure FCtx (cap mc : Nat) (W : Bytes) (e : PErr) : Prop where
  cap24 : 24 ≤ cap
  ns : NoStuckW cap mc W
  fat : (run .header W mc).st = .fatal e

theorem FCtx.final_prefix {cap mc : Nat} {W : Bytes} {e : PErr} (K : FCtx cap mc W e) {F x : Bytes} (h : F ++ x = W)
    (hf : (run .header F mc).st.isFinal = true) :
    (run .header F mc).st = .fatal e ∧ (run .header F mc).out = (run .header W mc).out := by
  obtain ⟨h1, h2⟩ := run_final_ext hf x
  rw [h] at h1 h2
  exact ⟨by rw [← h1, K.fat], h2.symm⟩

theorem step_writing_fatal (c : Conn) (rp : Req.Parser) (rest : Bytes) (t : Transport) (e : PErr)
    (hp : c.phase = .parseReq rp (.writing rest true)) (hs : c.stop = false)
    (hw : writeAllLoop (rest.length + 1) rest c.env.tr = ([], t, .ready)) (hf : rp.state = .fatal e) :
    stepConn c = .halt { c with phase := .finished, env := { c.env with tr := t } } .finished := by
  obtain ⟨phase, env, scripts, stop⟩ := c
  simp only at hp hs hw; subst hp; subst hs
  simp only [stepConn, hw, Bool.false_eq_true, if_false, Bool.not_true, Req.Parser.intoStreamParser, hf]

/-- how a poll ends -/
def FOut (cap mc : Nat) (W L0 : Bytes) (c c' : Conn) (r : PRes) : Prop :=
  (r = .pending ∧ (∃ F', PSt cap mc W L0 [] c' F') ∧ c'.env.tr.woken = true ∧ ans c'.env.tr < ans c.env.tr) ∨
  (r = .finished ∧ c'.phase = .finished ∧ c'.env.tr.wlog = L0 ++ (run .header W mc).out)

theorem fatal_poll {cap mc : Nat} {W L0 : Bytes} {e : PErr} (K : FCtx cap mc W e) {c : Conn} {F : Bytes}
    (hst : PSt cap mc W L0 [] c F) :
    ∃ c' r, Halts (2 * c.env.tr.input.length + 4) c c' r ∧ Frame c c' ∧ FOut cap mc W L0 c c' r := by
  obtain ⟨n, c1, F1, hn, hs, hfr, hout⟩ := parse_loop K.cap24 K.ns _ c F hst (Nat.le_refl _)
  have hnb : n ≤ 2 * c.env.tr.input.length + 2 := by have := wbit_le c; omega
  rcases hout with ⟨c2, h1, h2, h3, h4, h5⟩ | ⟨rest, t', hph, hf, hw, hstop, _, _, hwa, hlog, hts, _⟩ | ⟨hin, hnf, hph, hst1⟩
  · refine ⟨c2, .pending, ⟨n, c1, by omega, hs, h1⟩, hfr.trans h3, Or.inl ⟨rfl, ⟨F1, h2⟩, h4, ?_⟩⟩
    have := hfr.ts.ans_le; omega
  · rw [List.append_nil] at hw
    obtain ⟨hst1, hout1⟩ := K.final_prefix hw hf
    have hstep := step_writing_fatal c1 _ rest t' e hph hstop hwa (by show (run .header F1 mc).st = _; exact hst1)
    refine ⟨{ c1 with phase := .finished, env := { c1.env with tr := t' } }, .finished,
      ⟨n, c1, by omega, hs, hstep⟩, hfr.trans (Frame.mk' c1 .finished t' hts), Or.inr ⟨rfl, rfl, ?_⟩⟩
    show t'.wlog = _
    rw [hlog, hout1]
  · exfalso
    have hF1 : F1 = W := by
      have := hst1.wire
      rwa [hin, List.append_nil, List.append_nil] at this
    rw [hF1, K.fat] at hnf
    cases hnf

/-- how the task ends -/
structure FFin (L0 out : Bytes) (hs0 : Nat) (c' : Conn) : Prop where
  phase : c'.phase = .finished
  wlog : c'.env.tr.wlog = L0 ++ out
  hs : hsCount c'.env.tr.events = hs0
  stop : c'.stop = false

theorem fatal_run {cap mc : Nat} {W L0 : Bytes} {e : PErr} (K : FCtx cap mc W e) :
    ∀ (A : Nat) (c : Conn) (F : Bytes) (n fuel : Nat),
      PSt cap mc W L0 [] c F → c.env.segs = [] → ans c.env.tr ≤ A → A + 1 ≤ fuel →
      2 * c.env.tr.input.length + 4 ≤ 100000 →
      ∃ c', runTask fuel c n none = (c', "RET") ∧
        FFin L0 (run .header W mc).out (hsCount c.env.tr.events) c' ∧ c'.scripts = c.scripts := by
  intro A
  induction A with
  | zero =>
    intro c F n fuel hst hsegs hA hf hlen
    obtain ⟨f, rfl⟩ : ∃ f, fuel = f + 1 := ⟨fuel - 1, by omega⟩
    obtain ⟨hsame, hph, hsc, hstop, hmx, hsg, hwk⟩ := prePoll_same c n hsegs
    have hst0 := hst.cong hph hstop hsame
    obtain ⟨c', r, hh, hfr, ho⟩ := fatal_poll K hst0
    have hpoll := hh.pollT (by rw [hsame.input]; exact hlen)
    have hans0 : ans (prePoll c n none).env.tr = ans c.env.tr := by unfold ans; rw [hsame.rd, hsame.wr]
    rw [runTask_succ, hpoll]
    rcases ho with ⟨rfl, _, _, ha⟩ | ⟨rfl, h1, h2⟩
    · omega
    · exact ⟨c', rfl, ⟨h1, h2, hfr.ts.hs.trans hsame.hs, hfr.stop.trans (hstop.trans hst.stop)⟩,
        hfr.scripts.trans hsc⟩
  | succ A ih =>
    intro c F n fuel hst hsegs hA hf hlen
    obtain ⟨f, rfl⟩ : ∃ f, fuel = f + 1 := ⟨fuel - 1, by omega⟩
    obtain ⟨hsame, hph, hsc, hstop, hmx, hsg, hwk⟩ := prePoll_same c n hsegs
    have hst0 := hst.cong hph hstop hsame
    obtain ⟨c', r, hh, hfr, ho⟩ := fatal_poll K hst0
    have hpoll := hh.pollT (by rw [hsame.input]; exact hlen)
    have hans0 : ans (prePoll c n none).env.tr = ans c.env.tr := by unfold ans; rw [hsame.rd, hsame.wr]
    rw [runTask_succ, hpoll]
    rcases ho with ⟨rfl, ⟨F', hst'⟩, hw, ha⟩ | ⟨rfl, h1, h2⟩
    · simp only [hw, if_true]
      have hlen' : 2 * c'.env.tr.input.length + 4 ≤ 100000 := by
        have := hfr.ts.tle.input_len
        rw [hsame.input] at this
        omega
      obtain ⟨c2, h1, h2, h3⟩ := ih c' F' (n + 1) f hst' (hfr.segs.trans hsg) (by omega) (by omega) hlen'
      refine ⟨c2, h1, ?_, h3.trans (hfr.scripts.trans hsc)⟩
      have he : hsCount c'.env.tr.events = hsCount c.env.tr.events := hfr.ts.hs.trans hsame.hs
      rw [← he]; exact h2
    · exact ⟨c', rfl, ⟨h1, h2, hfr.ts.hs.trans hsame.hs, hfr.stop.trans (hstop.trans hst.stop)⟩,
        hfr.scripts.trans hsc⟩

/-- **The executor started in front of `parse_request`.** -/
theorem fatal_run_start {cap mc : Nat} {W : Bytes} {e : PErr} (K : FCtx cap mc W e) {c : Conn} {n fuel : Nat}
    (hph : c.phase = .parseReq ⟨cap, [], .header, mc⟩ .start) (hstop : c.stop = false)
    (hinp : c.env.tr.input = W) (hb : Ben c.env.tr)
    (hsegs : c.env.segs = []) (hf : ans c.env.tr + 1 ≤ fuel) (hlen : 2 * c.env.tr.input.length + 5 ≤ 100000) :
    ∃ c', runTask fuel c n none = (c', "RET") ∧
      FFin c.env.tr.wlog (run .header W mc).out (hsCount c.env.tr.events) c' ∧ c'.scripts = c.scripts := by
  obtain ⟨f, rfl⟩ : ∃ f, fuel = f + 1 := ⟨fuel - 1, by omega⟩
  obtain ⟨hsame, hph0, hsc, hstop0, hmx, hsg, hwk⟩ := prePoll_same c n hsegs
  rw [runTask_succ]
  generalize prePoll c n none = c0 at *
  have hstop1 : c0.stop = false := hstop0.trans hstop
  have hns0 := K.ns [] (List.nil_prefix)
  have hstart := start_track K.cap24 (raw := []) (Nat.zero_le _) hns0
  have hstep := step_start c0 _ (hph0.trans hph) hstop1
  rw [hstart] at hstep
  have hstep' : stepConn c0 = .next (mkC c0 (.parseReq (track cap mc [])
      (.writing (run .header [] mc).out (run .header [] mc).st.isFinal)) c0.env.tr) := hstep
  have hremle : (run .header [] mc).rem.length ≤ cap := by
    have := (run_ok [] mc (st := .header) trivial).2.2.length_le
    simp only [List.length_nil] at this; omega
  have hst : PSt cap mc W c.env.tr.wlog [] (mkC c0 (.parseReq (track cap mc [])
      (.writing (run .header [] mc).out (run .header [] mc).st.isFinal)) c0.env.tr) [] :=
    ⟨by show [] ++ c0.env.tr.input ++ [] = W
        rw [hsame.input, hinp, List.nil_append, List.append_nil],
      hstop1, hsame.ben hb, hremle, Or.inr ⟨_, rfl, by show c0.env.tr.wlog ++ _ = _; rw [hsame.wlog], [], rfl⟩⟩
  obtain ⟨c', r, hh, hfr, ho⟩ := fatal_poll K hst
  have hh' := Halts.of_steps (Steps.one hstep') hh
  have hpoll := hh'.pollT (by
    show 1 + (2 * c0.env.tr.input.length + 4) ≤ 100000
    rw [hsame.input]; omega)
  have hans0 : ans c0.env.tr = ans c.env.tr := by unfold ans; rw [hsame.rd, hsame.wr]
  have hts : TStep c0.env.tr c'.env.tr := hfr.ts
  have hhs : hsCount c'.env.tr.events = hsCount c.env.tr.events := hts.hs.trans hsame.hs
  have hsc' : c'.scripts = c.scripts := hfr.scripts.trans hsc
  rw [hpoll]
  rcases ho with ⟨rfl, ⟨F', hst'⟩, hw, ha⟩ | ⟨rfl, h1, h2⟩
  · simp only [hw, if_true]
    have hlen' : 2 * c'.env.tr.input.length + 4 ≤ 100000 := by
      have := hts.tle.input_len
      rw [hsame.input] at this
      omega
    have ha' : ans c'.env.tr < ans c0.env.tr := ha
    obtain ⟨c2, h1, h2, h3⟩ := fatal_run K (ans c'.env.tr) c' F' (n + 1) f hst'
      (hfr.segs.trans hsg) (Nat.le_refl _) (by omega) hlen'
    refine ⟨c2, h1, ?_, h3.trans hsc'⟩
    rw [← hhs]; exact h2
  · exact ⟨c', rfl, ⟨h1, h2, hhs, hfr.stop.trans hstop1⟩, hsc'⟩

end Fcgi.C06E
