import Fcgi.Proofs.E2EIgnore
import Fcgi.Props.C05
import Fcgi.Props.C06Suff
/-!
# C05 at the sync level — framing along an arbitrary operation history

`E2E.Pos R raw pay pad fut` (Proofs/E2EIgnore): what is buffered ++ what is still to come is the rest
of the current record followed by whole records, a suffix of the record list `R`.  `E2E.parse_pos`:
every `parse` call keeps it, whatever the mode and destination.  Here: every caller operation keeps
it (`ops_pos`), so a stream parser that stands at a record boundary after ANY legal history holds,
followed by the bytes not yet fed, exactly `serAll` of a suffix of `R` (`pos_boundary`), and the
bytes it consumed are `serAll` of the complementary prefix (`consumed_records`).
-/
namespace Fcgi.C05C
open Fcgi Fcgi.Req Fcgi.Str Fcgi.Spec
open Fcgi.E2E (Pos parse_pos serAll_app)

/-- an operation other than `parse` leaves `raw`, `pay`, `pad` alone -/
theorem applyOp_frame3 (p : Str.Parser) (op : Op) (h : ∀ new dest, op ≠ .parse new dest) :
    (applyOp p op).raw = p.raw ∧ (applyOp p op).pay = p.pay ∧ (applyOp p op).pad = p.pad := by
  cases op with
  | parse new dest => exact absurd rfl (h new dest)
  | consumeStream amt => exact ⟨rfl, rfl, rfl⟩
  | compress => exact ⟨rfl, rfl, rfl⟩
  | consumeOutput amt => exact ⟨rfl, rfl, rfl⟩
  | setStream st =>
    simp only [applyOp]
    cases hr : p.setStream st with
    | ok p' =>
      rcases Str.setStream_ok_cases hr with ⟨-, rfl⟩ | ⟨-, rfl, -⟩
      · exact ⟨rfl, rfl, rfl⟩
      · exact ⟨rfl, rfl, rfl⟩
    | rejected => exact ⟨rfl, rfl, rfl⟩
    | panic s => exact ⟨rfl, rfl, rfl⟩

/-- **Every legal operation history keeps the framing**: any interleaving of `parse` (either
destination, any active stream including `None`), `consume_stream`, `compress`, `consume_output`,
`set_stream`. -/
theorem ops_pos {R : List Rec} (hR : ∀ r ∈ R, r.WF) : ∀ (ops : List Op) (p : Str.Parser) (fut : Bytes),
    SInv p → LegalAll p ops → Pos R p.raw p.pay p.pad (C05.fedBytes ops ++ fut) →
    Pos R (applyOps p ops).raw (applyOps p ops).pay (applyOps p ops).pad fut := by
  intro ops
  induction ops with
  | nil => intro p fut _ _ h; simpa [C05.fedBytes] using h
  | cons op t ih =>
    intro p fut hinv hl h
    obtain ⟨h1, h2⟩ := hl
    obtain ⟨hs, hnp⟩ := Str.step_safe hinv h1
    rw [Str.applyOps_cons]
    refine ih _ fut hs h2 ?_
    cases op with
    | parse new dest =>
      have h' : Pos R p.raw p.pay p.pad (new ++ (C05.fedBytes t ++ fut)) := by
        simpa [C05.fedBytes, List.append_assoc] using h
      rcases parse_pos hR dest h' with hp | hp
      · exact hp
      · exact absurd hp hnp
    | consumeStream amt => exact h
    | compress => exact h
    | consumeOutput amt => exact h
    | setStream st =>
      obtain ⟨e1, e2, e3⟩ := applyOp_frame3 p (.setStream st) (fun _ _ h => by cases h)
      rw [e1, e2, e3]
      exact h

/-- at a record boundary the framing says: what is buffered ++ what is to come is `serAll` of a
suffix of the record list -/
theorem pos_boundary {R : List Rec} {raw fut : Bytes} (h : Pos R raw 0 0 fut) :
    ∃ rs, rs <:+ R ∧ raw ++ fut = serAll rs := by
  obtain ⟨c, pd, rs, hc, hpd, hw, hsuf⟩ := h
  have hc0 : c = [] := List.length_eq_zero_iff.1 hc
  have hp0 : pd = [] := List.length_eq_zero_iff.1 hpd
  subst hc0 hp0
  exact ⟨rs, hsuf, by simpa using hw⟩

theorem pos_start (R : List Rec) {raw fut : Bytes} (h : raw ++ fut = serAll R) : Pos R raw 0 0 fut :=
  ⟨[], [], R, rfl, rfl, by simpa using h, List.suffix_refl R⟩

theorem ser_ne_nil (r : Rec) : r.ser ≠ [] := by
  intro h
  have := congrArg List.length h
  rw [ser_length] at this
  simp at this

theorem serAll_eq_nil {rs : List Rec} (h : serAll rs = []) : rs = [] := by
  cases rs with
  | nil => rfl
  | cons r t =>
    rw [serAll_cons] at h
    exact absurd (List.append_eq_nil_iff.1 h).1 (ser_ne_nil r)

/-- Splitting `A ++ B` at a record boundary that lies inside `serAll A`: the boundary is one of `A`'s. -/
theorem split_within {A B d rs : List Rec} (h : d ++ rs = A ++ B)
    (hlen : (serAll d).length ≤ (serAll A).length) : ∃ u, A = d ++ u ∧ rs = u ++ B := by
  rcases List.append_eq_append_iff.1 h with ⟨a, h1, h2⟩ | ⟨c, h1, h2⟩
  · exact ⟨a, h1, h2⟩
  · rw [h1, serAll_app, List.length_append] at hlen
    have hc : c = [] := serAll_eq_nil (List.length_eq_zero_iff.1 (by omega))
    subst hc
    exact ⟨[], by simpa using h1.symm, by simpa using h2.symm⟩

/-- **Hand-over after any legal history.**  A stream parser that started at a record boundary of the
record list `R` (`sp.raw ++ fed ++ fut = serAll R`) and stands at a record boundary after the history
has consumed `serAll d` for a prefix `d` of `R`; what it still holds, followed by the bytes not yet
fed, is `serAll` of the rest. -/
theorem handover_records {R : List Rec} (hR : ∀ r ∈ R, r.WF) {sp : Str.Parser} (hinv : SInv sp)
    (hpay : sp.pay = 0) (hpad : sp.pad = 0)
    {ops : List Op} (hl : LegalAll sp ops) {fut : Bytes}
    (hw : sp.raw ++ C05.fedBytes ops ++ fut = serAll R)
    (hb : (applyOps sp ops).isRecordBoundary = true) :
    ∃ d rs, R = d ++ rs ∧ (applyOps sp ops).raw ++ fut = serAll rs ∧
      sp.raw ++ C05.fedBytes ops = serAll d ++ (applyOps sp ops).raw := by
  have h0 : Pos R sp.raw sp.pay sp.pad (C05.fedBytes ops ++ fut) := by
    rw [hpay, hpad]; exact pos_start R (by rw [← List.append_assoc]; exact hw)
  have h1 := ops_pos hR ops sp fut hinv hl h0
  have hb' : (applyOps sp ops).pay = 0 ∧ (applyOps sp ops).pad = 0 := by
    simpa [Str.Parser.isRecordBoundary] using hb
  rw [hb'.1, hb'.2] at h1
  obtain ⟨rs, ⟨d, hd⟩, hrs⟩ := pos_boundary h1
  obtain ⟨consumed, hc⟩ := C05.stream_consumes_prefix hinv hl
  refine ⟨d, rs, hd.symm, hrs, ?_⟩
  have : consumed ++ serAll rs = serAll d ++ serAll rs := by
    calc consumed ++ serAll rs = consumed ++ (applyOps sp ops).raw ++ fut := by
          rw [← hrs, List.append_assoc]
      _ = serAll R := by rw [← hc, hw]
      _ = serAll d ++ serAll rs := by rw [← hd, serAll_app]
  rw [hc, List.append_cancel_right this]

end Fcgi.C05C
