import Fcgi.Proofs.E2EHandler
import Fcgi.Proofs.E2EFits
import Fcgi.Props.C09
/-!
# Helper lemmas for `Props/C09E2E.lean`: `poll_fill_buf`, buffered reads, `consume`

`Proofs/E2EStr.lean` simulates `poll_input(Some(n))` (a `read` into an `n`-byte buffer, `n > 0`, with
an empty stream buffer) against the reference interpreter of the wire (`RCtx`, `RInv`, `RSt`,
`pollInput_sim`).  Here the same is done for `poll_input(None)` (`fill_buf`), for reads that are served
from the stream buffer, and for `consume`: `RInvB`/`RStB` drop the "stream buffer is empty"
clause; the ledger `dC` then counts the bytes *extracted* from the wire — handed to the caller or
still sitting in the stream buffer.
-/
namespace Fcgi.C09E
open Fcgi Fcgi.Req Fcgi.Str Fcgi.Async Fcgi.Run Fcgi.E2E

/-- `RInv` without the clause that the stream buffer is empty -/
structure RInvB (K : RCtx) (r : AReq) (G fut dC dO : Bytes) : Prop where
  mt : Match K.E r.sp
  sinv : SInv r.sp
  req : r.sp.request = K.rq
  capK : r.sp.cap = K.cap
  wire : G ++ fut = K.X
  hist : ∀ x, refWire K.E (G ++ x) = (Rem K.E r.sp x).pre dC dO

theorem RInvB.of {K : RCtx} {r : AReq} {G fut dC dO : Bytes} (h : RInv K r G fut dC dO) :
    RInvB K r G fut dC dO := ⟨h.mt, h.sinv, h.req, h.capK, h.wire, h.hist⟩

theorem RInvB.toR {K : RCtx} {r : AReq} {G fut dC dO : Bytes} (h : RInvB K r G fut dC dO)
    (hp : r.sp.parsed = []) : RInv K r G fut dC dO := ⟨h.mt, h.sinv, h.req, h.capK, hp, h.wire, h.hist⟩

theorem RInvB.now {K : RCtx} (hK : K.OK) {r : AReq} {G fut dC dO : Bytes} (h : RInvB K r G fut dC dO) :
    K.C = dC ++ (Rem K.E r.sp fut).content ∧ K.O = dO ++ (Rem K.E r.sp fut).out ∧
    (Rem K.E r.sp fut).verdict = .eos ∧ (Rem K.E r.sp fut).unread = K.U := by
  have := h.hist fut
  rw [h.wire, hK.ref] at this
  have h1 := congrArg RefOut.content this
  have h2 := congrArg RefOut.out this
  have h3 := congrArg RefOut.verdict this
  have h4 := congrArg RefOut.unread this
  simp only [RefOut.pre_content, RefOut.pre_out, RefOut.pre_verdict, RefOut.pre_unread] at h1 h2 h3 h4
  exact ⟨h1, h2, h3.symm, h4.symm⟩

/-- the extracted bytes are a prefix of the stream content -/
theorem RInvB.prefix {K : RCtx} (hK : K.OK) {r : AReq} {G fut dC dO : Bytes} (h : RInvB K r G fut dC dO) :
    dC <+: K.C := ⟨_, (h.now hK).1.symm⟩

/-- the parser state only enters through `Rem`, `Match`, `SInv`, `request`, `cap` -/
theorem RInvB.congr {K : RCtx} {r r' : AReq} {G fut dC dO : Bytes} (h : RInvB K r G fut dC dO)
    (e1 : r'.sp.request = r.sp.request) (e2 : r'.sp.stream = r.sp.stream) (e3 : r'.sp.maxConns = r.sp.maxConns)
    (e4 : r'.sp.state = r.sp.state) (e5 : r'.sp.pay = r.sp.pay) (e6 : r'.sp.pad = r.sp.pad)
    (e7 : r'.sp.raw = r.sp.raw) (e8 : r'.sp.cap = r.sp.cap) (hs : SInv r'.sp) : RInvB K r' G fut dC dO :=
  ⟨h.mt.of_eq e1 e2 e3, hs, e1.trans h.req, e8.trans h.capK, h.wire,
    fun x => by rw [h.hist x]; simp only [Rem, e4, e5, e6, e7]⟩

/-- A legal call with `dest = None` that does not report `stream_end` stops with nothing left to
parse, or on an incomplete `GetValues` pair. -/
theorem parse_stall_none {p p' : Str.Parser} {new : Bytes} {st : Status} (hcap : p.freeStart ≤ p.cap)
    (hfree : new.length ≤ p.free) (h : p.parse new none = (p', .ok st)) (hse : st.streamEnd = false) :
    Idle p' := by
  rw [parse_eq_loop p new none hcap (Or.inl rfl) hfree] at h
  rcases loop_shape _ _ _ h with h1 | h1 | h1 | ⟨h1, _⟩
  · exact Or.inl h1
  · exact Or.inr h1
  · rw [hse] at h1; cases h1
  · cases h1

/-- One `parse` call of the read loop of `poll_input(None)`. -/
theorem parse_rinv_none {K : RCtx} (hK : K.OK) {r : AReq} {G new fut dC dO : Bytes}
    (hi : RInv K r G (new ++ fut) dC dO) (hfree : new.length ≤ r.sp.free) :
    ∃ p' st o, r.sp.parse new none = (p', .ok st) ∧ st.delivered = [] ∧ st.stream = p'.parsed.length ∧
      p'.output = r.sp.output ++ o ∧
      RInvB K { r with sp := p' } (G ++ new) fut (dC ++ p'.parsed) (dO ++ o) ∧
      (st.streamEnd = true → dC ++ p'.parsed = K.C ∧ dO ++ o = K.O ∧ p'.pay = 0 ∧ p'.pad = 0 ∧
        p'.raw ++ fut = K.U) ∧
      (st.streamEnd = false → Idle p') ∧
      (st.streamEnd = false → st.stream = 0 → p'.raw.length < K.cap ∧ fut ≠ []) := by
  have hpt := C03S.parse_total r.sp new none hi.sinv (Or.inl rfl) hfree
  have hri : ∀ x, ∃ lost, _ := fun x =>
    parse_ri (E := K.E) (fut := x) (p := r.sp) (new := new) (dest := none) hi.mt hi.sinv (Or.inl rfl) hfree
  cases hp : r.sp.parse new none with
  | mk p' pr =>
    rw [hp] at hpt
    cases pr with
    | panic s => exact hpt.elim
    | err e =>
      exfalso
      obtain ⟨lost, _, _, _, hv, _, _, hm⟩ := hri fut
      rw [hp] at hv hm
      simp only at hv hm
      obtain ⟨a, b, c⟩ := hm
      rw [a, b, ref_atStop c] at hv
      have := (hi.now hK).2.2.1
      unfold Rem at this
      rw [← hv] at this
      cases this
    | ok st =>
      obtain ⟨hs', _, hcap', hreq', _, _, _⟩ := hpt
      obtain ⟨d, hd1, hd2, hd3⟩ := (C03S.counts_exact hi.sinv.1 (Or.inl rfl) hfree hp).2.1 rfl
      rw [hi.par, List.nil_append] at hd1
      subst hd1
      obtain ⟨⟨o, ho, _⟩, _⟩ := C03S.counts_exact hi.sinv.1 (Or.inl rfl) hfree hp
      have hog : C03S.outGrowth r.sp (.parse new none) = o := by
        simp only [C03S.outGrowth, hp, ho, List.drop_left]
      have hav : availOp r.sp (.parse new none) = p'.parsed := by
        simp [availOp, hp, hi.par]
      have hist' : ∀ x, refWire K.E ((G ++ new) ++ x) = (Rem K.E p' x).pre (dC ++ p'.parsed) (dO ++ o) := by
        intro x
        obtain ⟨lost, _, h1, h2, h3, h4, _, hm⟩ := hri x
        rw [hp] at h1 h2 h3 h4 hm
        simp only at h1 h2 h3 h4 hm
        rw [hm.1, List.append_nil, hav] at h1
        rw [hog] at h2
        rw [List.append_assoc, hi.hist (new ++ x)]
        apply RefOut.ext'
        · simp only [RefOut.pre_content, Rem, List.append_assoc]; rw [← h1]
        · simp only [RefOut.pre_out, Rem, List.append_assoc]; rw [← h2]
        · simp only [RefOut.pre_verdict, Rem]; rw [h3]
        · simp only [RefOut.pre_unread, Rem]; rw [h4]
      have hmt' : Match K.E p' := by
        obtain ⟨_, hm', _⟩ := hri fut
        rw [hp] at hm'; exact hm'
      have hi' : RInvB K { r with sp := p' } (G ++ new) fut (dC ++ p'.parsed) (dO ++ o) :=
        ⟨hmt', hs', hreq'.trans hi.req, hcap'.trans hi.capK,
          by rw [List.append_assoc]; exact hi.wire, hist'⟩
      refine ⟨p', st, o, rfl, hd3, hd2.symm, ho, hi', ?_, ?_, ?_⟩
      · intro hse
        obtain ⟨lost, _, _, _, _, _, _, hm⟩ := hri fut
        rw [hp] at hm
        obtain ⟨a, b, c⟩ := hm.2 hse
        have hnow := hi'.now hK
        simp only [Rem] at hnow
        rw [a, b, ref_atStop c] at hnow
        simp only [List.append_nil] at hnow
        exact ⟨hnow.1.symm, hnow.2.1.symm, a, b, hnow.2.2.2⟩
      · intro h1
        exact parse_stall_none hi.sinv.1 hfree hp h1
      · intro h1 h2
        have hidle : Idle p' := parse_stall_none hi.sinv.1 hfree hp h1
        have hp0 : p'.parsed = [] := List.length_eq_zero_iff.1 (by omega)
        have h0 := hist' []
        rw [idle_ref K.E hidle, List.append_nil] at h0
        have hv : (refWire K.E (G ++ new)).verdict = .more := by rw [h0]; rfl
        have hu : (refWire K.E (G ++ new)).unread = p'.raw := by rw [h0]; rfl
        constructor
        · rw [← hu]
          exact hK.fits _ ⟨fut, by rw [List.append_assoc]; exact hi.wire⟩ hv
        · intro hf
          subst hf
          have hw := hi.wire
          rw [List.append_nil] at hw
          rw [hw, hK.ref] at hv
          cases hv

/-! ## `poll_input(None)` -/

/-- `RSt` without the clause that the stream buffer is empty -/
structure RStB (K : RCtx) (L P : Bytes) (r : AReq) (m : MutexSt) (t : Transport) (dC dO : Bytes) : Prop where
  inv : ∃ G, RInvB K r G t.input dC dO
  lk : LockInv r m
  mx : m = none ∨ m = some 0
  log : ∃ O1, t.wlog = L ++ O1 ∧ O1 ++ r.sp.output = P ++ dO

theorem RStB.of {K : RCtx} {L P : Bytes} {r : AReq} {m : MutexSt} {t : Transport} {dC dO : Bytes}
    (h : RSt K L P r m t dC dO) : RStB K L P r m t dC dO := by
  obtain ⟨⟨G, hi⟩, h2, h3, h4⟩ := h
  exact ⟨⟨G, .of hi⟩, h2, h3, h4⟩

theorem RStB.toR {K : RCtx} {L P : Bytes} {r : AReq} {m : MutexSt} {t : Transport} {dC dO : Bytes}
    (h : RStB K L P r m t dC dO) (hp : r.sp.parsed = []) : RSt K L P r m t dC dO := by
  obtain ⟨⟨G, hi⟩, h2, h3, h4⟩ := h
  exact ⟨⟨G, hi.toR hp⟩, h2, h3, h4⟩

/-- What `poll_input(None)` returns to a `fill_buf`: `dC` = bytes extracted before the call. -/
def FillPost (K : RCtx) (L P dC : Bytes) (t : Transport) (r' : AReq) (m' : MutexSt)
    (t' : Transport) : IRes → Prop
  | .pending => (∃ dO', RSt K L P r' m' t' dC dO') ∧ t'.woken = true ∧ ans t' < ans t
  | .ready k d => d = [] ∧ k = r'.sp.parsed.length ∧ ∃ dO', RStB K L P r' m' t' (dC ++ r'.sp.parsed) dO' ∧
      r'.lock = .none ∧ m' = none ∧ (0 < k ∨ AtEnd K r' t' (dC ++ r'.sp.parsed) dO') ∧
      (K.final = true → r'.writeable = true)
  | .err _ => False
  | .panic _ => False

/-- **The read loop of `poll_input(None)`** on a benign transport: it moves the next piece of the
stream content into the stream buffer (nothing exactly at the end mark), or returns a transient
`Pending`; it never fails. -/
theorem inLoop_sim_none {K : RCtx} (hK : K.OK) {L P : Bytes} : ∀ (fuel : Nat) (r : AReq)
    (new : Bytes) (t : Transport) {dC dO : Bytes} {r' : AReq} {m' : MutexSt} {t' : Transport} {res : IRes},
    Ben t → (∃ G, RInv K r G (new ++ t.input) dC dO) → r.lock = .none → r.sp.output = [] →
    t.wlog = L ++ (P ++ dO) → new.length ≤ r.sp.free → t.input.length + 2 ≤ fuel →
    inLoop fuel r new none none t = (r', m', t', res) →
    TStep t t' ∧ FillPost K L P dC t r' m' t' res := by
  intro fuel
  induction fuel with
  | zero => intro r new t dC dO r' m' t' res _ _ _ _ _ _ hf; omega
  | succ k ih =>
    intro r new t dC dO r' m' t' res hb ⟨G, hi⟩ hlk hout hlog hfree hf h
    obtain ⟨p', st, o, hp, hdel, hcnt, ho, hi', hend, hidle, hstall⟩ := parse_rinv_none hK hi hfree
    rw [hout, List.nil_append] at ho
    simp only [inLoop, hp] at h
    split at h
    · -- the call buffered something or reached the end mark
      rename_i hc
      have hfin : ({ r with sp := p' } : AReq).isFinalStream = K.final := isFinal_of_match hi'.mt
      have key : ∀ w : Bool, (K.final = true → w = true) →
          (({ sp := p', lock := r.lock, writeable := w } : AReq), (none : MutexSt), t,
            IRes.ready st.stream st.delivered) = (r', m', t', res) →
          TStep t t' ∧ FillPost K L P dC t r' m' t' res := by
        intro w hw h
        cases h
        have hst : RStB K L P { sp := p', lock := r.lock, writeable := w } none t (dC ++ p'.parsed) (dO ++ o) :=
          ⟨⟨G ++ new, hi'.congr rfl rfl rfl rfl rfl rfl rfl rfl hi'.sinv⟩,
            lockInv_free hlk, Or.inl rfl, ⟨P ++ dO, hlog, by rw [ho, List.append_assoc]⟩⟩
        refine ⟨.refl _, hdel, hcnt, dO ++ o, hst, hlk, rfl, ?_, hw⟩
        by_cases hk : 0 < st.stream
        · exact Or.inl hk
        · right
          have hse : st.streamEnd = true := by
            simp only [Bool.or_eq_true, decide_eq_true_eq] at hc
            rcases hc with hc | hc
            · exact hc
            · exact absurd hc hk
          exact hend hse
      split at h
      · exact key true (fun _ => rfl) h
      · rename_i hcond
        refine key r.writeable (fun hf => ?_) h
        rw [hfin, hf] at hcond
        simpa using hcond
    · -- nothing buffered: compress, flush the replies, read more
      rename_i hc
      simp only [Bool.or_eq_true, decide_eq_true_eq, not_or, Bool.not_eq_true, Nat.not_lt,
        Nat.le_zero_eq] at hc
      obtain ⟨hraw, hne⟩ := hstall hc.1 hc.2
      have hp0 : p'.parsed = [] := List.length_eq_zero_iff.1 (by omega)
      rw [hp0, List.append_nil] at hi'
      have hi1 : RInv K { r with sp := p' } (G ++ new) t.input dC (dO ++ o) := hi'.toR hp0
      have hi2 : RInv K { r with sp := p'.compress } (G ++ new) t.input dC (dO ++ o) :=
        hi1.congr rfl rfl rfl rfl rfl rfl rfl rfl rfl (SInv_compress hi1.sinv)
      have hl2 : LockInv { r with sp := p'.compress } none := lockInv_free hlk
      rcases hpo : AReq.pollOutput { r with sp := p'.compress } none t with ⟨r3, m3, t3, ores⟩
      rw [hpo] at h
      obtain ⟨kk, e1, e2, e3, e4, e5, _, e7, e8⟩ := Async.pollOutput_spec hl2 hpo
      obtain ⟨b1, b2⟩ := pollOutput_ben hl2 (Or.inl rfl) hb hpo
      have hout2 : ({ r with sp := p'.compress } : AReq).sp.output = o := ho
      have hi3 : RInv K r3 (G ++ new) t3.input dC (dO ++ o) := by
        rw [e4.1]
        exact hi2.consumed e1
      have hlog3 : ∃ O1, t3.wlog = L ++ O1 ∧ O1 ++ r3.sp.output = P ++ (dO ++ o) :=
        ⟨P ++ dO ++ o.take kk, by rw [e3, hlog, hout2]; simp only [List.append_assoc], by
          rw [e1]
          show (P ++ dO ++ o.take kk) ++ (p'.compress.output.drop kk) = _
          rw [show p'.compress.output = o from ho]
          simp only [List.append_assoc, List.take_append_drop]⟩
      rcases b2 with rfl | ⟨rfl, bw, ba⟩
      · -- flushed
        obtain ⟨f1, f2, f3, f4⟩ := e7 rfl
        have hm3 : m3 = none := by
          by_cases ho0 : o = []
          · exact (f3 (by rw [hout2]; exact ho0)).2.1
          · exact f4 (by rw [hout2]; exact ho0)
        subst hm3
        have hlog3' : t3.wlog = L ++ (P ++ (dO ++ o)) := by
          obtain ⟨O1, g1, g2⟩ := hlog3
          rw [f1, List.append_nil] at g2
          rw [g1, g2]
        have hb3 := hb.step b1
        have hne3 : t3.input ≠ [] := by rw [e4.1]; exact hne
        simp only at h
        split at h
        · rename_i t1 hr
          have hwl : t1.wlog = t3.wlog := by have := read_wlog t3 r3.sp.free; rwa [hr] at this
          cases h
          obtain ⟨hinp, hw | hw⟩ := read_pending hb3 hr
          · exact ⟨b1.trans (read_tstep hr), ⟨⟨dO ++ o, ⟨⟨G ++ new, by rw [hinp]; exact hi3⟩, e5, Or.inl rfl,
              ⟨P ++ (dO ++ o), by rw [hwl, hlog3'], by rw [f1, List.append_nil]⟩⟩⟩, hw.1,
              by have := b1.ans_le; omega⟩⟩
          · exact absurd hw.1 hne3
        · rename_i t1 e hr
          exact (read_error hb3 hr).elim
        · rename_i t1 hr
          obtain ⟨_, _, _, hz⟩ := read_ok_ben hb3 hr
          have hfreepos : 0 < r3.sp.free := by
            have hpar := hi3.par
            have hcap := hi3.capK
            rw [e1] at hpar hcap ⊢
            simp only [Str.Parser.consumeOutput, Str.Parser.compress] at hpar hcap
            simp [Str.Parser.free, Str.Parser.freeStart, Str.Parser.compress, Str.Parser.consumeOutput, hpar, hcap]
            omega
          rcases hz rfl with hz | hz
          · omega
          · exact absurd hz.1 hne3
        · rename_i t1 bs hbs hr
          obtain ⟨hin, hwl, hlen, _⟩ := read_ok_ben hb3 hr
          have hs1 := read_tstep hr
          have hbne : bs ≠ [] := fun hx => hbs (by rw [hx])
          have hbpos : 0 < bs.length := List.length_pos_iff.mpr hbne
          have hlen1 : t1.input.length + 2 ≤ k := by
            have := congrArg List.length hin
            rw [e4.1] at this
            simp only [List.length_append] at this
            omega
          obtain ⟨q1, q4⟩ := ih r3 bs t1 (hb3.step hs1)
            ⟨G ++ new, by rw [← hin]; exact hi3⟩ f2 f1 (by rw [hwl, hlog3']) hlen hlen1 h
          refine ⟨(b1.trans hs1).trans q1, ?_⟩
          cases res with
          | pending =>
            exact ⟨q4.1, q4.2.1, by have := (b1.trans hs1).ans_le; have := q4.2.2; omega⟩
          | ready k d => exact q4
          | err e => exact q4
          | panic s => exact q4
      · -- the transport is busy: `Pending` with the lock held
        obtain ⟨g1, g2⟩ := e8 (by intro hx; cases hx)
        have hm3 : m3 = some 0 := by
          rcases g2 with ⟨g2, _⟩ | ⟨_, _, _, _, i, hi⟩
          · exact g2
          · cases hi
        cases h
        exact ⟨b1, ⟨dO ++ o, ⟨⟨G ++ new, hi3⟩, e5, Or.inr hm3, hlog3⟩⟩, bw, ba⟩

/-- **`poll_input(None)`** with an empty stream buffer. -/
theorem pollInput_sim_none {K : RCtx} (hK : K.OK) {L P : Bytes} {r : AReq} {m : MutexSt}
    {t : Transport} {dC dO : Bytes} {r' : AReq} {m' : MutexSt} {t' : Transport} {res : IRes}
    (hb : Ben t) (hs : RSt K L P r m t dC dO)
    (h : r.pollInput none m t = (r', m', t', res)) :
    TStep t t' ∧ FillPost K L P dC t r' m' t' res := by
  obtain ⟨⟨G, hi⟩, hl, hm, ⟨O1, hlog1, hlog2⟩⟩ := hs
  have hpar := hi.par
  simp only [AReq.pollInput, hpar] at h
  rcases hpo : r.pollOutput m t with ⟨r3, m3, t3, ores⟩
  rw [hpo] at h
  obtain ⟨kk, e1, e2, e3, e4, e5, _, e7, e8⟩ := Async.pollOutput_spec hl hpo
  obtain ⟨b1, b2⟩ := pollOutput_ben hl hm hb hpo
  have hi3 : RInv K r3 G t3.input dC dO := by
    rw [e4.1]
    exact hi.consumed e1
  have hlog3 : ∃ O1', t3.wlog = L ++ O1' ∧ O1' ++ r3.sp.output = P ++ dO :=
    ⟨O1 ++ r.sp.output.take kk, by rw [e3, hlog1, List.append_assoc], by
      rw [e1]; simp only [Str.Parser.consumeOutput, List.append_assoc, List.take_append_drop]; exact hlog2⟩
  rcases b2 with rfl | ⟨rfl, bw, ba⟩
  · obtain ⟨f1, f2, f3, f4⟩ := e7 rfl
    have hm3 : m3 = none := by
      by_cases ho0 : r.sp.output = []
      · have hm0 : m = none := by
          rcases hm with hm | hm
          · exact hm
          · have := hl.1.2 hm
            rw [hl.2 ho0] at this; cases this
        rw [(f3 ho0).2.1, hm0]
      · exact f4 ho0
    subst hm3
    have hlog3' : t3.wlog = L ++ (P ++ dO) := by
      obtain ⟨O1', g1, g2⟩ := hlog3
      rw [f1, List.append_nil] at g2
      rw [g1, g2]
    simp only at h
    obtain ⟨q1, q2⟩ := inLoop_sim_none hK (L := L) (P := P) _ r3 [] t3 (hb.step b1) ⟨G, by simpa using hi3⟩ f2 f1 hlog3'
      (by simp) (Nat.le_refl _) h
    refine ⟨b1.trans q1, ?_⟩
    cases res with
    | pending => exact ⟨q2.1, q2.2.1, by have := b1.ans_le; have := q2.2.2; omega⟩
    | ready k d => exact q2
    | err e => exact q2
    | panic s => exact q2
  · obtain ⟨g1, g2⟩ := e8 (by intro hx; cases hx)
    have hm3 : m3 = some 0 := by
      rcases g2 with ⟨g2, _⟩ | ⟨_, _, hmm, _, i, hi⟩
      · exact g2
      · rcases hm with hm | hm <;> rw [hm] at hi <;> cases hi
    cases h
    exact ⟨b1, ⟨dO, ⟨⟨G, hi3⟩, e5, Or.inr hm3, hlog3⟩⟩, bw, ba⟩

/-! ## The reader's view: what was handed to the caller, what is buffered -/

/-- `handed` = the bytes the caller has received (returned by `read`s, or consumed after `fill_buf`s);
the stream buffer holds the bytes extracted from the wire and not yet handed over. -/
def BSt (K : RCtx) (L P : Bytes) (r : AReq) (m : MutexSt) (t : Transport) (handed dO : Bytes) : Prop :=
  RStB K L P r m t (handed ++ r.sp.parsed) dO

/-- handed ++ buffered is a prefix of the stream content: in order, each byte once -/
theorem BSt.prefix {K : RCtx} (hK : K.OK) {L P : Bytes} {r : AReq} {m : MutexSt} {t : Transport}
    {handed dO : Bytes} (h : BSt K L P r m t handed dO) : handed ++ r.sp.parsed <+: K.C := by
  obtain ⟨⟨G, hi⟩, _⟩ := h
  exact hi.prefix hK

/-- `consume(k)` (and the buffered part of a `read`): the first `k` buffered bytes count as handed -/
theorem BSt.consume {K : RCtx} {L P : Bytes} {r : AReq} {m : MutexSt} {t : Transport} {handed dO : Bytes}
    (h : BSt K L P r m t handed dO) (k : Nat) :
    BSt K L P { r with sp := r.sp.consumeStream k } m t (handed ++ r.sp.parsed.take k) dO := by
  obtain ⟨⟨G, hi⟩, hl, hm, hlog⟩ := h
  refine ⟨⟨G, ?_⟩, hl, hm, hlog⟩
  have he : (handed ++ r.sp.parsed.take k) ++ (r.sp.consumeStream k).parsed = handed ++ r.sp.parsed := by
    rw [consumeStream_parsed, List.append_assoc, List.take_append_drop]
  show RInvB K _ G t.input ((handed ++ r.sp.parsed.take k) ++ (r.sp.consumeStream k).parsed) dO
  rw [he]
  exact hi.congr rfl rfl rfl rfl rfl rfl rfl rfl (SInv_consumeStream hi.sinv k)

/-- `poll_read` into an empty buffer: `Ok(0)`, nothing happens — not an end-of-file indication. -/
theorem read_zero (r : AReq) (m : MutexSt) (t : Transport) :
    r.pollInput (some 0) m t = (r, m, t, .ready 0 []) := by
  simp [AReq.pollInput]

/-- `poll_read` with buffered stream data: the buffered bytes come first, no transport call. -/
theorem read_buffered (r : AReq) (n : Nat) (m : MutexSt) (t : Transport) (hn : 0 < n)
    (hb : r.sp.parsed ≠ []) :
    r.pollInput (some n) m t =
      ({ r with sp := r.sp.consumeStream (min n r.sp.parsed.length) }, m, t,
        .ready (min n r.sp.parsed.length) (r.sp.parsed.take (min n r.sp.parsed.length))) := by
  obtain ⟨n', rfl⟩ : ∃ n', n = n' + 1 := ⟨n - 1, by omega⟩
  rcases hp : r.sp.parsed with _ | ⟨b, bs⟩
  · exact absurd hp hb
  · simp [AReq.pollInput, hp]

/-- `poll_fill_buf` with buffered stream data: the same slice again, no transport call. -/
theorem fill_buffered (r : AReq) (m : MutexSt) (t : Transport) (hb : r.sp.parsed ≠ []) :
    r.pollInput none m t = (r, m, t, .ready 0 []) := by
  rcases hp : r.sp.parsed with _ | ⟨b, bs⟩
  · exact absurd hp hb
  · simp [AReq.pollInput, hp]

/-- What a `read(n)`, `n > 0`, does to the reader's view. -/
def ReadOut (K : RCtx) (L P handed : Bytes) (t : Transport) (r' : AReq) (m' : MutexSt) (t' : Transport) :
    IRes → Prop
  | .pending => (∃ dO', BSt K L P r' m' t' handed dO') ∧ r'.sp.parsed = [] ∧ t'.woken = true ∧ ans t' < ans t
  | .ready k d => k = d.length ∧ (∃ dO', BSt K L P r' m' t' (handed ++ d) dO') ∧
      (k = 0 → handed = K.C ∧ r'.sp.parsed = [])
  | .err _ => False
  | .panic _ => False

theorem read_spec {K : RCtx} (hK : K.OK) {n : Nat} (hn : 0 < n) {L P : Bytes} {r : AReq} {m : MutexSt}
    {t : Transport} {handed dO : Bytes} {r' : AReq} {m' : MutexSt} {t' : Transport} {res : IRes}
    (hb : Ben t) (hs : BSt K L P r m t handed dO)
    (h : r.pollInput (some n) m t = (r', m', t', res)) :
    TStep t t' ∧ ReadOut K L P handed t r' m' t' res ∧
    (r.sp.parsed ≠ [] → res = .ready (min n r.sp.parsed.length) (r.sp.parsed.take n)) := by
  by_cases hp : r.sp.parsed = []
  · have hs' : RSt K L P r m t handed dO := by
      have := RStB.toR hs hp
      rwa [hp, List.append_nil] at this
    obtain ⟨h1, h2, _⟩ := pollInput_sim hK hn hb hs' h
    refine ⟨h1, ?_, fun hne => absurd hp hne⟩
    cases res with
    | pending =>
      obtain ⟨⟨dO', hst⟩, hw, ha⟩ := h2
      have hpar : r'.sp.parsed = [] := by obtain ⟨⟨G, hi⟩, _⟩ := hst; exact hi.par
      exact ⟨⟨dO', by unfold BSt; rw [hpar, List.append_nil]; exact .of hst⟩, hpar, hw, ha⟩
    | ready k d =>
      obtain ⟨hk, dO', hst, _, _, hend, _, _⟩ := h2
      have hpar : r'.sp.parsed = [] := by obtain ⟨⟨G, hi⟩, _⟩ := hst; exact hi.par
      refine ⟨hk, ⟨dO', by unfold BSt; rw [hpar, List.append_nil]; exact .of hst⟩, fun hk0 => ?_⟩
      have hd : d = [] := List.length_eq_zero_iff.1 (by omega)
      rcases hend with hpos | hat
      · omega
      · rw [hd, List.append_nil] at hat
        exact ⟨hat.1, hpar⟩
    | err e => exact h2
    | panic s => exact h2
  · rw [read_buffered r n m t hn hp] at h
    cases h
    have htk : r.sp.parsed.take (min n r.sp.parsed.length) = r.sp.parsed.take n := by
      rw [Nat.min_comm]; exact take_min_len _ _
    refine ⟨.refl _, ⟨by simp, ⟨dO, ?_⟩, fun hk0 => ?_⟩, fun _ => by rw [htk]⟩
    · exact hs.consume _
    · exfalso
      have : 0 < r.sp.parsed.length := List.length_pos_iff.2 hp
      omega

/-- What a `fill_buf` does to the reader's view: the buffered slice afterwards is `r'.sp.parsed`. -/
def FillOut (K : RCtx) (L P handed : Bytes) (t : Transport) (r' : AReq) (m' : MutexSt) (t' : Transport) :
    IRes → Prop
  | .pending => (∃ dO', BSt K L P r' m' t' handed dO') ∧ r'.sp.parsed = [] ∧ t'.woken = true ∧ ans t' < ans t
  | .ready _ d => d = [] ∧ (∃ dO', BSt K L P r' m' t' handed dO') ∧ (r'.sp.parsed = [] → handed = K.C)
  | .err _ => False
  | .panic _ => False

theorem fill_spec {K : RCtx} (hK : K.OK) {L P : Bytes} {r : AReq} {m : MutexSt}
    {t : Transport} {handed dO : Bytes} {r' : AReq} {m' : MutexSt} {t' : Transport} {res : IRes}
    (hb : Ben t) (hs : BSt K L P r m t handed dO)
    (h : r.pollInput none m t = (r', m', t', res)) :
    TStep t t' ∧ FillOut K L P handed t r' m' t' res ∧
    (r.sp.parsed ≠ [] → r' = r ∧ t' = t) := by
  by_cases hp : r.sp.parsed = []
  · have hs' : RSt K L P r m t handed dO := by
      have := RStB.toR hs hp
      rwa [hp, List.append_nil] at this
    obtain ⟨h1, h2⟩ := pollInput_sim_none hK hb hs' h
    refine ⟨h1, ?_, fun hne => absurd hp hne⟩
    cases res with
    | pending =>
      obtain ⟨⟨dO', hst⟩, hw, ha⟩ := h2
      have hpar : r'.sp.parsed = [] := by obtain ⟨⟨G, hi⟩, _⟩ := hst; exact hi.par
      exact ⟨⟨dO', by unfold BSt; rw [hpar, List.append_nil]; exact .of hst⟩, hpar, hw, ha⟩
    | ready k d =>
      obtain ⟨hd, hk, dO', hst, _, _, hend, _⟩ := h2
      refine ⟨hd, ⟨dO', hst⟩, fun hp' => ?_⟩
      rcases hend with hpos | hat
      · rw [hp'] at hk; simp at hk; omega
      · rw [hp', List.append_nil] at hat
        exact hat.1
    | err e => exact h2
    | panic s => exact h2
  · rw [fill_buffered r m t hp] at h
    cases h
    exact ⟨.refl _, ⟨rfl, ⟨dO, hs⟩, fun hp' => absurd hp' hp⟩, fun _ => ⟨rfl, rfl⟩⟩

/-! ## `writeable` is only ever set by a `poll_input` that returns `Ready` -/

theorem inLoop_wframe : ∀ (fuel : Nat) (r : AReq) (new : Bytes) (dest : Option Nat) (m : MutexSt) (t : Transport)
    {r' : AReq} {m' : MutexSt} {t' : Transport} {res : IRes},
    inLoop fuel r new dest m t = (r', m', t', res) → (∀ k d, res ≠ .ready k d) → r'.writeable = r.writeable := by
  intro fuel
  induction fuel with
  | zero => intro r new dest m t r' m' t' res h _; simp only [inLoop] at h; cases h; rfl
  | succ n ih =>
    intro r new dest m t r' m' t' res h hnr
    simp only [inLoop] at h
    repeat' (split at h)
    all_goals first
      | (cases h; rfl)
      | (cases h; exact absurd rfl (hnr _ _))
      | (have hw := (Run.pollOutput_spec ‹_›).2.2.1
         cases h
         exact hw)
      | (have hw := (Run.pollOutput_spec ‹_›).2.2.1
         have := ih _ _ _ _ _ h hnr
         exact this.trans hw)

theorem pollInput_wframe {r : AReq} {dest : Option Nat} {m : MutexSt} {t : Transport}
    {r' : AReq} {m' : MutexSt} {t' : Transport} {res : IRes}
    (h : r.pollInput dest m t = (r', m', t', res)) (hnr : ∀ k d, res ≠ .ready k d) :
    r'.writeable = r.writeable := by
  simp only [AReq.pollInput] at h
  repeat' (split at h)
  all_goals first
    | (cases h; exact absurd rfl (hnr _ _))
    | (have hw := (Run.pollOutput_spec ‹_›).2.2.1
       cases h
       exact hw)
    | (have hw := (Run.pollOutput_spec ‹_›).2.2.1
       have := inLoop_wframe _ _ _ _ _ _ h hnr
       exact this.trans hw)

/-! ## `RCtx.OK` for a well-formed stream -/

/-- A well-formed stream — data records of the active stream and noise (`Body`), the record that
ends it, anything well formed behind it — whose management `GetValues` bodies fit the buffer, gives
an `RCtx.OK`. -/
theorem rctx_ok_of_body (E : Str.Cfg) (hs : E.s = 5 ∨ E.s = 8) (hid : E.id < 65536) {content : Bytes}
    {body : List Spec.Rec} (hb : Body E.id E.s content body) (e : Spec.Rec) (he : e.WF)
    (hcls : rclass E e = .endStream) (rest : List Spec.Rec) (hrest : ∀ r ∈ rest, r.WF)
    (rq : Request) (cap : Nat) (h8 : 8 ≤ cap) (hfit : NoiseFits cap (body ++ e :: rest)) :
    RCtx.OK ⟨E, rq, cap, Spec.serAll (body ++ e :: rest), content, Spec.owedStream E.id E.s E.mc body,
      Spec.serAll (e :: rest)⟩ := by
  have href := refWire_stream E hs hid hb e he hcls rest hrest
  have hwf : ∀ r ∈ body ++ e :: rest, r.WF := by
    intro r hr
    rcases List.mem_append.1 hr with hr | hr
    · exact body_wf hid hb r hr
    · rcases List.mem_cons.1 hr with rfl | hr
      · exact he
      · exact hrest r hr
  exact ⟨href, stream_fits E _ hwf (by rw [href]; intro h; cases h) h8 hfit, h8⟩

end Fcgi.C09E
