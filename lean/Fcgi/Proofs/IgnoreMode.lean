import Fcgi.Proofs.E2EIgnore
import Fcgi.Props.C18
/-!
# The stream parser with no active stream delivers nothing

`Ign p`: no active stream, and the state is not `Stream`.  `set_stream(None)` establishes it
(`switchTo` demotes `Stream` to `Skip`), every operation keeps it — `parse_head` enters `Stream` only
for a record of the ACTIVE stream (`C18.head_activates`) —, and under it no call delivers a byte,
neither into `dest` nor into the stream buffer (`ops_ign`).
-/
namespace Fcgi.Str
open Fcgi Fcgi.Req

/-- ignore mode -/
def Ign (p : Parser) : Prop := p.stream = none ∧ p.state ≠ .stream

def KeepsIgn : Iter → Prop
  | .cont q _ _ => Ign q
  | .stop q _ => Ign q
  | .err q _ => Ign q
  | .panic _ => True

theorem parsePayload_ign (p : Parser) (dest : Option Nat) (res : Status) (h : Ign p) :
    KeepsIgn (parsePayload p dest res) := by
  obtain ⟨h1, h2⟩ := h
  unfold parsePayload
  cases hst : p.state with
  | stream => exact absurd hst h2
  | skip =>
    simp only []
    split
    · trivial
    · split <;> exact ⟨h1, by simp [hst]⟩
  | values v =>
    by_cases hlt : p.raw.length < p.pay
    · simp only [hlt, if_true]
      split
      · trivial
      · split <;> exact ⟨h1, by simp⟩
    · simp only [hlt, if_false]
      split
      · trivial
      · split <;> exact ⟨h1, by simp⟩

theorem parseHead_ign (p : Parser) (dest : Option Nat) (res : Status) (hinv : SInv p) (h : Ign p) :
    KeepsIgn (parseHead p dest res) := by
  have hfr := E2E.parseHead_fr p dest res
  cases hph : parseHead p dest res with
  | cont q d r =>
    rw [hph] at hfr
    obtain ⟨b0, b1, b2, b3, b4, b5, b6, b7, rest, -, -, -, -, hs, -⟩ := hfr
    refine ⟨hs.trans h.1, fun hst => ?_⟩
    obtain ⟨_, _, _, _, _, _, _, _, _, head, -, -, hact, -⟩ := C18.head_activates hinv hph hst
    rw [h.1] at hact; cases hact
  | stop q r => rw [hph] at hfr; cases hfr; exact h
  | err q e => rw [hph] at hfr; cases hfr; exact h
  | panic s => trivial

theorem padHead_ign (q : Parser) (d : Option Nat) (r : Status) (hinv : SInv q) (h : Ign q) :
    KeepsIgn (E2E.padHead q d r) := by
  unfold E2E.padHead
  split
  · split
    · exact h
    · refine parseHead_ign _ d r ?_ h
      obtain ⟨a, b, c, e, f, g⟩ := hinv
      refine ⟨?_, b, by simp, e, f, g⟩
      simp only [Parser.freeStart, List.length_drop] at a ⊢
      omega
  · exact parseHead_ign q d r hinv h

theorem iter_ign (p : Parser) (dest : Option Nat) (res : Status) (hinv : SInv p) (h : Ign p) :
    KeepsIgn (iter p dest res) := by
  rw [E2E.iter_eq]
  by_cases hpay : p.pay > 0
  · simp only [hpay, if_true]
    have h1 := parsePayload_ign p dest res h
    have hg := parsePayload_good p dest res
    cases hpp : parsePayload p dest res with
    | cont q d r =>
      rw [hpp] at h1 hg
      exact padHead_ign q d r (hg.2.1 hinv) h1
    | stop q r => rw [hpp] at h1; exact h1
    | err q e => rw [hpp] at h1; exact h1
    | panic s => trivial
  · simp only [hpay, if_false]
    exact padHead_ign p dest res hinv h

/-- the loop in ignore mode: stays in ignore mode, the stream buffer and `dest` are not touched -/
theorem loop_ign : ∀ (n : Nat) (p : Parser) (dest : Option Nat) (r : Status), p.raw.length ≤ n → SInv p → Ign p →
    (∀ s, (loop p dest r).2 ≠ .panic s) →
    Ign (loop p dest r).1 ∧ (loop p dest r).1.parsed = p.parsed ∧
      ∀ st, (loop p dest r).2 = .ok st → st.delivered = r.delivered := by
  intro n
  induction n with
  | zero =>
    intro p dest r hn _ h _
    have he : p.raw = [] := List.length_eq_zero_iff.1 (by omega)
    have hl : loop p dest r = (p, .ok r) := by rw [loop.eq_1 p dest r]; simp [he]
    rw [hl]
    exact ⟨h, rfl, fun st hst => by cases hst; rfl⟩
  | succ n ih =>
    intro p dest r hn hinv h hnp
    rw [loop.eq_1 p dest r] at hnp ⊢
    by_cases he : p.raw.isEmpty
    · rw [if_pos he]
      exact ⟨h, rfl, fun st hst => by cases hst; rfl⟩
    · simp only [he, Bool.false_eq_true, if_false] at hnp ⊢
      have hi := iter_ign p dest r hinv h
      have hnd := C18.iter_only_active p dest r (Or.inl h.2)
      have hg := iter_good p dest r
      cases hit : iter p dest r with
      | stop q r' =>
        rw [hit] at hi hnd
        exact ⟨hi, hnd.1, fun st hst => by cases hst; exact hnd.2.1⟩
      | err q e =>
        rw [hit] at hi hnd
        exact ⟨hi, hnd, fun st hst => by cases hst⟩
      | panic s => rw [hit] at hnp; exact absurd rfl (hnp s)
      | cont q d r' =>
        rw [hit] at hi hnd hg hnp
        simp only at hnp ⊢
        obtain ⟨⟨hp1, hd1, -⟩, hdd⟩ := hnd
        by_cases hlt : q.raw.length < p.raw.length
        · simp only [hlt, if_true] at hnp ⊢
          obtain ⟨a, b, c⟩ := ih q d r' (by omega) (hg.2.2 hinv) hi hnp
          exact ⟨a, b.trans hp1, fun st hst => (c st hst).trans hd1⟩
        · simp only [hlt, if_false] at hnp
          exact absurd rfl (hnp _)

/-- **A legal `parse` call in ignore mode delivers nothing.** -/
theorem parse_ign_nodata {p : Parser} {new : Bytes} {dest : Option Nat} (hinv : SInv p) (h : Ign p)
    (hl : Legal p (.parse new dest)) :
    Ign (p.parse new dest).1 ∧ deliveredOp p (.parse new dest) = [] := by
  obtain ⟨hd, hfree⟩ := hl
  have hnp : ¬ Panics p (.parse new dest) := (step_safe hinv (show Legal p (.parse new dest) from ⟨hd, hfree⟩)).2
  have heq := parse_eq_loop p new dest hinv.1 hd hfree
  have hf := SInv_feed hinv hfree
  have hif : Ign (p.feed new) := h
  obtain ⟨a, b, c⟩ := loop_ign _ (p.feed new) dest (initStatus p) (Nat.le_refl _) hf hif
    (fun s hs => hnp ⟨s, by rw [heq]; exact hs⟩)
  rw [← heq] at a b c
  refine ⟨a, ?_⟩
  cases hres : p.parse new dest with
  | mk p' res =>
    rw [hres] at b c
    cases res with
    | ok st =>
      cases dest with
      | some n =>
        simp only [deliveredOp, hres]
        exact c st rfl
      | none =>
        simp only [deliveredOp, hres]
        have : p'.parsed = p.parsed := b
        rw [this, List.drop_length]
    | err e => simp only [deliveredOp, hres]
    | panic s => simp only [deliveredOp, hres]

/-- any operation keeps ignore mode -/
theorem applyOp_ign {p : Parser} {op : Op} (hinv : SInv p) (h : Ign p) (hl : Legal p op) :
    Ign (applyOp p op) ∧ deliveredOp p op = [] := by
  cases op with
  | parse new dest => exact parse_ign_nodata hinv h hl
  | consumeStream amt => exact ⟨h, rfl⟩
  | compress => exact ⟨h, rfl⟩
  | consumeOutput amt => exact ⟨h, rfl⟩
  | setStream st =>
    refine ⟨?_, rfl⟩
    simp only [applyOp]
    cases st with
    | none =>
      rw [setStream_none, if_pos h.1]
      exact h
    | some s =>
      rw [C18.setStream_some_of_none_rejected p s h.1]
      exact h

/-- **No history delivers anything in ignore mode.** -/
theorem ops_ign : ∀ (ops : List Op) (p : Parser), SInv p → Ign p → LegalAll p ops →
    Ign (applyOps p ops) ∧ deliveredOps p ops = [] := by
  intro ops
  induction ops with
  | nil => intro p _ h _; exact ⟨h, rfl⟩
  | cons op t ih =>
    intro p hinv h hl
    obtain ⟨h1, h2⟩ := applyOp_ign hinv h hl.1
    obtain ⟨a, b⟩ := ih (applyOp p op) (step_safe hinv hl.1).1 h1 hl.2
    exact ⟨a, by simp only [deliveredOps, h2, b, List.append_nil]⟩

/-- `set_stream(None)` enters ignore mode -/
theorem ign_of_setNone (p : Parser) (hI : p.stream = none → p.state ≠ .stream) :
    Ign (applyOp p (.setStream none)) := by
  simp only [applyOp, setStream_none]
  by_cases h : p.stream = none
  · rw [if_pos h]
    exact ⟨h, hI h⟩
  · rw [if_neg h]
    refine ⟨rfl, ?_⟩
    show (if p.state == .stream then SState.skip else p.state) ≠ .stream
    cases p.state <;> simp

end Fcgi.Str
