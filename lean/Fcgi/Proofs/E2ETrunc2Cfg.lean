import Fcgi.Proofs.E2ETrunc2

/-!
# C12 end to end, part 6: the configuration of a wire cut inside the terminating record

`cutCfg g n`: the Responder configuration `g` (`Cfg.OK`) with its terminating `Stdin` record cut
after `n` bytes, `8 ≤ n < |record|`.  `cfg2_cut`: it satisfies `Cfg2` — the reference takes the cut
record's header for the end of the stream, the request parser swallows the cut record silently.
-/
namespace Fcgi.C12E
open Fcgi Fcgi.Req Fcgi.Str Fcgi.Async Fcgi.Run Fcgi.Spec Fcgi.E2E

def cutCfg (g : E2E.Cfg) (n : Nat) : E2E.Cfg :=
  { g with X := serAll g.body ++ g.term.ser.take n, U := g.term.ser.take n }

/-- the reference on the header (and part of the padding) of a record that ends the stream -/
theorem refTail_end (E : Str.Cfg) {r : Rec} (hr : r.WF) (hc : rclass E r = .endStream) {tail : Bytes}
    (ht : tail <+: r.ser) (hl : tail.length < r.ser.length) (h8 : 8 ≤ tail.length) :
    refTail E tail = ⟨[], [], .eos, tail⟩ := by
  obtain ⟨rest, rfl, _, _⟩ := tail_hdr ht hl (by omega)
  have hcls := hclass_rec E r hr
  simp only [hdr, List.cons_append, List.nil_append, refTail]
  rw [hcls, hc]

theorem cfg2_cut {g : E2E.Cfg} (ok : g.OK) (hr : g.p.role = 1) {n : Nat} (h8 : 8 ≤ n)
    (hn : n < g.term.ser.length) : Cfg2 (cutCfg g n) := by
  cases ok.shape with
  | authorizer hr2 hX hU hOt hrv hs hfu0 => omega
  | filterU hr3 hb1 hb2 hf hf2 hp hp2 hX2 hX hU hOt hrv hs hfu0 => omega
  | responderU hr1 hb hf hp hX2 hX hU hOt hrv hs hfu =>
    have hid := (pid_lt ok).2
    have hK := kok ok hb hf hp [] (fun r hr => by cases hr) (fun r hr => by cases hr) (by rw [hX2]; rfl)
      (by rw [hX, hX2, List.append_nil])
    have htw := term_wf ok hp
    have htp : g.term.ser.take n <+: g.term.ser := List.take_prefix _ _
    have htl : (g.term.ser.take n).length = n := by rw [List.length_take]; omega
    have hcls : rclass ⟨g.p.id, g.p.role, 5, g.mc⟩ g.term = .endStream := by
      simp [rclass, E2E.Cfg.term, RT.isInputStream]
    have hUpre : ∀ F, F <+: g.term.ser.take n → F <+: g.U := fun F hF => by rw [hU]; exact hF.trans htp
    refine ⟨ok.wf, ok.pairs, ok.noise, hr, ⟨?_, ?_, hK.cap8⟩, hOt, hrv, hs, hfu, ?_, ?_⟩
    · show refWire ⟨g.p.id, g.p.role, 5, g.mc⟩ (serAll g.body ++ g.term.ser.take n) =
        ⟨g.content, owedStream g.p.id 5 g.mc g.body, .eos, g.term.ser.take n⟩
      rw [refWire_of_presentation _ (body_wf hid hb) (tail_nextRec htw htp (by omega)),
        refRun_body (E := ⟨g.p.id, g.p.role, 5, g.mc⟩) (Or.inl rfl) hb,
        refTail_end _ htw hcls htp (by omega) (by omega)]
      simp [glue, RefOut.pre]
    · intro G hG hv
      refine hK.fits G (hG.trans ?_) hv
      show serAll g.body ++ g.term.ser.take n <+: g.X
      rw [hX]
      exact (List.prefix_append_right_inj _).2 htp
    · intro F hF
      refine ns' ok F ((hUpre F hF).trans ?_)
      exact List.prefix_append _ _
    · intro F hF
      exact run_U_prefix ok (hUpre F hF)

/-- the first `|A| + i` bytes of `A ++ B` -/
theorem take_add_append (A B : Bytes) (i : Nat) : (A ++ B).take (A.length + i) = A ++ B.take i := by
  induction A with
  | nil => simp
  | cons a A ih =>
    rw [List.length_cons, show A.length + 1 + i = (A.length + i) + 1 by omega, List.cons_append, List.take_succ_cons, ih]
    rfl

end Fcgi.C12E
