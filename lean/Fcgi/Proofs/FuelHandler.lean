import Fcgi.Proofs.FuelPool
/-!
# The handler interpreter: byte pool and fuel, for ALL scripts of the harness DSL (incl. `readAll`)

* `handlerPoll_pool` — one poll of the handler never enlarges the pool
  `transport input + unconsumed parser input + stream buffer`;
* `handlerPoll_fuel2` — with `scriptCost h + pool r e.tr < fuel` a panic result of `handlerPoll` is a
  modelled panic site of the Rust, never the fuel guard.  Cost per op (`Run.opCost`): 1, and
  `|data| + 1` for `writeAll data`; every iteration of a `readAll` (one `read` into a 64-byte buffer
  that returned `k > 0` bytes) is paid for by the `k ≥ 1` bytes it took out of the pool.
-/
namespace Fcgi.Run
open Fcgi Fcgi.Req Fcgi.Str Fcgi.Async

theorem pool_le_of_tle {r : AReq} {t t' : Transport} (h : TLe t t') : pool r t' ≤ pool r t := by
  have := h.input_len
  simp only [pool]; omega

theorem pool_consume (r : AReq) (k : Nat) (t : Transport) :
    pool { r with sp := r.sp.consumeStream k } t ≤ pool r t := by
  simp only [pool, Str.Parser.consumeStream, List.length_drop]; omega

theorem pool_setStream {r r1 : AReq} {s : Nat} (h : r.setStream s = some r1) (t : Transport) :
    pool r1 t ≤ pool r t := by
  simp only [AReq.setStream] at h
  split at h
  · cases h
    obtain ⟨a, b⟩ := setStream_pool ‹_›
    simp only [pool, a]; omega
  · cases h

theorem pool_ev (r : AReq) (e : Env) (s : String) : pool r (e.ev s).tr = pool r e.tr := rfl

/-- discharge the pool goal of one branch of `handlerPoll` -/
macro "hp_pool" : tactic =>
  `(tactic| (try simp only [pool_ev]) <;> first
    | exact Nat.le_refl _
    | exact Nat.le_trans (Nat.le_add_right _ _) (pollInput_pool ‹_›).1
    | exact writeablePoll_pool ‹_›
    | exact pool_le_of_tle (pollWrite_le ‹_›)
    | exact pool_le_of_tle (pollFlush_le ‹_›)
    | exact pool_consume _ _ _
    | exact pool_setStream ‹_› _)

theorem handlerPoll_pool : ∀ (fuel : Nat) (r : AReq) (h : HState) (e : Env)
    {r' : AReq} {h' : HState} {e' : Env} {res : HRes},
    handlerPoll fuel r h e = (r', h', e', res) → pool r' e'.tr ≤ pool r e.tr := by
  intro fuel
  induction fuel with
  | zero => intro r h e r' h' e' res hh; simp only [handlerPoll] at hh; cases hh; exact Nat.le_refl _
  | succ n ih =>
    intro r h e r' h' e' res hh
    simp only [handlerPoll] at hh
    repeat' (split at hh)
    all_goals first
      | (cases hh; hp_pool)
      | (refine Nat.le_trans (ih _ _ _ hh) ?_; hp_pool)


theorem curCost_readAll (sub : HSub) : curCost sub .readAll = 1 := by cases sub <;> rfl

/-- **Handler fuel, all ops.**  If the fuel exceeds `scriptCost h` (1 per op, `|data| + 1` per
`writeAll data`) plus the byte pool, a panic result is a modelled panic site of the Rust — not the
fuel guard. -/
theorem handlerPoll_fuel2 : ∀ (fuel : Nat) (r : AReq) (h : HState) (e : Env)
    {r' : AReq} {h' : HState} {e' : Env} {s : String},
    handlerPoll fuel r h e = (r', h', e', .panic s) → scriptCost h + pool r e.tr < fuel → RealSite s := by
  intro fuel
  induction fuel with
  | zero => intro r h e r' h' e' s hh hf; omega
  | succ n ih =>
    intro r h e r' h' e' s hh hf
    simp only [handlerPoll] at hh
    split at hh
    · cases hh
    · rename_i op rest hops
      have hcost : ∀ (w : List (Option Writer)),
          scriptCost { ops := rest, sub := .fresh, writers := w, propagate := h.propagate } + pool r e.tr < n := by
        intro w
        rw [scriptCost_fresh]
        simp only [scriptCost, hops] at hf
        have := curCost_pos h.sub op
        omega
      repeat' (split at hh)
      all_goals first
        | (cases hh; done)
        | (cases hh; exact .of_async (by decide))
        | (cases hh; exact (pollInput_spec ‹_›).2 _ rfl)
        | (cases hh; exact (writeablePoll_spec ‹_›).2 _ rfl)
        | (cases hh; exact pollWrite_panic ‹_›)
        | (cases hh; exact pollFlush_panic ‹_›)
        | (refine ih _ _ _ hh (Nat.lt_of_le_of_lt (Nat.add_le_add (Nat.le_refl _) ?_) (hcost _)); hp_pool)
        | skip
      all_goals
        have hlen : ∀ l : Bytes, ¬ l.isEmpty = true → l.length ≠ 0 := by
          intro l hl h0; exact hl (by simp [List.length_eq_zero_iff.1 h0])
        have hk0 := Nat.pos_of_ne_zero ‹_ = 0 → False›
        refine ih _ _ _ hh ?_
        first
          | -- `readAll`: the read returned `k > 0` bytes, taken out of the pool
            (have hpi := ‹r.pollInput (some 64) e.mutex e.tr = _›
             obtain ⟨h1, h2⟩ := pollInput_pool hpi
             have hk := h2 64 _ _ rfl rfl
             simp only [scriptCost, hops, curCost_readAll] at hf ⊢
             simp only [IRes.got] at h1
             omega)
          | -- `writeAll`, continuing a write in progress
            (have hpl := pool_le_of_tle (r := r) (pollWrite_le ‹Writer.pollWrite _ _ _ _ _ = _›)
             have hsub := ‹h.sub = HSub.writeRest _›
             have := hlen _ ‹¬ List.isEmpty _ = true›
             simp only [scriptCost, hops, hsub, curCost, List.length_drop] at hf ⊢
             omega)
          | -- `writeAll`, first record
            (have hpl := pool_le_of_tle (r := r) (pollWrite_le ‹Writer.pollWrite _ _ _ _ _ = _›)
             have hns := ‹∀ rd, h.sub = HSub.writeRest rd → False›
             have hsub : ∀ i data, curCost h.sub (HOp.writeAll i data) = data.length + 1 := by
               intro i data
               cases hs : h.sub with
               | writeRest rd => exact absurd hs (fun x => hns rd x)
               | _ => rfl
             have := hlen _ ‹¬ List.isEmpty _ = true›
             simp only [scriptCost, hops, hsub] at hf
             simp only [scriptCost, hops, curCost, List.length_drop]
             omega)

end Fcgi.Run
