import Fcgi.Proofs.E2EPrefixConn
/-!
# End-to-end composition — generic stages

What the executors of `Proofs/E2EUnread.lean` and `Proofs/E2EPrefixConn.lean` have in common, once:

* `FStage` / `fstage_poll`: the `parse_request` of a request up to the first poll of its handler
  (`FirstPoll`: what the variant does from there);
* `LStage` / `lstage_poll`: `close` in its two last `write_all`s (KEEP_CONN);
* `GRes S A`: a poll ends suspended in a stage `S`, or reaches `A`;
* `run_stages`: the executor for stages `S` whose polls end in `S` or at the start of the next
  `parse_request` (`ZTailAt`, indexed by what the variant has to remember).
-/
namespace Fcgi.E2E
open Fcgi Fcgi.Req Fcgi.Str Fcgi.Async Fcgi.Run Fcgi.Spec

/-- a poll ends suspended (transient `Pending`) in a stage `S`, or gets to a configuration `A` -/
def GRes (S A : Conn → Prop) (N : Nat) (c : Conn) : Prop :=
  (∃ c', Halts N c c' .pending ∧ Link c c' ∧ S c' ∧ c'.env.tr.woken = true ∧
      ans c'.env.tr < ans c.env.tr) ∨
  (∃ k c1, k ≤ N ∧ Steps k c c1 ∧ Link c c1 ∧ A c1)

theorem GRes.of_steps {S A : Conn → Prop} {k N : Nat} {c c1 : Conn} (hs : Steps k c c1)
    (hl : Link c c1) (h : GRes S A N c1) : GRes S A (k + N) c := by
  rcases h with ⟨c', hh, hl2, hS, hw, ha⟩ | ⟨k2, c2, hk, hs2, hl2, haf⟩
  · exact Or.inl ⟨c', hh.of_steps hs, hl.trans hl2, hS, hw, by have := hl.ts.ans_le; omega⟩
  · exact Or.inr ⟨k + k2, c2, by omega, hs.trans hs2, hl.trans hl2, haf⟩

theorem GRes.mono {S A : Conn → Prop} {N M : Nat} {c : Conn} (h : GRes S A N c) (hm : N ≤ M) : GRes S A M c := by
  rcases h with ⟨c', hh, r⟩ | ⟨k2, c2, hk, r⟩
  · exact Or.inl ⟨c', hh.mono hm, r⟩
  · exact Or.inr ⟨k2, c2, by omega, r⟩

theorem GRes.imp {S S' A A' : Conn → Prop} {N : Nat} {c : Conn} (h : GRes S A N c)
    (hS : ∀ c', Link c c' → S c' → S' c') (hA : ∀ c', Link c c' → A c' → A' c') : GRes S' A' N c := by
  rcases h with ⟨c', hh, hl, hs, r⟩ | ⟨k2, c2, hk, hst, hl, ha⟩
  · exact Or.inl ⟨c', hh, hl, hS c' hl hs, r⟩
  · exact Or.inr ⟨k2, c2, hk, hst, hl, hA c2 hl ha⟩

/-! ## `parse_request` of the request -/

/-- the hypotheses on the preamble -/
structure FOK (g : Cfg) : Prop where
  wf : WellFormedPreamble g.p g.recs
  pairs : ∀ q ∈ g.p.pairs, (NV.enc q).length ≤ alignedBufsize g.b
  noise : NoiseFits (alignedBufsize g.b) g.recs

theorem FOK.ns {g : Cfg} (ok : FOK g) : NoStuckW g.cap g.mc g.W :=
  noStuck_of ok.wf g.X g.b g.mc ok.pairs ok.noise

theorem FOK.front {g : Cfg} (ok : FOK g) {us : List Rec} (hu : LeftOK (alignedBufsize g.b) us) : FOK (g.front us) :=
  ⟨wf_idle ok.wf us hu.1, ok.pairs, noiseFits_app hu.2 ok.noise⟩

inductive FStage (g : Cfg) : Conn → Prop
  | start {c : Conn} {raw : Bytes} (hph : c.phase = .parseReq ⟨g.cap, raw, .header, g.mc⟩ .start)
      (hwire : raw ++ c.env.tr.input = g.W) (hraw : raw.length ≤ g.cap) (hlog : c.env.tr.wlog = g.L0)
      (hb : Ben c.env.tr) (hstop : c.stop = false)
      (hsc : c.scripts = (g.hscript, true) :: g.more) (hm : c.env.mutex = none)
      (hev : hsCount c.env.tr.events = g.hs0) : FStage g c
  | parse {c : Conn} {F : Bytes} (hst : PSt g.cap g.mc g.W g.L0 [] c F)
      (hsc : c.scripts = (g.hscript, true) :: g.more) (hm : c.env.mutex = none)
      (hev : hsCount c.env.tr.events = g.hs0) : FStage g c

theorem FStage.cong {g : Cfg} {c c' : Conn} (h : FStage g c)
    (hph : c'.phase = c.phase) (hsc : c'.scripts = c.scripts) (hstop : c'.stop = c.stop)
    (hm : c'.env.mutex = c.env.mutex) (hs : TrSame c.env.tr c'.env.tr) : FStage g c' := by
  cases h with
  | start hph0 hwire hraw hlog hb hstop0 hsc0 hm0 hev =>
    exact .start (hph.trans hph0) (by rw [hs.input]; exact hwire) hraw (hs.wlog.trans hlog) (hs.ben hb)
      (hstop.trans hstop0) (hsc.trans hsc0) (hm.trans hm0) (hs.hs.trans hev)
  | parse hst hsc0 hm0 hev =>
    exact .parse (hst.cong hph hstop hs) (hsc.trans hsc0) (hm.trans hm0) (hs.hs.trans hev)

/-- what the variant does from the first poll of the handler -/
def FirstPoll (g : Cfg) (S A : Conn → Prop) : Prop :=
  ∀ {c : Conn} {e1 : Bytes},
    c.phase = .handler (AReq.new (Str.Parser.fromParser g.cap g.p.request e1 g.mc))
      { ops := g.hscript, propagate := true } →
    e1.length ≤ g.cap → e1 ++ c.env.tr.input = g.X → c.env.tr.wlog = g.L1 →
    c.env.mutex = none → Ben c.env.tr → c.stop = false → Ev1 g c.env.tr →
    c.scripts = g.more → GRes S A 4 c

theorem fparse_poll {g : Cfg} (ok : FOK g) {S A : Conn → Prop} (hS : ∀ c, FStage g c → S c)
    (hfirst : FirstPoll g S A) {c : Conn} {F : Bytes}
    (hst : PSt g.cap g.mc g.W g.L0 [] c F) (hsc : c.scripts = (g.hscript, true) :: g.more)
    (hm : c.env.mutex = none) (hev : hsCount c.env.tr.events = g.hs0) :
    GRes S A (2 * c.env.tr.input.length + 8) c := by
  obtain ⟨n, c1, F1, hn, hs, hfr, hout⟩ := parse_loop (cap24 g) ok.ns _ c F hst (Nat.le_refl _)
  have hnb : n ≤ 2 * c.env.tr.input.length + 2 := by have := wbit_le c; omega
  rcases hout with ⟨c2, h1, h2, h3, h4, h5⟩ | ⟨wrest, t', hph, hf, hw, hstop1, hben1, hrem1, hwa, hlog, hts', hinp'⟩ |
      ⟨hin, hnf, hph, hst1⟩
  · refine Or.inl ⟨c2, ⟨n, c1, by omega, hs, h1⟩, hfr.link.trans h3.link, ?_, h4,
      by have := hfr.ts.ans_le; omega⟩
    have hts := hfr.ts.trans h3.ts
    exact hS _ (.parse h2 (h3.scripts.trans (hfr.scripts.trans hsc)) (h3.mutex.trans (hfr.mutex.trans hm))
      (hts.hs.trans hev))
  · -- the preamble is complete and its replies are written: the handler starts
    have hsc1 : c1.scripts = (g.hscript, true) :: g.more := hfr.scripts.trans hsc
    have hmx1 : c1.env.mutex = none := hfr.mutex.trans hm
    have hw' : F1 ++ c1.env.tr.input = g.W := by simpa using hw
    have hF1 : F1 <+: serAll g.recs ++ g.X := ⟨c1.env.tr.input, by simpa [Cfg.W] using hw'⟩
    rcases C06.run_wire_state ok.wf g.X hF1 g.mc with ⟨e1, hFe, he1, hrun⟩ | ⟨t, _, _, hnf⟩
    · have hd : (track g.cap g.mc F1).state = .done g.p.request := by simp only [track, hrun]
      obtain ⟨r, hrq, hr, hstep⟩ := C07.done_starts_handler c1 (track g.cap g.mc F1) wrest [] t' g.p.request
        hph hstop1 hwa hd
      rw [hsc1] at hstep
      have hcap : (track g.cap g.mc F1).cap = g.cap := rfl
      have hinput : (track g.cap g.mc F1).input = e1 := by simp only [track, hrun]
      have hmc : (track g.cap g.mc F1).maxConns = g.mc := rfl
      rw [hcap, hinput, hmc] at hr
      subst hr
      have hwire : e1 ++ c1.env.tr.input = g.X := by
        have : F1 ++ c1.env.tr.input = serAll g.recs ++ g.X := by simpa [Cfg.W] using hw'
        rw [hFe, List.append_assoc] at this
        exact List.append_cancel_left this
      have he1len : e1.length ≤ g.cap := by
        have := hrem1; rw [hrun] at this; exact this
      have hL1 : t'.wlog = g.L1 := by rw [hlog, hrun]; rfl
      have hstep' : stepConn c1 = .next
          ⟨.handler (AReq.new (Str.Parser.fromParser g.cap g.p.request e1 g.mc))
              { ops := g.hscript, propagate := true },
            (⟨t', c1.env.mutex, c1.env.segs⟩ : Run.Env).ev (hsEvent g.p.request), g.more, false⟩ := hstep
      have hwsE : WStep c1.env.tr (t'.ev (hsEvent g.p.request)) :=
        hts'.w.trans ⟨List.suffix_refl _, List.suffix_refl _, rfl, rfl, Or.inl rfl, Nat.le_refl _,
          fun s hs => List.mem_append_left _ hs⟩
      have hev1 : Ev1 g (t'.ev (hsEvent g.p.request)) := by
        have h0 : hsCount t'.events = g.hs0 := (hfr.ts.trans hts').hs.trans hev
        constructor
        · show hsCount (t'.events ++ [hsEvent g.p.request]) = g.hs0 + 1
          rw [hsCount_append, h0, hsCount_single_true (isHS_hsEvent _)]
        · show hsEvent g.p.request ∈ t'.events ++ [hsEvent g.p.request]
          simp
      have hben2 : Ben (t'.ev (hsEvent g.p.request)) := hben1.wstep hwsE
      have hcore := hfirst
        (c := ⟨.handler (AReq.new (Str.Parser.fromParser g.cap g.p.request e1 g.mc))
                { ops := g.hscript, propagate := true },
            (⟨t', c1.env.mutex, c1.env.segs⟩ : Run.Env).ev (hsEvent g.p.request), g.more, false⟩) rfl he1len
        (by show e1 ++ t'.input = g.X; rw [hinp']; exact hwire) hL1 hmx1 hben2 rfl hev1 rfl
      have hres := GRes.of_steps (hs.trans (Steps.one hstep')) (hfr.link.trans ⟨hwsE, rfl, hstop1.symm ▸ rfl⟩) hcore
      exact hres.mono (by omega)
    · rw [hf] at hnf; cases hnf
  · exfalso
    have hF1 : F1 = g.W := by
      have := hst1.wire
      rwa [hin, List.append_nil, List.append_nil] at this
    rcases C06.run_wire_state ok.wf g.X (F := F1) (by rw [hF1]; exact List.prefix_refl _) g.mc with
      ⟨e1, hFe, he1, hrun⟩ | ⟨t, ht, hFt, _⟩
    · rw [hrun] at hnf; cases hnf
    · rw [hF1, Cfg.W] at hFt
      have := congrArg List.length hFt
      have : 0 < t.length := List.length_pos_iff.mpr ht
      simp only [List.length_append] at *
      omega



/-- **One poll** from the `parse_request` of the request. -/
theorem fstage_poll {g : Cfg} (ok : FOK g) {S A : Conn → Prop} (hS : ∀ c, FStage g c → S c)
    (hfirst : FirstPoll g S A) {c : Conn} (hst : FStage g c) :
    GRes S A (2 * c.env.tr.input.length + 9) c := by
  cases hst with
  | @start raw hph hwire hraw hlog hb hstop hsc hm hev =>
    have hpre : raw <+: g.W := ⟨c.env.tr.input, hwire⟩
    have hstart := start_track (cap24 g) hraw (ok.ns _ hpre)
    have hstep := step_start c _ hph hstop
    rw [hstart] at hstep
    have hstep' : stepConn c = .next (mkC c (.parseReq (track g.cap g.mc raw)
        (.writing (run .header raw g.mc).out (run .header raw g.mc).st.isFinal)) c.env.tr) := hstep
    have hremle : (run .header raw g.mc).rem.length ≤ g.cap := by
      have := (run_ok raw g.mc (st := .header) trivial).2.2.length_le
      omega
    have hst : PSt g.cap g.mc g.W g.L0 [] (mkC c (.parseReq (track g.cap g.mc raw)
        (.writing (run .header raw g.mc).out (run .header raw g.mc).st.isFinal)) c.env.tr) raw :=
      ⟨by show raw ++ c.env.tr.input ++ [] = g.W
          rw [List.append_nil]; exact hwire,
        hstop, hb, hremle, Or.inr ⟨_, rfl, by show c.env.tr.wlog ++ _ = _; rw [hlog], [], rfl⟩⟩
    have := GRes.of_steps (Steps.one hstep') (mkC_link c _ (.refl _)) (fparse_poll ok hS hfirst hst hsc hm hev)
    exact this.mono (by show 1 + (2 * c.env.tr.input.length + 8) ≤ _; omega)
  | parse hst hsc hm hev => exact (fparse_poll ok hS hfirst hst hsc hm hev).mono (by omega)

/-- the front stage at a `StartAt` of a chain -/
theorem fstage_of_startAt {g : Cfg} {left : List Rec} (hleft : LeftOK (alignedBufsize g.b) left) {Lw : Bytes}
    {evs : List String} {A0 : Nat} {c : Conn} (hLw : Lw = g.L0 ++ idleOwed g.mc left)
    (hstart : StartAt g.cap g.mc left Lw ((g.hscript, true) :: g.more) g.hs0 evs A0 g.W c) :
    FStage (g.front left) c ∧ c.env.segs = [] ∧ c.env.tr.endMode = .pend ∧ ans c.env.tr ≤ A0 ∧
      (∀ s ∈ evs, s ∈ c.env.tr.events) ∧ c.env.tr.input = g.W := by
  have hout := (run_idle_out g.mc left hleft.1).1
  rcases hstart with ⟨c0, w, rfl⟩ | ⟨hl, hph, hin, hlog, hb, hstop, hsc, hm, hhs, hev, hsg, hem, hans⟩
  · obtain ⟨L, hL, hpst⟩ := w.pst g.W
    have hLe : L = g.L0 := by
      rw [hLw, hout] at hL
      exact (List.append_cancel_right hL).symm
    subst hLe
    exact ⟨.parse (F := serAll left) (by rw [Cfg.front_W]; exact hpst) w.sc w.mtx w.hs, w.segs, w.em, w.ans, w.ev, rfl⟩
  · subst hl
    refine ⟨.start (raw := []) hph (by rw [Cfg.front_W, hin]; rfl) (Nat.zero_le _) ?_ hb hstop hsc hm hhs,
      hsg, hem, hans, hev, hin⟩
    rw [hlog, hLw]; simp [idleOwed]; rfl

/-! ## `close` in its `write_all`s -/

/-- `close` (of a KEEP_CONN request) suspended in one of its two last `write_all`s -/
def LStage (g : Cfg) (c : Conn) : Prop := UStage g c ∧ ∃ r cs, c.phase = .closing r cs g.st 0

theorem LStage.cong {g : Cfg} {c c' : Conn} (h : LStage g c)
    (hph : c'.phase = c.phase) (hsc : c'.scripts = c.scripts) (hstop : c'.stop = c.stop)
    (hm : c'.env.mutex = c.env.mutex) (hs : TrSame c.env.tr c'.env.tr) : LStage g c' := by
  obtain ⟨hu, r0, cs0, hph0⟩ := h
  exact ⟨hu.cong hph hsc hstop hm hs, r0, cs0, hph.trans hph0⟩

theorem URes2.toG {g : Cfg} (hk : g.p.flags.toNat % 2 = 1) {N : Nat} {c : Conn} (h : URes2 g N c) :
    GRes (LStage g) (AfterU g) N c := by
  rcases h with ⟨c', hh, hl, hS, hw, ha⟩ | ⟨k, c1, hk1, hs, hl, haf⟩ | ⟨c', hh, hl, hf⟩
  · exact Or.inl ⟨c', hh, hl, hS, hw, ha⟩
  · exact Or.inr ⟨k, c1, hk1, hs, hl, haf⟩
  · have := hf.nokeep; omega

theorem lstage_poll {g : Cfg} (hk : g.p.flags.toNat % 2 = 1) {c : Conn} (h : LStage g c) :
    GRes (LStage g) (AfterU g) 2 c := by
  obtain ⟨hu, r0, cs0, hph0⟩ := h
  cases hu with
  | start hph => rw [hph0] at hph; cases hph
  | parse hst =>
    exfalso
    rcases hst.5 with ⟨h, _, _⟩ | ⟨_, h, _⟩ <;> (rw [hph0] at h; cases h)
  | hwrite hph => rw [hph0] at hph; cases hph
  | @closeW r rest' hph hce hm hlog hb hstop hev hsc =>
    refine (uclose_out' (g := g) (r2 := r) (rest := rest') hph ?_ (.refl _) hce hm hlog hb hstop hev hsc).toG hk
    rw [closePoll_late _ _ _ _ _ _ rfl]
  | @close r rest' hph hce hm hlog hb hstop hev hsc =>
    refine (uclose_core' (g := g) (r2 := r) (rest := rest') hph ?_ (.refl _) hce hm hlog hb hstop hev hsc).toG hk
    rw [closePoll_late _ _ _ _ _ _ rfl]
    rfl

/-- `close` called with the stream parser at a record boundary (`REnd`): `writeable()` ready,
`record_boundary()` returns at once -/
theorem lclose_start {g : Cfg} (hk : g.p.flags.toNat % 2 = 1) {c : Conn} {r : AReq}
    (hph : c.phase = .closing r .start g.st 0)
    (hfin : REnd g.N r c.env.tr.input) (hlog : c.env.tr.wlog ++ r.sp.output ++ g.epi = g.LU) (hm : c.env.mutex = none)
    (hb : Ben c.env.tr) (hstop : c.stop = false) (hev : Ev1 g c.env.tr) (hsc : c.scripts = g.more) :
    GRes (LStage g) (AfterU g) 2 c := by
  obtain ⟨heq, hce⟩ := close_start_eq (g := g) hfin
  exact (uclose_out' hph (by rw [hm]; exact heq) (.refl _) hce hm hlog hb hstop hev hsc).toG hk

/-! ## The executor -/

/-- the start of the next `parse_request`, for an index `i` the variant chose -/
def ZTailAt (cap mc : Nat) (Z : Bytes) (sc : List (List HOp × Bool)) (h0 : Nat) {ι : Type} (P : ι → Prop)
    (W0 L : ι → Bytes) (evs : ι → List String) (c : Conn) : Prop :=
  ∃ i, P i ∧ ZT cap mc (W0 i) (L i) Z c ∧ PKeep sc h0 (evs i) c

/-- how such a run ends -/
def GEnd (cap mc : Nat) (Z : Bytes) (sc : List (List HOp × Bool)) (h0 : Nat) {ι : Type} (P : ι → Prop)
    (W0 L : ι → Bytes) (evs : ι → List String) (em : EndMode) (evs0 : List String) (A0 : Nat)
    (c' : Conn) (fin : String) : Prop :=
  ∃ i, P i ∧ PKeep sc h0 (evs i) c' ∧ c'.env.tr.endMode = em ∧
    (∀ s ∈ evs0, s ∈ c'.env.tr.events) ∧ ans c'.env.tr ≤ A0 ∧ c'.env.segs = [] ∧
    ((fin = "STALL" ∧ ZParked cap mc (W0 i) (L i) Z c') ∨ (fin = "RET" ∧ ZFin mc (W0 i) (L i) Z c'))

/-- **The generic executor**: stages `S` (closed under what `prePoll` changes) whose polls end
suspended in `S` or at the start of the next `parse_request`. -/
theorem run_stages {cap mc : Nat} (h24 : 24 ≤ cap) {Z : Bytes} {sc : List (List HOp × Bool)} {h0 : Nat} {ι : Type}
    {P : ι → Prop} {W0 L : ι → Bytes} {evs : ι → List String}
    (hns : ∀ i, P i → NoStuckW cap mc (W0 i))
    (hNF : ∀ i, P i → ∀ F x, F ++ x ++ Z = W0 i → (run .header F mc).st.isFinal = false)
    {S : Conn → Prop}
    (hcong : ∀ c c', S c → c'.phase = c.phase → c'.scripts = c.scripts → c'.stop = c.stop →
      c'.env.mutex = c.env.mutex → TrSame c.env.tr c'.env.tr → S c')
    (hpoll : ∀ c, S c → GRes S (ZTailAt cap mc Z sc h0 P W0 L evs) (2 * c.env.tr.input.length + 9) c)
    (em : EndMode) (evs0 : List String) (c : Conn) (n0 fuel : Nat) (hst : S c)
    (hem : c.env.tr.endMode = em) (hev0 : ∀ s ∈ evs0, s ∈ c.env.tr.events)
    (hsegs : c.env.segs = []) (hf : ans c.env.tr + 1 ≤ fuel) (hlen : 6 * c.env.tr.input.length + 26 ≤ 100000) :
    ∃ c'' fin, runTask fuel c n0 none = (c'', fin) ∧
      GEnd cap mc Z sc h0 P W0 L evs em evs0 (ans c.env.tr) c'' fin := by
  refine run_gen
    (fun c0 => (S c0 ∨ ZTailAt cap mc Z sc h0 P W0 L evs c0) ∧
      c0.env.tr.endMode = em ∧ (∀ s ∈ evs0, s ∈ c0.env.tr.events) ∧ ans c0.env.tr ≤ ans c.env.tr)
    (fun c0 => ∃ i, P i ∧
      ((∃ c', Halts (4 * c0.env.tr.input.length + 16) c0 c' .pending ∧ Link c0 c' ∧ c'.env.tr.woken = c0.env.tr.woken ∧
        ZT cap mc (W0 i) (L i) Z c' ∧ PKeep sc h0 (evs i) c' ∧ ZParked cap mc (W0 i) (L i) Z c') ∨
      (∃ c', Halts (4 * c0.env.tr.input.length + 16) c0 c' .finished ∧ Link c0 c' ∧
        PKeep sc h0 (evs i) c' ∧ ZFin mc (W0 i) (L i) Z c')))
    (fun c'' fin => GEnd cap mc Z sc h0 P W0 L evs em evs0 (ans c.env.tr) c'' fin)
    (fun c0 c1 h a b c d e => by
      refine ⟨?_, e.em.trans h.2.1, fun s hs => e.mem (h.2.2.1 s hs), by
        have := h.2.2.2; unfold ans at this ⊢; rw [e.rd, e.wr]; exact this⟩
      rcases h.1 with h1 | ⟨i, hi, h1, h2⟩
      · exact Or.inl (hcong _ _ h1 a b c d e)
      · exact Or.inr ⟨i, hi, h1.cong a c e, h2.same b d e⟩)
    (fun c0 h => ?_)
    (fun c0 n1 f0 hS0 hsg hq _ hlen0 => ?_)
    (ans c.env.tr) c n0 fuel ⟨Or.inl hst, hem, hev0, Nat.le_refl _⟩ hsegs (Nat.le_refl _) hf hlen
  · -- one poll
    have keep : ∀ {c' : Conn}, Link c0 c' → c'.env.tr.endMode = em ∧ (∀ s ∈ evs0, s ∈ c'.env.tr.events) ∧
        ans c'.env.tr ≤ ans c.env.tr :=
      fun hl => ⟨hl.ts.em.trans h.2.1, fun s hs => hl.ts.evm s (h.2.2.1 s hs),
        Nat.le_trans hl.ts.ans_le h.2.2.2⟩
    rcases h.1 with h1 | ⟨i, hi, h1, h2⟩
    · rcases hpoll c0 h1 with ⟨c', hh, hl, hS, hw, ha⟩ | ⟨k, c1, hk1, hs, hl, i, hi, hzt, hkp⟩
      · exact Or.inl ⟨c', hh.mono (by omega), hl, ⟨Or.inl hS, keep hl⟩, hw, ha⟩
      · have hin1 := hl.ts.inp
        rcases ZRes.of_steps hs hl (ztail_poll h24 (hns i hi) (hNF i hi) hzt hkp) with
          ⟨c', hh, hl', hS, hw, ha⟩ | ⟨c', hh, r⟩ | ⟨c', hh, r⟩
        · exact Or.inl ⟨c', hh.mono (by omega), hl', ⟨Or.inr ⟨i, hi, hS⟩, keep hl'⟩, hw, ha⟩
        · exact Or.inr ⟨i, hi, Or.inl ⟨c', hh.mono (by omega), r⟩⟩
        · exact Or.inr ⟨i, hi, Or.inr ⟨c', hh.mono (by omega), r⟩⟩
    · rcases ztail_poll h24 (hns i hi) (hNF i hi) h1 h2 with ⟨c', hh, hl', hS, hw, ha⟩ | ⟨c', hh, r⟩ | ⟨c', hh, r⟩
      · exact Or.inl ⟨c', hh.mono (by omega), hl', ⟨Or.inr ⟨i, hi, hS⟩, keep hl'⟩, hw, ha⟩
      · exact Or.inr ⟨i, hi, Or.inl ⟨c', hh.mono (by omega), r⟩⟩
      · exact Or.inr ⟨i, hi, Or.inr ⟨c', hh.mono (by omega), r⟩⟩
  · -- from the last poll to the end of `runTask`
    obtain ⟨hsame, hph, hsc, hstop, hmx, hsg', hwk⟩ := prePoll_same c0 n1 hsg
    have hN : 4 * (prePoll c0 n1 none).env.tr.input.length + 16 ≤ 100000 := by rw [hsame.input]; omega
    have keep : ∀ {c' : Conn}, Link (prePoll c0 n1 none) c' → c'.env.tr.endMode = em ∧
        (∀ s ∈ evs0, s ∈ c'.env.tr.events) ∧ ans c'.env.tr ≤ ans c.env.tr ∧ c'.env.segs = [] :=
      fun hl => ⟨(hl.ts.em.trans hsame.em).trans hS0.2.1, fun s hs => hl.ts.evm s (hsame.mem (hS0.2.2.1 s hs)),
        by
          have hans0 : ans (prePoll c0 n1 none).env.tr = ans c0.env.tr := by unfold ans; rw [hsame.rd, hsame.wr]
          have := hl.ts.ans_le; have := hS0.2.2.2; omega, hl.segs.trans hsg'⟩
    obtain ⟨i, hi, hq⟩ := hq
    rcases hq with ⟨c', hh, hl, hw, hzt, hkp, hpk⟩ | ⟨c', hh, hl, hkp, hfin⟩
    · have hpoll' := hh.pollT hN
      have hw' : c'.env.tr.woken = false := hw.trans hwk
      obtain ⟨k1, k2, k3, k4⟩ := keep hl
      rw [runTask_succ, hpoll']
      simp only [hw', Bool.false_eq_true, if_false]
      rw [release_nil _ k4]
      simp only [hw', Bool.false_eq_true, if_false]
      refine ⟨_, "STALL", rfl, i, hi, ?_⟩
      obtain ⟨F, hF, hps, hph', hlg⟩ := hpk.pst
      exact ⟨hkp.same rfl rfl ⟨rfl, rfl, rfl, rfl, rfl, rfl, [], by simp, Quiet.nil⟩, k1, k2, k3, k4,
        Or.inl ⟨rfl, ⟨F, hF, hps.cong rfl rfl ⟨rfl, rfl, rfl, rfl, rfl, rfl, [], by simp, Quiet.nil⟩, hph', hlg⟩,
          hpk.inp, hpk.em⟩⟩
    · have hpoll' := hh.pollT hN
      obtain ⟨k1, k2, k3, k4⟩ := keep hl
      exact ⟨c', "RET", by rw [runTask_succ, hpoll'], i, hi, hkp, k1, k2, k3, k4, Or.inr ⟨rfl, hfin⟩⟩


/-- **The generic executor**: stages `S` (closed under what `prePoll` changes) whose polls end
suspended in `S` or at the start of the next `parse_request`. -/
theorem run_stages' {cap mc : Nat} (h24 : 24 ≤ cap) {Z : Bytes} {sc : List (List HOp × Bool)} {h0 : Nat} {ι : Type}
    {P : ι → Prop} {W0 L : ι → Bytes} {evs : ι → List String}
    (hns : ∀ i, P i → NoStuckW cap mc (W0 i))
    (hNF : ∀ i, P i → ∀ F x, F ++ x ++ Z = W0 i → (run .header F mc).st.isFinal = false)
    {S : Conn → Prop}
    (hcong : ∀ c c', S c → c'.phase = c.phase → c'.scripts = c.scripts → c'.stop = c.stop →
      c'.env.mutex = c.env.mutex → TrSame c.env.tr c'.env.tr → S c')
    (hpoll : ∀ c, S c → GRes S (ZTailAt cap mc Z sc h0 P W0 L evs) (2 * c.env.tr.input.length + 9) c)
    (em : EndMode) (evs0 : List String) (c : Conn) (n0 fuel : Nat) (hst : S c)
    (hem : c.env.tr.endMode = em) (hev0 : ∀ s ∈ evs0, s ∈ c.env.tr.events)
    (hsegs : c.env.segs = []) (hf : ans c.env.tr + 1 ≤ fuel) :
    ∃ c'' fin, runTask fuel c n0 none = (c'', fin) ∧
      GEnd cap mc Z sc h0 P W0 L evs em evs0 (ans c.env.tr) c'' fin := by
  refine run_gen'
    (fun c0 => (S c0 ∨ ZTailAt cap mc Z sc h0 P W0 L evs c0) ∧
      c0.env.tr.endMode = em ∧ (∀ s ∈ evs0, s ∈ c0.env.tr.events) ∧ ans c0.env.tr ≤ ans c.env.tr)
    (fun c0 => ∃ i, P i ∧
      ((∃ c', Halts (4 * c0.env.tr.input.length + 16) c0 c' .pending ∧ Link c0 c' ∧ c'.env.tr.woken = c0.env.tr.woken ∧
        ZT cap mc (W0 i) (L i) Z c' ∧ PKeep sc h0 (evs i) c' ∧ ZParked cap mc (W0 i) (L i) Z c') ∨
      (∃ c', Halts (4 * c0.env.tr.input.length + 16) c0 c' .finished ∧ Link c0 c' ∧
        PKeep sc h0 (evs i) c' ∧ ZFin mc (W0 i) (L i) Z c')))
    (fun c'' fin => GEnd cap mc Z sc h0 P W0 L evs em evs0 (ans c.env.tr) c'' fin)
    (fun c0 c1 h a b c d e => by
      refine ⟨?_, e.em.trans h.2.1, fun s hs => e.mem (h.2.2.1 s hs), by
        have := h.2.2.2; unfold ans at this ⊢; rw [e.rd, e.wr]; exact this⟩
      rcases h.1 with h1 | ⟨i, hi, h1, h2⟩
      · exact Or.inl (hcong _ _ h1 a b c d e)
      · exact Or.inr ⟨i, hi, h1.cong a c e, h2.same b d e⟩)
    (fun c0 h => ?_)
    (fun c0 n1 f0 hS0 hsg hq _ => ?_)
    (ans c.env.tr) c n0 fuel ⟨Or.inl hst, hem, hev0, Nat.le_refl _⟩ hsegs (Nat.le_refl _) hf
  · -- one poll
    have keep : ∀ {c' : Conn}, Link c0 c' → c'.env.tr.endMode = em ∧ (∀ s ∈ evs0, s ∈ c'.env.tr.events) ∧
        ans c'.env.tr ≤ ans c.env.tr :=
      fun hl => ⟨hl.ts.em.trans h.2.1, fun s hs => hl.ts.evm s (h.2.2.1 s hs),
        Nat.le_trans hl.ts.ans_le h.2.2.2⟩
    rcases h.1 with h1 | ⟨i, hi, h1, h2⟩
    · rcases hpoll c0 h1 with ⟨c', hh, hl, hS, hw, ha⟩ | ⟨k, c1, hk1, hs, hl, i, hi, hzt, hkp⟩
      · exact Or.inl ⟨c', hh.mono (by omega), hl, ⟨Or.inl hS, keep hl⟩, hw, ha⟩
      · have hin1 := hl.ts.inp
        rcases ZRes.of_steps hs hl (ztail_poll h24 (hns i hi) (hNF i hi) hzt hkp) with
          ⟨c', hh, hl', hS, hw, ha⟩ | ⟨c', hh, r⟩ | ⟨c', hh, r⟩
        · exact Or.inl ⟨c', hh.mono (by omega), hl', ⟨Or.inr ⟨i, hi, hS⟩, keep hl'⟩, hw, ha⟩
        · exact Or.inr ⟨i, hi, Or.inl ⟨c', hh.mono (by omega), r⟩⟩
        · exact Or.inr ⟨i, hi, Or.inr ⟨c', hh.mono (by omega), r⟩⟩
    · rcases ztail_poll h24 (hns i hi) (hNF i hi) h1 h2 with ⟨c', hh, hl', hS, hw, ha⟩ | ⟨c', hh, r⟩ | ⟨c', hh, r⟩
      · exact Or.inl ⟨c', hh.mono (by omega), hl', ⟨Or.inr ⟨i, hi, hS⟩, keep hl'⟩, hw, ha⟩
      · exact Or.inr ⟨i, hi, Or.inl ⟨c', hh.mono (by omega), r⟩⟩
      · exact Or.inr ⟨i, hi, Or.inr ⟨c', hh.mono (by omega), r⟩⟩
  · -- from the last poll to the end of `runTask`
    obtain ⟨hsame, hph, hsc, hstop, hmx, hsg', hwk⟩ := prePoll_same c0 n1 hsg
    have hN : 4 * (prePoll c0 n1 none).env.tr.input.length + 16 ≤ 6 * (prePoll c0 n1 none).env.tr.input.length + 26 := by omega
    have keep : ∀ {c' : Conn}, Link (prePoll c0 n1 none) c' → c'.env.tr.endMode = em ∧
        (∀ s ∈ evs0, s ∈ c'.env.tr.events) ∧ ans c'.env.tr ≤ ans c.env.tr ∧ c'.env.segs = [] :=
      fun hl => ⟨(hl.ts.em.trans hsame.em).trans hS0.2.1, fun s hs => hl.ts.evm s (hsame.mem (hS0.2.2.1 s hs)),
        by
          have hans0 : ans (prePoll c0 n1 none).env.tr = ans c0.env.tr := by unfold ans; rw [hsame.rd, hsame.wr]
          have := hl.ts.ans_le; have := hS0.2.2.2; omega, hl.segs.trans hsg'⟩
    obtain ⟨i, hi, hq⟩ := hq
    rcases hq with ⟨c', hh, hl, hw, hzt, hkp, hpk⟩ | ⟨c', hh, hl, hkp, hfin⟩
    · have hpoll' := hh.pollB hN
      have hw' : c'.env.tr.woken = false := hw.trans hwk
      obtain ⟨k1, k2, k3, k4⟩ := keep hl
      rw [runTask_succ, hpoll']
      simp only [hw', Bool.false_eq_true, if_false]
      rw [release_nil _ k4]
      simp only [hw', Bool.false_eq_true, if_false]
      refine ⟨_, "STALL", rfl, i, hi, ?_⟩
      obtain ⟨F, hF, hps, hph', hlg⟩ := hpk.pst
      exact ⟨hkp.same rfl rfl ⟨rfl, rfl, rfl, rfl, rfl, rfl, [], by simp, Quiet.nil⟩, k1, k2, k3, k4,
        Or.inl ⟨rfl, ⟨F, hF, hps.cong rfl rfl ⟨rfl, rfl, rfl, rfl, rfl, rfl, [], by simp, Quiet.nil⟩, hph', hlg⟩,
          hpk.inp, hpk.em⟩⟩
    · have hpoll' := hh.pollB hN
      obtain ⟨k1, k2, k3, k4⟩ := keep hl
      exact ⟨c', "RET", by rw [runTask_succ, hpoll'], i, hi, hkp, k1, k2, k3, k4, Or.inr ⟨rfl, hfin⟩⟩

/-- `AfterU` as a `ZTailAt` (index `Unit`) -/
theorem AfterU.ztail {g : Cfg} {Z : Bytes} {c1 : Conn} (haf : AfterU g c1) :
    ZTailAt g.cap g.mc Z g.more (g.hs0 + 1) (fun _ : Unit => True) (fun _ => g.U ++ Z) (fun _ => g.LU)
      (fun _ => [hsEvent g.p.request]) c1 := by
  obtain ⟨raw, hph, hw, hraw⟩ := haf.ph
  exact ⟨(), trivial, Or.inr ⟨raw, hph, by rw [hw], hraw, haf.log, haf.ben, haf.stop⟩,
    ⟨haf.sc, haf.mtx, haf.ev.1, fun s hs => by rw [List.mem_singleton.1 hs]; exact haf.ev.2⟩⟩

end Fcgi.E2E
