import Fcgi.Proofs.E2EUnread3
import Fcgi.Proofs.E2EPrefixW
import Fcgi.Proofs.E2EFilterConn
import Fcgi.Proofs.E2EPrefixConn
import Fcgi.Proofs.E2EAuthConn
import Fcgi.Proofs.E2EUnreadChain
import Fcgi.Proofs.E2EAbortTail
import Fcgi.Proofs.E2EFilterAbort4
/-!
# Executors and chain steps without the size hypotheses

Copies of the executors `run_*` and chain steps `serve_*_core` of the unread / prefix / Filter / Authorizer
families with the hypothesis `6·|input| + 26 ≤ 100000` dropped: it was only used for `Halts.pollT`; the primed
versions go through `Halts.pollB` (`connFuel c ≥ 6·|input| + 26`), via `run_stages'`, `run_stages3'`,
`run_unread'`, `run_prefix'`, `run_from_stage'`.  Proofs are otherwise verbatim.
-/
namespace Fcgi.E2E
open Fcgi Fcgi.Req Fcgi.Str Fcgi.Async Fcgi.Run Fcgi.Spec Fcgi.C09E

/-- `run_read0` without the size hypothesis. -/
theorem run_read0' {g : Cfg} (ok : U0OK g) (hk : g.p.flags.toNat % 2 = 1) {Z : Bytes}
    (hns : NoStuckW g.cap g.mc (g.U ++ Z))
    (hNF : ∀ F x, F ++ x ++ Z = g.U ++ Z → (run .header F g.mc).st.isFinal = false)
    (em : EndMode) (evs0 : List String) (c : Conn) (n0 fuel : Nat) (hst : FStage g c)
    (hem : c.env.tr.endMode = em) (hev0 : ∀ s ∈ evs0, s ∈ c.env.tr.events)
    (hsegs : c.env.segs = []) (hf : ans c.env.tr + 1 ≤ fuel) :
    ∃ c'' fin, runTask fuel c n0 none = (c'', fin) ∧
      GEnd g.cap g.mc Z g.more (g.hs0 + 1) (fun _ : Unit => True) (fun _ => g.U ++ Z) (fun _ => g.LU)
        (fun _ => [hsEvent g.p.request]) em evs0 (ans c.env.tr) c'' fin :=
  run_stages' (cap24 g) (fun _ _ => hns) (fun _ _ => hNF) (fun _ _ h => h.cong)
    (fun _ h => (s0_poll ok hk h).imp (fun _ _ h => h) (fun _ _ h => h.ztail))
    em evs0 c n0 fuel (Or.inl hst) hem hev0 hsegs hf

/-- `run_filter0` without the size hypothesis. -/
theorem run_filter0' {g : Cfg} (ok : FUOK g) (hk : g.p.flags.toNat % 2 = 1) {Z : Bytes}
    (hns : NoStuckW g.cap g.mc (g.term2.ser ++ Z))
    (hNF : ∀ F x, F ++ x ++ Z = g.term2.ser ++ Z → (run .header F g.mc).st.isFinal = false)
    (em : EndMode) (evs0 : List String) (c : Conn) (n0 fuel : Nat) (hst : FStage g c)
    (hem : c.env.tr.endMode = em) (hev0 : ∀ s ∈ evs0, s ∈ c.env.tr.events)
    (hsegs : c.env.segs = []) (hf : ans c.env.tr + 1 ≤ fuel) :
    ∃ c'' fin, runTask fuel c n0 none = (c'', fin) ∧
      GEnd g.cap g.mc Z g.more (g.hs0 + 1) (fun _ : Unit => True) (fun _ => g.term2.ser ++ Z) (fun _ => (gF g).LU)
        (fun _ => [hsEvent g.p.request]) em evs0 (ans c.env.tr) c'' fin := by
  have hU : (gF g).U = g.term2.ser := C02.serAll_single _
  exact run_stages' (cap24 g) (fun _ _ => hns) (fun _ _ => hNF) (fun _ _ h => h.cong)
    (fun _ h => (sf_poll ok hk h).imp (fun _ _ h => h) (fun _ _ h => by
      have := AfterU.ztail (Z := Z) h
      rw [hU] at this
      exact this))
    em evs0 c n0 fuel (Or.inl hst) hem hev0 hsegs hf

/-- `serve_filter0_core` without the size hypothesis. -/
theorem serve_filter0_core' {g : Cfg} (ok : FUOK g) (hk : g.p.flags.toNat % 2 = 1) {left : List Rec}
    (hleft : LeftOK (alignedBufsize g.b) left) {Z : Bytes} (hT : IdleNoise g.term2)
    (hZ : GoodNext g.cap g.mc [g.term2] Z)
    {Lw : Bytes} {evs : List String} {A0 : Nat} {c : Conn} (n0 fuel : Nat)
    (hLw : Lw = g.L0 ++ idleOwed g.mc left)
    (hstart : StartAt g.cap g.mc left Lw ((g.hscript, true) :: g.more) g.hs0 evs A0 g.W c)
    (hf : A0 + 1 ≤ fuel) :
    ∃ c', runTask fuel c n0 none = (c', "STALL") ∧
      Waiting g.cap g.mc [g.term2] ((gF (g.front left)).LU ++ idleOwed g.mc [g.term2]) g.more (g.hs0 + 1)
        (hsEvent g.p.request :: evs) A0 c' := by
  have okf := ok.front hleft
  obtain ⟨hst, hsg, hem, hans, hev, hin⟩ := fstage_of_startAt hleft hLw hstart
  have hser : serAll [g.term2] = g.term2.ser := C02.serAll_single _
  have hidle : ∀ e ∈ [g.term2], IdleNoise e := fun e he => by rw [List.mem_singleton.1 he]; exact hT
  obtain ⟨c', fin, hrun, _, _, hkp, hem', hev', hans', hsg', hend⟩ :=
    run_filter0' okf hk (Z := Z) (by show NoStuckW g.cap g.mc (g.term2.ser ++ Z); rw [← hser]; exact hZ.1)
      (by show ∀ F x, F ++ x ++ Z = g.term2.ser ++ Z → _; rw [← hser]; exact hZ.2) .pend evs c n0 fuel hst hem hev hsg
      (by omega)
  rcases hend with ⟨rfl, hp⟩ | ⟨_, hfn⟩
  · obtain ⟨F, hF, hps, hph, hlg⟩ := hp.pst
    have hFe : F = serAll [g.term2] := by rw [hser]; exact List.append_cancel_right hF
    subst hFe
    have hnf : (run .header (serAll [g.term2]) g.mc).st.isFinal = false := (run_idle_out g.mc _ hidle).2.2
    have hob : (run .header (serAll [g.term2]) (g.front left).mc).out = idleOwed g.mc [g.term2] :=
      (run_idle_out g.mc _ hidle).1
    refine ⟨c', hrun, ⟨hph, hnf, hps.rem, hp.inp, by rw [hlg, hob], ⟨(gF (g.front left)).LU, by
      show _ = _ ++ (run .header (serAll [g.term2]) (g.front left).mc).out
      rw [hob]⟩, hps.stop, hps.ben, hkp.sc, hkp.mx,
      hkp.hs, ?_, hsg', hem', by omega⟩⟩
    intro s hs
    rcases List.mem_cons.1 hs with rfl | hs
    · exact hkp.ev _ List.mem_cons_self
    · exact hev' s hs
  · rw [hfn.em] at hem'; cases hem'

/-- `run_prefixW` without the size hypothesis. -/
theorem run_prefixW' {g : Cfg} {n : Nat} (ok : PWOK g n) (hk : g.p.flags.toNat % 2 = 1) {Z : Bytes}
    (hns : ∀ s1 s2, g.R = s1 ++ s2 → NoStuckW g.cap g.mc (serAll s2 ++ Z))
    (hNF : ∀ s1 s2, g.R = s1 ++ s2 → ∀ F x, F ++ x ++ Z = serAll s2 ++ Z → (run .header F g.mc).st.isFinal = false)
    (em : EndMode) (evs0 : List String) (c : Conn) (n0 fuel : Nat) (hst : FStage g c)
    (hem : c.env.tr.endMode = em) (hev0 : ∀ s ∈ evs0, s ∈ c.env.tr.events)
    (hsegs : c.env.segs = []) (hf : ans c.env.tr + 1 ≤ fuel) :
    ∃ c'' fin, runTask fuel c n0 none = (c'', fin) ∧
      GEnd g.cap g.mc Z g.more (g.hs0 + 1) (WIdx.OK g) (fun i => serAll i.s2 ++ Z)
        (fun i => (g.L1 ++ i.O1) ++ g.D ++ i.O2 ++ g.epi)
        (fun i => [hsEvent g.p.request, rdEvent i.d]) em evs0 (ans c.env.tr) c'' fin :=
  run_stages' (cap24 g) (fun i hi => hns i.s1 i.s2 hi.1) (fun i hi => hNF i.s1 i.s2 hi.1) (fun _ _ h => h.cong)
    (fun _ h => (sw_poll ok hk h).imp (fun _ _ h => h) (fun c1 _ h => by
      obtain ⟨s1, s2, O1, O2, hsp, hO, ⟨d, hd1, hd2, hd3⟩, haf⟩ := h
      obtain ⟨raw, hph, hw, hraw⟩ := haf.ph
      refine ⟨⟨s1, s2, O1, O2, d⟩, ⟨hsp, hO, hd1, hd2⟩, Or.inr ⟨raw, hph, by rw [hw]; rfl, hraw, ?_, haf.ben, haf.stop⟩,
        ⟨haf.sc, haf.mtx, haf.ev.1, fun s hs => ?_⟩⟩
      · rw [haf.log, gD_LU]
      · rcases List.mem_cons.1 hs with rfl | hs
        · exact haf.ev.2
        · rw [List.mem_singleton.1 hs]; exact hd3))
    em evs0 c n0 fuel (Or.inl hst) hem hev0 hsegs hf

/-- `serve_prefixW_core` without the size hypothesis. -/
theorem serve_prefixW_core' {g : Cfg} {n : Nat} (ok : PWOK g n) (hk : g.p.flags.toNat % 2 = 1) {left : List Rec}
    (hleft : LeftOK (alignedBufsize g.b) left) {Z : Bytes} (hR : ∀ e ∈ g.R, IdleNoise e)
    (hZ : ∀ s1 s2, g.R = s1 ++ s2 → GoodNext g.cap g.mc s2 Z)
    {Lw : Bytes} {evs : List String} {A0 : Nat} {c : Conn} (n0 fuel : Nat)
    (hLw : Lw = g.L0 ++ idleOwed g.mc left)
    (hstart : StartAt g.cap g.mc left Lw ((g.hscript, true) :: g.more) g.hs0 evs A0 g.W c)
    (hf : A0 + 1 ≤ fuel) :
    ∃ c' i, runTask fuel c n0 none = (c', "STALL") ∧ WIdx.OK g i ∧ rdEvent i.d ∈ c'.env.tr.events ∧
      Waiting g.cap g.mc i.s2 (((g.front left).L1 ++ i.O1) ++ g.D ++ i.O2 ++ g.epi ++ idleOwed g.mc i.s2) g.more
        (g.hs0 + 1) (hsEvent g.p.request :: evs) A0 c' := by
  have okf := ok.front hleft
  obtain ⟨hst, hsg, hem, hans, hev, hin⟩ := fstage_of_startAt hleft hLw hstart
  obtain ⟨c', fin, hrun, i, hi, hkp, hem', hev', hans', hsg', hend⟩ :=
    run_prefixW' okf hk (Z := Z) (fun s1 s2 h => (hZ s1 s2 h).1) (fun s1 s2 h => (hZ s1 s2 h).2) .pend evs c n0 fuel hst hem hev hsg
      (by omega)
  have hi' : WIdx.OK g i := hi
  have hs2 : ∀ e ∈ i.s2, IdleNoise e := fun e he => hR e (by rw [hi'.1]; exact List.mem_append_right _ he)
  rcases hend with ⟨rfl, hp⟩ | ⟨_, hfn⟩
  · obtain ⟨F, hF, hps, hph, hlg⟩ := hp.pst
    have hFe : F = serAll i.s2 := List.append_cancel_right hF
    subst hFe
    have hnf : (run .header (serAll i.s2) g.mc).st.isFinal = false := (run_idle_out g.mc i.s2 hs2).2.2
    have hob : (run .header (serAll i.s2) (g.front left).mc).out = idleOwed g.mc i.s2 :=
      (run_idle_out g.mc i.s2 hs2).1
    refine ⟨c', i, hrun, hi', hkp.ev _ (by simp), ⟨hph, hnf, hps.rem, hp.inp, by rw [hlg, hob]; rfl,
      ⟨((g.front left).L1 ++ i.O1) ++ g.D ++ i.O2 ++ g.epi, by
        show _ = _ ++ (run .header (serAll i.s2) (g.front left).mc).out
        rw [hob]⟩, hps.stop, hps.ben, hkp.sc, hkp.mx,
      hkp.hs, ?_, hsg', hem', by omega⟩⟩
    intro s hs
    rcases List.mem_cons.1 hs with rfl | hs
    · exact hkp.ev _ List.mem_cons_self
    · exact hev' s hs
  · rw [hfn.em] at hem'; cases hem'

/-- `run_filterG` without the size hypothesis. -/
theorem run_filterG' {g : Cfg} (ok : FGOK g) (hk : g.p.flags.toNat % 2 = 1) {Z : Bytes}
    (hns : ∀ d1 s2, g.R2 = d1 ++ s2 → NoStuckW g.cap g.mc (serAll s2 ++ Z))
    (hNF : ∀ d1 s2, g.R2 = d1 ++ s2 → ∀ F x, F ++ x ++ Z = serAll s2 ++ Z → (run .header F g.mc).st.isFinal = false)
    (em : EndMode) (evs0 : List String) (c : Conn) (n0 fuel : Nat) (hst : FStage g c)
    (hem : c.env.tr.endMode = em) (hev0 : ∀ s ∈ evs0, s ∈ c.env.tr.events)
    (hsegs : c.env.segs = []) (hf : ans c.env.tr + 1 ≤ fuel) :
    ∃ c'' fin, runTask fuel c n0 none = (c'', fin) ∧
      GEnd g.cap g.mc Z g.more (g.hs0 + 1) (fun i : List Rec × List Rec => g.R2 = i.1 ++ i.2)
        (fun i => serAll i.2 ++ Z) (fun i => (gC g (g.R ++ i.1) i.2).LU)
        (fun _ => [hsEvent g.p.request]) em evs0 (ans c.env.tr) c'' fin :=
  run_stages' (cap24 g) (fun i hi => hns i.1 i.2 hi) (fun i hi => hNF i.1 i.2 hi) (fun _ _ h => h.cong)
    (fun _ h => (sg_poll ok hk h).imp (fun _ _ h => h) (fun _ _ h => by
      obtain ⟨d1, s2, hsp, haf⟩ := h
      obtain ⟨i, _, hzt, hkp⟩ := AfterU.ztail (Z := Z) haf
      exact ⟨(d1, s2), hsp, hzt, hkp⟩))
    em evs0 c n0 fuel (Or.inl hst) hem hev0 hsegs hf

/-- `serve_filterG_core` without the size hypothesis. -/
theorem serve_filterG_core' {g : Cfg} (ok : FGOK g) (hk : g.p.flags.toNat % 2 = 1) {left : List Rec}
    (hleft : LeftOK (alignedBufsize g.b) left) {Z : Bytes} (hR : ∀ e ∈ g.R2, IdleNoise e)
    (hZ : ∀ d1 s2, g.R2 = d1 ++ s2 → GoodNext g.cap g.mc s2 Z)
    {Lw : Bytes} {evs : List String} {A0 : Nat} {c : Conn} (n0 fuel : Nat)
    (hLw : Lw = g.L0 ++ idleOwed g.mc left)
    (hstart : StartAt g.cap g.mc left Lw ((g.hscript, true) :: g.more) g.hs0 evs A0 g.W c)
    (hf : A0 + 1 ≤ fuel) :
    ∃ c' d1 s2, runTask fuel c n0 none = (c', "STALL") ∧ g.R2 = d1 ++ s2 ∧
      Waiting g.cap g.mc s2 ((gC (g.front left) (g.R ++ d1) s2).LU ++ idleOwed g.mc s2) g.more (g.hs0 + 1)
        (hsEvent g.p.request :: evs) A0 c' := by
  have okf := ok.front hleft
  obtain ⟨hst, hsg, hem, hans, hev, hin⟩ := fstage_of_startAt hleft hLw hstart
  obtain ⟨c', fin, hrun, ⟨d1, s2⟩, hsp, hkp, hem', hev', hans', hsg', hend⟩ :=
    run_filterG' okf hk (Z := Z) (fun d1 s2 h => (hZ d1 s2 h).1) (fun d1 s2 h => (hZ d1 s2 h).2) .pend evs c n0 fuel hst hem hev hsg
      (by omega)
  have hsp' : g.R2 = d1 ++ s2 := hsp
  have hs2 : ∀ e ∈ s2, IdleNoise e := fun e he => hR e (by rw [hsp']; exact List.mem_append_right _ he)
  rcases hend with ⟨rfl, hp⟩ | ⟨_, hfn⟩
  · obtain ⟨F, hF, hps, hph, hlg⟩ := hp.pst
    have hFe : F = serAll s2 := List.append_cancel_right hF
    subst hFe
    have hnf : (run .header (serAll s2) g.mc).st.isFinal = false := (run_idle_out g.mc s2 hs2).2.2
    have hob : (run .header (serAll s2) (g.front left).mc).out = idleOwed g.mc s2 :=
      (run_idle_out g.mc s2 hs2).1
    refine ⟨c', d1, s2, hrun, hsp', ⟨hph, hnf, hps.rem, hp.inp, by rw [hlg, hob]; rfl, ⟨(gC (g.front left) (g.R ++ d1) s2).LU, by
      show _ = _ ++ (run .header (serAll s2) (g.front left).mc).out
      rw [hob]⟩, hps.stop, hps.ben, hkp.sc, hkp.mx,
      hkp.hs, ?_, hsg', hem', by omega⟩⟩
    intro s hs
    rcases List.mem_cons.1 hs with rfl | hs
    · exact hkp.ev _ List.mem_cons_self
    · exact hev' s hs
  · rw [hfn.em] at hem'; cases hem'

/-- `serve_prefix_core` without the size hypothesis. -/
theorem serve_prefix_core' {g : Cfg} {n : Nat} (ok : POK g n) (hk : g.p.flags.toNat % 2 = 1) {left : List Rec}
    (hleft : LeftOK (alignedBufsize g.b) left) {Z : Bytes} (hR : ∀ e ∈ g.R, IdleNoise e)
    (hZ : ∀ s1 s2, g.R = s1 ++ s2 → GoodNext g.cap g.mc s2 Z)
    {Lw : Bytes} {evs : List String} {A0 : Nat} {c : Conn} (n0 fuel : Nat)
    (hLw : Lw = g.L0 ++ idleOwed g.mc left)
    (hstart : StartAt g.cap g.mc left Lw ((g.hscript, true) :: g.more) g.hs0 evs A0 g.W c)
    (hf : A0 + 1 ≤ fuel) :
    ∃ c' s1 s2 d, runTask fuel c n0 none = (c', "STALL") ∧ g.R = s1 ++ s2 ∧
      d <+: g.content ∧ (d = [] → g.content = []) ∧ rdEvent d ∈ c'.env.tr.events ∧
      Waiting g.cap g.mc s2 ((gC (g.front left) s1 s2).LU ++ idleOwed g.mc s2) g.more (g.hs0 + 1)
        (hsEvent g.p.request :: evs) A0 c' := by
  have okf := ok.front hleft
  have hout := (run_idle_out g.mc left hleft.1).1
  have hst : PStage (g.front left) n c ∧ c.env.segs = [] ∧ c.env.tr.endMode = .pend ∧ ans c.env.tr ≤ A0 ∧
      (∀ s ∈ evs, s ∈ c.env.tr.events) ∧ c.env.tr.input = g.W := by
    rcases hstart with ⟨c0, w, rfl⟩ | ⟨hl, hph, hin, hlog, hb, hstop, hsc, hm, hhs, hev, hsg, hem, hans⟩
    · obtain ⟨L, hL, hpst⟩ := w.pst g.W
      have hLe : L = g.L0 := by
        rw [hLw, hout] at hL
        exact (List.append_cancel_right hL).symm
      subst hLe
      refine ⟨.parse (F := serAll left) (by rw [Cfg.front_W]; exact hpst) w.sc w.mtx w.hs, w.segs, w.em, w.ans, w.ev, rfl⟩
    · subst hl
      refine ⟨.start (raw := []) hph (by rw [Cfg.front_W, hin]; rfl) (Nat.zero_le _) ?_ hb hstop hsc hm hhs,
        hsg, hem, hans, hev, hin⟩
      rw [hlog, hLw]; simp [idleOwed]; rfl
  obtain ⟨hst, hsg, hem, hans, hev, hin⟩ := hst
  obtain ⟨c', fin, hrun, s1, s2, dd, hsp, hd1, hd2, hkp, hem', hev', hans', hsg', hend⟩ :=
    run_prefix' okf hk (Z := Z) (fun s1 s2 h => (hZ s1 s2 h).1) (fun s1 s2 h => (hZ s1 s2 h).2) .pend evs c n0 fuel hst hem hev hsg
      (by omega)
  have hs2 : ∀ e ∈ s2, IdleNoise e := fun e he => hR e (by
    have : g.R = s1 ++ s2 := hsp
    rw [this]; exact List.mem_append_right _ he)
  rcases hend with ⟨rfl, hp⟩ | ⟨_, hfn⟩
  · obtain ⟨F, hF, hps, hph, hlg⟩ := hp.pst
    have hFe : F = serAll s2 := List.append_cancel_right hF
    subst hFe
    have hnf : (run .header (serAll s2) g.mc).st.isFinal = false := (run_idle_out g.mc s2 hs2).2.2
    have hob : (run .header (serAll s2) (g.front left).mc).out = idleOwed g.mc s2 :=
      (run_idle_out g.mc s2 hs2).1
    refine ⟨c', s1, s2, dd, hrun, hsp, hd1, hd2, hkp.ev _ (by simp), ⟨hph, hnf, hps.rem, hp.inp, by rw [hlg, hob], ⟨(gC (g.front left) s1 s2).LU, by
      show _ = _ ++ (run .header (serAll s2) (g.front left).mc).out
      rw [hob]⟩, hps.stop, hps.ben, hkp.sc, hkp.mx,
      hkp.hs, ?_, hsg', hem', by omega⟩⟩
    intro s hs
    rcases List.mem_cons.1 hs with rfl | hs
    · exact hkp.ev _ List.mem_cons_self
    · exact hev' s hs
  · rw [hfn.em] at hem'; cases hem'

/-- `run_auth` without the size hypothesis. -/
theorem run_auth' {g : Cfg} {rd : ARead} {wr : Bool} (ok : AOK g rd wr) {Z : Bytes}
    (hns : ∀ t1 t2, g.body = t1 ++ t2 → NoStuckW g.cap g.mc (serAll t2 ++ Z))
    (hNF : ∀ t1 t2, g.body = t1 ++ t2 → ∀ F x, F ++ x ++ Z = serAll t2 ++ Z → (run .header F g.mc).st.isFinal = false)
    (em : EndMode) (evs0 : List String) (c : Conn) (n0 fuel : Nat) (hst : FStage g c)
    (hem : c.env.tr.endMode = em) (hev0 : ∀ s ∈ evs0, s ∈ c.env.tr.events)
    (hsegs : c.env.segs = []) (hf : ans c.env.tr + 1 ≤ fuel) :
    ∃ c'' fin, runTask fuel c n0 none = (c'', fin) ∧
      (GEnd g.cap g.mc Z g.more (g.hs0 + 1) (AIdx.OKk g) (fun i => serAll i.t2 ++ Z) (AIdx.L g)
          (fun _ => hsEvent g.p.request :: g.revs) em evs0 (ans c.env.tr) c'' fin ∨
       (fin = "RET" ∧ FA g c'' ∧ c''.env.tr.endMode = em ∧ (∀ s ∈ evs0, s ∈ c''.env.tr.events))) :=
  run_stages3' (cap24 g) (fun i hi => hns i.t1 i.t2 hi.1.1) (fun i hi => hNF i.t1 i.t2 hi.1.1) (fun _ _ h => h.cong)
    (fun _ h => (sa_poll ok h).imp (fun _ _ h => h) (fun c1 _ h => by
      obtain ⟨s1, s2, O1, O2, hsp, hO, hrd, haf⟩ := h
      obtain ⟨raw, hph, hw, hraw⟩ := haf.ph
      refine ⟨⟨s1, s2, O1, O2⟩, ⟨⟨hsp, hO⟩, haf.keep⟩, Or.inr ⟨raw, hph, by rw [hw]; rfl, hraw, ?_, haf.ben, haf.stop⟩,
        ⟨haf.sc, haf.mtx, haf.ev.1, fun s hs => ?_⟩⟩
      · rw [haf.log, gD_LU]; rfl
      · rcases List.mem_cons.1 hs with rfl | hs
        · exact haf.ev.2
        · exact hrd s hs) (fun _ _ h => h))
    em evs0 c n0 fuel (Or.inl hst) hem hev0 hsegs hf

/-- `serve_auth_core` without the size hypothesis. -/
theorem serve_auth_core' {g : Cfg} {rd : ARead} {wr : Bool} (ok : AOK g rd wr) (hk : g.p.flags.toNat % 2 = 1)
    {left : List Rec} (hleft : LeftOK (alignedBufsize g.b) left) {Z : Bytes} (hR : ∀ e ∈ g.body, IdleNoise e)
    (hZ : ∀ t1 t2, g.body = t1 ++ t2 → GoodNext g.cap g.mc t2 Z)
    {Lw : Bytes} {evs : List String} {A0 : Nat} {c : Conn} (n0 fuel : Nat)
    (hLw : Lw = g.L0 ++ idleOwed g.mc left)
    (hstart : StartAt g.cap g.mc left Lw ((g.hscript, true) :: g.more) g.hs0 evs A0 g.W c)
    (hf : A0 + 1 ≤ fuel) :
    ∃ c' i, runTask fuel c n0 none = (c', "STALL") ∧ AIdx.OK g i ∧ (∀ s ∈ g.revs, s ∈ c'.env.tr.events) ∧
      Waiting g.cap g.mc i.t2 (AIdx.L (g.front left) i ++ idleOwed g.mc i.t2) g.more
        (g.hs0 + 1) (hsEvent g.p.request :: evs) A0 c' := by
  have okf := ok.front hleft
  obtain ⟨hst, hsg, hem, hans, hev, hin⟩ := fstage_of_startAt hleft hLw hstart
  obtain ⟨c', fin, hrun, hres⟩ :=
    run_auth' okf (Z := Z) (fun t1 t2 h => (hZ t1 t2 h).1) (fun t1 t2 h => (hZ t1 t2 h).2) .pend evs c n0 fuel hst hem hev hsg
      (by omega)
  rcases hres with ⟨i, hi, hkp, hem', hev', hans', hsg', hend⟩ | ⟨_, ⟨s1, s2, O1, O2, _, _, _, hfu⟩, _, _⟩
  · have hi' : AIdx.OK g i := hi.1
    have hs2 : ∀ e ∈ i.t2, IdleNoise e := fun e he => hR e (by rw [hi'.1]; exact List.mem_append_right _ he)
    rcases hend with ⟨rfl, hp⟩ | ⟨_, hfn⟩
    · obtain ⟨F, hF, hps, hph, hlg⟩ := hp.pst
      have hFe : F = serAll i.t2 := List.append_cancel_right hF
      subst hFe
      have hnf : (run .header (serAll i.t2) g.mc).st.isFinal = false := (run_idle_out g.mc i.t2 hs2).2.2
      have hob : (run .header (serAll i.t2) (g.front left).mc).out = idleOwed g.mc i.t2 :=
        (run_idle_out g.mc i.t2 hs2).1
      refine ⟨c', i, hrun, hi', fun s hs => hkp.ev _ (List.mem_cons_of_mem _ hs), ⟨hph, hnf, hps.rem, hp.inp,
        by rw [hlg, hob], ⟨AIdx.L (g.front left) i, by
          show _ = _ ++ (run .header (serAll i.t2) (g.front left).mc).out
          rw [hob]⟩, hps.stop, hps.ben, hkp.sc, hkp.mx,
        hkp.hs, ?_, hsg', hem', by omega⟩⟩
      intro s hs
      rcases List.mem_cons.1 hs with rfl | hs
      · exact hkp.ev _ List.mem_cons_self
      · exact hev' s hs
    · rw [hfn.em] at hem'; cases hem'
  · have := hfu.nokeep
    have e : (gD (g.front left) s2 (((g.front left).L1 ++ O1) ++ (g.front left).D ++ O2)).p = g.p := rfl
    rw [e] at this
    omega

/-- `serve_unread_core` without the size hypothesis. -/
theorem serve_unread_core' {g : Cfg} (ok : UOK g) (hk : g.p.flags.toNat % 2 = 1) {left : List Rec}
    (hleft : LeftOK (alignedBufsize g.b) left) {Z : Bytes} (hbody : ∀ e ∈ g.body, IdleNoise e)
    (hZ : GoodNext g.cap g.mc g.body Z)
    {Lw : Bytes} {evs : List String} {A0 : Nat} {c : Conn} (n fuel : Nat)
    (hLw : Lw = g.L0 ++ idleOwed g.mc left)
    (hstart : StartAt g.cap g.mc left Lw ((g.hscript, true) :: g.more) g.hs0 evs A0 g.W c)
    (hf : A0 + 1 ≤ fuel) :
    ∃ c', runTask fuel c n none = (c', "STALL") ∧
      Waiting g.cap g.mc g.body ((g.front left).LU ++ idleOwed g.mc g.body) g.more (g.hs0 + 1)
        (hsEvent g.p.request :: evs) A0 c' := by
  have okf := ok.front hleft
  have hout := (run_idle_out g.mc left hleft.1).1
  have hst : UStage (g.front left) c ∧ c.env.segs = [] ∧ c.env.tr.endMode = .pend ∧ ans c.env.tr ≤ A0 ∧
      (∀ s ∈ evs, s ∈ c.env.tr.events) ∧ c.env.tr.input = g.W := by
    rcases hstart with ⟨c0, w, rfl⟩ | ⟨hl, hph, hin, hlog, hb, hstop, hsc, hm, hhs, hev, hsg, hem, hans⟩
    · obtain ⟨L, hL, hpst⟩ := w.pst g.W
      have hLe : L = g.L0 := by
        rw [hLw, hout] at hL
        exact (List.append_cancel_right hL).symm
      subst hLe
      refine ⟨.parse (F := serAll left) (by rw [Cfg.front_W]; exact hpst) w.sc w.mtx w.hs, w.segs, w.em, w.ans, w.ev, rfl⟩
    · subst hl
      refine ⟨.start (raw := []) hph (by rw [Cfg.front_W, hin]; rfl) (Nat.zero_le _) ?_ hb hstop hsc hm hhs,
        hsg, hem, hans, hev, hin⟩
      rw [hlog, hLw]; simp [idleOwed]; rfl
  obtain ⟨hst, hsg, hem, hans, hev, hin⟩ := hst
  have hU : (g.front left).U = serAll g.body := ok.hU
  obtain ⟨c', fin, hrun, hkp, hem', hev', hans', hsg', hend⟩ :=
    run_unread' okf hk (Z := Z) (by rw [hU]; exact hZ.1) (by rw [hU]; exact hZ.2) .pend evs c n fuel hst hem hev hsg
      (by omega)
  rcases hend with ⟨rfl, hp⟩ | ⟨_, hfn⟩
  · obtain ⟨F, hF, hps, hph, hlg⟩ := hp.pst
    have hFe : F = serAll g.body := by rw [hU] at hF; exact List.append_cancel_right hF
    subst hFe
    have hnf : (run .header (serAll g.body) g.mc).st.isFinal = false := (run_idle_out g.mc g.body hbody).2.2
    have hob : (run .header (serAll g.body) (g.front left).mc).out = idleOwed g.mc g.body :=
      (run_idle_out g.mc g.body hbody).1
    refine ⟨c', hrun, ⟨hph, hnf, hps.rem, hp.inp, by rw [hlg, hob], ⟨(g.front left).LU, by
      show _ = _ ++ (run .header (serAll g.body) (g.front left).mc).out
      rw [hob]⟩, hps.stop, hps.ben, hkp.sc, hkp.mx,
      hkp.hs, ?_, hsg', hem', by omega⟩⟩
    intro s hs
    rcases List.mem_cons.1 hs with rfl | hs
    · exact hkp.ev _ List.mem_cons_self
    · exact hev' s hs
  · rw [hfn.em] at hem'; cases hem'

/-- `run_filterA` without the size hypothesis. -/
theorem run_filterA' {g : Cfg} {a : Rec} (ok : FAOK g a) {Z : Bytes}
    (hns : NoStuckW g.cap g.mc (g.U ++ Z))
    (hNF : ∀ F x, F ++ x ++ Z = g.U ++ Z → (run .header F g.mc).st.isFinal = false)
    (em : EndMode) (evs0 : List String) (c : Conn) (n0 fuel : Nat) (hst : FStage g c)
    (hem : c.env.tr.endMode = em) (hev0 : ∀ s ∈ evs0, s ∈ c.env.tr.events)
    (hsegs : c.env.segs = []) (hf : ans c.env.tr + 1 ≤ fuel) :
    ∃ c'' fin, runTask fuel c n0 none = (c'', fin) ∧
      (GEnd g.cap g.mc Z g.more (g.hs0 + 1) (fun _ : Unit => g.p.flags.toNat % 2 = 1) (fun _ => g.U ++ Z)
          (fun _ => g.LfA) (fun _ => [hsEvent g.p.request]) em evs0 (ans c.env.tr) c'' fin ∨
       (fin = "RET" ∧ FinE g g.LfA c'' ∧ c''.env.tr.endMode = em ∧ (∀ s ∈ evs0, s ∈ c''.env.tr.events))) :=
  run_stages3' (cap24 g) (fun _ _ => hns) (fun _ _ => hNF) (fun _ _ h => h.cong)
    (fun _ h => (sfa_poll ok h).imp (fun _ _ h => h)
      (fun _ _ h => h.ztail (evs := []) (fun _ hs => nomatch hs)) (fun _ _ h => h))
    em evs0 c n0 fuel (Or.inl hst) hem hev0 hsegs hf

/-- `serve_filterA_core` without the size hypothesis. -/
theorem serve_filterA_core' {g : Cfg} {a : Rec} (ok : FAOK g a) (hk : g.p.flags.toNat % 2 = 1)
    {left : List Rec} (hleft : LeftOK (alignedBufsize g.b) left) {Z : Bytes}
    (hR : ∀ e ∈ a :: g.body2, IdleNoise e) (hZ : GoodNext g.cap g.mc (a :: g.body2) Z)
    {Lw : Bytes} {evs : List String} {A0 : Nat} {c : Conn} (n0 fuel : Nat)
    (hLw : Lw = g.L0 ++ idleOwed g.mc left)
    (hstart : StartAt g.cap g.mc left Lw ((g.hscript, true) :: g.more) g.hs0 evs A0 g.W c)
    (hf : A0 + 1 ≤ fuel) :
    ∃ c', runTask fuel c n0 none = (c', "STALL") ∧
      Waiting g.cap g.mc (a :: g.body2) ((g.front left).LfA ++ idleOwed g.mc (a :: g.body2)) g.more
        (g.hs0 + 1) (hsEvent g.p.request :: evs) A0 c' := by
  have okf := ok.front hleft
  obtain ⟨hst, hsg, hem, hans, hev, hin⟩ := fstage_of_startAt hleft hLw hstart
  have hser : serAll (a :: g.body2) = g.U := by rw [ok.hU, serAll_cons]
  obtain ⟨c', fin, hrun, hres⟩ :=
    run_filterA' okf (Z := Z) (by show NoStuckW g.cap g.mc (g.U ++ Z); rw [← hser]; exact hZ.1)
      (by show ∀ F x, F ++ x ++ Z = g.U ++ Z → _; rw [← hser]; exact hZ.2) .pend evs c n0 fuel hst hem hev hsg
      (by omega)
  rcases hres with ⟨_, _, hkp, hem', hev', hans', hsg', hend⟩ | ⟨_, hfu, _, _⟩
  · rcases hend with ⟨rfl, hp⟩ | ⟨_, hfn⟩
    · obtain ⟨F, hF, hps, hph, hlg⟩ := hp.pst
      have hFe : F = serAll (a :: g.body2) := by
        have : F ++ Z = g.U ++ Z := hF
        rw [hser]; exact List.append_cancel_right this
      subst hFe
      have hnf : (run .header (serAll (a :: g.body2)) g.mc).st.isFinal = false := (run_idle_out g.mc _ hR).2.2
      have hob : (run .header (serAll (a :: g.body2)) (g.front left).mc).out = idleOwed g.mc (a :: g.body2) :=
        (run_idle_out g.mc _ hR).1
      refine ⟨c', hrun, ⟨hph, hnf, hps.rem, hp.inp, by rw [hlg, hob], ⟨(g.front left).LfA, by
        show _ = _ ++ (run .header (serAll (a :: g.body2)) (g.front left).mc).out
        rw [hob]⟩, hps.stop, hps.ben, hkp.sc, hkp.mx,
        hkp.hs, ?_, hsg', hem', by omega⟩⟩
      intro s hs
      rcases List.mem_cons.1 hs with rfl | hs
      · exact hkp.ev _ List.mem_cons_self
      · exact hev' s hs
    · rw [hfn.em] at hem'; cases hem'
  · have := hfu.nokeep
    have e : (g.front left).p = g.p := rfl
    rw [e] at this
    omega

/-- `run_filterR1` without the size hypothesis. -/
theorem run_filterR1' {g : Cfg} {a : Rec} {s0 : ExitStatus} {pr : Bool} (ok : FR1OK g a s0 pr) {Z : Bytes}
    (hns : NoStuckW g.cap g.mc (g.U ++ Z))
    (hNF : ∀ F x, F ++ x ++ Z = g.U ++ Z → (run .header F g.mc).st.isFinal = false)
    (em : EndMode) (evs0 : List String) (c : Conn) (n0 fuel : Nat) (hst : FStageP g pr c)
    (hem : c.env.tr.endMode = em) (hev0 : ∀ s ∈ evs0, s ∈ c.env.tr.events)
    (hsegs : c.env.segs = []) (hf : ans c.env.tr + 1 ≤ fuel) :
    ∃ c'' fin, runTask fuel c n0 none = (c'', fin) ∧
      (GEnd g.cap g.mc Z g.more (g.hs0 + 1) (fun _ : Unit => g.p.flags.toNat % 2 = 1) (fun _ => g.U ++ Z)
          (fun _ => g.LfO g.Ow1) (fun _ => [hsEvent g.p.request]) em evs0 (ans c.env.tr) c'' fin ∨
       (fin = "RET" ∧ FinE g (g.LfO g.Ow1) c'' ∧ c''.env.tr.endMode = em ∧ (∀ s ∈ evs0, s ∈ c''.env.tr.events))) :=
  run_stages3' (cap24 g) (fun _ _ => hns) (fun _ _ => hNF) (fun _ _ h => h.cong)
    (fun _ h => (s1_poll ok h).imp (fun _ _ h => h)
      (fun _ _ h => h.ztail (evs := []) (fun _ hs => nomatch hs)) (fun _ _ h => h))
    em evs0 c n0 fuel (Or.inl hst) hem hev0 hsegs hf

/-- `serve_filterR1_core` without the size hypothesis. -/
theorem serve_filterR1_core' {g : Cfg} {a : Rec} {s0 : ExitStatus} {pr : Bool} (ok : FR1OK g a s0 pr) (hk : g.p.flags.toNat % 2 = 1)
    {left : List Rec} (hleft : LeftOK (alignedBufsize g.b) left) {Z : Bytes}
    (hR : ∀ e ∈ a :: g.body2, IdleNoise e) (hZ : GoodNext g.cap g.mc (a :: g.body2) Z)
    {Lw : Bytes} {evs : List String} {A0 : Nat} {c : Conn} (n0 fuel : Nat)
    (hLw : Lw = g.L0 ++ idleOwed g.mc left)
    (hstart : StartAt g.cap g.mc left Lw ((g.hscript, pr) :: g.more) g.hs0 evs A0 g.W c)
    (hf : A0 + 1 ≤ fuel) :
    ∃ c', runTask fuel c n0 none = (c', "STALL") ∧
      Waiting g.cap g.mc (a :: g.body2) ((g.front left).LfO g.Ow1 ++ idleOwed g.mc (a :: g.body2)) g.more
        (g.hs0 + 1) (hsEvent g.p.request :: evs) A0 c' := by
  have okf := ok.front hleft
  obtain ⟨hst, hsg, hem, hans, hev, hin⟩ := fstage_of_startAtP hleft hLw hstart
  have hser : serAll (a :: g.body2) = g.U := by rw [ok.hU, serAll_cons]
  obtain ⟨c', fin, hrun, hres⟩ :=
    run_filterR1' okf (Z := Z) (by show NoStuckW g.cap g.mc (g.U ++ Z); rw [← hser]; exact hZ.1)
      (by show ∀ F x, F ++ x ++ Z = g.U ++ Z → _; rw [← hser]; exact hZ.2) .pend evs c n0 fuel hst hem hev hsg
      (by omega)
  rcases hres with ⟨_, _, hkp, hem', hev', hans', hsg', hend⟩ | ⟨_, hfu, _, _⟩
  · rcases hend with ⟨rfl, hp⟩ | ⟨_, hfn⟩
    · obtain ⟨F, hF, hps, hph, hlg⟩ := hp.pst
      have hFe : F = serAll (a :: g.body2) := by
        have : F ++ Z = g.U ++ Z := hF
        rw [hser]; exact List.append_cancel_right this
      subst hFe
      have hnf : (run .header (serAll (a :: g.body2)) g.mc).st.isFinal = false := (run_idle_out g.mc _ hR).2.2
      have hob : (run .header (serAll (a :: g.body2)) (g.front left).mc).out = idleOwed g.mc (a :: g.body2) :=
        (run_idle_out g.mc _ hR).1
      refine ⟨c', hrun, ⟨hph, hnf, hps.rem, hp.inp, by rw [hlg, hob]; rfl, ⟨(g.front left).LfO g.Ow1, by
        show _ = _ ++ (run .header (serAll (a :: g.body2)) (g.front left).mc).out
        rw [hob]⟩, hps.stop, hps.ben, hkp.sc, hkp.mx,
        hkp.hs, ?_, hsg', hem', by omega⟩⟩
      intro s hs
      rcases List.mem_cons.1 hs with rfl | hs
      · exact hkp.ev _ List.mem_cons_self
      · exact hev' s hs
    · rw [hfn.em] at hem'; cases hem'
  · have := hfu.nokeep
    have e : (g.front left).p = g.p := rfl
    rw [e] at this
    omega



/-- `run_filterR2` without the size hypothesis. -/
theorem run_filterR2' {g : Cfg} {mid : List Rec} {a : Rec} {s0 : ExitStatus} {pr : Bool}
    (ok : FR2OK g mid a s0 pr) {Z : Bytes}
    (hns : NoStuckW g.cap g.mc (g.U ++ Z))
    (hNF : ∀ F x, F ++ x ++ Z = g.U ++ Z → (run .header F g.mc).st.isFinal = false)
    (em : EndMode) (evs0 : List String) (c : Conn) (n0 fuel : Nat) (hst : FStageP g pr c)
    (hem : c.env.tr.endMode = em) (hev0 : ∀ s ∈ evs0, s ∈ c.env.tr.events)
    (hsegs : c.env.segs = []) (hf : ans c.env.tr + 1 ≤ fuel) :
    ∃ c'' fin, runTask fuel c n0 none = (c'', fin) ∧
      (GEnd g.cap g.mc Z g.more (g.hs0 + 1) (fun _ : Unit => g.p.flags.toNat % 2 = 1) (fun _ => g.U ++ Z)
          (fun _ => g.LfO (g.Ow2 mid)) (fun _ => [hsEvent g.p.request]) em evs0 (ans c.env.tr) c'' fin ∨
       (fin = "RET" ∧ FinE g (g.LfO (g.Ow2 mid)) c'' ∧ c''.env.tr.endMode = em ∧
        (∀ s ∈ evs0, s ∈ c''.env.tr.events))) :=
  run_stages3' (cap24 g) (fun _ _ => hns) (fun _ _ => hNF) (fun _ _ h => h.cong)
    (fun _ h => (s2_poll ok h).imp (fun _ _ h => h)
      (fun _ _ h => h.ztail (evs := []) (fun _ hs => nomatch hs)) (fun _ _ h => h))
    em evs0 c n0 fuel (Or.inl hst) hem hev0 hsegs hf

/-- `serve_filterR2_core` without the size hypothesis. -/
theorem serve_filterR2_core' {g : Cfg} {mid : List Rec} {a : Rec} {s0 : ExitStatus} {pr : Bool} (ok : FR2OK g mid a s0 pr) (hk : g.p.flags.toNat % 2 = 1)
    {left : List Rec} (hleft : LeftOK (alignedBufsize g.b) left) {Z : Bytes}
    (hR : ∀ e ∈ a :: g.body2, IdleNoise e) (hZ : GoodNext g.cap g.mc (a :: g.body2) Z)
    {Lw : Bytes} {evs : List String} {A0 : Nat} {c : Conn} (n0 fuel : Nat)
    (hLw : Lw = g.L0 ++ idleOwed g.mc left)
    (hstart : StartAt g.cap g.mc left Lw ((g.hscript, pr) :: g.more) g.hs0 evs A0 g.W c)
    (hf : A0 + 1 ≤ fuel) :
    ∃ c', runTask fuel c n0 none = (c', "STALL") ∧
      Waiting g.cap g.mc (a :: g.body2) ((g.front left).LfO (g.Ow2 mid) ++ idleOwed g.mc (a :: g.body2)) g.more
        (g.hs0 + 1) (hsEvent g.p.request :: evs) A0 c' := by
  have okf := ok.front hleft
  obtain ⟨hst, hsg, hem, hans, hev, hin⟩ := fstage_of_startAtP hleft hLw hstart
  have hser : serAll (a :: g.body2) = g.U := by rw [ok.hU, serAll_cons]
  obtain ⟨c', fin, hrun, hres⟩ :=
    run_filterR2' okf (Z := Z) (by show NoStuckW g.cap g.mc (g.U ++ Z); rw [← hser]; exact hZ.1)
      (by show ∀ F x, F ++ x ++ Z = g.U ++ Z → _; rw [← hser]; exact hZ.2) .pend evs c n0 fuel hst hem hev hsg
      (by omega)
  rcases hres with ⟨_, _, hkp, hem', hev', hans', hsg', hend⟩ | ⟨_, hfu, _, _⟩
  · rcases hend with ⟨rfl, hp⟩ | ⟨_, hfn⟩
    · obtain ⟨F, hF, hps, hph, hlg⟩ := hp.pst
      have hFe : F = serAll (a :: g.body2) := by
        have : F ++ Z = g.U ++ Z := hF
        rw [hser]; exact List.append_cancel_right this
      subst hFe
      have hnf : (run .header (serAll (a :: g.body2)) g.mc).st.isFinal = false := (run_idle_out g.mc _ hR).2.2
      have hob : (run .header (serAll (a :: g.body2)) (g.front left).mc).out = idleOwed g.mc (a :: g.body2) :=
        (run_idle_out g.mc _ hR).1
      refine ⟨c', hrun, ⟨hph, hnf, hps.rem, hp.inp, by rw [hlg, hob]; rfl, ⟨(g.front left).LfO (g.Ow2 mid), by
        show _ = _ ++ (run .header (serAll (a :: g.body2)) (g.front left).mc).out
        rw [hob]⟩, hps.stop, hps.ben, hkp.sc, hkp.mx,
        hkp.hs, ?_, hsg', hem', by omega⟩⟩
      intro s hs
      rcases List.mem_cons.1 hs with rfl | hs
      · exact hkp.ev _ List.mem_cons_self
      · exact hev' s hs
    · rw [hfn.em] at hem'; cases hem'
  · have := hfu.nokeep
    have e : (g.front left).p = g.p := rfl
    rw [e] at this
    omega



/-- `run_filterR3` without the size hypothesis. -/
theorem run_filterR3' {g : Cfg} {db : List Rec} {a : Rec} {s0 : ExitStatus} {pr : Bool}
    (ok : FR3OK g db a s0 pr) {Z : Bytes}
    (hns : NoStuckW g.cap g.mc (g.U ++ Z))
    (hNF : ∀ F x, F ++ x ++ Z = g.U ++ Z → (run .header F g.mc).st.isFinal = false)
    (em : EndMode) (evs0 : List String) (c : Conn) (n0 fuel : Nat) (hst : FStageP g pr c)
    (hem : c.env.tr.endMode = em) (hev0 : ∀ s ∈ evs0, s ∈ c.env.tr.events)
    (hsegs : c.env.segs = []) (hf : ans c.env.tr + 1 ≤ fuel) :
    ∃ c'' fin, runTask fuel c n0 none = (c'', fin) ∧
      (GEnd g.cap g.mc Z g.more (g.hs0 + 1)
          (fun acc : Bytes => g.p.flags.toNat % 2 = 1 ∧ ∃ lost, acc ++ lost = g.content2) (fun _ => g.U ++ Z)
          (g.Lf3 db) (fun acc => [hsEvent g.p.request, raEvent acc]) em evs0 (ans c.env.tr) c'' fin ∨
       (fin = "RET" ∧ F3 g (g.Ow3 db) g.content2 c'' ∧ c''.env.tr.endMode = em ∧
        (∀ s ∈ evs0, s ∈ c''.env.tr.events))) :=
  run_stages3' (cap24 g) (fun _ _ => hns) (fun _ _ => hNF) (fun _ _ h => h.cong)
    (fun _ h => (s3_poll ok h).imp (fun _ _ h => h) (fun _ _ h => h.ztail) (fun _ _ h => h))
    em evs0 c n0 fuel (Or.inl hst) hem hev0 hsegs hf

/-- `serve_filterR3_core` without the size hypothesis. -/
theorem serve_filterR3_core' {g : Cfg} {db : List Rec} {a : Rec} {s0 : ExitStatus} {pr : Bool}
    (ok : FR3OK g db a s0 pr) (hk : g.p.flags.toNat % 2 = 1)
    {left : List Rec} (hleft : LeftOK (alignedBufsize g.b) left) {Z : Bytes}
    (hR : ∀ e ∈ a :: g.body2, IdleNoise e) (hZ : GoodNext g.cap g.mc (a :: g.body2) Z)
    {Lw : Bytes} {evs : List String} {A0 : Nat} {c : Conn} (n0 fuel : Nat)
    (hLw : Lw = g.L0 ++ idleOwed g.mc left)
    (hstart : StartAt g.cap g.mc left Lw ((g.hscript, pr) :: g.more) g.hs0 evs A0 g.W c)
    (hf : A0 + 1 ≤ fuel) :
    ∃ c' acc lost, runTask fuel c n0 none = (c', "STALL") ∧ acc ++ lost = g.content2 ∧
      Waiting g.cap g.mc (a :: g.body2) ((g.front left).Lf3 db acc ++ idleOwed g.mc (a :: g.body2)) g.more
        (g.hs0 + 1) (hsEvent g.p.request :: raEvent acc :: evs) A0 c' := by
  have okf := ok.front hleft
  obtain ⟨hst, hsg, hem, hans, hev, hin⟩ := fstage_of_startAtP hleft hLw hstart
  have hser : serAll (a :: g.body2) = g.U := by rw [ok.hU, serAll_cons]
  obtain ⟨c', fin, hrun, hres⟩ :=
    run_filterR3' okf (Z := Z) (by show NoStuckW g.cap g.mc (g.U ++ Z); rw [← hser]; exact hZ.1)
      (by show ∀ F x, F ++ x ++ Z = g.U ++ Z → _; rw [← hser]; exact hZ.2) .pend evs c n0 fuel hst hem hev hsg
      (by omega)
  rcases hres with ⟨acc, ⟨_, lost, hal⟩, hkp, hem', hev', hans', hsg', hend⟩ | ⟨_, hfu, _, _⟩
  · rcases hend with ⟨rfl, hp⟩ | ⟨_, hfn⟩
    · obtain ⟨F, hF, hps, hph, hlg⟩ := hp.pst
      have hFe : F = serAll (a :: g.body2) := by
        have : F ++ Z = g.U ++ Z := hF
        rw [hser]; exact List.append_cancel_right this
      subst hFe
      have hnf : (run .header (serAll (a :: g.body2)) g.mc).st.isFinal = false := (run_idle_out g.mc _ hR).2.2
      have hob : (run .header (serAll (a :: g.body2)) (g.front left).mc).out = idleOwed g.mc (a :: g.body2) :=
        (run_idle_out g.mc _ hR).1
      refine ⟨c', acc, lost, hrun, hal, ⟨hph, hnf, hps.rem, hp.inp, by rw [hlg, hob],
        ⟨(g.front left).Lf3 db acc, by
          show _ = _ ++ (run .header (serAll (a :: g.body2)) (g.front left).mc).out
          rw [hob]⟩, hps.stop, hps.ben, hkp.sc, hkp.mx,
        hkp.hs, ?_, hsg', hem', by omega⟩⟩
      intro s hs
      rcases List.mem_cons.1 hs with rfl | hs
      · exact hkp.ev _ List.mem_cons_self
      rcases List.mem_cons.1 hs with rfl | hs
      · exact hkp.ev _ (by simp)
      · exact hev' s hs
    · rw [hfn.em] at hem'; cases hem'
  · obtain ⟨acc, lost, _, _, h3⟩ := hfu
    have hnk : (g.front left).p.flags.toNat % 2 = 0 := by
      rcases h3 with ⟨_, h⟩ | ⟨_, h⟩ <;> exact h.nokeep
    have e : (g.front left).p = g.p := rfl
    rw [e] at hnk
    omega

/-- `run_filterR4` without the size hypothesis. -/
theorem run_filterR4' {g : Cfg} {db : List Rec} {a : Rec} (ok : FR4OK g db a) {Z : Bytes}
    (hns : ∀ s2, s2 <:+ db → NoStuckW g.cap g.mc (g.U4 a s2 ++ Z))
    (hNF : ∀ s2, s2 <:+ db → ∀ F x, F ++ x ++ Z = g.U4 a s2 ++ Z → (run .header F g.mc).st.isFinal = false)
    (em : EndMode) (evs0 : List String) (c : Conn) (n0 fuel : Nat) (hst : FStage g c)
    (hem : c.env.tr.endMode = em) (hev0 : ∀ s ∈ evs0, s ∈ c.env.tr.events)
    (hsegs : c.env.segs = []) (hf : ans c.env.tr + 1 ≤ fuel) :
    ∃ c'' fin, runTask fuel c n0 none = (c'', fin) ∧
      (GEnd g.cap g.mc Z g.more (g.hs0 + 1)
          (fun i : Bool × List Rec × List Rec => g.p.flags.toNat % 2 = 1 ∧ Split4 db i.1 i.2.1 i.2.2)
          (fun i => g.U4 a i.2.2 ++ Z) (fun i => g.Lf4 i.1 i.2.1) (fun _ => [hsEvent g.p.request])
          em evs0 (ans c.env.tr) c'' fin ∨
       (fin = "RET" ∧ F4 g db a c'' ∧ c''.env.tr.endMode = em ∧ (∀ s ∈ evs0, s ∈ c''.env.tr.events))) :=
  run_stages3' (cap24 g) (fun i hi => hns i.2.2 ⟨i.2.1, hi.2.1.symm⟩) (fun i hi => hNF i.2.2 ⟨i.2.1, hi.2.1.symm⟩)
    (fun _ _ h => h.cong)
    (fun _ h => (s4_poll ok h).imp (fun _ _ h => h) (fun c1 _ h => by
      obtain ⟨full, d1, s2, hsp, haf⟩ := h
      obtain ⟨raw, hph, hw, hraw⟩ := haf.ph
      exact ⟨(full, d1, s2), ⟨haf.keep, hsp⟩, Or.inr ⟨raw, hph, by rw [hw]; rfl, hraw, haf.log, haf.ben, haf.stop⟩,
        ⟨haf.sc, haf.mtx, haf.ev.1, fun s hs => by
          rw [List.mem_singleton.1 hs]; exact haf.ev.2⟩⟩) (fun _ _ h => h))
    em evs0 c n0 fuel (Or.inl hst) hem hev0 hsegs hf

/-- `serve_filterR4_core` without the size hypothesis. -/
theorem serve_filterR4_core' {g : Cfg} {db : List Rec} {a : Rec} (ok : FR4OK g db a) (hk : g.p.flags.toNat % 2 = 1)
    {left : List Rec} (hleft : LeftOK (alignedBufsize g.b) left) {Z : Bytes}
    (hR : ∀ s2, s2 <:+ db → ∀ e ∈ s2 ++ a :: g.body2, IdleNoise e)
    (hZ : ∀ s2, s2 <:+ db → GoodNext g.cap g.mc (s2 ++ a :: g.body2) Z)
    {Lw : Bytes} {evs : List String} {A0 : Nat} {c : Conn} (n0 fuel : Nat)
    (hLw : Lw = g.L0 ++ idleOwed g.mc left)
    (hstart : StartAt g.cap g.mc left Lw ((g.hscript, true) :: g.more) g.hs0 evs A0 g.W c)
    (hf : A0 + 1 ≤ fuel) :
    ∃ c' full d1 s2, runTask fuel c n0 none = (c', "STALL") ∧ Split4 db full d1 s2 ∧
      Waiting g.cap g.mc (s2 ++ a :: g.body2) ((g.front left).Lf4 full d1 ++ idleOwed g.mc (s2 ++ a :: g.body2))
        g.more (g.hs0 + 1) (hsEvent g.p.request :: evs) A0 c' := by
  have okf := ok.front hleft
  obtain ⟨hst, hsg, hem, hans, hev, hin⟩ := fstage_of_startAt hleft hLw hstart
  obtain ⟨c', fin, hrun, hres⟩ :=
    run_filterR4' okf (Z := Z) (fun s2 hs2 => (hZ s2 hs2).1) (fun s2 hs2 => (hZ s2 hs2).2) .pend evs c n0 fuel hst hem hev
      hsg (by omega)
  rcases hres with ⟨⟨full, d1, s2⟩, ⟨_, hsp⟩, hkp, hem', hev', hans', hsg', hend⟩ | ⟨_, ⟨full, d1, s2, _, hfu⟩, _, _⟩
  · have hsuf : s2 <:+ db := ⟨d1, hsp.1.symm⟩
    have hs2 := hR s2 hsuf
    rcases hend with ⟨rfl, hp⟩ | ⟨_, hfn⟩
    · obtain ⟨F, hF, hps, hph, hlg⟩ := hp.pst
      have hFe : F = serAll (s2 ++ a :: g.body2) := List.append_cancel_right hF
      subst hFe
      have hnf : (run .header (serAll (s2 ++ a :: g.body2)) g.mc).st.isFinal = false := (run_idle_out g.mc _ hs2).2.2
      have hob : (run .header (serAll (s2 ++ a :: g.body2)) (g.front left).mc).out = idleOwed g.mc (s2 ++ a :: g.body2) :=
        (run_idle_out g.mc _ hs2).1
      refine ⟨c', full, d1, s2, hrun, hsp, ⟨hph, hnf, hps.rem, hp.inp, by rw [hlg, hob],
        ⟨(g.front left).Lf4 full d1, by
          show _ = _ ++ (run .header (serAll (s2 ++ a :: g.body2)) (g.front left).mc).out
          rw [hob]⟩, hps.stop, hps.ben, hkp.sc, hkp.mx,
        hkp.hs, ?_, hsg', hem', by omega⟩⟩
      intro s hs
      rcases List.mem_cons.1 hs with rfl | hs
      · exact hkp.ev _ List.mem_cons_self
      · exact hev' s hs
    · rw [hfn.em] at hem'; cases hem'
  · have hnk := hfu.nokeep
    have e : ((g.front left).withU ((g.front left).U4 a s2)).p = g.p := rfl
    rw [e] at hnk
    omega

/-- `serve_full_core` without the size hypothesis. -/
theorem serve_full_core' {g : Cfg} (ok : g.OK) (hk : g.p.flags.toNat % 2 = 1) {left : List Rec}
    (hleft : LeftOK (alignedBufsize g.b) left) {Lw : Bytes} {evs : List String} {A0 : Nat} {c : Conn} (n fuel : Nat)
    (hLw : Lw = g.L0 ++ idleOwed g.mc left)
    (hstart : StartAt g.cap g.mc left Lw ((g.hscript, true) :: g.more) g.hs0 evs A0 g.W c)
    (hf : A0 + 1 ≤ fuel) :
    ∃ c' O1 O2, runTask fuel c n none = (c', "STALL") ∧ O1 ++ O2 = g.Ot ∧
      Waiting g.cap g.mc [] ((g.front left).L3 O1 O2) g.more (g.hs0 + 1) (hsEvent g.p.request :: evs) A0 c' ∧
      ∀ s ∈ g.revs, s ∈ c'.env.tr.events := by
  have okf := ok.front hleft
  have hout := (run_idle_out g.mc left hleft.1).1
  -- the stage at the start, and the facts about `c`
  have hst : Stage (g.front left) c ∧ c.env.segs = [] ∧ c.env.tr.endMode = .pend ∧ ans c.env.tr ≤ A0 ∧
      (∀ s ∈ evs, s ∈ c.env.tr.events) ∧ c.env.tr.input = g.W := by
    rcases hstart with ⟨c0, w, rfl⟩ | ⟨hl, hph, hin, hlog, hb, hstop, hsc, hm, hhs, hev, hsg, hem, hans⟩
    · obtain ⟨L, hL, hpst⟩ := w.pst g.W
      have hLe : L = g.L0 := by
        rw [hLw, hout] at hL
        exact (List.append_cancel_right hL).symm
      subst hLe
      refine ⟨.parse (F := serAll left) (by rw [Cfg.front_W]; exact hpst) w.sc w.mtx w.hs, w.segs, w.em, w.ans, w.ev, rfl⟩
    · subst hl
      refine ⟨.start (raw := []) hph (by rw [Cfg.front_W, hin]; rfl) (Nat.zero_le _) ?_ hb hstop hsc hm hhs,
        hsg, hem, hans, hev, hin⟩
      rw [hlog, hLw]; simp [idleOwed]; rfl
  obtain ⟨hst, hsg, hem, hans, hev, hin⟩ := hst
  obtain ⟨c', ⟨e1, e2, e3, e4⟩, O1, O2, hO, hres⟩ :=
    run_from_stage' okf (ans c.env.tr) c n fuel hst hsg (Nat.le_refl _) (by omega)
  rcases hres with ⟨_, hfin⟩ | ⟨hrun, hpk⟩
  · exfalso
    rcases hfin.why with h | ⟨_, h⟩
    · have : (g.front left).p.flags.toNat % 2 = 1 := hk
      omega
    · rw [e1, hem] at h; cases h
  · refine ⟨c', O1, O2, hrun, hO, ⟨?_, ?_, ?_, hpk.inp, hpk.log, ⟨(g.front left).L3 O1 O2, by rw [serAll_nil, resting_header]; exact (List.append_nil _).symm⟩, hpk.stop, hpk.ben,
      hpk.sc, hpk.mtx, hpk.ev.1, ?_, e3, hpk.em, by omega⟩, hpk.re⟩
    · rw [serAll_nil, track_nil]; exact hpk.ph
    · rw [serAll_nil, resting_header]; rfl
    · rw [serAll_nil, resting_header]; exact Nat.zero_le _
    · intro s hs
      rcases List.mem_cons.1 hs with rfl | hs
      · exact hpk.ev.2
      · exact e4 s (hev s hs)

end Fcgi.E2E

/-! ## The abort family -/
namespace Fcgi.E2E
open Fcgi Fcgi.Req Fcgi.Str Fcgi.Async Fcgi.Run Fcgi.Spec

/-- `run_from_out` without the size hypothesis. -/
theorem run_from_out' {g : Cfg} (ok : g.OK) (c : Conn) (n f N : Nat) (hsegs : c.env.segs = [])
    {c' : Conn} {r : Run.PRes} (hh : Halts N (prePoll c n none) c' r) (hl : Link (prePoll c n none) c')
    (ho : Out g (prePoll c n none) c' r) (hN : N ≤ 6 * c.env.tr.input.length + 26) (hf : ans c.env.tr ≤ f) :
    ∃ c'', ((c''.env.tr.endMode = c.env.tr.endMode ∧ ans c''.env.tr ≤ ans c.env.tr ∧ c''.env.segs = [] ∧
        ∀ s, s ∈ c.env.tr.events → s ∈ c''.env.tr.events) ∧
      ∃ O1 O2, O1 ++ O2 = g.Ot ∧
      ((runTask (f + 1) c n none = (c'', "RET") ∧ Fin g O1 O2 c'') ∨
       (runTask (f + 1) c n none = (c'', "STALL") ∧ Parked g O1 O2 c''))) ∧
      ∀ s, s ∈ c'.env.tr.events → s ∈ c''.env.tr.events := by
  obtain ⟨hsame, hph, hsc, hstop, hmx, hsg, hwk⟩ := prePoll_same c n hsegs
  have hpoll := hh.pollB (by rw [hsame.input]; exact hN)
  have hans0 : ans (prePoll c n none).env.tr = ans c.env.tr := by unfold ans; rw [hsame.rd, hsame.wr]
  have hsg' : c'.env.segs = [] := hl.segs.trans hsg
  have hem : c'.env.tr.endMode = c.env.tr.endMode ∧ ans c'.env.tr ≤ ans c.env.tr ∧ c'.env.segs = [] ∧
      ∀ s, s ∈ c.env.tr.events → s ∈ c'.env.tr.events :=
    ⟨hl.ts.em.trans hsame.em, by have := hl.ts.ans_le; omega, hsg', fun s hs => hl.ts.evm s (hsame.mem hs)⟩
  rw [runTask_succ, hpoll]
  have again : ∀ (hs' : Stage g c'), ans c'.env.tr < ans (prePoll c n none).env.tr →
      ∃ c2, ((c2.env.tr.endMode = c.env.tr.endMode ∧ ans c2.env.tr ≤ ans c.env.tr ∧ c2.env.segs = [] ∧
          ∀ s, s ∈ c.env.tr.events → s ∈ c2.env.tr.events) ∧
        ∃ O1 O2, O1 ++ O2 = g.Ot ∧
        ((runTask f c' (n + 1) none = (c2, "RET") ∧ Fin g O1 O2 c2) ∨
         (runTask f c' (n + 1) none = (c2, "STALL") ∧ Parked g O1 O2 c2))) ∧
        ∀ s, s ∈ c'.env.tr.events → s ∈ c2.env.tr.events := by
    intro hs' ha
    obtain ⟨c2, ⟨h1, h1', h1'', h1e⟩, h2⟩ :=
      run_from_stage' ok (ans c'.env.tr) c' (n + 1) f hs' hsg' (Nat.le_refl _) (by omega)
    exact ⟨c2, ⟨⟨h1.trans hem.1, by have := hem.2.1; omega, h1'', fun s hs => h1e s (hem.2.2.2 s hs)⟩, h2⟩, h1e⟩
  cases ho with
  | @fin O1 O2 hO hfin => exact ⟨c', ⟨hem, O1, O2, hO, Or.inl ⟨rfl, hfin⟩⟩, fun _ hs => hs⟩
  | pend hs' hw ha =>
    simp only [hw, if_true]
    exact again hs' ha
  | @park O1 O2 hs' hO hp =>
    rcases hl.ts.wk with hw | ⟨hw, ha⟩
    · rw [hwk] at hw
      simp only [hw, Bool.false_eq_true, if_false]
      rw [release_nil _ hsg']
      simp only [hw, Bool.false_eq_true, if_false]
      refine ⟨_, ⟨?_, O1, O2, hO,
        Or.inr ⟨rfl, hp.cong rfl rfl rfl rfl ⟨rfl, rfl, rfl, rfl, rfl, rfl, [], by simp, Quiet.nil⟩⟩⟩, fun _ hs => hs⟩
      exact hem
    · simp only [hw, if_true]
      exact again hs' ha

/-- `run_from_res` without the size hypothesis. -/
theorem run_from_res' {g : Cfg} (ok : g.OK) (c : Conn) (n f N : Nat) (hsegs : c.env.segs = [])
    (hres : Res g N (prePoll c n none)) (hN : N ≤ 6 * c.env.tr.input.length + 26) (hf : ans c.env.tr ≤ f) : RunEnd g (f + 1) c n := by
  obtain ⟨c', r, hh, hl, ho⟩ := hres
  obtain ⟨c'', h, _⟩ := run_from_out' ok c n f N hsegs hh hl ho hN hf
  exact ⟨c'', h⟩

/-- `run_via` without the size hypothesis. -/
theorem run_via' {g : Cfg} (ok : g.OK) (S : Conn → Prop)
    (hcong : ∀ c c', S c → c'.phase = c.phase → c'.scripts = c.scripts → c'.stop = c.stop →
      c'.env.mutex = c.env.mutex → TrSame c.env.tr c'.env.tr → S c')
    (hpoll : ∀ c, S c → SRes S g (6 * c.env.tr.input.length + 20) c) :
    ∀ (A : Nat) (c : Conn) (n fuel : Nat), S c → c.env.segs = [] → ans c.env.tr ≤ A → A + 1 ≤ fuel → RunEnd g fuel c n := by
  intro A
  induction A with
  | zero =>
    intro c n fuel hS hsegs hA hf
    obtain ⟨f, rfl⟩ : ∃ f, fuel = f + 1 := ⟨fuel - 1, by omega⟩
    obtain ⟨hsame, hph, hsc, hstop, hmx, hsg, hwk⟩ := prePoll_same c n hsegs
    have hans0 : ans (prePoll c n none).env.tr = ans c.env.tr := by unfold ans; rw [hsame.rd, hsame.wr]
    rcases hpoll _ (hcong _ _ hS hph hsc hstop hmx hsame) with ⟨c', hh, hl, hS', hw, ha⟩ | hres
    · omega
    · exact run_from_res' ok c n f _ hsegs hres (by rw [hsame.input]; omega) (by omega)
  | succ A ih =>
    intro c n fuel hS hsegs hA hf
    obtain ⟨f, rfl⟩ : ∃ f, fuel = f + 1 := ⟨fuel - 1, by omega⟩
    obtain ⟨hsame, hph, hsc, hstop, hmx, hsg, hwk⟩ := prePoll_same c n hsegs
    have hans0 : ans (prePoll c n none).env.tr = ans c.env.tr := by unfold ans; rw [hsame.rd, hsame.wr]
    rcases hpoll _ (hcong _ _ hS hph hsc hstop hmx hsame) with ⟨c', hh, hl, hS', hw, ha⟩ | hres
    · have hpoll' := hh.pollB (by omega)
      have hsg' : c'.env.segs = [] := hl.segs.trans hsg
      obtain ⟨c2, ⟨h1, h1', h1'', h1e⟩, h2⟩ := ih c' (n + 1) f hS' hsg' (by omega) (by omega)
      unfold RunEnd
      rw [runTask_succ, hpoll']
      simp only [hw, if_true]
      exact ⟨c2, ⟨h1.trans (hl.ts.em.trans hsame.em), by have := hl.ts.ans_le; omega, h1'',
        fun s hs => h1e s (hl.ts.evm s (hsame.mem hs))⟩, h2⟩
    · exact run_from_res' ok c n f _ hsegs hres (by rw [hsame.input]; omega) (by omega)

/-- `run_absorbed` without the size hypothesis. -/
theorem run_absorbed' {A E L : Bytes} {g : Cfg} (ok : g.OK) (hab : Absorb g.cap g.mc A E) (hL : g.L0 = L ++ E)
    (c : Conn) (n fuel : Nat) (h : APre A L g c) (hsegs : c.env.segs = []) (hf : ans c.env.tr + 1 ≤ fuel) : RunEnd g fuel c n :=
  run_via' ok (APre A L g) (fun _ _ h a b c d e => h.cong a b c d e) (fun _ h => apre_poll ok hab hL h)
    (ans c.env.tr) c n fuel h hsegs (Nat.le_refl _) hf

/-- `run_abort_nokeep` without the size hypothesis. -/
theorem run_abort_nokeep' {g : Cfg} {a : Rec} {tail : Bytes} {pr : Bool} {rest : List HOp}
    (ok : AbOK g a tail pr rest) (hnk : g.p.flags.toNat % 2 = 0) (c : Conn) (n fuel : Nat)
    (hst : BStage g pr rest c) (hsegs : c.env.segs = []) (hf : ans c.env.tr + 1 ≤ fuel) :
    ∃ c'' O1 O2, runTask fuel c n none = (c'', "RET") ∧ O1 ++ O2 = g.Ot ∧ FinB g O1 O2 c'' := by
  obtain ⟨c'', fin, hrun, rfl, O1, O2, hO, hfin⟩ := run_gen' (BStage g pr rest)
    (fun c0 => ∃ c' O1 O2, Halts (6 * c0.env.tr.input.length + 26) c0 c' .finished ∧ O1 ++ O2 = g.Ot ∧ FinB g O1 O2 c')
    (fun c'' fin => fin = "RET" ∧ ∃ O1 O2, O1 ++ O2 = g.Ot ∧ FinB g O1 O2 c'')
    (fun _ _ h a b c d e => h.cong a b c d e)
    (fun c0 h => by
      rcases bstage_poll ok h with ⟨c', hh, hl, hS, hw, ha⟩ | ⟨k, c1, O1, O2, _, _, _, _, haf⟩ | ⟨c', O1, O2, hh, hl, hO, hf⟩
      · exact Or.inl ⟨c', hh.mono (by omega), hl, hS, hw, ha⟩
      · have := haf.keep; omega
      · exact Or.inr ⟨c', O1, O2, hh.mono (by omega), hO, hf⟩)
    (fun c0 n0 f0 _ hsg ⟨c', O1, O2, hh, hO, hfb⟩ _ => by
      obtain ⟨hsame, _⟩ := prePoll_same c0 n0 hsg
      have hpoll := hh.pollB (Nat.le_refl _)
      exact ⟨c', "RET", by rw [runTask_succ, hpoll], rfl, O1, O2, hO, hfb⟩)
    (ans c.env.tr) c n fuel hst hsegs (Nat.le_refl _) hf
  exact ⟨c'', O1, O2, hrun, hO, hfin⟩

/-- `run_abort_next` without the size hypothesis. -/
theorem run_abort_next' {g g' : Cfg} {a : Rec} {tail : Bytes} {pr : Bool} {rest : List HOp}
    (ok : AbOK g a tail pr rest) (hn : NextOK g g') (em : EndMode) (c : Conn) (n fuel : Nat)
    (hst : BStage g pr rest c) (hem : c.env.tr.endMode = em) (hsegs : c.env.segs = [])
    (hf : ans c.env.tr + 1 ≤ fuel) :
    ∃ c'' fin O1 O2 P1 P2, runTask fuel c n none = (c'', fin) ∧ O1 ++ O2 = g.Ot ∧ P1 ++ P2 = g'.Ot ∧
      c''.env.tr.endMode = em ∧ RaEv g c''.env.tr ∧ hsEvent g.p.request ∈ c''.env.tr.events ∧
      ((fin = "RET" ∧ Fin (g'.at (g.LA O1 O2)) P1 P2 c'') ∨
       (fin = "STALL" ∧ Parked (g'.at (g.LA O1 O2)) P1 P2 c'')) := by
  obtain ⟨c'', fin, hrun, O1, O2, P1, P2, h1, h2, h3, h4, h5, h6⟩ := run_gen'
    (fun c0 => BStage g pr rest c0 ∧ c0.env.tr.endMode = em)
    (fun c0 => ∃ k c1 O1 O2, k ≤ 2 * c0.env.tr.input.length + 9 ∧ Steps k c0 c1 ∧ Link c0 c1 ∧ O1 ++ O2 = g.Ot ∧
      After g O1 O2 c1)
    (fun c'' fin => ∃ O1 O2 P1 P2, O1 ++ O2 = g.Ot ∧ P1 ++ P2 = g'.Ot ∧
      c''.env.tr.endMode = em ∧ RaEv g c''.env.tr ∧ hsEvent g.p.request ∈ c''.env.tr.events ∧
      ((fin = "RET" ∧ Fin (g'.at (g.LA O1 O2)) P1 P2 c'') ∨
       (fin = "STALL" ∧ Parked (g'.at (g.LA O1 O2)) P1 P2 c'')))
    (fun _ _ h a b c d e => ⟨h.1.cong a b c d e, e.em.trans h.2⟩)
    (fun c0 h => by
      rcases bstage_poll ok h.1 with ⟨c', hh, hl, hS, hw, ha⟩ | ⟨k, c1, O1, O2, hk, hs, hl, hO, haf⟩ |
          ⟨c', O1, O2, hh, hl, hO, hf⟩
      · exact Or.inl ⟨c', hh.mono (by omega), hl, ⟨hS, hl.ts.em.trans h.2⟩, hw, ha⟩
      · exact Or.inr ⟨k, c1, O1, O2, hk, hs, hl, hO, haf⟩
      · have := hf.nokeep; have := hn.keep; omega)
    (fun c0 n0 f0 hS0 hsg ⟨k, c1, O1, O2, hk, hs, hl, hO, haf⟩ hf0 => by
      obtain ⟨hsame, _⟩ := prePoll_same c0 n0 hsg
      have hres := stage_poll (hn.ok.at (g.LA O1 O2)) (haf.stage hn)
      obtain ⟨c', r, hh, hl2, ho⟩ := hres
      have hin1 := hl.ts.inp
      obtain ⟨c'', ⟨⟨e1, _, _, _⟩, P1, P2, hP, hfin⟩, hevs⟩ :=
        run_from_out' (hn.ok.at (g.LA O1 O2)) c0 n0 f0 _ hsg (hh.of_steps hs) (hl.trans hl2) (ho.mono hl)
          (by rw [hsame.input] at hk hin1; omega) hf0
      have hevs1 : ∀ s, s ∈ c1.env.tr.events → s ∈ c''.env.tr.events := fun s hs => hevs s (hl2.ts.evm s hs)
      obtain ⟨acc, lost, hacc, hmem⟩ := haf.ra
      rcases hfin with ⟨hr, hf⟩ | ⟨hr, hp⟩
      · exact ⟨c'', "RET", hr, O1, O2, P1, P2, hO, hP, e1.trans hS0.2, ⟨acc, lost, hacc, hevs1 _ hmem⟩,
          hevs1 _ haf.ev.2, Or.inl ⟨rfl, hf⟩⟩
      · exact ⟨c'', "STALL", hr, O1, O2, P1, P2, hO, hP, e1.trans hS0.2, ⟨acc, lost, hacc, hevs1 _ hmem⟩,
          hevs1 _ haf.ev.2, Or.inr ⟨rfl, hp⟩⟩)
    (ans c.env.tr) c n fuel ⟨hst, hem⟩ hsegs (Nat.le_refl _) hf
  exact ⟨c'', fin, O1, O2, P1, P2, hrun, h1, h2, h3, h4, h5, h6⟩

/-- `qtail_end` without the size hypothesis. -/
theorem qtail_end' {cap mc : Nat} {A L E : Bytes} {sc : List (List HOp × Bool)} {h0 : Nat} {evs : List String}
    {em : EndMode} {N : Nat} (c : Conn) (n f : Nat) (hsegs : c.env.segs = [])
    (hq : QTail cap mc A L E sc h0 evs em N (prePoll c n none)) (hN : N ≤ 6 * c.env.tr.input.length + 26) :
    ∃ c'' fin, runTask (f + 1) c n none = (c'', fin) ∧ TailEnd cap mc (L ++ E) sc h0 evs em c'' fin := by
  obtain ⟨hsame, hph, hsc, hstop, hmx, hsg, hwk⟩ := prePoll_same c n hsegs
  rcases hq with ⟨c', hh, hsg', hte⟩ | ⟨c', hh, hl, hw, _, hte⟩
  · have hpoll := hh.pollB (by rw [hsame.input]; exact hN)
    exact ⟨c', "RET", by rw [runTask_succ, hpoll], hte⟩
  · have hpoll := hh.pollB (by rw [hsame.input]; exact hN)
    have hw' : c'.env.tr.woken = false := hw.trans hwk
    have hsg'' : c'.env.segs = [] := hl.segs.trans hsg
    rw [runTask_succ, hpoll]
    simp only [hw', Bool.false_eq_true, if_false]
    rw [release_nil _ hsg'']
    simp only [hw', Bool.false_eq_true, if_false]
    refine ⟨_, "STALL", rfl, ?_⟩
    obtain ⟨hl, hk, hfin⟩ := hte
    exact ⟨hl, ⟨hk.sc, hk.hs, hk.ev, hk.em⟩, hfin⟩

/-- `run_tail` without the size hypothesis. -/
theorem run_tail' {cap mc : Nat} {A E L : Bytes} (h24 : 24 ≤ cap) (hab : Absorb cap mc A E)
    {sc : List (List HOp × Bool)} {h0 : Nat} {evs : List String} {em : EndMode}
    (c : Conn) (n fuel : Nat) (h : ATail cap mc A L c) (hk : Kept sc h0 evs em c) (hsegs : c.env.segs = [])
    (hf : ans c.env.tr + 1 ≤ fuel) :
    ∃ c'' fin, runTask fuel c n none = (c'', fin) ∧ TailEnd cap mc (L ++ E) sc h0 evs em c'' fin :=
  run_gen' (fun c0 => ATail cap mc A L c0 ∧ Kept sc h0 evs em c0)
    (fun c0 => QTail cap mc A L E sc h0 evs em (2 * c0.env.tr.input.length + 6) c0)
    (fun c'' fin => TailEnd cap mc (L ++ E) sc h0 evs em c'' fin)
    (fun _ _ h a b c _ e => ⟨h.1.cong a c e, h.2.same b e⟩)
    (fun c0 h => by
      rcases tail_poll h24 hab h.1 h.2 with ⟨c', hh, r⟩ | hq
      · exact Or.inl ⟨c', hh.mono (by omega), r⟩
      · exact Or.inr hq)
    (fun c0 n0 f0 _ hsg hq _ => by
      obtain ⟨hsame, _⟩ := prePoll_same c0 n0 hsg
      exact qtail_end' c0 n0 f0 hsg hq (by rw [hsame.input]; omega))
    (ans c.env.tr) c n fuel ⟨h, hk⟩ hsegs (Nat.le_refl _) hf

/-- `run_abort_alone` without the size hypothesis. -/
theorem run_abort_alone' {g : Cfg} {a : Rec} {pr : Bool} {rest : List HOp}
    (ok : AbOK g a [] pr rest) (hk : g.p.flags.toNat % 2 = 1) (em : EndMode) (c : Conn) (n fuel : Nat)
    (hst : BStage g pr rest c) (hem : c.env.tr.endMode = em) (hsegs : c.env.segs = [])
    (hf : ans c.env.tr + 1 ≤ fuel) :
    ∃ c'' fin O1 O2 acc lost, runTask fuel c n none = (c'', fin) ∧ O1 ++ O2 = g.Ot ∧ acc ++ lost = g.content ∧
      TailEnd g.cap g.mc (g.LA O1 O2) g.more (g.hs0 + 1) [hsEvent g.p.request, raEvent acc] em c'' fin := by
  have hid := (pid_of_wf ok.wf).2
  have h24 := cap24 g
  have hab : Absorb g.cap g.mc a.ser [] := absorb_idle_abort ok.ab hid (by omega) g.mc
  obtain ⟨c'', fin, hrun, O1, O2, acc, lost, hO, hacc, hte⟩ := run_gen'
    (fun c0 => (BStage g pr rest c0 ∧ c0.env.tr.endMode = em) ∨
      (∃ O1 O2 acc lost, O1 ++ O2 = g.Ot ∧ acc ++ lost = g.content ∧ ATail g.cap g.mc a.ser (g.LA O1 O2) c0 ∧
        Kept g.more (g.hs0 + 1) [hsEvent g.p.request, raEvent acc] em c0))
    (fun c0 => ∃ O1 O2 acc lost, O1 ++ O2 = g.Ot ∧ acc ++ lost = g.content ∧
      QTail g.cap g.mc a.ser (g.LA O1 O2) [] g.more (g.hs0 + 1) [hsEvent g.p.request, raEvent acc] em
        (4 * c0.env.tr.input.length + 16) c0)
    (fun c'' fin => ∃ O1 O2 acc lost, O1 ++ O2 = g.Ot ∧ acc ++ lost = g.content ∧
      TailEnd g.cap g.mc (g.LA O1 O2) g.more (g.hs0 + 1) [hsEvent g.p.request, raEvent acc] em c'' fin)
    (fun c0 c1 h a b c d e => by
      rcases h with ⟨h1, h2⟩ | ⟨O1, O2, acc, lost, hO, hacc, hat, hkp⟩
      · exact Or.inl ⟨h1.cong a b c d e, e.em.trans h2⟩
      · exact Or.inr ⟨O1, O2, acc, lost, hO, hacc, hat.cong a c e, hkp.same b e⟩)
    (fun c0 h => by
      rcases h with ⟨h1, h2⟩ | ⟨O1, O2, acc, lost, hO, hacc, hat, hkp⟩
      · rcases bstage_poll ok h1 with ⟨c', hh, hl, hS, hw, ha⟩ | ⟨k, c1, O1, O2, hk1, hs, hl, hO, haf⟩ |
            ⟨c', O1, O2, hh, hl, hO, hf⟩
        · exact Or.inl ⟨c', hh.mono (by omega), hl, Or.inl ⟨hS, hl.ts.em.trans h2⟩, hw, ha⟩
        · -- `close` is done: the next `parse_request` starts on the `AbortRequest` record
          obtain ⟨acc, lost, hacc, hmem⟩ := haf.ra
          obtain ⟨raw, hph, hw, hraw⟩ := haf.ph
          have hat : ATail g.cap g.mc a.ser (g.LA O1 O2) c1 :=
            Or.inr ⟨raw, hph, by rw [hw, ok.hU, List.append_nil], hraw, haf.log, haf.ben, haf.stop⟩
          have hkp : Kept g.more (g.hs0 + 1) [hsEvent g.p.request, raEvent acc] em c1 :=
            ⟨haf.sc, haf.ev.1, fun s hs => by
              rcases List.mem_cons.1 hs with rfl | hs
              · exact haf.ev.2
              · rw [List.mem_singleton.1 hs]; exact hmem, hl.ts.em.trans h2⟩
          have hin1 := hl.ts.inp
          rcases tail_poll h24 hab hat hkp with ⟨c', hh, hl2, hS, hw2, ha2⟩ | hq
          · exact Or.inl ⟨c', (hh.of_steps hs).mono (by omega), hl.trans hl2,
              Or.inr ⟨O1, O2, acc, lost, hO, hacc, hS.1, hS.2⟩, hw2, by have := hl.ts.ans_le; omega⟩
          · rcases QTail.of_steps hs hl hq with ⟨c', hh, hl2, hS, hw2, ha2⟩ | hq'
            · exact Or.inl ⟨c', hh.mono (by omega), hl2, Or.inr ⟨O1, O2, acc, lost, hO, hacc, hS.1, hS.2⟩, hw2, ha2⟩
            · refine Or.inr ⟨O1, O2, acc, lost, hO, hacc, ?_⟩
              rcases hq' with ⟨c', hh, r⟩ | ⟨c', hh, r⟩
              · exact Or.inl ⟨c', hh.mono (by omega), r⟩
              · exact Or.inr ⟨c', hh.mono (by omega), r⟩
        · have := hf.nokeep; omega
      · rcases tail_poll h24 hab hat hkp with ⟨c', hh, hl2, hS, hw2, ha2⟩ | hq
        · exact Or.inl ⟨c', hh.mono (by omega), hl2, Or.inr ⟨O1, O2, acc, lost, hO, hacc, hS.1, hS.2⟩, hw2, ha2⟩
        · refine Or.inr ⟨O1, O2, acc, lost, hO, hacc, ?_⟩
          rcases hq with ⟨c', hh, r⟩ | ⟨c', hh, r⟩
          · exact Or.inl ⟨c', hh.mono (by omega), r⟩
          · exact Or.inr ⟨c', hh.mono (by omega), r⟩)
    (fun c0 n0 f0 _ hsg ⟨O1, O2, acc, lost, hO, hacc, hq⟩ _ => by
      obtain ⟨hsame, _⟩ := prePoll_same c0 n0 hsg
      obtain ⟨c'', fin, hrun, hte⟩ := qtail_end' c0 n0 f0 hsg hq (by rw [hsame.input]; omega)
      rw [List.append_nil] at hte
      exact ⟨c'', fin, hrun, O1, O2, acc, lost, hO, hacc, hte⟩)
    (ans c.env.tr) c n fuel (Or.inl ⟨hst, hem⟩) hsegs (Nat.le_refl _) hf
  exact ⟨c'', fin, O1, O2, acc, lost, hrun, hO, hacc, hte⟩

end Fcgi.E2E
