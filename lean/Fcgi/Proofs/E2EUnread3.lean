import Fcgi.Proofs.E2EStages
import Fcgi.Proofs.C09Reads
/-!
# End-to-end composition (C07/C05) — two more handlers that leave input unread

* `[.read 0, .ret st]` (Responder): `poll_input(Some(0))` returns `Ready(0)` at once, the run is that
  of `[.ret st]` with one more (quiet) trace event — `run_read0`.
* `[.ret st]` for a Filter whose Data stream carries no content (noise and the terminator only):
  `close()`'s `writeable()` runs `set_stream(Data)` and `poll_input(None)` over all of Stdin and the
  noise of the Data stream, becomes writeable at the end-of-stream exit of `poll_input`, and
  `record_boundary()` returns at once in front of the Data terminator — `run_filter0`.
-/
namespace Fcgi.E2E
open Fcgi Fcgi.Req Fcgi.Str Fcgi.Async Fcgi.Run Fcgi.Spec Fcgi.C09E

/-! ## `[.read 0, .ret st]` -/

structure U0OK (g : Cfg) : Prop where
  wf : WellFormedPreamble g.p g.recs
  role : g.p.role = 1
  pairs : ∀ q ∈ g.p.pairs, (NV.enc q).length ≤ alignedBufsize g.b
  noise : NoiseFits (alignedBufsize g.b) g.recs
  hU : g.U = g.X
  hdata : g.data = []
  hs : g.hscript = [.read 0, .ret g.st]

theorem U0OK.fok {g : Cfg} (ok : U0OK g) : FOK g := ⟨ok.wf, ok.pairs, ok.noise⟩

theorem U0OK.front {g : Cfg} (ok : U0OK g) {us : List Rec} (hu : LeftOK (alignedBufsize g.b) us) : U0OK (g.front us) :=
  ⟨wf_idle ok.wf us hu.1, ok.role, ok.pairs, noiseFits_app hu.2 ok.noise, ok.hU, ok.hdata, ok.hs⟩

/-- the stages: `parse_request`, then `close` in its `write_all`s -/
def S0 (g : Cfg) (c : Conn) : Prop := FStage g c ∨ LStage g c

theorem read0_first {g : Cfg} (ok : U0OK g) (hk : g.p.flags.toNat % 2 = 1) : FirstPoll g (S0 g) (AfterU g) := by
  intro c e1 hph hlen hwire hlog hm hb hstop hev hsc
  have hfin : REnd g.N (AReq.new (Str.Parser.fromParser g.cap g.p.request e1 g.mc)) c.env.tr.input := by
    refine ⟨by simp [AReq.new, Str.Parser.fromParser, Preamble.request, ok.role, inputStreams], rfl, rfl, rfl, ?_,
      rfl, rfl, rfl, hlen, Str.SInv_fromParser g.cap g.p.request e1 g.mc hlen (pid_of_wf ok.wf).2⟩
    show e1 ++ c.env.tr.input = g.U
    rw [ok.hU]; exact hwire
  have hstep := C07.handler_step c _ _ hph
  obtain ⟨f, hf⟩ : ∃ f, (handlerFuel c.env (AReq.new (Str.Parser.fromParser g.cap g.p.request e1 g.mc)) + scriptOf c) = f + 2 :=
    ⟨(handlerFuel c.env (AReq.new (Str.Parser.fromParser g.cap g.p.request e1 g.mc)) + scriptOf c) - 2, by have := handlerFuel_ge c.env (AReq.new (Str.Parser.fromParser g.cap g.p.request e1 g.mc)); omega⟩
  rw [ok.hs, hf, hp_read] at hstep
  simp only [read_zero, hp_ret, List.filter_nil, List.length_nil] at hstep
  have hts2 : TStep c.env.tr ((c.env.tr.ev s!"r={0}:{hexOrDash []}").ev s!"HE(ok:{showStatus g.st})") :=
    (TStep.ev _ (by simp [isHS, toString_str])).trans (TStep.ev _ (by simp [isHS, toString_str]))
  have hstep' : stepConn c =
      .next ⟨.closing (AReq.new (Str.Parser.fromParser g.cap g.p.request e1 g.mc)) .start g.st 0,
        (c.env.ev s!"r={0}:{hexOrDash []}").ev s!"HE(ok:{showStatus g.st})", c.scripts, c.stop⟩ := hstep
  have hcore := lclose_start (g := g) hk
    (c := ⟨.closing (AReq.new (Str.Parser.fromParser g.cap g.p.request e1 g.mc)) .start g.st 0,
        (c.env.ev s!"r={0}:{hexOrDash []}").ev s!"HE(ok:{showStatus g.st})", c.scripts, c.stop⟩) rfl hfin
    (by show c.env.tr.wlog ++ [] ++ g.epi = g.LU
        rw [hlog, List.append_nil, Cfg.LU, ok.hdata, streamRecords_nil, List.append_nil])
    hm (hb.step hts2) hstop (hev.step hts2) hsc
  exact ((GRes.of_steps (Steps.one hstep') ⟨hts2.w, rfl, rfl⟩ hcore).imp (fun _ _ h => Or.inr h)
    (fun _ _ h => h)).mono (by omega)

theorem S0.cong {g : Cfg} {c c' : Conn} (h : S0 g c)
    (hph : c'.phase = c.phase) (hsc : c'.scripts = c.scripts) (hstop : c'.stop = c.stop)
    (hm : c'.env.mutex = c.env.mutex) (hs : TrSame c.env.tr c'.env.tr) : S0 g c' := by
  rcases h with h | h
  · exact Or.inl (h.cong hph hsc hstop hm hs)
  · exact Or.inr (h.cong hph hsc hstop hm hs)

theorem s0_poll {g : Cfg} (ok : U0OK g) (hk : g.p.flags.toNat % 2 = 1) {c : Conn} (h : S0 g c) :
    GRes (S0 g) (AfterU g) (2 * c.env.tr.input.length + 9) c := by
  rcases h with h | h
  · exact fstage_poll ok.fok (fun _ h => Or.inl h) (read0_first ok hk) h
  · exact ((lstage_poll hk h).imp (fun _ _ h => Or.inr h) (fun _ _ h => h)).mono (by omega)

/-- **The executor** for a Responder request with KEEP_CONN whose handler is `[.read 0, .ret st]`. -/
theorem run_read0 {g : Cfg} (ok : U0OK g) (hk : g.p.flags.toNat % 2 = 1) {Z : Bytes}
    (hns : NoStuckW g.cap g.mc (g.U ++ Z))
    (hNF : ∀ F x, F ++ x ++ Z = g.U ++ Z → (run .header F g.mc).st.isFinal = false)
    (em : EndMode) (evs0 : List String) (c : Conn) (n0 fuel : Nat) (hst : FStage g c)
    (hem : c.env.tr.endMode = em) (hev0 : ∀ s ∈ evs0, s ∈ c.env.tr.events)
    (hsegs : c.env.segs = []) (hf : ans c.env.tr + 1 ≤ fuel) (hlen : 6 * c.env.tr.input.length + 26 ≤ 100000) :
    ∃ c'' fin, runTask fuel c n0 none = (c'', fin) ∧
      GEnd g.cap g.mc Z g.more (g.hs0 + 1) (fun _ : Unit => True) (fun _ => g.U ++ Z) (fun _ => g.LU)
        (fun _ => [hsEvent g.p.request]) em evs0 (ans c.env.tr) c'' fin :=
  run_stages (cap24 g) (fun _ _ => hns) (fun _ _ => hNF) (fun _ _ h => h.cong)
    (fun _ h => (s0_poll ok hk h).imp (fun _ _ h => h) (fun _ _ h => h.ztail))
    em evs0 c n0 fuel (Or.inl hst) hem hev0 hsegs hf hlen

/-! ## A Filter left unread, Data stream without content -/

/-- the Data stream as `writeable()` of a Filter that read nothing sees it: from the start of Stdin -/
def Cfg.K8u (g : Cfg) : RCtx :=
  ⟨⟨g.p.id, 3, 8, g.mc⟩, g.p.request, g.cap, g.X, g.content2,
    owedI g.p.id g.mc g.R ++ owedStream g.p.id 8 g.mc g.body2, g.term2.ser⟩

/-- The hypotheses: a Filter, `g.body`/`g.body2` the records of Stdin/Data before their terminators,
the Data stream carries no content, the handler is `[.ret st]`. -/
structure FUOK (g : Cfg) : Prop where
  wf : WellFormedPreamble g.p g.recs
  role : g.p.role = 3
  pairs : ∀ q ∈ g.p.pairs, (NV.enc q).length ≤ alignedBufsize g.b
  noise : NoiseFits (alignedBufsize g.b) g.recs
  str : ∀ r ∈ g.R, StdinRec g.p.id r
  hf : NoiseFits (alignedBufsize g.b) g.body
  hc2 : g.content2 = []
  hb2 : Body g.p.id 8 g.content2 g.body2
  hf2 : NoiseFits (alignedBufsize g.b) g.body2
  hp2 : g.pad2.length < 256
  hX2 : g.X2 = serAll g.body2 ++ g.term2.ser
  hX : g.X = serAll g.body ++ (g.term.ser ++ g.X2)
  hs : g.hscript = [.ret g.st]

theorem FUOK.fok {g : Cfg} (ok : FUOK g) : FOK g := ⟨ok.wf, ok.pairs, ok.noise⟩
theorem FUOK.hid {g : Cfg} (ok : FUOK g) : g.p.id < 65536 := (pid_of_wf ok.wf).2
theorem FUOK.term2_wf {g : Cfg} (ok : FUOK g) : g.term2.WF := ⟨ok.hid, by simp [Cfg.term2], ok.hp2⟩

theorem FUOK.XR {g : Cfg} (ok : FUOK g) : g.X = serAll (g.R ++ (g.body2 ++ [g.term2])) := by
  rw [ok.hX, ok.hX2, Cfg.R]
  simp only [C02.serAll_append, C02.serAll_single, List.append_assoc]

theorem FUOK.front {g : Cfg} (ok : FUOK g) {us : List Rec} (hu : LeftOK (alignedBufsize g.b) us) : FUOK (g.front us) :=
  ⟨wf_idle ok.wf us hu.1, ok.role, ok.pairs, noiseFits_app hu.2 ok.noise, ok.str, ok.hf, ok.hc2, ok.hb2, ok.hf2,
    ok.hp2, ok.hX2, ok.hX, ok.hs⟩

/-- the reference of the Data stream on the wire `Stdin records ++ Data records` -/
theorem FUOK.kok {g : Cfg} (ok : FUOK g) : g.K8u.OK := by
  have hid := ok.hid
  have hwfR : ∀ r ∈ g.R, r.WF := fun r hr => (ok.str r hr).1
  have hcls : rclass ⟨g.p.id, 3, 8, g.mc⟩ g.term2 = .endStream := by simp [rclass, Cfg.term2, RT.isInputStream]
  have href2 := refWire_stream ⟨g.p.id, 3, 8, g.mc⟩ (Or.inr rfl) hid ok.hb2 g.term2 ok.term2_wf hcls []
    (fun _ h => nomatch h)
  have hwf2 : ∀ r ∈ g.body2 ++ [g.term2], r.WF := by
    intro r hr
    rcases List.mem_append.1 hr with hr | hr
    · exact body_wf hid ok.hb2 r hr
    · rw [List.mem_singleton.1 hr]; exact ok.term2_wf
  have hwf : ∀ r ∈ g.R ++ (g.body2 ++ [g.term2]), r.WF := by
    intro r hr
    rcases List.mem_append.1 hr with hr | hr
    · exact hwfR r hr
    · exact hwf2 r hr
  have href : refWire ⟨g.p.id, 3, 8, g.mc⟩ g.X =
      ⟨g.content2, owedI g.p.id g.mc g.R ++ owedStream g.p.id 8 g.mc g.body2, .eos, g.term2.ser⟩ := by
    rw [ok.XR, C02.serAll_append, ← ref_eq_refWire _ .skip, ref_serAll _ _ hwfR _ .skip]
    have hrr := refRun_view g.p.id g.mc g.R ok.str []
    rw [List.append_nil] at hrr
    have hadd : ∀ n, Stop.add n .ranOut = .ranOut := by
      intro n
      induction n with
      | zero => rfl
      | succ n ih => simp only [Stop.add, ih, Stop.succ]
    rw [hrr]
    simp only [refRun, hadd, glue]
    rw [ref_eq_refWire, href2]
    simp only [RefOut.pre, List.nil_append, List.append_nil, C02.serAll_single]
  refine ⟨href, ?_, by have := cap24 g; show 8 ≤ g.cap; omega⟩
  intro G hG hv
  have hG' : G <+: g.X := hG
  rw [ok.XR] at hG'
  refine stream_fits ⟨g.p.id, 3, 8, g.mc⟩ _ hwf (by rw [← ok.XR, href]; intro h; cases h)
    (by have := cap24 g; show 8 ≤ alignedBufsize g.b; exact Nat.le_trans (by omega) this) ?_ G hG' hv
  intro r hr hg
  rcases List.mem_append.1 hr with hr | hr
  · rcases List.mem_append.1 hr with hr | hr
    · exact ok.hf r hr hg
    · rw [List.mem_singleton.1 hr] at hg
      exact absurd hg.1 (by simp [Cfg.term, RT.getValues])
  · rcases List.mem_append.1 hr with hr | hr
    · exact ok.hf2 r hr hg
    · rw [List.mem_singleton.1 hr] at hg
      exact absurd hg.1 (by simp [Cfg.term2, RT.getValues])

/-! ### `close`'s tail, entered with the mutex still held at the start of the poll -/

/-- `c` with a new phase and transport, the mutex free -/
def mkC0 (c : Conn) (ph : Phase) (t : Transport) : Conn := ⟨ph, ⟨t, none, c.env.segs⟩, c.scripts, c.stop⟩

theorem mkC0_link (c : Conn) (ph : Phase) {t : Transport} (h : TStep c.env.tr t) : Link c (mkC0 c ph t) :=
  ⟨h.w, rfl, rfl⟩

theorem uclose_core_m {g : Cfg} {c : Conn} {r r2 : AReq} {cs : CloseSt}
    {rest : Bytes} {t1 : Transport}
    (hph : c.phase = .closing r cs g.st 0)
    (heq : closePoll r cs g.st 0 c.env.mutex c.env.tr = closePoll.finishEnd r2 rest none t1)
    (hts1 : TStep c.env.tr t1)
    (hce : CEnd g r2 t1.input) (hlog : t1.wlog ++ rest = g.LU)
    (hb : Ben c.env.tr) (hstop : c.stop = false) (hev : Ev1 g c.env.tr)
    (hsc : c.scripts = g.more) :
    URes2 g 2 c := by
  have hstep := C07.closing_step c r cs g.st 0 hph
  rw [heq] at hstep
  have hb1 := hb.step hts1
  rcases finishEnd_cases r2 rest none hb1 with
    ⟨rest', t', hfe, hts0, hinp, hwl, hwk, hans⟩ | ⟨t', hts0, hinp, hwl, hfe⟩
  · have hts := hts1.trans hts0
    rw [hfe] at hstep
    have hstep' : stepConn c = .halt (mkC0 c (.closing r2 (.writeEnd rest') g.st 0) t') .pending := hstep
    refine Or.inl ⟨mkC0 c (.closing r2 (.writeEnd rest') g.st 0) t', (Halts.now hstep').mono (by omega),
      mkC0_link c _ hts, ?_, hwk, by show ans t' < ans c.env.tr; have := hts1.ans_le; omega⟩
    exact ⟨.close (r := r2) (rest' := rest') rfl (by show CEnd g r2 t'.input; rw [hinp]; exact hce) rfl
      (by show t'.wlog ++ rest' = _; rw [hwl, hlog]) (hb.step hts) hstop (hev.step hts) hsc, _, _, rfl⟩
  · have hts := hts1.trans hts0
    rw [hfe, hce.req, hce.into] at hstep
    have hlog' : t'.wlog = g.LU := by rw [hwl, hlog]
    by_cases hk : g.p.flags.toNat % 2 = 1
    · have hreq : (g.p.request.flags.toNat % 2 == 1) = true := by simpa [Preamble.request] using hk
      simp only [hreq, if_true] at hstep
      have hstep' : stepConn c = .next (mkC0 c (.parseReq ⟨g.cap, r2.sp.raw, .header, g.mc⟩ .start) t') := hstep
      refine Or.inr (Or.inl ⟨1, _, by omega, Steps.one hstep', mkC0_link c _ hts,
        ⟨⟨r2.sp.raw, rfl, by show r2.sp.raw ++ t'.input = g.U; rw [hinp]; exact hce.wire, hce.rawlen⟩, hlog',
          hb.step hts, hstop, hev.step hts, hsc, rfl, hk⟩⟩)
    · have hreq : (g.p.request.flags.toNat % 2 == 1) = false := by simpa [Preamble.request] using hk
      simp only [hreq, Bool.false_eq_true, if_false] at hstep
      have hstep' : stepConn c = .halt (mkC0 c .finished t') .finished := hstep
      exact Or.inr (Or.inr ⟨mkC0 c .finished t', (Halts.now hstep').mono (by omega), mkC0_link c _ hts,
        ⟨rfl, hlog', hev.step hts, hsc, by omega⟩⟩)

theorem uclose_out_m {g : Cfg} {c : Conn} {r r2 : AReq} {cs : CloseSt}
    {rest : Bytes} {t1 : Transport}
    (hph : c.phase = .closing r cs g.st 0)
    (heq : closePoll r cs g.st 0 c.env.mutex c.env.tr =
      closeP4 r2 none t1 (.writeOut rest g.epi))
    (hts1 : TStep c.env.tr t1)
    (hce : CEndW g r2 t1.input)
    (hlog : t1.wlog ++ rest ++ g.epi = g.LU)
    (hb : Ben c.env.tr) (hstop : c.stop = false) (hev : Ev1 g c.env.tr)
    (hsc : c.scripts = g.more) :
    URes2 g 2 c := by
  have hb1 := hb.step hts1
  rcases hw : writeAllLoop (rest.length + 1) rest t1 with ⟨rest', t', res⟩
  obtain ⟨hts, hinp, ⟨dn, hd, hl⟩, hres⟩ := writeAllLoop_ben _ _ _ hb1 (Nat.lt_succ_self _) hw
  rcases hres with ⟨rfl, rfl⟩ | ⟨rfl, _, hwk, hans⟩
  · simp only [List.append_nil] at hd
    subst hd
    have heq' : closePoll r cs g.st 0 c.env.mutex c.env.tr =
        closePoll.finishEnd { r2 with sp := r2.sp.consumeOutput r2.sp.output.length } g.epi none t' := by
      rw [heq]; simp only [closeP4, hw]
    refine uclose_core_m hph heq' (hts1.trans hts) ?_ (by rw [hl, ← hlog]) hb hstop hev hsc
    rw [hinp]
    exact ⟨hce.pay, hce.pad, by simp [Str.Parser.consumeOutput], hce.wire, hce.req, hce.cap, hce.mc, hce.rawlen⟩
  · have hstep := C07.closing_step c r cs g.st 0 hph
    rw [heq] at hstep
    simp only [closeP4, hw] at hstep
    have hstep' : stepConn c = .halt (mkC0 c (.closing r2 (.writeOut rest' g.epi) g.st 0) t') .pending := hstep
    refine Or.inl ⟨_, (Halts.now hstep').mono (by omega), mkC0_link c _ (hts1.trans hts), ?_, hwk,
      by show ans t' < ans c.env.tr; have := hts1.ans_le; omega⟩
    exact ⟨.closeW (r := r2) (rest' := rest') rfl (by show CEndW g r2 t'.input; rw [hinp]; exact hce) rfl
      (by show t'.wlog ++ rest' ++ g.epi = _; rw [hl, ← hlog, hd]; simp only [List.append_assoc])
      (hb.step (hts1.trans hts)) hstop (hev.step (hts1.trans hts)) hsc, _, _, rfl⟩

/-! ### `writeable()` in buffering mode -/

/-- phase 1 of `close` once `writeable()`'s `poll_input(None)` has answered -/
def wTail (x : AReq × MutexSt × Transport × IRes) : Except CloseOut CloseMid :=
  match x with
  | (r, m, t, .ready _ _) => .ok (r, m, t, .start)
  | (r, m, t, .pending) => .error (r, .inWriteable, m, t, .pending)
  | (r, m, t, .err e) => if e == .abortRequest then .ok (r, m, t, .start) else .error (r, .inWriteable, m, t, .err e)
  | (r, m, t, .panic s) => .error (r, .inWriteable, m, t, .panic s)

theorem closeP1_resume (r : AReq) (m : MutexSt) (t : Transport) :
    closeP1 r .inWriteable m t = wTail (r.pollInput none m t) := by
  rcases h : r.pollInput none m t with ⟨r', m', t', res⟩
  cases res <;> simp [closeP1, AReq.writeablePoll, h, wTail]

theorem closeP1_first (r : AReq) (m : MutexSt) (t : Transport) (hwr : r.writeable = false) {sp8 : Str.Parser}
    (hset : r.sp.setStream (inputStreams r.sp.request.role).getLast? = .ok sp8) :
    closeP1 r .start m t = wTail (({ r with sp := sp8 } : AReq).pollInput none m t) := by
  rcases h : ({ r with sp := sp8 } : AReq).pollInput none m t with ⟨r', m', t', res⟩
  have h' : ({ sp := sp8, lock := r.lock, writeable := false } : AReq).pollInput none m t = (r', m', t', res) := by
    rw [← hwr]; exact h
  cases res <;> simp [closeP1, AReq.writeablePoll, hwr, hset, h', wTail]

/-- the request as `close` sees it after `writeable()`: Stdin and the noise of the Data stream are
consumed, the Data terminator is left -/
def gF (g : Cfg) : Cfg := gC g (g.R ++ g.body2) [g.term2]

/-- `close`, suspended in `writeable()` -/
def WStage (g : Cfg) (c : Conn) : Prop :=
  ∃ r dO, c.phase = .closing r .inWriteable g.st 0 ∧ RSt g.K8u g.L1 [] r c.env.mutex c.env.tr [] dO ∧
    Ben c.env.tr ∧ c.stop = false ∧ Ev1 g c.env.tr ∧ c.scripts = g.more

def SF (g : Cfg) (c : Conn) : Prop := FStage g c ∨ WStage g c ∨ LStage (gF g) c

theorem owed_own8 {id : Nat} (mc : Nat) {r : Rec} (h8 : r.rtype = 8) : owed (some id) mc r = [] :=
  C04.owed_other (some id) mc r (by rw [h8]; rfl) (by rw [h8]; decide) (fun hx => by rw [h8] at hx; exact absurd hx.1 (by decide))

theorem owedI_eq_owedStream8 (id mc : Nat) (rs : List Rec) : owedI id mc rs = owedStream id 8 mc rs := by
  induction rs with
  | nil => rfl
  | cons r rs ih =>
    simp only [owedI, owedStream, List.flatMap_cons] at ih ⊢
    rw [ih]
    congr 1
    split
    · rename_i h
      simp only [Bool.and_eq_true, beq_iff_eq] at h
      exact owed_own8 mc (UInt8.toNat_inj.1 (by rw [h.1]; rfl))
    · rfl

/-- **One poll of `close` inside `writeable()`** (its first, or a resumed one). -/
theorem fu_wpoll {g : Cfg} (ok : FUOK g) (hk : g.p.flags.toNat % 2 = 1) {c : Conn} {r r1 : AReq} {cs : CloseSt}
    {dO : Bytes} (hph : c.phase = .closing r cs g.st 0)
    (hp1 : closeP1 r cs c.env.mutex c.env.tr = wTail (r1.pollInput none c.env.mutex c.env.tr))
    (hs : RSt g.K8u g.L1 [] r1 c.env.mutex c.env.tr [] dO)
    (hb : Ben c.env.tr) (hstop : c.stop = false) (hev : Ev1 g c.env.tr) (hsc : c.scripts = g.more) :
    GRes (SF g) (AfterU (gF g)) 2 c := by
  have hK := ok.kok
  rcases hpi : r1.pollInput none c.env.mutex c.env.tr with ⟨r', m', t', res⟩
  obtain ⟨hts, hpost⟩ := pollInput_sim_none hK hb hs hpi
  rw [hpi] at hp1
  cases res with
  | pending =>
    obtain ⟨⟨dO', hs'⟩, hwk, hans⟩ := hpost
    have heq : closePoll r cs g.st 0 c.env.mutex c.env.tr = (r', .inWriteable, m', t', .pending) := by
      rw [closePoll_eq', hp1]; rfl
    have hstep := C07.closing_step c r cs g.st 0 hph
    rw [heq] at hstep
    have hstep' : stepConn c = .halt ⟨.closing r' .inWriteable g.st 0, ⟨t', m', c.env.segs⟩, c.scripts, c.stop⟩ .pending :=
      hstep
    exact Or.inl ⟨_, (Halts.now hstep').mono (by omega), ⟨hts.w, rfl, rfl⟩,
      Or.inr (Or.inl ⟨r', dO', rfl, hs', hb.step hts, hstop, hev.step hts, hsc⟩), hwk, hans⟩
  | ready k d =>
    obtain ⟨_, hk', dO', hsB, hlk, hm', hpos, hfin⟩ := hpost
    subst hm'
    obtain ⟨⟨G, hiB⟩, _, _, ⟨O1, hl1, hl2⟩⟩ := hsB
    have hpar : r'.sp.parsed = [] := by
      have := hiB.prefix hK
      have hC : g.K8u.C = [] := ok.hc2
      rw [hC, List.nil_append] at this
      exact List.prefix_nil.1 this
    have hk0 : k = 0 := by rw [hk', hpar]; rfl
    obtain ⟨_, hdO, hpay, hpad, hwire⟩ : AtEnd g.K8u r' t' ([] ++ r'.sp.parsed) dO' := by
      rcases hpos with hp | hp
      · omega
      · exact hp
    have hwr : r'.writeable = true := hfin rfl
    have hstrm : r'.sp.stream = some 8 := hiB.mt.strm
    have hreq : r'.sp.request = g.p.request := hiB.req
    have hrb : (spIgnore r'.sp).isRecordBoundary = true := by
      simp [Str.Parser.isRecordBoundary, spIgnore_pay, spIgnore_pad, hpay, hpad]
    have hp1' : closeP1 r cs c.env.mutex c.env.tr = .ok (r', none, t', .start) := hp1
    have h2 : closeP2 r' none t' .start = .ok ({ r' with sp := spIgnore r'.sp }, none, t', .start) := by
      rw [closeP2_start]
      simp [closeBoundary, hrb, closeP2Tail]
    have hepi : ∀ l, epilogueOf { sp := spIgnore r'.sp, lock := l, writeable := r'.writeable } g.st = (gF g).epi := by
      intro l
      simp only [epilogueOf, hwr, if_true, Cfg.epi, outputStreams]
      show makeRequestEpilogue (spIgnore r'.sp).request.id g.st _ = _
      rw [spIgnore_request, hreq]
      rfl
    have heq : closePoll r cs (gF g).st 0 c.env.mutex c.env.tr =
        closeP4 (closeReq r') none t' (.writeOut r'.sp.output (gF g).epi) := by
      show closePoll r cs g.st 0 c.env.mutex c.env.tr = _
      rw [closePoll_eq, hp1']
      simp only
      rw [h2]
      simp only
      rw [closeP3_start]
      simp only [Nat.lt_irrefl, if_false, gt_iff_lt, hlk, lockDrop, hepi, spIgnore_output]
      rfl
    have hrawlen : r'.sp.raw.length ≤ g.cap := by
      have := hiB.sinv.1
      rw [hiB.capK] at this
      simp only [Str.Parser.freeStart] at this
      have e : g.K8u.cap = g.cap := rfl
      omega
    have hce : CEndW (gF g) (closeReq r') t'.input :=
      ⟨by show (spIgnore r'.sp).pay = 0; rw [spIgnore_pay]; exact hpay,
        by show (spIgnore r'.sp).pad = 0; rw [spIgnore_pad]; exact hpad,
        by show (spIgnore r'.sp).raw ++ t'.input = serAll [g.term2]
           rw [spIgnore_raw, C02.serAll_single]; exact hwire,
        by show (spIgnore r'.sp).request = _; rw [spIgnore_request]; exact hreq,
        by show (spIgnore r'.sp).cap = _; rw [spIgnore_cap]; exact hiB.capK,
        by show (spIgnore r'.sp).maxConns = _; rw [spIgnore_mc]; exact hiB.mt.mc,
        by show (spIgnore r'.sp).raw.length ≤ _; rw [spIgnore_raw]; exact hrawlen⟩
    have hlog : t'.wlog ++ r'.sp.output ++ (gF g).epi = (gF g).LU := by
      rw [gF, gC_LU, hl1, List.append_assoc g.L1, hl2, List.nil_append, hdO]
      have : owedI g.p.id g.mc (g.R ++ g.body2) = g.K8u.O := by
        show _ = owedI g.p.id g.mc g.R ++ owedStream g.p.id 8 g.mc g.body2
        rw [← owedI_eq_owedStream8]; simp [owedI, List.flatMap_append]
      rw [this]; rfl
    exact (URes2.toG (g := gF g) hk (uclose_out_m (g := gF g) hph heq hts hce hlog hb hstop hev hsc)).imp
      (fun _ _ h => Or.inr (Or.inr h)) (fun _ _ h => h)
  | err e => exact hpost.elim
  | panic s => exact hpost.elim

/-- the first poll of the handler `[.ret st]` of the Filter: it returns, `close` starts `writeable()` -/
theorem filter0_first {g : Cfg} (ok : FUOK g) (hk : g.p.flags.toNat % 2 = 1) : FirstPoll g (SF g) (AfterU (gF g)) := by
  intro c e1 hph hlen hwire hlog hm hb hstop hev hsc
  have hrole : g.p.request.role = 3 := ok.role
  have hstep := C07.handler_step c _ _ hph
  obtain ⟨f, hf⟩ : ∃ f, (handlerFuel c.env (AReq.new (Str.Parser.fromParser g.cap g.p.request e1 g.mc)) + scriptOf c) = f + 1 :=
    ⟨(handlerFuel c.env (AReq.new (Str.Parser.fromParser g.cap g.p.request e1 g.mc)) + scriptOf c) - 1, by have := handlerFuel_ge c.env (AReq.new (Str.Parser.fromParser g.cap g.p.request e1 g.mc)); omega⟩
  rw [ok.hs, hf, hp_ret] at hstep
  have hts2 : TStep c.env.tr (c.env.tr.ev s!"HE(ok:{showStatus g.st})") := TStep.ev _ (by simp [isHS, toString_str])
  have hstep' : stepConn c = .next ⟨.closing (AReq.new (Str.Parser.fromParser g.cap g.p.request e1 g.mc)) .start g.st 0,
      c.env.ev s!"HE(ok:{showStatus g.st})", c.scripts, c.stop⟩ := hstep
  have hwr : (AReq.new (Str.Parser.fromParser g.cap g.p.request e1 g.mc)).writeable = false := by
    simp [AReq.new, Str.Parser.fromParser, hrole, inputStreams]
  have hstrm : (Str.Parser.fromParser g.cap g.p.request e1 g.mc).stream = some 5 := by
    simp [Str.Parser.fromParser, hrole, nextInputStream, RT.stdin]
  have hset : (Str.Parser.fromParser g.cap g.p.request e1 g.mc).setStream
      (inputStreams (Str.Parser.fromParser g.cap g.p.request e1 g.mc).request.role).getLast? =
      .ok ((Str.Parser.fromParser g.cap g.p.request e1 g.mc).switchTo (some 8)) := by
    have e : (inputStreams (Str.Parser.fromParser g.cap g.p.request e1 g.mc).request.role).getLast? = some 8 := by
      show (inputStreams g.p.request.role).getLast? = some 8
      rw [hrole]; rfl
    rw [e, setStream_some_input _ (by decide) (by intro e he; rw [hstrm] at he; cases he; decide), hstrm]
    have hl : Later (Str.Parser.fromParser g.cap g.p.request e1 g.mc).request.role (some 5) 8 := by
      show Later g.p.request.role (some 5) 8
      rw [hrole]; exact later358
    simp [hl]
  have hsinv0 := Str.SInv_fromParser g.cap g.p.request e1 g.mc hlen ok.hid
  have hri : RInv g.K8u
      ({ AReq.new (Str.Parser.fromParser g.cap g.p.request e1 g.mc) with
        sp := (Str.Parser.fromParser g.cap g.p.request e1 g.mc).switchTo (some 8) } : AReq)
      e1 c.env.tr.input [] [] := by
    refine ⟨⟨rfl, hrole, rfl, rfl, by show 8 ∈ inputStreams 3; decide⟩,
      SInv_switchTo hsinv0 (Or.inr ⟨8, rfl, by show 8 ∈ inputStreams g.p.request.role; rw [hrole]; decide⟩),
      rfl, rfl, rfl, hwire, fun x => ?_⟩
    rw [RefOut.pre_nil]
    exact (ref_eq_refWire _ _ _).symm
  have hcore := fu_wpoll ok hk
    (c := ⟨.closing (AReq.new (Str.Parser.fromParser g.cap g.p.request e1 g.mc)) .start g.st 0,
      c.env.ev s!"HE(ok:{showStatus g.st})", c.scripts, c.stop⟩) (dO := []) rfl
    (closeP1_first _ _ _ hwr hset)
    ⟨⟨e1, hri⟩, by show LockInv _ c.env.mutex; rw [hm]; exact lockInv_free rfl, Or.inl hm,
      ⟨[], by show c.env.tr.wlog = _; rw [hlog, List.append_nil], rfl⟩⟩
    (hb.step hts2) hstop (hev.step hts2) hsc
  exact (GRes.of_steps (Steps.one hstep') ⟨hts2.w, rfl, rfl⟩ hcore).mono (by omega)

theorem SF.cong {g : Cfg} {c c' : Conn} (h : SF g c)
    (hph : c'.phase = c.phase) (hsc : c'.scripts = c.scripts) (hstop : c'.stop = c.stop)
    (hm : c'.env.mutex = c.env.mutex) (hs : TrSame c.env.tr c'.env.tr) : SF g c' := by
  rcases h with h | ⟨r, dO, h1, h2, h3, h4, h5, h6⟩ | h
  · exact Or.inl (h.cong hph hsc hstop hm hs)
  · exact Or.inr (Or.inl ⟨r, dO, hph.trans h1, h2.cong hm hs, hs.ben h3, hstop.trans h4, hs.ev1 h5, hsc.trans h6⟩)
  · exact Or.inr (Or.inr (h.cong hph hsc hstop hm hs))

theorem sf_poll {g : Cfg} (ok : FUOK g) (hk : g.p.flags.toNat % 2 = 1) {c : Conn} (h : SF g c) :
    GRes (SF g) (AfterU (gF g)) (2 * c.env.tr.input.length + 9) c := by
  rcases h with h | ⟨r, dO, h1, h2, h3, h4, h5, h6⟩ | h
  · exact fstage_poll ok.fok (fun _ h => Or.inl h) (filter0_first ok hk) h
  · exact (fu_wpoll ok hk h1 (closeP1_resume _ _ _) h2 h3 h4 h5 h6).mono (by omega)
  · exact ((lstage_poll (g := gF g) hk h).imp (fun _ _ h => Or.inr (Or.inr h)) (fun _ _ h => h)).mono (by omega)

/-- **The executor** for a Filter request with KEEP_CONN and a Data stream without content whose
handler is `[.ret st]`. -/
theorem run_filter0 {g : Cfg} (ok : FUOK g) (hk : g.p.flags.toNat % 2 = 1) {Z : Bytes}
    (hns : NoStuckW g.cap g.mc (g.term2.ser ++ Z))
    (hNF : ∀ F x, F ++ x ++ Z = g.term2.ser ++ Z → (run .header F g.mc).st.isFinal = false)
    (em : EndMode) (evs0 : List String) (c : Conn) (n0 fuel : Nat) (hst : FStage g c)
    (hem : c.env.tr.endMode = em) (hev0 : ∀ s ∈ evs0, s ∈ c.env.tr.events)
    (hsegs : c.env.segs = []) (hf : ans c.env.tr + 1 ≤ fuel) (hlen : 6 * c.env.tr.input.length + 26 ≤ 100000) :
    ∃ c'' fin, runTask fuel c n0 none = (c'', fin) ∧
      GEnd g.cap g.mc Z g.more (g.hs0 + 1) (fun _ : Unit => True) (fun _ => g.term2.ser ++ Z) (fun _ => (gF g).LU)
        (fun _ => [hsEvent g.p.request]) em evs0 (ans c.env.tr) c'' fin := by
  have hU : (gF g).U = g.term2.ser := C02.serAll_single _
  exact run_stages (cap24 g) (fun _ _ => hns) (fun _ _ => hNF) (fun _ _ h => h.cong)
    (fun _ h => (sf_poll ok hk h).imp (fun _ _ h => h) (fun _ _ h => by
      have := AfterU.ztail (Z := Z) h
      rw [hU] at this
      exact this))
    em evs0 c n0 fuel (Or.inl hst) hem hev0 hsegs hf hlen

/-- the Filter request of `run_filter0` started from any `StartAt` of a chain: it ends parked behind
its Data terminator -/
theorem serve_filter0_core {g : Cfg} (ok : FUOK g) (hk : g.p.flags.toNat % 2 = 1) {left : List Rec}
    (hleft : LeftOK (alignedBufsize g.b) left) {Z : Bytes} (hT : IdleNoise g.term2)
    (hZ : GoodNext g.cap g.mc [g.term2] Z)
    {Lw : Bytes} {evs : List String} {A0 : Nat} {c : Conn} (n0 fuel : Nat)
    (hLw : Lw = g.L0 ++ idleOwed g.mc left)
    (hstart : StartAt g.cap g.mc left Lw ((g.hscript, true) :: g.more) g.hs0 evs A0 g.W c)
    (hf : A0 + 1 ≤ fuel) (hsize : 6 * g.W.length + 26 ≤ 100000) :
    ∃ c', runTask fuel c n0 none = (c', "STALL") ∧
      Waiting g.cap g.mc [g.term2] ((gF (g.front left)).LU ++ idleOwed g.mc [g.term2]) g.more (g.hs0 + 1)
        (hsEvent g.p.request :: evs) A0 c' := by
  have okf := ok.front hleft
  obtain ⟨hst, hsg, hem, hans, hev, hin⟩ := fstage_of_startAt hleft hLw hstart
  have hser : serAll [g.term2] = g.term2.ser := C02.serAll_single _
  have hidle : ∀ e ∈ [g.term2], IdleNoise e := fun e he => by rw [List.mem_singleton.1 he]; exact hT
  obtain ⟨c', fin, hrun, _, _, hkp, hem', hev', hans', hsg', hend⟩ :=
    run_filter0 okf hk (Z := Z) (by show NoStuckW g.cap g.mc (g.term2.ser ++ Z); rw [← hser]; exact hZ.1)
      (by show ∀ F x, F ++ x ++ Z = g.term2.ser ++ Z → _; rw [← hser]; exact hZ.2) .pend evs c n0 fuel hst hem hev hsg
      (by omega) (by rw [hin]; exact hsize)
  rcases hend with ⟨rfl, hp⟩ | ⟨_, hfn⟩
  · obtain ⟨F, hF, hps, hph, hlg⟩ := hp.pst
    have hFe : F = serAll [g.term2] := by rw [hser]; exact List.append_cancel_right hF
    subst hFe
    have hnf : (run .header (serAll [g.term2]) g.mc).st.isFinal = false := (run_idle_out g.mc _ hidle).2.2
    have hob : (run .header (serAll [g.term2]) (g.front left).mc).out = idleOwed g.mc [g.term2] :=
      (run_idle_out g.mc _ hidle).1
    refine ⟨c', hrun, ⟨hph, hnf, hps.rem, hp.inp, by rw [hlg, hob], ⟨(gF (g.front left)).LU, by
      show _ = _ ++ (run .header (serAll [g.term2]) (g.front left).mc).out
      rw [hob]⟩, hps.stop, hps.ben, hkp.sc, hkp.mx,
      hkp.hs, ?_, hsg', hem', by omega⟩⟩
    intro s hs
    rcases List.mem_cons.1 hs with rfl | hs
    · exact hkp.ev _ List.mem_cons_self
    · exact hev' s hs
  · rw [hfn.em] at hem'; cases hem'

end Fcgi.E2E
