import Fcgi.Proofs.E2EStop2

/-!
# C14(a) end to end, exact: `E2EStop` / `E2EStop2` with the complete log as an EQUATION

`E2E.PSt` now records that what a suspended `write_all` of `parse_request` has not sent yet is a suffix
of the request parser's output.  An idle `parse_request` (behind a completed KEEP_CONN request) owes
nothing for what that request left unread (`run_U_prefix`), so it is never suspended with unsent
bytes: the corner that forced the `exact` flag of `FinDone` is closed.  This file repeats the one-poll
theorems and the executors with `FinDoneX` (`log : wlog = g.L3 O1 O2`) in place of `FinDone`.
-/
namespace Fcgi.C14E
open Fcgi Fcgi.Req Fcgi.Str Fcgi.Async Fcgi.Run Fcgi.Spec Fcgi.E2E

/-- The request was completed — the write log IS its complete log, incl. its `EndRequest` —, then the
task stopped: no further handler start; of what the request left unread (`g.U`) nothing more was
taken from the transport than what was already buffered (`raw`). -/
structure FinDoneX (g : E2E.Cfg) (O1 O2 : Bytes) (c' : Conn) : Prop where
  ph : c'.phase = .finished
  log : c'.env.tr.wlog = g.L3 O1 O2
  ev : Ev1 g c'.env.tr
  re : ∀ s ∈ g.revs, s ∈ c'.env.tr.events
  sc : c'.scripts = g.more
  unread : ∃ raw, raw ++ c'.env.tr.input = g.U

inductive OutSX (g : E2E.Cfg) (c c' : Conn) : PRes → Prop
  | pend : StageS g c' → c'.env.tr.woken = true → ans c'.env.tr < ans c.env.tr → OutSX g c c' .pending
  | early : FinEarly g c' → OutSX g c c' .finished
  | done {O1 O2 : Bytes} : O1 ++ O2 = g.Ot → FinDoneX g O1 O2 c' → OutSX g c c' .finished

def ResSX (g : E2E.Cfg) (N : Nat) (c : Conn) : Prop := ∃ c' r, Halts N c c' r ∧ Link c c' ∧ OutSX g c c' r

theorem OutSX.mono {g : E2E.Cfg} {c c1 c' : Conn} {r : PRes} (hl : Link c c1) (h : OutSX g c1 c' r) : OutSX g c c' r := by
  cases h with
  | pend a b d => exact .pend a b (by have := hl.ts.ans_le; omega)
  | early a => exact .early a
  | done a b => exact .done a b

theorem ResSX.of_steps {g : E2E.Cfg} {k N : Nat} {c c1 : Conn} (hs : Steps k c c1) (hl : Link c c1)
    (h : ResSX g N c1) : ResSX g (k + N) c := by
  obtain ⟨c', r, hh, hl2, ho⟩ := h
  exact ⟨c', r, hh.of_steps hs, hl.trans hl2, ho.mono hl⟩

theorem ResSX.mono {g : E2E.Cfg} {N M : Nat} {c : Conn} (h : ResSX g N c) (hm : N ≤ M) : ResSX g M c := by
  obtain ⟨c', r, hh, hl2, ho⟩ := h
  exact ⟨c', r, hh.mono hm, hl2, ho⟩

/-! ## `close` with the flag raised -/

theorem close_coreSX {g : E2E.Cfg} {c : Conn} {r r2 : AReq} {cs : CloseSt} {rest O1 O2 : Bytes}
    {t1 : Transport} (hO : O1 ++ O2 = g.Ot)
    (hph : c.phase = .closing r cs g.st 0)
    (heq : closePoll r cs g.st 0 c.env.mutex c.env.tr = closePoll.finishEnd r2 rest c.env.mutex t1)
    (hts1 : TStep c.env.tr t1) (hin1 : t1.input = c.env.tr.input)
    (hce : CEnd g r2 c.env.tr.input) (hm : c.env.mutex = none) (hlog : t1.wlog ++ rest = g.L3 O1 O2)
    (hb : Ben c.env.tr) (hstop : c.stop = true) (hev : Ev1 g c.env.tr)
    (hre : ∀ s ∈ g.revs, s ∈ c.env.tr.events) (hsc : c.scripts = g.more) :
    ResSX g (2 * c.env.tr.input.length + 8) c := by
  have hstep := C07.closing_step c r cs g.st 0 hph
  rw [heq] at hstep
  have hb1 := hb.step hts1
  rcases finishEnd_cases r2 rest c.env.mutex hb1 with
    ⟨rest', t', hfe, hts0, hinp0, hwl, hwk, hans⟩ | ⟨t', hts0, hinp0, hwl, hfe⟩
  · have hts := hts1.trans hts0
    have hinp := hinp0.trans hin1
    rw [hfe] at hstep
    have hstep' : stepConn c = .halt (mkC c (.closing r2 (.writeEnd rest') g.st 0) t') .pending := hstep
    refine ⟨mkC c (.closing r2 (.writeEnd rest') g.st 0) t', .pending, (Halts.now hstep').mono (by omega),
      mkC_link c _ hts, .pend ⟨hstop, ?_⟩ hwk (by show ans t' < ans c.env.tr; have := hts1.ans_le; omega)⟩
    exact .close (r := r2) (rest := rest') rfl hO (by show CEnd g r2 t'.input; rw [hinp]; exact hce) hm
      (by show t'.wlog ++ rest' = _; rw [hwl, hlog]) (hb.step hts) rfl (hev.step hts) ((fun s hs => hts.mem_events (hre s hs))) hsc
  · have hts := hts1.trans hts0
    have hinp := hinp0.trans hin1
    rw [hfe, hce.req, hce.into] at hstep
    have hlog' : t'.wlog = g.L3 O1 O2 := by rw [hwl, hlog]
    have hunread : r2.sp.raw ++ t'.input = g.U := by rw [hinp]; exact hce.wire
    by_cases hk : g.p.flags.toNat % 2 = 1
    · have hreq : (g.p.request.flags.toNat % 2 == 1) = true := by simpa [Preamble.request] using hk
      simp only [hreq, if_true] at hstep
      have hstep' : stepConn c = .next (mkC c (.parseReq ⟨g.cap, r2.sp.raw, .header, g.mc⟩ .start) t') := hstep
      -- the connection is reused, and the next `parse_request` sees the flag before its first read
      have hstep2 := step_stop (mkC c (.parseReq ⟨g.cap, r2.sp.raw, .header, g.mc⟩ .start) t') _ _ rfl hstop
      refine ⟨_, .finished, ⟨1, _, by omega, Steps.one hstep', hstep2⟩, mkC_link c _ hts,
        .done hO ⟨rfl, hlog', hev.step hts, (fun s hs => hts.mem_events (hre s hs)), hsc, r2.sp.raw, hunread⟩⟩
    · have hreq : (g.p.request.flags.toNat % 2 == 1) = false := by simpa [Preamble.request] using hk
      simp only [hreq, Bool.false_eq_true, if_false] at hstep
      have hstep' : stepConn c = .halt (mkC c .finished t') .finished := hstep
      exact ⟨mkC c .finished t', .finished, (Halts.now hstep').mono (by omega), mkC_link c _ hts,
        .done hO ⟨rfl, hlog', hev.step hts, (fun s hs => hts.mem_events (hre s hs)), hsc, r2.sp.raw, hunread⟩⟩

theorem close_outSX {g : E2E.Cfg} {c : Conn} {r r2 : AReq} {cs : CloseSt} {rest O1 O2 : Bytes}
    (hO : O1 ++ O2 = g.Ot) (hph : c.phase = .closing r cs g.st 0)
    (heq : closePoll r cs g.st 0 c.env.mutex c.env.tr =
      closeP4 r2 c.env.mutex c.env.tr (.writeOut rest g.epi))
    (hce : CEndW g r2 c.env.tr.input) (hm : c.env.mutex = none)
    (hlog : c.env.tr.wlog ++ rest ++ g.epi = g.L3 O1 O2)
    (hb : Ben c.env.tr) (hstop : c.stop = true) (hev : Ev1 g c.env.tr)
    (hre : ∀ s ∈ g.revs, s ∈ c.env.tr.events) (hsc : c.scripts = g.more) :
    ResSX g (2 * c.env.tr.input.length + 8) c := by
  rcases hw : writeAllLoop (rest.length + 1) rest c.env.tr with ⟨rest', t', res⟩
  obtain ⟨hts, hinp, ⟨dn, hd, hl⟩, hres⟩ := writeAllLoop_ben _ _ _ hb (Nat.lt_succ_self _) hw
  rcases hres with ⟨rfl, rfl⟩ | ⟨rfl, _, hwk, hans⟩
  · simp only [List.append_nil] at hd
    subst hd
    have heq' : closePoll r cs g.st 0 c.env.mutex c.env.tr =
        closePoll.finishEnd { r2 with sp := r2.sp.consumeOutput r2.sp.output.length } g.epi c.env.mutex t' := by
      rw [heq]; simp only [closeP4, hw]
    refine close_coreSX hO hph heq' hts hinp ?_ hm (by rw [hl, ← hlog]) hb hstop hev hre hsc
    exact ⟨hce.pay, hce.pad, by simp [Str.Parser.consumeOutput], hce.wire, hce.req, hce.cap, hce.mc, hce.rawlen⟩
  · have hstep := C07.closing_step c r cs g.st 0 hph
    rw [heq] at hstep
    simp only [closeP4, hw] at hstep
    have hstep' : stepConn c = .halt (mkC c (.closing r2 (.writeOut rest' g.epi) g.st 0) t') .pending := hstep
    refine ⟨_, .pending, (Halts.now hstep').mono (by omega), mkC_link c _ hts, .pend ⟨hstop, ?_⟩ hwk hans⟩
    exact .closeW (r := r2) (rest := rest') rfl hO (by show CEndW g r2 t'.input; rw [hinp]; exact hce) hm
      (by show t'.wlog ++ rest' ++ g.epi = _; rw [hl, ← hlog, hd]; simp only [List.append_assoc])
      (hb.step hts) rfl (hev.step hts) ((fun s hs => hts.mem_events (hre s hs))) hsc

/-! ## The handler with the flag raised: it runs on -/

theorem handler_coreSX {g : E2E.Cfg} {c : Conn} {r : AReq} {h : HState} (hph : c.phase = .handler r h)
    (hout : HOut g.Wc g.Rd c.env (handlerPoll ((handlerFuel c.env r + scriptOf c)) r h c.env))
    (hb : Ben c.env.tr) (hstop : c.stop = true) (hev : Ev1 g c.env.tr) (hsc : c.scripts = g.more) :
    ResSX g (2 * c.env.tr.input.length + 10) c := by
  have hstep := C07.handler_step c r h hph
  rcases hhp : handlerPoll ((handlerFuel c.env r + scriptOf c)) r h c.env with ⟨r', h', e', res⟩
  rw [hhp] at hstep hout
  obtain ⟨hts, hsegs, hres⟩ := hout
  simp only at hts hsegs hres
  rcases hres with ⟨rfl, hwk, hans, hst⟩ | ⟨hres, O1, hd⟩
  · have hstep' : stepConn c = .halt ⟨.handler r' h', e', c.scripts, c.stop⟩ .pending := hstep
    refine ⟨⟨.handler r' h', e', c.scripts, c.stop⟩, .pending, (Halts.now hstep').mono (by omega),
      ⟨hts.w, hsegs, rfl⟩, .pend ⟨hstop, ?_⟩ hwk hans⟩
    rcases hst with hst | ⟨O1, hst⟩
    · exact .hread rfl hst (hb.step hts) rfl (hev.step hts) hsc
    · exact .hwrite rfl hst (hb.step hts) rfl (hev.step hts) hsc
  · have hres' : res = .done (.ok g.st) := hres
    subst hres'
    have halive : (h'.writers.filter Option.isSome).length = 0 := by rw [hd.ws]; rfl
    simp only [halive] at hstep
    have hstep' : stepConn c =
        .next ⟨.closing r' .start g.st 0, e'.ev s!"HE(ok:{showStatus g.st})", c.scripts, c.stop⟩ := hstep
    have hts2 : TStep c.env.tr (e'.tr.ev s!"HE(ok:{showStatus g.st})") :=
      hts.trans (TStep.ev _ (by simp [isHS, toString_str]))
    obtain ⟨heq, hce⟩ := close_start_eq (g := g) (r := r') (t := e'.tr.ev s!"HE(ok:{showStatus g.st})") hd.fin
    have hO : O1 ++ r'.sp.output = g.Ot := hd.out
    have hcore := close_outSX
      (c := ⟨.closing r' .start g.st 0, e'.ev s!"HE(ok:{showStatus g.st})", c.scripts, c.stop⟩)
      (r := r') (r2 := closeReq r') (cs := .start) (rest := r'.sp.output) hO rfl
      (by show closePoll r' .start g.st 0 e'.mutex _ = closeP4 _ e'.mutex _ _
          rw [hd.mtx]; exact heq)
      hce hd.mtx
      (by show (e'.tr.ev _).wlog ++ r'.sp.output ++ g.epi = g.L3 O1 r'.sp.output
          rw [Transport.ev_wlog, hd.log]; rfl)
      (hb.step hts2) hstop (hev.step hts2)
      (by intro s hs
          show s ∈ e'.tr.events ++ [_]
          exact List.mem_append_left _ (hd.ev s hs)) hsc
    have := ResSX.of_steps (Steps.one hstep') ⟨hts2.w, hsegs, rfl⟩ hcore
    refine this.mono ?_
    have hl := hts.tle.input_len
    show 1 + (2 * e'.tr.input.length + 8) ≤ _
    omega

/-! ## One poll with the flag raised -/

theorem stageS_pollX {g : E2E.Cfg} (ok : g.OK) {c : Conn} (hst : StageS g c) :
    ResSX g (4 * c.env.tr.input.length + 17) c := by
  obtain ⟨hstop, hs⟩ := hst
  have fin_now : ∀ (rp : Req.Parser) (sub : PRSub), c.phase = .parseReq rp sub →
      OutSX g c { c with phase := .finished } .finished → ResSX g (4 * c.env.tr.input.length + 17) c := by
    intro rp sub hph ho
    exact ⟨_, .finished, (Halts.now (step_stop c rp sub hph hstop)).mono (by omega), ⟨.refl _, rfl, rfl⟩, ho⟩
  cases hs with
  | @start raw hph hwire hraw hlog hb _ hsc hm hev =>
    refine fin_now _ _ hph (.early ⟨rfl, hev, ?_, hsc⟩)
    show c.env.tr.wlog <+: _
    have : c.env.tr.wlog = g.L0 := hlog
    rw [this]; exact List.prefix_append _ _
  | @parse F hst hsc hm hev =>
    have hF : F <+: g.W := ⟨c.env.tr.input, by have := hst.wire; rwa [List.append_nil] at this⟩
    have hpre := out_prefix ok hF
    have hlogp : c.env.tr.wlog <+: g.L0 ++ owedPreamble g.p g.mc g.recs := by
      rcases hst.ph with ⟨_, _, h⟩ | ⟨rest, _, h, _⟩
      · have h' : c.env.tr.wlog = g.L0 ++ (run .header F g.mc).out := h
        rw [h']; exact (List.prefix_append_right_inj _).2 hpre
      · have h' : c.env.tr.wlog ++ rest = g.L0 ++ (run .header F g.mc).out := h
        exact (List.prefix_append _ rest).trans (by rw [h']; exact (List.prefix_append_right_inj _).2 hpre)
    rcases hst.ph with ⟨hph, _, _⟩ | ⟨rest, hph, _⟩
    · exact fin_now _ _ hph (.early ⟨rfl, hev, hlogp, hsc⟩)
    · exact fin_now _ _ hph (.early ⟨rfl, hev, hlogp, hsc⟩)
  | @hread r h hph hr hb _ hev hsc =>
    exact (handler_coreSX (c := c) hph (rd_poll ok hr hb (Nat.le_trans hr.fuel (Nat.le_add_right _ _))) hb hstop hev hsc).mono (by omega)
  | @hwrite r h O1 hph hw hb _ hev hsc =>
    refine (handler_coreSX (c := c) hph (write_phase hw hb ?_) hb hstop hev hsc).mono (by omega)
    have := handlerFuel_ge c.env r
    have := ok.wfuel
    show wcost g.data.length + 3 ≤ _
    omega
  | @closeW r rest O1 O2 hph hO hce hm hlog hb _ hev hre hsc =>
    refine (close_outSX (c := c) (r2 := r) (rest := rest) hO hph ?_ hce hm hlog hb hstop hev hre hsc).mono (by omega)
    rw [closePoll_late _ _ _ _ _ _ rfl]
  | @close r rest O1 O2 hph hO hce hm hlog hb _ hev hre hsc =>
    refine (close_coreSX (c := c) (r2 := r) (rest := rest) hO hph ?_ (.refl _) rfl hce hm hlog hb hstop hev hre hsc).mono
      (by omega)
    rw [closePoll_late _ _ _ _ _ _ rfl]
    rfl
  | @idle F O1 O2 hO hst hfin hkeep hev hre hsc hmx =>
    -- the reused connection's `parse_request`: it owes nothing for (a prefix of) what was left unread
    have hFU : F <+: g.U := ⟨c.env.tr.input, hfin⟩
    have hout := (run_U_prefix ok hFU).2
    rcases hst.ph with ⟨hph, _, h⟩ | ⟨rest, hph, h, pre, hpre⟩
    · have h' : c.env.tr.wlog = g.L3 O1 O2 ++ (run .header F g.mc).out := h
      rw [hout, List.append_nil] at h'
      exact fin_now _ _ hph (.done hO ⟨rfl, h', hev, hre, hsc, F, hfin⟩)
    · -- suspended in a `write_all`: what is unsent is a suffix of the parser's output, which is empty
      have h' : c.env.tr.wlog ++ rest = g.L3 O1 O2 ++ (run .header F g.mc).out := h
      have hpre' : (run .header F g.mc).out = pre ++ rest := hpre
      rw [hout] at hpre'
      have hrest : rest = [] := (List.append_eq_nil_iff.1 hpre'.symm).2
      rw [hout, hrest, List.append_nil, List.append_nil] at h'
      exact fin_now _ _ hph (.done hO ⟨rfl, h', hev, hre, hsc, F, hfin⟩)

/-! ## The executor -/

/-- how the task ends once the flag is up -/
def FinOutX (g : E2E.Cfg) (c' : Conn) : Prop :=
  FinEarly g c' ∨ ∃ O1 O2, O1 ++ O2 = g.Ot ∧ FinDoneX g O1 O2 c'

/-- **The executor with the flag raised**: `RET`. -/
theorem run_SX {g : E2E.Cfg} (ok : g.OK) : ∀ (A : Nat) (c : Conn) (n fuel : Nat) (sa : Option Nat),
    StageS g c → c.env.segs = [] → ans c.env.tr ≤ A → A + 1 ≤ fuel →
    4 * c.env.tr.input.length + 17 ≤ 100000 →
    ∃ c', runTask fuel c n sa = (c', "RET") ∧ FinOutX g c' := by
  intro A
  induction A with
  | zero =>
    intro c n fuel sa hst hsegs hA hf hlen
    obtain ⟨f, rfl⟩ : ∃ f, fuel = f + 1 := ⟨fuel - 1, by omega⟩
    obtain ⟨hsame, hph, hsc, hstop, hmx, hsg, hwk⟩ := prePoll_same c n hsegs
    have hst0 := hst.cong hph hsc hstop hmx hsame
    obtain ⟨c', r, hh, hl, ho⟩ := stageS_pollX ok hst0
    have hpoll := hh.pollT (by rw [hsame.input]; exact hlen)
    have hans0 : ans (prePoll c n none).env.tr = ans c.env.tr := by unfold ans; rw [hsame.rd, hsame.wr]
    rw [runTask_succ, prePoll_stopped c n sa hst.stop, hpoll]
    cases ho with
    | early h => exact ⟨c', rfl, Or.inl h⟩
    | @done O1 O2 hO h => exact ⟨c', rfl, Or.inr ⟨O1, O2, hO, h⟩⟩
    | pend hs' hw ha => omega
  | succ A ih =>
    intro c n fuel sa hst hsegs hA hf hlen
    obtain ⟨f, rfl⟩ : ∃ f, fuel = f + 1 := ⟨fuel - 1, by omega⟩
    obtain ⟨hsame, hph, hsc, hstop, hmx, hsg, hwk⟩ := prePoll_same c n hsegs
    have hst0 := hst.cong hph hsc hstop hmx hsame
    obtain ⟨c', r, hh, hl, ho⟩ := stageS_pollX ok hst0
    have hpoll := hh.pollT (by rw [hsame.input]; exact hlen)
    have hans0 : ans (prePoll c n none).env.tr = ans c.env.tr := by unfold ans; rw [hsame.rd, hsame.wr]
    have hlen' : 4 * c'.env.tr.input.length + 17 ≤ 100000 := by
      have := hl.ts.inp
      rw [hsame.input] at this
      omega
    rw [runTask_succ, prePoll_stopped c n sa hst.stop, hpoll]
    cases ho with
    | early h => exact ⟨c', rfl, Or.inl h⟩
    | @done O1 O2 hO h => exact ⟨c', rfl, Or.inr ⟨O1, O2, hO, h⟩⟩
    | pend hs' hw ha =>
      simp only [hw, if_true]
      exact ih c' (n + 1) f sa hs' (hl.segs.trans hsg) (by omega) (by omega) hlen'

/-- the poll at which the flag is raised -/
theorem run_atX {g : E2E.Cfg} (ok : g.OK) {c : Conn} {j fuel : Nat} (hst : Stage g c) (hsegs : c.env.segs = [])
    (hf : ans c.env.tr + 1 ≤ fuel) (hlen : 4 * c.env.tr.input.length + 17 ≤ 100000) :
    ∃ c', runTask fuel c j (some j) = (c', "RET") ∧ FinOutX g c' := by
  obtain ⟨f, rfl⟩ : ∃ f, fuel = f + 1 := ⟨fuel - 1, by omega⟩
  have hS : StageS g { c with stop := true } := by
    refine ⟨rfl, ?_⟩
    have : unstop { c with stop := true } = c := by
      obtain ⟨ph, env, sc, st⟩ := c
      have := stage_stop_false hst
      simp only at this
      subst this
      rfl
    rw [this]; exact hst
  have heq : runTask (f + 1) c j (some j) = runTask (f + 1) { c with stop := true } j (some j) := by
    rw [runTask_succ, runTask_succ, prePoll_eq, prePoll_stopped { c with stop := true } j (some j) rfl]
  rw [heq]
  exact run_SX ok (ans c.env.tr) { c with stop := true } j (f + 1) (some j) hS hsegs (Nat.le_refl _) hf hlen

/-- How the task ends when the flag is raised at poll `j`: with the flag up (`FinOutX`), or — the run
was over before poll `j` — as without a stop request (`E2E.Fin`). -/
def StopOutX (g : E2E.Cfg) (c' : Conn) : Prop :=
  FinOutX g c' ∨ ∃ O1 O2, O1 ++ O2 = g.Ot ∧ Fin g O1 O2 c'

/-- **The executor, the flag raised at poll `j`** (`n ≤ j` polls done so far): always `RET`. -/
theorem run_stopX {g : E2E.Cfg} (ok : g.OK) (j : Nat) : ∀ (A : Nat) (c : Conn) (n fuel : Nat),
    Stage g c → c.env.segs = [] → n ≤ j → ans c.env.tr ≤ A → A + 2 ≤ fuel →
    4 * c.env.tr.input.length + 17 ≤ 100000 →
    ∃ c', runTask fuel c n (some j) = (c', "RET") ∧ StopOutX g c' := by
  intro A
  induction A with
  | zero =>
    intro c n fuel hst hsegs hn hA hf hlen
    by_cases hnj : n = j
    · subst hnj
      obtain ⟨c', h1, h2⟩ := run_atX ok (j := n) (fuel := fuel) hst hsegs (by omega) hlen
      exact ⟨c', h1, Or.inl h2⟩
    · obtain ⟨f, rfl⟩ : ∃ f, fuel = f + 1 := ⟨fuel - 1, by omega⟩
      obtain ⟨hsame, hph, hsc, hstop, hmx, hsg, hwk⟩ := prePoll_same c n hsegs
      have hst0 := hst.cong hph hsc hstop hmx hsame
      obtain ⟨c', r, hh, hl, ho⟩ := stage_poll ok hst0
      have hpoll := hh.pollT (by rw [hsame.input]; exact hlen)
      have hans0 : ans (prePoll c n none).env.tr = ans c.env.tr := by unfold ans; rw [hsame.rd, hsame.wr]
      have hlen' : 4 * c'.env.tr.input.length + 17 ≤ 100000 := by
        have := hl.ts.inp
        rw [hsame.input] at this
        omega
      rw [runTask_succ, prePoll_ne c n j (fun h => hnj h.symm), hpoll]
      cases ho with
      | @fin O1 O2 hO hfin => exact ⟨c', rfl, Or.inr ⟨O1, O2, hO, hfin⟩⟩
      | pend hs' hw ha => omega
      | @park O1 O2 hs' hO hp =>
        rcases hl.ts.wk with hw | ⟨_, ha⟩
        · rw [hwk] at hw
          simp only [hw, Bool.false_eq_true, if_false]
          have hsg' : c'.env.segs = [] := hl.segs.trans hsg
          rw [release_nil _ hsg']
          simp only [hw, Bool.false_eq_true, if_false]
          have hstop' : c'.stop = false := stage_stop_false hs'
          have hjn : (decide (j > n) && !c'.stop) = true := by
            rw [hstop']; simp; omega
          simp only [hjn, if_true]
          have hst2 : Stage g { c' with env := { c'.env with tr := { c'.env.tr with hold := false, woken := false } } } :=
            hs'.cong rfl rfl rfl rfl ⟨rfl, rfl, rfl, rfl, rfl, rfl, [], by simp, Quiet.nil⟩
          obtain ⟨c2, h1, h2⟩ := run_atX ok (j := j) (fuel := f) hst2 hsg'
            (by show ans c'.env.tr + 1 ≤ f; have := hl.ts.ans_le; omega) hlen'
          exact ⟨c2, h1, Or.inl h2⟩
        · omega
  | succ A ih =>
    intro c n fuel hst hsegs hn hA hf hlen
    by_cases hnj : n = j
    · subst hnj
      obtain ⟨c', h1, h2⟩ := run_atX ok (j := n) (fuel := fuel) hst hsegs (by omega) hlen
      exact ⟨c', h1, Or.inl h2⟩
    · obtain ⟨f, rfl⟩ : ∃ f, fuel = f + 1 := ⟨fuel - 1, by omega⟩
      obtain ⟨hsame, hph, hsc, hstop, hmx, hsg, hwk⟩ := prePoll_same c n hsegs
      have hst0 := hst.cong hph hsc hstop hmx hsame
      obtain ⟨c', r, hh, hl, ho⟩ := stage_poll ok hst0
      have hpoll := hh.pollT (by rw [hsame.input]; exact hlen)
      have hans0 : ans (prePoll c n none).env.tr = ans c.env.tr := by unfold ans; rw [hsame.rd, hsame.wr]
      have hsg' : c'.env.segs = [] := hl.segs.trans hsg
      have hlen' : 4 * c'.env.tr.input.length + 17 ≤ 100000 := by
        have := hl.ts.inp
        rw [hsame.input] at this
        omega
      rw [runTask_succ, prePoll_ne c n j (fun h => hnj h.symm), hpoll]
      cases ho with
      | @fin O1 O2 hO hfin => exact ⟨c', rfl, Or.inr ⟨O1, O2, hO, hfin⟩⟩
      | pend hs' hw ha =>
        simp only [hw, if_true]
        exact ih c' (n + 1) f hs' hsg' (by omega) (by omega) (by omega) hlen'
      | @park O1 O2 hs' hO hp =>
        have hstop' : c'.stop = false := stage_stop_false hs'
        have hjn : (decide (j > n) && !c'.stop) = true := by
          rw [hstop']; simp; omega
        rcases hl.ts.wk with hw | ⟨hw, ha⟩
        · rw [hwk] at hw
          simp only [hw, Bool.false_eq_true, if_false]
          rw [release_nil _ hsg']
          simp only [hw, Bool.false_eq_true, if_false, hjn, if_true]
          have hst2 : Stage g { c' with env := { c'.env with tr := { c'.env.tr with hold := false, woken := false } } } :=
            hs'.cong rfl rfl rfl rfl ⟨rfl, rfl, rfl, rfl, rfl, rfl, [], by simp, Quiet.nil⟩
          obtain ⟨c2, h1, h2⟩ := run_atX ok (j := j) (fuel := f) hst2 hsg'
            (by show ans c'.env.tr + 1 ≤ f; have := hl.ts.ans_le; omega) hlen'
          exact ⟨c2, h1, Or.inl h2⟩
        · simp only [hw, if_true]
          exact ih c' (n + 1) f hs' hsg' (by omega) (by omega) (by omega) hlen'


/-! ## With the flag raised the task never parks: `run_SX`, `run_atX` for `runFeed` -/

theorem run_S_feedX {g : E2E.Cfg} (ok : g.OK) (ws : List Bytes) : ∀ (A : Nat) (c : Conn) (n fuel : Nat) (sa : Option Nat),
    StageS g c → c.env.segs = [] → ans c.env.tr ≤ A → A + 1 ≤ fuel →
    4 * c.env.tr.input.length + 17 ≤ 100000 →
    ∃ c', runFeed fuel c n sa ws = (c', "RET") ∧ FinOutX g c' := by
  intro A
  induction A with
  | zero =>
    intro c n fuel sa hst hsegs hA hf hlen
    obtain ⟨f, rfl⟩ : ∃ f, fuel = f + 1 := ⟨fuel - 1, by omega⟩
    obtain ⟨hsame, hph, hsc, hstop, hmx, hsg, hwk⟩ := prePoll_same c n hsegs
    have hst0 := hst.cong hph hsc hstop hmx hsame
    obtain ⟨c', r, hh, hl, ho⟩ := stageS_pollX ok hst0
    have hpoll := hh.pollT (by rw [hsame.input]; exact hlen)
    have hans0 : ans (prePoll c n none).env.tr = ans c.env.tr := by unfold ans; rw [hsame.rd, hsame.wr]
    rw [runFeed_succ, prePoll_stopped c n sa hst.stop, hpoll]
    cases ho with
    | early h => exact ⟨c', rfl, Or.inl h⟩
    | @done O1 O2 hO h => exact ⟨c', rfl, Or.inr ⟨O1, O2, hO, h⟩⟩
    | pend hs' hw ha => omega
  | succ A ih =>
    intro c n fuel sa hst hsegs hA hf hlen
    obtain ⟨f, rfl⟩ : ∃ f, fuel = f + 1 := ⟨fuel - 1, by omega⟩
    obtain ⟨hsame, hph, hsc, hstop, hmx, hsg, hwk⟩ := prePoll_same c n hsegs
    have hst0 := hst.cong hph hsc hstop hmx hsame
    obtain ⟨c', r, hh, hl, ho⟩ := stageS_pollX ok hst0
    have hpoll := hh.pollT (by rw [hsame.input]; exact hlen)
    have hans0 : ans (prePoll c n none).env.tr = ans c.env.tr := by unfold ans; rw [hsame.rd, hsame.wr]
    have hlen' : 4 * c'.env.tr.input.length + 17 ≤ 100000 := by
      have := hl.ts.inp
      rw [hsame.input] at this
      omega
    rw [runFeed_succ, prePoll_stopped c n sa hst.stop, hpoll]
    cases ho with
    | early h => exact ⟨c', rfl, Or.inl h⟩
    | @done O1 O2 hO h => exact ⟨c', rfl, Or.inr ⟨O1, O2, hO, h⟩⟩
    | pend hs' hw ha =>
      simp only [hw, if_true]
      exact ih c' (n + 1) f sa hs' (hl.segs.trans hsg) (by omega) (by omega) hlen'

theorem run_at_feedX {g : E2E.Cfg} (ok : g.OK) (ws : List Bytes) {c : Conn} {j fuel : Nat} (hst : Stage g c)
    (hsegs : c.env.segs = [])
    (hf : ans c.env.tr + 1 ≤ fuel) (hlen : 4 * c.env.tr.input.length + 17 ≤ 100000) :
    ∃ c', runFeed fuel c j (some j) ws = (c', "RET") ∧ FinOutX g c' := by
  obtain ⟨f, rfl⟩ : ∃ f, fuel = f + 1 := ⟨fuel - 1, by omega⟩
  have hS : StageS g { c with stop := true } := by
    refine ⟨rfl, ?_⟩
    have : unstop { c with stop := true } = c := by
      obtain ⟨ph, env, sc, st⟩ := c
      have := stage_stop_false hst
      simp only at this
      subst this
      rfl
    rw [this]; exact hst
  have heq : runFeed (f + 1) c j (some j) ws = runFeed (f + 1) { c with stop := true } j (some j) ws := by
    rw [runFeed_succ, runFeed_succ, prePoll_eq, prePoll_stopped { c with stop := true } j (some j) rfl]
  rw [heq]
  exact run_S_feedX ok ws (ans c.env.tr) { c with stop := true } j (f + 1) (some j) hS hsegs (Nat.le_refl _) hf hlen

/-! ## Leg 1: request 1, until the flag or until the client sends request 2 -/

/-- how the first leg ends: the task has returned (flag seen, or the run was over), or the task has
parked behind request 1 at a poll `m < j` and the client sends `w` -/
def Leg1X (g : E2E.Cfg) (j : Nat) (w : Bytes) (fuel : Nat) (c : Conn) (n : Nat) : Prop :=
  (∃ c', runFeed fuel c n (some j) [w] = (c', "RET") ∧ StopOutX g c') ∨
  (∃ cP O1 O2 m f', O1 ++ O2 = g.Ot ∧ Parked g O1 O2 cP ∧ m < j ∧ cP.env.segs = [] ∧
      ans cP.env.tr ≤ ans c.env.tr ∧ fuel ≤ f' + (ans c.env.tr - ans cP.env.tr) + 1 ∧
      runFeed fuel c n (some j) [w] = runFeed f' (feedA cP w) (m + 1) (some j) [])

theorem leg1X {g : E2E.Cfg} (ok : g.OK) (j : Nat) (w : Bytes) : ∀ (A : Nat) (c : Conn) (n fuel : Nat),
    Stage g c → c.env.segs = [] → n ≤ j → ans c.env.tr ≤ A → A + 2 ≤ fuel →
    4 * c.env.tr.input.length + 17 ≤ 100000 → Leg1X g j w fuel c n := by
  intro A
  induction A with
  | zero =>
    intro c n fuel hst hsegs hn hA hf hlen
    by_cases hnj : n = j
    · subst hnj
      obtain ⟨c', h1, h2⟩ := run_at_feedX ok [w] (j := n) (fuel := fuel) hst hsegs (by omega) hlen
      exact Or.inl ⟨c', h1, Or.inl h2⟩
    · obtain ⟨f, rfl⟩ : ∃ f, fuel = f + 1 := ⟨fuel - 1, by omega⟩
      obtain ⟨hsame, hph, hsc, hstop, hmx, hsg, hwk⟩ := prePoll_same c n hsegs
      have hst0 := hst.cong hph hsc hstop hmx hsame
      obtain ⟨c', r, hh, hl, ho⟩ := stage_poll ok hst0
      have hpoll := hh.pollT (by rw [hsame.input]; exact hlen)
      have hans0 : ans (prePoll c n none).env.tr = ans c.env.tr := by unfold ans; rw [hsame.rd, hsame.wr]
      unfold Leg1X
      rw [runFeed_succ, prePoll_ne c n j (fun h => hnj h.symm), hpoll]
      cases ho with
      | @fin O1 O2 hO hfin => exact Or.inl ⟨c', rfl, Or.inr ⟨O1, O2, hO, hfin⟩⟩
      | pend hs' hw ha => omega
      | @park O1 O2 hs' hO hp =>
        rcases hl.ts.wk with hw | ⟨_, ha⟩
        · rw [hwk] at hw
          have hsg' : c'.env.segs = [] := hl.segs.trans hsg
          simp only [hw, Bool.false_eq_true, if_false]
          rw [release_nil _ hsg']
          simp only [hw, Bool.false_eq_true, if_false]
          refine Or.inr ⟨{ c' with env := { c'.env with tr := { c'.env.tr with hold := false, woken := false } } }, O1, O2, n, f, hO,
            hp.cong rfl rfl rfl rfl ⟨rfl, rfl, rfl, rfl, rfl, rfl, [], by simp, Quiet.nil⟩, by omega, hsg', ?_, ?_, rfl⟩
          · show ans c'.env.tr ≤ ans c.env.tr
            have := hl.ts.ans_le; omega
          · omega
        · omega
  | succ A ih =>
    intro c n fuel hst hsegs hn hA hf hlen
    by_cases hnj : n = j
    · subst hnj
      obtain ⟨c', h1, h2⟩ := run_at_feedX ok [w] (j := n) (fuel := fuel) hst hsegs (by omega) hlen
      exact Or.inl ⟨c', h1, Or.inl h2⟩
    · obtain ⟨f, rfl⟩ : ∃ f, fuel = f + 1 := ⟨fuel - 1, by omega⟩
      obtain ⟨hsame, hph, hsc, hstop, hmx, hsg, hwk⟩ := prePoll_same c n hsegs
      have hst0 := hst.cong hph hsc hstop hmx hsame
      obtain ⟨c', r, hh, hl, ho⟩ := stage_poll ok hst0
      have hpoll := hh.pollT (by rw [hsame.input]; exact hlen)
      have hans0 : ans (prePoll c n none).env.tr = ans c.env.tr := by unfold ans; rw [hsame.rd, hsame.wr]
      have hsg' : c'.env.segs = [] := hl.segs.trans hsg
      have hlen' : 4 * c'.env.tr.input.length + 17 ≤ 100000 := by
        have := hl.ts.inp
        rw [hsame.input] at this
        omega
      have hale : ans c'.env.tr ≤ ans c.env.tr := by have := hl.ts.ans_le; omega
      unfold Leg1X
      rw [runFeed_succ, prePoll_ne c n j (fun h => hnj h.symm), hpoll]
      cases ho with
      | @fin O1 O2 hO hfin => exact Or.inl ⟨c', rfl, Or.inr ⟨O1, O2, hO, hfin⟩⟩
      | pend hs' hw ha =>
        simp only [hw, if_true]
        rcases ih c' (n + 1) f hs' hsg' (by omega) (by omega) (by omega) hlen' with
          ⟨c2, h1, h2⟩ | ⟨cP, O1, O2, m, f', hO, hp, hm, hsP, haP, hfP, heq⟩
        · exact Or.inl ⟨c2, h1, h2⟩
        · exact Or.inr ⟨cP, O1, O2, m, f', hO, hp, hm, hsP, by omega, by omega, heq⟩
      | @park O1 O2 hs' hO hp =>
        rcases hl.ts.wk with hw | ⟨hw, ha⟩
        · rw [hwk] at hw
          simp only [hw, Bool.false_eq_true, if_false]
          rw [release_nil _ hsg']
          simp only [hw, Bool.false_eq_true, if_false]
          refine Or.inr ⟨{ c' with env := { c'.env with tr := { c'.env.tr with hold := false, woken := false } } }, O1, O2, n, f, hO,
            hp.cong rfl rfl rfl rfl ⟨rfl, rfl, rfl, rfl, rfl, rfl, [], by simp, Quiet.nil⟩, by omega, hsg', ?_, ?_, rfl⟩
          · show ans c'.env.tr ≤ ans c.env.tr
            exact hale
          · omega
        · simp only [hw, if_true]
          rcases ih c' (n + 1) f hs' hsg' (by omega) (by omega) (by omega) hlen' with
            ⟨c2, h1, h2⟩ | ⟨cP, O1, O2, m, f', hO, hp, hm, hsP, haP, hfP, heq⟩
          · exact Or.inl ⟨c2, h1, h2⟩
          · exact Or.inr ⟨cP, O1, O2, m, f', hO, hp, hm, hsP, by omega, by omega, heq⟩

/-! ## The whole run -/

/-- How the run over two requests ends when the flag is raised at poll `j`: during request 1 / before
the client has sent request 2 (`StopOutX g1`), or later — then the complete log of request 1 is in
the write log and the rest is `StopOutX` for request 2 started at that log. -/
def StopOut2X (g1 g2 : E2E.Cfg) (c' : Conn) : Prop :=
  StopOutX g1 c' ∨
  ∃ O1 O2, O1 ++ O2 = g1.Ot ∧ g1.L3 O1 O2 <+: c'.env.tr.wlog ∧ StopOutX (g2.at (g1.L3 O1 O2)) c'

theorem run_stop2X {g1 g2 : E2E.Cfg} (ok1 : g1.OK) (ok2 : g2.OK) (hl : Linked g1 g2) (j : Nat)
    {c : Conn} {n fuel : Nat} (hst : Stage g1 c) (hsegs : c.env.segs = []) (hn : n ≤ j)
    (hf : ans c.env.tr + 3 ≤ fuel) (hlen : 4 * c.env.tr.input.length + 17 ≤ 100000)
    (hlen2 : 4 * g2.W.length + 17 ≤ 100000) :
    ∃ c', runFeed fuel c n (some j) [g2.W] = (c', "RET") ∧ StopOut2X g1 g2 c' := by
  rcases leg1X ok1 j g2.W (ans c.env.tr) c n fuel hst hsegs hn (Nat.le_refl _) (by omega) hlen with
    ⟨c', h1, h2⟩ | ⟨cP, O1, O2, m, f', hO, hp, hm, hsP, haP, hfP, heq⟩
  · exact ⟨c', h1, Or.inl h2⟩
  · have hfe : feedA cP g2.W = E2E.feed cP (g2.at (g1.L3 O1 O2)).W := feedA_eq_feed cP g2.W hp.inp
    have hst2 : Stage (g2.at (g1.L3 O1 O2)) (feedA cP g2.W) := by
      rw [hfe]; exact next_stage (g2 := g2.at (g1.L3 O1 O2)) hp (hl.at_right _) rfl
    have hin2 : (feedA cP g2.W).env.tr.input = g2.W := by
      show cP.env.tr.input ++ g2.W = g2.W
      rw [hp.inp]; rfl
    obtain ⟨c', hrun, hout⟩ := run_stopX (ok2.at (g1.L3 O1 O2)) j (ans cP.env.tr) (feedA cP g2.W) (m + 1) f' hst2
      hsP (by omega) (Nat.le_refl _) (by omega) (by rw [hin2]; exact hlen2)
    refine ⟨c', by rw [heq, runFeed_nil]; exact hrun, Or.inr ⟨O1, O2, hO, ?_, hout⟩⟩
    have hg := Indep3.runTask_grow f' (feedA cP g2.W) (m + 1) (some j)
    rw [hrun] at hg
    obtain ⟨⟨wx, hw⟩, _⟩ := hg
    have hw' : c'.env.tr.wlog = cP.env.tr.wlog ++ wx := hw
    rw [hw', hp.log]
    exact List.prefix_append _ _


end Fcgi.C14E
