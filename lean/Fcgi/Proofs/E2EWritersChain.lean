import Fcgi.Proofs.E2EWriters
import Fcgi.Proofs.E2EUnb
/-!
# The two-writer request of `Proofs/E2EWriters` as a step of a keep-alive chain
-/
namespace Fcgi.E2E
open Fcgi Fcgi.Req Fcgi.Str Fcgi.Async Fcgi.Run Fcgi.Spec Fcgi.C09E

theorem BR2OKW.front {g : Cfg} {W : WList} {n k : Nat} (ok : BR2OKW g W n k) {us : List Rec}
    (hu : LeftOK (alignedBufsize g.b) us) : BR2OKW (g.front us) W n k :=
  ⟨wf_idle ok.wf us hu.1, ok.role, ok.pairs, noiseFits_app hu.2 ok.noise, ok.hb, ok.hf, ok.hp, ok.hX2, ok.hX, ok.hU,
    ok.hs, ok.hfu⟩

/-- the request (KEEP_CONN) started from any `StartAt` of a chain: it ends parked behind its Stdin terminator, which
the stream parser never consumed -/
theorem serve_writers_core {g : Cfg} {W : WList} (ok : BR2OKW g W 0 0) (hk : g.p.flags.toNat % 2 = 1) {left : List Rec}
    (hleft : LeftOK (alignedBufsize g.b) left) {Z : Bytes} (hT : IdleNoise g.term)
    (hZ : GoodNext g.cap g.mc [g.term] Z)
    {Lw : Bytes} {evs : List String} {A0 : Nat} {c : Conn} (n0 fuel : Nat)
    (hLw : Lw = g.L0 ++ idleOwed g.mc left)
    (hstart : StartAt g.cap g.mc left Lw ((g.hscript, true) :: g.more) g.hs0 evs A0 g.W c)
    (hf : A0 + 1 ≤ fuel) :
    ∃ c' O1 O2, runTask fuel c n0 none = (c', "STALL") ∧ O1 ++ O2 = g.Ob ∧ rEvent g.content ∈ c'.env.tr.events ∧
      Waiting g.cap g.mc [g.term] ((g.front left).Lw W O1 O2 ++ idleOwed g.mc [g.term]) g.more (g.hs0 + 1)
        (hsEvent g.p.request :: evs) A0 c' := by
  have okf := ok.front hleft
  obtain ⟨hst, hsg, hem, hans, hev, hin⟩ := fstage_of_startAt hleft hLw hstart
  have hser : serAll [g.term] = g.term.ser := C02.serAll_single _
  have hidle : ∀ e ∈ [g.term], IdleNoise e := fun e he => by rw [List.mem_singleton.1 he]; exact hT
  have hU : (g.front left).U = g.term.ser := ok.hU
  obtain ⟨c', fin, hrun, hres⟩ :=
    run_bufread2W' okf (Z := Z) (by rw [hU, ← hser]; exact hZ.1) (by rw [hU, ← hser]; exact hZ.2)
      .pend evs c n0 fuel hst hem hev hsg (by omega)
  rcases hres with ⟨⟨O1, O2, shown, acc⟩, ⟨hkp0, hO, hcont⟩, hkp, hem', hev', hans', hsg', hend⟩ |
      ⟨_, ⟨O1, O2, _, _, hfu⟩, _, _⟩
  · have hacc : acc = g.content := by
      have : g.content = taken 0 shown ++ acc := hcont
      have h0 : taken 0 shown = [] := by
        clear this hcont hkp
        induction shown with
        | nil => rfl
        | cons s l ih => simpa [taken] using ih
      rw [h0, List.nil_append] at this
      exact this.symm
    rcases hend with ⟨rfl, hp⟩ | ⟨_, hfn⟩
    · obtain ⟨F, hF, hps, hph, hlg⟩ := hp.pst
      have hFe : F = serAll [g.term] := by
        rw [hser, ← hU]; exact List.append_cancel_right hF
      subst hFe
      have hnf : (run .header (serAll [g.term]) g.mc).st.isFinal = false := (run_idle_out g.mc _ hidle).2.2
      have hob : (run .header (serAll [g.term]) (g.front left).mc).out = idleOwed g.mc [g.term] :=
        (run_idle_out g.mc _ hidle).1
      refine ⟨c', O1, O2, hrun, hO, by rw [← hacc]; exact hkp.ev _ (by simp), ⟨hph, hnf, hps.rem, hp.inp, by rw [hlg, hob],
        ⟨(g.front left).Lw W O1 O2, by
          show _ = _ ++ (run .header (serAll [g.term]) (g.front left).mc).out
          rw [hob]⟩, hps.stop, hps.ben, hkp.sc, hkp.mx,
        hkp.hs, ?_, hsg', hem', by omega⟩⟩
      intro s hs
      rcases List.mem_cons.1 hs with rfl | hs
      · exact hkp.ev _ List.mem_cons_self
      · exact hev' s hs
    · rw [hfn.em] at hem'; cases hem'
  · have := hfu.nokeep
    have e : (g.front left).p = g.p := rfl
    rw [e] at this
    omega

end Fcgi.E2E
