import Fcgi.Proofs.E2EUnread3
/-!
# The ignoring stream parser, seen as a Responder's parser reading Stdin

`Proofs/E2EIgnore.lean` views the parser in ignore mode (`stream = None`) as a Filter's parser in
stream 8; that is right as long as no own-id DATA header is met.  After a Filter's `writeable()` the
rest of the wire consists of own-id Data records and noise — there the right view is `view1`: a
RESPONDER's parser in stream 5 (`cmpInputStreams 1 8 (some 5) = lt`: an own-id Data record is passed
over), right as long as no own-id STDIN header is met (`HeadOK1`, `RecsOK1`).  Same development.
-/
namespace Fcgi.E2E
open Fcgi Fcgi.Req Fcgi.Str Fcgi.Async Fcgi.Run Fcgi.Spec

def view1 (p : Str.Parser) : Str.Parser :=
  { p with stream := some 5, request := { p.request with role := 1 } }

def mapv1 : Iter → Iter
  | .cont p d r => .cont (view1 p) d (vS r)
  | .stop p r => .stop (view1 p) (vS r)
  | .err p e => .err (view1 p) e
  | .panic s => .panic s

theorem parsePayload_view1 (p : Str.Parser) (dest : Option Nat) (r : Status) :
    parsePayload (view1 p) dest (vS r) = mapv1 (parsePayload p dest r) := by
  unfold parsePayload
  cases hst : p.state <;> cases dest <;> simp only [view1, vS, hst] <;> (repeat' split) <;> simp_all [mapv1, view1, vS]

/-- the header at the front (if complete) is not that of an own-id Data record -/
def HeadOK1 (id : Nat) (w : Bytes) : Prop :=
  ∀ b0 b1 b2 b3 b4 b5 b6 b7 rest, w = b0 :: b1 :: b2 :: b3 :: b4 :: b5 :: b6 :: b7 :: rest →
    ¬ (b1.toNat = 5 ∧ be16 b2 b3 = id)


theorem cmp_view8 : cmpInputStreams 1 8 (some 5) = some .lt := by decide

theorem parseHead_view1 (p : Str.Parser) (hs : p.stream = none) (hok : HeadOK1 p.request.id p.raw)
    (dest : Option Nat) (r : Status) :
    parseHead (view1 p) dest (vS r) = mapv1 (parseHead p dest r) := by
  by_cases hlen : p.raw.length < 8
  · rw [parseHead_short hlen, parseHead_short (p := view1 p) hlen]; rfl
  · obtain ⟨b0, b1, b2, b3, b4, b5, b6, b7, rest, hraw⟩ := cons8_of_len hlen
    have hno := hok b0 b1 b2 b3 b4 b5 b6 b7 rest hraw
    have hvraw : (view1 p).raw = b0 :: b1 :: b2 :: b3 :: b4 :: b5 :: b6 :: b7 :: rest := hraw
    simp only [parseHead, hraw, hvraw]
    cases hfb : RecordHeader.fromBytes [b0, b1, b2, b3, b4, b5, b6, b7] with
    | none => simp [mapv1, view1, vS]
    | some x =>
      cases x with
      | error e =>
        cases e <;> simp [mapv1, view1, vS]
      | ok head =>
        simp only [hs, cmp_none]
        have hhd : head.rtype = b1.toNat ∧ head.requestId = be16 b2 b3 := by
          simp only [RecordHeader.fromBytes] at hfb
          split at hfb
          · cases hfb
          · split at hfb
            · cases hfb
            · cases hfb; exact ⟨rfl, rfl⟩
        have hvid : (view1 p).request.id = p.request.id := rfl
        have hvrole : (view1 p).request.role = 1 := rfl
        have hvs : (view1 p).stream = some 5 := rfl
        rw [hvid, hvrole, hvs]
        by_cases hc : (RT.isInputStream head.rtype && head.requestId == p.request.id) = true
        · rw [if_pos hc, if_pos hc]
          simp only [Bool.and_eq_true, beq_iff_eq] at hc
          have h8 : head.rtype = 8 := by
            have := hc.1
            simp only [RT.isInputStream, Bool.or_eq_true, beq_iff_eq] at this
            rcases this with h | h
            · exact absurd ⟨by rw [← hhd.1]; exact h, by rw [← hhd.2]; exact hc.2⟩ hno
            · exact h
          rw [h8, cmp_view8]
          rfl
        · rw [if_neg hc, if_neg hc]
          repeat' split
          all_goals rfl


def RecsOK1 (id : Nat) (R : List Rec) : Prop := ∀ r ∈ R, r.WF ∧ ¬ (r.rtype.toNat = 5 ∧ r.id = id)

theorem Pos.headOK1 {id : Nat} {R : List Rec} (hR : RecsOK1 id R) {raw fut : Bytes} (h : Pos R raw 0 0 fut) :
    HeadOK1 id raw := by
  intro b0 b1 b2 b3 b4 b5 b6 b7 rest hraw
  rw [hraw] at h
  obtain ⟨_, r, hr, h1, h2⟩ := h.head (fun r hr => (hR r hr).1)
  rw [h1, h2]
  exact (hR r hr).2

theorem headIgn1 {id : Nat} {R : List Rec} (hR : RecsOK1 id R) {q : Str.Parser} {fut : Bytes}
    (h : Ign id R q fut) (hpay : q.pay = 0) (hpad : q.pad = 0) (d : Option Nat) (r : Status) :
    parseHead (view1 q) d (vS r) = mapv1 (parseHead q d r) ∧ IterIgn id R fut (parseHead q d r) := by
  have hpos : Pos R q.raw 0 0 fut := by have := h.pos; rwa [hpay, hpad] at this
  refine ⟨parseHead_view1 q h.strm (by rw [h.rid]; exact hpos.headOK1 hR) d r, ?_⟩
  have hsh := parseHead_fr q d r
  cases hph : parseHead q d r with
  | cont q' d' r' =>
    rw [hph] at hsh
    obtain ⟨b0, b1, b2, b3, b4, b5, b6, b7, rest, hraw, e1, e2, e3, e4, e5⟩ := hsh
    rw [hraw] at hpos
    obtain ⟨hp', _⟩ := hpos.head (fun r hr => (hR r hr).1)
    exact ⟨e4.trans h.strm, by rw [e5]; exact h.rid, by rw [e1, e2, e3]; exact hp'⟩
  | stop q' r' => rw [hph] at hsh; cases hsh; exact h
  | err q' e => rw [hph] at hsh; cases hsh; exact h
  | panic s => trivial

theorem padHeadIgn1 {id : Nat} {R : List Rec} (hR : RecsOK1 id R) {q : Str.Parser} {fut : Bytes}
    (h : Ign id R q fut) (hpay : q.pay = 0) (d : Option Nat) (r : Status) :
    padHead (view1 q) d (vS r) = mapv1 (padHead q d r) ∧ IterIgn id R fut (padHead q d r) := by
  unfold padHead
  have hvpad : (view1 q).pad = q.pad := rfl
  have hvraw : (view1 q).raw = q.raw := rfl
  rw [hvpad, hvraw]
  have hpos : Pos R q.raw 0 q.pad fut := by have := h.pos; rwa [hpay] at this
  split
  · split
    · rename_i hle
      refine ⟨rfl, h.strm, h.rid, ?_⟩
      show Pos R [] q.pay (q.pad - q.raw.length) fut
      have := hpos.dropPad (k := q.raw.length) hle (Nat.le_refl _)
      rw [List.drop_length] at this
      rw [hpay]; exact this
    · rename_i hgt
      have hq : Ign id R { q with raw := q.raw.drop q.pad, g1 := q.g1 + q.pad, pad := 0 } fut :=
        ⟨h.strm, h.rid, by
          show Pos R (q.raw.drop q.pad) q.pay 0 fut
          have := hpos.dropPad (k := q.pad) (Nat.le_refl _) (by omega)
          rw [Nat.sub_self] at this
          rw [hpay]; exact this⟩
      exact headIgn1 hR hq hpay rfl d r
  · rename_i hpad
    exact headIgn1 hR h hpay (by omega) d r

theorem iter_ign1 {id : Nat} {R : List Rec} (hR : RecsOK1 id R) {p : Str.Parser} {fut : Bytes}
    (h : Ign id R p fut) (dest : Option Nat) (r : Status) :
    iter (view1 p) dest (vS r) = mapv1 (iter p dest r) ∧ IterIgn id R fut (iter p dest r) := by
  rw [iter_eq, iter_eq]
  have hvpay : (view1 p).pay = p.pay := rfl
  rw [hvpay]
  by_cases hpay : p.pay > 0
  · simp only [hpay, if_true]
    rw [parsePayload_view1]
    have hsh := parsePayload_fr p dest r
    cases hpp : parsePayload p dest r with
    | cont q d r' =>
      rw [hpp] at hsh
      obtain ⟨k, k1, k2, e1, e2, e3, e4, e5, e6⟩ := hsh
      have hq : Ign id R q fut := ⟨e5.trans h.strm, by rw [e6]; exact h.rid, by
        rw [e1, e2, e4]; exact h.pos.drop k1 k2⟩
      exact padHeadIgn1 hR hq e3 d r'
    | stop q r' =>
      rw [hpp] at hsh
      obtain ⟨k, k1, k2, e1, e2, e4, e5, e6⟩ := hsh
      exact ⟨rfl, e5.trans h.strm, by rw [e6]; exact h.rid, by rw [e1, e2, e4]; exact h.pos.drop k1 k2⟩
    | err q e => rw [hpp] at hsh; exact hsh.elim
    | panic s => exact ⟨rfl, trivial⟩
  · simp only [hpay, if_false]
    exact padHeadIgn1 hR h (by omega) dest r

/-- how the results of the two loops correspond -/

theorem loop_ign1 {id : Nat} {R : List Rec} (hR : RecsOK1 id R) : ∀ (n : Nat) (p : Str.Parser) (fut : Bytes)
    (dest : Option Nat) (r : Status), p.raw.length ≤ n → Ign id R p fut →
    loop (view1 p) dest (vS r) = (view1 (loop p dest r).1, resv (loop p dest r).2) ∧
      (Ign id R (loop p dest r).1 fut ∨ ∃ s, (loop p dest r).2 = .panic s) := by
  intro n
  induction n with
  | zero =>
    intro p fut dest r hn h
    have he : p.raw = [] := List.length_eq_zero_iff.1 (by omega)
    have hv : (view1 p).raw = [] := he
    rw [loop.eq_1 (view1 p) dest (vS r), loop.eq_1 p dest r]
    simp only [he, hv, List.isEmpty_nil, if_true]
    exact ⟨rfl, Or.inl h⟩
  | succ n ih =>
    intro p fut dest r hn h
    rw [loop.eq_1 (view1 p) dest (vS r), loop.eq_1 p dest r]
    have hvraw : (view1 p).raw = p.raw := rfl
    rw [hvraw]
    by_cases he : p.raw.isEmpty
    · simp only [he, if_true]
      exact ⟨rfl, Or.inl h⟩
    · simp only [he, Bool.false_eq_true, if_false]
      obtain ⟨hv, hi⟩ := iter_ign1 hR h dest r
      rw [hv]
      cases hit : iter p dest r with
      | stop q r' => rw [hit] at hi; exact ⟨rfl, Or.inl hi⟩
      | err q e => rw [hit] at hi; exact ⟨rfl, Or.inl hi⟩
      | panic s => exact ⟨rfl, Or.inr ⟨s, rfl⟩⟩
      | cont q d r' =>
        rw [hit] at hi
        simp only [mapv1]
        have hvq : (view1 q).raw = q.raw := rfl
        rw [hvq]
        by_cases hlt : q.raw.length < p.raw.length
        · simp only [hlt, if_true]
          exact ih q fut d r' (by omega) hi
        · simp only [hlt, if_false]
          exact ⟨rfl, Or.inr ⟨_, rfl⟩⟩

/-- **One `parse` call in ignore mode** (`dest = None`): it does what the view1's call does, and the
framing is kept. -/
theorem parse_ign1 {id : Nat} {R : List Rec} (hR : RecsOK1 id R) {p : Str.Parser} {new fut : Bytes}
    (h : Ign id R p (new ++ fut)) :
    (view1 p).parse new none = (view1 (p.parse new none).1, resv (p.parse new none).2) ∧
      (Ign id R (p.parse new none).1 fut ∨ ∃ s, (p.parse new none).2 = .panic s) := by
  unfold Str.Parser.parse
  have e1 : (view1 p).parsed = p.parsed := rfl
  have e2 : (view1 p).cap = p.cap := rfl
  have e3 : (view1 p).freeStart = p.freeStart := rfl
  simp only [Option.isSome_none, Bool.false_and, Bool.false_eq_true, if_false, e2, e3]
  split
  · exact ⟨rfl, Or.inr ⟨_, rfl⟩⟩
  · have hf : Ign id R { p with raw := p.raw ++ new } fut :=
      ⟨h.strm, h.rid, by
        obtain ⟨c, pd, rs, a, b, c', d⟩ := h.pos
        exact ⟨c, pd, rs, a, b, by rw [List.append_assoc]; exact c', d⟩⟩
    have hs1 : p.stream.isNone = true := by rw [h.strm]; rfl
    have := loop_ign1 hR _ { p with raw := p.raw ++ new } fut none
      { stream := 0, streamEnd := true, output := 0, delivered := [] } (Nat.le_refl _) hf
    rw [hs1]
    exact this

end Fcgi.E2E
