import Fcgi.Proofs.E2EIndep3Conn

/-!
# End-of-file vs. a failing read at the end of the input — the async layer

`em m t`: the transport `t` with its end mode set to `m`.  The model consults the end mode in exactly
one place: a read (into a non-empty buffer, not answered by a scripted `Pending`/error) that finds
the input used up and nothing held back — `eof` answers `Ok(0)`, `err` answers `Err(rdErr)`.  So for
every function `f` of the async model, on `em .eof t` and `em .err t`:

* **same**: both runs are the same up to the mode — `f (em m t) = (…, em m t', …)` for one `t'`; or
* **hit**: the eof run ended in `UnexpectedEof`, the err run in the transport's read error, with the
  same non-transport results and transports related by `Aft` (same input `[]`, log, scripts, flags;
  the traces share everything before the failing read and differ pairwise — `EvPair` — behind it).

Functions that never read (`write`, `flush`, the write loops, `poll_output`, `poll_write`,
`poll_flush`) commute with `em m` outright.
-/
namespace Fcgi.EofErr
open Fcgi Fcgi.Req Fcgi.Str Fcgi.Async Fcgi.Run Fcgi.C12Inv

def em (m : EndMode) (t : Transport) : Transport := { t with endMode := m }
abbrev eo (t : Transport) : Transport := em .eof t
abbrev er (t : Transport) : Transport := em .err t

@[simp] theorem em_input (m : EndMode) (t : Transport) : (em m t).input = t.input := rfl
@[simp] theorem em_wlog (m : EndMode) (t : Transport) : (em m t).wlog = t.wlog := rfl
@[simp] theorem em_events (m : EndMode) (t : Transport) : (em m t).events = t.events := rfl
theorem em_ev (m : EndMode) (t : Transport) (s : String) : (em m t).ev s = em m (t.ev s) := rfl
@[simp] theorem em_rdErr (m : EndMode) (t : Transport) : (em m t).rdErr = t.rdErr := rfl
@[simp] theorem em_em (m m' : EndMode) (t : Transport) : em m (em m' t) = em m t := rfl

/-- a pair of trace events that differ only in how the failing read shows: the transport's own read
event (`R<cap>:0` / `R<cap>:E`), or an event that prints the error kind (`r!…`, `R!…`, `f!…`, `w!…`,
`HE(err:…)`: `f "eof"` / `f "<kind of e>"`) -/
inductive EvPair (e : IoErr) : String → String → Prop
  | read (cap : Nat) : EvPair e s!"R{cap}:0" s!"R{cap}:E"
  | kind (f : String → String) (h1 : isHS (f (showIo .unexpectedEof)) = false) (h2 : isHS (f (showIo e)) = false) :
      EvPair e (f (showIo .unexpectedEof)) (f (showIo e))

theorem EvPair.quiet {e : IoErr} {a b : String} (h : EvPair e a b) : isHS a = false ∧ isHS b = false := by
  cases h with
  | read cap => exact ⟨by simp [isHS, toString_str], by simp [isHS, toString_str]⟩
  | kind f h1 h2 => exact ⟨h1, h2⟩

/-- the two traces share a prefix and differ pairwise behind it -/
def EvR (e : IoErr) (x y : List String) : Prop :=
  ∃ (pre : List String) (ps : List (String × String)), x = pre ++ ps.map (·.1) ∧ y = pre ++ ps.map (·.2) ∧ ps ≠ [] ∧
    ∀ p ∈ ps, EvPair e p.1 p.2

theorem EvR.snoc {e : IoErr} {x y : List String} (h : EvR e x y) {a b : String} (hp : EvPair e a b) :
    EvR e (x ++ [a]) (y ++ [b]) := by
  obtain ⟨pre, ps, hx, hy, hne, hall⟩ := h
  refine ⟨pre, ps ++ [(a, b)], by simp [hx], by simp [hy], by simp, ?_⟩
  intro p hp'
  rcases List.mem_append.1 hp' with h | h
  · exact hall p h
  · rw [List.mem_singleton.1 h]; exact hp

theorem EvR.hs {e : IoErr} {x y : List String} (h : EvR e x y) : hsCount x = hsCount y := by
  obtain ⟨pre, ps, hx, hy, hne, hall⟩ := h
  rw [hx, hy, hsCount_append, hsCount_append]
  congr 1
  clear hx hy hne
  induction ps with
  | nil => rfl
  | cons p ps ih =>
    have hq := (hall p List.mem_cons_self).quiet
    simp only [List.map_cons]
    rw [show (p.1 :: ps.map (·.1)) = [p.1] ++ ps.map (·.1) from rfl,
      show (p.2 :: ps.map (·.2)) = [p.2] ++ ps.map (·.2) from rfl, hsCount_append, hsCount_append,
      hsCount_single_false hq.1, hsCount_single_false hq.2, ih (fun q hq => hall q (List.mem_cons_of_mem _ hq))]

/-- the transports of the two runs behind the failing read -/
structure Aft (a b : Transport) : Prop where
  inpa : a.input = []
  inpb : b.input = []
  wlog : b.wlog = a.wlog
  rd : b.rd = a.rd
  wr : b.wr = a.wr
  fl : b.fl = a.fl
  hold : b.hold = a.hold
  woken : b.woken = a.woken
  rw : b.readWaker = a.readWaker
  ak : b.abortKind = a.abortKind
  ema : a.endMode = .eof
  emb : b.endMode = .err
  ev : EvR a.rdErr a.events b.events

theorem Aft.rdErr {a b : Transport} (h : Aft a b) : b.rdErr = a.rdErr := by
  unfold Transport.rdErr; rw [h.ak]

theorem Aft.snoc {a b : Transport} (h : Aft a b) {x y : String} (hp : EvPair a.rdErr x y) : Aft (a.ev x) (b.ev y) :=
  ⟨h.inpa, h.inpb, h.wlog, h.rd, h.wr, h.fl, h.hold, h.woken, h.rw, h.ak, h.ema, h.emb, h.ev.snoc hp⟩

/-! ## The primitives -/

theorem writeV_em (m : EndMode) (t : Transport) (sl : List Bytes) (tag : String) :
    (em m t).writeV sl tag = (em m (t.writeV sl tag).1, (t.writeV sl tag).2) := by
  obtain ⟨input, endMode, rd, wr, fl, wlog, events, hold, woken, readWaker, abortKind⟩ := t
  unfold Transport.writeV em
  simp only
  repeat' split
  all_goals first | rfl | simp_all [Transport.ev, Transport.wrErr]

theorem write_em (m : EndMode) (t : Transport) (buf : Bytes) :
    (em m t).write buf = (em m (t.write buf).1, (t.write buf).2) := writeV_em m t [buf] "W"

theorem flush_em (m : EndMode) (t : Transport) : (em m t).flush = (em m t.flush.1, t.flush.2) := by
  obtain ⟨input, endMode, rd, wr, fl, wlog, events, hold, woken, readWaker, abortKind⟩ := t
  unfold Transport.flush em
  simp only
  repeat' split
  all_goals first | rfl | simp_all [Transport.ev, Transport.flErr]

/-- `read` behind the choice of the scripted answer `a` (`t` already without it) -/
def readA (a : RdAns) (t : Transport) (cap : Nat) : Transport × Poll (Except IoErr Bytes) :=
  match a with
  | .pending => ({ t with woken := true }.ev s!"R{cap}:P", .pending)
  | .err => (t.ev s!"R{cap}:E", .ready (.error t.rdErr))
  | _ =>
    if t.input.isEmpty then
      if t.hold then ({ t with readWaker := true }.ev s!"R{cap}:W", .pending) else
      match t.endMode with
      | .eof => (t.ev s!"R{cap}:0", .ready (.ok []))
      | .pend => ({ t with readWaker := true }.ev s!"R{cap}:W", .pending)
      | .err => (t.ev s!"R{cap}:E", .ready (.error t.rdErr))
    else
      let k := match a with | .n k => min (max k 1) (min cap t.input.length) | _ => min cap t.input.length
      ({ t with input := t.input.drop k }.ev s!"R{cap}:{k}", .ready (.ok (t.input.take k)))

theorem read_unf (t : Transport) (cap : Nat) :
    t.read cap = if cap == 0 then (t.ev "R0:0", .ready (.ok []))
      else readA (t.rd.headD .all) { t with rd := t.rd.tail } cap := by
  obtain ⟨input, endMode, rd, wr, fl, wlog, events, hold, woken, readWaker, abortKind⟩ := t
  cases rd <;> rfl

theorem readA_dich (a : RdAns) (t : Transport) (cap : Nat) :
    (∃ t' r, readA a (eo t) cap = (eo t', r) ∧ readA a (er t) cap = (er t', r)) ∨
    (∃ t1 t2, readA a (eo t) cap = (t1, .ready (.ok [])) ∧ readA a (er t) cap = (t2, .ready (.error t2.rdErr)) ∧
      Aft t1 t2) := by
  obtain ⟨input, endMode, rd, wr, fl, wlog, events, hold, woken, readWaker, abortKind⟩ := t
  have key : ∀ (a : RdAns), a ≠ .pending → a ≠ .err →
      (∃ t' r, readA a (eo ⟨input, endMode, rd, wr, fl, wlog, events, hold, woken, readWaker, abortKind⟩) cap = (eo t', r) ∧
        readA a (er ⟨input, endMode, rd, wr, fl, wlog, events, hold, woken, readWaker, abortKind⟩) cap = (er t', r)) ∨
      (∃ t1 t2, readA a (eo ⟨input, endMode, rd, wr, fl, wlog, events, hold, woken, readWaker, abortKind⟩) cap =
          (t1, .ready (.ok [])) ∧
        readA a (er ⟨input, endMode, rd, wr, fl, wlog, events, hold, woken, readWaker, abortKind⟩) cap =
          (t2, .ready (.error t2.rdErr)) ∧ Aft t1 t2) := by
    intro a hp he
    cases input with
    | nil =>
      cases hold with
      | true =>
        left
        refine ⟨({ (⟨[], endMode, rd, wr, fl, wlog, events, true, woken, readWaker, abortKind⟩ : Transport) with
          readWaker := true }).ev s!"R{cap}:W", .pending, ?_, ?_⟩ <;>
        · cases a <;> first | exact absurd rfl hp | exact absurd rfl he | rfl
      | false =>
        right
        refine ⟨(⟨[], .eof, rd, wr, fl, wlog, events, false, woken, readWaker, abortKind⟩ : Transport).ev s!"R{cap}:0",
          (⟨[], .err, rd, wr, fl, wlog, events, false, woken, readWaker, abortKind⟩ : Transport).ev s!"R{cap}:E", ?_, ?_,
          ⟨rfl, rfl, rfl, rfl, rfl, rfl, rfl, rfl, rfl, rfl, rfl, rfl, ?_⟩⟩
        · cases a <;> first | exact absurd rfl hp | exact absurd rfl he | rfl
        · cases a <;> first | exact absurd rfl hp | exact absurd rfl he | rfl
        · exact ⟨events, [(s!"R{cap}:0", s!"R{cap}:E")], rfl, rfl, by simp, fun p hp' => by
            rw [List.mem_singleton.1 hp']; exact .read cap⟩
    | cons b bs =>
      left
      refine ⟨({ (⟨b :: bs, endMode, rd, wr, fl, wlog, events, hold, woken, readWaker, abortKind⟩ : Transport) with
          input := (b :: bs).drop (match a with | .n k => min (max k 1) (min cap (b :: bs).length) | _ => min cap (b :: bs).length) }).ev
          s!"R{cap}:{(match a with | .n k => min (max k 1) (min cap (b :: bs).length) | _ => min cap (b :: bs).length)}",
        .ready (.ok ((b :: bs).take (match a with | .n k => min (max k 1) (min cap (b :: bs).length) | _ => min cap (b :: bs).length))),
        ?_, ?_⟩ <;>
      · cases a <;> first | exact absurd rfl hp | exact absurd rfl he | rfl
  cases a with
  | pending =>
    left
    exact ⟨({ (⟨input, endMode, rd, wr, fl, wlog, events, hold, woken, readWaker, abortKind⟩ : Transport) with
      woken := true }).ev s!"R{cap}:P", .pending, rfl, rfl⟩
  | err =>
    left
    exact ⟨(⟨input, endMode, rd, wr, fl, wlog, events, hold, woken, readWaker, abortKind⟩ : Transport).ev s!"R{cap}:E",
      .ready (.error (⟨input, endMode, rd, wr, fl, wlog, events, hold, woken, readWaker, abortKind⟩ : Transport).rdErr),
      rfl, rfl⟩
  | all => exact key .all (by simp) (by simp)
  | n k => exact key (.n k) (by simp) (by simp)

/-- **The one place where the end mode matters.** -/
theorem read_dich (t : Transport) (cap : Nat) :
    (∃ t' r, (eo t).read cap = (eo t', r) ∧ (er t).read cap = (er t', r)) ∨
    (∃ t1 t2, (eo t).read cap = (t1, .ready (.ok [])) ∧ (er t).read cap = (t2, .ready (.error t2.rdErr)) ∧
      Aft t1 t2) := by
  rw [read_unf, read_unf]
  by_cases hc : (cap == 0) = true
  · simp only [hc, if_true]
    exact Or.inl ⟨t.ev "R0:0", _, rfl, rfl⟩
  · simp only [hc, Bool.false_eq_true, if_false]
    exact readA_dich (t.rd.headD .all) { t with rd := t.rd.tail } cap

/-! ## Functions that never read commute with `em m` -/

theorem writeAllLoop_em (m : EndMode) : ∀ (fuel : Nat) (buf : Bytes) (t : Transport),
    writeAllLoop fuel buf (em m t) =
      ((writeAllLoop fuel buf t).1, em m (writeAllLoop fuel buf t).2.1, (writeAllLoop fuel buf t).2.2)
  | 0, _, _ => rfl
  | fuel + 1, buf, t => by
    simp only [writeAllLoop]
    by_cases hb : buf.isEmpty = true
    · simp only [hb, if_true]
    · simp only [hb, Bool.false_eq_true, if_false]
      rw [write_em]
      rcases hw : t.write buf with ⟨t1, r⟩
      simp only
      cases r with
      | pending => rfl
      | ready x =>
        cases x with
        | error e => rfl
        | ok n =>
          cases n with
          | zero => rfl
          | succ n => simp only; exact writeAllLoop_em m fuel _ t1

theorem outLoop_em (m : EndMode) : ∀ (fuel : Nat) (sp : Str.Parser) (t : Transport),
    outLoop fuel sp (em m t) = ((outLoop fuel sp t).1, em m (outLoop fuel sp t).2.1, (outLoop fuel sp t).2.2)
  | 0, _, _ => rfl
  | fuel + 1, sp, t => by
    simp only [outLoop]
    by_cases hb : sp.output.isEmpty = true
    · simp only [hb, if_true]
    · simp only [hb, Bool.false_eq_true, if_false]
      rw [write_em]
      rcases hw : t.write sp.output with ⟨t1, r⟩
      simp only
      cases r with
      | pending => rfl
      | ready x =>
        cases x with
        | error e => rfl
        | ok n =>
          cases n with
          | zero => rfl
          | succ n => simp only; exact outLoop_em m fuel _ t1

theorem pollOutput_em (mo : EndMode) (r : AReq) (m : MutexSt) (t : Transport) :
    r.pollOutput m (em mo t) =
      ((r.pollOutput m t).1, (r.pollOutput m t).2.1, em mo (r.pollOutput m t).2.2.1, (r.pollOutput m t).2.2.2) := by
  simp only [AReq.pollOutput]
  split
  · split <;> rfl
  · rcases lockPoll (if r.lock == .none then LockSt.polling else r.lock) m 0 with ⟨l, m1, got⟩
    simp only
    cases got with
    | false => rfl
    | true =>
      simp only [Bool.not_true, Bool.false_eq_true, if_false]
      rw [outLoop_em]
      rcases outLoop (r.sp.output.length + 1) r.sp t with ⟨sp1, t1, o⟩
      cases o <;> rfl

theorem writeLoop_em (m : EndMode) : ∀ (fuel : Nat) (w : Writer) (head buf : Bytes) (t : Transport),
    writeLoop fuel w head buf (em m t) =
      ((writeLoop fuel w head buf t).1, em m (writeLoop fuel w head buf t).2.1, (writeLoop fuel w head buf t).2.2)
  | 0, _, _, _, _ => rfl
  | fuel + 1, w, head, buf, t => by
    simp only [writeLoop]
    split
    · rfl
    · split
      · rfl
      · rw [writeV_em]
        rcases hw : t.writeV [head.drop w.headIdx, buf.drop (buf.length - w.contentLen), zeros w.padLen] "V" with ⟨t1, r⟩
        simp only
        cases r with
        | pending => rfl
        | ready x =>
          cases x with
          | error e => rfl
          | ok n =>
            cases n with
            | zero => rfl
            | succ n =>
              simp only
              split
              · rfl
              · exact writeLoop_em m fuel _ head buf t1

theorem pollWrite_em (mo : EndMode) (w : Writer) (me : Nat) (buf : Bytes) (m : MutexSt) (t : Transport) :
    w.pollWrite me buf m (em mo t) =
      ((w.pollWrite me buf m t).1, (w.pollWrite me buf m t).2.1, em mo (w.pollWrite me buf m t).2.2.1,
        (w.pollWrite me buf m t).2.2.2) := by
  simp only [Writer.pollWrite]
  split
  · rfl
  · split
    · rfl
    · rename_i w1 _
      split
      · rfl
      · split
        · rfl
        · rcases lockPoll w1.lock m (me + 1) with ⟨l, m1, got⟩
          simp only
          cases got with
          | false => rfl
          | true =>
            simp only [Bool.not_true, Bool.false_eq_true, if_false]
            rw [writeLoop_em]
            rcases writeLoop _ _ _ _ t with ⟨w2, t2, rr⟩
            cases rr <;> rfl

theorem pollFlush_em (mo : EndMode) (w : Writer) (me : Nat) (m : MutexSt) (t : Transport) :
    w.pollFlush me m (em mo t) =
      ((w.pollFlush me m t).1, (w.pollFlush me m t).2.1, em mo (w.pollFlush me m t).2.2.1,
        (w.pollFlush me m t).2.2.2) := by
  simp only [Writer.pollFlush]
  split
  · rfl
  · rcases lockPoll (if w.lock == .none then LockSt.polling else w.lock) m (me + 1) with ⟨l, m1, got⟩
    simp only
    cases got with
    | false => rfl
    | true =>
      simp only [Bool.not_true, Bool.false_eq_true, if_false]
      rw [flush_em]
      rcases t.flush with ⟨t1, r⟩
      cases r with
      | pending => rfl
      | ready x => cases x <;> rfl

/-! ## `poll_input` -/

/-- how the eof run `x` and the err run `y` of a function returning `(request, mutex, transport, result)` compare -/
def DI (x y : AReq × MutexSt × Transport × IRes) : Prop :=
  (∃ r m t res, x = (r, m, eo t, res) ∧ y = (r, m, er t, res)) ∨
  (∃ r m t1 t2, x = (r, m, t1, .err .unexpectedEof) ∧ y = (r, m, t2, .err t2.rdErr) ∧ Aft t1 t2)

open Fcgi.Indep3 (inCont inLoop_succ piMain pollInput_eq)

theorem inCont_dich (ih : ∀ (r : AReq) (new : Bytes) (dest : Option Nat) (m : MutexSt) (t : Transport),
      DI (inLoop n r new dest m (eo t)) (inLoop n r new dest m (er t)))
    (r : AReq) (dest : Option Nat) (m : MutexSt) (t : Transport) :
    DI (inCont n r dest m (eo t)) (inCont n r dest m (er t)) := by
  simp only [inCont]
  rcases read_dich t r.sp.free with ⟨t', rr, h1, h2⟩ | ⟨t1, t2, h1, h2, ha⟩
  · rw [h1, h2]
    cases rr with
    | pending => exact Or.inl ⟨r, m, t', _, rfl, rfl⟩
    | ready x =>
      cases x with
      | error e => exact Or.inl ⟨r, m, t', _, rfl, rfl⟩
      | ok bs =>
        cases bs with
        | nil => exact Or.inl ⟨r, m, t', _, rfl, rfl⟩
        | cons b bs => exact ih _ _ _ _ _
  · rw [h1, h2]
    exact Or.inr ⟨r, m, t1, t2, rfl, rfl, ha⟩

theorem inLoop_dich : ∀ (fuel : Nat) (r : AReq) (new : Bytes) (dest : Option Nat) (m : MutexSt) (t : Transport),
    DI (inLoop fuel r new dest m (eo t)) (inLoop fuel r new dest m (er t)) := by
  intro fuel
  induction fuel with
  | zero => intro r new dest m t; exact Or.inl ⟨r, m, t, _, rfl, rfl⟩
  | succ n ih =>
    intro r new dest m t
    rw [inLoop_succ, inLoop_succ]
    rcases r.sp.parse new dest with ⟨sp, pr⟩
    cases pr with
    | panic s => exact Or.inl ⟨_, m, t, _, rfl, rfl⟩
    | err e => exact Or.inl ⟨_, m, t, _, rfl, rfl⟩
    | ok st =>
      simp only
      by_cases hc : (st.streamEnd || decide (st.stream > 0)) = true
      · simp only [hc, if_true]
        exact Or.inl ⟨_, m, t, _, rfl, rfl⟩
      · simp only [hc, Bool.false_eq_true, if_false]
        rw [pollOutput_em, pollOutput_em]
        rcases AReq.pollOutput { r with sp := sp.compress } m t with ⟨r3, m3, t3, o⟩
        cases o with
        | pending => exact Or.inl ⟨r3, m3, t3, _, rfl, rfl⟩
        | err e => exact Or.inl ⟨r3, m3, t3, _, rfl, rfl⟩
        | panic s => exact Or.inl ⟨r3, m3, t3, _, rfl, rfl⟩
        | ready => exact inCont_dich ih r3 dest m3 t3

theorem piMain_dich (r : AReq) (dest : Option Nat) (m : MutexSt) (t : Transport) :
    DI (piMain r dest m (eo t)) (piMain r dest m (er t)) := by
  simp only [piMain]
  rw [pollOutput_em, pollOutput_em]
  rcases r.pollOutput m t with ⟨r3, m3, t3, o⟩
  cases o with
  | pending => exact Or.inl ⟨r3, m3, t3, _, rfl, rfl⟩
  | err e => exact Or.inl ⟨r3, m3, t3, _, rfl, rfl⟩
  | panic s => exact Or.inl ⟨r3, m3, t3, _, rfl, rfl⟩
  | ready => exact inLoop_dich _ r3 [] dest m3 t3

theorem pollInput_dich (r : AReq) (dest : Option Nat) (m : MutexSt) (t : Transport) :
    DI (r.pollInput dest m (eo t)) (r.pollInput dest m (er t)) := by
  rw [pollInput_eq, pollInput_eq]
  split
  · exact Or.inl ⟨r, m, t, _, rfl, rfl⟩
  · exact Or.inl ⟨r, m, t, _, rfl, rfl⟩
  · exact Or.inl ⟨_, m, t, _, rfl, rfl⟩
  · exact piMain_dich _ _ _ _

/-- `writeable()` -/
def DW (x y : AReq × Bool × MutexSt × Transport × ORes) : Prop :=
  (∃ r b m t res, x = (r, b, m, eo t, res) ∧ y = (r, b, m, er t, res)) ∨
  (∃ r b m t1 t2, x = (r, b, m, t1, .err .unexpectedEof) ∧ y = (r, b, m, t2, .err t2.rdErr) ∧ Aft t1 t2)

theorem writeablePoll_dich (r : AReq) (started : Bool) (m : MutexSt) (t : Transport) :
    DW (r.writeablePoll started m (eo t)) (r.writeablePoll started m (er t)) := by
  unfold AReq.writeablePoll
  by_cases hc : (!started && r.writeable) = true
  · simp only [hc, if_true]; exact Or.inl ⟨r, true, m, t, _, rfl, rfl⟩
  · simp only [hc, Bool.false_eq_true, if_false]
    split
    · exact Or.inl ⟨r, true, m, t, _, rfl, rfl⟩
    · rename_i r0 _
      rcases pollInput_dich r0 none m t with ⟨r3, m3, t3, ri, h1, h2⟩ | ⟨r3, m3, t1, t2, h1, h2, ha⟩
      · rw [h1, h2]
        cases ri <;> exact Or.inl ⟨r3, true, m3, t3, _, rfl, rfl⟩
      · rw [h1, h2]
        exact Or.inr ⟨r3, true, m3, t1, t2, rfl, rfl, ha⟩

/-! ## The handler -/

def emE (m : EndMode) (e : Env) : Env := { e with tr := em m e.tr }

theorem Aft.snocK {a b : Transport} (h : Aft a b) (f : String → String)
    (h1 : isHS (f (showIo .unexpectedEof)) = false) (h2 : ∀ x, isHS (f (showIo x)) = false) :
    Aft (a.ev (f (showIo .unexpectedEof))) (b.ev (f (showIo b.rdErr))) := by
  rw [h.rdErr]
  exact h.snoc (.kind f h1 (h2 _))

def accOf (sub : HSub) : Bytes :=
  match sub with
  | .readAllAcc a => a
  | _ => []

theorem hp_readAll' (fuel : Nat) (r : AReq) (rest : List HOp) (sub : HSub) (ws : List (Option Writer)) (e : Run.Env) :
    handlerPoll (fuel + 1) r { ops := .readAll :: rest, sub := sub, writers := ws, propagate := true } e =
      match r.pollInput (some 64) e.mutex e.tr with
      | (r, m, t, .pending) =>
        (r, { ops := .readAll :: rest, sub := .readAllAcc (accOf sub), writers := ws, propagate := true },
          { e with mutex := m, tr := t }, .pending)
      | (r, m, t, .ready 0 _) =>
        handlerPoll fuel r { ops := rest, sub := .fresh, writers := ws, propagate := true }
          ({ e with mutex := m, tr := t }.ev s!"R={(accOf sub).length}:{hexOrDash (accOf sub)}")
      | (r, m, t, .ready _ d) =>
        handlerPoll fuel r { ops := .readAll :: rest, sub := .readAllAcc (accOf sub ++ d), writers := ws, propagate := true }
          { e with mutex := m, tr := t }
      | (r, m, t, .err x) =>
        (r, { ops := rest, sub := .fresh, writers := ws, propagate := true },
          ({ e with mutex := m, tr := t }.ev s!"R!{showIo x}:{(accOf sub).length}:{hexOrDash (accOf sub)}"), .done (.error x))
      | (r, m, t, .panic s) =>
        (r, { ops := .readAll :: rest, sub := sub, writers := ws, propagate := true }, { e with mutex := m, tr := t }, .panic s) := by
  simp only [handlerPoll, accOf]
  cases sub <;> rfl

theorem isHS_Rbang (k : String) (n : Nat) (h : String) : isHS s!"R!{k}:{n}:{h}" = false := by
  simp [isHS, toString_str]

/-- the eof run and the err run of one poll of a (propagating) handler -/
def DH (x y : AReq × HState × Env × HRes) : Prop :=
  (∃ r h e res, x = (r, h, emE .eof e, res) ∧ y = (r, h, emE .err e, res)) ∨
  (∃ r h e1 e2, x = (r, h, e1, .done (.error .unexpectedEof)) ∧ y = (r, h, e2, .done (.error e2.tr.rdErr)) ∧
    e2.mutex = e1.mutex ∧ e2.segs = e1.segs ∧ Aft e1.tr e2.tr)

open Fcgi.Indep3 (restOf hp_writeAll')

theorem handlerPoll_dich : ∀ (fuel : Nat) (r : AReq) (h : HState) (e : Env), h.propagate = true →
    DH (handlerPoll fuel r h (emE .eof e)) (handlerPoll fuel r h (emE .err e)) := by
  intro fuel
  induction fuel with
  | zero => intro r h e _; exact Or.inl ⟨r, h, e, _, rfl, rfl⟩
  | succ n ih =>
    intro r h e hpr
    have ihA : ∀ (r : AReq) (h : HState) (e : Env) (m : MutexSt) (t : Transport), h.propagate = true →
        DH (handlerPoll n r h { e with mutex := m, tr := eo t }) (handlerPoll n r h { e with mutex := m, tr := er t }) :=
      fun r h e m t hp => ih r h { e with mutex := m, tr := t } hp
    have ihB : ∀ (r : AReq) (h : HState) (e : Env) (m : MutexSt) (t : Transport) (s : String), h.propagate = true →
        DH (handlerPoll n r h ({ e with mutex := m, tr := eo t }.ev s))
          (handlerPoll n r h ({ e with mutex := m, tr := er t }.ev s)) :=
      fun r h e m t s hp => by
        have := ih r h (Env.ev { e with mutex := m, tr := t } s) hp
        exact this
    obtain ⟨ops, sub, ws, pr⟩ := h
    simp only at hpr
    subst hpr
    cases ops with
    | nil => exact Or.inl ⟨r, _, e, _, rfl, rfl⟩
    | cons op rest =>
      cases op with
      | ret st => exact Or.inl ⟨r, _, e, _, rfl, rfl⟩
      | retErr x => exact Or.inl ⟨r, _, e, _, rfl, rfl⟩
      | consume k => simp only [handlerPoll]; exact ih _ _ e (by rfl)
      | setStream ty =>
        simp only [handlerPoll]
        cases hs : r.setStream ty with
        | none => exact Or.inl ⟨r, _, e, _, rfl, rfl⟩
        | some r1 => exact ih _ _ (e.ev "s=ok") (by rfl)
      | open_ ty =>
        simp only [handlerPoll]
        split
        · exact Or.inl ⟨r, _, e, _, rfl, rfl⟩
        · exact ih _ _ (e.ev _) (by rfl)
      | dropW i =>
        simp only [handlerPoll]
        cases hw : ws.getD i none with
        | none => exact ih _ _ e (by rfl)
        | some w => exact ih _ _ { e with mutex := lockDrop w.lock e.mutex } (by rfl)
      | read k =>
        simp only [handlerPoll, emE]
        rcases pollInput_dich r (some k) e.mutex e.tr with ⟨r3, m3, t3, ri, h1, h2⟩ | ⟨r3, m3, t1, t2, h1, h2, ha⟩
        · rw [h1, h2]
          cases ri with
          | pending => exact Or.inl ⟨r3, _, { e with mutex := m3, tr := t3 }, _, rfl, rfl⟩
          | ready kk d => exact ihB _ _ _ _ _ _ (by rfl)
          | err x => simp only [if_true]; exact Or.inl ⟨r3, _, ({ e with mutex := m3, tr := t3 }.ev _), _, rfl, rfl⟩
          | panic s => exact Or.inl ⟨r3, _, { e with mutex := m3, tr := t3 }, _, rfl, rfl⟩
        · rw [h1, h2]
          simp only [if_true]
          exact Or.inr ⟨r3, _, _, _, rfl, rfl, rfl, rfl,
            ha.snocK (fun k => s!"r!{k}") (by simp [isHS, toString_str]) (fun x => by simp [isHS, toString_str])⟩
      | fill =>
        simp only [handlerPoll, emE]
        rcases pollInput_dich r none e.mutex e.tr with ⟨r3, m3, t3, ri, h1, h2⟩ | ⟨r3, m3, t1, t2, h1, h2, ha⟩
        · rw [h1, h2]
          cases ri with
          | pending => exact Or.inl ⟨r3, _, { e with mutex := m3, tr := t3 }, _, rfl, rfl⟩
          | ready kk d => exact ihB _ _ _ _ _ _ (by rfl)
          | err x => simp only [if_true]; exact Or.inl ⟨r3, _, ({ e with mutex := m3, tr := t3 }.ev _), _, rfl, rfl⟩
          | panic s => exact Or.inl ⟨r3, _, { e with mutex := m3, tr := t3 }, _, rfl, rfl⟩
        · rw [h1, h2]
          simp only [if_true]
          exact Or.inr ⟨r3, _, _, _, rfl, rfl, rfl, rfl,
            ha.snocK (fun k => s!"f!{k}") (by simp [isHS, toString_str]) (fun x => by simp [isHS, toString_str])⟩
      | readAll =>
        rw [hp_readAll', hp_readAll']
        simp only [emE]
        generalize accOf sub = acc
        rcases pollInput_dich r (some 64) e.mutex e.tr with ⟨r3, m3, t3, ri, h1, h2⟩ | ⟨r3, m3, t1, t2, h1, h2, ha⟩
        · rw [h1, h2]
          cases ri with
          | pending => exact Or.inl ⟨r3, _, { e with mutex := m3, tr := t3 }, _, rfl, rfl⟩
          | ready kk d =>
            cases kk with
            | zero => exact ihB _ _ _ _ _ _ (by rfl)
            | succ kk => exact ihA _ _ _ _ _ (by rfl)
          | err x => simp only [if_true]; exact Or.inl ⟨r3, _, ({ e with mutex := m3, tr := t3 }.ev _), _, rfl, rfl⟩
          | panic s => exact Or.inl ⟨r3, _, { e with mutex := m3, tr := t3 }, _, rfl, rfl⟩
        · rw [h1, h2]
          simp only [if_true]
          exact Or.inr ⟨r3, _, _, _, rfl, rfl, rfl, rfl,
            ha.snocK (fun k => s!"R!{k}:{acc.length}:{hexOrDash acc}")
              (isHS_Rbang _ _ _) (fun x => isHS_Rbang _ _ _)⟩
      | writeable =>
        simp only [handlerPoll, emE]
        rcases writeablePoll_dich r (sub == .writeableStarted) e.mutex e.tr with
          ⟨r3, b3, m3, t3, ri, h1, h2⟩ | ⟨r3, b3, m3, t1, t2, h1, h2, ha⟩
        · rw [h1, h2]
          cases ri with
          | pending => exact Or.inl ⟨r3, _, { e with mutex := m3, tr := t3 }, _, rfl, rfl⟩
          | ready => exact ihB _ _ _ _ _ _ (by rfl)
          | err x => simp only [if_true]; exact Or.inl ⟨r3, _, ({ e with mutex := m3, tr := t3 }.ev _), _, rfl, rfl⟩
          | panic s => exact Or.inl ⟨r3, _, { e with mutex := m3, tr := t3 }, _, rfl, rfl⟩
        · rw [h1, h2]
          simp only [if_true]
          exact Or.inr ⟨r3, _, _, _, rfl, rfl, rfl, rfl,
            ha.snocK (fun k => s!"w!{k}") (by simp [isHS, toString_str]) (fun x => by simp [isHS, toString_str])⟩
      | writeAll i data =>
        cases hw : ws.getD i none with
        | none => simp only [handlerPoll, hw]; exact ih _ _ (e.ev _) (by rfl)
        | some w =>
          rw [hp_writeAll' _ _ _ _ _ _ _ _ hw, hp_writeAll' _ _ _ _ _ _ _ _ hw]
          split
          · exact ih _ _ (e.ev _) (by rfl)
          · simp only [emE]
            rw [pollWrite_em, pollWrite_em]
            rcases w.pollWrite i (restOf sub data) e.mutex e.tr with ⟨w3, m3, t3, rr⟩
            cases rr with
            | pending => exact Or.inl ⟨r, _, { e with mutex := m3, tr := t3 }, _, rfl, rfl⟩
            | ready k =>
              cases k with
              | zero => exact Or.inl ⟨r, _, ({ e with mutex := m3, tr := t3 }.ev _), _, rfl, rfl⟩
              | succ k => exact ihA _ _ _ _ _ (by rfl)
            | err x => exact Or.inl ⟨r, _, ({ e with mutex := m3, tr := t3 }.ev _), _, rfl, rfl⟩
            | panic s => exact Or.inl ⟨r, _, { e with mutex := m3, tr := t3 }, _, rfl, rfl⟩
      | flush i =>
        simp only [handlerPoll]
        cases hw : ws.getD i none with
        | none => exact ih _ _ (e.ev _) (by rfl)
        | some w =>
          simp only [emE]
          rw [pollFlush_em, pollFlush_em]
          rcases w.pollFlush i e.mutex e.tr with ⟨w3, m3, t3, rr⟩
          cases rr with
          | pending => exact Or.inl ⟨r, _, { e with mutex := m3, tr := t3 }, _, rfl, rfl⟩
          | ready k => exact ihB _ _ _ _ _ _ (by rfl)
          | err x => simp only [if_true]; exact Or.inl ⟨r, _, ({ e with mutex := m3, tr := t3 }.ev _), _, rfl, rfl⟩
          | panic s => exact Or.inl ⟨r, _, { e with mutex := m3, tr := t3 }, _, rfl, rfl⟩

/-! ## `close` -/

def D3 (x y : Str.Parser × Transport × ORes) : Prop :=
  (∃ sp t res, x = (sp, eo t, res) ∧ y = (sp, er t, res)) ∨
  (∃ sp t1 t2, x = (sp, t1, .err .unexpectedEof) ∧ y = (sp, t2, .err t2.rdErr) ∧ Aft t1 t2)

theorem boundaryLoop_dich : ∀ (fuel : Nat) (sp : Str.Parser) (new : Bytes) (t : Transport),
    D3 (boundaryLoop fuel sp new (eo t)) (boundaryLoop fuel sp new (er t)) := by
  intro fuel
  induction fuel with
  | zero => intro sp new t; simp only [boundaryLoop]; exact Or.inl ⟨sp, t, _, rfl, rfl⟩
  | succ n ih =>
    intro sp new t
    have hcont : ∀ (sp1 : Str.Parser), D3 (boundaryLoop.cont sp1 (eo t) n) (boundaryLoop.cont sp1 (er t) n) := by
      intro sp1
      simp only [boundaryLoop.cont]
      split
      · exact Or.inl ⟨sp1, t, _, rfl, rfl⟩
      · split
        · exact Or.inl ⟨sp1, t, _, rfl, rfl⟩
        · rcases read_dich t sp1.compress.free with ⟨t', rr, h1, h2⟩ | ⟨t1, t2, h1, h2, ha⟩
          · rw [h1, h2]
            cases rr with
            | pending => exact Or.inl ⟨_, t', _, rfl, rfl⟩
            | ready x =>
              cases x with
              | error e => exact Or.inl ⟨_, t', _, rfl, rfl⟩
              | ok bs =>
                cases bs with
                | nil => exact Or.inl ⟨_, t', _, rfl, rfl⟩
                | cons b bs => exact ih _ _ _
          · rw [h1, h2]
            exact Or.inr ⟨_, t1, t2, rfl, rfl, ha⟩
    simp only [boundaryLoop]
    rcases sp.parse new none with ⟨sp1, res⟩
    cases res with
    | panic s => exact Or.inl ⟨sp1, t, _, rfl, rfl⟩
    | err e =>
      simp only
      split
      · exact hcont sp1
      · exact Or.inl ⟨sp1, t, _, rfl, rfl⟩
    | ok st => exact hcont sp1

theorem closeBoundary_dich (sp : Str.Parser) (resume : Bool) (t : Transport) :
    D3 (closeBoundary sp resume (eo t)) (closeBoundary sp resume (er t)) := by
  simp only [closeBoundary]
  cases resume with
  | true =>
    simp only [if_true]
    rcases read_dich t sp.free with ⟨t', rr, h1, h2⟩ | ⟨t1, t2, h1, h2, ha⟩
    · rw [h1, h2]
      cases rr with
      | pending => exact Or.inl ⟨_, t', _, rfl, rfl⟩
      | ready x =>
        cases x with
        | error e => exact Or.inl ⟨_, t', _, rfl, rfl⟩
        | ok bs =>
          cases bs with
          | nil => exact Or.inl ⟨_, t', _, rfl, rfl⟩
          | cons b bs => exact boundaryLoop_dich _ _ _ _
    · rw [h1, h2]
      exact Or.inr ⟨_, t1, t2, rfl, rfl, ha⟩
  | false =>
    simp only [Bool.false_eq_true, if_false]
    split
    · exact Or.inl ⟨sp, t, _, rfl, rfl⟩
    · exact boundaryLoop_dich _ _ _ _

def mapOut (mo : EndMode) (x : CloseOut) : CloseOut := (x.1, x.2.1, x.2.2.1, em mo x.2.2.2.1, x.2.2.2.2)

theorem finishEnd_em (mo : EndMode) (r : AReq) (rest : Bytes) (m : MutexSt) (t : Transport) :
    closePoll.finishEnd r rest m (em mo t) = mapOut mo (closePoll.finishEnd r rest m t) := by
  simp only [closePoll.finishEnd]
  rw [writeAllLoop_em]
  rcases writeAllLoop (rest.length + 1) rest t with ⟨rest1, t1, o⟩
  cases o with
  | pending => rfl
  | err e => rfl
  | panic s => rfl
  | ready =>
    simp only
    split
    · split <;> rfl
    · rfl

theorem closeP4_em (mo : EndMode) (r : AReq) (m : MutexSt) (t : Transport) (st : CloseSt) :
    closeP4 r m (em mo t) st = mapOut mo (closeP4 r m t st) := by
  cases st with
  | writeOut rest endreq =>
    simp only [closeP4]
    rw [writeAllLoop_em]
    rcases writeAllLoop (rest.length + 1) rest t with ⟨rest1, t1, o⟩
    cases o with
    | pending => rfl
    | err e => rfl
    | panic s => rfl
    | ready => exact finishEnd_em mo _ _ _ _
  | writeEnd rest => exact finishEnd_em mo _ _ _ _
  | start => rfl
  | inWriteable => rfl
  | inBoundary => rfl

/-- phases 3 and 4 -/
def tail3 (status : ExitStatus) (alive : Nat) (r : AReq) (m : MutexSt) (t : Transport) (st : CloseSt) : CloseOut :=
  match closeP3 r m t st status alive with
  | .error x => x
  | .ok (r, m, t, st) => closeP4 r m t st

theorem tail3_em (mo : EndMode) (status : ExitStatus) (alive : Nat) (r : AReq) (m : MutexSt) (t : Transport) (st : CloseSt) :
    tail3 status alive r m (em mo t) st = mapOut mo (tail3 status alive r m t st) := by
  simp only [tail3]
  cases st with
  | start =>
    simp only [closeP3]
    by_cases ha : alive > 0
    · simp only [ha, if_true]; rfl
    · simp only [ha, if_false]; exact closeP4_em mo _ _ _ _
  | inWriteable => exact closeP4_em mo _ _ _ _
  | inBoundary => exact closeP4_em mo _ _ _ _
  | writeOut a b => exact closeP4_em mo _ _ _ _
  | writeEnd a => exact closeP4_em mo _ _ _ _

/-- the eof run and the err run of one poll of `close` -/
def DC (x y : CloseOut) : Prop :=
  (∃ r cs m t res, x = (r, cs, m, eo t, res) ∧ y = (r, cs, m, er t, res)) ∨
  (∃ r cs m t1 t2, x = (r, cs, m, t1, .err .unexpectedEof) ∧ y = (r, cs, m, t2, .err t2.rdErr) ∧ Aft t1 t2)

theorem DC.of_em (z : CloseOut) : DC (mapOut .eof z) (mapOut .err z) :=
  Or.inl ⟨z.1, z.2.1, z.2.2.1, z.2.2.2.1, z.2.2.2.2, rfl, rfl⟩

/-- phases 2–4 -/
def tail2 (status : ExitStatus) (alive : Nat) (r : AReq) (m : MutexSt) (t : Transport) (st : CloseSt) : CloseOut :=
  match closeP2 r m t st with
  | .error x => x
  | .ok (r, m, t, st) => tail3 status alive r m t st

theorem tail2_dich (status : ExitStatus) (alive : Nat) (r : AReq) (m : MutexSt) (t : Transport) (st : CloseSt) :
    DC (tail2 status alive r m (eo t) st) (tail2 status alive r m (er t) st) := by
  have hrest : ∀ (st' : CloseSt), (∀ x, closeP2 r m x st' = .ok (r, m, x, st')) →
      DC (tail2 status alive r m (eo t) st') (tail2 status alive r m (er t) st') := by
    intro st' h
    simp only [tail2, h]
    rw [tail3_em, tail3_em]
    exact DC.of_em _
  have hmain : ∀ (sp : Str.Parser) (resume : Bool),
      DC (match (match closeBoundary sp resume (eo t) with
            | (sp, t, .ready) => (Except.ok ({ r with sp := sp }, m, t, CloseSt.start) : Except CloseOut CloseMid)
            | (sp, t, .pending) => .error ({ r with sp := sp }, .inBoundary, m, t, .pending)
            | (sp, t, .err e) => .error ({ r with sp := sp }, .inBoundary, m, t, .err e)
            | (sp, t, .panic s) => .error ({ r with sp := sp }, .inBoundary, m, t, .panic s)) with
          | .error x => x
          | .ok (r, m, t, st) => tail3 status alive r m t st)
        (match (match closeBoundary sp resume (er t) with
            | (sp, t, .ready) => (Except.ok ({ r with sp := sp }, m, t, CloseSt.start) : Except CloseOut CloseMid)
            | (sp, t, .pending) => .error ({ r with sp := sp }, .inBoundary, m, t, .pending)
            | (sp, t, .err e) => .error ({ r with sp := sp }, .inBoundary, m, t, .err e)
            | (sp, t, .panic s) => .error ({ r with sp := sp }, .inBoundary, m, t, .panic s)) with
          | .error x => x
          | .ok (r, m, t, st) => tail3 status alive r m t st) := by
    intro sp resume
    rcases closeBoundary_dich sp resume t with ⟨sp1, t1, res, h1, h2⟩ | ⟨sp1, t1, t2, h1, h2, ha⟩
    · rw [h1, h2]
      cases res with
      | ready => simp only; rw [tail3_em, tail3_em]; exact DC.of_em _
      | pending => exact Or.inl ⟨_, _, m, t1, _, rfl, rfl⟩
      | err e => exact Or.inl ⟨_, _, m, t1, _, rfl, rfl⟩
      | panic s => exact Or.inl ⟨_, _, m, t1, _, rfl, rfl⟩
    · rw [h1, h2]
      exact Or.inr ⟨_, _, m, t1, t2, rfl, rfl, ha⟩
  cases st with
  | start =>
    simp only [tail2, closeP2]
    cases hs : r.sp.setStream none with
    | ok sp => exact hmain sp false
    | rejected => exact Or.inl ⟨r, _, m, t, _, rfl, rfl⟩
    | panic s => exact Or.inl ⟨r, _, m, t, _, rfl, rfl⟩
  | inBoundary =>
    simp only [tail2, closeP2]
    exact hmain r.sp true
  | inWriteable => exact hrest _ (fun x => rfl)
  | writeOut a b => exact hrest _ (fun x => rfl)
  | writeEnd a => exact hrest _ (fun x => rfl)

theorem closePoll_eq2 (r : AReq) (st : CloseSt) (status : ExitStatus) (alive : Nat) (m : MutexSt) (t : Transport) :
    closePoll r st status alive m t =
      match closeP1 r st m t with
      | .error x => x
      | .ok (r, m, t, st) => tail2 status alive r m t st := rfl

theorem closePoll_dich (r : AReq) (st : CloseSt) (status : ExitStatus) (alive : Nat) (m : MutexSt) (t : Transport) :
    DC (closePoll r st status alive m (eo t)) (closePoll r st status alive m (er t)) := by
  rw [closePoll_eq2, closePoll_eq2]
  have hw : ∀ (b : Bool), DC
      (match (match r.writeablePoll b m (eo t) with
          | (r, _, m, t, .ready) => (Except.ok (r, m, t, CloseSt.start) : Except CloseOut CloseMid)
          | (r, _, m, t, .pending) => .error (r, .inWriteable, m, t, .pending)
          | (r, _, m, t, .err e) => if e == IoErr.abortRequest then .ok (r, m, t, .start) else .error (r, .inWriteable, m, t, .err e)
          | (r, _, m, t, .panic s) => .error (r, .inWriteable, m, t, .panic s)) with
        | .error x => x
        | .ok (r, m, t, st) => tail2 status alive r m t st)
      (match (match r.writeablePoll b m (er t) with
          | (r, _, m, t, .ready) => (Except.ok (r, m, t, CloseSt.start) : Except CloseOut CloseMid)
          | (r, _, m, t, .pending) => .error (r, .inWriteable, m, t, .pending)
          | (r, _, m, t, .err e) => if e == IoErr.abortRequest then .ok (r, m, t, .start) else .error (r, .inWriteable, m, t, .err e)
          | (r, _, m, t, .panic s) => .error (r, .inWriteable, m, t, .panic s)) with
        | .error x => x
        | .ok (r, m, t, st) => tail2 status alive r m t st) := by
    intro b
    rcases writeablePoll_dich r b m t with ⟨r3, b3, m3, t3, res, h1, h2⟩ | ⟨r3, b3, m3, t1, t2, h1, h2, ha⟩
    · rw [h1, h2]
      cases res with
      | ready => simp only; exact tail2_dich _ _ _ _ _ _
      | pending => exact Or.inl ⟨_, _, m3, t3, _, rfl, rfl⟩
      | err e =>
        simp only
        by_cases he : (e == IoErr.abortRequest) = true
        · simp only [he, if_true]; exact tail2_dich _ _ _ _ _ _
        · simp only [he, Bool.false_eq_true, if_false]; exact Or.inl ⟨_, _, m3, t3, _, rfl, rfl⟩
      | panic s => exact Or.inl ⟨_, _, m3, t3, _, rfl, rfl⟩
    · rw [h1, h2]
      have hne : (t2.rdErr == IoErr.abortRequest) = false := by
        unfold Transport.rdErr; split <;> rfl
      simp only [hne, Bool.false_eq_true, if_false]
      exact Or.inr ⟨_, _, m3, t1, t2, rfl, rfl, ha⟩
  cases st with
  | start => simp only [closeP1]; exact hw false
  | inWriteable => simp only [closeP1]; exact hw true
  | inBoundary => exact tail2_dich _ _ _ _ _ _
  | writeOut a b => exact tail2_dich _ _ _ _ _ _
  | writeEnd a => exact tail2_dich _ _ _ _ _ _

end Fcgi.EofErr
