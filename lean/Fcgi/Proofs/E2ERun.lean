import Fcgi.Proofs.E2EConn
/-!
# End-to-end composition (C07) — part 6: from polls to `runTask`

`stage_poll`: one poll from any stage.  `Stage.cong`: stages do not depend on the trace, the waker
flag or the (empty) peer.  `run_from_stage`: the executor `runTask`, started in a stage of a
connection whose peer holds nothing back, ends `RET` in `Fin` or `STALL` in `Parked`, within
`ans + 1` polls.
-/
namespace Fcgi.E2E
open Fcgi Fcgi.Req Fcgi.Str Fcgi.Async Fcgi.Run Fcgi.Spec

theorem stage_poll {g : Cfg} (ok : g.OK) {c : Conn} (hst : Stage g c) :
    Res g (4 * c.env.tr.input.length + 17) c := by
  cases hst with
  | start hph hwire hraw hlog hb hstop hsc hm hev => exact start_poll ok hph hwire hraw hlog hb hstop hsc hm hev
  | parse hst hsc hm hev => exact (parse_poll ok hst hsc hm hev).mono (by omega)
  | @hread r h hph hr hb hstop hev hsc =>
    exact (handler_core ok hph (rd_poll ok hr hb (Nat.le_trans hr.fuel (Nat.le_add_right _ _))) hb hstop hev hsc).mono (by omega)
  | @hwrite r h O1 hph hw hb hstop hev hsc =>
    refine (handler_core ok hph (write_phase hw hb ?_) hb hstop hev hsc).mono (by omega)
    have := handlerFuel_ge c.env r
    have := ok.wfuel
    show wcost g.data.length + 3 ≤ _
    omega
  | @closeW r rest O1 O2 hph hO hce hm hlog hb hstop hev hre hsc =>
    refine (close_out ok (r2 := r) (rest := rest) hO hph ?_ hce hm hlog hb hstop hev hre hsc).mono (by omega)
    rw [closePoll_late _ _ _ _ _ _ rfl]
  | @close r rest O1 O2 hph hO hce hm hlog hb hstop hev hre hsc =>
    refine (close_core ok (r2 := r) (rest := rest) hO hph ?_ (.refl _) rfl hce hm hlog hb hstop hev hre hsc).mono
      (by omega)
    rw [closePoll_late _ _ _ _ _ _ rfl]
    rfl
  | idle hO hst _ hkeep hev hre hsc hmx => exact (idle_poll ok hO hst hkeep hev hre hsc hmx).mono (by omega)

/-! ## Stages do not look at the trace, the waker flag, or `hold` -/

structure TrSame (t t' : Transport) : Prop where
  input : t'.input = t.input
  wlog : t'.wlog = t.wlog
  rd : t'.rd = t.rd
  wr : t'.wr = t.wr
  em : t'.endMode = t.endMode
  hold : t'.hold = false
  ev : ∃ new, t'.events = t.events ++ new ∧ Quiet new

theorem TrSame.ben {t t' : Transport} (h : TrSame t t') (hb : Ben t) : Ben t' :=
  ⟨by rw [h.rd]; exact hb.rd, by rw [h.wr]; exact hb.wr, h.hold, by rw [h.em]; exact hb.em⟩

theorem TrSame.hs {t t' : Transport} (h : TrSame t t') : hsCount t'.events = hsCount t.events := by
  obtain ⟨n, hn, hq⟩ := h.ev
  rw [hn, hsCount_append, hsCount_eq_zero hq, Nat.add_zero]

theorem TrSame.mem {t t' : Transport} (h : TrSame t t') {s : String} (hs : s ∈ t.events) : s ∈ t'.events := by
  obtain ⟨n, hn, _⟩ := h.ev
  rw [hn]; exact List.mem_append_left _ hs

theorem TrSame.ev1 {g : Cfg} {t t' : Transport} (h : TrSame t t') (he : Ev1 g t) : Ev1 g t' :=
  ⟨h.hs.trans he.1, h.mem he.2⟩

theorem PSt.cong {cap mc : Nat} {W0 L0 Z : Bytes} {c c' : Conn} {F : Bytes} (h : PSt cap mc W0 L0 Z c F)
    (hph : c'.phase = c.phase) (hstop : c'.stop = c.stop) (hs : TrSame c.env.tr c'.env.tr) :
    PSt cap mc W0 L0 Z c' F :=
  ⟨by rw [hs.input]; exact h.wire, hstop.trans h.stop, hs.ben h.ben, h.rem, by
    rw [hph, hs.wlog]; exact h.ph⟩

theorem RSt.cong {K : RCtx} {L P : Bytes} {r : AReq} {m m' : MutexSt} {t t' : Transport} {dC dO : Bytes}
    (h : RSt K L P r m t dC dO) (hm : m' = m) (hs : TrSame t t') : RSt K L P r m' t' dC dO := by
  subst hm
  obtain ⟨⟨G, hi⟩, lk, mx, ⟨O1, l1, l2⟩⟩ := h
  exact ⟨⟨G, by rw [hs.input]; exact hi⟩, lk, mx, ⟨O1, by rw [hs.wlog]; exact l1, l2⟩⟩

theorem Stage.cong {g : Cfg} {c c' : Conn} (h : Stage g c) (hph : c'.phase = c.phase)
    (hsc : c'.scripts = c.scripts) (hstop : c'.stop = c.stop) (hm : c'.env.mutex = c.env.mutex)
    (hs : TrSame c.env.tr c'.env.tr) : Stage g c' := by
  cases h with
  | start hph0 hwire hraw hlog hb hstop0 hsc0 hm0 hev =>
    exact .start (hph.trans hph0) (by rw [hs.input]; exact hwire) hraw (hs.wlog.trans hlog) (hs.ben hb)
      (hstop.trans hstop0) (hsc.trans hsc0) (hm.trans hm0) (hs.hs.trans hev)
  | parse hst hsc0 hm0 hev =>
    exact .parse (hst.cong hph hstop hs) (hsc.trans hsc0) (hm.trans hm0) (hs.hs.trans hev)
  | @hread r h hph0 hr hb hstop0 hev hsc0 =>
    refine .hread (hph.trans hph0) ?_ (hs.ben hb) (hstop.trans hstop0) (hs.ev1 hev) (hsc.trans hsc0)
    have hrc : ∀ {K : RCtx} {rest : List HOp} {L P : Bytes}, HRead K rest L P r h c.env → HRead K rest L P r h c'.env := by
      intro K rest L P hr
      obtain ⟨dO, h1⟩ := hr.rem
      exact ⟨hr.ops, hr.ws, hr.pr, dO, h1.cong hm hs⟩
    rcases hr with ⟨h1, hr⟩ | ⟨h3, hr | ⟨hr, hev1⟩⟩
    · exact Or.inl ⟨h1, hrc hr⟩
    · exact Or.inr ⟨h3, Or.inl (hrc hr)⟩
    · exact Or.inr ⟨h3, Or.inr ⟨hrc hr, hs.mem hev1⟩⟩
  | @hwrite r h O1 hph0 hw hb hstop0 hev hsc0 =>
    refine .hwrite (hph.trans hph0) ⟨hw.ops, hw.pr, ?_, hw.len, by rw [hs.input]; exact hw.fin, hw.out,
      fun s h => hs.mem (hw.ev s h)⟩ (hs.ben hb) (hstop.trans hstop0) (hs.ev1 hev) (hsc.trans hsc0)
    obtain ⟨w, L, sent, h1, h2, h3, h4⟩ := hw.wr
    exact ⟨w, L, sent, h1, by rw [hm]; exact h2, hs.wlog.trans h3, h4⟩
  | @closeW r rest O1 O2 hph0 hO hce hm0 hlog hb hstop0 hev hre hsc0 =>
    exact .closeW (hph.trans hph0) hO (by rw [hs.input]; exact hce) (hm.trans hm0) (by rw [hs.wlog]; exact hlog)
      (hs.ben hb) (hstop.trans hstop0) (hs.ev1 hev) (fun s h => hs.mem (hre s h)) (hsc.trans hsc0)
  | @close r rest O1 O2 hph0 hO hce hm0 hlog hb hstop0 hev hre hsc0 =>
    exact .close (hph.trans hph0) hO (by rw [hs.input]; exact hce) (hm.trans hm0) (by rw [hs.wlog]; exact hlog)
      (hs.ben hb) (hstop.trans hstop0) (hs.ev1 hev) (fun s h => hs.mem (hre s h)) (hsc.trans hsc0)
  | idle hO hst hfin hkeep hev hre hsc0 hmx =>
    exact .idle hO (hst.cong hph hstop hs) (by rw [hs.input]; exact hfin) hkeep (hs.ev1 hev) (fun s h => hs.mem (hre s h))
      (hsc.trans hsc0) (hm.trans hmx)

theorem Parked.cong {g : Cfg} {O1 O2 : Bytes} {c c' : Conn} (h : Parked g O1 O2 c) (hph : c'.phase = c.phase)
    (hsc : c'.scripts = c.scripts) (hstop : c'.stop = c.stop) (hm : c'.env.mutex = c.env.mutex)
    (hs : TrSame c.env.tr c'.env.tr) : Parked g O1 O2 c' :=
  ⟨hph.trans h.ph, hs.input.trans h.inp, hs.wlog.trans h.log, hs.ev1 h.ev, fun s h' => hs.mem (h.re s h'), hsc.trans h.sc,
   hstop.trans h.stop, hm.trans h.mtx, hs.ben h.ben, h.keep, hs.em.trans h.em⟩

/-! ## The executor -/

theorem release_nil (e : Run.Env) (h : e.segs = []) :
    e.release = ({ e with tr := { e.tr with hold := false } }, false) := by
  obtain ⟨tr, mutex, segs⟩ := e
  simp only at h
  subst h
  simp [Env.release, Env.release.go]

theorem prePoll_nil (c : Conn) (n : Nat) (h : c.env.segs = []) :
    prePoll c n none =
      { c with env := ({ c.env with tr := { c.env.tr with hold := false, woken := false } } : Run.Env).ev s!"|{n}" } := by
  simp [prePoll, release_nil c.env h]

theorem prePoll_same (c : Conn) (n : Nat) (h : c.env.segs = []) :
    TrSame c.env.tr (prePoll c n none).env.tr ∧ (prePoll c n none).phase = c.phase ∧
    (prePoll c n none).scripts = c.scripts ∧ (prePoll c n none).stop = c.stop ∧
    (prePoll c n none).env.mutex = c.env.mutex ∧ (prePoll c n none).env.segs = [] ∧
    (prePoll c n none).env.tr.woken = false := by
  rw [prePoll_nil c n h]
  refine ⟨⟨rfl, rfl, rfl, rfl, rfl, rfl, [s!"|{n}"], rfl, Quiet.single (by simp [isHS, toString_str])⟩,
    rfl, rfl, rfl, rfl, h, rfl⟩

/-- **The executor.**  Started in a stage with nothing held back by a peer, `runTask` needs at most
one poll per scripted answer still to come (plus one) and ends `RET` with the connection finished,
or `STALL` with the connection parked on an empty buffer waiting for the next request. -/
theorem run_from_stage' {g : Cfg} (ok : g.OK) : ∀ (A : Nat) (c : Conn) (n fuel : Nat),
    Stage g c → c.env.segs = [] → ans c.env.tr ≤ A → A + 1 ≤ fuel →
    ∃ c', (c'.env.tr.endMode = c.env.tr.endMode ∧ ans c'.env.tr ≤ ans c.env.tr ∧ c'.env.segs = [] ∧
        ∀ s, s ∈ c.env.tr.events → s ∈ c'.env.tr.events) ∧
      ∃ O1 O2, O1 ++ O2 = g.Ot ∧
      ((runTask fuel c n none = (c', "RET") ∧ Fin g O1 O2 c') ∨
       (runTask fuel c n none = (c', "STALL") ∧ Parked g O1 O2 c')) := by
  intro A
  induction A with
  | zero =>
    intro c n fuel hst hsegs hA hf
    obtain ⟨f, rfl⟩ : ∃ f, fuel = f + 1 := ⟨fuel - 1, by omega⟩
    obtain ⟨hsame, hph, hsc, hstop, hmx, hsg, hwk⟩ := prePoll_same c n hsegs
    have hst0 := hst.cong hph hsc hstop hmx hsame
    obtain ⟨c', r, hh, hl, ho⟩ := stage_poll ok hst0
    have hpoll := hh.pollB (by omega)
    have hans0 : ans (prePoll c n none).env.tr = ans c.env.tr := by unfold ans; rw [hsame.rd, hsame.wr]
    have hem : c'.env.tr.endMode = c.env.tr.endMode ∧ ans c'.env.tr ≤ ans c.env.tr ∧ c'.env.segs = [] ∧
        ∀ s, s ∈ c.env.tr.events → s ∈ c'.env.tr.events :=
      ⟨hl.ts.em.trans hsame.em, by have := hl.ts.ans_le; omega, hl.segs.trans hsg,
        fun s hs => hl.ts.evm s (hsame.mem hs)⟩
    rw [runTask_succ, hpoll]
    cases ho with
    | @fin O1 O2 hO hfin => exact ⟨c', hem, O1, O2, hO, Or.inl ⟨rfl, hfin⟩⟩
    | pend hs' hw ha => omega
    | @park O1 O2 hs' hO hp =>
      rcases hl.ts.wk with hw | ⟨_, ha⟩
      · rw [hwk] at hw
        simp only [hw, Bool.false_eq_true, if_false]
        have hsg' : c'.env.segs = [] := hl.segs.trans hsg
        rw [release_nil _ hsg']
        simp only [hw, Bool.false_eq_true, if_false]
        refine ⟨_, ?_, O1, O2, hO, Or.inr ⟨rfl, hp.cong rfl rfl rfl rfl ⟨rfl, rfl, rfl, rfl, rfl, rfl, [], by simp, Quiet.nil⟩⟩⟩
        exact hem
      · omega
  | succ A ih =>
    intro c n fuel hst hsegs hA hf
    obtain ⟨f, rfl⟩ : ∃ f, fuel = f + 1 := ⟨fuel - 1, by omega⟩
    obtain ⟨hsame, hph, hsc, hstop, hmx, hsg, hwk⟩ := prePoll_same c n hsegs
    have hst0 := hst.cong hph hsc hstop hmx hsame
    obtain ⟨c', r, hh, hl, ho⟩ := stage_poll ok hst0
    have hpoll := hh.pollB (by omega)
    have hans0 : ans (prePoll c n none).env.tr = ans c.env.tr := by unfold ans; rw [hsame.rd, hsame.wr]
    have hsg' : c'.env.segs = [] := hl.segs.trans hsg
    have hem : c'.env.tr.endMode = c.env.tr.endMode ∧ ans c'.env.tr ≤ ans c.env.tr ∧ c'.env.segs = [] ∧
        ∀ s, s ∈ c.env.tr.events → s ∈ c'.env.tr.events :=
      ⟨hl.ts.em.trans hsame.em, by have := hl.ts.ans_le; omega, hl.segs.trans hsg,
        fun s hs => hl.ts.evm s (hsame.mem hs)⟩
    rw [runTask_succ, hpoll]
    cases ho with
    | @fin O1 O2 hO hfin => exact ⟨c', hem, O1, O2, hO, Or.inl ⟨rfl, hfin⟩⟩
    | pend hs' hw ha =>
      simp only [hw, if_true]
      obtain ⟨c2, ⟨h1, h1', h1'', h1e⟩, h2⟩ := ih c' (n + 1) f hs' hsg' (by omega) (by omega)
      exact ⟨c2, ⟨h1.trans hem.1, by have := hem.2.1; omega, h1'', fun s hs => h1e s (hem.2.2.2 s hs)⟩, h2⟩
    | @park O1 O2 hs' hO hp =>
      rcases hl.ts.wk with hw | ⟨hw, ha⟩
      · rw [hwk] at hw
        simp only [hw, Bool.false_eq_true, if_false]
        rw [release_nil _ hsg']
        simp only [hw, Bool.false_eq_true, if_false]
        refine ⟨_, ?_, O1, O2, hO, Or.inr ⟨rfl, hp.cong rfl rfl rfl rfl ⟨rfl, rfl, rfl, rfl, rfl, rfl, [], by simp, Quiet.nil⟩⟩⟩
        exact hem
      · simp only [hw, if_true]
        obtain ⟨c2, ⟨h1, h1', h1'', h1e⟩, h2⟩ := ih c' (n + 1) f hs' hsg' (by omega) (by omega)
        exact ⟨c2, ⟨h1.trans hem.1, by have := hem.2.1; omega, h1'', fun s hs => h1e s (hem.2.2.2 s hs)⟩, h2⟩


/-- `run_from_stage'` with the (superfluous) size hypothesis of the first version -/
theorem run_from_stage {g : Cfg} (ok : g.OK) : ∀ (A : Nat) (c : Conn) (n fuel : Nat),
    Stage g c → c.env.segs = [] → ans c.env.tr ≤ A → A + 1 ≤ fuel →
    4 * c.env.tr.input.length + 17 ≤ 100000 →
    ∃ c', (c'.env.tr.endMode = c.env.tr.endMode ∧ ans c'.env.tr ≤ ans c.env.tr ∧ c'.env.segs = [] ∧
        ∀ s, s ∈ c.env.tr.events → s ∈ c'.env.tr.events) ∧
      ∃ O1 O2, O1 ++ O2 = g.Ot ∧
      ((runTask fuel c n none = (c', "RET") ∧ Fin g O1 O2 c') ∨
       (runTask fuel c n none = (c', "STALL") ∧ Parked g O1 O2 c')) :=
  fun A c n fuel hst hsegs hA hf _ => run_from_stage' ok A c n fuel hst hsegs hA hf

end Fcgi.E2E
