import Fcgi.Proofs.E2EHandler
/-!
# End-to-end composition (C07) — part 4: `parse_request` over the transport

`track cap mc F`: the request parser after the bytes `F` were handed to it (in whatever legal
chunks): where one run of the loop over `F` stops.  `PSt`: the connection is inside `parse_request`
having consumed `F` of the wire `W0`.  `parse_loop`: from such a state one poll either ends on a
transient `Pending`, or reaches the final `write_all` of a completed preamble, or runs out of input.
-/
namespace Fcgi.E2E
open Fcgi Fcgi.Req Fcgi.Str Fcgi.Async Fcgi.Run Fcgi.Spec

/-- the request parser after `F` was fed to a fresh one -/
def track (cap mc : Nat) (F : Bytes) : Req.Parser :=
  { cap := cap, input := (run .header F mc).rem, state := (run .header F mc).st, maxConns := mc }

/-- feeding never gets stuck on prefixes of `W` -/
def NoStuckW (cap mc : Nat) (W : Bytes) : Prop :=
  ∀ F, F <+: W → (run .header F mc).st.isFinal = true ∨ (run .header F mc).rem.length < cap

theorem track_inv {cap mc : Nat} (h24 : 24 ≤ cap) {F : Bytes}
    (h : (run .header F mc).rem.length ≤ cap) : PInv (track cap mc F) :=
  ⟨h, (run_ok F mc (st := .header) trivial).2.1, h24⟩

/-- one more chunk -/
theorem parse_track {cap mc : Nat} (h24 : 24 ≤ cap) {F bs : Bytes}
    (hrem : (run .header F mc).rem.length ≤ cap) (hbs : bs ≠ [])
    (hfree : bs.length ≤ (track cap mc F).free)
    (hns : (run .header (F ++ bs) mc).st.isFinal = true ∨ (run .header (F ++ bs) mc).rem.length < cap) :
    ∃ o, (track cap mc F).parse bs =
        (track cap mc (F ++ bs), some { done := (run .header (F ++ bs) mc).st.isFinal, output := o }) ∧
      (run .header (F ++ bs) mc).out = (run .header F mc).out ++ o := by
  have hsplit := Req.run_split (st := .header) trivial F bs mc hbs
  have hp := track_inv h24 hrem (mc := mc)
  rw [hsplit] at hns
  have hpar := C03.parse_unstuck hp hfree hns
  refine ⟨(run (run .header F mc).st ((run .header F mc).rem ++ bs) mc).out, ?_, ?_⟩
  · rw [hpar]
    simp only [track, hsplit]
  · rw [hsplit]

/-- the initial `parse(0)` on what the previous request left in the buffer -/
theorem start_track {cap mc : Nat} (h24 : 24 ≤ cap) {raw : Bytes} (hraw : raw.length ≤ cap)
    (hns : (run .header raw mc).st.isFinal = true ∨ (run .header raw mc).rem.length < cap) :
    ({ cap := cap, input := raw, state := .header, maxConns := mc } : Req.Parser).parse [] =
      (track cap mc raw, some { done := (run .header raw mc).st.isFinal, output := (run .header raw mc).out }) := by
  have hp : PInv ({ cap := cap, input := raw, state := .header, maxConns := mc } : Req.Parser) :=
    ⟨hraw, trivial, h24⟩
  have := C03.parse_unstuck (new := []) hp (by simp [Req.Parser.free]) (by simpa using hns)
  rw [this]
  simp only [track, List.append_nil]

/-! ## Phase transitions of `parse_request` -/

theorem step_start (c : Conn) (rp : Req.Parser) (hp : c.phase = .parseReq rp .start) (hs : c.stop = false) :
    stepConn c =
      match rp.parse [] with
      | (_, none) => .halt c (.panic "request parser panicked")
      | (rp, some y) => .next { c with phase := .parseReq rp (.writing y.output y.done) } := by
  obtain ⟨phase, env, scripts, stop⟩ := c
  simp only at hp hs; subst hp; subst hs
  rfl

theorem step_reading (c : Conn) (rp : Req.Parser) (hp : c.phase = .parseReq rp .reading) (hs : c.stop = false) :
    stepConn c =
      match c.env.tr.read rp.free with
      | (t, .pending) => .halt { c with env := { c.env with tr := t } } .pending
      | (t, .ready (.error _)) => .halt { c with phase := .finished, env := { c.env with tr := t } } .finished
      | (t, .ready (.ok [])) => .halt { c with phase := .finished, env := { c.env with tr := t } } .finished
      | (t, .ready (.ok bs)) =>
        match rp.parse bs with
        | (_, none) => .halt { c with env := { c.env with tr := t } } (.panic "request parser panicked")
        | (rp, some y) =>
          .next { c with phase := .parseReq rp (.writing y.output y.done), env := { c.env with tr := t } } := by
  obtain ⟨phase, env, scripts, stop⟩ := c
  simp only at hp hs; subst hp; subst hs
  rfl

theorem step_writing_pending (c : Conn) (rp : Req.Parser) (rest : Bytes) (done : Bool) (rest' : Bytes)
    (t : Transport) (hp : c.phase = .parseReq rp (.writing rest done)) (hs : c.stop = false)
    (hw : writeAllLoop (rest.length + 1) rest c.env.tr = (rest', t, .pending)) :
    stepConn c = .halt { c with phase := .parseReq rp (.writing rest' done), env := { c.env with tr := t } } .pending := by
  obtain ⟨phase, env, scripts, stop⟩ := c
  simp only at hp hs hw; subst hp; subst hs
  simp only [stepConn, hw, Bool.false_eq_true, if_false]

theorem step_writing_more (c : Conn) (rp : Req.Parser) (rest : Bytes) (rest' : Bytes)
    (t : Transport) (hp : c.phase = .parseReq rp (.writing rest false)) (hs : c.stop = false)
    (hw : writeAllLoop (rest.length + 1) rest c.env.tr = (rest', t, .ready)) :
    stepConn c = .next { c with phase := .parseReq rp .reading, env := { c.env with tr := t } } := by
  obtain ⟨phase, env, scripts, stop⟩ := c
  simp only at hp hs hw; subst hp; subst hs
  simp only [stepConn, hw, Bool.false_eq_true, if_false, Bool.not_false, if_true]

/-! ## The state of `parse_request`, and one poll of it -/

/-- what phase transitions inside `parse_request` leave alone -/
structure Frame (c c' : Conn) : Prop where
  scripts : c'.scripts = c.scripts
  stop : c'.stop = c.stop
  mutex : c'.env.mutex = c.env.mutex
  segs : c'.env.segs = c.env.segs
  ts : TStep c.env.tr c'.env.tr

theorem Frame.refl (c : Conn) : Frame c c := ⟨rfl, rfl, rfl, rfl, .refl _⟩

theorem Frame.trans {a b c : Conn} (h1 : Frame a b) (h2 : Frame b c) : Frame a c :=
  ⟨h2.scripts.trans h1.scripts, h2.stop.trans h1.stop, h2.mutex.trans h1.mutex, h2.segs.trans h1.segs,
   h1.ts.trans h2.ts⟩

theorem Frame.mk' (c : Conn) (ph : Phase) (t : Transport) (h : TStep c.env.tr t) :
    Frame c { c with phase := ph, env := { c.env with tr := t } } := ⟨rfl, rfl, rfl, rfl, h⟩

/-- The connection is inside `parse_request`; the request parser was handed the bytes `F` of the
wire `W0` so far; `L0` was in the write log when this `parse_request` started. -/
structure PSt (cap mc : Nat) (W0 L0 Z : Bytes) (c : Conn) (F : Bytes) : Prop where
  /-- `Z`: the part of the wire that has not reached the transport (yet) -/
  wire : F ++ c.env.tr.input ++ Z = W0
  stop : c.stop = false
  ben : Ben c.env.tr
  rem : (run .header F mc).rem.length ≤ cap
  ph : (c.phase = .parseReq (track cap mc F) .reading ∧ (run .header F mc).st.isFinal = false ∧
          c.env.tr.wlog = L0 ++ (run .header F mc).out) ∨
       (∃ rest, c.phase = .parseReq (track cap mc F) (.writing rest (run .header F mc).st.isFinal) ∧
          c.env.tr.wlog ++ rest = L0 ++ (run .header F mc).out ∧
          -- the unsent `rest` is a suffix of the request parser's output
          ∃ pre, (run .header F mc).out = pre ++ rest)

/-- 1 while `parse_request` is in one of its `write_all`s -/
def wbit (c : Conn) : Nat :=
  match c.phase with
  | .parseReq _ (.writing _ _) => 1
  | _ => 0

/-- How a poll that is inside `parse_request` goes on. -/
def POut (cap mc : Nat) (W0 L0 Z : Bytes) (c1 : Conn) (F1 : Bytes) : Prop :=
  (∃ c2, stepConn c1 = .halt c2 .pending ∧ PSt cap mc W0 L0 Z c2 F1 ∧ Frame c1 c2 ∧
      c2.env.tr.woken = true ∧ ans c2.env.tr < ans c1.env.tr) ∨
  (∃ rest t', c1.phase = .parseReq (track cap mc F1) (.writing rest true) ∧
      (run .header F1 mc).st.isFinal = true ∧ F1 ++ c1.env.tr.input ++ Z = W0 ∧ c1.stop = false ∧
      Ben c1.env.tr ∧ (run .header F1 mc).rem.length ≤ cap ∧
      writeAllLoop (rest.length + 1) rest c1.env.tr = ([], t', .ready) ∧
      t'.wlog = L0 ++ (run .header F1 mc).out ∧ TStep c1.env.tr t' ∧ t'.input = c1.env.tr.input) ∨
  (c1.env.tr.input = [] ∧ (run .header F1 mc).st.isFinal = false ∧
      c1.phase = .parseReq (track cap mc F1) .reading ∧ PSt cap mc W0 L0 Z c1 F1)

theorem parse_loop {cap mc : Nat} {W0 L0 Z : Bytes} (h24 : 24 ≤ cap) (hns : NoStuckW cap mc W0) :
    ∀ (M : Nat) (c : Conn) (F : Bytes), PSt cap mc W0 L0 Z c F → 2 * c.env.tr.input.length + wbit c ≤ M →
      ∃ n c1 F1, n ≤ M + 1 ∧ Steps n c c1 ∧ Frame c c1 ∧ POut cap mc W0 L0 Z c1 F1 := by
  intro M
  induction M using Nat.strongRecOn with
  | _ M ih =>
    intro c F hst hM
    obtain ⟨hwire, hstop, hben, hrem, hph⟩ := hst
    rcases hph with ⟨hphase, hnf, hlog⟩ | ⟨rest, hphase, hlog, opre, hopre⟩
    · -- reading
      by_cases hin : c.env.tr.input = []
      · exact ⟨0, c, F, by omega, .refl _, .refl _,
          Or.inr (Or.inr ⟨hin, hnf, hphase, ⟨hwire, hstop, hben, hrem, Or.inl ⟨hphase, hnf, hlog⟩⟩⟩)⟩
      · have hfreepos : 0 < (track cap mc F).free := by
          have hFpre : F <+: W0 := ⟨c.env.tr.input ++ Z, by rw [← List.append_assoc]; exact hwire⟩
          rcases hns F hFpre with h | h
          · rw [hnf] at h; cases h
          · simp only [track, Req.Parser.free]; omega
        have hstep := step_reading c _ hphase hstop
        rcases hrd : c.env.tr.read (track cap mc F).free with ⟨t, res⟩
        rw [hrd] at hstep
        have hts := read_tstep hrd
        cases res with
        | pending =>
          obtain ⟨hi, hw | hw⟩ := read_pending hben hrd
          · refine ⟨0, c, F, by omega, .refl _, .refl _,
              Or.inl ⟨{ c with env := { c.env with tr := t } }, hstep, ?_, ⟨rfl, rfl, rfl, rfl, hts⟩, hw.1, hw.2⟩⟩
            have hwl : t.wlog = c.env.tr.wlog := by have := read_wlog c.env.tr (track cap mc F).free; rwa [hrd] at this
            exact ⟨by simpa [hi] using hwire, hstop, hben.step hts, hrem,
              Or.inl ⟨hphase, hnf, by simpa [hwl] using hlog⟩⟩
          · exact absurd hw.1 hin
        | ready x =>
          cases x with
          | error e => exact (read_error hben hrd).elim
          | ok bs =>
            obtain ⟨hinp, hwl, hlen, hz⟩ := read_ok_ben hben hrd
            have hbne : bs ≠ [] := by
              intro hx
              rcases hz hx with hz | hz
              · omega
              · exact hin hz.1
            have hpre2 : F ++ bs <+: W0 := by
              refine ⟨t.input ++ Z, ?_⟩
              rw [← hwire, hinp]
              simp only [List.append_assoc]
            obtain ⟨o, hpar, hout⟩ := parse_track h24 hrem hbne hlen (hns _ hpre2)
            have hstep' : stepConn c = .next { c with
                phase := .parseReq (track cap mc (F ++ bs)) (.writing o (run .header (F ++ bs) mc).st.isFinal),
                env := { c.env with tr := t } } := by
              rw [hstep]
              cases bs with
              | nil => exact absurd rfl hbne
              | cons b bs' => simp only [hpar]
            have hrem' : (run .header (F ++ bs) mc).rem.length ≤ cap := by
              have hsplit := Req.run_split (st := .header) trivial F bs mc hbne
              rw [hsplit]
              have hw1 := (run_ok F mc (st := .header) trivial).2.1
              have := (run_ok ((run .header F mc).rem ++ bs) mc hw1).2.2.length_le
              simp only [List.length_append] at this
              simp only [track, Req.Parser.free] at hlen
              show (run (run .header F mc).st ((run .header F mc).rem ++ bs) mc).rem.length ≤ cap
              omega
            have hlt : t.input.length < c.env.tr.input.length := by
              have := congrArg List.length hinp
              have : 0 < bs.length := List.length_pos_iff.mpr hbne
              simp only [List.length_append] at *
              omega
            have hst' : PSt cap mc W0 L0 Z { c with
                phase := .parseReq (track cap mc (F ++ bs)) (.writing o (run .header (F ++ bs) mc).st.isFinal),
                env := { c.env with tr := t } } (F ++ bs) := by
              refine ⟨?_, hstop, hben.step hts, hrem', Or.inr ⟨o, rfl, ?_⟩⟩
              · show (F ++ bs) ++ t.input ++ Z = W0
                rw [List.append_assoc F, ← hinp]; exact hwire
              · refine ⟨?_, (run .header F mc).out, hout⟩
                show t.wlog ++ o = _
                rw [hwl, hlog, hout, List.append_assoc]
            obtain ⟨n, c1, F1, hn, hs, hfr, hout'⟩ := ih (2 * t.input.length + 1) (by
                have : wbit c = 0 := by simp [wbit, hphase]
                omega) _ _ hst' (by simp [wbit])
            exact ⟨n + 1, c1, F1, by omega, .step hstep' hs,
              Frame.trans (Frame.mk' c _ t hts) hfr, hout'⟩
    · -- in `write_all`
      have hwb : wbit c = 1 := by simp [wbit, hphase]
      rcases hwa : writeAllLoop (rest.length + 1) rest c.env.tr with ⟨rest', t', res⟩
      obtain ⟨hts, hinp, ⟨dn, hd, hl⟩, hres⟩ := writeAllLoop_ben _ _ _ hben (Nat.lt_succ_self _) hwa
      rcases hres with ⟨rfl, rfl⟩ | ⟨rfl, hne, hwk, hans⟩
      · simp only [List.append_nil] at hd
        subst hd
        cases hfin : (run .header F mc).st.isFinal with
        | true =>
          rw [hfin] at hphase
          exact ⟨0, c, F, by omega, .refl _, .refl _, Or.inr (Or.inl ⟨rest, t', hphase, hfin, hwire, hstop, hben, hrem, hwa,
            by rw [hl, hlog], hts, hinp⟩)⟩
        | false =>
          rw [hfin] at hphase
          have hstep := step_writing_more c _ rest [] t' hphase hstop hwa
          have hst' : PSt cap mc W0 L0 Z
              { c with phase := .parseReq (track cap mc F) .reading, env := { c.env with tr := t' } } F :=
            ⟨by simpa [hinp] using hwire, hstop, hben.step hts, hrem,
              Or.inl ⟨rfl, hfin, by show t'.wlog = _; rw [hl, hlog]⟩⟩
          obtain ⟨n, c1, F1, hn, hs, hfr, hout'⟩ := ih (2 * c.env.tr.input.length) (by omega) _ _ hst'
            (by simp [wbit, hinp])
          exact ⟨n + 1, c1, F1, by omega, .step hstep hs, Frame.trans (Frame.mk' c _ t' hts) hfr, hout'⟩
      · have hstep := step_writing_pending c _ rest _ rest' t' hphase hstop hwa
        refine ⟨0, c, F, by omega, .refl _, .refl _, Or.inl
          ⟨{ c with phase := .parseReq (track cap mc F) (.writing rest' (run .header F mc).st.isFinal), env := { c.env with tr := t' } },
            hstep, ?_, ⟨rfl, rfl, rfl, rfl, hts⟩, hwk, hans⟩⟩
        refine ⟨by simpa [hinp] using hwire, hstop, hben.step hts, hrem, Or.inr ⟨rest', rfl, ?_, opre ++ dn, ?_⟩⟩
        · show t'.wlog ++ rest' = _
          rw [hl, List.append_assoc, ← hd, hlog]
        · rw [hopre, hd, List.append_assoc]

end Fcgi.E2E
