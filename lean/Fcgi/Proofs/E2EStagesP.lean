import Fcgi.Proofs.E2EStages3
/-!
# Generic front stages, handler with either `propagate` mode

`Proofs/E2EStages` / `E2EStages3` fix the handler script's error mode to "propagate" (`?` after every
call).  The same stages for a script run in either mode `pr` (`false`: the handler ignores the errors
of its calls and goes on): `parse_request` of the request up to the configuration in which the handler
is polled for the first time.  The proofs are those of `E2EStages`, the mode is not looked at.
-/
namespace Fcgi.E2E
open Fcgi Fcgi.Req Fcgi.Str Fcgi.Async Fcgi.Run Fcgi.Spec

inductive FStageP (g : Cfg) (pr : Bool) : Conn → Prop
  | start {c : Conn} {raw : Bytes} (hph : c.phase = .parseReq ⟨g.cap, raw, .header, g.mc⟩ .start)
      (hwire : raw ++ c.env.tr.input = g.W) (hraw : raw.length ≤ g.cap) (hlog : c.env.tr.wlog = g.L0)
      (hb : Ben c.env.tr) (hstop : c.stop = false)
      (hsc : c.scripts = (g.hscript, pr) :: g.more) (hm : c.env.mutex = none)
      (hev : hsCount c.env.tr.events = g.hs0) : FStageP g pr c
  | parse {c : Conn} {F : Bytes} (hst : PSt g.cap g.mc g.W g.L0 [] c F)
      (hsc : c.scripts = (g.hscript, pr) :: g.more) (hm : c.env.mutex = none)
      (hev : hsCount c.env.tr.events = g.hs0) : FStageP g pr c

theorem FStageP.cong {g : Cfg} {pr : Bool} {c c' : Conn} (h : FStageP g pr c)
    (hph : c'.phase = c.phase) (hsc : c'.scripts = c.scripts) (hstop : c'.stop = c.stop)
    (hm : c'.env.mutex = c.env.mutex) (hs : TrSame c.env.tr c'.env.tr) : FStageP g pr c' := by
  cases h with
  | start hph0 hwire hraw hlog hb hstop0 hsc0 hm0 hev =>
    exact .start (hph.trans hph0) (by rw [hs.input]; exact hwire) hraw (hs.wlog.trans hlog) (hs.ben hb)
      (hstop.trans hstop0) (hsc.trans hsc0) (hm.trans hm0) (hs.hs.trans hev)
  | parse hst hsc0 hm0 hev =>
    exact .parse (hst.cong hph hstop hs) (hsc.trans hsc0) (hm.trans hm0) (hs.hs.trans hev)

/-- what the variant does from the first poll of the handler -/
def FirstPollP (g : Cfg) (pr : Bool) (S A : Conn → Prop) : Prop :=
  ∀ {c : Conn} {e1 : Bytes},
    c.phase = .handler (AReq.new (Str.Parser.fromParser g.cap g.p.request e1 g.mc))
      { ops := g.hscript, propagate := pr } →
    e1.length ≤ g.cap → e1 ++ c.env.tr.input = g.X → c.env.tr.wlog = g.L1 →
    c.env.mutex = none → Ben c.env.tr → c.stop = false → Ev1 g c.env.tr →
    c.scripts = g.more → GRes S A 4 c

theorem fparse_pollP {g : Cfg} {pr : Bool} (ok : FOK g) {S A : Conn → Prop} (hS : ∀ c, FStageP g pr c → S c)
    (hfirst : FirstPollP g pr S A) {c : Conn} {F : Bytes}
    (hst : PSt g.cap g.mc g.W g.L0 [] c F) (hsc : c.scripts = (g.hscript, pr) :: g.more)
    (hm : c.env.mutex = none) (hev : hsCount c.env.tr.events = g.hs0) :
    GRes S A (2 * c.env.tr.input.length + 8) c := by
  obtain ⟨n, c1, F1, hn, hs, hfr, hout⟩ := parse_loop (cap24 g) ok.ns _ c F hst (Nat.le_refl _)
  have hnb : n ≤ 2 * c.env.tr.input.length + 2 := by have := wbit_le c; omega
  rcases hout with ⟨c2, h1, h2, h3, h4, h5⟩ | ⟨wrest, t', hph, hf, hw, hstop1, hben1, hrem1, hwa, hlog, hts', hinp'⟩ |
      ⟨hin, hnf, hph, hst1⟩
  · refine Or.inl ⟨c2, ⟨n, c1, by omega, hs, h1⟩, hfr.link.trans h3.link, ?_, h4,
      by have := hfr.ts.ans_le; omega⟩
    have hts := hfr.ts.trans h3.ts
    exact hS _ (.parse h2 (h3.scripts.trans (hfr.scripts.trans hsc)) (h3.mutex.trans (hfr.mutex.trans hm))
      (hts.hs.trans hev))
  · -- the preamble is complete and its replies are written: the handler starts
    have hsc1 : c1.scripts = (g.hscript, pr) :: g.more := hfr.scripts.trans hsc
    have hmx1 : c1.env.mutex = none := hfr.mutex.trans hm
    have hw' : F1 ++ c1.env.tr.input = g.W := by simpa using hw
    have hF1 : F1 <+: serAll g.recs ++ g.X := ⟨c1.env.tr.input, by simpa [Cfg.W] using hw'⟩
    rcases C06.run_wire_state ok.wf g.X hF1 g.mc with ⟨e1, hFe, he1, hrun⟩ | ⟨t, _, _, hnf⟩
    · have hd : (track g.cap g.mc F1).state = .done g.p.request := by simp only [track, hrun]
      obtain ⟨r, hrq, hr, hstep⟩ := C07.done_starts_handler c1 (track g.cap g.mc F1) wrest [] t' g.p.request
        hph hstop1 hwa hd
      rw [hsc1] at hstep
      have hcap : (track g.cap g.mc F1).cap = g.cap := rfl
      have hinput : (track g.cap g.mc F1).input = e1 := by simp only [track, hrun]
      have hmc : (track g.cap g.mc F1).maxConns = g.mc := rfl
      rw [hcap, hinput, hmc] at hr
      subst hr
      have hwire : e1 ++ c1.env.tr.input = g.X := by
        have : F1 ++ c1.env.tr.input = serAll g.recs ++ g.X := by simpa [Cfg.W] using hw'
        rw [hFe, List.append_assoc] at this
        exact List.append_cancel_left this
      have he1len : e1.length ≤ g.cap := by
        have := hrem1; rw [hrun] at this; exact this
      have hL1 : t'.wlog = g.L1 := by rw [hlog, hrun]; rfl
      have hstep' : stepConn c1 = .next
          ⟨.handler (AReq.new (Str.Parser.fromParser g.cap g.p.request e1 g.mc))
              { ops := g.hscript, propagate := pr },
            (⟨t', c1.env.mutex, c1.env.segs⟩ : Run.Env).ev (hsEvent g.p.request), g.more, false⟩ := hstep
      have hwsE : WStep c1.env.tr (t'.ev (hsEvent g.p.request)) :=
        hts'.w.trans ⟨List.suffix_refl _, List.suffix_refl _, rfl, rfl, Or.inl rfl, Nat.le_refl _,
          fun s hs => List.mem_append_left _ hs⟩
      have hev1 : Ev1 g (t'.ev (hsEvent g.p.request)) := by
        have h0 : hsCount t'.events = g.hs0 := (hfr.ts.trans hts').hs.trans hev
        constructor
        · show hsCount (t'.events ++ [hsEvent g.p.request]) = g.hs0 + 1
          rw [hsCount_append, h0, hsCount_single_true (isHS_hsEvent _)]
        · show hsEvent g.p.request ∈ t'.events ++ [hsEvent g.p.request]
          simp
      have hben2 : Ben (t'.ev (hsEvent g.p.request)) := hben1.wstep hwsE
      have hcore := hfirst
        (c := ⟨.handler (AReq.new (Str.Parser.fromParser g.cap g.p.request e1 g.mc))
                { ops := g.hscript, propagate := pr },
            (⟨t', c1.env.mutex, c1.env.segs⟩ : Run.Env).ev (hsEvent g.p.request), g.more, false⟩) rfl he1len
        (by show e1 ++ t'.input = g.X; rw [hinp']; exact hwire) hL1 hmx1 hben2 rfl hev1 rfl
      have hres := GRes.of_steps (hs.trans (Steps.one hstep')) (hfr.link.trans ⟨hwsE, rfl, hstop1.symm ▸ rfl⟩) hcore
      exact hres.mono (by omega)
    · rw [hf] at hnf; cases hnf
  · exfalso
    have hF1 : F1 = g.W := by
      have := hst1.wire
      rwa [hin, List.append_nil, List.append_nil] at this
    rcases C06.run_wire_state ok.wf g.X (F := F1) (by rw [hF1]; exact List.prefix_refl _) g.mc with
      ⟨e1, hFe, he1, hrun⟩ | ⟨t, ht, hFt, _⟩
    · rw [hrun] at hnf; cases hnf
    · rw [hF1, Cfg.W] at hFt
      have := congrArg List.length hFt
      have : 0 < t.length := List.length_pos_iff.mpr ht
      simp only [List.length_append] at *
      omega



/-- **One poll** from the `parse_request` of the request. -/
theorem fstage_pollP {g : Cfg} {pr : Bool} (ok : FOK g) {S A : Conn → Prop} (hS : ∀ c, FStageP g pr c → S c)
    (hfirst : FirstPollP g pr S A) {c : Conn} (hst : FStageP g pr c) :
    GRes S A (2 * c.env.tr.input.length + 9) c := by
  cases hst with
  | @start raw hph hwire hraw hlog hb hstop hsc hm hev =>
    have hpre : raw <+: g.W := ⟨c.env.tr.input, hwire⟩
    have hstart := start_track (cap24 g) hraw (ok.ns _ hpre)
    have hstep := step_start c _ hph hstop
    rw [hstart] at hstep
    have hstep' : stepConn c = .next (mkC c (.parseReq (track g.cap g.mc raw)
        (.writing (run .header raw g.mc).out (run .header raw g.mc).st.isFinal)) c.env.tr) := hstep
    have hremle : (run .header raw g.mc).rem.length ≤ g.cap := by
      have := (run_ok raw g.mc (st := .header) trivial).2.2.length_le
      omega
    have hst : PSt g.cap g.mc g.W g.L0 [] (mkC c (.parseReq (track g.cap g.mc raw)
        (.writing (run .header raw g.mc).out (run .header raw g.mc).st.isFinal)) c.env.tr) raw :=
      ⟨by show raw ++ c.env.tr.input ++ [] = g.W
          rw [List.append_nil]; exact hwire,
        hstop, hb, hremle, Or.inr ⟨_, rfl, by show c.env.tr.wlog ++ _ = _; rw [hlog], [], rfl⟩⟩
    have := GRes.of_steps (Steps.one hstep') (mkC_link c _ (.refl _)) (fparse_pollP ok hS hfirst hst hsc hm hev)
    exact this.mono (by show 1 + (2 * c.env.tr.input.length + 8) ≤ _; omega)
  | parse hst hsc hm hev => exact (fparse_pollP ok hS hfirst hst hsc hm hev).mono (by omega)

/-- the front stage at a `StartAt` of a chain -/
theorem fstage_of_startAtP {g : Cfg} {pr : Bool} {left : List Rec} (hleft : LeftOK (alignedBufsize g.b) left) {Lw : Bytes}
    {evs : List String} {A0 : Nat} {c : Conn} (hLw : Lw = g.L0 ++ idleOwed g.mc left)
    (hstart : StartAt g.cap g.mc left Lw ((g.hscript, pr) :: g.more) g.hs0 evs A0 g.W c) :
    FStageP (g.front left) pr c ∧ c.env.segs = [] ∧ c.env.tr.endMode = .pend ∧ ans c.env.tr ≤ A0 ∧
      (∀ s ∈ evs, s ∈ c.env.tr.events) ∧ c.env.tr.input = g.W := by
  have hout := (run_idle_out g.mc left hleft.1).1
  rcases hstart with ⟨c0, w, rfl⟩ | ⟨hl, hph, hin, hlog, hb, hstop, hsc, hm, hhs, hev, hsg, hem, hans⟩
  · obtain ⟨L, hL, hpst⟩ := w.pst g.W
    have hLe : L = g.L0 := by
      rw [hLw, hout] at hL
      exact (List.append_cancel_right hL).symm
    subst hLe
    exact ⟨.parse (F := serAll left) (by rw [Cfg.front_W]; exact hpst) w.sc w.mtx w.hs, w.segs, w.em, w.ans, w.ev, rfl⟩
  · subst hl
    refine ⟨.start (raw := []) hph (by rw [Cfg.front_W, hin]; rfl) (Nat.zero_le _) ?_ hb hstop hsc hm hhs,
      hsg, hem, hans, hev, hin⟩
    rw [hlog, hLw]; simp [idleOwed]; rfl

/-- the configuration in which the handler of the request is polled for the first time -/
def FirstCfgP (g : Cfg) (pr : Bool) (c : Conn) : Prop :=
  ∃ e1, c.phase = .handler (AReq.new (Str.Parser.fromParser g.cap g.p.request e1 g.mc))
      { ops := g.hscript, propagate := pr } ∧
    e1.length ≤ g.cap ∧ e1 ++ c.env.tr.input = g.X ∧ c.env.tr.wlog = g.L1 ∧
    c.env.mutex = none ∧ Ben c.env.tr ∧ c.stop = false ∧ Ev1 g c.env.tr ∧ c.scripts = g.more

/-- **One poll** from the `parse_request` of the request: suspended there, or at the first poll of the
handler. -/
theorem fstage_firstP {g : Cfg} {pr : Bool} (ok : FOK g) {c : Conn} (hst : FStageP g pr c) :
    GRes (FStageP g pr) (FirstCfgP g pr) (2 * c.env.tr.input.length + 9) c :=
  fstage_pollP ok (fun _ h => h) (fun {c e1} h1 h2 h3 h4 h5 h6 h7 h8 h9 =>
    Or.inr ⟨0, c, Nat.zero_le _, .refl _, Link.refl _, e1, h1, h2, h3, h4, h5, h6, h7, h8, h9⟩) hst

/-- … composed with what the variant does from the first poll of the handler -/
theorem fstage_poll3P {g : Cfg} {pr : Bool} (ok : FOK g) {S A Fn : Conn → Prop} (hS : ∀ c, FStageP g pr c → S c)
    (hfirst : ∀ c, FirstCfgP g pr c → GRes3 S A Fn 6 c) {c : Conn} (hst : FStageP g pr c) :
    GRes3 S A Fn (2 * c.env.tr.input.length + 15) c := by
  rcases fstage_firstP ok hst with ⟨c', hh, hl, hS', hw, ha⟩ | ⟨k, c1, hk, hs, hl, hf⟩
  · exact Or.inl (Or.inl ⟨c', hh.mono (by omega), hl, hS c' hS', hw, ha⟩)
  · exact (GRes3.of_steps hs hl (hfirst c1 hf)).mono (by omega)


end Fcgi.E2E
