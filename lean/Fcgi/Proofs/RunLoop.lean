import Fcgi.Model.RunLoop
import Fcgi.Proofs.StrBasics
/-!
# Helper lemmas about the connection-task model (`Model/Async.lean`, `Model/RunLoop.lean`)

* `isHS` / `hsCount`: the "handler started" events of a trace.
* `TLe t t'`: transport `t'` is a later state of `t` within one poll: the event list grew by events
  that are not handler starts, the write log grew, the input shrank from the front.
  Every function of the async model is monotone in this sense (`*_le` lemmas).
* exact write-log lemmas (`writeAllLoop_spec`, reads write nothing).
* `stepConn`: one phase transition of `pollConn`, with `pollConn_succ` — the connection task is the
  iteration of `stepConn`; per-phase lemmas are proved about `stepConn` and lifted by induction on fuel.
-/
namespace Fcgi.Run
open Fcgi Fcgi.Req Fcgi.Str Fcgi.Async

/-! ## Handler-start events -/

/-- the event starts with `"HS("` -/
def isHS (s : String) : Bool :=
  match s.toList with
  | 'H' :: 'S' :: '(' :: _ => true
  | _ => false

/-- number of events starting with `"HS("` -/
def hsCount (evs : List String) : Nat := evs.countP isHS

theorem toString_str (s : String) : toString s = s := rfl

theorem hsCount_append (a b : List String) : hsCount (a ++ b) = hsCount a + hsCount b := by
  simp [hsCount, List.countP_append]

theorem hsCount_nil : hsCount [] = 0 := rfl

theorem hsCount_eq_zero {l : List String} (h : ∀ s ∈ l, isHS s = false) : hsCount l = 0 := by
  simp only [hsCount, List.countP_eq_zero]
  intro s hs; simp [h s hs]

theorem hsCount_single_false {s : String} (h : isHS s = false) : hsCount [s] = 0 := by
  simp [hsCount, List.countP_cons, h]

theorem hsCount_single_true {s : String} (h : isHS s = true) : hsCount [s] = 1 := by
  simp [hsCount, List.countP_cons, h]

/-- a list of events without handler starts -/
def Quiet (l : List String) : Prop := ∀ s ∈ l, isHS s = false

theorem Quiet.nil : Quiet [] := fun _ h => by cases h
theorem Quiet.single {s : String} (h : isHS s = false) : Quiet [s] := by
  intro x hx; simp at hx; subst hx; exact h
theorem Quiet.append {a b : List String} (ha : Quiet a) (hb : Quiet b) : Quiet (a ++ b) := by
  intro s hs; rcases List.mem_append.1 hs with h | h
  · exact ha s h
  · exact hb s h

/-! ## The transport order -/

/-- `t'` is a later state of `t` (within one poll). -/
structure TLe (t t' : Transport) : Prop where
  ev : ∃ new, t'.events = t.events ++ new ∧ Quiet new
  wl : ∃ w, t'.wlog = t.wlog ++ w
  inp : ∃ c, t.input = c ++ t'.input

theorem TLe.refl (t : Transport) : TLe t t :=
  ⟨⟨[], by simp, Quiet.nil⟩, ⟨[], by simp⟩, ⟨[], by simp⟩⟩

theorem TLe.trans {a b c : Transport} (h1 : TLe a b) (h2 : TLe b c) : TLe a c := by
  obtain ⟨⟨n1, e1, q1⟩, ⟨w1, l1⟩, ⟨c1, i1⟩⟩ := h1
  obtain ⟨⟨n2, e2, q2⟩, ⟨w2, l2⟩, ⟨c2, i2⟩⟩ := h2
  exact ⟨⟨n1 ++ n2, by rw [e2, e1, List.append_assoc], q1.append q2⟩,
    ⟨w1 ++ w2, by rw [l2, l1, List.append_assoc]⟩, ⟨c1 ++ c2, by rw [i1, i2, List.append_assoc]⟩⟩

theorem TLe.of_eq {t t' : Transport} (he : t'.events = t.events) (hw : t'.wlog = t.wlog)
    (hi : t'.input = t.input) : TLe t t' :=
  ⟨⟨[], by simp [he], Quiet.nil⟩, ⟨[], by simp [hw]⟩, ⟨[], by simp [hi]⟩⟩

theorem TLe.ev_of (t : Transport) {s : String} (h : isHS s = false) : TLe t (t.ev s) :=
  ⟨⟨[s], rfl, Quiet.single h⟩, ⟨[], by simp [Transport.ev]⟩, ⟨[], by simp [Transport.ev]⟩⟩

theorem TLe.input_len {t t' : Transport} (h : TLe t t') : t'.input.length ≤ t.input.length := by
  obtain ⟨c, hc⟩ := h.inp; rw [hc, List.length_append]; omega

/-- the write log is untouched (reads, flushes) -/
def SameLog (t t' : Transport) : Prop := t'.wlog = t.wlog

theorem TLe.mk' {t t' : Transport} (he : t.events <+: t'.events)
    (hq : Quiet (t'.events.drop t.events.length)) (hw : t.wlog <+: t'.wlog)
    (hi : t'.input <:+ t.input) : TLe t t' := by
  obtain ⟨n, hn⟩ := he
  obtain ⟨w, hw⟩ := hw
  obtain ⟨c, hc⟩ := hi
  refine ⟨⟨n, hn.symm, ?_⟩, ⟨w, hw.symm⟩, ⟨c, hc.symm⟩⟩
  rw [← hn] at hq; simpa using hq

/-! ## Transport primitives -/

/-- case-split everything, simplify, repeat -/
macro "tle_prim" f:ident : tactic =>
  `(tactic| (apply TLe.mk' <;> (unfold $f; repeat' split) <;>
    (try simp [Transport.ev, Quiet, isHS, toString_str, List.drop_suffix]) <;>
    (repeat' split) <;>
    (try simp [Transport.ev, Quiet, isHS, toString_str, List.drop_suffix])))

theorem read_le' (t : Transport) (cap : Nat) : TLe t (t.read cap).1 := by
  tle_prim Transport.read

theorem flush_le' (t : Transport) : TLe t t.flush.1 := by
  tle_prim Transport.flush

theorem writeV_le' (t : Transport) (sl : List Bytes) : TLe t (t.writeV sl "V").1 := by
  tle_prim Transport.writeV

theorem write_le' (t : Transport) (buf : Bytes) : TLe t (t.write buf).1 := by
  unfold Transport.write
  tle_prim Transport.writeV

theorem read_le {t t' : Transport} {cap : Nat} {r : Poll (Except IoErr Bytes)}
    (h : t.read cap = (t', r)) : TLe t t' := by
  have := read_le' t cap; rwa [h] at this

theorem flush_le {t t' : Transport} {r : Poll (Except IoErr Unit)}
    (h : t.flush = (t', r)) : TLe t t' := by
  have := flush_le' t; rwa [h] at this

theorem writeV_le {t t' : Transport} {sl : List Bytes} {r : Poll (Except IoErr Nat)}
    (h : t.writeV sl "V" = (t', r)) : TLe t t' := by
  have := writeV_le' t sl; rwa [h] at this

theorem write_le {t t' : Transport} {buf : Bytes} {r : Poll (Except IoErr Nat)}
    (h : t.write buf = (t', r)) : TLe t t' := by
  have := write_le' t buf; rwa [h] at this

/-- reads never write -/
theorem read_wlog (t : Transport) (cap : Nat) : (t.read cap).1.wlog = t.wlog := by
  unfold Transport.read; repeat' split
  all_goals (try simp [Transport.ev])
  all_goals (repeat' split)
  all_goals (try simp [Transport.ev])

theorem flush_wlog (t : Transport) : t.flush.1.wlog = t.wlog := by
  unfold Transport.flush; repeat' split
  all_goals simp [Transport.ev]

theorem flush_input (t : Transport) : t.flush.1.input = t.input := by
  unfold Transport.flush; repeat' split
  all_goals simp [Transport.ev]

/-- a successful read hands over a prefix of the pending input; it is empty only at end of input
(or for an empty buffer) -/
theorem read_ok {t t' : Transport} {cap : Nat} {bs : Bytes}
    (h : t.read cap = (t', .ready (.ok bs))) :
    t.input = bs ++ t'.input ∧ t'.wlog = t.wlog ∧ (bs = [] → cap = 0 ∨ t.input = []) := by
  refine ⟨?_, by have := read_wlog t cap; rwa [h] at this, ?_⟩
  all_goals
    unfold Transport.read at h
    split at h
    · simp [Transport.ev] at h; obtain ⟨rfl, rfl⟩ := h; simp_all
    · revert h; repeat' split
      all_goals (try simp [Transport.ev])
      all_goals (repeat' split)
      all_goals (try simp [Transport.ev])
      all_goals (intro h1 h2; subst h1; subst h2; simp_all <;> omega)

/-! ## Monotonicity of the async model (`TLe`) -/

theorem writeAllLoop_le : ∀ (fuel : Nat) (buf : Bytes) (t : Transport) {rest : Bytes} {t' : Transport} {res : ORes},
    writeAllLoop fuel buf t = (rest, t', res) → TLe t t' := by
  intro fuel
  induction fuel with
  | zero => intro buf t rest t' res h; simp only [writeAllLoop] at h; cases h; exact .refl _
  | succ n ih =>
    intro buf t rest t' res h
    simp only [writeAllLoop] at h
    split at h
    · cases h; exact .refl _
    · split at h
      · cases h; exact write_le ‹_›
      · cases h; exact write_le ‹_›
      · cases h; exact write_le ‹_›
      · exact (write_le ‹_›).trans (ih _ _ h)

theorem outLoop_le : ∀ (fuel : Nat) (sp : Str.Parser) (t : Transport) {sp' : Str.Parser} {t' : Transport} {res : ORes},
    outLoop fuel sp t = (sp', t', res) → TLe t t' := by
  intro fuel
  induction fuel with
  | zero => intro sp t sp' t' res h; simp only [outLoop] at h; cases h; exact .refl _
  | succ n ih =>
    intro sp t sp' t' res h
    simp only [outLoop] at h
    split at h
    · cases h; exact .refl _
    · split at h
      · cases h; exact write_le ‹_›
      · cases h; exact write_le ‹_›
      · cases h; exact write_le ‹_›
      · exact (write_le ‹_›).trans (ih _ _ h)

theorem writeLoop_le : ∀ (fuel : Nat) (w : Writer) (head buf : Bytes) (t : Transport)
    {w' : Writer} {t' : Transport} {res : WRes},
    writeLoop fuel w head buf t = (w', t', res) → TLe t t' := by
  intro fuel
  induction fuel with
  | zero => intro w head buf t w' t' res h; simp only [writeLoop] at h; cases h; exact .refl _
  | succ n ih =>
    intro w head buf t w' t' res h
    simp only [writeLoop] at h
    split at h
    · cases h; exact .refl _
    · split at h
      · cases h; exact .refl _
      · split at h
        · cases h; exact writeV_le ‹_›
        · cases h; exact writeV_le ‹_›
        · cases h; exact writeV_le ‹_›
        · split at h
          · cases h; exact writeV_le ‹_›
          · exact (writeV_le ‹_›).trans (ih _ _ _ _ h)

theorem pollWrite_le {w : Writer} {me : Nat} {buf : Bytes} {m : MutexSt} {t : Transport}
    {w' : Writer} {m' : MutexSt} {t' : Transport} {res : WRes}
    (h : w.pollWrite me buf m t = (w', m', t', res)) : TLe t t' := by
  simp only [Writer.pollWrite] at h
  split at h
  · cases h; exact .refl _
  · split at h
    · cases h; exact .refl _
    · split at h
      · cases h; exact .refl _
      · split at h
        · cases h; exact .refl _
        · split at h
          · cases h; exact .refl _
          · split at h
            · cases h; exact writeLoop_le _ _ _ _ _ ‹_›
            · cases h; exact writeLoop_le _ _ _ _ _ ‹_›

theorem pollFlush_le {w : Writer} {me : Nat} {m : MutexSt} {t : Transport}
    {w' : Writer} {m' : MutexSt} {t' : Transport} {res : WRes}
    (h : w.pollFlush me m t = (w', m', t', res)) : TLe t t' := by
  simp only [Writer.pollFlush] at h
  repeat' (split at h)
  all_goals (cases h; first | exact .refl _ | exact flush_le ‹_›)

theorem pollOutput_le {r : AReq} {m : MutexSt} {t : Transport}
    {r' : AReq} {m' : MutexSt} {t' : Transport} {res : ORes}
    (h : r.pollOutput m t = (r', m', t', res)) : TLe t t' := by
  simp only [AReq.pollOutput] at h
  repeat' (split at h)
  all_goals (cases h; first | exact .refl _ | exact outLoop_le _ _ _ ‹_›)

theorem inLoop_le : ∀ (fuel : Nat) (r : AReq) (new : Bytes) (dest : Option Nat) (m : MutexSt) (t : Transport)
    {r' : AReq} {m' : MutexSt} {t' : Transport} {res : IRes},
    inLoop fuel r new dest m t = (r', m', t', res) → TLe t t' := by
  intro fuel
  induction fuel with
  | zero => intro r new dest m t r' m' t' res h; simp only [inLoop] at h; cases h; exact .refl _
  | succ n ih =>
    intro r new dest m t r' m' t' res h
    simp only [inLoop] at h
    repeat' (split at h)
    all_goals first
      | (cases h; first | exact .refl _ | exact pollOutput_le ‹_› | exact (pollOutput_le ‹_›).trans (read_le ‹_›))
      | exact ((pollOutput_le ‹_›).trans (read_le ‹_›)).trans (ih _ _ _ _ _ h)

theorem pollInput_le {r : AReq} {dest : Option Nat} {m : MutexSt} {t : Transport}
    {r' : AReq} {m' : MutexSt} {t' : Transport} {res : IRes}
    (h : r.pollInput dest m t = (r', m', t', res)) : TLe t t' := by
  simp only [AReq.pollInput] at h
  repeat' (split at h)
  all_goals first
    | (cases h; first | exact .refl _ | exact pollOutput_le ‹_›)
    | exact (pollOutput_le ‹_›).trans (inLoop_le _ _ _ _ _ _ h)

theorem writeablePoll_le {r : AReq} {started : Bool} {m : MutexSt} {t : Transport}
    {r' : AReq} {b : Bool} {m' : MutexSt} {t' : Transport} {res : ORes}
    (h : r.writeablePoll started m t = (r', b, m', t', res)) : TLe t t' := by
  simp only [AReq.writeablePoll] at h
  repeat' (split at h)
  all_goals (cases h; first | exact .refl _ | exact pollInput_le ‹_›)

theorem boundaryCont_le {n : Nat}
    (ih : ∀ (sp : Str.Parser) (new : Bytes) (t : Transport) {sp' : Str.Parser} {t' : Transport} {res : ORes},
      boundaryLoop n sp new t = (sp', t', res) → TLe t t')
    {sp : Str.Parser} {t : Transport} {sp' : Str.Parser} {t' : Transport} {res : ORes}
    (h : boundaryLoop.cont sp t n = (sp', t', res)) : TLe t t' := by
  simp only [boundaryLoop.cont] at h
  repeat' (split at h)
  all_goals first
    | (cases h; first | exact .refl _ | exact read_le ‹_›)
    | exact (read_le ‹_›).trans (ih _ _ _ h)

theorem boundaryLoop_le : ∀ (fuel : Nat) (sp : Str.Parser) (new : Bytes) (t : Transport)
    {sp' : Str.Parser} {t' : Transport} {res : ORes},
    boundaryLoop fuel sp new t = (sp', t', res) → TLe t t' := by
  intro fuel
  induction fuel with
  | zero => intro sp new t sp' t' res h; simp only [boundaryLoop] at h; cases h; exact .refl _
  | succ n ih =>
    intro sp new t sp' t' res h
    simp only [boundaryLoop] at h
    repeat' (split at h)
    all_goals first
      | (cases h; exact .refl _)
      | exact boundaryCont_le ih h

/-! ## `closePoll` split into its phases -/

abbrev CloseOut := AReq × CloseSt × MutexSt × Transport × CRes
abbrev CloseMid := AReq × MutexSt × Transport × CloseSt

/-- phase 1: `writeable().await` -/
def closeP1 (r : AReq) (st : CloseSt) (m : MutexSt) (t : Transport) : Except CloseOut CloseMid :=
  match st with
  | .start | .inWriteable =>
    match r.writeablePoll (st == .inWriteable) m t with
    | (r, _, m, t, .ready) => .ok (r, m, t, .start)
    | (r, _, m, t, .pending) => .error (r, .inWriteable, m, t, .pending)
    | (r, _, m, t, .err e) => if e == .connectionAborted then .ok (r, m, t, .start) else .error (r, .inWriteable, m, t, .err e)
    | (r, _, m, t, .panic s) => .error (r, .inWriteable, m, t, .panic s)
  | s => .ok (r, m, t, s)

/-- the `record_boundary().await` of phase 2 -/
def closeBoundary (sp : Str.Parser) (resume : Bool) (t : Transport) : Str.Parser × Transport × ORes :=
  if resume then
    match t.read sp.free with
    | (t, .pending) => (sp, t, .pending)
    | (t, .ready (.error e)) => (sp, t, .err e)
    | (t, .ready (.ok [])) => (sp, t, .err .unexpectedEof)
    | (t, .ready (.ok bs)) => boundaryLoop (t.input.length + 2) sp bs t
  else if sp.isRecordBoundary then (sp, t, .ready)
  else boundaryLoop (t.input.length + 2) sp [] t

/-- phase 2: `set_stream(None); record_boundary().await` -/
def closeP2 (r : AReq) (m : MutexSt) (t : Transport) (st : CloseSt) : Except CloseOut CloseMid :=
  match st with
  | .start | .inBoundary =>
    let spRes : Except String (Str.Parser × Bool) :=
      if st == .inBoundary then .ok (r.sp, true)
      else match r.sp.setStream none with
        | .ok sp => .ok (sp, false)
        | _ => .error "async_io:437 ignoring stream data should always be allowed"
    match spRes with
    | .error s => .error (r, st, m, t, .panic s)
    | .ok (sp, resume) =>
      match closeBoundary sp resume t with
      | (sp, t, .ready) => .ok ({ r with sp := sp }, m, t, .start)
      | (sp, t, .pending) => .error ({ r with sp := sp }, .inBoundary, m, t, .pending)
      | (sp, t, .err e) => .error ({ r with sp := sp }, .inBoundary, m, t, .err e)
      | (sp, t, .panic s) => .error ({ r with sp := sp }, .inBoundary, m, t, .panic s)
  | s => .ok (r, m, t, s)

/-- phase 3: build the epilogue, drop the lock, unwrap the `Arc` -/
def closeP3 (r : AReq) (m : MutexSt) (t : Transport) (st : CloseSt) (status : ExitStatus) (alive : Nat) :
    Except CloseOut CloseMid :=
  match st with
  | .start =>
    let streams := if r.writeable then outputStreams r.sp.request.role else []
    let endreq := makeRequestEpilogue r.sp.request.id status streams
    let m := lockDrop r.lock m
    let r := { r with lock := .none }
    if alive > 0 then .error (r, .start, m, t, .err .writersAlive)
    else .ok (r, m, t, .writeOut r.sp.output endreq)
  | s => .ok (r, m, t, s)

/-- phase 4: the two `write_all`s and the reuse decision -/
def closeP4 (r : AReq) (m : MutexSt) (t : Transport) (st : CloseSt) : CloseOut :=
  match st with
  | .writeOut rest endreq =>
    match writeAllLoop (rest.length + 1) rest t with
    | (rest, t, .pending) => (r, .writeOut rest endreq, m, t, .pending)
    | (rest, t, .err e) => (r, .writeOut rest endreq, m, t, .err e)
    | (rest, t, .panic s) => (r, .writeOut rest endreq, m, t, .panic s)
    | (_, t, .ready) =>
      closePoll.finishEnd { r with sp := r.sp.consumeOutput r.sp.output.length } endreq m t
  | .writeEnd rest => closePoll.finishEnd r rest m t
  | s => (r, s, m, t, .panic "model: unreachable close state")

theorem closePoll_eq (r : AReq) (st : CloseSt) (status : ExitStatus) (alive : Nat) (m : MutexSt) (t : Transport) :
    closePoll r st status alive m t =
      match closeP1 r st m t with
      | .error x => x
      | .ok (r, m, t, st) =>
        match closeP2 r m t st with
        | .error x => x
        | .ok (r, m, t, st) =>
          match closeP3 r m t st status alive with
          | .error x => x
          | .ok (r, m, t, st) => closeP4 r m t st := by
  rfl

theorem closeP1_le {r : AReq} {st : CloseSt} {m : MutexSt} {t : Transport} :
    (∀ {r' m' t' st'}, closeP1 r st m t = .ok (r', m', t', st') → TLe t t') ∧
    (∀ {r' cs' m' t' res}, closeP1 r st m t = .error (r', cs', m', t', res) → TLe t t') := by
  constructor
  all_goals
    intros
    rename_i h
    simp only [closeP1] at h
    repeat' (split at h)
    all_goals (cases h <;> first | exact .refl _ | exact writeablePoll_le ‹_›)

theorem closeBoundary_le {sp : Str.Parser} {resume : Bool} {t : Transport}
    {sp' : Str.Parser} {t' : Transport} {res : ORes}
    (h : closeBoundary sp resume t = (sp', t', res)) : TLe t t' := by
  simp only [closeBoundary] at h
  repeat' (split at h)
  all_goals first
    | (cases h; first | exact .refl _ | exact read_le ‹_›)
    | exact boundaryLoop_le _ _ _ _ h
    | exact (read_le ‹_›).trans (boundaryLoop_le _ _ _ _ h)

theorem closeP2_le {r : AReq} {st : CloseSt} {m : MutexSt} {t : Transport} :
    (∀ {r' m' t' st'}, closeP2 r m t st = .ok (r', m', t', st') → TLe t t') ∧
    (∀ {r' cs' m' t' res}, closeP2 r m t st = .error (r', cs', m', t', res) → TLe t t') := by
  constructor
  all_goals
    intros
    rename_i h
    simp only [closeP2] at h
    repeat' (split at h)
    all_goals (cases h <;> first | exact .refl _ | exact closeBoundary_le ‹_›)

theorem closeP3_le {r : AReq} {st : CloseSt} {m : MutexSt} {t : Transport} {status : ExitStatus} {alive : Nat} :
    (∀ {r' m' t' st'}, closeP3 r m t st status alive = .ok (r', m', t', st') → t' = t) ∧
    (∀ {r' cs' m' t' res}, closeP3 r m t st status alive = .error (r', cs', m', t', res) → t' = t) := by
  constructor
  all_goals
    intros
    rename_i h
    simp only [closeP3] at h
    repeat' (split at h)
    all_goals (cases h <;> rfl)

theorem finishEnd_le {r : AReq} {rest : Bytes} {m : MutexSt} {t : Transport}
    {r' : AReq} {cs' : CloseSt} {m' : MutexSt} {t' : Transport} {res : CRes}
    (h : closePoll.finishEnd r rest m t = (r', cs', m', t', res)) : TLe t t' := by
  simp only [closePoll.finishEnd] at h
  repeat' (split at h)
  all_goals (cases h; exact writeAllLoop_le _ _ _ ‹_›)

theorem closeP4_le {r : AReq} {st : CloseSt} {m : MutexSt} {t : Transport}
    {r' : AReq} {cs' : CloseSt} {m' : MutexSt} {t' : Transport} {res : CRes}
    (h : closeP4 r m t st = (r', cs', m', t', res)) : TLe t t' := by
  simp only [closeP4] at h
  repeat' (split at h)
  all_goals first
    | (cases h; first | exact .refl _ | exact writeAllLoop_le _ _ _ ‹_›)
    | exact finishEnd_le h
    | exact (writeAllLoop_le _ _ _ ‹_›).trans (finishEnd_le h)

theorem closePoll_le {r : AReq} {st : CloseSt} {status : ExitStatus} {alive : Nat} {m : MutexSt} {t : Transport}
    {r' : AReq} {cs' : CloseSt} {m' : MutexSt} {t' : Transport} {res : CRes}
    (h : closePoll r st status alive m t = (r', cs', m', t', res)) : TLe t t' := by
  rw [closePoll_eq] at h
  split at h
  · subst h; exact closeP1_le.2 ‹_›
  · have h1 := closeP1_le.1 ‹closeP1 r st m t = _›
    split at h
    · subst h; exact h1.trans (closeP2_le.2 ‹_›)
    · have h2 := h1.trans (closeP2_le.1 ‹closeP2 _ _ _ _ = _›)
      split at h
      · subst h; have := closeP3_le.2 ‹closeP3 _ _ _ _ _ _ = _›; subst this; exact h2
      · have := closeP3_le.1 ‹closeP3 _ _ _ _ _ _ = _›; subst this
        exact h2.trans (closeP4_le h)

/-! ## The handler interpreter -/

macro "hp_pre" : tactic => `(tactic| first
  | exact pollInput_le ‹_›
  | exact writeablePoll_le ‹_›
  | exact pollWrite_le ‹_›
  | exact pollFlush_le ‹_›
  | exact TLe.refl _)

macro "hp_mid" : tactic => `(tactic| first
  | hp_pre
  | (refine TLe.trans ?_ (TLe.ev_of _ ?_) <;> first | hp_pre | simp [isHS, toString_str]))

theorem handlerPoll_le : ∀ (fuel : Nat) (r : AReq) (h : HState) (e : Env)
    {r' : AReq} {h' : HState} {e' : Env} {res : HRes},
    handlerPoll fuel r h e = (r', h', e', res) → TLe e.tr e'.tr := by
  intro fuel
  induction fuel with
  | zero => intro r h e r' h' e' res hh; simp only [handlerPoll] at hh; cases hh; exact .refl _
  | succ n ih =>
    intro r h e r' h' e' res hh
    simp only [handlerPoll] at hh
    repeat' (split at hh)
    all_goals first
      | (cases hh; hp_mid)
      | (refine TLe.trans ?_ (ih _ _ _ hh); hp_mid)

/-! ## One phase transition of the connection task -/

/-- Outcome of one phase transition: continue (in the same poll) with a new configuration, or the
poll ends. -/
inductive Step
  | next (c : Conn)
  | halt (c : Conn) (r : PRes)

/-- handler fuel passed by `pollConn` -/
def handlerFuel (e : Env) : Nat := 1000 + e.tr.input.length * 4 + (e.segs.map (·.2.length)).sum * 4

/-- The body of `pollConn` with the recursive calls replaced by `.next`. -/
def stepConn (c : Conn) : Step :=
  match c.phase with
  | .finished => .halt c .finished
  | .parseReq rp sub =>
    if c.stop then .halt { c with phase := .finished, env := c.env } .finished
    else
      match sub with
      | .start =>
        match rp.parse [] with
        | (_, none) => .halt c (.panic "request parser panicked")
        | (rp, some y) => .next { c with phase := .parseReq rp (.writing y.output y.done) }
      | .reading =>
        match c.env.tr.read rp.free with
        | (t, .pending) => .halt { c with env := { c.env with tr := t } } .pending
        | (t, .ready (.error _)) => .halt { c with phase := .finished, env := { c.env with tr := t } } .finished
        | (t, .ready (.ok [])) => .halt { c with phase := .finished, env := { c.env with tr := t } } .finished
        | (t, .ready (.ok bs)) =>
          match rp.parse bs with
          | (_, none) => .halt { c with env := { c.env with tr := t } } (.panic "request parser panicked")
          | (rp, some y) =>
            .next { c with phase := .parseReq rp (.writing y.output y.done), env := { c.env with tr := t } }
      | .writing rest done =>
        match writeAllLoop (rest.length + 1) rest c.env.tr with
        | (rest, t, .pending) => .halt { c with phase := .parseReq rp (.writing rest done), env := { c.env with tr := t } } .pending
        | (_, t, .err _) => .halt { c with phase := .finished, env := { c.env with tr := t } } .finished
        | (_, t, .panic s) => .halt { c with env := { c.env with tr := t } } (.panic s)
        | (_, t, .ready) =>
          let c := { c with env := { c.env with tr := t } }
          if !done then .next { c with phase := .parseReq rp .reading }
          else match rp.intoStreamParser with
            | .error _ => .halt { c with phase := .finished, env := c.env } .finished
            | .ok sp =>
              let r := AReq.new sp
              let (ops, prop, scripts) := match c.scripts with | [] => ([], true, []) | (o, p) :: s => (o, p, s)
              let rq := sp.request
              let env' := c.env.ev s!"HS({rq.role},{rq.flags.toNat},{showEnvLine rq.env})"
              let hs : HState := { ops := ops, propagate := prop }
              .next { c with phase := .handler r hs, scripts := scripts, env := env' }
  | .handler r h =>
    match handlerPoll (1000 + c.env.tr.input.length * 4 + (c.env.segs.map (·.2.length)).sum * 4) r h c.env with
    | (r, h, e, .pending) => .halt { c with phase := .handler r h, env := e } .pending
    | (_, _, e, .panic s) => .halt { c with env := e } (.panic s)
    | (r, h, e, .done res) =>
      let alive := (h.writers.filter Option.isSome).length
      match res with
      | .ok st => .next { c with phase := .closing r .start st alive, env := e.ev s!"HE(ok:{showStatus st})" }
      | .error x =>
        if x == .connectionAborted then
          .next { c with phase := .closing r .start ExitStatus.abort alive, env := e.ev "HE(err:aborted)" }
        else .halt { c with phase := .finished, env := e.ev s!"HE(err:{showIo x})" } .finished
  | .closing r cs status alive =>
    match closePoll r cs status alive c.env.mutex c.env.tr with
    | (r, cs, m, t, .pending) => .halt { c with phase := .closing r cs status alive, env := { c.env with mutex := m, tr := t } } .pending
    | (_, _, m, t, .panic s) => .halt { c with env := { c.env with mutex := m, tr := t } } (.panic s)
    | (_, _, m, t, .err _) => .halt { c with phase := .finished, env := { c.env with mutex := m, tr := t } } .finished
    | (_, _, m, t, .reuse rp) => .next { c with phase := .parseReq rp .start, env := { c.env with mutex := m, tr := t } }

/-- continue with `f` after a `.next`, stop at a `.halt` -/
def Step.run (f : Conn → Conn × PRes) : Step → Conn × PRes
  | .next c' => f c'
  | .halt c' r => (c', r)

/-- `pollConn` is the iteration of `stepConn`. -/
theorem pollConn_succ (fuel : Nat) (c : Conn) :
    pollConn (fuel + 1) c = (stepConn c).run (pollConn fuel) := by
  obtain ⟨phase, env, scripts, stop⟩ := c
  cases phase with
  | finished => rfl
  | parseReq rp sub =>
    cases stop
    · cases sub with
      | start =>
        simp only [pollConn, stepConn]
        generalize rp.parse [] = x
        obtain ⟨a, b⟩ := x
        cases b <;> rfl
      | reading =>
        simp only [pollConn, stepConn]
        generalize env.tr.read rp.free = x
        obtain ⟨t, pr⟩ := x
        cases pr with
        | pending => rfl
        | ready ex =>
          cases ex with
          | error e => rfl
          | ok bs =>
            cases bs with
            | nil => rfl
            | cons b bs =>
              simp only []
              generalize rp.parse (b :: bs) = x
              obtain ⟨a, b⟩ := x
              cases b <;> rfl
      | writing rest done =>
        simp only [pollConn, stepConn]
        generalize writeAllLoop (rest.length + 1) rest env.tr = x
        obtain ⟨a, t, res⟩ := x
        cases res with
        | ready =>
          simp only []
          cases done
          · rfl
          · cases rp.intoStreamParser <;> rfl
        | _ => rfl
    · rfl
  | handler r h =>
    simp only [pollConn, stepConn]
    generalize handlerPoll _ r h env = x
    obtain ⟨r', h', e, res⟩ := x
    cases res with
    | done res =>
      cases res with
      | ok st => rfl
      | error x => simp only []; split <;> rfl
    | _ => rfl
  | closing r cs status alive =>
    simp only [pollConn, stepConn]
    generalize closePoll r cs status alive env.mutex env.tr = x
    obtain ⟨r', cs', m, t, res⟩ := x
    cases res <;> rfl

theorem pollConn_zero (c : Conn) : pollConn 0 c = (c, .panic "model: connection fuel exhausted") := rfl

/-! ## What a phase transition does to the trace, the flag and the script list -/

def Step.conn : Step → Conn
  | .next c => c
  | .halt c _ => c

/-- the `HS(…)` event of a request -/
def hsEvent (rq : Request) : String := s!"HS({rq.role},{rq.flags.toNat},{showEnvLine rq.env})"

theorem isHS_hsEvent (rq : Request) : isHS (hsEvent rq) = true := by
  simp [isHS, hsEvent, toString_str]

/-- `c'` is a later configuration of the same connection task: the flag is unchanged, the trace grew,
one script was consumed per `HS(` event, and with the flag raised there was no `HS(` event. -/
structure CLe (c c' : Conn) : Prop where
  stop : c'.stop = c.stop
  ev : ∃ new, c'.env.tr.events = c.env.tr.events ++ new ∧ c'.scripts = c.scripts.drop (hsCount new) ∧
        (c.stop = true → Quiet new)
  wl : ∃ w, c'.env.tr.wlog = c.env.tr.wlog ++ w
  inp : ∃ d, c.env.tr.input = d ++ c'.env.tr.input

theorem CLe.refl (c : Conn) : CLe c c :=
  ⟨rfl, ⟨[], by simp, by simp [hsCount], fun _ => Quiet.nil⟩, ⟨[], by simp⟩, ⟨[], by simp⟩⟩

theorem CLe.trans {a b c : Conn} (h1 : CLe a b) (h2 : CLe b c) : CLe a c := by
  obtain ⟨s1, ⟨n1, e1, sc1, q1⟩, ⟨w1, l1⟩, ⟨d1, i1⟩⟩ := h1
  obtain ⟨s2, ⟨n2, e2, sc2, q2⟩, ⟨w2, l2⟩, ⟨d2, i2⟩⟩ := h2
  refine ⟨s2.trans s1, ⟨n1 ++ n2, by rw [e2, e1, List.append_assoc], ?_, ?_⟩,
    ⟨w1 ++ w2, by rw [l2, l1, List.append_assoc]⟩, ⟨d1 ++ d2, by rw [i1, i2, List.append_assoc]⟩⟩
  · rw [sc2, sc1, List.drop_drop, hsCount_append]
  · intro hs; exact (q1 hs).append (q2 (s1.trans hs))

theorem CLe.of_tle {c c' : Conn} (hs : c'.stop = c.stop) (hsc : c'.scripts = c.scripts)
    (h : TLe c.env.tr c'.env.tr) : CLe c c' := by
  obtain ⟨⟨n, e, q⟩, w, d⟩ := h
  exact ⟨hs, ⟨n, e, by rw [hsCount_eq_zero q]; simpa using hsc, fun _ => q⟩, w, d⟩

theorem CLe.hs_start {c : Conn} {t : Transport} (hstop : c.stop = false) (ht : TLe c.env.tr t)
    (rq : Request) (ph : Phase) :
    CLe c { phase := ph, env := ({ c.env with tr := t }).ev (hsEvent rq), scripts := c.scripts.drop 1,
            stop := c.stop } := by
  obtain ⟨⟨n, e, q⟩, ⟨w, hw⟩, ⟨d, hd⟩⟩ := ht
  refine ⟨rfl, ⟨n ++ [hsEvent rq], ?_, ?_, fun hf => by rw [hstop] at hf; cases hf⟩, ⟨w, hw⟩, ⟨d, hd⟩⟩
  · show (t.events ++ [hsEvent rq]) = _
    rw [e, List.append_assoc]
  · rw [hsCount_append, hsCount_eq_zero q, hsCount_single_true (isHS_hsEvent _)]

theorem stepConn_cle (c : Conn) : CLe c (stepConn c).conn := by
  obtain ⟨phase, env, scripts, stop⟩ := c
  cases phase with
  | finished => exact .refl _
  | handler r h =>
    simp only [stepConn]
    repeat' split
    all_goals
      refine CLe.of_tle rfl rfl ?_
      first
        | exact handlerPoll_le _ _ _ _ ‹_›
        | exact (handlerPoll_le _ _ _ _ ‹_›).trans (TLe.ev_of _ (by simp [isHS, toString_str]))
  | closing r cs status alive =>
    simp only [stepConn]
    repeat' split
    all_goals exact CLe.of_tle rfl rfl (closePoll_le ‹_›)
  | parseReq rp sub =>
    cases stop with
    | true => exact CLe.of_tle rfl rfl (.refl _)
    | false =>
      cases sub with
      | start =>
        simp only [stepConn, Bool.false_eq_true, if_false]
        repeat' split
        all_goals exact CLe.of_tle rfl rfl (.refl _)
      | reading =>
        simp only [stepConn, Bool.false_eq_true, if_false]
        repeat' split
        all_goals exact CLe.of_tle rfl rfl (read_le ‹_›)
      | writing rest done =>
        simp only [stepConn, Bool.false_eq_true, if_false]
        repeat' split
        all_goals first
          | exact CLe.of_tle rfl rfl (writeAllLoop_le _ _ _ ‹_›)
          | exact CLe.hs_start rfl (writeAllLoop_le _ _ _ ‹_›) _ _

end Fcgi.Run
