import Fcgi.Model.RunLoop
import Fcgi.Proofs.StrBasics
/-!
# Helper lemmas about the connection-task model (`Model/Async.lean`, `Model/RunLoop.lean`)

* `isHS` / `hsCount`: the "handler started" events of a trace.
* `TLe t t'`: transport `t'` is a later state of `t` within one poll: the event list grew by events
  that are not handler starts, the write log grew, the input shrank from the front.
  Every function of the async model is monotone in this sense (`*_le` lemmas).
* exact write-log lemmas (`writeAllLoop_spec`, reads write nothing).
* `stepConn`: one phase transition of `pollConn`, with `pollConn_succ` — the connection task is the
  iteration of `stepConn`; per-phase lemmas are proved about `stepConn` and lifted by induction on fuel.
-/
namespace Fcgi.Run
open Fcgi Fcgi.Req Fcgi.Str Fcgi.Async

/-! ## Handler-start events -/

/-- the event starts with `"HS("` -/
def isHS (s : String) : Bool :=
  match s.toList with
  | 'H' :: 'S' :: '(' :: _ => true
  | _ => false

/-- number of events starting with `"HS("` -/
def hsCount (evs : List String) : Nat := evs.countP isHS

theorem toString_str (s : String) : toString s = s := rfl

theorem hsCount_append (a b : List String) : hsCount (a ++ b) = hsCount a + hsCount b := by
  simp [hsCount, List.countP_append]

theorem hsCount_nil : hsCount [] = 0 := rfl

theorem hsCount_eq_zero {l : List String} (h : ∀ s ∈ l, isHS s = false) : hsCount l = 0 := by
  simp only [hsCount, List.countP_eq_zero]
  intro s hs; simp [h s hs]

theorem hsCount_single_false {s : String} (h : isHS s = false) : hsCount [s] = 0 := by
  simp [hsCount, h]

theorem hsCount_single_true {s : String} (h : isHS s = true) : hsCount [s] = 1 := by
  simp [hsCount, h]

/-- a list of events without handler starts -/
def Quiet (l : List String) : Prop := ∀ s ∈ l, isHS s = false

theorem Quiet.nil : Quiet [] := fun _ h => by cases h
theorem Quiet.single {s : String} (h : isHS s = false) : Quiet [s] := by
  intro x hx; simp at hx; subst hx; exact h
theorem Quiet.append {a b : List String} (ha : Quiet a) (hb : Quiet b) : Quiet (a ++ b) := by
  intro s hs; rcases List.mem_append.1 hs with h | h
  · exact ha s h
  · exact hb s h

/-! ## The transport order -/

/-- `t'` is a later state of `t` (within one poll). -/
structure TLe (t t' : Transport) : Prop where
  ev : ∃ new, t'.events = t.events ++ new ∧ Quiet new
  wl : ∃ w, t'.wlog = t.wlog ++ w
  inp : ∃ c, t.input = c ++ t'.input

theorem TLe.refl (t : Transport) : TLe t t :=
  ⟨⟨[], by simp, Quiet.nil⟩, ⟨[], by simp⟩, ⟨[], by simp⟩⟩

theorem TLe.trans {a b c : Transport} (h1 : TLe a b) (h2 : TLe b c) : TLe a c := by
  obtain ⟨⟨n1, e1, q1⟩, ⟨w1, l1⟩, ⟨c1, i1⟩⟩ := h1
  obtain ⟨⟨n2, e2, q2⟩, ⟨w2, l2⟩, ⟨c2, i2⟩⟩ := h2
  exact ⟨⟨n1 ++ n2, by rw [e2, e1, List.append_assoc], q1.append q2⟩,
    ⟨w1 ++ w2, by rw [l2, l1, List.append_assoc]⟩, ⟨c1 ++ c2, by rw [i1, i2, List.append_assoc]⟩⟩

theorem TLe.of_eq {t t' : Transport} (he : t'.events = t.events) (hw : t'.wlog = t.wlog)
    (hi : t'.input = t.input) : TLe t t' :=
  ⟨⟨[], by simp [he], Quiet.nil⟩, ⟨[], by simp [hw]⟩, ⟨[], by simp [hi]⟩⟩

theorem TLe.ev_of (t : Transport) {s : String} (h : isHS s = false) : TLe t (t.ev s) :=
  ⟨⟨[s], rfl, Quiet.single h⟩, ⟨[], by simp [Transport.ev]⟩, ⟨[], by simp [Transport.ev]⟩⟩

theorem TLe.input_len {t t' : Transport} (h : TLe t t') : t'.input.length ≤ t.input.length := by
  obtain ⟨c, hc⟩ := h.inp; rw [hc, List.length_append]; omega

/-- the write log is untouched (reads, flushes) -/
def SameLog (t t' : Transport) : Prop := t'.wlog = t.wlog

theorem TLe.mk' {t t' : Transport} (he : t.events <+: t'.events)
    (hq : Quiet (t'.events.drop t.events.length)) (hw : t.wlog <+: t'.wlog)
    (hi : t'.input <:+ t.input) : TLe t t' := by
  obtain ⟨n, hn⟩ := he
  obtain ⟨w, hw⟩ := hw
  obtain ⟨c, hc⟩ := hi
  refine ⟨⟨n, hn.symm, ?_⟩, ⟨w, hw.symm⟩, ⟨c, hc.symm⟩⟩
  rw [← hn] at hq; simpa using hq

/-! ## Transport primitives -/

/-- case-split everything, simplify, repeat -/
macro "tle_prim" f:ident : tactic =>
  `(tactic| (apply TLe.mk' <;> (unfold $f; repeat' split) <;>
    (try simp [Transport.ev, Quiet, isHS, toString_str, List.drop_suffix]) <;>
    (repeat' split) <;>
    (try simp [Transport.ev, Quiet, isHS, toString_str, List.drop_suffix])))

theorem read_le' (t : Transport) (cap : Nat) : TLe t (t.read cap).1 := by
  tle_prim Transport.read

theorem flush_le' (t : Transport) : TLe t t.flush.1 := by
  tle_prim Transport.flush

theorem writeV_le' (t : Transport) (sl : List Bytes) : TLe t (t.writeV sl "V").1 := by
  tle_prim Transport.writeV

theorem write_le' (t : Transport) (buf : Bytes) : TLe t (t.write buf).1 := by
  unfold Transport.write
  tle_prim Transport.writeV

theorem read_le {t t' : Transport} {cap : Nat} {r : Poll (Except IoErr Bytes)}
    (h : t.read cap = (t', r)) : TLe t t' := by
  have := read_le' t cap; rwa [h] at this

theorem flush_le {t t' : Transport} {r : Poll (Except IoErr Unit)}
    (h : t.flush = (t', r)) : TLe t t' := by
  have := flush_le' t; rwa [h] at this

theorem writeV_le {t t' : Transport} {sl : List Bytes} {r : Poll (Except IoErr Nat)}
    (h : t.writeV sl "V" = (t', r)) : TLe t t' := by
  have := writeV_le' t sl; rwa [h] at this

theorem write_le {t t' : Transport} {buf : Bytes} {r : Poll (Except IoErr Nat)}
    (h : t.write buf = (t', r)) : TLe t t' := by
  have := write_le' t buf; rwa [h] at this

/-- reads never write -/
theorem read_wlog (t : Transport) (cap : Nat) : (t.read cap).1.wlog = t.wlog := by
  unfold Transport.read; repeat' split
  all_goals (try simp [Transport.ev])
  all_goals (repeat' split)
  all_goals (try simp)

theorem flush_wlog (t : Transport) : t.flush.1.wlog = t.wlog := by
  unfold Transport.flush; repeat' split
  all_goals simp [Transport.ev]

theorem flush_input (t : Transport) : t.flush.1.input = t.input := by
  unfold Transport.flush; repeat' split
  all_goals simp [Transport.ev]

/-- a successful read hands over a prefix of the pending input; it is empty only at end of input
(or for an empty buffer) -/
theorem read_ok {t t' : Transport} {cap : Nat} {bs : Bytes}
    (h : t.read cap = (t', .ready (.ok bs))) :
    t.input = bs ++ t'.input ∧ t'.wlog = t.wlog ∧ (bs = [] → cap = 0 ∨ t.input = []) := by
  refine ⟨?_, by have := read_wlog t cap; rwa [h] at this, ?_⟩
  all_goals
    unfold Transport.read at h
    split at h
    · simp [Transport.ev] at h; obtain ⟨rfl, rfl⟩ := h; simp_all
    · revert h; repeat' split
      all_goals (try simp [Transport.ev])
      all_goals (repeat' split)
      all_goals (try simp)
      all_goals (intro h1 h2; subst h1; subst h2; simp_all <;> omega)

/-! ## Monotonicity of the async model (`TLe`) -/

theorem writeAllLoop_le : ∀ (fuel : Nat) (buf : Bytes) (t : Transport) {rest : Bytes} {t' : Transport} {res : ORes},
    writeAllLoop fuel buf t = (rest, t', res) → TLe t t' := by
  intro fuel
  induction fuel with
  | zero => intro buf t rest t' res h; simp only [writeAllLoop] at h; cases h; exact .refl _
  | succ n ih =>
    intro buf t rest t' res h
    simp only [writeAllLoop] at h
    split at h
    · cases h; exact .refl _
    · split at h
      · cases h; exact write_le ‹_›
      · cases h; exact write_le ‹_›
      · cases h; exact write_le ‹_›
      · exact (write_le ‹_›).trans (ih _ _ h)

theorem outLoop_le : ∀ (fuel : Nat) (sp : Str.Parser) (t : Transport) {sp' : Str.Parser} {t' : Transport} {res : ORes},
    outLoop fuel sp t = (sp', t', res) → TLe t t' := by
  intro fuel
  induction fuel with
  | zero => intro sp t sp' t' res h; simp only [outLoop] at h; cases h; exact .refl _
  | succ n ih =>
    intro sp t sp' t' res h
    simp only [outLoop] at h
    split at h
    · cases h; exact .refl _
    · split at h
      · cases h; exact write_le ‹_›
      · cases h; exact write_le ‹_›
      · cases h; exact write_le ‹_›
      · exact (write_le ‹_›).trans (ih _ _ h)

theorem writeLoop_le : ∀ (fuel : Nat) (w : Writer) (head buf : Bytes) (t : Transport)
    {w' : Writer} {t' : Transport} {res : WRes},
    writeLoop fuel w head buf t = (w', t', res) → TLe t t' := by
  intro fuel
  induction fuel with
  | zero => intro w head buf t w' t' res h; simp only [writeLoop] at h; cases h; exact .refl _
  | succ n ih =>
    intro w head buf t w' t' res h
    simp only [writeLoop] at h
    split at h
    · cases h; exact .refl _
    · split at h
      · cases h; exact .refl _
      · split at h
        · cases h; exact writeV_le ‹_›
        · cases h; exact writeV_le ‹_›
        · cases h; exact writeV_le ‹_›
        · split at h
          · cases h; exact writeV_le ‹_›
          · exact (writeV_le ‹_›).trans (ih _ _ _ _ h)

theorem pollWrite_le {w : Writer} {me : Nat} {buf : Bytes} {m : MutexSt} {t : Transport}
    {w' : Writer} {m' : MutexSt} {t' : Transport} {res : WRes}
    (h : w.pollWrite me buf m t = (w', m', t', res)) : TLe t t' := by
  simp only [Writer.pollWrite] at h
  split at h
  · cases h; exact .refl _
  · split at h
    · cases h; exact .refl _
    · split at h
      · cases h; exact .refl _
      · split at h
        · cases h; exact .refl _
        · split at h
          · cases h; exact .refl _
          · split at h
            · cases h; exact writeLoop_le _ _ _ _ _ ‹_›
            · cases h; exact writeLoop_le _ _ _ _ _ ‹_›

theorem pollFlush_le {w : Writer} {me : Nat} {m : MutexSt} {t : Transport}
    {w' : Writer} {m' : MutexSt} {t' : Transport} {res : WRes}
    (h : w.pollFlush me m t = (w', m', t', res)) : TLe t t' := by
  simp only [Writer.pollFlush] at h
  repeat' (split at h)
  all_goals (cases h; first | exact .refl _ | exact flush_le ‹_›)

theorem pollOutput_le {r : AReq} {m : MutexSt} {t : Transport}
    {r' : AReq} {m' : MutexSt} {t' : Transport} {res : ORes}
    (h : r.pollOutput m t = (r', m', t', res)) : TLe t t' := by
  simp only [AReq.pollOutput] at h
  repeat' (split at h)
  all_goals (cases h; first | exact .refl _ | exact outLoop_le _ _ _ ‹_›)

theorem inLoop_le : ∀ (fuel : Nat) (r : AReq) (new : Bytes) (dest : Option Nat) (m : MutexSt) (t : Transport)
    {r' : AReq} {m' : MutexSt} {t' : Transport} {res : IRes},
    inLoop fuel r new dest m t = (r', m', t', res) → TLe t t' := by
  intro fuel
  induction fuel with
  | zero => intro r new dest m t r' m' t' res h; simp only [inLoop] at h; cases h; exact .refl _
  | succ n ih =>
    intro r new dest m t r' m' t' res h
    simp only [inLoop] at h
    repeat' (split at h)
    all_goals first
      | (cases h; first | exact .refl _ | exact pollOutput_le ‹_› | exact (pollOutput_le ‹_›).trans (read_le ‹_›))
      | exact ((pollOutput_le ‹_›).trans (read_le ‹_›)).trans (ih _ _ _ _ _ h)

theorem pollInput_le {r : AReq} {dest : Option Nat} {m : MutexSt} {t : Transport}
    {r' : AReq} {m' : MutexSt} {t' : Transport} {res : IRes}
    (h : r.pollInput dest m t = (r', m', t', res)) : TLe t t' := by
  simp only [AReq.pollInput] at h
  repeat' (split at h)
  all_goals first
    | (cases h; first | exact .refl _ | exact pollOutput_le ‹_›)
    | exact (pollOutput_le ‹_›).trans (inLoop_le _ _ _ _ _ _ h)

theorem writeablePoll_le {r : AReq} {started : Bool} {m : MutexSt} {t : Transport}
    {r' : AReq} {b : Bool} {m' : MutexSt} {t' : Transport} {res : ORes}
    (h : r.writeablePoll started m t = (r', b, m', t', res)) : TLe t t' := by
  simp only [AReq.writeablePoll] at h
  repeat' (split at h)
  all_goals (cases h; first | exact .refl _ | exact pollInput_le ‹_›)

theorem boundaryCont_le {n : Nat}
    (ih : ∀ (sp : Str.Parser) (new : Bytes) (t : Transport) {sp' : Str.Parser} {t' : Transport} {res : ORes},
      boundaryLoop n sp new t = (sp', t', res) → TLe t t')
    {sp : Str.Parser} {t : Transport} {sp' : Str.Parser} {t' : Transport} {res : ORes}
    (h : boundaryLoop.cont sp t n = (sp', t', res)) : TLe t t' := by
  simp only [boundaryLoop.cont] at h
  repeat' (split at h)
  all_goals first
    | (cases h; first | exact .refl _ | exact read_le ‹_›)
    | exact (read_le ‹_›).trans (ih _ _ _ h)

theorem boundaryLoop_le : ∀ (fuel : Nat) (sp : Str.Parser) (new : Bytes) (t : Transport)
    {sp' : Str.Parser} {t' : Transport} {res : ORes},
    boundaryLoop fuel sp new t = (sp', t', res) → TLe t t' := by
  intro fuel
  induction fuel with
  | zero => intro sp new t sp' t' res h; simp only [boundaryLoop] at h; cases h; exact .refl _
  | succ n ih =>
    intro sp new t sp' t' res h
    simp only [boundaryLoop] at h
    repeat' (split at h)
    all_goals first
      | (cases h; exact .refl _)
      | exact boundaryCont_le ih h

/-! ## `closePoll` split into its phases -/

abbrev CloseOut := AReq × CloseSt × MutexSt × Transport × CRes
abbrev CloseMid := AReq × MutexSt × Transport × CloseSt

/-- phase 1: `writeable().await` -/
def closeP1 (r : AReq) (st : CloseSt) (m : MutexSt) (t : Transport) : Except CloseOut CloseMid :=
  match st with
  | .start | .inWriteable =>
    match r.writeablePoll (st == .inWriteable) m t with
    | (r, _, m, t, .ready) => .ok (r, m, t, .start)
    | (r, _, m, t, .pending) => .error (r, .inWriteable, m, t, .pending)
    | (r, _, m, t, .err e) => if e == .abortRequest then .ok (r, m, t, .start) else .error (r, .inWriteable, m, t, .err e)
    | (r, _, m, t, .panic s) => .error (r, .inWriteable, m, t, .panic s)
  | s => .ok (r, m, t, s)

/-- the `record_boundary().await` of phase 2 -/
def closeBoundary (sp : Str.Parser) (resume : Bool) (t : Transport) : Str.Parser × Transport × ORes :=
  if resume then
    match t.read sp.free with
    | (t, .pending) => (sp, t, .pending)
    | (t, .ready (.error e)) => (sp, t, .err e)
    | (t, .ready (.ok [])) => (sp, t, .err .unexpectedEof)
    | (t, .ready (.ok bs)) => boundaryLoop (t.input.length + 2) sp bs t
  else if sp.isRecordBoundary then (sp, t, .ready)
  else boundaryLoop (t.input.length + 2) sp [] t

/-- phase 2: `set_stream(None); record_boundary().await` -/
def closeP2 (r : AReq) (m : MutexSt) (t : Transport) (st : CloseSt) : Except CloseOut CloseMid :=
  match st with
  | .start | .inBoundary =>
    let spRes : Except String (Str.Parser × Bool) :=
      if st == .inBoundary then .ok (r.sp, true)
      else match r.sp.setStream none with
        | .ok sp => .ok (sp, false)
        | _ => .error "async_io:437 ignoring stream data should always be allowed"
    match spRes with
    | .error s => .error (r, st, m, t, .panic s)
    | .ok (sp, resume) =>
      match closeBoundary sp resume t with
      | (sp, t, .ready) => .ok ({ r with sp := sp }, m, t, .start)
      | (sp, t, .pending) => .error ({ r with sp := sp }, .inBoundary, m, t, .pending)
      | (sp, t, .err e) => .error ({ r with sp := sp }, .inBoundary, m, t, .err e)
      | (sp, t, .panic s) => .error ({ r with sp := sp }, .inBoundary, m, t, .panic s)
  | s => .ok (r, m, t, s)

/-- phase 3: build the epilogue, drop the lock, unwrap the `Arc` -/
def closeP3 (r : AReq) (m : MutexSt) (t : Transport) (st : CloseSt) (status : ExitStatus) (alive : Nat) :
    Except CloseOut CloseMid :=
  match st with
  | .start =>
    let streams := if r.writeable then outputStreams r.sp.request.role else []
    let endreq := makeRequestEpilogue r.sp.request.id status streams
    let m := lockDrop r.lock m
    let r := { r with lock := .none }
    if alive > 0 then .error (r, .start, m, t, .err .writersAlive)
    else .ok (r, m, t, .writeOut r.sp.output endreq)
  | s => .ok (r, m, t, s)

/-- phase 4: the two `write_all`s and the reuse decision -/
def closeP4 (r : AReq) (m : MutexSt) (t : Transport) (st : CloseSt) : CloseOut :=
  match st with
  | .writeOut rest endreq =>
    match writeAllLoop (rest.length + 1) rest t with
    | (rest, t, .pending) => (r, .writeOut rest endreq, m, t, .pending)
    | (rest, t, .err e) => (r, .writeOut rest endreq, m, t, .err e)
    | (rest, t, .panic s) => (r, .writeOut rest endreq, m, t, .panic s)
    | (_, t, .ready) =>
      closePoll.finishEnd { r with sp := r.sp.consumeOutput r.sp.output.length } endreq m t
  | .writeEnd rest => closePoll.finishEnd r rest m t
  | s => (r, s, m, t, .panic "model: unreachable close state")

theorem closePoll_eq (r : AReq) (st : CloseSt) (status : ExitStatus) (alive : Nat) (m : MutexSt) (t : Transport) :
    closePoll r st status alive m t =
      match closeP1 r st m t with
      | .error x => x
      | .ok (r, m, t, st) =>
        match closeP2 r m t st with
        | .error x => x
        | .ok (r, m, t, st) =>
          match closeP3 r m t st status alive with
          | .error x => x
          | .ok (r, m, t, st) => closeP4 r m t st := by
  rfl

theorem closeP1_le {r : AReq} {st : CloseSt} {m : MutexSt} {t : Transport} :
    (∀ {r' m' t' st'}, closeP1 r st m t = .ok (r', m', t', st') → TLe t t') ∧
    (∀ {r' cs' m' t' res}, closeP1 r st m t = .error (r', cs', m', t', res) → TLe t t') := by
  constructor
  all_goals
    intros
    rename_i h
    simp only [closeP1] at h
    repeat' (split at h)
    all_goals (cases h <;> first | exact .refl _ | exact writeablePoll_le ‹_›)

theorem closeBoundary_le {sp : Str.Parser} {resume : Bool} {t : Transport}
    {sp' : Str.Parser} {t' : Transport} {res : ORes}
    (h : closeBoundary sp resume t = (sp', t', res)) : TLe t t' := by
  simp only [closeBoundary] at h
  repeat' (split at h)
  all_goals first
    | (cases h; first | exact .refl _ | exact read_le ‹_›)
    | exact boundaryLoop_le _ _ _ _ h
    | exact (read_le ‹_›).trans (boundaryLoop_le _ _ _ _ h)

theorem closeP2_le {r : AReq} {st : CloseSt} {m : MutexSt} {t : Transport} :
    (∀ {r' m' t' st'}, closeP2 r m t st = .ok (r', m', t', st') → TLe t t') ∧
    (∀ {r' cs' m' t' res}, closeP2 r m t st = .error (r', cs', m', t', res) → TLe t t') := by
  constructor
  all_goals
    intros
    rename_i h
    simp only [closeP2] at h
    repeat' (split at h)
    all_goals (cases h <;> first | exact .refl _ | exact closeBoundary_le ‹_›)

theorem closeP3_le {r : AReq} {st : CloseSt} {m : MutexSt} {t : Transport} {status : ExitStatus} {alive : Nat} :
    (∀ {r' m' t' st'}, closeP3 r m t st status alive = .ok (r', m', t', st') → t' = t) ∧
    (∀ {r' cs' m' t' res}, closeP3 r m t st status alive = .error (r', cs', m', t', res) → t' = t) := by
  constructor
  all_goals
    intros
    rename_i h
    simp only [closeP3] at h
    repeat' (split at h)
    all_goals (cases h <;> rfl)

theorem finishEnd_le {r : AReq} {rest : Bytes} {m : MutexSt} {t : Transport}
    {r' : AReq} {cs' : CloseSt} {m' : MutexSt} {t' : Transport} {res : CRes}
    (h : closePoll.finishEnd r rest m t = (r', cs', m', t', res)) : TLe t t' := by
  simp only [closePoll.finishEnd] at h
  repeat' (split at h)
  all_goals (cases h; exact writeAllLoop_le _ _ _ ‹_›)

theorem closeP4_le {r : AReq} {st : CloseSt} {m : MutexSt} {t : Transport}
    {r' : AReq} {cs' : CloseSt} {m' : MutexSt} {t' : Transport} {res : CRes}
    (h : closeP4 r m t st = (r', cs', m', t', res)) : TLe t t' := by
  simp only [closeP4] at h
  repeat' (split at h)
  all_goals first
    | (cases h; first | exact .refl _ | exact writeAllLoop_le _ _ _ ‹_›)
    | exact finishEnd_le h
    | exact (writeAllLoop_le _ _ _ ‹_›).trans (finishEnd_le h)

theorem closePoll_le {r : AReq} {st : CloseSt} {status : ExitStatus} {alive : Nat} {m : MutexSt} {t : Transport}
    {r' : AReq} {cs' : CloseSt} {m' : MutexSt} {t' : Transport} {res : CRes}
    (h : closePoll r st status alive m t = (r', cs', m', t', res)) : TLe t t' := by
  rw [closePoll_eq] at h
  split at h
  · subst h; exact closeP1_le.2 ‹_›
  · have h1 := closeP1_le.1 ‹closeP1 r st m t = _›
    split at h
    · subst h; exact h1.trans (closeP2_le.2 ‹_›)
    · have h2 := h1.trans (closeP2_le.1 ‹closeP2 _ _ _ _ = _›)
      split at h
      · subst h; have := closeP3_le.2 ‹closeP3 _ _ _ _ _ _ = _›; subst this; exact h2
      · have := closeP3_le.1 ‹closeP3 _ _ _ _ _ _ = _›; subst this
        exact h2.trans (closeP4_le h)

/-! ## The handler interpreter -/

macro "hp_pre" : tactic => `(tactic| first
  | exact pollInput_le ‹_›
  | exact writeablePoll_le ‹_›
  | exact pollWrite_le ‹_›
  | exact pollFlush_le ‹_›
  | exact TLe.refl _)

macro "hp_mid" : tactic => `(tactic| first
  | hp_pre
  | (refine TLe.trans ?_ (TLe.ev_of _ ?_) <;> first | hp_pre | simp [isHS, toString_str]))

theorem handlerPoll_le : ∀ (fuel : Nat) (r : AReq) (h : HState) (e : Env)
    {r' : AReq} {h' : HState} {e' : Env} {res : HRes},
    handlerPoll fuel r h e = (r', h', e', res) → TLe e.tr e'.tr := by
  intro fuel
  induction fuel with
  | zero => intro r h e r' h' e' res hh; simp only [handlerPoll] at hh; cases hh; exact .refl _
  | succ n ih =>
    intro r h e r' h' e' res hh
    simp only [handlerPoll] at hh
    repeat' (split at hh)
    all_goals first
      | (cases hh; hp_mid)
      | (refine TLe.trans ?_ (ih _ _ _ hh); hp_mid)

/-! ## One phase transition of the connection task -/

/-- Outcome of one phase transition: continue (in the same poll) with a new configuration, or the
poll ends. -/
inductive Step
  | next (c : Conn)
  | halt (c : Conn) (r : PRes)

/-- the SCRIPT-INDEPENDENT part of the handler fuel passed by `pollConn`; the fuel actually passed for a connection
`c` in phase `handler r h` is `handlerFuel c.env r + scriptOf c` (`scriptOf c = scriptCost h`: the model's fuel
pays for what is left of the handler script, `Props/C07ScriptFuel.lean`) -/
def handlerFuel (e : Env) (r : AReq) : Nat :=
  1000 + e.tr.input.length * 4 + (e.segs.map (·.2.length)).sum * 4 + r.sp.cap * 4

/-- the script-dependent part of the handler fuel, read off the connection's phase -/
def scriptOf (c : Conn) : Nat :=
  match c.phase with
  | .handler _ h => scriptCost h
  | _ => 0

theorem scriptOf_handler {c : Conn} {r : AReq} {h : HState} (hp : c.phase = .handler r h) :
    scriptOf c = scriptCost h := by simp [scriptOf, hp]

/-- The body of `pollConn` with the recursive calls replaced by `.next`. -/
def stepConn (c : Conn) : Step :=
  match c.phase with
  | .finished => .halt c .finished
  | .parseReq rp sub =>
    if c.stop then .halt { c with phase := .finished, env := c.env } .finished
    else
      match sub with
      | .start =>
        match rp.parse [] with
        | (_, none) => .halt c (.panic "request parser panicked")
        | (rp, some y) => .next { c with phase := .parseReq rp (.writing y.output y.done) }
      | .reading =>
        match c.env.tr.read rp.free with
        | (t, .pending) => .halt { c with env := { c.env with tr := t } } .pending
        | (t, .ready (.error _)) => .halt { c with phase := .finished, env := { c.env with tr := t } } .finished
        | (t, .ready (.ok [])) => .halt { c with phase := .finished, env := { c.env with tr := t } } .finished
        | (t, .ready (.ok bs)) =>
          match rp.parse bs with
          | (_, none) => .halt { c with env := { c.env with tr := t } } (.panic "request parser panicked")
          | (rp, some y) =>
            .next { c with phase := .parseReq rp (.writing y.output y.done), env := { c.env with tr := t } }
      | .writing rest done =>
        match writeAllLoop (rest.length + 1) rest c.env.tr with
        | (rest, t, .pending) => .halt { c with phase := .parseReq rp (.writing rest done), env := { c.env with tr := t } } .pending
        | (_, t, .err _) => .halt { c with phase := .finished, env := { c.env with tr := t } } .finished
        | (_, t, .panic s) => .halt { c with env := { c.env with tr := t } } (.panic s)
        | (_, t, .ready) =>
          let c := { c with env := { c.env with tr := t } }
          if !done then .next { c with phase := .parseReq rp .reading }
          else match rp.intoStreamParser with
            | .error _ => .halt { c with phase := .finished, env := c.env } .finished
            | .ok sp =>
              let r := AReq.new sp
              let (ops, prop, scripts) := match c.scripts with | [] => ([], true, []) | (o, p) :: s => (o, p, s)
              let rq := sp.request
              let env' := c.env.ev s!"HS({rq.role},{rq.flags.toNat},{showEnvLine rq.env})"
              let hs : HState := { ops := ops, propagate := prop }
              .next { c with phase := .handler r hs, scripts := scripts, env := env' }
  | .handler r h =>
    match handlerPoll (1000 + c.env.tr.input.length * 4 + (c.env.segs.map (·.2.length)).sum * 4 + r.sp.cap * 4 + scriptCost h) r h c.env with
    | (r, h, e, .pending) => .halt { c with phase := .handler r h, env := e } .pending
    | (_, _, e, .panic s) => .halt { c with env := e } (.panic s)
    | (r, h, e, .done res) =>
      let alive := (h.writers.filter Option.isSome).length
      match res with
      | .ok st => .next { c with phase := .closing r .start st alive, env := e.ev s!"HE(ok:{showStatus st})" }
      | .error x =>
        if x == .abortRequest then
          .next { c with phase := .closing r .start ExitStatus.abort alive, env := e.ev "HE(err:abort-request)" }
        else .halt { c with phase := .finished, env := e.ev s!"HE(err:{showIo x})" } .finished
  | .closing r cs status alive =>
    match closePoll r cs status alive c.env.mutex c.env.tr with
    | (r, cs, m, t, .pending) => .halt { c with phase := .closing r cs status alive, env := { c.env with mutex := m, tr := t } } .pending
    | (_, _, m, t, .panic s) => .halt { c with env := { c.env with mutex := m, tr := t } } (.panic s)
    | (_, _, m, t, .err _) => .halt { c with phase := .finished, env := { c.env with mutex := m, tr := t } } .finished
    | (_, _, m, t, .reuse rp) => .next { c with phase := .parseReq rp .start, env := { c.env with mutex := m, tr := t } }

/-- continue with `f` after a `.next`, stop at a `.halt` -/
def Step.run (f : Conn → Conn × PRes) : Step → Conn × PRes
  | .next c' => f c'
  | .halt c' r => (c', r)

/-- `pollConn` is the iteration of `stepConn`. -/
theorem pollConn_succ (fuel : Nat) (c : Conn) :
    pollConn (fuel + 1) c = (stepConn c).run (pollConn fuel) := by
  obtain ⟨phase, env, scripts, stop⟩ := c
  cases phase with
  | finished => rfl
  | parseReq rp sub =>
    cases stop
    · cases sub with
      | start =>
        simp only [pollConn, stepConn]
        generalize rp.parse [] = x
        obtain ⟨a, b⟩ := x
        cases b <;> rfl
      | reading =>
        simp only [pollConn, stepConn]
        generalize env.tr.read rp.free = x
        obtain ⟨t, pr⟩ := x
        cases pr with
        | pending => rfl
        | ready ex =>
          cases ex with
          | error e => rfl
          | ok bs =>
            cases bs with
            | nil => rfl
            | cons b bs =>
              simp only []
              generalize rp.parse (b :: bs) = x
              obtain ⟨a, b⟩ := x
              cases b <;> rfl
      | writing rest done =>
        simp only [pollConn, stepConn]
        generalize writeAllLoop (rest.length + 1) rest env.tr = x
        obtain ⟨a, t, res⟩ := x
        cases res with
        | ready =>
          simp only []
          cases done
          · rfl
          · cases rp.intoStreamParser <;> rfl
        | _ => rfl
    · rfl
  | handler r h =>
    simp only [pollConn, stepConn]
    generalize handlerPoll _ r h env = x
    obtain ⟨r', h', e, res⟩ := x
    cases res with
    | done res =>
      cases res with
      | ok st => rfl
      | error x => simp only []; split <;> rfl
    | _ => rfl
  | closing r cs status alive =>
    simp only [pollConn, stepConn]
    generalize closePoll r cs status alive env.mutex env.tr = x
    obtain ⟨r', cs', m, t, res⟩ := x
    cases res <;> rfl

theorem pollConn_zero (c : Conn) : pollConn 0 c = (c, .panic "model: connection fuel exhausted") := rfl

/-! ## What a phase transition does to the trace, the flag and the script list -/

def Step.conn : Step → Conn
  | .next c => c
  | .halt c _ => c

/-- the `HS(…)` event of a request -/
def hsEvent (rq : Request) : String := s!"HS({rq.role},{rq.flags.toNat},{showEnvLine rq.env})"

theorem isHS_hsEvent (rq : Request) : isHS (hsEvent rq) = true := by
  simp [isHS, hsEvent, toString_str]

/-- `c'` is a later configuration of the same connection task: the flag is unchanged, the trace grew,
one script was consumed per `HS(` event, and with the flag raised there was no `HS(` event. -/
structure CLe (c c' : Conn) : Prop where
  stop : c'.stop = c.stop
  ev : ∃ new, c'.env.tr.events = c.env.tr.events ++ new ∧ c'.scripts = c.scripts.drop (hsCount new) ∧
        (c.stop = true → Quiet new)
  wl : ∃ w, c'.env.tr.wlog = c.env.tr.wlog ++ w
  inp : ∃ d, c.env.tr.input = d ++ c'.env.tr.input

theorem CLe.refl (c : Conn) : CLe c c :=
  ⟨rfl, ⟨[], by simp, by simp [hsCount], fun _ => Quiet.nil⟩, ⟨[], by simp⟩, ⟨[], by simp⟩⟩

theorem CLe.trans {a b c : Conn} (h1 : CLe a b) (h2 : CLe b c) : CLe a c := by
  obtain ⟨s1, ⟨n1, e1, sc1, q1⟩, ⟨w1, l1⟩, ⟨d1, i1⟩⟩ := h1
  obtain ⟨s2, ⟨n2, e2, sc2, q2⟩, ⟨w2, l2⟩, ⟨d2, i2⟩⟩ := h2
  refine ⟨s2.trans s1, ⟨n1 ++ n2, by rw [e2, e1, List.append_assoc], ?_, ?_⟩,
    ⟨w1 ++ w2, by rw [l2, l1, List.append_assoc]⟩, ⟨d1 ++ d2, by rw [i1, i2, List.append_assoc]⟩⟩
  · rw [sc2, sc1, List.drop_drop, hsCount_append]
  · intro hs; exact (q1 hs).append (q2 (s1.trans hs))

theorem CLe.of_tle {c c' : Conn} (hs : c'.stop = c.stop) (hsc : c'.scripts = c.scripts)
    (h : TLe c.env.tr c'.env.tr) : CLe c c' := by
  obtain ⟨⟨n, e, q⟩, w, d⟩ := h
  exact ⟨hs, ⟨n, e, by rw [hsCount_eq_zero q]; simpa using hsc, fun _ => q⟩, w, d⟩

theorem CLe.hs_start {c : Conn} {t : Transport} (hstop : c.stop = false) (ht : TLe c.env.tr t)
    (rq : Request) (ph : Phase) :
    CLe c { phase := ph, env := ({ c.env with tr := t }).ev (hsEvent rq), scripts := c.scripts.drop 1,
            stop := c.stop } := by
  obtain ⟨⟨n, e, q⟩, ⟨w, hw⟩, ⟨d, hd⟩⟩ := ht
  refine ⟨rfl, ⟨n ++ [hsEvent rq], ?_, ?_, fun hf => by rw [hstop] at hf; cases hf⟩, ⟨w, hw⟩, ⟨d, hd⟩⟩
  · show (t.events ++ [hsEvent rq]) = _
    rw [e, List.append_assoc]
  · rw [hsCount_append, hsCount_eq_zero q, hsCount_single_true (isHS_hsEvent _)]

theorem stepConn_cle (c : Conn) : CLe c (stepConn c).conn := by
  obtain ⟨phase, env, scripts, stop⟩ := c
  cases phase with
  | finished => exact .refl _
  | handler r h =>
    simp only [stepConn]
    repeat' split
    all_goals
      refine CLe.of_tle rfl rfl ?_
      first
        | exact handlerPoll_le _ _ _ _ ‹_›
        | exact (handlerPoll_le _ _ _ _ ‹_›).trans (TLe.ev_of _ (by simp [isHS, toString_str]))
  | closing r cs status alive =>
    simp only [stepConn]
    repeat' split
    all_goals exact CLe.of_tle rfl rfl (closePoll_le ‹_›)
  | parseReq rp sub =>
    cases stop with
    | true => exact CLe.of_tle rfl rfl (.refl _)
    | false =>
      cases sub with
      | start =>
        simp only [stepConn, Bool.false_eq_true, if_false]
        repeat' split
        all_goals exact CLe.of_tle rfl rfl (.refl _)
      | reading =>
        simp only [stepConn, Bool.false_eq_true, if_false]
        repeat' split
        all_goals exact CLe.of_tle rfl rfl (read_le ‹_›)
      | writing rest done =>
        simp only [stepConn, Bool.false_eq_true, if_false]
        repeat' split
        all_goals first
          | exact CLe.of_tle rfl rfl (writeAllLoop_le _ _ _ ‹_›)
          | exact CLe.hs_start rfl (writeAllLoop_le _ _ _ ‹_›) _ _

theorem pollConn_cle : ∀ (fuel : Nat) (c : Conn), CLe c (pollConn fuel c).1
  | 0, c => .refl _
  | fuel + 1, c => by
    rw [pollConn_succ]
    have h := stepConn_cle c
    cases hs : stepConn c with
    | next c' => rw [hs] at h; exact h.trans (pollConn_cle fuel c')
    | halt c' r => rw [hs] at h; exact h

theorem CLe.hs_mono {c c' : Conn} (h : CLe c c') : hsCount c.env.tr.events ≤ hsCount c'.env.tr.events := by
  obtain ⟨n, e, _, _⟩ := h.ev
  rw [e, hsCount_append]; omega

/-! ## The in-flight part of a poll: up to the next `parse_request` -/

def Phase.isParse : Phase → Bool
  | .parseReq _ _ => true
  | _ => false

/-- Where the poll stands when it first needs `select(stop, parse_request)` again, or its result if
it ends before. -/
inductive Flight
  | reachedParse (fuelLeft : Nat) (c : Conn)
  | halted (c : Conn) (r : PRes)

/-- iterate `stepConn` while the phase is `handler`/`closing` -/
def inFlight : Nat → Conn → Flight
  | 0, c => .halted c (.panic "model: connection fuel exhausted")
  | fuel + 1, c =>
    if c.phase.isParse then .reachedParse (fuel + 1) c
    else match stepConn c with
      | .next c' => inFlight fuel c'
      | .halt c' r => .halted c' r

def Flight.finish : Flight → Conn × PRes
  | .reachedParse f c => pollConn f c
  | .halted c r => (c, r)

def Flight.map (g : Conn → Conn) : Flight → Flight
  | .reachedParse f c => .reachedParse f (g c)
  | .halted c r => .halted (g c) r

def Step.map (g : Conn → Conn) : Step → Step
  | .next c => .next (g c)
  | .halt c r => .halt (g c) r

theorem pollConn_eq_inFlight : ∀ (fuel : Nat) (c : Conn), pollConn fuel c = (inFlight fuel c).finish
  | 0, c => rfl
  | fuel + 1, c => by
    unfold inFlight
    split
    · rfl
    · rw [pollConn_succ]
      cases hs : stepConn c with
      | next c' => exact pollConn_eq_inFlight fuel c'
      | halt c' r => rfl

/-- `handler` and `closing` do not look at the stop flag -/
theorem stepConn_setStop (c : Conn) (b : Bool) (h : c.phase.isParse = false) :
    stepConn { c with stop := b } = (stepConn c).map (fun c => { c with stop := b }) := by
  obtain ⟨phase, env, scripts, stop⟩ := c
  cases phase with
  | finished => rfl
  | parseReq rp sub => cases h
  | handler r hs =>
    simp only [stepConn]
    generalize handlerPoll _ r hs env = x
    obtain ⟨r', h', e, res⟩ := x
    cases res with
    | done res =>
      cases res with
      | ok st => rfl
      | error x => simp only []; split <;> rfl
    | _ => rfl
  | closing r cs status alive =>
    simp only [stepConn]
    generalize closePoll r cs status alive env.mutex env.tr = x
    obtain ⟨r', cs', m, t, res⟩ := x
    cases res <;> rfl

theorem inFlight_setStop : ∀ (fuel : Nat) (c : Conn) (b : Bool),
    inFlight fuel { c with stop := b } = (inFlight fuel c).map (fun c => { c with stop := b })
  | 0, c, b => rfl
  | fuel + 1, c, b => by
    unfold inFlight
    by_cases hp : c.phase.isParse = true
    · simp only [hp, if_true]; rfl
    · have hp' : c.phase.isParse = false := by simpa using hp
      simp only [hp', Bool.false_eq_true, if_false]
      rw [stepConn_setStop c b hp']
      cases hs : stepConn c with
      | next c' => exact inFlight_setStop fuel c' b
      | halt c' r => rfl

theorem inFlight_reached : ∀ (fuel : Nat) (c : Conn) {f : Nat} {c' : Conn},
    inFlight fuel c = .reachedParse f c' → c'.phase.isParse = true ∧ ∃ f', f = f' + 1
  | 0, c, f, c', h => by cases h
  | fuel + 1, c, f, c', h => by
    unfold inFlight at h
    split at h
    · cases h; exact ⟨‹_›, fuel, rfl⟩
    · split at h
      · exact inFlight_reached fuel _ h
      · cases h

/-- with the flag raised, `select` returns the stop branch: no transport call, nothing changes -/
theorem pollConn_parse_stop (fuel : Nat) (c : Conn) (hp : c.phase.isParse = true) (hs : c.stop = true) :
    pollConn (fuel + 1) c = ({ c with phase := .finished }, .finished) := by
  obtain ⟨phase, env, scripts, stop⟩ := c
  cases phase with
  | parseReq rp sub => simp only at hs; subst hs; rfl
  | _ => cases hp

/-! ## The executor -/

theorem release_go_events : ∀ (fuel : Nat) (e : Env) (any : Bool),
    (Env.release.go fuel e any).1.tr.events = e.tr.events ∧ (Env.release.go fuel e any).1.tr.wlog = e.tr.wlog := by
  intro fuel
  induction fuel with
  | zero => intro e any; simp [Env.release.go]
  | succ n ih =>
    intro e any
    obtain ⟨tr, mutex, segs⟩ := e
    cases segs with
    | nil => simp [Env.release.go]
    | cons p rest =>
      obtain ⟨g, bs⟩ := p
      simp only [Env.release.go]
      split
      · exact ih _ true
      · exact ⟨rfl, rfl⟩

theorem release_events (e : Env) : e.release.1.tr.events = e.tr.events ∧ e.release.1.tr.wlog = e.tr.wlog := by
  unfold Env.release
  have := release_go_events (e.segs.length + 1) e false
  generalize Env.release.go (e.segs.length + 1) e false = x at this
  obtain ⟨e', any⟩ := x
  exact this

/-- what `runTask` guarantees once the flag is (being) raised -/
def QExt (c c' : Conn) : Prop :=
  ∃ new, c'.env.tr.events = c.env.tr.events ++ new ∧ Quiet new

theorem QExt.refl (c : Conn) : QExt c c := ⟨[], by simp, Quiet.nil⟩
theorem QExt.trans {a b c : Conn} (h1 : QExt a b) (h2 : QExt b c) : QExt a c := by
  obtain ⟨n1, e1, q1⟩ := h1
  obtain ⟨n2, e2, q2⟩ := h2
  exact ⟨n1 ++ n2, by rw [e2, e1, List.append_assoc], q1.append q2⟩

/-- the part of `runTask` before the poll -/
def prePoll (c : Conn) (pollNo : Nat) (stopAt : Option Nat) : Conn :=
  let c := if stopAt == some pollNo then { c with stop := true } else c
  let (env, _) := c.env.release
  let env := { env with tr := { env.tr with woken := false } }
  { c with env := env.ev s!"|{pollNo}" }

theorem prePoll_spec (c : Conn) (n : Nat) (sa : Option Nat) :
    (prePoll c n sa).stop = (c.stop || sa == some n) ∧ QExt c (prePoll c n sa) := by
  unfold prePoll
  constructor
  · split <;> simp_all
  · refine ⟨[s!"|{n}"], ?_, Quiet.single (by simp [isHS, toString_str])⟩
    have h : ∀ c0 : Conn, c0.env = c.env →
        (match c0.env.release with
        | (env, _) => ({ c0 with env := ({ env with tr := { env.tr with woken := false } } : Env).ev s!"|{n}" } : Conn)).env.tr.events
          = c.env.tr.events ++ [s!"|{n}"] := by
      intro c0 h0
      have := (release_events c0.env).1
      generalize c0.env.release = x at this
      obtain ⟨e', any⟩ := x
      simp only [Env.ev, Transport.ev]
      simp only at this
      rw [this, h0]
    split
    · exact h _ rfl
    · exact h _ rfl

theorem runTask_succ (fuel : Nat) (c : Conn) (pollNo : Nat) (stopAt : Option Nat) :
    runTask (fuel + 1) c pollNo stopAt =
      match pollConn (connFuel (prePoll c pollNo stopAt)) (prePoll c pollNo stopAt) with
      | (c, .finished) => (c, "RET")
      | (c, .panic _) => (c, "PANIC")
      | (c, .pending) =>
        if c.env.tr.woken then runTask fuel c (pollNo + 1) stopAt
        else
          let (env, _) := c.env.release
          if env.tr.woken then runTask fuel { c with env := env } (pollNo + 1) stopAt
          else
            let c := { c with env := env }
            match stopAt with
            | some k => if k > pollNo && !c.stop then runTask fuel c k stopAt else (c, "STALL")
            | none => (c, "STALL") := by
  rfl

theorem release_qext (c : Conn) : QExt c { c with env := c.env.release.1 } :=
  ⟨[], by simp [(release_events c.env).1], Quiet.nil⟩

theorem CLe.qext {c c' : Conn} (h : CLe c c') (hs : c.stop = true) : QExt c c' := by
  obtain ⟨n, e, _, q⟩ := h.ev
  exact ⟨n, e, q hs⟩

/-- `runTask` only ever raises the flag; from the poll at which it is raised on, no poll starts a
handler. -/
theorem runTask_stop_quiet : ∀ (fuel : Nat) (c : Conn) (n : Nat) (sa : Option Nat),
    (c.stop = true → (runTask fuel c n sa).1.stop = true) ∧
    ((c.stop = true ∨ sa = some n) → QExt c (runTask fuel c n sa).1) := by
  intro fuel
  induction fuel with
  | zero => intro c n sa; exact ⟨fun h => h, fun _ => QExt.refl _⟩
  | succ k ih =>
    intro c n sa
    rw [runTask_succ]
    obtain ⟨hps, hpq⟩ := prePoll_spec c n sa
    have hcle := pollConn_cle (connFuel (prePoll c n sa)) (prePoll c n sa)
    generalize pollConn (connFuel (prePoll c n sa)) (prePoll c n sa) = x at hcle
    obtain ⟨c3, r⟩ := x
    simp only at hcle
    have hstop3 : c.stop = true → c3.stop = true := fun h => by rw [hcle.stop, hps, h]; rfl
    have hq3 : (c.stop = true ∨ sa = some n) → QExt c c3 := fun h => by
      refine hpq.trans (hcle.qext ?_)
      rw [hps]; rcases h with h | h <;> simp [h]
    have hstop3' : (c.stop = true ∨ sa = some n) → c3.stop = true := fun h => by
      rw [hcle.stop, hps]; rcases h with h | h <;> simp [h]
    cases r with
    | finished => exact ⟨hstop3, hq3⟩
    | panic s => exact ⟨hstop3, hq3⟩
    | pending =>
      simp only
      split
      · exact ⟨fun h => (ih c3 (n + 1) sa).1 (hstop3 h),
          fun h => (hq3 h).trans ((ih c3 (n + 1) sa).2 (Or.inl (hstop3' h)))⟩
      · have hrel := release_qext c3
        generalize c3.env.release = y at hrel
        obtain ⟨env, any⟩ := y
        simp only at hrel ⊢
        split
        · exact ⟨fun h => (ih _ (n + 1) sa).1 (hstop3 h),
            fun h => ((hq3 h).trans hrel).trans ((ih _ (n + 1) sa).2 (Or.inl (hstop3' h)))⟩
        · split
          · split
            · exact ⟨fun h => (ih _ _ _).1 (hstop3 h),
                fun h => ((hq3 h).trans hrel).trans ((ih _ _ _).2 (Or.inl (hstop3' h)))⟩
            · exact ⟨hstop3, fun h => (hq3 h).trans hrel⟩
          · exact ⟨hstop3, fun h => (hq3 h).trans hrel⟩

/-! ## Leaving `parse_request` towards a handler emits `HS(` -/

def Phase.inFlight : Phase → Bool
  | .handler _ _ => true
  | .closing _ _ _ _ => true
  | _ => false

/-- what a step out of a `parseReq` phase can be -/
def ParseStepOk (c : Conn) : Step → Prop
  | .halt c' _ => c'.phase.inFlight = false
  | .next c' => c'.phase.isParse = true ∨
      hsCount c'.env.tr.events = hsCount c.env.tr.events + 1

theorem stepConn_parse (c : Conn) (hp : c.phase.isParse = true) : ParseStepOk c (stepConn c) := by
  obtain ⟨phase, env, scripts, stop⟩ := c
  cases phase with
  | parseReq rp sub =>
    cases stop with
    | true => rfl
    | false =>
      cases sub with
      | start =>
        simp only [stepConn, Bool.false_eq_true, if_false]
        repeat' split
        all_goals simp_all [ParseStepOk, Phase.inFlight, Phase.isParse]
      | reading =>
        simp only [stepConn, Bool.false_eq_true, if_false]
        repeat' split
        all_goals simp_all [ParseStepOk, Phase.inFlight, Phase.isParse]
      | writing rest done =>
        simp only [stepConn, Bool.false_eq_true, if_false]
        repeat' split
        all_goals first
          | (simp_all [ParseStepOk, Phase.inFlight, Phase.isParse]; done)
          | (obtain ⟨⟨n, e, q⟩, _, _⟩ := writeAllLoop_le _ _ _ ‹_›
             right
             show hsCount (Transport.ev _ (hsEvent _)).events = _
             simp only [Transport.ev]
             rw [e, hsCount_append, hsCount_append, hsCount_eq_zero q,
               hsCount_single_true (isHS_hsEvent _)])
  | _ => cases hp

theorem from_parse_hs : ∀ (f : Nat) (c : Conn) {c' : Conn} {r : PRes}, c.phase.isParse = true →
    pollConn f c = (c', r) → c'.phase.inFlight = true →
    hsCount c.env.tr.events < hsCount c'.env.tr.events := by
  intro f
  induction f with
  | zero =>
    intro c c' r hp h hin
    cases h
    cases hph : c.phase <;> simp_all [Phase.inFlight, Phase.isParse]
  | succ k ih =>
    intro c c' r hp h hin
    rw [pollConn_succ] at h
    have hstep := stepConn_parse c hp
    have hcle := stepConn_cle c
    cases hs : stepConn c with
    | halt c1 r1 =>
      rw [hs] at h hstep; cases h
      simp only [ParseStepOk] at hstep; rw [hstep] at hin; cases hin
    | next c1 =>
      rw [hs] at h hstep hcle
      simp only [Step.run] at h
      simp only [Step.conn] at hcle
      have hrest := pollConn_cle k c1
      rw [h] at hrest
      simp only [ParseStepOk] at hstep
      rcases hstep with hp1 | hcount
      · have := ih c1 hp1 h hin
        have := hcle.hs_mono
        omega
      · have := hrest.hs_mono
        simp only at this
        omega

/-! ## Fuel -/

/-- the panic messages of the model's fuel guards (not panic sites of the Rust) -/
def fuelMsgs : List String :=
  ["model: write loop fuel exhausted", "model: output loop fuel exhausted",
   "model: input loop fuel exhausted", "model: boundary loop fuel exhausted",
   "model: write_all fuel exhausted", "model: handler fuel exhausted",
   "model: connection fuel exhausted"]

/-- the panic sites of the stream parser model -/
def strPanicSites : List String :=
  ["stream.rs:335 stream_buffer must be fully consumed", "stream.rs:339 new_input exceeds input_buffer",
   "stream.rs:427 consumed > payload_len", "stream.rs:66 debug_assert input stream type",
   "model: parse loop made no progress"]

theorem parsePayload_panic {p : Str.Parser} {d : Option Nat} {r : Status} {s : String}
    (h : parsePayload p d r = .panic s) : s = "stream.rs:427 consumed > payload_len" := by
  simp only [parsePayload] at h
  repeat' (split at h)
  all_goals first | (cases h; rfl) | cases h

theorem parseHead_panic {p : Str.Parser} {d : Option Nat} {r : Status} {s : String}
    (h : parseHead p d r = .panic s) : s = "stream.rs:66 debug_assert input stream type" := by
  simp only [parseHead] at h
  repeat' (split at h)
  all_goals first | (cases h; rfl) | cases h

theorem padHead_panic {q : Str.Parser} {d : Option Nat} {r : Status} {s : String}
    (h : (if q.pad > 0 then
            (if q.raw.length ≤ q.pad then Iter.stop { q with raw := [], g1 := q.g1 + q.raw.length, pad := q.pad - q.raw.length } r
             else parseHead { q with raw := q.raw.drop q.pad, g1 := q.g1 + q.pad, pad := 0 } d r)
          else parseHead q d r) = .panic s) : s = "stream.rs:66 debug_assert input stream type" := by
  repeat' (split at h)
  all_goals first | cases h | exact parseHead_panic h

theorem iter_panic {p : Str.Parser} {d : Option Nat} {r : Status} {s : String}
    (h : iter p d r = .panic s) : s ∈ strPanicSites := by
  unfold iter at h
  by_cases hp : p.pay > 0
  · simp only [hp, if_true] at h
    cases hpp : parsePayload p d r with
    | cont p' d' r' => rw [hpp] at h; rw [padHead_panic h]; decide
    | panic s' => rw [hpp] at h; cases h; rw [parsePayload_panic hpp]; decide
    | stop p' r' => rw [hpp] at h; cases h
    | err p' e => rw [hpp] at h; cases h
  · simp only [hp, if_false] at h
    rw [padHead_panic h]; decide

theorem loop_panic (p : Str.Parser) (dest : Option Nat) (res : Status) {s : String}
    (h : (loop p dest res).2 = .panic s) : s ∈ strPanicSites := by
  generalize hn : p.raw.length = n
  induction n using Nat.strongRecOn generalizing p dest res with
  | _ n ih =>
    rw [loop] at h
    split at h
    · cases h
    · cases hit : iter p dest res with
      | cont p' d' r' =>
        rw [hit] at h
        simp only at h
        split at h
        · exact ih _ (by omega) p' d' r' h rfl
        · cases h; decide
      | stop p' r' => rw [hit] at h; cases h
      | err p' e => rw [hit] at h; cases h
      | panic s' => rw [hit] at h; cases h; exact iter_panic hit

theorem parse_panic {p : Str.Parser} {new : Bytes} {dest : Option Nat} {s : String}
    (h : (p.parse new dest).2 = .panic s) : s ∈ strPanicSites := by
  unfold Str.Parser.parse at h
  split at h
  · cases h; decide
  · split at h
    · cases h; decide
    · exact loop_panic _ _ _ h

theorem strPanic_not_fuel {s : String} (h : s ∈ strPanicSites) : s ∉ fuelMsgs := by
  simp only [strPanicSites, List.mem_cons, List.not_mem_nil, or_false] at h
  rcases h with rfl | rfl | rfl | rfl | rfl <;> decide

/-! ## Exact write-log facts -/

theorem writeV_spec (t : Transport) (sl : List Bytes) (tag : String) :
    (t.writeV sl tag).1.input = t.input ∧
    match (t.writeV sl tag).2 with
    | .ready (.ok n) => n ≤ sl.flatten.length ∧ (t.writeV sl tag).1.wlog = t.wlog ++ sl.flatten.take n
    | _ => (t.writeV sl tag).1.wlog = t.wlog := by
  unfold Transport.writeV
  generalize sl.flatten = data
  by_cases hd : data.isEmpty = true
  · simp only [hd, if_true, Transport.ev]
    simp
  · simp only [hd, Bool.false_eq_true, if_false]
    rcases t.wr with _ | ⟨a, rest⟩
    · simp [Transport.ev]
    · cases a <;> simp [Transport.ev] <;> omega

theorem write_ok {t t' : Transport} {buf : Bytes} {n : Nat} (h : t.write buf = (t', .ready (.ok n))) :
    n ≤ buf.length ∧ t'.wlog = t.wlog ++ buf.take n ∧ t'.input = t.input := by
  have := writeV_spec t [buf] "W"
  unfold Transport.write at h
  rw [h] at this
  simp at this; exact ⟨this.2.1, this.2.2, this.1⟩

theorem write_notok {t t' : Transport} {buf : Bytes} {r : Poll (Except IoErr Nat)}
    (h : t.write buf = (t', r)) (hr : ∀ n, r ≠ .ready (.ok n)) : t'.wlog = t.wlog ∧ t'.input = t.input := by
  have := writeV_spec t [buf] "W"
  unfold Transport.write at h
  rw [h] at this
  obtain ⟨h1, h2⟩ := this
  refine ⟨?_, h1⟩
  revert h2
  cases r with
  | pending => exact id
  | ready x => cases x with
    | error e => exact id
    | ok n => exact absurd rfl (hr n)

/-- `write_all`: one poll writes a prefix of the buffer and keeps exactly the remainder; with
`buf.length + 1` fuel the loop never runs out of fuel (it has no other way to panic). -/
theorem writeAllLoop_spec : ∀ (fuel : Nat) (buf : Bytes) (t : Transport) {rest : Bytes} {t' : Transport} {res : ORes},
    writeAllLoop fuel buf t = (rest, t', res) →
    (∃ done, buf = done ++ rest ∧ t'.wlog = t.wlog ++ done) ∧ t'.input = t.input ∧
    (res = .ready → rest = []) ∧ (buf.length < fuel → ∀ s, res ≠ .panic s) := by
  intro fuel
  induction fuel with
  | zero =>
    intro buf t rest t' res h; simp only [writeAllLoop] at h; cases h
    exact ⟨⟨[], by simp⟩, rfl, by simp, by omega⟩
  | succ k ih =>
    intro buf t rest t' res h
    simp only [writeAllLoop] at h
    split at h
    · cases h
      exact ⟨⟨[], by simp⟩, rfl, fun _ => by simpa using ‹buf.isEmpty = true›, by simp⟩
    · split at h
      · cases h
        obtain ⟨h1, h2⟩ := write_notok ‹_› (by simp)
        exact ⟨⟨[], by simp [h1]⟩, h2, by simp, by simp⟩
      · cases h
        obtain ⟨h1, h2⟩ := write_notok ‹_› (by simp)
        exact ⟨⟨[], by simp [h1]⟩, h2, by simp, by simp⟩
      · cases h
        obtain ⟨_, h1, h2⟩ := write_ok ‹_›
        exact ⟨⟨[], by simpa using h1⟩, h2, by simp, by simp⟩
      · rename_i tw n hne hw
        obtain ⟨hn, h1, h2⟩ := write_ok hw
        obtain ⟨⟨done, hd, hl⟩, hi, hr, hf⟩ := ih _ _ h
        refine ⟨⟨buf.take n ++ done, ?_, ?_⟩, hi.trans h2, hr, ?_⟩
        · rw [List.append_assoc, ← hd, List.take_append_drop]
        · rw [hl, h1, List.append_assoc]
        · intro hlt
          apply hf
          have : n ≠ 0 := fun h0 => hne (by rw [h0])
          simp only [List.length_drop]
          have : buf.length ≠ 0 := by
            intro h0; have := List.length_eq_zero_iff.1 h0; simp_all
          omega

theorem outLoop_spec : ∀ (fuel : Nat) (sp : Str.Parser) (t : Transport) {sp' : Str.Parser} {t' : Transport} {res : ORes},
    outLoop fuel sp t = (sp', t', res) →
    (∃ done, sp.output = done ++ sp'.output ∧ t'.wlog = t.wlog ++ done) ∧
    sp' = { sp with output := sp'.output } ∧ t'.input = t.input ∧
    (res = .ready → sp'.output = []) ∧ (sp.output.length < fuel → ∀ s, res ≠ .panic s) := by
  intro fuel
  induction fuel with
  | zero =>
    intro sp t sp' t' res h; simp only [outLoop] at h; cases h
    exact ⟨⟨[], by simp⟩, rfl, rfl, by simp, by omega⟩
  | succ k ih =>
    intro sp t sp' t' res h
    simp only [outLoop] at h
    split at h
    · cases h
      exact ⟨⟨[], by simp⟩, rfl, rfl, fun _ => by simpa using ‹sp.output.isEmpty = true›, by simp⟩
    · split at h
      · cases h
        obtain ⟨h1, h2⟩ := write_notok ‹_› (by simp)
        exact ⟨⟨[], by simp [h1]⟩, rfl, h2, by simp, by simp⟩
      · cases h
        obtain ⟨h1, h2⟩ := write_notok ‹_› (by simp)
        exact ⟨⟨[], by simp [h1]⟩, rfl, h2, by simp, by simp⟩
      · cases h
        obtain ⟨_, h1, h2⟩ := write_ok ‹_›
        exact ⟨⟨[], by simpa using h1⟩, rfl, h2, by simp, by simp⟩
      · rename_i tw n hne hw
        obtain ⟨hn, h1, h2⟩ := write_ok hw
        obtain ⟨⟨done, hd, hl⟩, heq, hi, hr, hf⟩ := ih _ _ h
        simp only [Str.Parser.consumeOutput] at hd hf heq
        refine ⟨⟨sp.output.take n ++ done, ?_, ?_⟩, ?_, hi.trans h2, hr, ?_⟩
        · rw [List.append_assoc, ← hd, List.take_append_drop]
        · rw [hl, h1, List.append_assoc]
        · rw [heq]
        · intro hlt
          apply hf
          have : n ≠ 0 := fun h0 => hne (by rw [h0])
          simp only [List.length_drop]
          have : sp.output.length ≠ 0 := by
            intro h0; have := List.length_eq_zero_iff.1 h0; simp_all
          omega

theorem pollOutput_spec {r : AReq} {m : MutexSt} {t : Transport}
    {r' : AReq} {m' : MutexSt} {t' : Transport} {res : ORes}
    (h : r.pollOutput m t = (r', m', t', res)) :
    (∃ done, r.sp.output = done ++ r'.sp.output ∧ t'.wlog = t.wlog ++ done) ∧
    r'.sp = { r.sp with output := r'.sp.output } ∧ r'.writeable = r.writeable ∧ t'.input = t.input ∧
    (res = .ready → r'.sp.output = []) ∧
    (∀ s, res = .panic s → s = "async_io:476 lock held with empty output") := by
  simp only [AReq.pollOutput] at h
  repeat' (split at h)
  all_goals first
    | (have he' : r.sp.output = [] := by simpa using ‹r.sp.output.isEmpty = true›
       cases h; exact ⟨⟨[], by simp⟩, rfl, rfl, rfl, fun _ => he', by simp⟩)
    | (cases h; exact ⟨⟨[], by simp⟩, rfl, rfl, rfl, by simp, by simp⟩)
    | (obtain ⟨hd, heq, hi, hr, hf⟩ := outLoop_spec _ _ _ ‹_›
       cases h
       exact ⟨hd, heq, rfl, hi, hr, fun s hs => absurd hs (hf (by omega) s)⟩)

theorem parse_request_eq {p : Str.Parser} {new : Bytes} {dest : Option Nat} {sp : Str.Parser} {pr : ParseRes}
    (h : p.parse new dest = (sp, pr)) : sp.request = p.request := by
  have := (parse_frame p new dest).2.1; rwa [h] at this

/-- `poll_input`'s loop: the request is untouched; with more fuel than pending transport input the
fuel guard is never hit (every panic is a panic site of the Rust); `Ok(0)` is returned only when the
parser reported the end of the stream — a transport read of 0 bytes is `UnexpectedEof`. -/
theorem inLoop_spec : ∀ (fuel : Nat) (r : AReq) (new : Bytes) (dest : Option Nat) (m : MutexSt) (t : Transport)
    {r' : AReq} {m' : MutexSt} {t' : Transport} {res : IRes},
    inLoop fuel r new dest m t = (r', m', t', res) →
    r'.sp.request = r.sp.request ∧
    (t.input.length < fuel → ∀ s, res = .panic s →
      s = "async_io:476 lock held with empty output" ∨ s ∈ strPanicSites) ∧
    (∀ n d, res = .ready n d → 0 < n ∨
      ∃ (sp0 : Str.Parser) (nw : Bytes) (sp1 : Str.Parser) (st : Status),
        sp0.parse nw dest = (sp1, .ok st) ∧ st.streamEnd = true) := by
  intro fuel
  induction fuel with
  | zero =>
    intro r new dest m t r' m' t' res h
    simp only [inLoop] at h; cases h
    exact ⟨rfl, by omega, by simp⟩
  | succ k ih =>
    intro r new dest m t r' m' t' res h
    simp only [inLoop] at h
    cases hparse : r.sp.parse new dest with
    | mk sp pr =>
      have hreq := parse_request_eq hparse
      rw [hparse] at h
      cases pr with
      | panic s =>
        simp only at h; cases h
        exact ⟨hreq, fun _ s' hs => by cases hs; exact Or.inr (parse_panic (by rw [hparse])), by simp⟩
      | err e =>
        simp only at h; cases h
        exact ⟨hreq, by simp, by simp⟩
      | ok st =>
        simp only at h
        split at h
        · rename_i hc
          cases h
          refine ⟨by split <;> exact hreq, by simp, ?_⟩
          intro n d hnd; cases hnd
          simp only [Bool.or_eq_true, decide_eq_true_eq] at hc
          rcases hc with hc | hc
          · exact Or.inr ⟨_, _, _, _, hparse, hc⟩
          · exact Or.inl hc
        · cases hpo : AReq.pollOutput { r with sp := sp.compress } m t with
          | mk r1 x =>
            obtain ⟨m1, t1, ores⟩ := x
            obtain ⟨_, hsp1, _, hin1, _, hpan1⟩ := pollOutput_spec hpo
            have hreq1 : r1.sp.request = r.sp.request := by rw [hsp1]; exact hreq
            have hpo' : AReq.pollOutput { sp := sp.compress, lock := r.lock, writeable := r.writeable } m t
                = (r1, m1, t1, ores) := hpo
            rw [hpo'] at h
            cases ores with
            | pending => simp only at h; cases h; exact ⟨hreq1, by simp, by simp⟩
            | err e => simp only at h; cases h; exact ⟨hreq1, by simp, by simp⟩
            | panic s =>
              simp only at h; cases h
              exact ⟨hreq1, fun _ s' hs => by cases hs; exact Or.inl (hpan1 _ rfl), by simp⟩
            | ready =>
              simp only at h
              cases hrd : t1.read r1.sp.free with
              | mk t2 pr =>
                rw [hrd] at h
                cases pr with
                | pending => simp only at h; cases h; exact ⟨hreq1, by simp, by simp⟩
                | ready ex =>
                  cases ex with
                  | error e => simp only at h; cases h; exact ⟨hreq1, by simp, by simp⟩
                  | ok bs =>
                    cases bs with
                    | nil => simp only at h; cases h; exact ⟨hreq1, by simp, by simp⟩
                    | cons b bs =>
                      simp only at h
                      obtain ⟨h1, h2, h3⟩ := ih _ _ _ _ _ h
                      obtain ⟨hi, _, _⟩ := read_ok hrd
                      refine ⟨h1.trans hreq1, fun hlt => h2 ?_, h3⟩
                      rw [← hin1, hi] at hlt
                      simp only [List.length_append, List.length_cons] at hlt
                      omega

/-- the panic sites of the async model that correspond to panic sites of the Rust as opposed to
fuel guards (and the `unreachable close state` guard, see `closePoll_panic`) -/
def asyncPanicSites : List String :=
  ["async_io:85 payload_idx underflow", "async_io:112 transport accepted more than offered",
   "async_io:71 lock was dropped mid-write", "async_io:77 poll_write called while poll_flush is pending",
   "async_io:79 buf shrunk between calls to poll_write",
   "async_io:122 poll_flush called while poll_write is pending",
   "async_io:476 lock held with empty output",
   "async_io:371 final stream should always be valid to set",
   "async_io:400 stream_buffer not empty",
   "async_io:437 ignoring stream data should always be allowed",
   "stream.rs:552 output_buffer must be fully consumed",
   "async_io:292 streams should follow the order given by Role::input_streams",
   "async_io:324 output_stream assertion",
   "request parser panicked"]

/-- a panic message that is not a fuel guard -/
def RealSite (s : String) : Prop := s ∈ asyncPanicSites ∨ s ∈ strPanicSites

theorem RealSite.not_fuel {s : String} (h : RealSite s) : s ∉ fuelMsgs := by
  rcases h with h | h
  · simp only [asyncPanicSites, List.mem_cons, List.not_mem_nil, or_false] at h
    rcases h with rfl | rfl | rfl | rfl | rfl | rfl | rfl | rfl | rfl | rfl | rfl | rfl | rfl | rfl <;> decide
  · exact strPanic_not_fuel h

theorem RealSite.of_async {s : String} (h : s ∈ asyncPanicSites) : RealSite s := Or.inl h
theorem RealSite.of_str {s : String} (h : s ∈ strPanicSites) : RealSite s := Or.inr h

theorem inLoop_fuel {fuel : Nat} {r : AReq} {new : Bytes} {dest : Option Nat} {m : MutexSt} {t : Transport}
    {r' : AReq} {m' : MutexSt} {t' : Transport} {s : String}
    (h : inLoop fuel r new dest m t = (r', m', t', .panic s)) (hf : t.input.length < fuel) : RealSite s := by
  rcases (inLoop_spec _ _ _ _ _ _ h).2.1 hf s rfl with rfl | h
  · exact .of_async (by decide)
  · exact .of_str h

theorem pollInput_spec {r : AReq} {dest : Option Nat} {m : MutexSt} {t : Transport}
    {r' : AReq} {m' : MutexSt} {t' : Transport} {res : IRes}
    (h : r.pollInput dest m t = (r', m', t', res)) :
    r'.sp.request = r.sp.request ∧ (∀ s, res = .panic s → RealSite s) := by
  simp only [AReq.pollInput] at h
  repeat' (split at h)
  all_goals first
    | (cases h; exact ⟨rfl, by simp⟩)
    | (obtain ⟨_, hsp, _, hin, _, hpan⟩ := pollOutput_spec ‹_›
       first
        | (cases h
           exact ⟨by rw [hsp], fun s hs => by cases hs; exact .of_async (by rw [hpan _ rfl]; decide)⟩)
        | (cases h; exact ⟨by rw [hsp], by simp⟩)
        | (obtain ⟨h1, _, _⟩ := inLoop_spec _ _ _ _ _ _ h
           refine ⟨h1.trans (by rw [hsp]), fun s hs => ?_⟩
           subst hs
           exact inLoop_fuel h (by omega)))

theorem setStream_request {p p' : Str.Parser} {st : Option Nat} (h : p.setStream st = .ok p') :
    p'.request = p.request := by
  rcases setStream_ok_cases h with ⟨_, rfl⟩ | ⟨_, rfl, _⟩ <;> rfl

theorem writeablePoll_spec {r : AReq} {started : Bool} {m : MutexSt} {t : Transport}
    {r' : AReq} {b : Bool} {m' : MutexSt} {t' : Transport} {res : ORes}
    (h : r.writeablePoll started m t = (r', b, m', t', res)) :
    r'.sp.request = r.sp.request ∧ (∀ s, res = .panic s → RealSite s) := by
  simp only [AReq.writeablePoll] at h
  split at h
  · cases h; exact ⟨rfl, fun s hs => by cases hs⟩
  · split at h
    · cases h; exact ⟨rfl, fun s hs => by cases hs; exact .of_async (by decide)⟩
    · rename_i r0 heq
      have hr : r0.sp.request = r.sp.request := by
        split at heq
        · cases heq; rfl
        · split at heq
          · cases heq; exact setStream_request ‹_›
          · cases heq
      split at h
      all_goals
        obtain ⟨h1, h2⟩ := pollInput_spec ‹_›
        cases h
        exact ⟨h1.trans hr, fun s hs => by cases hs <;> exact h2 _ rfl⟩

/-- what `record_boundary()`'s loop guarantees -/
abbrev BoundarySpec (fuel : Nat) (sp : Str.Parser) (t : Transport) (sp' : Str.Parser) (t' : Transport) (res : ORes) : Prop :=
  sp'.request = sp.request ∧ t'.wlog = t.wlog ∧
  (t.input.length < fuel → ∀ s, res = .panic s → RealSite s) ∧
  (res = .ready → sp'.isRecordBoundary = true)

theorem boundaryCont_spec {n : Nat}
    (ih : ∀ (sp : Str.Parser) (new : Bytes) (t : Transport) {sp' : Str.Parser} {t' : Transport} {res : ORes},
      boundaryLoop n sp new t = (sp', t', res) → BoundarySpec n sp t sp' t' res)
    {sp : Str.Parser} {t : Transport} {sp' : Str.Parser} {t' : Transport} {res : ORes}
    (h : boundaryLoop.cont sp t n = (sp', t', res)) : BoundarySpec (n + 1) sp t sp' t' res := by
  simp only [boundaryLoop.cont] at h
  split at h
  · cases h; exact ⟨rfl, rfl, fun _ s hs => (by cases hs), fun _ => ‹_›⟩
  · split at h
    · cases h
      exact ⟨rfl, rfl, fun _ s hs => by cases hs; exact .of_async (by decide), fun hh => by cases hh⟩
    · cases hrd : t.read sp.compress.free with
      | mk t2 pr =>
        rw [hrd] at h
        have hw : t2.wlog = t.wlog := by have := read_wlog t sp.compress.free; rwa [hrd] at this
        cases pr with
        | pending => simp only at h; cases h; exact ⟨rfl, hw, fun _ s hs => (by cases hs), fun hh => by cases hh⟩
        | ready ex =>
          cases ex with
          | error e => simp only at h; cases h; exact ⟨rfl, hw, fun _ s hs => (by cases hs), fun hh => by cases hh⟩
          | ok bs =>
            cases bs with
            | nil => simp only at h; cases h; exact ⟨rfl, hw, fun _ s hs => (by cases hs), fun hh => by cases hh⟩
            | cons b bs =>
              simp only at h
              obtain ⟨h1, h2, h3, h4⟩ := ih _ _ _ h
              obtain ⟨hi, _, _⟩ := read_ok hrd
              refine ⟨h1, h2.trans hw, fun hlt => h3 ?_, h4⟩
              rw [hi] at hlt
              simp only [List.length_append, List.length_cons] at hlt
              omega

theorem boundaryLoop_spec : ∀ (fuel : Nat) (sp : Str.Parser) (new : Bytes) (t : Transport)
    {sp' : Str.Parser} {t' : Transport} {res : ORes},
    boundaryLoop fuel sp new t = (sp', t', res) → BoundarySpec fuel sp t sp' t' res := by
  intro fuel
  induction fuel with
  | zero =>
    intro sp new t sp' t' res h; simp only [boundaryLoop] at h; cases h
    exact ⟨rfl, rfl, by omega, fun hh => by cases hh⟩
  | succ n ih =>
    intro sp new t sp' t' res h
    simp only [boundaryLoop] at h
    cases hparse : sp.parse new none with
    | mk sp1 pr =>
      have hreq := parse_request_eq hparse
      rw [hparse] at h
      cases pr with
      | panic s =>
        simp only at h; cases h
        exact ⟨hreq, rfl, fun _ s' hs => by cases hs; exact .of_str (parse_panic (by rw [hparse])),
          fun hh => by cases hh⟩
      | err e =>
        simp only at h
        split at h
        · obtain ⟨h1, h2, h3, h4⟩ := boundaryCont_spec ih h
          exact ⟨h1.trans hreq, h2, h3, h4⟩
        · cases h; exact ⟨hreq, rfl, fun _ s hs => (by cases hs), fun hh => by cases hh⟩
      | ok st =>
        simp only at h
        obtain ⟨h1, h2, h3, h4⟩ := boundaryCont_spec ih h
        exact ⟨h1.trans hreq, h2, h3, h4⟩

/-! ## `close`: phase specifications -/

/-- phases 2–4 of `close` -/
def closeFrom2 (r : AReq) (m : MutexSt) (t : Transport) (st : CloseSt) (status : ExitStatus) (alive : Nat) : CloseOut :=
  match closeP2 r m t st with
  | .error x => x
  | .ok (r, m, t, st) =>
    match closeP3 r m t st status alive with
    | .error x => x
    | .ok (r, m, t, st) => closeP4 r m t st

theorem closePoll_eq' (r : AReq) (st : CloseSt) (status : ExitStatus) (alive : Nat) (m : MutexSt) (t : Transport) :
    closePoll r st status alive m t =
      match closeP1 r st m t with
      | .error x => x
      | .ok (r, m, t, st) => closeFrom2 r m t st status alive := rfl

/-- the epilogue `close` sends for request state `r` -/
def epilogueOf (r : AReq) (status : ExitStatus) : Bytes :=
  makeRequestEpilogue r.sp.request.id status (if r.writeable then outputStreams r.sp.request.role else [])

/-- bytes a suspended `close` still has to write -/
def _root_.Fcgi.Async.CloseSt.owed : CloseSt → Bytes
  | .writeOut rest endreq => rest ++ endreq
  | .writeEnd rest => rest
  | _ => []

/-- `close` has passed the point where it builds the epilogue -/
def _root_.Fcgi.Async.CloseSt.late : CloseSt → Bool
  | .writeOut _ _ => true
  | .writeEnd _ => true
  | _ => false

theorem closeP1_ok {r : AReq} {st : CloseSt} {m : MutexSt} {t : Transport} {r1 : AReq} {m1 : MutexSt}
    {t1 : Transport} {st1 : CloseSt} (h : closeP1 r st m t = .ok (r1, m1, t1, st1)) :
    r1.sp.request = r.sp.request ∧
    ((st = .start ∨ st = .inWriteable) ∧ st1 = .start ∨
     (st.late = true ∨ st = .inBoundary) ∧ st1 = st ∧ r1 = r ∧ m1 = m ∧ t1 = t) := by
  simp only [closeP1] at h
  repeat' (split at h)
  all_goals first
    | (obtain ⟨h1, _⟩ := writeablePoll_spec ‹_›
       cases h; exact ⟨h1, Or.inl ⟨by simp, rfl⟩⟩)
    | (cases h; cases st <;> simp_all [CloseSt.late])
    | cases h

theorem closeP1_error {r : AReq} {st : CloseSt} {m : MutexSt} {t : Transport} {r' : AReq} {cs' : CloseSt}
    {m' : MutexSt} {t' : Transport} {res : CRes} (h : closeP1 r st m t = .error (r', cs', m', t', res)) :
    cs' = .inWriteable ∧ (st = .start ∨ st = .inWriteable) ∧
    (res = .pending ∨ (∃ e, res = .err e ∧ e ≠ .abortRequest) ∨ ∃ s, res = .panic s ∧ RealSite s) := by
  simp only [closeP1] at h
  repeat' (split at h)
  all_goals first
    | (obtain ⟨_, h2⟩ := writeablePoll_spec ‹_›
       cases h
       refine ⟨rfl, by simp, ?_⟩
       first
        | exact Or.inl rfl
        | exact Or.inr (Or.inl ⟨_, rfl, by simpa using ‹¬ (_ == IoErr.abortRequest) = true›⟩)
        | exact Or.inr (Or.inr ⟨_, rfl, h2 _ rfl⟩))
    | cases h

theorem closeBoundary_spec {sp : Str.Parser} {resume : Bool} {t : Transport}
    {sp' : Str.Parser} {t' : Transport} {res : ORes}
    (h : closeBoundary sp resume t = (sp', t', res)) :
    sp'.request = sp.request ∧ t'.wlog = t.wlog ∧ (∀ s, res = .panic s → RealSite s) ∧
    (res = .ready → sp'.isRecordBoundary = true) := by
  simp only [closeBoundary] at h
  split at h
  · cases hrd : t.read sp.free with
    | mk t2 pr =>
      rw [hrd] at h
      have hw : t2.wlog = t.wlog := by have := read_wlog t sp.free; rwa [hrd] at this
      cases pr with
      | pending => simp only at h; cases h; exact ⟨rfl, hw, by simp, by simp⟩
      | ready ex =>
        cases ex with
        | error e => simp only at h; cases h; exact ⟨rfl, hw, by simp, by simp⟩
        | ok bs =>
          cases bs with
          | nil => simp only at h; cases h; exact ⟨rfl, hw, by simp, by simp⟩
          | cons b bs =>
            simp only at h
            obtain ⟨h1, h2, h3, h4⟩ := boundaryLoop_spec _ _ _ _ h
            exact ⟨h1, h2.trans hw, h3 (by omega), h4⟩
  · split at h
    · cases h; exact ⟨rfl, rfl, by simp, fun _ => ‹_›⟩
    · obtain ⟨h1, h2, h3, h4⟩ := boundaryLoop_spec _ _ _ _ h
      exact ⟨h1, h2, h3 (by omega), h4⟩

/-- `set_stream(None)` always succeeds -/
def spIgnore (sp : Str.Parser) : Str.Parser := if sp.stream = none then sp else sp.switchTo none

theorem spIgnore_request (sp : Str.Parser) : (spIgnore sp).request = sp.request := by
  unfold spIgnore; split <;> rfl

/-- the tail of phase 2 -/
def closeP2Tail (r : AReq) (m : MutexSt) (x : Str.Parser × Transport × ORes) : Except CloseOut CloseMid :=
  match x with
  | (sp, t, .ready) => .ok ({ r with sp := sp }, m, t, .start)
  | (sp, t, .pending) => .error ({ r with sp := sp }, .inBoundary, m, t, .pending)
  | (sp, t, .err e) => .error ({ r with sp := sp }, .inBoundary, m, t, .err e)
  | (sp, t, .panic s) => .error ({ r with sp := sp }, .inBoundary, m, t, .panic s)

theorem closeP2_start (r : AReq) (m : MutexSt) (t : Transport) :
    closeP2 r m t .start = closeP2Tail r m (closeBoundary (spIgnore r.sp) false t) := by
  simp only [closeP2, setStream_none]
  rfl

theorem closeP2_inBoundary (r : AReq) (m : MutexSt) (t : Transport) :
    closeP2 r m t .inBoundary = closeP2Tail r m (closeBoundary r.sp true t) := by
  simp only [closeP2]
  rfl

theorem closeP2_other (r : AReq) (m : MutexSt) (t : Transport) (st : CloseSt)
    (h : st.late = true ∨ st = .inWriteable) : closeP2 r m t st = .ok (r, m, t, st) := by
  cases st <;> first | rfl | simp [CloseSt.late] at h

theorem closeP2Tail_ok {r : AReq} {m : MutexSt} {sp0 : Str.Parser} {resume : Bool} {t : Transport}
    {r2 : AReq} {m2 : MutexSt} {t2 : Transport} {st2 : CloseSt}
    (h : closeP2Tail r m (closeBoundary sp0 resume t) = .ok (r2, m2, t2, st2)) :
    r2.sp.request = sp0.request ∧ r2.writeable = r.writeable ∧ r2.lock = r.lock ∧ m2 = m ∧
    t2.wlog = t.wlog ∧ st2 = .start ∧ r2.sp.isRecordBoundary = true := by
  cases hb : closeBoundary sp0 resume t with
  | mk sp x =>
    obtain ⟨t1, res⟩ := x
    obtain ⟨h1, h2, _, h4⟩ := closeBoundary_spec hb
    rw [hb] at h
    cases res <;> simp only [closeP2Tail] at h <;> cases h
    exact ⟨h1, rfl, rfl, rfl, h2, rfl, h4 rfl⟩

theorem closeP2Tail_error {r : AReq} {m : MutexSt} {sp0 : Str.Parser} {resume : Bool} {t : Transport}
    {r' : AReq} {cs' : CloseSt} {m' : MutexSt} {t' : Transport} {res : CRes}
    (h : closeP2Tail r m (closeBoundary sp0 resume t) = .error (r', cs', m', t', res)) :
    t'.wlog = t.wlog ∧ cs' = .inBoundary ∧ m' = m ∧
    (res = .pending ∨ (∃ e, res = .err e) ∨ ∃ s, res = .panic s ∧ RealSite s) := by
  cases hb : closeBoundary sp0 resume t with
  | mk sp x =>
    obtain ⟨t1, ores⟩ := x
    obtain ⟨_, h2, h3, _⟩ := closeBoundary_spec hb
    rw [hb] at h
    cases ores <;> simp only [closeP2Tail] at h <;> cases h
    · exact ⟨h2, rfl, rfl, Or.inl rfl⟩
    · exact ⟨h2, rfl, rfl, Or.inr (Or.inl ⟨_, rfl⟩)⟩
    · exact ⟨h2, rfl, rfl, Or.inr (Or.inr ⟨_, rfl, h3 _ rfl⟩)⟩

theorem closeP2_ok {r : AReq} {st : CloseSt} {m : MutexSt} {t : Transport} {r2 : AReq} {m2 : MutexSt}
    {t2 : Transport} {st2 : CloseSt} (h : closeP2 r m t st = .ok (r2, m2, t2, st2)) :
    r2.sp.request = r.sp.request ∧ r2.writeable = r.writeable ∧ r2.lock = r.lock ∧ m2 = m ∧
    t2.wlog = t.wlog ∧
    ((st = .start ∨ st = .inBoundary) ∧ st2 = .start ∧ r2.sp.isRecordBoundary = true ∨
     (st.late = true ∨ st = .inWriteable) ∧ st2 = st ∧ r2 = r ∧ t2 = t) := by
  cases st with
  | start =>
    rw [closeP2_start] at h
    obtain ⟨h1, h2, h3, h4, h5, h6, h7⟩ := closeP2Tail_ok h
    exact ⟨h1.trans (spIgnore_request _), h2, h3, h4, h5, Or.inl ⟨Or.inl rfl, h6, h7⟩⟩
  | inBoundary =>
    rw [closeP2_inBoundary] at h
    obtain ⟨h1, h2, h3, h4, h5, h6, h7⟩ := closeP2Tail_ok h
    exact ⟨h1, h2, h3, h4, h5, Or.inl ⟨Or.inr rfl, h6, h7⟩⟩
  | inWriteable =>
    rw [closeP2_other _ _ _ _ (Or.inr rfl)] at h; cases h
    exact ⟨rfl, rfl, rfl, rfl, rfl, Or.inr ⟨Or.inr rfl, rfl, rfl, rfl⟩⟩
  | writeOut a b =>
    rw [closeP2_other _ _ _ _ (Or.inl rfl)] at h; cases h
    exact ⟨rfl, rfl, rfl, rfl, rfl, Or.inr ⟨Or.inl rfl, rfl, rfl, rfl⟩⟩
  | writeEnd a =>
    rw [closeP2_other _ _ _ _ (Or.inl rfl)] at h; cases h
    exact ⟨rfl, rfl, rfl, rfl, rfl, Or.inr ⟨Or.inl rfl, rfl, rfl, rfl⟩⟩

theorem closeP2_error {r : AReq} {st : CloseSt} {m : MutexSt} {t : Transport} {r' : AReq} {cs' : CloseSt}
    {m' : MutexSt} {t' : Transport} {res : CRes} (h : closeP2 r m t st = .error (r', cs', m', t', res)) :
    t'.wlog = t.wlog ∧ (st = .start ∨ st = .inBoundary) ∧ cs' = .inBoundary ∧ m' = m ∧
    (res = .pending ∨ (∃ e, res = .err e) ∨ ∃ s, res = .panic s ∧ RealSite s) := by
  cases st with
  | start =>
    rw [closeP2_start] at h
    obtain ⟨h1, h2, h3, h4⟩ := closeP2Tail_error h
    exact ⟨h1, Or.inl rfl, h2, h3, h4⟩
  | inBoundary =>
    rw [closeP2_inBoundary] at h
    obtain ⟨h1, h2, h3, h4⟩ := closeP2Tail_error h
    exact ⟨h1, Or.inr rfl, h2, h3, h4⟩
  | inWriteable => rw [closeP2_other _ _ _ _ (Or.inr rfl)] at h; cases h
  | writeOut a b => rw [closeP2_other _ _ _ _ (Or.inl rfl)] at h; cases h
  | writeEnd a => rw [closeP2_other _ _ _ _ (Or.inl rfl)] at h; cases h

theorem closeP3_start (r : AReq) (m : MutexSt) (t : Transport) (status : ExitStatus) (alive : Nat) :
    closeP3 r m t .start status alive =
      if alive > 0 then .error ({ r with lock := .none }, .start, lockDrop r.lock m, t, .err .writersAlive)
      else .ok ({ r with lock := .none }, lockDrop r.lock m, t, .writeOut r.sp.output (epilogueOf r status)) := rfl

theorem closeP3_late (r : AReq) (m : MutexSt) (t : Transport) (st : CloseSt) (status : ExitStatus) (alive : Nat)
    (h : st.late = true) : closeP3 r m t st status alive = .ok (r, m, t, st) := by
  cases st <;> first | rfl | cases h

/-- what `close` answers once both `write_all`s completed -/
def closeDecision (r : AReq) : CRes :=
  if r.sp.request.flags.toNat % 2 == 1 then
    match r.sp.intoRequestParser with
    | some (.ok rp) => .reuse rp
    | some (.error e) => .err (ioOfPErr e)
    | none => .panic "stream.rs:552 output_buffer must be fully consumed"
  else .err .connectionReset

/-- the kinds a failing transport write can carry -/
def WrKind (e : IoErr) : Prop := e = .transportWrite ∨ e = .connectionAborted

theorem wrErr_kind (t : Transport) : WrKind t.wrErr := by
  unfold Transport.wrErr WrKind; split <;> simp

theorem WrKind.ne_abort {e : IoErr} (h : WrKind e) : e ≠ .abortRequest := by
  rcases h with rfl | rfl <;> decide

theorem writeV_err_kind (t : Transport) (sl : List Bytes) (tag : String) (e : IoErr)
    (h : (t.writeV sl tag).2 = .ready (.error e)) : WrKind e := by
  unfold Transport.writeV at h
  generalize sl.flatten = data at h
  by_cases hd : data.isEmpty = true
  · simp [hd] at h
  · simp only [hd, Bool.false_eq_true, if_false] at h
    cases hwr : t.wr with
    | nil => simp [hwr] at h
    | cons a rest => cases a <;> simp [hwr] at h <;> (rw [← h]; exact wrErr_kind t)

theorem write_err_kind {t t' : Transport} {buf : Bytes} {e : IoErr}
    (h : t.write buf = (t', .ready (.error e))) : WrKind e := by
  apply writeV_err_kind t [buf] "W" e
  unfold Transport.write at h; rw [h]

theorem writeAllLoop_err : ∀ (fuel : Nat) (buf : Bytes) (t : Transport) {rest : Bytes} {t' : Transport} {e : IoErr},
    writeAllLoop fuel buf t = (rest, t', .err e) → WrKind e ∨ e = .writeZero := by
  intro fuel
  induction fuel with
  | zero => intro buf t rest t' e h; simp only [writeAllLoop] at h; cases h
  | succ k ih =>
    intro buf t rest t' e h
    simp only [writeAllLoop] at h
    repeat' (split at h)
    all_goals first
      | (cases h; exact Or.inl (write_err_kind ‹_›))
      | (cases h; exact Or.inr rfl)
      | exact ih _ _ h
      | cases h

/-- a write failure of the transport -/
def WriteFail (res : CRes) : Prop := (∃ e, WrKind e ∧ res = .err e) ∨ res = .err .writeZero

theorem finishEnd_spec {r : AReq} {rest : Bytes} {m : MutexSt} {t : Transport}
    {r' : AReq} {cs' : CloseSt} {m' : MutexSt} {t' : Transport} {res : CRes}
    (h : closePoll.finishEnd r rest m t = (r', cs', m', t', res)) :
    r' = r ∧ m' = m ∧ ∃ done rest', cs' = .writeEnd rest' ∧ rest = done ++ rest' ∧ t'.wlog = t.wlog ++ done ∧
      t'.input = t.input ∧
      ((rest' = [] ∧ res = closeDecision r) ∨ (res = .pending ∧ rest' ≠ []) ∨ WriteFail res) := by
  simp only [closePoll.finishEnd] at h
  cases hw : writeAllLoop (rest.length + 1) rest t with
  | mk rest' x =>
    obtain ⟨t1, ores⟩ := x
    obtain ⟨⟨done, hd, hl⟩, hin, hr, hf⟩ := writeAllLoop_spec _ _ _ hw
    rw [hw] at h
    cases ores with
    | pending =>
      simp only at h; cases h
      refine ⟨rfl, rfl, done, rest', rfl, hd, hl, hin, Or.inr (Or.inl ⟨rfl, ?_⟩)⟩
      -- a pending `write_all` has bytes left
      intro hnil
      subst hnil
      have : ∀ (fuel : Nat) (buf : Bytes) (t : Transport) {t' : Transport},
          writeAllLoop fuel buf t = ([], t', .pending) → False := by
        intro fuel
        induction fuel with
        | zero => intro buf t t' h; simp only [writeAllLoop] at h; cases h
        | succ k ih =>
          intro buf t t' h
          simp only [writeAllLoop] at h
          repeat' (split at h)
          all_goals first
            | (cases h; simp_all; done)
            | exact ih _ _ h
            | cases h
      exact this _ _ _ hw
    | err e =>
      simp only at h; cases h
      refine ⟨rfl, rfl, done, rest', rfl, hd, hl, hin, Or.inr (Or.inr ?_)⟩
      rcases writeAllLoop_err _ _ _ hw with hk | rfl
      · exact Or.inl ⟨_, hk, rfl⟩
      · exact Or.inr rfl
    | panic s => exact absurd rfl (hf (by omega) s)
    | ready =>
      simp only at h
      have hr' := hr rfl
      subst hr'
      refine ⟨?_, ?_, done, [], ?_, hd, ?_, ?_, Or.inl ⟨rfl, ?_⟩⟩
      all_goals
        try unfold closeDecision
        repeat' (split at h)
        all_goals first
          | (cases h; first | rfl | exact hl | exact hin | simp_all)
          | skip

theorem writeAllLoop_pending_ne : ∀ (fuel : Nat) (buf : Bytes) (t : Transport) {t' : Transport},
    writeAllLoop fuel buf t = ([], t', .pending) → False := by
  intro fuel
  induction fuel with
  | zero => intro buf t t' h; simp only [writeAllLoop] at h; cases h
  | succ k ih =>
    intro buf t t' h
    simp only [writeAllLoop] at h
    repeat' (split at h)
    all_goals first
      | (cases h; simp_all; done)
      | exact ih _ _ h
      | cases h

/-- invariant of a suspended `close` that has built its epilogue: the parser stands at a record
boundary (and, once the parser's output was written, its output buffer is empty) -/
def CloseInv (r : AReq) : CloseSt → Prop
  | .writeOut _ _ => r.sp.isRecordBoundary = true
  | .writeEnd _ => r.sp.isRecordBoundary = true ∧ r.sp.output = []
  | _ => True

theorem closeDecision_of_inv {r : AReq} (hb : r.sp.isRecordBoundary = true) (ho : r.sp.output = []) :
    closeDecision r =
      if r.sp.request.flags.toNat % 2 = 1 then .reuse (Req.Parser.fromParser r.sp.cap r.sp.raw r.sp.maxConns)
      else .err .connectionReset := by
  unfold closeDecision Str.Parser.intoRequestParser
  simp [hb, ho]

/-- Phase 4 (one poll): exactly a prefix of the owed bytes is written, the rest stays owed; the
future completes only when nothing is owed any more, and then answers `closeDecision`. -/
theorem closeP4_spec {r : AReq} {st : CloseSt} {m : MutexSt} {t : Transport}
    {r' : AReq} {cs' : CloseSt} {m' : MutexSt} {t' : Transport} {res : CRes}
    (h : closeP4 r m t st = (r', cs', m', t', res)) (hl : st.late = true) :
    m' = m ∧ r'.sp.request = r.sp.request ∧ r'.writeable = r.writeable ∧ cs'.late = true ∧
    t'.input = t.input ∧
    (∃ done, st.owed = done ++ cs'.owed ∧ t'.wlog = t.wlog ++ done) ∧
    ((cs' = .writeEnd [] ∧ res = closeDecision r') ∨ (res = .pending ∧ cs'.owed ≠ []) ∨ WriteFail res) ∧
    (CloseInv r st → CloseInv r' cs') := by
  cases st with
  | start => cases hl
  | inWriteable => cases hl
  | inBoundary => cases hl
  | writeEnd rest =>
    simp only [closeP4] at h
    obtain ⟨rfl, rfl, done, rest', rfl, hd, hw, hi, hres⟩ := finishEnd_spec h
    refine ⟨rfl, rfl, rfl, rfl, hi, ⟨done, hd, hw⟩, ?_, id⟩
    rcases hres with ⟨rfl, hx⟩ | hx | hx
    · exact Or.inl ⟨rfl, hx⟩
    · exact Or.inr (Or.inl hx)
    · exact Or.inr (Or.inr hx)
  | writeOut rest endreq =>
    simp only [closeP4] at h
    cases hw : writeAllLoop (rest.length + 1) rest t with
    | mk rest' x =>
      obtain ⟨t1, ores⟩ := x
      obtain ⟨⟨done, hd, hl1⟩, hin, hr, hf⟩ := writeAllLoop_spec _ _ _ hw
      rw [hw] at h
      cases ores with
      | pending =>
        simp only at h; cases h
        refine ⟨rfl, rfl, rfl, rfl, hin, ⟨done, ?_, hl1⟩, Or.inr (Or.inl ⟨rfl, ?_⟩), id⟩
        · simp only [CloseSt.owed]; rw [hd, List.append_assoc]
        · simp only [CloseSt.owed]
          intro hnil
          have : rest' = [] := by
            have := congrArg List.length hnil; simp at this; exact this.1
          subst this
          exact writeAllLoop_pending_ne _ _ _ hw
      | err e =>
        simp only at h; cases h
        refine ⟨rfl, rfl, rfl, rfl, hin, ⟨done, ?_, hl1⟩, Or.inr (Or.inr ?_), id⟩
        · simp only [CloseSt.owed]; rw [hd, List.append_assoc]
        · rcases writeAllLoop_err _ _ _ hw with hk | rfl
          · exact Or.inl ⟨_, hk, rfl⟩
          · exact Or.inr rfl
      | panic s => exact absurd rfl (hf (by omega) s)
      | ready =>
        simp only at h
        have hr' := hr rfl
        subst hr'
        obtain ⟨rfl, rfl, done2, rest2, rfl, hd2, hw2, hi2, hres⟩ := finishEnd_spec h
        have hres' : (CloseSt.writeEnd rest2 = .writeEnd [] ∧ res = closeDecision
              { sp := r.sp.consumeOutput (List.length r.sp.output), lock := r.lock, writeable := r.writeable }) ∨
            (res = .pending ∧ (CloseSt.writeEnd rest2).owed ≠ []) ∨ WriteFail res := by
          rcases hres with ⟨rfl, hx⟩ | hx | hx
          · exact Or.inl ⟨rfl, hx⟩
          · exact Or.inr (Or.inl hx)
          · exact Or.inr (Or.inr hx)
        refine ⟨rfl, rfl, rfl, rfl, hi2.trans hin, ⟨done ++ done2, ?_, ?_⟩, hres', ?_⟩
        · simp only [CloseSt.owed]
          rw [hd, hd2]; simp
        · rw [hw2, hl1, List.append_assoc]
        · intro hinv
          exact ⟨hinv, by simp [Str.Parser.consumeOutput]⟩

/-- phases 3–4 entered from the record boundary -/
def closeFrom3 (r : AReq) (m : MutexSt) (t : Transport) (status : ExitStatus) (alive : Nat) : CloseOut :=
  match closeP3 r m t .start status alive with
  | .error x => x
  | .ok (r, m, t, st) => closeP4 r m t st

theorem closeFrom2_late (r : AReq) (m : MutexSt) (t : Transport) (st : CloseSt) (status : ExitStatus)
    (alive : Nat) (h : st.late = true) : closeFrom2 r m t st status alive = closeP4 r m t st := by
  unfold closeFrom2
  rw [closeP2_other _ _ _ _ (Or.inl h)]
  simp only [closeP3_late _ _ _ _ _ _ h]

theorem closePoll_late (r : AReq) (st : CloseSt) (status : ExitStatus) (alive : Nat) (m : MutexSt)
    (t : Transport) (h : st.late = true) : closePoll r st status alive m t = closeP4 r m t st := by
  rw [closePoll_eq']
  have : closeP1 r st m t = .ok (r, m, t, st) := by cases st <;> first | rfl | cases h
  rw [this]
  exact closeFrom2_late _ _ _ _ _ _ h

/-- `writers` still alive: `close` fails before writing anything of the epilogue. -/
theorem closeFrom3_alive (r : AReq) (m : MutexSt) (t : Transport) (status : ExitStatus) (alive : Nat)
    (h : 0 < alive) :
    closeFrom3 r m t status alive = ({ r with lock := .none }, .start, lockDrop r.lock m, t, .err .writersAlive) := by
  unfold closeFrom3
  rw [closeP3_start]
  simp [h]

theorem closeFrom3_spec {r : AReq} {m : MutexSt} {t : Transport} {status : ExitStatus}
    {r' : AReq} {cs' : CloseSt} {m' : MutexSt} {t' : Transport} {res : CRes}
    (h : closeFrom3 r m t status 0 = (r', cs', m', t', res)) (hb : r.sp.isRecordBoundary = true) :
    r'.sp.request = r.sp.request ∧ r'.writeable = r.writeable ∧ cs'.late = true ∧ t'.input = t.input ∧
    (∃ done, r.sp.output ++ epilogueOf r status = done ++ cs'.owed ∧ t'.wlog = t.wlog ++ done) ∧
    ((cs' = .writeEnd [] ∧ res = closeDecision r') ∨ (res = .pending ∧ cs'.owed ≠ []) ∨ WriteFail res) ∧
    CloseInv r' cs' := by
  unfold closeFrom3 at h
  rw [closeP3_start] at h
  simp only [Nat.lt_irrefl, if_false] at h
  obtain ⟨_, h2, h3, h4, h5, h6, h7, h8⟩ := closeP4_spec h rfl
  exact ⟨h2, h3, h4, h5, h6, h7, h8 hb⟩

/-! ## `StreamWriter` fuel -/

theorem writeLoop_fuel : ∀ (fuel : Nat) (w : Writer) (head buf : Bytes) (t : Transport)
    {w' : Writer} {t' : Transport} {s : String},
    writeLoop fuel w head buf t = (w', t', .panic s) →
    (head.length - w.headIdx) + w.contentLen + w.padLen < fuel →
    s = "async_io:85 payload_idx underflow" ∨ s = "async_io:112 transport accepted more than offered" := by
  intro fuel
  induction fuel with
  | zero => intro w head buf t w' t' s h hf; omega
  | succ k ih =>
    intro w head buf t w' t' s h hf
    simp only [writeLoop] at h
    split at h
    · cases h
    · split at h
      · cases h; exact Or.inl rfl
      · rename_i hwr hle
        split at h
        · cases h
        · cases h
        · cases h
        · rename_i t1 written hne hwv
          split at h
          · cases h; exact Or.inr rfl
          · rename_i hz
            refine ih _ _ _ _ h ?_
            have hnz : written ≠ 0 := fun h0 => hne (by rw [h0])
            simp only [List.length_drop, zeros, List.length_replicate] at hz ⊢
            omega

theorem headBytes_length (w : Writer) : w.headBytes.length = 8 := by
  simp [Writer.headBytes, RecordHeader.toBytes, toBe16]

theorem pollWrite_panic {w : Writer} {me : Nat} {buf : Bytes} {m : MutexSt} {t : Transport}
    {w' : Writer} {m' : MutexSt} {t' : Transport} {s : String}
    (h : w.pollWrite me buf m t = (w', m', t', .panic s)) : RealSite s := by
  simp only [Writer.pollWrite] at h
  repeat' (split at h)
  all_goals first
    | (cases h; exact .of_async (by decide))
    | (cases h
       have := writeLoop_fuel _ _ _ _ _ ‹writeLoop _ _ _ _ _ = _› (by simp only [headBytes_length]; omega)
       rcases this with rfl | rfl <;> exact .of_async (by decide))
    | (cases h
       have hs := ‹_ = Except.error s›
       split at hs
       · split at hs
         · cases hs; exact .of_async (by decide)
         · cases hs
       · cases hs)
    | cases h

theorem pollFlush_panic {w : Writer} {me : Nat} {m : MutexSt} {t : Transport}
    {w' : Writer} {m' : MutexSt} {t' : Transport} {s : String}
    (h : w.pollFlush me m t = (w', m', t', .panic s)) : RealSite s := by
  simp only [Writer.pollFlush] at h
  repeat' (split at h)
  all_goals first
    | (cases h; exact .of_async (by decide))
    | cases h

/-! ## Handler-interpreter fuel (scripts without `readAll`) -/

def noReadAll (ops : List HOp) : Prop := ∀ op ∈ ops, op ≠ .readAll

theorem curCost_fresh (op : HOp) : curCost .fresh op = opCost op := by cases op <;> rfl

theorem scriptCost_fresh (ops : List HOp) (w : List (Option Writer)) (p : Bool) :
    scriptCost { ops := ops, sub := .fresh, writers := w, propagate := p } = (ops.map opCost).sum := by
  cases ops with
  | nil => rfl
  | cons op rest => simp [scriptCost, curCost_fresh]

theorem curCost_pos (sub : HSub) (op : HOp) : 0 < curCost sub op := by
  cases sub <;> cases op <;> simp [curCost, opCost]

theorem handlerPoll_fuel : ∀ (fuel : Nat) (r : AReq) (h : HState) (e : Env)
    {r' : AReq} {h' : HState} {e' : Env} {s : String},
    handlerPoll fuel r h e = (r', h', e', .panic s) → noReadAll h.ops → scriptCost h < fuel → RealSite s := by
  intro fuel
  induction fuel with
  | zero => intro r h e r' h' e' s hh _ hf; omega
  | succ n ih =>
    intro r h e r' h' e' s hh hnr hf
    simp only [handlerPoll] at hh
    split at hh
    · cases hh
    · rename_i op rest hops
      have hnr' : noReadAll rest := fun o ho => hnr o (by rw [hops]; exact List.mem_cons_of_mem _ ho)
      have hcost : ∀ (w : List (Option Writer)),
          scriptCost { ops := rest, sub := .fresh, writers := w, propagate := h.propagate } < n := by
        intro w
        rw [scriptCost_fresh]
        simp only [scriptCost, hops] at hf
        have := curCost_pos h.sub op
        omega
      have hne : op ≠ .readAll := hnr op (by rw [hops]; exact List.mem_cons_self)
      repeat' (split at hh)
      all_goals first
        | (exact absurd rfl hne)
        | (cases hh; done)
        | (cases hh; exact .of_async (by decide))
        | (cases hh; exact (pollInput_spec ‹_›).2 _ rfl)
        | (cases hh; exact (writeablePoll_spec ‹_›).2 _ rfl)
        | (cases hh; exact pollWrite_panic ‹_›)
        | (cases hh; exact pollFlush_panic ‹_›)
        | exact ih _ _ _ hh hnr' (hcost _)
        | skip
      · refine ih _ _ _ hh hnr ?_
        rename_i nn hn0 _
        have hn0' : nn ≠ 0 := hn0
        have hsub := ‹h.sub = HSub.writeRest _›
        have hlen : ∀ l : Bytes, ¬ l.isEmpty = true → l.length ≠ 0 := by
          intro l hl h0; exact hl (by simp [List.length_eq_zero_iff.1 h0])
        have := hlen _ ‹_›
        simp only [scriptCost, hops, hsub, curCost, List.length_drop] at hf ⊢
        omega
      · refine ih _ _ _ hh hnr ?_
        rename_i i data _ _ _ _ hnsub _ _ _ _ _ nn hn0 _
        have hn0' : nn ≠ 0 := hn0
        have hsub : curCost h.sub (HOp.writeAll i data) = opCost (HOp.writeAll i data) := by
          cases hs : h.sub with
          | writeRest rd => exact absurd hs (hnsub rd)
          | _ => rfl
        have hlen : ∀ l : Bytes, ¬ l.isEmpty = true → l.length ≠ 0 := by
          intro l hl h0; exact hl (by simp [List.length_eq_zero_iff.1 h0])
        have := hlen _ ‹_›
        simp only [scriptCost, hops, hsub, opCost] at hf
        simp only [scriptCost, hops, curCost, List.length_drop]
        omega

/-- How one poll of `close` runs: stopped by `writeable()`, stopped by `record_boundary()`, or —
from the record-boundary state `r2` — through the epilogue phases; a `close` that already built its
epilogue just continues writing. -/
theorem closePoll_cases {r : AReq} {st : CloseSt} {status : ExitStatus} {alive : Nat} {m : MutexSt}
    {t : Transport} {out : CloseOut} (h : closePoll r st status alive m t = out) :
    (st.late = false ∧ closeP1 r st m t = .error out) ∨
    (st.late = false ∧ ∃ r1 m1 t1 st1, closeP1 r st m t = .ok (r1, m1, t1, st1) ∧
      closeP2 r1 m1 t1 st1 = .error out) ∨
    (st.late = false ∧ ∃ r1 m1 t1 st1 r2 m2 t2, closeP1 r st m t = .ok (r1, m1, t1, st1) ∧
      closeP2 r1 m1 t1 st1 = .ok (r2, m2, t2, .start) ∧ r2.sp.isRecordBoundary = true ∧
      closeFrom3 r2 m2 t2 status alive = out) ∨
    (st.late = true ∧ closeP4 r m t st = out) := by
  by_cases hl : st.late = true
  · exact Or.inr (Or.inr (Or.inr ⟨hl, by rw [← h, closePoll_late _ _ _ _ _ _ hl]⟩))
  · have hl' : st.late = false := by simpa using hl
    rw [closePoll_eq'] at h
    cases h1 : closeP1 r st m t with
    | error x => rw [h1] at h; exact Or.inl ⟨hl', by rw [← h]⟩
    | ok y =>
      obtain ⟨r1, m1, t1, st1⟩ := y
      rw [h1] at h
      simp only at h
      have hst1 : st1 = .start ∨ st1 = .inBoundary := by
        rcases (closeP1_ok h1).2 with ⟨_, h⟩ | ⟨h, h', _⟩
        · exact Or.inl h
        · rcases h with h | h
          · rw [hl'] at h; cases h
          · exact Or.inr (h' ▸ h)
      unfold closeFrom2 at h
      cases h2 : closeP2 r1 m1 t1 st1 with
      | error x => rw [h2] at h; simp only at h; exact Or.inr (Or.inl ⟨hl', r1, m1, t1, st1, rfl, by rw [← h]; exact h2⟩)
      | ok z =>
        obtain ⟨r2, m2, t2, st2⟩ := z
        rw [h2] at h
        simp only at h
        have hst2 : st2 = .start ∧ r2.sp.isRecordBoundary = true := by
          rcases (closeP2_ok h2).2.2.2.2.2 with ⟨_, h, hb⟩ | ⟨h, _⟩
          · exact ⟨h, hb⟩
          · rcases hst1 with rfl | rfl <;> simp [CloseSt.late] at h
        obtain ⟨rfl, hb⟩ := hst2
        exact Or.inr (Or.inr (Or.inl ⟨hl', r1, m1, t1, st1, r2, m2, t2, rfl, h2, hb, h⟩))

theorem closeDecision_panic {r : AReq} {s : String} (h : closeDecision r = .panic s) :
    s = "stream.rs:552 output_buffer must be fully consumed" := by
  unfold closeDecision at h
  repeat' (split at h)
  all_goals first | (cases h; rfl) | cases h

/-- `close` never reports a fuel guard (nor the model's "unreachable" state). -/
theorem closePoll_panic {r : AReq} {st : CloseSt} {status : ExitStatus} {alive : Nat} {m : MutexSt}
    {t : Transport} {r' : AReq} {cs' : CloseSt} {m' : MutexSt} {t' : Transport} {s : String}
    (h : closePoll r st status alive m t = (r', cs', m', t', .panic s)) :
    RealSite s := by
  have key : ∀ {res : CRes}, ((cs' = .writeEnd [] ∧ res = closeDecision r') ∨ (res = .pending ∧ cs'.owed ≠ []) ∨
      WriteFail res) → res = .panic s → RealSite s := by
    intro res hres hp
    subst hp
    rcases hres with ⟨_, hd⟩ | ⟨hd, _⟩ | hd
    · rw [closeDecision_panic hd.symm]; exact .of_async (by decide)
    · cases hd
    · rcases hd with ⟨e, _, hd⟩ | hd <;> cases hd
  rcases closePoll_cases h with ⟨_, h1⟩ | ⟨_, r1, m1, t1, st1, _, h2⟩ | ⟨_, r1, m1, t1, st1, r2, m2, t2, _, _, hb, h3⟩ | ⟨hl, h4⟩
  · rcases (closeP1_error h1).2.2 with hp | ⟨e, hp, _⟩ | ⟨s', hp, hs⟩
    · cases hp
    · cases hp
    · cases hp; exact hs
  · rcases (closeP2_error h2).2.2.2.2 with hp | ⟨e, hp⟩ | ⟨s', hp, hs⟩
    · cases hp
    · cases hp
    · cases hp; exact hs
  · by_cases ha : 0 < alive
    · rw [closeFrom3_alive _ _ _ _ _ ha] at h3; cases h3
    · have : alive = 0 := by omega
      subst this
      exact key (closeFrom3_spec h3 hb).2.2.2.2.2.1 rfl
  · exact key (closeP4_spec h4 hl).2.2.2.2.2.2.1 rfl

theorem RealSite.not_unreachable {s : String} (h : RealSite s) : s ≠ "model: unreachable close state" := by
  rcases h with h | h
  · simp only [asyncPanicSites, List.mem_cons, List.not_mem_nil, or_false] at h
    rcases h with rfl | rfl | rfl | rfl | rfl | rfl | rfl | rfl | rfl | rfl | rfl | rfl | rfl | rfl <;> decide
  · simp only [strPanicSites, List.mem_cons, List.not_mem_nil, or_false] at h
    rcases h with rfl | rfl | rfl | rfl | rfl <;> decide

/-! ## Exact events of a phase transition -/

def Phase.isHandler : Phase → Bool
  | .handler _ _ => true
  | _ => false

/-- the events of one phase transition: quiet, unless it leads from `parseReq` into `handler`, in
which case exactly one `HS(` event is appended -/
def StepEvents (c c' : Conn) : Prop :=
  ∃ new, c'.env.tr.events = c.env.tr.events ++ new ∧
    ((Quiet new ∧ ¬ (c.phase.isParse = true ∧ c'.phase.isHandler = true)) ∨
     (hsCount new = 1 ∧ c.phase.isParse = true ∧ c'.phase.isHandler = true))

theorem StepEvents.of_tle {c c' : Conn} (h : TLe c.env.tr c'.env.tr)
    (hph : ¬ (c.phase.isParse = true ∧ c'.phase.isHandler = true)) : StepEvents c c' := by
  obtain ⟨n, e, q⟩ := h.ev
  exact ⟨n, e, Or.inl ⟨q, hph⟩⟩

theorem StepEvents.hs_start {c : Conn} {t : Transport} (hp : c.phase.isParse = true) (ht : TLe c.env.tr t)
    (rq : Request) (r : AReq) (h : HState) (sc : List (List HOp × Bool)) :
    StepEvents c { phase := .handler r h, env := ({ c.env with tr := t }).ev (hsEvent rq), scripts := sc,
                   stop := c.stop } := by
  obtain ⟨n, e, q⟩ := ht.ev
  refine ⟨n ++ [hsEvent rq], ?_, Or.inr ⟨?_, hp, rfl⟩⟩
  · show (t.events ++ [hsEvent rq]) = _
    rw [e, List.append_assoc]
  · rw [hsCount_append, hsCount_eq_zero q, hsCount_single_true (isHS_hsEvent _)]

theorem stepConn_events (c : Conn) : StepEvents c (stepConn c).conn := by
  obtain ⟨phase, env, scripts, stop⟩ := c
  cases phase with
  | finished => exact .of_tle (.refl _) (by simp [Phase.isParse])
  | handler r h =>
    simp only [stepConn]
    repeat' split
    all_goals
      refine StepEvents.of_tle ?_ (by simp [Phase.isParse])
      first
        | exact handlerPoll_le _ _ _ _ ‹_›
        | exact (handlerPoll_le _ _ _ _ ‹_›).trans (TLe.ev_of _ (by simp [isHS, toString_str]))
  | closing r cs status alive =>
    simp only [stepConn]
    repeat' split
    all_goals exact StepEvents.of_tle (closePoll_le ‹_›) (by simp [Phase.isParse])
  | parseReq rp sub =>
    cases stop with
    | true => exact .of_tle (.refl _) (by simp [stepConn, Step.conn, Phase.isHandler])
    | false =>
      cases sub with
      | start =>
        simp only [stepConn, Bool.false_eq_true, if_false]
        repeat' split
        all_goals exact .of_tle (.refl _) (by simp [Step.conn, Phase.isHandler])
      | reading =>
        simp only [stepConn, Bool.false_eq_true, if_false]
        repeat' split
        all_goals exact .of_tle (read_le ‹_›) (by simp [Step.conn, Phase.isHandler])
      | writing rest done =>
        simp only [stepConn, Bool.false_eq_true, if_false]
        repeat' split
        all_goals first
          | exact .of_tle (writeAllLoop_le _ _ _ ‹_›) (by simp [Step.conn, Phase.isHandler])
          | exact StepEvents.hs_start rfl (writeAllLoop_le _ _ _ ‹_›) _ _ _ _

/-! ## Connection fuel -/

/-- Once a poll returns anything but the connection fuel guard, more fuel changes nothing. -/
theorem pollConn_fuel_stable : ∀ (f : Nat) (c : Conn) {c' : Conn} {r : PRes},
    pollConn f c = (c', r) → r ≠ .panic "model: connection fuel exhausted" →
    ∀ k, pollConn (f + k) c = (c', r) := by
  intro f
  induction f with
  | zero => intro c c' r h hne k; cases h; exact absurd rfl hne
  | succ n ih =>
    intro c c' r h hne k
    rw [show n + 1 + k = (n + k) + 1 by omega, pollConn_succ]
    rw [pollConn_succ] at h
    cases hs : stepConn c with
    | next c1 => rw [hs] at h; exact ih c1 h hne k
    | halt c1 r1 => rw [hs] at h; exact h

end Fcgi.Run
