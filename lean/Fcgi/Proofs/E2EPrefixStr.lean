import Fcgi.Proofs.E2EPrefixRef
/-!
# End-to-end composition (C07/C05) — `record_boundary()` over the unread rest of a Stdin stream

`R2`: the `Request` inside `close`'s `record_boundary()`: the stream parser ignores the stream
(`stream = None`), is framed on the stream's record list (`Ign`), and its view follows the reference
of `⟨id, 3, 8⟩` on all bytes handed to it since the stream began (`hist`), `dO` = all replies
generated so far.  `parse_r2`: one `parse(new, None)` call; `bloop_sim`: the loop of
`record_boundary()` on a benign transport — it ends at a record boundary of the ORIGINAL record list.
-/
namespace Fcgi.E2E
open Fcgi Fcgi.Req Fcgi.Str Fcgi.Async Fcgi.Run Fcgi.Spec

/-- the view's configuration -/
abbrev Ev (id mc : Nat) : Str.Cfg := ⟨id, 3, 8, mc⟩

structure R2 (id mc cap : Nat) (R : List Rec) (sp : Str.Parser) (G fut dO : Bytes) : Prop where
  ign : Ign id R sp fut
  mt : Match (Ev id mc) (view sp)
  sinv : SInv (view sp)
  capK : sp.cap = cap
  par : sp.parsed = []
  wire : G ++ fut = serAll R
  hist : ∀ x, G ++ x <+: serAll R → refWire (Ev id mc) (G ++ x) = (Rem (Ev id mc) (view sp) x).pre [] dO

/-- the records of the stream and the buffer -/
structure R2Ctx (id mc cap : Nat) (R : List Rec) : Prop where
  recs : ∀ r ∈ R, StdinRec id r
  hid : id < 65536
  fits : NoiseFits cap R
  cap8 : 8 ≤ cap

theorem R2.now {id mc cap : Nat} {R : List Rec} (hc : R2Ctx id mc cap R) {sp : Str.Parser} {G fut dO : Bytes}
    (h : R2 id mc cap R sp G fut dO) :
    (Rem (Ev id mc) (view sp) fut).content = [] ∧ dO ++ (Rem (Ev id mc) (view sp) fut).out = owedI id mc R ∧
    (Rem (Ev id mc) (view sp) fut).verdict = .more := by
  have := h.hist fut (by rw [h.wire]; exact List.prefix_refl _)
  rw [h.wire, refWire_view id mc hc.recs] at this
  have h1 := congrArg RefOut.content this
  have h2 := congrArg RefOut.out this
  have h3 := congrArg RefOut.verdict this
  simp only [RefOut.pre_content, RefOut.pre_out, RefOut.pre_verdict, List.nil_append] at h1 h2 h3
  exact ⟨h1.symm, h2.symm, h3.symm⟩

/-- **One `parse(new, None)` call of `record_boundary()`.** -/
theorem parse_r2 {id mc cap : Nat} {R : List Rec} (hc : R2Ctx id mc cap R) {sp : Str.Parser} {G new fut dO : Bytes}
    (hi : R2 id mc cap R sp G (new ++ fut) dO) (hfree : new.length ≤ sp.free) :
    ∃ p' st o, sp.parse new none = (p', .ok st) ∧ p'.output = sp.output ++ o ∧ p'.request = sp.request ∧
      p'.maxConns = sp.maxConns ∧
      R2 id mc cap R p' (G ++ new) fut (dO ++ o) ∧
      (p'.isRecordBoundary = false → p'.raw.length < cap ∧ fut ≠ []) := by
  have hR := stdin_recsOK hc.recs
  obtain ⟨hv, hign⟩ := parse_ign hR hi.ign
  have hfree' : new.length ≤ (view sp).free := hfree
  have hpar' : (view sp).parsed = [] := hi.par
  have hpt := C03S.parse_total (view sp) new none hi.sinv (Or.inl rfl) hfree'
  have hri : ∀ x, ∃ lost, _ := fun x =>
    parse_ri (E := Ev id mc) (fut := x) (p := view sp) (new := new) (dest := none) hi.mt hi.sinv (Or.inl rfl) hfree'
  have hfr := parse_frame (view sp) new none
  have hnow := hi.now hc
  cases hp : sp.parse new none with
  | mk p1 res1 =>
    rw [hp] at hv hign
    simp only at hv hign
    rw [hv] at hpt hfr
    cases res1 with
    | panic s => exact hpt.elim
    | err e =>
      exfalso
      obtain ⟨lost, _, _, _, hvd, _, _, hm⟩ := hri fut
      rw [hv] at hvd hm
      simp only [resv] at hvd hm
      obtain ⟨a, b, c⟩ := hm
      rw [a, b, ref_atStop c] at hvd
      have := hnow.2.2
      unfold Rem at this
      rw [← hvd] at this
      cases this
    | ok st =>
      have hign1 : Ign id R p1 fut := by
        rcases hign with h | ⟨s, hs⟩
        · exact h
        · cases hs
      simp only [resv] at hpt hfr
      obtain ⟨hs', hfs', hcap', hreq', _, hmc', _⟩ := hpt
      obtain ⟨o, ho⟩ := hfr.2.2.2.2.2.1
      obtain ⟨d, hd⟩ := hfr.2.2.2.2.2.2
      have ho' : p1.output = sp.output ++ o := ho.symm
      have hog : C03S.outGrowth (view sp) (.parse new none) = o := by
        simp only [C03S.outGrowth, hv]
        show (view p1).output.drop (view sp).output.length = o
        rw [show (view p1).output = p1.output from rfl, show (view sp).output = sp.output from rfl, ho', List.drop_left]
      have hav : availOp (view sp) (.parse new none) = d := by
        simp only [availOp, hv]
        show (view p1).parsed.drop (view sp).parsed.length = d
        rw [← hd, List.drop_left]
      -- nothing goes into the stream buffer
      have hd0 : d = [] := by
        obtain ⟨lost, _, h1, _, _, _, _, _⟩ := hri fut
        rw [hv] at h1
        simp only at h1
        rw [hav] at h1
        have hc0 := hnow.1
        unfold Rem at hc0
        rw [hc0] at h1
        exact (List.append_eq_nil_iff.1 (List.append_eq_nil_iff.1 h1).1).1
      have hpar1 : p1.parsed = [] := by
        have : (view p1).parsed = (view sp).parsed ++ d := hd.symm
        rw [hd0, List.append_nil] at this
        exact this.trans hi.par
      have hist' : ∀ x, (G ++ new) ++ x <+: serAll R →
          refWire (Ev id mc) ((G ++ new) ++ x) = (Rem (Ev id mc) (view p1) x).pre [] (dO ++ o) := by
        intro x hx
        obtain ⟨lost, _, h1, h2, h3, h4, hl, _⟩ := hri x
        rw [hv] at h1 h2 h3 h4 hl
        simp only at h1 h2 h3 h4 hl
        rw [(hl trivial).1, List.append_nil, hav, hd0, List.nil_append] at h1
        rw [hog] at h2
        rw [List.append_assoc] at hx ⊢
        rw [hi.hist (new ++ x) hx]
        apply RefOut.ext'
        · simp only [RefOut.pre_content, Rem, List.nil_append]; rw [← h1]
        · simp only [RefOut.pre_out, Rem, List.append_assoc]; rw [← h2]
        · simp only [RefOut.pre_verdict, Rem]; rw [h3]
        · simp only [RefOut.pre_unread, Rem]; rw [h4]
      have hmt' : Match (Ev id mc) (view p1) := by
        obtain ⟨_, hm', _⟩ := hri fut
        rw [hv] at hm'; exact hm'
      have hterm : Terminal (Ev id mc) (view p1) := by
        obtain ⟨_, _, _, _, _, _, hl, _⟩ := hri fut
        rw [hv] at hl
        exact (hl rfl).2
      have hi' : R2 id mc cap R p1 (G ++ new) fut (dO ++ o) :=
        ⟨hign1, hmt', hs', (show p1.cap = sp.cap from hcap').trans hi.capK, hpar1,
          by rw [List.append_assoc]; exact hi.wire, hist'⟩
      refine ⟨p1, st, o, rfl, ho', (congrArg (fun r : Request => r) ?_), hmc', hi', ?_⟩
      · -- the actual request is untouched
        have := (parse_frame sp new none).2.1
        rw [hp] at this
        exact this
      · intro hnb
        have hnb' : ¬ (p1.pay = 0 ∧ p1.pad = 0) := by
          intro hx
          simp [Str.Parser.isRecordBoundary, hx.1, hx.2] at hnb
        have hidle : Idle (view p1) := by
          rcases hterm with h | ⟨h1, h2, _⟩ | h
          · exact Or.inl (Or.inl h)
          · exact absurd ⟨h1, h2⟩ hnb'
          · exact Or.inr h
        have h0 := hist' [] (by
          rw [List.append_nil]
          exact ⟨fut, by rw [List.append_assoc]; exact hi.wire⟩)
        rw [idle_ref (Ev id mc) hidle, List.append_nil] at h0
        have hvm : (refWire (Ev id mc) (G ++ new)).verdict = .more := by rw [h0]; rfl
        have hu : (refWire (Ev id mc) (G ++ new)).unread = p1.raw := by rw [h0]; rfl
        constructor
        · rw [← hu]
          exact fits_view id mc hc.hid hc.recs hc.cap8 hc.fits _
            ⟨fut, by rw [List.append_assoc]; exact hi.wire⟩ hvm
        · intro hf
          subst hf
          obtain ⟨c, pd, rs, h1, h2, h3, _⟩ := hign1.pos
          rw [List.append_nil] at h3
          have hlen := congrArg List.length h3
          simp only [List.length_append] at hlen
          rcases hidle with (h | ⟨a, b, _⟩) | ⟨v, _, hlt, _⟩
          · have h' : p1.raw = [] := h
            rw [h'] at hlen
            simp only [List.length_nil] at hlen
            exact hnb' ⟨by omega, by omega⟩
          · exact hnb' ⟨a, b⟩
          · have : (view p1).raw.length < (view p1).pay := hlt
            have e1 : (view p1).raw = p1.raw := rfl
            have e2 : (view p1).pay = p1.pay := rfl
            rw [e1, e2] at this
            omega

/-! ## The loop of `record_boundary()` -/

theorem R2.compress {id mc cap : Nat} {R : List Rec} {sp : Str.Parser} {G fut dO : Bytes}
    (h : R2 id mc cap R sp G fut dO) : R2 id mc cap R sp.compress G fut dO :=
  ⟨⟨h.ign.strm, h.ign.rid, h.ign.pos⟩, h.mt.of_eq rfl rfl rfl, SInv_compress h.sinv, h.capK, h.par, h.wire, h.hist⟩

theorem R2.input {id mc cap : Nat} {R : List Rec} {sp : Str.Parser} {G fut fut' dO : Bytes}
    (h : R2 id mc cap R sp G fut dO) (e : fut' = fut) : R2 id mc cap R sp G fut' dO := by subst e; exact h

/-- what `record_boundary()` leaves when it is done or suspended -/
structure BEnd (id mc cap : Nat) (R : List Rec) (sp sp' : Str.Parser) (dO : Bytes) (t' : Transport) : Prop where
  out : ∃ o G', sp'.output = sp.output ++ o ∧ R2 id mc cap R sp' G' t'.input (dO ++ o)
  req : sp'.request = sp.request
  mc : sp'.maxConns = sp.maxConns

theorem bloop_sim {id mc cap : Nat} {R : List Rec} (hc : R2Ctx id mc cap R) : ∀ (fuel : Nat) (sp : Str.Parser)
    (new : Bytes) (t : Transport) {G dO : Bytes} {sp' : Str.Parser} {t' : Transport} {res : ORes},
    Ben t → R2 id mc cap R sp G (new ++ t.input) dO → new.length ≤ sp.free → t.input.length + 2 ≤ fuel →
    boundaryLoop fuel sp new t = (sp', t', res) →
    TStep t t' ∧ t'.wlog = t.wlog ∧ BEnd id mc cap R sp sp' dO t' ∧
      ((res = .ready ∧ sp'.isRecordBoundary = true) ∨
       (res = .pending ∧ t'.woken = true ∧ ans t' < ans t ∧ sp'.isRecordBoundary = false ∧
          sp'.raw.length < cap ∧ sp'.g0 = 0 ∧ sp'.g1 = 0 ∧ t'.input ≠ [])) := by
  intro fuel
  induction fuel with
  | zero => intro sp new t G dO sp' t' res _ _ _ hf; omega
  | succ k ih =>
    intro sp new t G dO sp' t' res hb hi hfree hf h
    obtain ⟨p1, st, o, hp, ho, hreq, hmc, hi1, hstall⟩ := parse_r2 hc hi hfree
    simp only [boundaryLoop, hp] at h
    by_cases hbd : p1.isRecordBoundary = true
    · simp only [boundaryLoop.cont, hbd, if_true] at h
      cases h
      exact ⟨.refl _, rfl, ⟨⟨o, _, ho, hi1⟩, hreq, hmc⟩, Or.inl ⟨rfl, hbd⟩⟩
    · have hbd' : p1.isRecordBoundary = false := by simpa using hbd
      obtain ⟨hraw, hne⟩ := hstall hbd'
      have hpe : p1.parsed.isEmpty = true := by rw [hi1.par]; rfl
      simp only [boundaryLoop.cont, hbd', Bool.false_eq_true, if_false, hpe, Bool.not_true] at h
      have hi2 := hi1.compress
      have hfreec : p1.compress.free = cap - p1.raw.length := by
        simp [Str.Parser.free, Str.Parser.freeStart, Str.Parser.compress, hi1.par, hi1.capK]
      have hfp : 0 < p1.compress.free := by rw [hfreec]; omega
      split at h
      · rename_i t1 hr
        have hwl : t1.wlog = t.wlog := by have := read_wlog t p1.compress.free; rwa [hr] at this
        obtain ⟨hinp, hw | hw⟩ := read_pending hb hr
        · have hts := read_tstep hr
          cases h
          exact ⟨hts, hwl, ⟨⟨o, _, ho, hi2.input hinp⟩, hreq, hmc⟩,
            Or.inr ⟨rfl, hw.1, hw.2, hbd', hraw, rfl, rfl, by rw [hinp]; exact hne⟩⟩
        · exact absurd hw.1 hne
      · rename_i t1 e hr
        exact (read_error hb hr).elim
      · rename_i t1 hr
        obtain ⟨_, _, _, hz⟩ := read_ok_ben hb hr
        rcases hz rfl with hz | hz
        · omega
        · exact absurd hz.1 hne
      · rename_i t1 bs hbs hr
        obtain ⟨hin, hwl, hlen, _⟩ := read_ok_ben hb hr
        have hbne : bs ≠ [] := fun hx => hbs (by rw [hx])
        have hbpos : 0 < bs.length := List.length_pos_iff.mpr hbne
        have hs1 := read_tstep hr
        have hlen1 : t1.input.length + 2 ≤ k := by
          have := congrArg List.length hin
          simp only [List.length_append] at this
          omega
        obtain ⟨q1, q2, ⟨⟨o2, G2, ho2, hi3⟩, hreq2, hmc2⟩, q4⟩ :=
          ih p1.compress bs t1 (hb.step hs1) (hi2.input (by rw [← hin])) hlen hlen1 h
        refine ⟨hs1.trans q1, q2.trans hwl, ⟨⟨o ++ o2, G2, ?_, by rw [← List.append_assoc]; exact hi3⟩,
          hreq2.trans hreq, hmc2.trans hmc⟩, ?_⟩
        · rw [ho2]
          show p1.output ++ o2 = _
          rw [ho, List.append_assoc]
        · rcases q4 with q4 | ⟨a, b, c, d⟩
          · exact Or.inl q4
          · exact Or.inr ⟨a, b, by have := hs1.ans_le; omega, d⟩

/-! ## The framing through `poll_input` -/

theorem inLoop_pos {R : List Rec} (hR : ∀ r ∈ R, r.WF) {dest : Option Nat} : ∀ (fuel : Nat) (r : AReq) (new : Bytes)
    (t : Transport) {r' : AReq} {m' : MutexSt} {t' : Transport} {res : IRes},
    Ben t → r.lock = .none → Pos R r.sp.raw r.sp.pay r.sp.pad (new ++ t.input) →
    inLoop fuel r new dest none t = (r', m', t', res) → (∀ s, res ≠ .panic s) →
    Pos R r'.sp.raw r'.sp.pay r'.sp.pad t'.input := by
  intro fuel
  induction fuel with
  | zero =>
    intro r new t r' m' t' res _ _ _ h hnp
    simp only [inLoop] at h
    cases h
    exact absurd rfl (hnp _)
  | succ k ih =>
    intro r new t r' m' t' res hb hlk hpos h hnp
    have hpp := parse_pos hR (p := r.sp) (new := new) (fut := t.input) dest hpos
    simp only [inLoop] at h
    cases hp : r.sp.parse new dest with
    | mk p1 pr =>
      rw [hp] at h hpp
      simp only at hpp
      cases pr with
      | panic s => simp only at h; cases h; exact absurd rfl (hnp _)
      | err e =>
        simp only at h
        cases h
        rcases hpp with h1 | ⟨s, hs⟩
        · exact h1
        · cases hs
      | ok st =>
        have hp1 : Pos R p1.raw p1.pay p1.pad t.input := by
          rcases hpp with h1 | ⟨s, hs⟩
          · exact h1
          · cases hs
        simp only at h
        split at h
        · split at h <;> (cases h; exact hp1)
        · have hl2 : LockInv { r with sp := p1.compress } none := lockInv_free hlk
          rcases hpo : AReq.pollOutput { r with sp := p1.compress } none t with ⟨r3, m3, t3, ores⟩
          rw [hpo] at h
          obtain ⟨kk, e1, e2, e3, e4, e5, _, e7, e8⟩ := Async.pollOutput_spec hl2 hpo
          obtain ⟨b1, b2⟩ := pollOutput_ben hl2 (Or.inl rfl) hb hpo
          have hp3 : Pos R r3.sp.raw r3.sp.pay r3.sp.pad t3.input := by
            rw [e1, e4.1]; exact hp1
          cases ores with
          | pending => simp only at h; cases h; exact hp3
          | err e => simp only at h; cases h; exact hp3
          | panic s => simp only at h; cases h; exact absurd rfl (hnp _)
          | ready =>
            obtain ⟨f1, f2, f3, f4⟩ := e7 rfl
            have hm3 : m3 = none := by
              by_cases ho0 : ({ r with sp := p1.compress } : AReq).sp.output = []
              · exact (f3 ho0).2.1
              · exact f4 ho0
            subst hm3
            simp only at h
            have hb3 := hb.step b1
            split at h
            · rename_i t1 hr
              obtain ⟨hinp, _⟩ := read_pending hb3 hr
              cases h
              rw [hinp]; exact hp3
            · rename_i t1 e hr
              exact (read_error hb3 hr).elim
            · rename_i t1 hr
              obtain ⟨hin, _⟩ := read_ok_ben hb3 hr
              cases h
              rw [List.nil_append] at hin
              rw [← hin]; exact hp3
            · rename_i t1 bs hbs hr
              obtain ⟨hin, _⟩ := read_ok_ben hb3 hr
              exact ih r3 bs t1 (hb3.step (read_tstep hr)) f2 (by rw [← hin]; exact hp3) h hnp

/-- **`poll_input(Some(n))` keeps the framing.** -/
theorem pollInput_pos {R : List Rec} (hR : ∀ r ∈ R, r.WF) {n : Nat} {r : AReq} {m : MutexSt} {t : Transport}
    {r' : AReq} {m' : MutexSt} {t' : Transport} {res : IRes} (hb : Ben t) (hl : LockInv r m)
    (hm : m = none ∨ m = some 0) (hpar : r.sp.parsed = [])
    (hpos : Pos R r.sp.raw r.sp.pay r.sp.pad t.input)
    (h : r.pollInput (some (n + 1)) m t = (r', m', t', res)) (hnp : ∀ s, res ≠ .panic s) :
    Pos R r'.sp.raw r'.sp.pay r'.sp.pad t'.input := by
  simp only [AReq.pollInput, hpar] at h
  rcases hpo : r.pollOutput m t with ⟨r3, m3, t3, ores⟩
  rw [hpo] at h
  obtain ⟨kk, e1, e2, e3, e4, e5, _, e7, e8⟩ := Async.pollOutput_spec hl hpo
  obtain ⟨b1, b2⟩ := pollOutput_ben hl hm hb hpo
  have hp3 : Pos R r3.sp.raw r3.sp.pay r3.sp.pad t3.input := by
    rw [e1, e4.1]; exact hpos
  cases ores with
  | pending => simp only at h; cases h; exact hp3
  | err e => simp only at h; cases h; exact hp3
  | panic s => simp only at h; cases h; exact absurd rfl (hnp _)
  | ready =>
    obtain ⟨f1, f2, f3, f4⟩ := e7 rfl
    have hm3 : m3 = none := by
      by_cases ho0 : r.sp.output = []
      · have hm0 : m = none := by
          rcases hm with hm | hm
          · exact hm
          · have := hl.1.2 hm
            rw [hl.2 ho0] at this; cases this
        rw [(f3 ho0).2.1, hm0]
      · exact f4 ho0
    subst hm3
    simp only at h
    exact inLoop_pos hR _ r3 [] t3 (hb.step b1) f2 (by simpa using hp3) h hnp

/-! ## `set_stream(None)` after the reads: from the stream's reference to the view's -/

theorem later358 : Later 3 (some 5) 8 := by decide

/-- **The switch.**  The Responder's `Request` after its reads (`RInv` for `⟨id, 1, 5⟩`, framed on the
stream's records), `set_stream(None)`: the ignoring parser's view follows `⟨id, 3, 8⟩` on everything
handed to the parser so far, with the replies generated so far. -/
theorem r2_of_switch {id mc cap : Nat} {R : List Rec} (hc : R2Ctx id mc cap R) {K : RCtx} {r : AReq}
    {G fut dC dO : Bytes} (hE : K.E = ⟨id, 1, 5, mc⟩) (hX : K.X = serAll R) (hcap : K.cap = cap)
    (hi : RInv K r G fut dC dO) (hpos : Pos R r.sp.raw r.sp.pay r.sp.pad fut) :
    R2 id mc cap R (r.sp.switchTo none) G fut dO := by
  have hR := stdin_recsOK hc.recs
  have hmt := hi.mt
  rw [hE] at hmt
  have hsinv := hi.sinv
  refine ⟨⟨rfl, hmt.id, hpos⟩, ⟨hmt.id, rfl, rfl, hmt.mc, (by show 8 ∈ inputStreams 3; decide)⟩, ?_, hi.capK.trans hcap, rfl,
    by rw [← hX]; exact hi.wire, ?_⟩
  · obtain ⟨h1, h2, h3, h4, _, h6⟩ := hsinv
    refine ⟨?_, h2, h3, ?_, Or.inr ⟨8, rfl, (by show 8 ∈ inputStreams 3; decide)⟩, h6⟩
    · simp only [Str.Parser.freeStart, view, Str.Parser.switchTo, Str.Parser.discardStream, List.length_nil] at h1 ⊢
      omega
    · show match (if r.sp.state == .stream then SState.skip else r.sp.state) with | .values v => v < 8 | _ => True
      rw [demote_eq]
      cases hst : r.sp.state with
      | values v => rw [hst] at h4; exact h4
      | stream => trivial
      | skip => trivial
  · intro x hx
    have hxf : x <+: fut := by
      rw [← hX, ← hi.wire] at hx
      exact (List.prefix_append_right_inj G).1 hx
    have hclean0 : CleanW id 0 0 (G ++ x) := clean_recs id R hR _ hx
    have hclean1 : CleanW id r.sp.pay r.sp.pad (r.sp.raw ++ x) :=
      clean_pos hR hpos ((List.prefix_append_right_inj r.sp.raw).2 hxf)
    have hw : refWire (Ev id mc) (G ++ x) = switchRef (Ev id mc) (refWire ⟨id, 1, 5, mc⟩ (G ++ x)) := by
      rw [← ref_eq_refWire (Ev id mc) .skip, ← ref_eq_refWire ⟨id, 1, 5, mc⟩ .skip, ref_role id mc hclean0]
      exact ref_switch (E := ⟨id, 3, 5, mc⟩) later358 (G ++ x) .skip 0 0
    have hrem : Rem (Ev id mc) (view (r.sp.switchTo none)) x = switchRef (Ev id mc) (Rem ⟨id, 1, 5, mc⟩ r.sp x) := by
      unfold Rem
      show ref (Ev id mc) (if r.sp.state == .stream then SState.skip else r.sp.state) r.sp.pay r.sp.pad (r.sp.raw ++ x) = _
      rw [demote_eq, ref_role id mc hclean1]
      exact ref_switch (E := ⟨id, 3, 5, mc⟩) later358 (r.sp.raw ++ x) r.sp.state r.sp.pay r.sp.pad
    have h1 := hi.hist x
    rw [hE] at h1
    rw [hw, h1, switchRef_pre, hrem]

end Fcgi.E2E
