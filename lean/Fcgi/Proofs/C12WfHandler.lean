import Fcgi.Proofs.C12WfConn
/-!
# Helper lemmas for `Props/C12Wf.lean`, part 3: the handler interpreter

`HI r h m wlog`: the invariant of the handler phase for a handler that propagates I/O errors.  All
`StreamWriter`s are idle except the one addressed by the operation at the head of the script; what
that one has sent of its current record (`sent`) is the only partial record in the log
(`wlog = base ++ sent`), and `RInv base m r` holds for the `Request`.
-/
namespace Fcgi.C12Inv
open Fcgi Fcgi.Req Fcgi.Str Fcgi.Async Fcgi.Run

def bufOf (sub : HSub) (data : Bytes) : Bytes :=
  match sub with
  | .writeRest rd => rd
  | _ => data

def WIdle (w : Writer) : Prop := w.lock = .none ∧ w.isWriting = false

/-- what the writer addressed by the head operation has sent of its current record -/
def WPart (h : HState) (sent : Bytes) : Prop :=
  match h.ops with
  | .writeAll i data :: _ =>
    match h.writers.getD i none with
    | some w => C10.Started w (bufOf h.sub data) sent
    | none => sent = []
  | _ => sent = []

def WActive (h : HState) (j : Nat) (w : Writer) : Prop :=
  (∃ data rest, h.ops = .writeAll j data :: rest) ∨ (∃ rest, h.ops = .flush j :: rest ∧ w.isWriting = false)

structure WsOk (h : HState) (m : MutexSt) : Prop where
  each : ∀ j w, h.writers.getD j none = some w → Consistent (j + 1) w.lock m ∧ (WIdle w ∨ WActive h j w)
  mutex : m = none ∨ m = some 0 ∨ ∃ j w, h.writers.getD j none = some w ∧ m = some (j + 1)

structure HI (r : AReq) (h : HState) (m : MutexSt) (wlog : Bytes) : Prop where
  ws : WsOk h m
  log : ∃ base sent, wlog = base ++ sent ∧ WPart h sent ∧ (r.lock = .held → sent = []) ∧ RInv base m r

/-- every writer is idle and no writer owns the mutex -/
structure AllIdle (ws : List (Option Writer)) (m : MutexSt) : Prop where
  mutex : m = none ∨ m = some 0
  each : ∀ j w, ws.getD j none = some w → WIdle w

theorem idle_consistent {w : Writer} {j : Nat} {m : MutexSt} (hw : WIdle w) (hm : m = none ∨ m = some 0) :
    Consistent (j + 1) w.lock m := by
  unfold Consistent
  rw [hw.1]
  rcases hm with rfl | rfl <;> simp

theorem HI.of_idle {r : AReq} {h : HState} {m : MutexSt} {wlog : Bytes}
    (hidle : AllIdle h.writers m) (hr : RInv wlog m r) : HI r h m wlog := by
  refine ⟨⟨fun j w hw => ⟨idle_consistent (hidle.each j w hw) hidle.mutex, Or.inl (hidle.each j w hw)⟩, ?_⟩,
    wlog, [], by simp, ?_, fun _ => rfl, hr⟩
  · rcases hidle.mutex with h | h
    · exact Or.inl h
    · exact Or.inr (Or.inl h)
  · unfold WPart
    split
    · split
      · rename_i w hw
        exact Or.inl ⟨(hidle.each _ w hw).1, (hidle.each _ w hw).2, rfl⟩
      · rfl
    · rfl

/-- if the head operation is not a writer operation, every writer is idle and the log has no partial
record -/
theorem HI.idle {r : AReq} {h : HState} {m : MutexSt} {wlog : Bytes} (hi : HI r h m wlog)
    (hnw : ∀ j d rest, h.ops ≠ .writeAll j d :: rest) (hnf : ∀ j rest, h.ops ≠ .flush j :: rest) :
    AllIdle h.writers m ∧ RInv wlog m r := by
  have hidle : ∀ j w, h.writers.getD j none = some w → WIdle w := by
    intro j w hw
    rcases (hi.ws.each j w hw).2 with h1 | ⟨d, rest, h2⟩ | ⟨rest, h2, _⟩
    · exact h1
    · exact absurd h2 (hnw _ _ _)
    · exact absurd h2 (hnf _ _)
  refine ⟨⟨?_, hidle⟩, ?_⟩
  · rcases hi.ws.mutex with h1 | h1 | ⟨j, w, hw, hm⟩
    · exact Or.inl h1
    · exact Or.inr h1
    · have := ((hi.ws.each j w hw).1).mpr hm
      rw [(hidle j w hw).1] at this; cases this
  · obtain ⟨base, sent, hl, hp, _, hr⟩ := hi.log
    have : sent = [] := by
      unfold WPart at hp
      split at hp
      · rename_i i data rest heq
        exact absurd heq (hnw _ _ _)
      · exact hp
    subst this
    rw [hl, List.append_nil]; exact hr

theorem AllIdle.frame0 {ws : List (Option Writer)} {m m' : MutexSt} (h : AllIdle ws m) (hf : MFrame 0 m m') :
    AllIdle ws m' := by
  refine ⟨?_, h.each⟩
  rcases hf with rfl | ⟨_, h2⟩
  · exact h.mutex
  · exact h2

theorem getD_set_some {ws : List (Option Writer)} {i j : Nat} {a w : Writer}
    (h : (ws.set i (some a)).getD j none = some w) : (j = i ∧ w = a) ∨ (j ≠ i ∧ ws.getD j none = some w) := by
  rw [List.getD_eq_getElem?_getD, List.getElem?_set] at h
  by_cases hij : i = j
  · subst hij
    simp only [if_true] at h
    split at h
    · simp at h; exact Or.inl ⟨rfl, h.symm⟩
    · simp at h
  · simp only [if_neg hij] at h
    exact Or.inr ⟨fun e => hij e.symm, by rw [List.getD_eq_getElem?_getD]; exact h⟩

theorem getD_set_none {ws : List (Option Writer)} {i j : Nat} {w : Writer}
    (h : (ws.set i none).getD j none = some w) : j ≠ i ∧ ws.getD j none = some w := by
  rw [List.getD_eq_getElem?_getD, List.getElem?_set] at h
  by_cases hij : i = j
  · subst hij
    simp only [if_true] at h
    split at h <;> simp at h
  · simp only [if_neg hij] at h
    exact ⟨fun e => hij e.symm, by rw [List.getD_eq_getElem?_getD]; exact h⟩

theorem getD_append_some {ws : List (Option Writer)} {a : Writer} {j : Nat} {w : Writer}
    (h : (ws ++ [some a]).getD j none = some w) : ws.getD j none = some w ∨ w = a := by
  rw [List.getD_eq_getElem?_getD] at h
  by_cases hj : j < ws.length
  · rw [List.getElem?_append_left hj] at h
    exact Or.inl (by rw [List.getD_eq_getElem?_getD]; exact h)
  · rw [List.getElem?_append_right (by omega)] at h
    right
    cases hk : j - ws.length with
    | zero => rw [hk] at h; simp at h; exact h.symm
    | succ k => rw [hk] at h; simp at h

theorem getD_lt {ws : List (Option Writer)} {i : Nat} {w : Writer} (h : ws.getD i none = some w) :
    i < ws.length := by
  rw [List.getD_eq_getElem?_getD] at h
  by_cases hi : i < ws.length
  · exact hi
  · rw [List.getElem?_eq_none (by omega)] at h; cases h

theorem getD_set_self {ws : List (Option Writer)} {i : Nat} (a : Writer) (hi : i < ws.length) :
    (ws.set i (some a)).getD i none = some a := by
  rw [List.getD_eq_getElem?_getD, List.getElem?_set]
  simp [hi]

theorem consistent0_frame {l : LockSt} {m m' : MutexSt} {i : Nat} (hc : Consistent 0 l m)
    (hf : MFrame (i + 1) m m') : Consistent 0 l m' := by
  rcases hf with rfl | ⟨h1, h2⟩
  · exact hc
  · unfold Consistent at *
    constructor
    · intro hl
      have := hc.mp hl
      rcases h1 with h1 | h1 <;> rw [h1] at this <;> cases this
    · intro hm
      rcases h2 with h2 | h2 <;> rw [h2] at hm <;> cases hm

theorem idle_frame {w : Writer} {j i : Nat} {m m' : MutexSt} (hw : WIdle w) (hc : Consistent (j + 1) w.lock m)
    (hji : j ≠ i) (hf : MFrame (i + 1) m m') : Consistent (j + 1) w.lock m' := by
  rcases hf with rfl | ⟨_, h2⟩
  · exact hc
  · unfold Consistent
    rw [hw.1]
    constructor
    · intro h; cases h
    · intro hm
      rcases h2 with h2 | h2 <;> rw [h2] at hm
      · cases hm
      · simp only [Option.some.injEq] at hm; omega

/-- the writers other than `i` are idle when the head operation addresses writer `i` -/
theorem HI.others {r : AReq} {h : HState} {m : MutexSt} {wlog : Bytes} (hi : HI r h m wlog) {i : Nat}
    (hops : (∃ data rest, h.ops = .writeAll i data :: rest) ∨ (∃ rest, h.ops = .flush i :: rest))
    {j : Nat} {w : Writer} (hw : h.writers.getD j none = some w) (hji : j ≠ i) : WIdle w := by
  rcases (hi.ws.each j w hw).2 with h1 | ⟨d, rest, h2⟩ | ⟨rest, h2, _⟩
  · exact h1
  · rcases hops with ⟨d', r', h3⟩ | ⟨r', h3⟩ <;> rw [h3] at h2 <;> cases h2 <;> exact absurd rfl hji
  · rcases hops with ⟨d', r', h3⟩ | ⟨r', h3⟩ <;> rw [h3] at h2 <;> cases h2 <;> exact absurd rfl hji

/-- the mutex discipline after a step of writer `i` -/
theorem mutex_after {h : HState} {m m' : MutexSt} {i : Nat} {w w' : Writer}
    (hm : m = none ∨ m = some 0 ∨ ∃ j x, h.writers.getD j none = some x ∧ m = some (j + 1))
    (hw : h.writers.getD i none = some w) (hf : MFrame (i + 1) m m') :
    m' = none ∨ m' = some 0 ∨
      ∃ j x, (h.writers.set i (some w')).getD j none = some x ∧ m' = some (j + 1) := by
  have hself := getD_set_self w' (getD_lt hw)
  rcases hf with rfl | ⟨_, h2⟩
  · rcases hm with h1 | h1 | ⟨j, x, hx, hj⟩
    · exact Or.inl h1
    · exact Or.inr (Or.inl h1)
    · by_cases hji : j = i
      · subst hji; exact Or.inr (Or.inr ⟨j, w', hself, hj⟩)
      · refine Or.inr (Or.inr ⟨j, x, ?_, hj⟩)
        rw [List.getD_eq_getElem?_getD, List.getElem?_set, if_neg (fun e => hji e.symm),
          ← List.getD_eq_getElem?_getD]
        exact hx
  · rcases h2 with h2 | h2
    · exact Or.inl h2
    · exact Or.inr (Or.inr ⟨i, w', hself, h2⟩)

theorem writeLoop_err_stop : ∀ (fuel : Nat) (w : Writer) (head buf : Bytes) (t : Transport)
    {w' : Writer} {t' : Transport} {e : IoErr},
    writeLoop fuel w head buf t = (w', t', .err e) → e ≠ .abortRequest := by
  intro fuel
  induction fuel with
  | zero => intro w head buf t w' t' e h; simp only [writeLoop] at h; cases h
  | succ n ih =>
    intro w head buf t w' t' e h
    simp only [writeLoop] at h
    split at h
    · cases h
    · split at h
      · cases h
      · split at h
        · cases h
        · rename_i hv
          cases h
          exact (writeV_err_kind _ _ _ _ (by rw [hv])).ne_abort
        · cases h; decide
        · split at h
          · cases h
          · exact ih _ _ _ _ h

theorem pollWrite_err_stop {w : Writer} {me : Nat} {buf : Bytes} {m : MutexSt} {t : Transport}
    {w' : Writer} {m' : MutexSt} {t' : Transport} {e : IoErr}
    (h : w.pollWrite me buf m t = (w', m', t', .err e)) : e ≠ .abortRequest := by
  simp only [Writer.pollWrite] at h
  split at h
  · cases h
  · split at h
    · cases h
    · split at h
      · cases h
      · split at h
        · cases h
        · split at h
          · cases h
          · split at h
            · cases h
            · rename_i hl
              cases h
              exact writeLoop_err_stop _ _ _ _ _ hl

theorem flush_err_stop {t t' : Transport} {e : IoErr} (h : t.flush = (t', .ready (.error e))) :
    e ≠ .abortRequest := by
  unfold Transport.flush at h
  split at h
  simp only at h
  split at h
  · cases h
  · cases h
  · cases h
    intro hx
    unfold Transport.flErr at hx
    split at hx <;> cases hx

theorem pollFlush_facts {w : Writer} {me : Nat} {m : MutexSt} {t : Transport}
    {w' : Writer} {m' : MutexSt} {t' : Transport} {res : WRes}
    (h : w.pollFlush me m t = (w', m', t', res)) :
    (∀ n, res = .ready n → w'.lock = .none ∧ m' = none) ∧
    (∀ e, res = .err e → e ≠ .abortRequest) := by
  simp only [Writer.pollFlush] at h
  repeat' (split at h)
  all_goals
    cases h
    refine ⟨fun n hn => ?_, fun e he => ?_⟩
    · first | exact ⟨rfl, rfl⟩ | cases hn
    · first | (cases he; exact flush_err_stop ‹_›) | cases he

/-! ## One `poll_write` of the writer addressed by the head operation -/

theorem recordOf_ne_nil (rtype id : Nat) (p : Bytes) : recordOf rtype id p ≠ [] := by
  intro h
  have := C10.recordOf_length rtype id p
  rw [h] at this
  simp at this
  omega

/-- What one `poll_write` of writer `i` (head operation `writeAll i data`) does to the invariant. -/
theorem pollWrite_step {r : AReq} {h : HState} {m : MutexSt} {t : Transport} {i : Nat} {data : Bytes}
    {rest : List HOp} {w w' : Writer} {m' : MutexSt} {t' : Transport} {res : WRes} {buf : Bytes}
    (hi : HI r h m t.wlog) (hops : h.ops = .writeAll i data :: rest)
    (hw : h.writers.getD i none = some w) (hbuf : bufOf h.sub data = buf) (hne : buf ≠ [])
    (hpw : w.pollWrite i buf m t = (w', m', t', res)) :
    (∀ k, res = .ready k → k ≠ 0 ∧ AllIdle (h.writers.set i (some w')) m' ∧ RInv t'.wlog m' r) ∧
    (res = .pending →
      HI r { h with sub := .writeRest buf, writers := h.writers.set i (some w') } m' t'.wlog) ∧
    (∀ x, res = .err x → Pre t'.wlog ∧ x ≠ .abortRequest) ∧
    (∀ s, res ≠ .panic s) := by
  subst hbuf
  obtain ⟨base, sent, hl, hp, hheld, hr⟩ := hi.log
  have hst : C10.Started w (bufOf h.sub data) sent := by
    unfold WPart at hp
    rw [hops] at hp
    simp only [hw] at hp
    exact hp
  have hc : Consistent (i + 1) w.lock m := (hi.ws.each i w hw).1
  obtain ⟨f1, f2, delta, hd, hrdy, hpend, herr, hpanic⟩ :=
    C10.poll_spec i (bufOf h.sub data) sent hne ⟨w, m, t, w', m', t', res⟩ hst hc hpw
  obtain ⟨⟨hc', hfr, delta2, hd2, hown⟩, _, _⟩ := pollWrite_own w i _ m t hc hpw
  have hdd : delta2 = delta := by
    have : t.wlog ++ delta2 = t.wlog ++ delta := by rw [← hd2, ← hd]
    exact List.append_cancel_left this
  subst hdd
  simp only at hd hrdy hpend herr hpanic f1 f2
  have hfr' : MFrame (i + 1) m m' := hfr
  have hown0 : Consistent 0 r.lock m' := consistent0_frame hr.own hfr'
  -- while the Request holds the mutex, the writer cannot write
  have hquiet : r.lock = .held → sent = [] ∧ delta2 = [] := by
    intro hh
    refine ⟨hheld hh, ?_⟩
    by_cases hdn : delta2 = []
    · exact hdn
    · have hm0 := hr.own.mp hh
      rcases (hown hdn).1 with h1 | h1 <;> rw [h1] at hm0 <;> cases hm0
  have hothers : ∀ j x, (h.writers.set i (some w')).getD j none = some x → j ≠ i →
      h.writers.getD j none = some x ∧ WIdle x := by
    intro j x hx hji
    rcases getD_set_some hx with ⟨e, _⟩ | ⟨_, hx'⟩
    · exact absurd e hji
    · exact ⟨hx', hi.others (Or.inl ⟨data, rest, hops⟩) hx' hji⟩
  refine ⟨fun k hk => ?_, fun hpe => ?_, fun x hx => ?_, hpanic⟩
  · -- the record is complete
    obtain ⟨hk1, hk2, hk3, hk4, hk5⟩ := hrdy k hk
    have hk0 : k ≠ 0 := by
      rw [hk1]
      have : 0 < (bufOf h.sub data).length := List.length_pos_iff.2 hne
      omega
    have hnh : r.lock ≠ .held := by
      intro hh
      obtain ⟨e1, e2⟩ := hquiet hh
      rw [e1, e2] at hk2
      exact recordOf_ne_nil _ _ _ hk2.symm
    obtain ⟨hb1, hb2⟩ := hr.free hnh
    have hrec : Whole (recordOf w.rtype w.id ((bufOf h.sub data).take k)) :=
      whole_recordOf _ _ _ (by rw [List.length_take, hk1]; omega)
    refine ⟨hk0, ⟨Or.inl hk3, fun j x hx => ?_⟩, ⟨hown0, hr.mc, fun hh => absurd hh hnh, fun _ => ⟨?_, hb2⟩⟩⟩
    · by_cases hji : j = i
      · subst hji
        rcases getD_set_some hx with ⟨_, e⟩ | ⟨e, _⟩
        · subst e; exact ⟨hk4, hk5⟩
        · exact absurd rfl e
      · exact (hothers j x hx hji).2
    · rw [hd, hl, List.append_assoc, hk2]
      exact hb1.append hrec
  · -- still in progress
    obtain ⟨hwinv, hcons⟩ := hpend (Or.inl hpe)
    refine ⟨⟨fun j x hx => ?_, mutex_after hi.ws.mutex hw hfr'⟩, base, sent ++ delta2, ?_, ?_, ?_, ?_⟩
    · by_cases hji : j = i
      · subst hji
        rcases getD_set_some hx with ⟨_, e⟩ | ⟨e, _⟩
        · subst e; exact ⟨hcons, Or.inr (Or.inl ⟨data, rest, hops⟩)⟩
        · exact absurd rfl e
      · obtain ⟨hx', hid⟩ := hothers j x hx hji
        exact ⟨idle_frame hid (hi.ws.each j x hx').1 hji hfr', Or.inl hid⟩
    · rw [hd, hl, List.append_assoc]
    · unfold WPart
      simp only [hops, getD_set_self w' (getD_lt hw), bufOf]
      exact Or.inr hwinv
    · intro hh
      obtain ⟨e1, e2⟩ := hquiet hh
      rw [e1, e2]; rfl
    · exact ⟨hown0, hr.mc, hr.held, hr.free⟩
  · -- the transport failed
    obtain ⟨hwinv, _⟩ := hpend (Or.inr ⟨x, hx⟩)
    refine ⟨?_, by subst hx; exact pollWrite_err_stop hpw⟩
    by_cases hh : r.lock = .held
    · obtain ⟨e1, e2⟩ := hquiet hh
      rw [hd, hl, e1, e2, List.append_nil, List.append_nil]
      exact hr.pre
    · have hsplit := hwinv.loop.split
      refine ⟨remaining w' ((bufOf h.sub data).take (min (bufOf h.sub data).length 65535)), ?_⟩
      rw [hd, hl, List.append_assoc, List.append_assoc, ← List.append_assoc sent, ← hsplit]
      exact (hr.free hh).1.append (whole_recordOf _ _ _ (by rw [List.length_take]; omega))

/-- What one `poll_flush` of writer `i` (head operation `flush i`) does to the invariant. -/
theorem pollFlush_step {r : AReq} {h : HState} {m : MutexSt} {t : Transport} {i : Nat}
    {rest : List HOp} {w w' : Writer} {m' : MutexSt} {t' : Transport} {res : WRes}
    (hi : HI r h m t.wlog) (hops : h.ops = .flush i :: rest)
    (hw : h.writers.getD i none = some w)
    (hpf : w.pollFlush i m t = (w', m', t', res)) :
    (∀ k, res = .ready k → AllIdle (h.writers.set i (some w')) m' ∧ RInv t'.wlog m' r) ∧
    (res = .pending → HI r { h with writers := h.writers.set i (some w') } m' t'.wlog) ∧
    (∀ x, res = .err x → x ≠ .abortRequest) ∧ Pre t'.wlog := by
  obtain ⟨base, sent, hl, hp, _, hr⟩ := hi.log
  have hs : sent = [] := by
    unfold WPart at hp
    rw [hops] at hp
    exact hp
  subst hs
  rw [List.append_nil] at hl
  subst hl
  have hc : Consistent (i + 1) w.lock m := (hi.ws.each i w hw).1
  have hnw : w.isWriting = false := by
    rcases (hi.ws.each i w hw).2 with h1 | ⟨d, rest', h2⟩ | ⟨_, _, h2⟩
    · exact h1.2
    · rw [hops] at h2; cases h2
    · exact h2
  obtain ⟨⟨hc', hfr, _⟩, _, _, hlog, hwr⟩ := pollFlush_own w i m t hc hpf
  have hfr' : MFrame (i + 1) m m' := hfr
  obtain ⟨hready, herr⟩ := pollFlush_facts hpf
  have hr' : RInv t'.wlog m' r := by
    rw [hlog]
    exact ⟨consistent0_frame hr.own hfr', hr.mc, hr.held, hr.free⟩
  have hothers : ∀ j x, (h.writers.set i (some w')).getD j none = some x → j ≠ i →
      h.writers.getD j none = some x ∧ WIdle x := by
    intro j x hx hji
    rcases getD_set_some hx with ⟨e, _⟩ | ⟨_, hx'⟩
    · exact absurd e hji
    · exact ⟨hx', hi.others (Or.inr ⟨rest, hops⟩) hx' hji⟩
  refine ⟨fun k hk => ?_, fun _ => ?_, herr, hr'.pre⟩
  · obtain ⟨h1, h2⟩ := hready k hk
    refine ⟨⟨Or.inl h2, fun j x hx => ?_⟩, hr'⟩
    by_cases hji : j = i
    · subst hji
      rcases getD_set_some hx with ⟨_, e⟩ | ⟨e, _⟩
      · subst e; exact ⟨h1, by rw [hwr]; exact hnw⟩
      · exact absurd rfl e
    · exact (hothers j x hx hji).2
  · refine ⟨⟨fun j x hx => ?_, mutex_after hi.ws.mutex hw hfr'⟩, t'.wlog, [], by simp, ?_, fun _ => rfl, hr'⟩
    · by_cases hji : j = i
      · subst hji
        rcases getD_set_some hx with ⟨_, e⟩ | ⟨e, _⟩
        · subst e; exact ⟨hc', Or.inr (Or.inr ⟨rest, hops, by rw [hwr]; exact hnw⟩)⟩
        · exact absurd rfl e
      · obtain ⟨hx', hid⟩ := hothers j x hx hji
        exact ⟨idle_frame hid (hi.ws.each j x hx').1 hji hfr', Or.inl hid⟩
    · unfold WPart
      simp only [hops]

/-! ## The interpreter -/

theorem HI.pre {r : AReq} {h : HState} {m : MutexSt} {wlog : Bytes} (hi : HI r h m wlog) : Pre wlog := by
  obtain ⟨base, sent, hl, hp, hheld, hr⟩ := hi.log
  by_cases hs : sent = []
  · subst hs; rw [hl, List.append_nil]; exact hr.pre
  · have hnh : r.lock ≠ .held := fun hh => hs (hheld hh)
    unfold WPart at hp
    split at hp
    · split at hp
      · rcases hp with ⟨_, _, h0⟩ | hwinv
        · exact absurd h0 hs
        · have hsplit := hwinv.loop.split
          exact ⟨_, by
            rw [hl, List.append_assoc, ← hsplit]
            exact (hr.free hnh).1.append (whole_recordOf _ _ _ (by rw [List.length_take]; omega))⟩
      · exact absurd hp hs
    · exact absurd hp hs

/-- what a poll of the handler guarantees -/
def HPost (r' : AReq) (h' : HState) (e' : Env) (res : HRes) : Prop :=
  Pre e'.tr.wlog ∧ (res = .pending → HI r' h' e'.mutex e'.tr.wlog) ∧
  (∀ st, res = .done (.ok st) → RInv e'.tr.wlog e'.mutex r' ∧ MFree e'.mutex) ∧
  (res = .done (.error .abortRequest) → RInv e'.tr.wlog e'.mutex r' ∧ MFree e'.mutex)

theorem HPost.done {r' : AReq} {h' : HState} {e' : Env} {x : Except IoErr ExitStatus}
    (hr : RInv e'.tr.wlog e'.mutex r') (hm : MFree e'.mutex) : HPost r' h' e' (.done x) :=
  ⟨hr.pre, nofun, fun _ _ => ⟨hr, hm⟩, fun _ => ⟨hr, hm⟩⟩

theorem HPost.panic {r' : AReq} {h' : HState} {e' : Env} {s : String} (hp : Pre e'.tr.wlog) :
    HPost r' h' e' (.panic s) := ⟨hp, nofun, nofun, nofun⟩

theorem HPost.err {r' : AReq} {h' : HState} {e' : Env} {x : IoErr} (hp : Pre e'.tr.wlog)
    (hx : x ≠ .abortRequest) : HPost r' h' e' (.done (.error x)) :=
  ⟨hp, nofun, nofun, fun h => by cases h; exact absurd rfl hx⟩

theorem HPost.pending {r' : AReq} {h' : HState} {e' : Env} (hi : HI r' h' e'.mutex e'.tr.wlog) :
    HPost r' h' e' .pending := ⟨hi.pre, fun _ => hi, nofun, nofun⟩

theorem AllIdle.append {ws : List (Option Writer)} {m : MutexSt} (h : AllIdle ws m) (a : Writer) (ha : WIdle a) :
    AllIdle (ws ++ [some a]) m :=
  ⟨h.mutex, fun j w hw => by
    rcases getD_append_some hw with h1 | h1
    · exact h.each j w h1
    · subst h1; exact ha⟩

theorem AllIdle.setNone {ws : List (Option Writer)} {m : MutexSt} (h : AllIdle ws m) (i : Nat) :
    AllIdle (ws.set i none) m :=
  ⟨h.mutex, fun j w hw => h.each j w (getD_set_none hw).2⟩

theorem handlerPoll_hi : ∀ (fuel : Nat) (r : AReq) (h : HState) (e : Env)
    {r' : AReq} {h' : HState} {e' : Env} {res : HRes},
    handlerPoll fuel r h e = (r', h', e', res) → h.propagate = true → HI r h e.mutex e.tr.wlog →
    HPost r' h' e' res := by
  intro fuel
  induction fuel with
  | zero => intro r h e r' h' e' res hh _ hi; simp only [handlerPoll] at hh; cases hh; exact .panic hi.pre
  | succ n ih =>
    intro r h e r' h' e' res hh hp hi
    simp only [handlerPoll] at hh
    have next : ∀ (r1 : AReq) (h1 : HState) (e1 : Env), handlerPoll n r1 h1 e1 = (r', h', e', res) →
        h1.propagate = true → AllIdle h1.writers e1.mutex → RInv e1.tr.wlog e1.mutex r1 → HPost r' h' e' res :=
      fun r1 h1 e1 hh1 hp1 hid hr1 => ih _ _ _ hh1 hp1 (HI.of_idle hid hr1)
    rcases hops : h.ops with _ | ⟨op, rest⟩
    · simp only [hops] at hh; cases hh
      have hq := hi.idle (fun _ _ _ he => by rw [hops] at he; cases he)
        (fun _ _ he => by rw [hops] at he; cases he)
      exact .done hq.2 hq.1.mutex
    · simp only [hops] at hh
      cases op with
      | ret st =>
        simp only at hh; cases hh
        have hq := hi.idle (fun _ _ _ he => by rw [hops] at he; cases he)
          (fun _ _ he => by rw [hops] at he; cases he)
        exact .done hq.2 hq.1.mutex
      | retErr err =>
        simp only at hh; cases hh
        have hq := hi.idle (fun _ _ _ he => by rw [hops] at he; cases he)
          (fun _ _ he => by rw [hops] at he; cases he)
        exact .done hq.2 hq.1.mutex
      | read k =>
        obtain ⟨hid, hr⟩ := hi.idle (fun _ _ _ he => by rw [hops] at he; cases he)
          (fun _ _ he => by rw [hops] at he; cases he)
        simp only at hh
        cases hpi : r.pollInput (some k) e.mutex e.tr with
        | mk r1 x =>
          obtain ⟨m1, t1, ires⟩ := x
          rw [hpi] at hh
          obtain ⟨hr1, hf1⟩ := pollInput_rinv hr hpi
          have hid1 := hid.frame0 hf1
          cases ires with
          | pending => simp only at hh; cases hh; exact .pending (HI.of_idle hid1 hr1)
          | ready k d => simp only at hh; exact next _ _ _ hh hp hid1 hr1
          | err x => simp only [hp] at hh; cases hh; exact .done hr1 hid1.mutex
          | panic s => simp only at hh; cases hh; exact .panic hr1.pre
      | readAll =>
        obtain ⟨hid, hr⟩ := hi.idle (fun _ _ _ he => by rw [hops] at he; cases he)
          (fun _ _ he => by rw [hops] at he; cases he)
        simp only at hh
        cases hpi : r.pollInput (some 64) e.mutex e.tr with
        | mk r1 x =>
          obtain ⟨m1, t1, ires⟩ := x
          rw [hpi] at hh
          obtain ⟨hr1, hf1⟩ := pollInput_rinv hr hpi
          have hid1 := hid.frame0 hf1
          cases ires with
          | pending => simp only at hh; cases hh; exact .pending (HI.of_idle hid1 hr1)
          | ready k d =>
            cases k with
            | zero => simp only at hh; exact next _ _ _ hh hp hid1 hr1
            | succ k => simp only at hh; exact next _ _ _ hh hp hid1 hr1
          | err x => simp only [hp] at hh; cases hh; exact .done hr1 hid1.mutex
          | panic s => simp only at hh; cases hh; exact .panic hr1.pre
      | fill =>
        obtain ⟨hid, hr⟩ := hi.idle (fun _ _ _ he => by rw [hops] at he; cases he)
          (fun _ _ he => by rw [hops] at he; cases he)
        simp only at hh
        cases hpi : r.pollInput none e.mutex e.tr with
        | mk r1 x =>
          obtain ⟨m1, t1, ires⟩ := x
          rw [hpi] at hh
          obtain ⟨hr1, hf1⟩ := pollInput_rinv hr hpi
          have hid1 := hid.frame0 hf1
          cases ires with
          | pending => simp only at hh; cases hh; exact .pending (HI.of_idle hid1 hr1)
          | ready k d => simp only at hh; exact next _ _ _ hh hp hid1 hr1
          | err x => simp only [hp] at hh; cases hh; exact .done hr1 hid1.mutex
          | panic s => simp only at hh; cases hh; exact .panic hr1.pre
      | consume k =>
        obtain ⟨hid, hr⟩ := hi.idle (fun _ _ _ he => by rw [hops] at he; cases he)
          (fun _ _ he => by rw [hops] at he; cases he)
        simp only at hh
        exact next _ _ _ hh hp hid (hr.same rfl rfl rfl)
      | setStream s =>
        obtain ⟨hid, hr⟩ := hi.idle (fun _ _ _ he => by rw [hops] at he; cases he)
          (fun _ _ he => by rw [hops] at he; cases he)
        simp only at hh
        cases hss : r.setStream s with
        | none => rw [hss] at hh; simp only at hh; cases hh; exact .panic hr.pre
        | some r1 =>
          rw [hss] at hh; simp only at hh
          have hr1 : RInv e.tr.wlog e.mutex r1 := by
            unfold AReq.setStream at hss
            split at hss
            · rename_i sp heq
              cases hss
              obtain ⟨h1, h2⟩ := setStream_frame heq
              exact hr.same rfl h1 h2
            · cases hss
          exact next _ _ _ hh hp hid hr1
      | writeable =>
        obtain ⟨hid, hr⟩ := hi.idle (fun _ _ _ he => by rw [hops] at he; cases he)
          (fun _ _ he => by rw [hops] at he; cases he)
        simp only at hh
        cases hpi : r.writeablePoll (h.sub == .writeableStarted) e.mutex e.tr with
        | mk r1 x =>
          obtain ⟨b1, m1, t1, ores⟩ := x
          rw [hpi] at hh
          obtain ⟨hr1, hf1⟩ := writeablePoll_rinv hr hpi
          have hid1 := hid.frame0 hf1
          cases ores with
          | pending => simp only at hh; cases hh; exact .pending (HI.of_idle hid1 hr1)
          | ready => simp only at hh; exact next _ _ _ hh hp hid1 hr1
          | err x => simp only [hp] at hh; cases hh; exact .done hr1 hid1.mutex
          | panic s => simp only at hh; cases hh; exact .panic hr1.pre
      | open_ ty =>
        obtain ⟨hid, hr⟩ := hi.idle (fun _ _ _ he => by rw [hops] at he; cases he)
          (fun _ _ he => by rw [hops] at he; cases he)
        simp only at hh
        split at hh
        · cases hh; exact .panic hr.pre
        · exact next _ _ _ hh hp (hid.append _ ⟨rfl, rfl⟩) hr
      | dropW i =>
        obtain ⟨hid, hr⟩ := hi.idle (fun _ _ _ he => by rw [hops] at he; cases he)
          (fun _ _ he => by rw [hops] at he; cases he)
        simp only at hh
        split at hh
        · rename_i w hw
          have hwl : w.lock = .none := (hid.each i w hw).1
          have hm : lockDrop w.lock e.mutex = e.mutex := by rw [hwl]; rfl
          refine next _ _ _ hh hp ?_ ?_
          · show AllIdle (h.writers.set i none) (lockDrop w.lock e.mutex)
            rw [hm]; exact hid.setNone i
          · show RInv e.tr.wlog (lockDrop w.lock e.mutex) r
            rw [hm]; exact hr
        · exact next _ _ _ hh hp hid hr
      | writeAll i data =>
        simp only at hh
        split at hh
        · -- no such writer
          rename_i hw
          have hid : AllIdle h.writers e.mutex ∧ RInv e.tr.wlog e.mutex r := by
            obtain ⟨base, sent, hl, hpw, _, hr⟩ := hi.log
            have hs : sent = [] := by
              unfold WPart at hpw; rw [hops] at hpw; simp only [hw] at hpw; exact hpw
            subst hs
            rw [List.append_nil] at hl
            refine ⟨⟨?_, fun j x hx => ?_⟩, by rw [hl]; exact hr⟩
            · rcases hi.ws.mutex with h1 | h1 | ⟨j, x, hx, hm⟩
              · exact Or.inl h1
              · exact Or.inr h1
              · by_cases hji : j = i
                · subst hji; rw [hw] at hx; cases hx
                · have hidl := hi.others (Or.inl ⟨data, rest, hops⟩) hx hji
                  have := ((hi.ws.each j x hx).1).mpr hm
                  rw [hidl.1] at this; cases this
            · by_cases hji : j = i
              · subst hji; rw [hw] at hx; cases hx
              · exact hi.others (Or.inl ⟨data, rest, hops⟩) hx hji
          exact next _ _ _ hh hp hid.1 hid.2
        · rename_i w hw
          rcases hsub : h.sub with _ | acc | rd | _
          all_goals
            simp only [hsub] at hh
            split at hh
            · -- nothing left to write: the writer is idle
              rename_i hemp
              have hbe : bufOf h.sub data = [] := by
                rw [hsub]; simpa [bufOf] using hemp
              obtain ⟨base, sent, hl, hpw, _, hr⟩ := hi.log
              have hst : C10.Started w (bufOf h.sub data) sent := by
                unfold WPart at hpw; rw [hops] at hpw; simp only [hw] at hpw; exact hpw
              have hidw : WIdle w ∧ sent = [] := by
                rcases hst with ⟨h1, h2, h3⟩ | hwinv
                · exact ⟨⟨h1, h2⟩, h3⟩
                · have := hwinv.loop.pos
                  rw [hbe] at this; simp at this
              obtain ⟨hidw, hs⟩ := hidw
              subst hs
              rw [List.append_nil] at hl
              have hid : AllIdle h.writers e.mutex := by
                have hall : ∀ j x, h.writers.getD j none = some x → WIdle x := by
                  intro j x hx
                  by_cases hji : j = i
                  · subst hji; rw [hw] at hx; cases hx; exact hidw
                  · exact hi.others (Or.inl ⟨data, rest, hops⟩) hx hji
                refine ⟨?_, hall⟩
                rcases hi.ws.mutex with h1 | h1 | ⟨j, x, hx, hm⟩
                · exact Or.inl h1
                · exact Or.inr h1
                · have := ((hi.ws.each j x hx).1).mpr hm
                  rw [(hall j x hx).1] at this; cases this
              exact next _ _ _ hh hp hid (show RInv e.tr.wlog e.mutex r by rw [hl]; exact hr)
            · rename_i hemp
              cases hpw : Writer.pollWrite w i _ e.mutex e.tr with
              | mk w1 x =>
                obtain ⟨m1, t1, wres⟩ := x
                rw [hpw] at hh
                obtain ⟨hready, hpend, herr, hpanic⟩ :=
                  pollWrite_step hi hops hw (by rw [hsub]; rfl) (by simpa using hemp) hpw
                cases wres with
                | pending =>
                  simp only at hh; cases hh
                  have hpe := hpend rfl
                  simp only [hops] at hpe
                  exact .pending hpe
                | ready k =>
                  obtain ⟨hk0, hid1, hr1⟩ := hready k rfl
                  cases k with
                  | zero => exact absurd rfl hk0
                  | succ k =>
                    simp only at hh
                    exact next _ _ _ hh hp hid1 hr1
                | err x =>
                  simp only [hp] at hh; cases hh
                  exact .err (herr x rfl).1 (herr x rfl).2
                | panic s => exact absurd rfl (hpanic s)
      | flush i =>
        simp only at hh
        split at hh
        · rename_i hw
          have hid : AllIdle h.writers e.mutex ∧ RInv e.tr.wlog e.mutex r := by
            obtain ⟨base, sent, hl, hpw, _, hr⟩ := hi.log
            have hs : sent = [] := by
              unfold WPart at hpw; rw [hops] at hpw; exact hpw
            subst hs
            rw [List.append_nil] at hl
            refine ⟨⟨?_, fun j x hx => ?_⟩, by rw [hl]; exact hr⟩
            · rcases hi.ws.mutex with h1 | h1 | ⟨j, x, hx, hm⟩
              · exact Or.inl h1
              · exact Or.inr h1
              · by_cases hji : j = i
                · subst hji; rw [hw] at hx; cases hx
                · have hidl := hi.others (Or.inr ⟨rest, hops⟩) hx hji
                  have := ((hi.ws.each j x hx).1).mpr hm
                  rw [hidl.1] at this; cases this
            · by_cases hji : j = i
              · subst hji; rw [hw] at hx; cases hx
              · exact hi.others (Or.inr ⟨rest, hops⟩) hx hji
          exact next _ _ _ hh hp hid.1 hid.2
        · rename_i w hw
          cases hpf : w.pollFlush i e.mutex e.tr with
          | mk w1 x =>
            obtain ⟨m1, t1, wres⟩ := x
            rw [hpf] at hh
            obtain ⟨hready, hpend, herr, hpre⟩ := pollFlush_step hi hops hw hpf
            cases wres with
            | pending =>
              simp only at hh; cases hh
              have hpe := hpend rfl
              simp only [hops] at hpe
              exact .pending hpe
            | ready k =>
              obtain ⟨hid1, hr1⟩ := hready k rfl
              simp only at hh
              exact next _ _ _ hh hp hid1 hr1
            | err x =>
              simp only [hp] at hh; cases hh
              exact .err hpre (herr x rfl)
            | panic s => simp only at hh; cases hh; exact .panic hpre

end Fcgi.C12Inv
