import Fcgi.Proofs.E2EFilterAbort3Str
/-!
# End-to-end composition (C11) — a Filter whose handler reads, aborted INSIDE the Data stream

Handler `rscript s0` in mode `pr`; the request's `AbortRequest` record comes behind Data records with
content (placement (iii)).  The first `readAll` returns Stdin, `set_stream(Data)`, the second `readAll`
collects Data content `acc` and fails in front of the abort record.

* `acc ≠ []` — some `read` returned content: the request IS writeable.  `close()` skips its own
  `writeable()`, `set_stream(None)`, `record_boundary()` returns at once (the parser stands in front of
  the abort record), FULL epilogue `Stdout∅ Stderr∅ EndRequest`.
* `acc = []` — all the content before the abort was parsed in the same `parse` call as the abort
  record and is lost with the `Err`: the request is NOT writeable; from there as in placements (i), (ii):
  bare `EndRequest`.

The failed read's event `R!abort-request:n:acc` is carried along (`Tag`), so that the outcome says which
of the two it was.
-/
namespace Fcgi.E2E
open Fcgi Fcgi.Req Fcgi.Str Fcgi.Async Fcgi.Run Fcgi.Spec Fcgi.C09E

/-! ## The reference on a stream behind a silently skipped record, cut by the abort -/

theorem refWire_abort' (E : Str.Cfg) (hs : E.s = 5 ∨ E.s = 8) (hid : E.id < 65536) (pre : Rec) (hpre : pre.WF)
    (hpc : rclass E pre = .noise) (hpo : owed (some E.id) E.mc pre = []) {content : Bytes}
    {body : List Rec} (hb : Body E.id E.s content body) (a : Rec) (ha : a.WF)
    (hcls : rclass E a = .abort) (tail : Bytes) :
    refWire E (serAll (pre :: (body ++ [a])) ++ tail) =
      ⟨content, owedStream E.id E.s E.mc body, .err .abortRequest, a.ser ++ tail⟩ := by
  have hwf : ∀ r ∈ pre :: (body ++ [a]), r.WF := by
    intro r hr
    rcases List.mem_cons.1 hr with rfl | hr
    · exact hpre
    rcases List.mem_append.1 hr with hr | hr
    · exact body_wf hid hb r hr
    · rw [List.mem_singleton.1 hr]; exact ha
  have htl : refRun E [a] = ⟨[], [], .abort 0⟩ := by simp only [refRun, hcls]
  have h1 : refRun E (pre :: (body ++ [a])) =
      ⟨(refRun E (body ++ [a])).content, owed (some E.id) E.mc pre ++ (refRun E (body ++ [a])).out,
        (refRun E (body ++ [a])).stop.succ⟩ := by
    simp only [refRun, hpc]
  rw [← ref_eq_refWire E .skip, ref_serAll E _ hwf tail .skip, h1, hpo, refRun_body_app hs hb, htl]
  simp only [stop_add_abort, glue, List.append_nil, List.nil_append, Stop.succ, List.drop_succ_cons,
    List.drop_left', C02.serAll_single]

theorem aborted_of_body' (E : Str.Cfg) (hs : E.s = 5 ∨ E.s = 8) (hid : E.id < 65536) (pre : Rec) (hpre : pre.WF)
    (hpc : rclass E pre = .noise) (hpo : owed (some E.id) E.mc pre = []) (hpg : ¬ IsMgmtGetValues pre)
    {content : Bytes}
    {body : List Rec} (hb : Body E.id E.s content body) {a : Rec} (ab : IsAbort E.id a) (tail : Bytes)
    (rq : Request) (cap : Nat) (h8 : 8 ≤ cap) (hfit : NoiseFits cap body) :
    RCtx.Aborted ⟨E, rq, cap, serAll (pre :: (body ++ [a])) ++ tail, content, owedStream E.id E.s E.mc body,
      a.ser ++ tail⟩ := by
  have hwa := isAbort_wf ab hid
  have hcls : rclass E a = .abort := by
    simp [rclass, ab.1, ab.2.1, RT.isInputStream, RT.abortRequest]
  have href := refWire_abort' E hs hid pre hpre hpc hpo hb a hwa hcls
  have hwf : ∀ r ∈ pre :: (body ++ [a]), r.WF := by
    intro r hr
    rcases List.mem_cons.1 hr with rfl | hr
    · exact hpre
    rcases List.mem_append.1 hr with hr | hr
    · exact body_wf hid hb r hr
    · rw [List.mem_singleton.1 hr]; exact hwa
  refine ⟨href tail, ?_, h8⟩
  intro G hG hv
  have hfull : (refWire E (serAll (pre :: (body ++ [a])))).verdict ≠ .more := by
    have := href []
    rw [List.append_nil] at this
    rw [this]; intro h; cases h
  rcases prefix_append_cases hG with ⟨e, rfl, _⟩ | ⟨t, _, hFt⟩
  · exfalso
    have hv' : (refWire E (serAll (pre :: (body ++ [a])) ++ e)).verdict = .more := hv
    rw [href e] at hv'
    cases hv'
  · refine stream_fits E _ hwf hfull h8 ?_ G ⟨t, hFt⟩ hv
    intro r hr hg
    rcases List.mem_cons.1 hr with rfl | hr
    · exact absurd hg hpg
    rcases List.mem_append.1 hr with hr | hr
    · exact hfit r hr hg
    · rw [List.mem_singleton.1 hr] at hg
      exact absurd hg.1 (by rw [ab.1]; decide)

/-! ## `close` of a writeable request whose parser stands in front of the abort record -/

/-- the log when `close` is done, full epilogue -/
def Cfg.LfF (g : Cfg) (Ow : Bytes) : Bytes := g.L1 ++ Ow ++ g.epi

theorem wclose_full {g : Cfg} (hrole : g.p.role = 3) {K : RCtx} {P Ow : Bytes}
    {c : Conn} {r : AReq} (hph : c.phase = .closing r .start g.st 0)
    (hat : AtAbort K g.L1 P r c.env.tr) (hl : KLink g K) (hOw : P ++ K.O = Ow) (hm : c.env.mutex = none)
    (hw : r.writeable = true)
    (hb : Ben c.env.tr) (hstop : c.stop = false) (hev : Ev1 g c.env.tr) (hsc : c.scripts = g.more) :
    GRes3 (LE g (g.LfF Ow) g.epi) (AfterE g (g.LfF Ow)) (FinE g (g.LfF Ow)) 2 c := by
  have heq0 := closePoll_start_tail r c.env.mutex c.env.tr g.st hw
  have hrb : (spIgnore r.sp).isRecordBoundary = true := by
    simp [Str.Parser.isRecordBoundary, spIgnore_pay, spIgnore_pad, hat.pay, hat.pad]
  have hcb : closeBoundary (spIgnore r.sp) false c.env.tr = (spIgnore r.sp, c.env.tr, .ready) := by
    simp [closeBoundary, hrb]
  rw [hcb] at heq0
  have hreq : r.sp.request = g.p.request := hat.req.trans hl.rq
  have hepi : epilogueOf { r with sp := spIgnore r.sp } g.st = g.epi := by
    simp only [epilogueOf, hw, if_true, Cfg.epi]
    show makeRequestEpilogue (spIgnore r.sp).request.id g.st (outputStreams (spIgnore r.sp).request.role) = _
    rw [spIgnore_request, hreq]
    show makeRequestEpilogue g.p.id g.st (outputStreams g.p.role) = _
    rw [hrole]
    rfl
  have heq : closePoll r .start g.st 0 c.env.mutex c.env.tr =
      closeP4 { sp := spIgnore r.sp, lock := .none, writeable := r.writeable } none c.env.tr
        (.writeOut (spIgnore r.sp).output g.epi) := by
    rw [heq0, ← hepi, hm]
    simp only [closeTail, closeP2Tail, closeP3_start, Nat.lt_irrefl, gt_iff_lt, if_false, hat.lock, lockDrop]
  have hrawlen : r.sp.raw.length ≤ g.cap := by
    have := hat.sinv.1
    rw [hat.capK, hl.cap] at this
    simp only [Str.Parser.freeStart] at this
    omega
  have hce : CEndW g { sp := spIgnore r.sp, lock := .none, writeable := r.writeable } c.env.tr.input :=
    ⟨by show (spIgnore r.sp).pay = 0; rw [spIgnore_pay]; exact hat.pay,
      by show (spIgnore r.sp).pad = 0; rw [spIgnore_pad]; exact hat.pad,
      by show (spIgnore r.sp).raw ++ c.env.tr.input = g.U
         rw [spIgnore_raw]; exact hat.wire.trans hl.U,
      by show (spIgnore r.sp).request = _; rw [spIgnore_request]; exact hreq,
      by show (spIgnore r.sp).cap = _; rw [spIgnore_cap]; exact hat.capK.trans hl.cap,
      by show (spIgnore r.sp).maxConns = _; rw [spIgnore_mc]; exact hat.mcK.trans hl.mc,
      by show (spIgnore r.sp).raw.length ≤ _; rw [spIgnore_raw]; exact hrawlen⟩
  obtain ⟨O1, hl1, hl2⟩ := hat.log
  have hlog : c.env.tr.wlog ++ (spIgnore r.sp).output ++ g.epi = g.LfF Ow := by
    rw [spIgnore_output, hl1, List.append_assoc g.L1, hl2, hOw]
    rfl
  exact eclose_out (g := g) (Lf := g.LfF Ow) (ep := g.epi) hph heq (.refl _) hce hlog hb hstop hev hsc

/-! ## Carrying the failed read's event -/

/-- `acc` = what the handler's failed `readAll` had collected (its event is in the trace); `X` holds if
that is nothing, `Y` otherwise -/
def Tag (C : Bytes) (X Y : Conn → Prop) (c : Conn) : Prop :=
  ∃ acc lost, acc ++ lost = C ∧ raEvent acc ∈ c.env.tr.events ∧ ((acc = [] ∧ X c) ∨ (acc ≠ [] ∧ Y c))

theorem Tag.imp {C : Bytes} {X Y X' Y' : Conn → Prop} {c c' : Conn} (h : Tag C X Y c)
    (hev : ∀ s, s ∈ c.env.tr.events → s ∈ c'.env.tr.events) (hX : X c → X' c') (hY : Y c → Y' c') :
    Tag C X' Y' c' := by
  obtain ⟨acc, lost, h1, h2, h3⟩ := h
  exact ⟨acc, lost, h1, hev _ h2, h3.imp (fun ⟨a, b⟩ => ⟨a, hX b⟩) (fun ⟨a, b⟩ => ⟨a, hY b⟩)⟩

/-- the stages of `close`, tagged -/
def T3 (g : Cfg) (Ow C : Bytes) : Conn → Prop := Tag C (TA g Ow) (LE g (g.LfF Ow) g.epi)
def A3 (g : Cfg) (Ow C : Bytes) : Conn → Prop := Tag C (AfterE g (g.LfO Ow)) (AfterE g (g.LfF Ow))
def F3 (g : Cfg) (Ow C : Bytes) : Conn → Prop := Tag C (FinE g (g.LfO Ow)) (FinE g (g.LfF Ow))

theorem T3.cong {g : Cfg} {Ow C : Bytes} {c c' : Conn} (h : T3 g Ow C c)
    (hph : c'.phase = c.phase) (hsc : c'.scripts = c.scripts) (hstop : c'.stop = c.stop)
    (hm : c'.env.mutex = c.env.mutex) (hs : TrSame c.env.tr c'.env.tr) : T3 g Ow C c' :=
  Tag.imp h (fun _ h => hs.mem h) (fun h => h.cong hph hsc hstop hm hs) (fun h => h.cong hph hsc hstop hm hs)

/-- a tagged poll -/
theorem tag_res {C : Bytes} {acc lost : Bytes} (h1 : acc ++ lost = C) {c : Conn}
    (h2 : raEvent acc ∈ c.env.tr.events) {g : Cfg} {Ow : Bytes} {N : Nat}
    (h : (acc = [] ∧ GRes3 (TA g Ow) (AfterE g (g.LfO Ow)) (FinE g (g.LfO Ow)) N c) ∨
      (acc ≠ [] ∧ GRes3 (LE g (g.LfF Ow) g.epi) (AfterE g (g.LfF Ow)) (FinE g (g.LfF Ow)) N c)) :
    GRes3 (T3 g Ow C) (A3 g Ow C) (F3 g Ow C) N c := by
  rcases h with ⟨ha, h⟩ | ⟨ha, h⟩
  · exact h.imp (fun c' hl x => ⟨acc, lost, h1, hl.ts.evm _ h2, Or.inl ⟨ha, x⟩⟩)
      (fun c' hl x => ⟨acc, lost, h1, hl.ts.evm _ h2, Or.inl ⟨ha, x⟩⟩)
      (fun c' hl x => ⟨acc, lost, h1, hl.ts.evm _ h2, Or.inl ⟨ha, x⟩⟩)
  · exact h.imp (fun c' hl x => ⟨acc, lost, h1, hl.ts.evm _ h2, Or.inr ⟨ha, x⟩⟩)
      (fun c' hl x => ⟨acc, lost, h1, hl.ts.evm _ h2, Or.inr ⟨ha, x⟩⟩)
      (fun c' hl x => ⟨acc, lost, h1, hl.ts.evm _ h2, Or.inr ⟨ha, x⟩⟩)

theorem t3_poll {g : Cfg} (hK : g.K0.Aborted) {Ow C : Bytes} {c : Conn} (h : T3 g Ow C c) :
    GRes3 (T3 g Ow C) (A3 g Ow C) (F3 g Ow C) 2 c := by
  obtain ⟨acc, lost, h1, h2, h3⟩ := h
  exact tag_res h1 h2 (h3.imp (fun ⟨a, b⟩ => ⟨a, ta_poll hK b⟩) (fun ⟨a, b⟩ => ⟨a, le_poll b⟩))

/-! ## The handler -/

/-- the poll of the handler ended the handler after its read of the last input stream failed with the
abort error, `acc` collected -/
def HDoneB (g : Cfg) (Ow C : Bytes) (s0 : ExitStatus) (pr : Bool) (fuel : Nat) (r : AReq) (H : HState)
    (e : Run.Env) : Prop :=
  ∃ (K : RCtx) (P : Bytes) (r' : AReq) (H' : HState) (e' : Run.Env) (acc lost : Bytes),
    KLink g K ∧ P ++ K.O = Ow ∧
    handlerPoll fuel r H e = (r', H', e', .done (if pr then .error .abortRequest else .ok s0)) ∧
    H'.writers = [] ∧ AtAbort K g.L1 P r' e'.tr ∧ e'.mutex = none ∧ e'.segs = e.segs ∧ TStep e.tr e'.tr ∧
    acc ++ lost = C ∧ (r'.writeable = true ↔ acc ≠ []) ∧ raEvent acc ∈ e'.tr.events ∧
    r'.sp.parsed = [] ∧ (r'.sp.stream = some 5 ∨ r'.sp.stream = some 8)

/-- The handler in its second `readAll`, on a Data stream cut by the abort. -/
theorem hr2c_core {g : Cfg} {K2 : RCtx} (hK : K2.Aborted) (hfin : K2.final = true) (hl : KLink g K2)
    (hs8 : K2.E.s = 8) {P2 Ow : Bytes} (hOw : P2 ++ K2.O = Ow) (s0 : ExitStatus) (pr : Bool)
    (fuel : Nat) (r : AReq) (sub : HSub) (e : Run.Env) (dO : Bytes)
    (hf : 2 * ((K2.C.length - (accOf sub).length) / 64) + 2 * e.tr.input.length + 4 ≤ fuel) (hb : Ben e.tr)
    (hs : RSt K2 g.L1 P2 r e.mutex e.tr (accOf sub) dO) (hw0 : r.writeable = true ↔ accOf sub ≠ []) :
    (∃ (r' : AReq) (acc' : Bytes) (e' : Run.Env) (dO' : Bytes),
      handlerPoll fuel r ⟨[.readAll, .ret s0], sub, [], pr⟩ e =
        (r', ⟨[.readAll, .ret s0], .readAllAcc acc', [], pr⟩, e', .pending) ∧
      RSt K2 g.L1 P2 r' e'.mutex e'.tr acc' dO' ∧ e'.segs = e.segs ∧ TStep e.tr e'.tr ∧
      e'.tr.woken = true ∧ ans e'.tr < ans e.tr ∧ (r'.writeable = true ↔ acc' ≠ [])) ∨
    HDoneB g Ow K2.C s0 pr fuel r ⟨[.readAll, .ret s0], sub, [], pr⟩ e := by
  obtain ⟨G0, hi0⟩ := hs.inv
  rcases readAll_runAF hK hfin (L := g.L1) (P := P2) [.ret s0] [] pr
      (2 * ((K2.C.length - (accOf sub).length) / 64) + 2 * e.tr.input.length + 2) fuel r sub e dO 1
      (by omega) (by omega) (fun h => by omega) hb hs hw0 with
    ⟨r', acc', e', dO', d1, d3, d5, d6, d8, d9, d10⟩ |
    ⟨r', acc, lost, e', f', d1, d2, d3, d4, d5, d6, d7, d8, d9, d10⟩
  · exact Or.inl ⟨r', acc', e', dO', d1, d3, d5, d6, d8, d9, d10⟩
  · right
    have hts1 : TStep e.tr (e'.ev (raEvent acc)).tr := d7.trans (TStep.ev _ (isHS_raEvent _))
    have hstr : r'.sp.stream = some 5 ∨ r'.sp.stream = some 8 := by
      rw [d10, hi0.mt.strm, hs8]; exact Or.inr rfl
    refine ⟨K2, P2, r', ⟨[.ret s0], .fresh, [], pr⟩, e'.ev (raEvent acc), acc, lost, hl, hOw, ?_, rfl,
      d4.congr rfl rfl, d5, d6, hts1, d3, d8,
      by show raEvent acc ∈ e'.tr.events ++ [raEvent acc]; simp, d9, hstr⟩
    cases pr with
    | true => simpa using d1
    | false =>
      simp only [Bool.false_eq_true, if_false] at d1 ⊢
      obtain ⟨f2, rfl⟩ : ∃ f2, f' = f2 + 1 := ⟨f' - 1, by omega⟩
      rw [hp_ret] at d1
      exact d1

/-- the handler has ended after its failed read of the Data stream: `close` -/
theorem done_closeB {g : Cfg} (hK0 : g.K0.Aborted) (hrole : g.p.role = 3) {Ow C : Bytes} {s0 : ExitStatus}
    {pr : Bool} (hmode : g.st = if pr then ExitStatus.abort else s0) {c : Conn} {r : AReq} {H : HState}
    (hph : c.phase = .handler r H) (hd : HDoneB g Ow C s0 pr ((handlerFuel c.env r + scriptOf c)) r H c.env)
    (hb : Ben c.env.tr) (hstop : c.stop = false) (hev : Ev1 g c.env.tr)
    (hsc : c.scripts = g.more) :
    GRes3 (T3 g Ow C) (A3 g Ow C) (F3 g Ow C) 3 c := by
  obtain ⟨K, P, r', H', e', acc, lost, hl, hOw, heq, hws, hat, hm, hsg, hts, hal, hw, hra, hpar, hstr⟩ := hd
  have hstep := C07.handler_step c r H hph
  rw [heq] at hstep
  have fin : ∀ (ev : String), isHS ev = false →
      stepConn c = .next ⟨.closing r' .start g.st 0, e'.ev ev, c.scripts, c.stop⟩ →
      GRes3 (T3 g Ow C) (A3 g Ow C) (F3 g Ow C) 3 c := by
    intro ev hq hstep'
    have hts2 : TStep c.env.tr (e'.ev ev).tr := hts.trans (TStep.ev _ hq)
    have hra2 : raEvent acc ∈ (e'.ev ev).tr.events := by
      show raEvent acc ∈ e'.tr.events ++ [ev]
      exact List.mem_append_left _ hra
    have hcore : GRes3 (T3 g Ow C) (A3 g Ow C) (F3 g Ow C) 2
        ⟨.closing r' .start g.st 0, e'.ev ev, c.scripts, c.stop⟩ := by
      refine tag_res hal hra2 ?_
      by_cases ha : acc = []
      · have hnw : r'.writeable = false := by
          cases hwr : r'.writeable with
          | false => rfl
          | true => exact absurd ha (hw.1 hwr)
        exact Or.inl ⟨ha, reabort_close hK0 hrole
          (c := ⟨.closing r' .start g.st 0, e'.ev ev, c.scripts, c.stop⟩) rfl
          (hat.congr rfl rfl) hl hOw hpar hstr hm hnw (hb.step hts2) hstop (hev.step hts2) hsc⟩
      · exact Or.inr ⟨ha, wclose_full hrole
          (c := ⟨.closing r' .start g.st 0, e'.ev ev, c.scripts, c.stop⟩) rfl
          (hat.congr rfl rfl) hl hOw hm (hw.2 ha) (hb.step hts2) hstop (hev.step hts2) hsc⟩
    exact (GRes3.of_steps (Steps.one hstep') ⟨hts2.w, hsg, rfl⟩ hcore).mono (by omega)
  cases pr with
  | true =>
    simp only [if_true] at hmode hstep
    rw [hws] at hstep
    refine fin "HE(err:abort-request)" (by decide) ?_
    rw [hmode]
    exact hstep
  | false =>
    simp only [Bool.false_eq_true, if_false] at hmode hstep
    rw [hws] at hstep
    refine fin s!"HE(ok:{showStatus g.st})" (by simp [isHS, toString_str]) ?_
    rw [hmode]
    exact hstep

/-! ## Placement (iii) -/

/-- The hypotheses: a Filter; `g.body` / `g.term` = the Stdin stream, `dbody` = the Data records (content
`g.content2`) and noise before the request's `AbortRequest` record `a`, `g.body2` = the records behind. -/
structure FR3OK (g : Cfg) (db : List Rec) (a : Rec) (s0 : ExitStatus) (pr : Bool) : Prop where
  wf : WellFormedPreamble g.p g.recs
  role : g.p.role = 3
  pairs : ∀ q ∈ g.p.pairs, (NV.enc q).length ≤ alignedBufsize g.b
  noise : NoiseFits (alignedBufsize g.b) g.recs
  body : Body g.p.id 5 g.content g.body
  bfits : NoiseFits (alignedBufsize g.b) g.body
  hpad : g.pad.length < 256
  dbody : Body g.p.id 8 g.content2 db
  dfits : NoiseFits (alignedBufsize g.b) db
  hpost : ∀ r ∈ g.body2, r.WF
  pfits : NoiseFits (alignedBufsize g.b) g.body2
  ab : IsAbort g.p.id a
  hX : g.X = serAll g.body ++ (g.term.ser ++ g.X2)
  hX2 : g.X2 = serAll (db ++ [a]) ++ serAll g.body2
  hU : g.U = a.ser ++ serAll g.body2
  hs : g.hscript = rscript s0
  mode : g.st = if pr then ExitStatus.abort else s0

theorem FR3OK.fok {g : Cfg} {db : List Rec} {a : Rec} {s0 : ExitStatus} {pr : Bool} (ok : FR3OK g db a s0 pr) :
    FOK g := ⟨ok.wf, ok.pairs, ok.noise⟩
theorem FR3OK.hid {g : Cfg} {db : List Rec} {a : Rec} {s0 : ExitStatus} {pr : Bool} (ok : FR3OK g db a s0 pr) :
    g.p.id < 65536 := (pid_of_wf ok.wf).2

theorem FR3OK.front {g : Cfg} {db : List Rec} {a : Rec} {s0 : ExitStatus} {pr : Bool} (ok : FR3OK g db a s0 pr)
    {us : List Rec} (hu : LeftOK (alignedBufsize g.b) us) : FR3OK (g.front us) db a s0 pr :=
  ⟨wf_idle ok.wf us hu.1, ok.role, ok.pairs, noiseFits_app hu.2 ok.noise, ok.body, ok.bfits, ok.hpad, ok.dbody,
    ok.dfits, ok.hpost, ok.pfits, ok.ab, ok.hX, ok.hX2, ok.hU, ok.hs, ok.mode⟩

theorem FR3OK.term_wf {g : Cfg} {db : List Rec} {a : Rec} {s0 : ExitStatus} {pr : Bool}
    (ok : FR3OK g db a s0 pr) : g.term.WF := ⟨ok.hid, by simp [Cfg.term], ok.hpad⟩

/-- the Stdin stream is complete -/
theorem FR3OK.k1 {g : Cfg} {db : List Rec} {a : Rec} {s0 : ExitStatus} {pr : Bool} (ok : FR3OK g db a s0 pr) :
    g.K.OK := by
  have hid := ok.hid
  have hwa := isAbort_wf ok.ab hid
  have hrw : ∀ r ∈ db ++ [a] ++ g.body2, r.WF := by
    intro r hr
    rcases List.mem_append.1 hr with hr | hr
    · rcases List.mem_append.1 hr with hr | hr
      · exact body_wf hid ok.dbody r hr
      · rw [List.mem_singleton.1 hr]; exact hwa
    · exact ok.hpost r hr
  have hrf : NoiseFits (alignedBufsize g.b) (db ++ [a] ++ g.body2) := by
    intro r hr hg
    rcases List.mem_append.1 hr with hr | hr
    · rcases List.mem_append.1 hr with hr | hr
      · exact ok.dfits r hr hg
      · rw [List.mem_singleton.1 hr] at hg
        exact absurd hg.1 (by rw [ok.ab.1]; decide)
    · exact ok.pfits r hr hg
  have hX2 : g.X2 = serAll (db ++ [a] ++ g.body2) := by rw [ok.hX2, ← C02.serAll_append]
  have hXs : g.X = serAll (g.body ++ g.term :: (db ++ [a] ++ g.body2)) := by
    rw [ok.hX, hX2]
    simp only [C02.serAll_append, serAll_cons, List.append_assoc]
  have hcls : rclass ⟨g.p.id, g.p.role, 5, g.mc⟩ g.term = .endStream := by simp [rclass, Cfg.term, RT.isInputStream]
  have href := refWire_stream ⟨g.p.id, g.p.role, 5, g.mc⟩ (Or.inl rfl) hid ok.body g.term ok.term_wf hcls _ hrw
  have hwf : ∀ r ∈ g.body ++ g.term :: (db ++ [a] ++ g.body2), r.WF := by
    intro r hr
    rcases List.mem_append.1 hr with hr | hr
    · exact body_wf hid ok.body r hr
    · rcases List.mem_cons.1 hr with rfl | hr
      · exact ok.term_wf
      · exact hrw r hr
  refine ⟨?_, ?_, by have := cap24 g; show 8 ≤ g.cap; omega⟩
  · show refWire ⟨g.p.id, g.p.role, 5, g.mc⟩ g.X = _
    rw [hXs, href]
    simp only [Cfg.K, hX2, serAll_cons]
  · intro G hG hv
    have hG' : G <+: g.X := hG
    rw [hXs] at hG'
    refine stream_fits ⟨g.p.id, g.p.role, 5, g.mc⟩ _ hwf (by rw [href]; intro h; cases h)
      (by have := cap24 g; show 8 ≤ alignedBufsize g.b; exact Nat.le_trans (by omega) this) ?_ G hG' hv
    intro r hr hg
    rcases List.mem_append.1 hr with hr | hr
    · exact ok.bfits r hr hg
    · rcases List.mem_cons.1 hr with rfl | hr
      · exact absurd hg.1 (by simp [Cfg.term, RT.getValues])
      · exact hrf r hr hg

/-- the Data stream behind the Stdin terminator, cut by the abort -/
def Cfg.K8c (g : Cfg) (db : List Rec) : RCtx :=
  ⟨⟨g.p.id, 3, 8, g.mc⟩, g.p.request, g.cap, g.term.ser ++ g.X2, g.content2, owedStream g.p.id 8 g.mc db, g.U⟩

/-- the replies owed for what precedes the abort record -/
def Cfg.Ow3 (g : Cfg) (db : List Rec) : Bytes := owedStream g.p.id 5 g.mc g.body ++ owedStream g.p.id 8 g.mc db

theorem FR3OK.k8 {g : Cfg} {db : List Rec} {a : Rec} {s0 : ExitStatus} {pr : Bool} (ok : FR3OK g db a s0 pr) :
    (g.K8c db).Aborted := by
  have hpc : rclass ⟨g.p.id, 3, 8, g.mc⟩ g.term = .noise := by
    have hl : ¬ Later 3 (some 8) 5 := by decide
    simp [rclass, Cfg.term, RT.isInputStream, hl]
  have hpo : owed (some g.p.id) g.mc g.term = [] := by
    simp [owed, Cfg.term, RT.valid, RT.getValues, RT.beginRequest]
  have h := aborted_of_body' ⟨g.p.id, 3, 8, g.mc⟩ (Or.inr rfl) ok.hid g.term ok.term_wf hpc hpo
    (fun hg => absurd hg.1 (by simp [Cfg.term, RT.getValues])) ok.dbody ok.ab (serAll g.body2) g.p.request g.cap
    (by have := cap24 g; omega) ok.dfits
  have e1 : serAll (g.term :: (db ++ [a])) ++ serAll g.body2 = g.term.ser ++ g.X2 := by
    rw [ok.hX2, serAll_cons, List.append_assoc]
  rw [e1, ← ok.hU] at h
  exact h

theorem FR3OK.k0 {g : Cfg} {db : List Rec} {a : Rec} {s0 : ExitStatus} {pr : Bool} (ok : FR3OK g db a s0 pr) :
    g.K0.Aborted := k0_aborted ok.hid ok.ab ok.hU

theorem FR3OK.follows {g : Cfg} {db : List Rec} {a : Rec} {s0 : ExitStatus} {pr : Bool} (ok : FR3OK g db a s0 pr) :
    Follows g.K (g.K8c db) :=
  ⟨by show (⟨g.p.id, g.p.role, 5, g.mc⟩ : Str.Cfg) = ⟨g.p.id, 3, 5, g.mc⟩; rw [ok.role], rfl, rfl, rfl, rfl⟩

theorem k8c_final (g : Cfg) (db : List Rec) : (g.K8c db).final = true := by
  simp [RCtx.final, Cfg.K8c, nextInputStream, RT.stdin, RT.data]

/-- The handler in its first `readAll`, on a complete Stdin stream; the Data stream behind it is cut by
the abort. -/
theorem hr1c_core {g : Cfg} {db : List Rec} {a : Rec} {s0 : ExitStatus} {pr : Bool} (ok : FR3OK g db a s0 pr)
    (fuel : Nat) (r : AReq) (sub : HSub) (e : Run.Env) (dO : Bytes)
    (hf : 2 * ((g.K.C.length - (accOf sub).length) / 64) + 2 * ((g.cap + e.tr.input.length) / 64) +
      2 * e.tr.input.length + 9 ≤ fuel) (hb : Ben e.tr)
    (hs : RSt g.K g.L1 [] r e.mutex e.tr (accOf sub) dO) (hnw : r.writeable = false) :
    (∃ (r' : AReq) (acc' : Bytes) (e' : Run.Env) (dO' : Bytes),
      handlerPoll fuel r ⟨rscript s0, sub, [], pr⟩ e = (r', ⟨rscript s0, .readAllAcc acc', [], pr⟩, e', .pending) ∧
      RSt g.K g.L1 [] r' e'.mutex e'.tr acc' dO' ∧ e'.segs = e.segs ∧ TStep e.tr e'.tr ∧
      e'.tr.woken = true ∧ ans e'.tr < ans e.tr ∧ r'.writeable = false) ∨
    (∃ (r' : AReq) (acc' : Bytes) (e' : Run.Env) (dO' : Bytes),
      handlerPoll fuel r ⟨rscript s0, sub, [], pr⟩ e =
        (r', ⟨[.readAll, .ret s0], .readAllAcc acc', [], pr⟩, e', .pending) ∧
      RSt (g.K8c db) g.L1 g.Ow1 r' e'.mutex e'.tr acc' dO' ∧ e'.segs = e.segs ∧ TStep e.tr e'.tr ∧
      e'.tr.woken = true ∧ ans e'.tr < ans e.tr ∧ (r'.writeable = true ↔ acc' ≠ [])) ∨
    HDoneB g (g.Ow3 db) g.content2 s0 pr fuel r ⟨rscript s0, sub, [], pr⟩ e := by
  have hK1 := ok.k1
  rcases readAll_runW hK1 (k_final ok.role) (L := g.L1) (P := []) [.setStream 8, .readAll, .ret s0] [] pr
      (2 * ((g.K.C.length - (accOf sub).length) / 64) + 2 * e.tr.input.length + 2) fuel r sub e dO 1
      (by omega) (by omega) (fun h => by omega) hb hs with
    ⟨r', acc', e', dO', d1, d3, d5, d6, d8, d9, d10⟩ |
    ⟨r', e', f', d1, d2, d3, dl, dm, dpay, dpad, dwire, dw, dsg, dts, dwr⟩
  · exact Or.inl ⟨r', acc', e', dO', d1, d3, d5, d6, d8, d9, d10.trans hnw⟩
  · right
    have hts1 : TStep e.tr (e'.ev (rEvent g.K.C)).tr := dts.trans (TStep.ev _ (isHS_rEvent _))
    obtain ⟨f2, rfl⟩ : ∃ f2, f' = f2 + 1 := ⟨f' - 1, by omega⟩
    obtain ⟨r8, hset, hlk8, hrst⟩ := switch_stream ok.follows d3 dpay dpad dwire
    have hw8 := setStream_writeable hset
    rw [hp_setStream, hset] at d1
    simp only at d1
    have hrst' : RSt (g.K8c db) g.L1 g.Ow1 r8 ((e'.ev (rEvent g.K.C)).ev "s=ok").mutex
        ((e'.ev (rEvent g.K.C)).ev "s=ok").tr (accOf .fresh) [] := by
      rw [List.nil_append] at hrst
      obtain ⟨⟨G, hi⟩, lk, mx, lg⟩ := hrst
      exact ⟨⟨G, hi⟩, lk, mx, lg⟩
    have hts2 : TStep e.tr ((e'.ev (rEvent g.K.C)).ev "s=ok").tr := hts1.trans (TStep.ev _ (by decide))
    have hin2 : ((e'.ev (rEvent g.K.C)).ev "s=ok").tr.input.length = e'.tr.input.length := rfl
    have hinle : e'.tr.input.length ≤ e.tr.input.length := dts.tle.input_len
    have hc2 : (g.K8c db).C.length ≤ g.cap + e'.tr.input.length := by
      obtain ⟨G, hi⟩ := hrst'.inv
      have := hi.rem_leA ok.k8
      have e0 : (accOf HSub.fresh).length = 0 := rfl
      have e1 : (g.K8c db).cap = g.cap := rfl
      rw [e0, e1] at this
      rw [hin2] at this
      omega
    have hw80 : r8.writeable = true ↔ accOf HSub.fresh ≠ [] := by
      rw [hw8, dwr, hnw]
      exact ⟨(fun h => nomatch h), (fun h => absurd rfl h)⟩
    have e0 : (accOf HSub.fresh).length = 0 := rfl
    rcases hr2c_core (g := g) ok.k8 (k8c_final g db) ⟨rfl, rfl, rfl, rfl⟩ rfl (P2 := g.Ow1) (Ow := g.Ow3 db) rfl s0
        pr f2 r8 .fresh ((e'.ev (rEvent g.K.C)).ev "s=ok") []
        (by rw [e0, hin2]
            have h1 : ((g.K8c db).C.length - 0) / 64 ≤ (g.cap + e.tr.input.length) / 64 :=
              Nat.div_le_div_right (by omega)
            omega)
        (hb.step hts2) hrst' hw80 with
      ⟨r2, acc2, e2, dO2, q1, q3, q5, q6, q8, q9, q10⟩ |
      ⟨K, P, r2, H2, e2, acc, lost, k1, k2, k3, k4, k5, k6, k7, k8, k9, k10, k11, k12, k13⟩
    · left
      refine ⟨r2, acc2, e2, dO2, by rw [rscript, d1]; exact q1, q3, q5.trans dsg, hts2.trans q6, q8, ?_, q10⟩
      have := hts2.ans_le
      have q9' : ans e2.tr < ans ((e'.ev (rEvent g.K.C)).ev "s=ok").tr := q9
      omega
    · right
      exact ⟨K, P, r2, H2, e2, acc, lost, k1, k2, by rw [rscript, d1]; exact k3, k4, k5, k6, k7.trans dsg,
        hts2.trans k8, k9, k10, k11, k12, k13⟩

/-- the handler suspended in its second `readAll` -/
def HR2c (g : Cfg) (K2 : RCtx) (P2 : Bytes) (s0 : ExitStatus) (pr : Bool) (c : Conn) : Prop :=
  ∃ r sub dO, c.phase = .handler r ⟨[.readAll, .ret s0], sub, [], pr⟩ ∧
    RSt K2 g.L1 P2 r c.env.mutex c.env.tr (accOf sub) dO ∧
    (r.writeable = true ↔ accOf sub ≠ []) ∧ Ben c.env.tr ∧ c.stop = false ∧ Ev1 g c.env.tr ∧ c.scripts = g.more

def S3 (g : Cfg) (db : List Rec) (s0 : ExitStatus) (pr : Bool) (c : Conn) : Prop :=
  FStageP g pr c ∨ HR1 g s0 pr c ∨ HR2c g (g.K8c db) g.Ow1 s0 pr c ∨ T3 g (g.Ow3 db) g.content2 c

theorem S3.cong {g : Cfg} {db : List Rec} {s0 : ExitStatus} {pr : Bool} {c c' : Conn} (h : S3 g db s0 pr c)
    (hph : c'.phase = c.phase) (hsc : c'.scripts = c.scripts) (hstop : c'.stop = c.stop)
    (hm : c'.env.mutex = c.env.mutex) (hs : TrSame c.env.tr c'.env.tr) : S3 g db s0 pr c' := by
  rcases h with h | ⟨r, sub, dO, h1, h2, h3, h4, h5, h6, h7⟩ | ⟨r, sub, dO, h1, h2, h3, h4, h5, h6, h7⟩ | h
  · exact Or.inl (h.cong hph hsc hstop hm hs)
  · exact Or.inr (Or.inl ⟨r, sub, dO, hph.trans h1, h2.cong hm hs, h3, hs.ben h4, hstop.trans h5, hs.ev1 h6,
      hsc.trans h7⟩)
  · exact Or.inr (Or.inr (Or.inl ⟨r, sub, dO, hph.trans h1, h2.cong hm hs, h3, hs.ben h4, hstop.trans h5,
      hs.ev1 h6, hsc.trans h7⟩))
  · exact Or.inr (Or.inr (Or.inr (h.cong hph hsc hstop hm hs)))

abbrev R3 (g : Cfg) (db : List Rec) (s0 : ExitStatus) (pr : Bool) (N : Nat) (c : Conn) : Prop :=
  GRes3 (S3 g db s0 pr) (A3 g (g.Ow3 db) g.content2) (F3 g (g.Ow3 db) g.content2) N c

/-- **One poll** with the handler in its second `readAll`. -/
theorem hr2c_poll {g : Cfg} {db : List Rec} {a : Rec} {s0 : ExitStatus} {pr : Bool} (ok : FR3OK g db a s0 pr)
    {c : Conn} (h : HR2c g (g.K8c db) g.Ow1 s0 pr c) : R3 g db s0 pr 3 c := by
  obtain ⟨r, sub, dO, hph, hs, hw0, hb, hstop, hev, hsc⟩ := h
  obtain ⟨G0, hi0⟩ := hs.inv
  have hrl := hi0.rem_leA ok.k8
  have hcapr : r.sp.cap = g.cap := hi0.capK
  have hcapK : (g.K8c db).cap = g.cap := rfl
  have hfuel : 2 * (((g.K8c db).C.length - (accOf sub).length) / 64) + 2 * c.env.tr.input.length + 4 ≤
      (handlerFuel c.env r + scriptOf c) := by
    unfold handlerFuel
    rw [hcapr]
    omega
  rcases hr2c_core ok.k8 (k8c_final g db) ⟨rfl, rfl, rfl, rfl⟩ rfl (P2 := g.Ow1) (Ow := g.Ow3 db) rfl s0 pr
      ((handlerFuel c.env r + scriptOf c)) r sub c.env dO hfuel hb hs hw0 with
    ⟨r', acc', e', dO', d1, d3, d5, d6, d8, d9, d10⟩ | hd
  · have hstep := C07.handler_step c r _ hph
    rw [d1] at hstep
    have hstep' : stepConn c = .halt ⟨.handler r' ⟨[.readAll, .ret s0], .readAllAcc acc', [], pr⟩, e', c.scripts, c.stop⟩
        .pending := hstep
    exact Or.inl (Or.inl ⟨_, (Halts.now hstep').mono (by omega), ⟨d6.w, d5, rfl⟩,
      Or.inr (Or.inr (Or.inl ⟨r', .readAllAcc acc', dO', rfl, d3, d10, hb.step d6, hstop, hev.step d6, hsc⟩)),
      d8, d9⟩)
  · exact (done_closeB ok.k0 ok.role ok.mode hph hd hb hstop hev hsc).imp
      (fun _ _ h => Or.inr (Or.inr (Or.inr h))) (fun _ _ h => h) (fun _ _ h => h)

/-- **One poll** with the handler in (or about to start) its first `readAll`. -/
theorem hr1c_poll {g : Cfg} {db : List Rec} {a : Rec} {s0 : ExitStatus} {pr : Bool} (ok : FR3OK g db a s0 pr)
    {c : Conn} (h : HR1 g s0 pr c) : R3 g db s0 pr 3 c := by
  obtain ⟨r, sub, dO, hph, hs, hnw, hb, hstop, hev, hsc⟩ := h
  have hK := ok.k1
  obtain ⟨G0, hi0⟩ := hs.inv
  have hrl := hi0.rem_le hK
  have hcapr : r.sp.cap = g.cap := hi0.capK
  have hcapK : g.K.cap = g.cap := rfl
  have hfuel : 2 * ((g.K.C.length - (accOf sub).length) / 64) + 2 * ((g.cap + c.env.tr.input.length) / 64) +
      2 * c.env.tr.input.length + 9 ≤ (handlerFuel c.env r + scriptOf c) := by
    unfold handlerFuel
    rw [hcapr]
    omega
  rcases hr1c_core ok ((handlerFuel c.env r + scriptOf c)) r sub c.env dO hfuel hb hs hnw with
    ⟨r', acc', e', dO', d1, d3, d5, d6, d8, d9, d10⟩ | ⟨r', acc', e', dO', d1, d3, d5, d6, d8, d9, d10⟩ | hd
  · have hstep := C07.handler_step c r _ hph
    rw [d1] at hstep
    have hstep' : stepConn c = .halt ⟨.handler r' ⟨rscript s0, .readAllAcc acc', [], pr⟩, e', c.scripts, c.stop⟩
        .pending := hstep
    exact Or.inl (Or.inl ⟨_, (Halts.now hstep').mono (by omega), ⟨d6.w, d5, rfl⟩,
      Or.inr (Or.inl ⟨r', .readAllAcc acc', dO', rfl, d3, d10, hb.step d6, hstop, hev.step d6, hsc⟩),
      d8, d9⟩)
  · have hstep := C07.handler_step c r _ hph
    rw [d1] at hstep
    have hstep' : stepConn c = .halt ⟨.handler r' ⟨[.readAll, .ret s0], .readAllAcc acc', [], pr⟩, e', c.scripts, c.stop⟩
        .pending := hstep
    exact Or.inl (Or.inl ⟨_, (Halts.now hstep').mono (by omega), ⟨d6.w, d5, rfl⟩,
      Or.inr (Or.inr (Or.inl ⟨r', .readAllAcc acc', dO', rfl, d3, d10, hb.step d6, hstop, hev.step d6,
        hsc⟩)), d8, d9⟩)
  · exact (done_closeB ok.k0 ok.role ok.mode hph hd hb hstop hev hsc).imp
      (fun _ _ h => Or.inr (Or.inr (Or.inr h))) (fun _ _ h => h) (fun _ _ h => h)

/-- the first poll of the handler -/
theorem filterR3_first {g : Cfg} {db : List Rec} {a : Rec} {s0 : ExitStatus} {pr : Bool}
    (ok : FR3OK g db a s0 pr) (c : Conn) (hc : FirstCfgP g pr c) : R3 g db s0 pr 6 c := by
  obtain ⟨e1, hph, hlen, hwire, hlog, hm, hb, hstop, hev, hsc⟩ := hc
  have hrole : g.p.request.role = 3 := ok.role
  have hwr : (AReq.new (Str.Parser.fromParser g.cap g.p.request e1 g.mc)).writeable = false := by
    simp [AReq.new, Str.Parser.fromParser, hrole, inputStreams]
  have hstart : C03SI.Start g.K.E (Str.Parser.fromParser g.cap g.p.request e1 g.mc) :=
    C03SI.start_fresh g.cap g.p.request e1 g.mc hlen ok.hid (Or.inr hrole)
  have hrinv : RInv g.K (AReq.new (Str.Parser.fromParser g.cap g.p.request e1 g.mc)) e1 c.env.tr.input [] [] := by
    refine ⟨hstart.mtch, hstart.inv, rfl, rfl, rfl, hwire, fun x => ?_⟩
    have := C03SI.rem_start hstart x
    show refWire g.K.E (e1 ++ x) = (Rem g.K.E (Str.Parser.fromParser g.cap g.p.request e1 g.mc) x).pre [] []
    rw [this]; rfl
  rw [ok.hs] at hph
  exact (hr1c_poll ok ⟨_, .fresh, [], hph, ⟨⟨e1, hrinv⟩, by rw [hm]; exact lockInv_free rfl, Or.inl hm,
    ⟨[], by rw [hlog, List.append_nil], rfl⟩⟩, hwr, hb, hstop, hev, hsc⟩).mono (by omega)

theorem s3_poll {g : Cfg} {db : List Rec} {a : Rec} {s0 : ExitStatus} {pr : Bool} (ok : FR3OK g db a s0 pr)
    {c : Conn} (h : S3 g db s0 pr c) : R3 g db s0 pr (2 * c.env.tr.input.length + 15) c := by
  rcases h with h | h | h | h
  · exact fstage_poll3P ok.fok (fun _ h => Or.inl h) (filterR3_first ok) h
  · exact (hr1c_poll ok h).mono (by omega)
  · exact (hr2c_poll ok h).mono (by omega)
  · exact ((t3_poll ok.k0 h).imp (fun _ _ h => Or.inr (Or.inr (Or.inr h))) (fun _ _ h => h) (fun _ _ h => h)).mono
      (by omega)

/-- the log when `close` is done, by what the failed read had collected -/
def Cfg.Lf3 (g : Cfg) (db : List Rec) (acc : Bytes) : Bytes :=
  if acc = [] then g.LfO (g.Ow3 db) else g.LfF (g.Ow3 db)

/-- `A3` as a `ZTailAt`, index = what the failed read had collected -/
theorem A3.ztail {g : Cfg} {db : List Rec} {Z : Bytes} {c1 : Conn} (haf : A3 g (g.Ow3 db) g.content2 c1) :
    ZTailAt g.cap g.mc Z g.more (g.hs0 + 1)
      (fun acc : Bytes => g.p.flags.toNat % 2 = 1 ∧ ∃ lost, acc ++ lost = g.content2) (fun _ => g.U ++ Z)
      (g.Lf3 db) (fun acc => [hsEvent g.p.request, raEvent acc]) c1 := by
  obtain ⟨acc, lost, h1, h2, h3⟩ := haf
  have key : ∀ Lf, AfterE g Lf c1 → g.Lf3 db acc = Lf → ZTailAt g.cap g.mc Z g.more (g.hs0 + 1)
      (fun acc : Bytes => g.p.flags.toNat % 2 = 1 ∧ ∃ lost, acc ++ lost = g.content2) (fun _ => g.U ++ Z)
      (g.Lf3 db) (fun acc => [hsEvent g.p.request, raEvent acc]) c1 := by
    intro Lf haf hL
    obtain ⟨raw, hph, hw, hraw⟩ := haf.ph
    exact ⟨acc, ⟨haf.keep, lost, h1⟩, Or.inr ⟨raw, hph, by rw [hw], hraw, by rw [hL]; exact haf.log, haf.ben, haf.stop⟩,
      ⟨haf.sc, haf.mtx, haf.ev.1, fun s hs => by
        rcases List.mem_cons.1 hs with rfl | hs
        · exact haf.ev.2
        · rw [List.mem_singleton.1 hs]; exact h2⟩⟩
  rcases h3 with ⟨ha, haf⟩ | ⟨ha, haf⟩
  · exact key _ haf (by simp [Cfg.Lf3, ha])
  · exact key _ haf (by simp [Cfg.Lf3, ha])

/-- **The executor**, placement (iii). -/
theorem run_filterR3 {g : Cfg} {db : List Rec} {a : Rec} {s0 : ExitStatus} {pr : Bool}
    (ok : FR3OK g db a s0 pr) {Z : Bytes}
    (hns : NoStuckW g.cap g.mc (g.U ++ Z))
    (hNF : ∀ F x, F ++ x ++ Z = g.U ++ Z → (run .header F g.mc).st.isFinal = false)
    (em : EndMode) (evs0 : List String) (c : Conn) (n0 fuel : Nat) (hst : FStageP g pr c)
    (hem : c.env.tr.endMode = em) (hev0 : ∀ s ∈ evs0, s ∈ c.env.tr.events)
    (hsegs : c.env.segs = []) (hf : ans c.env.tr + 1 ≤ fuel) (hlen : 6 * c.env.tr.input.length + 26 ≤ 100000) :
    ∃ c'' fin, runTask fuel c n0 none = (c'', fin) ∧
      (GEnd g.cap g.mc Z g.more (g.hs0 + 1)
          (fun acc : Bytes => g.p.flags.toNat % 2 = 1 ∧ ∃ lost, acc ++ lost = g.content2) (fun _ => g.U ++ Z)
          (g.Lf3 db) (fun acc => [hsEvent g.p.request, raEvent acc]) em evs0 (ans c.env.tr) c'' fin ∨
       (fin = "RET" ∧ F3 g (g.Ow3 db) g.content2 c'' ∧ c''.env.tr.endMode = em ∧
        (∀ s ∈ evs0, s ∈ c''.env.tr.events))) :=
  run_stages3 (cap24 g) (fun _ _ => hns) (fun _ _ => hNF) (fun _ _ h => h.cong)
    (fun _ h => (s3_poll ok h).imp (fun _ _ h => h) (fun _ _ h => h.ztail) (fun _ _ h => h))
    em evs0 c n0 fuel (Or.inl hst) hem hev0 hsegs hf hlen

/-- the request (KEEP_CONN) started from any `StartAt` of a chain: it ends parked behind its abort
record and what followed it; `acc` = what the handler's failed read had collected -/
theorem serve_filterR3_core {g : Cfg} {db : List Rec} {a : Rec} {s0 : ExitStatus} {pr : Bool}
    (ok : FR3OK g db a s0 pr) (hk : g.p.flags.toNat % 2 = 1)
    {left : List Rec} (hleft : LeftOK (alignedBufsize g.b) left) {Z : Bytes}
    (hR : ∀ e ∈ a :: g.body2, IdleNoise e) (hZ : GoodNext g.cap g.mc (a :: g.body2) Z)
    {Lw : Bytes} {evs : List String} {A0 : Nat} {c : Conn} (n0 fuel : Nat)
    (hLw : Lw = g.L0 ++ idleOwed g.mc left)
    (hstart : StartAt g.cap g.mc left Lw ((g.hscript, pr) :: g.more) g.hs0 evs A0 g.W c)
    (hf : A0 + 1 ≤ fuel) (hsize : 6 * g.W.length + 26 ≤ 100000) :
    ∃ c' acc lost, runTask fuel c n0 none = (c', "STALL") ∧ acc ++ lost = g.content2 ∧
      Waiting g.cap g.mc (a :: g.body2) ((g.front left).Lf3 db acc ++ idleOwed g.mc (a :: g.body2)) g.more
        (g.hs0 + 1) (hsEvent g.p.request :: raEvent acc :: evs) A0 c' := by
  have okf := ok.front hleft
  obtain ⟨hst, hsg, hem, hans, hev, hin⟩ := fstage_of_startAtP hleft hLw hstart
  have hser : serAll (a :: g.body2) = g.U := by rw [ok.hU, serAll_cons]
  obtain ⟨c', fin, hrun, hres⟩ :=
    run_filterR3 okf (Z := Z) (by show NoStuckW g.cap g.mc (g.U ++ Z); rw [← hser]; exact hZ.1)
      (by show ∀ F x, F ++ x ++ Z = g.U ++ Z → _; rw [← hser]; exact hZ.2) .pend evs c n0 fuel hst hem hev hsg
      (by omega) (by rw [hin]; exact hsize)
  rcases hres with ⟨acc, ⟨_, lost, hal⟩, hkp, hem', hev', hans', hsg', hend⟩ | ⟨_, hfu, _, _⟩
  · rcases hend with ⟨rfl, hp⟩ | ⟨_, hfn⟩
    · obtain ⟨F, hF, hps, hph, hlg⟩ := hp.pst
      have hFe : F = serAll (a :: g.body2) := by
        have : F ++ Z = g.U ++ Z := hF
        rw [hser]; exact List.append_cancel_right this
      subst hFe
      have hnf : (run .header (serAll (a :: g.body2)) g.mc).st.isFinal = false := (run_idle_out g.mc _ hR).2.2
      have hob : (run .header (serAll (a :: g.body2)) (g.front left).mc).out = idleOwed g.mc (a :: g.body2) :=
        (run_idle_out g.mc _ hR).1
      refine ⟨c', acc, lost, hrun, hal, ⟨hph, hnf, hps.rem, hp.inp, by rw [hlg, hob],
        ⟨(g.front left).Lf3 db acc, by
          show _ = _ ++ (run .header (serAll (a :: g.body2)) (g.front left).mc).out
          rw [hob]⟩, hps.stop, hps.ben, hkp.sc, hkp.mx,
        hkp.hs, ?_, hsg', hem', by omega⟩⟩
      intro s hs
      rcases List.mem_cons.1 hs with rfl | hs
      · exact hkp.ev _ List.mem_cons_self
      rcases List.mem_cons.1 hs with rfl | hs
      · exact hkp.ev _ (by simp)
      · exact hev' s hs
    · rw [hfn.em] at hem'; cases hem'
  · obtain ⟨acc, lost, _, _, h3⟩ := hfu
    have hnk : (g.front left).p.flags.toNat % 2 = 0 := by
      rcases h3 with ⟨_, h⟩ | ⟨_, h⟩ <;> exact h.nokeep
    have e : (g.front left).p = g.p := rfl
    rw [e] at hnk
    omega

end Fcgi.E2E
