import Fcgi.Proofs.E2EUnread
/-!
# End-to-end composition (C07/C05) — handlers that leave their input unread, part 2: chains

`Waiting`: the task is parked between two requests of a closed-loop client, inside `parse_request`,
having swallowed the records `left` the previous request left unread.  `RSpec` / `Serves`: what the
chain needs to know about one request.  `serves_full` (a request of `Props/C07E2E`, read to its end)
and `serves_unread` (a Responder request whose handler reads nothing) are instances;
`chain_serves` composes any list of them.
-/
namespace Fcgi.E2E
open Fcgi Fcgi.Req Fcgi.Str Fcgi.Async Fcgi.Run Fcgi.Spec

/-- Parked between two requests: inside `parse_request`, which has consumed `serAll left` (what the
previous request left unread) and written the replies; `Lw` = the whole log. -/
structure Waiting (cap mc : Nat) (left : List Rec) (Lw : Bytes) (sc : List (List HOp × Bool)) (h : Nat)
    (evs : List String) (A0 : Nat) (c : Conn) : Prop where
  ph : c.phase = .parseReq (track cap mc (serAll left)) .reading
  nf : (run .header (serAll left) mc).st.isFinal = false
  rem : (run .header (serAll left) mc).rem.length ≤ cap
  inp : c.env.tr.input = []
  log : c.env.tr.wlog = Lw
  logL : ∃ L, Lw = L ++ (run .header (serAll left) mc).out
  stop : c.stop = false
  ben : Ben c.env.tr
  sc : c.scripts = sc
  mtx : c.env.mutex = none
  hs : hsCount c.env.tr.events = h
  ev : ∀ s ∈ evs, s ∈ c.env.tr.events
  segs : c.env.segs = []
  em : c.env.tr.endMode = .pend
  ans : ans c.env.tr ≤ A0

/-- the next request's bytes arrive -/
theorem Waiting.pst {cap mc : Nat} {left : List Rec} {Lw : Bytes} {sc : List (List HOp × Bool)} {h : Nat}
    {evs : List String} {A0 : Nat} {c : Conn} (w : Waiting cap mc left Lw sc h evs A0 c) (Wn : Bytes) :
    ∃ L, Lw = L ++ (run .header (serAll left) mc).out ∧
      PSt cap mc (serAll left ++ Wn) L [] (feed c Wn) (serAll left) := by
  obtain ⟨L, hL⟩ := w.logL
  refine ⟨L, hL, ?_, w.stop, ⟨w.ben.rd, w.ben.wr, w.ben.hold, w.ben.em⟩, w.rem, Or.inl ⟨w.ph, w.nf, ?_⟩⟩
  · show serAll left ++ Wn ++ [] = _
    rw [List.append_nil]
  · show c.env.tr.wlog = _
    rw [w.log, hL]

/-- where a request of the chain starts: the connection is fresh, or parked and just fed -/
def StartAt (cap mc : Nat) (left : List Rec) (Lw : Bytes) (sc : List (List HOp × Bool)) (h : Nat)
    (evs : List String) (A0 : Nat) (W : Bytes) (c : Conn) : Prop :=
  (∃ c0, Waiting cap mc left Lw sc h evs A0 c0 ∧ c = feed c0 W) ∨
  (left = [] ∧ c.phase = .parseReq ⟨cap, [], .header, mc⟩ .start ∧ c.env.tr.input = W ∧ c.env.tr.wlog = Lw ∧
    Ben c.env.tr ∧ c.stop = false ∧ c.scripts = sc ∧ c.env.mutex = none ∧ hsCount c.env.tr.events = h ∧
    (∀ s ∈ evs, s ∈ c.env.tr.events) ∧ c.env.segs = [] ∧ c.env.tr.endMode = .pend ∧ ans c.env.tr ≤ A0)

/-- what the chain needs to know about one request -/
structure RSpec where
  /-- the bytes the client sends for it -/
  W : Bytes
  handler : List HOp × Bool
  /-- the records it leaves for the next `parse_request` -/
  left : List Rec
  /-- its segment of the write log -/
  Seg : Bytes → Prop
  /-- its handler-start event -/
  ev : String

/-- `serAll left ++ Z` never fills the buffer and is not final before `Z` -/
def GoodNext (cap mc : Nat) (left : List Rec) (Z : Bytes) : Prop :=
  NoStuckW cap mc (serAll left ++ Z) ∧
  ∀ F x, F ++ x ++ Z = serAll left ++ Z → (run .header F mc).st.isFinal = false

def LeftOK (cap : Nat) (left : List Rec) : Prop := (∀ e ∈ left, IdleNoise e) ∧ NoiseFits cap left

/-- The request `x` is served from any start, whatever the previous request left unread; `Z` = what
the client sends after it. -/
def Serves (cap mc : Nat) (x : RSpec) (Z : Bytes) : Prop :=
  ∀ (left : List Rec) (Lw : Bytes) (sc : List (List HOp × Bool)) (h : Nat) (evs : List String) (A0 : Nat)
    (c : Conn) (n fuel : Nat),
    LeftOK cap left → StartAt cap mc left Lw (x.handler :: sc) h evs A0 x.W c → A0 + 1 ≤ fuel →
    ∃ c' A, runTask fuel c n none = (c', "STALL") ∧ x.Seg A ∧
      Waiting cap mc x.left (Lw ++ A) sc (h + 1) (x.ev :: evs) A0 c'

/-- the log segments of a chain, concatenated -/
def SegAll : List RSpec → Bytes → Prop
  | [], A => A = []
  | x :: xs, A => ∃ A1 A2, x.Seg A1 ∧ SegAll xs A2 ∧ A = A1 ++ A2

/-- what is sent after each request of the chain (`Zend` after the last) -/
def nextW (Zend : Bytes) : List RSpec → Bytes
  | [] => Zend
  | y :: _ => y.W

def lastLeft : List RSpec → List Rec → List Rec
  | [], l => l
  | x :: xs, _ => lastLeft xs x.left

def evsAfter : List RSpec → List String → List String
  | [], e => e
  | x :: xs, e => evsAfter xs (x.ev :: e)

theorem mem_evsAfter : ∀ (xs : List RSpec) (e : List String) (s : String),
    (s ∈ e ∨ ∃ x ∈ xs, x.ev = s) → s ∈ evsAfter xs e
  | [], e, s, h => by
    rcases h with h | ⟨x, hx, _⟩
    · exact h
    · cases hx
  | y :: ys, e, s, h => by
    apply mem_evsAfter ys (y.ev :: e) s
    rcases h with h | ⟨x, hx, rfl⟩
    · exact Or.inl (List.mem_cons_of_mem _ h)
    · rcases List.mem_cons.1 hx with rfl | hx
      · exact Or.inl List.mem_cons_self
      · exact Or.inr ⟨x, hx, rfl⟩

/-- **The chain.**  A closed-loop client sends the requests `xs` one after the other, each when the
task has parked; every request is served (`Serves`, with what follows it on the wire) and leaves
records that are fine in front of anything (`LeftOK`).  Then the task ends parked after the last
one, the log is the concatenation of the segments. -/
theorem chain_serves (cap mc : Nat) (Zend : Bytes) :
    ∀ (xs : List RSpec) (x : RSpec) (left : List Rec) (Lw : Bytes) (h : Nat) (evs : List String) (A0 : Nat)
      (c : Conn) (n fuel : Nat),
      (∀ ys y zs, x :: xs = ys ++ y :: zs → Serves cap mc y (nextW Zend zs) ∧ LeftOK cap y.left) →
      LeftOK cap left → StartAt cap mc left Lw ((x :: xs).map RSpec.handler) h evs A0 x.W c → A0 + 1 ≤ fuel →
      ∃ c' A, closedLoop fuel (xs.map RSpec.W) c n = (c', "STALL") ∧ SegAll (x :: xs) A ∧
        Waiting cap mc (lastLeft xs x.left) (Lw ++ A) [] (h + (x :: xs).length) (evsAfter (x :: xs) evs) A0 c' := by
  intro xs
  induction xs with
  | nil =>
    intro x left Lw h evs A0 c n fuel hall hleft hstart hf
    obtain ⟨hsv, _⟩ := hall [] x [] rfl
    obtain ⟨c', A, hrun, hseg, hw⟩ := hsv left Lw [] h evs A0 c n fuel hleft hstart hf
    exact ⟨c', A, hrun, ⟨A, [], hseg, rfl, (List.append_nil _).symm⟩, hw⟩
  | cons y ys ih =>
    intro x left Lw h evs A0 c n fuel hall hleft hstart hf
    obtain ⟨hsv, hlx⟩ := hall [] x (y :: ys) rfl
    obtain ⟨c', A1, hrun, hseg, hw⟩ := hsv left Lw ((y :: ys).map RSpec.handler) h evs A0 c n fuel hleft hstart hf
    obtain ⟨c2, A2, hrun2, hseg2, hw2⟩ := ih y x.left (Lw ++ A1) (h + 1) (x.ev :: evs) A0 (feed c' y.W) (n + 1000) fuel
      (fun ys' y' zs' he => hall (x :: ys') y' zs' (by rw [he]; rfl)) hlx (Or.inl ⟨c', hw, rfl⟩) hf
    refine ⟨c2, A1 ++ A2, ?_, ⟨A1, A2, hseg, hseg2, rfl⟩, ?_⟩
    · simp only [closedLoop, List.map_cons, hrun, if_true]
      exact hrun2
    · have e1 : Lw ++ A1 ++ A2 = Lw ++ (A1 ++ A2) := List.append_assoc _ _ _
      have e2 : h + 1 + (y :: ys).length = h + (x :: y :: ys).length := by simp only [List.length_cons]; omega
      rw [e1, e2] at hw2
      exact hw2

/-! ## Configurations behind leftover records -/

/-- the configuration `g` with the records `us` (left unread by the previous request) in front of its
preamble -/
def Cfg.front (g : Cfg) (us : List Rec) : Cfg := { g with recs := us ++ g.recs }

theorem Cfg.front_W (g : Cfg) (us : List Rec) : (g.front us).W = serAll us ++ g.W := by
  simp only [Cfg.W, Cfg.front, serAll_app, List.append_assoc]

theorem Cfg.OK.front {g : Cfg} (ok : g.OK) {us : List Rec} (hu : LeftOK (alignedBufsize g.b) us) : (g.front us).OK := by
  refine ⟨wf_idle ok.wf us hu.1, ok.pairs, noiseFits_app hu.2 ok.noise, ?_⟩
  cases ok.shape with
  | responderU hr hb hf hp hX2 hX hU hOt hrv hs hfu => exact .responderU hr hb hf hp hX2 hX hU hOt hrv hs hfu
  | authorizer hr hX hU hOt hrv hs hfu => exact .authorizer hr hX hU hOt hrv hs hfu
  | filterU hr hb hb2 hf hf2 hp hp2 hX2 hX hU hOt hrv hs hfu =>
    exact .filterU hr hb hb2 hf hf2 hp hp2 hX2 hX hU hOt hrv hs hfu

theorem UOK.front {g : Cfg} (ok : UOK g) {us : List Rec} (hu : LeftOK (alignedBufsize g.b) us) : UOK (g.front us) :=
  ⟨wf_idle ok.wf us hu.1, ok.role, ok.pairs, noiseFits_app hu.2 ok.noise, ok.hX, ok.hU, ok.hOt, ok.hrv, ok.mode, ok.hfu⟩

/-- the log when the handler starts, behind leftover records -/
theorem Cfg.front_L1 (g : Cfg) {us : List Rec} (hu : ∀ e ∈ us, IdleNoise e) :
    (g.front us).L1 = g.L0 ++ idleOwed g.mc us ++ owedPreamble g.p g.mc g.recs := by
  show g.L0 ++ owedPreamble g.p g.mc (us ++ g.recs) = _
  rw [owedPreamble_idle g.p g.mc us hu, List.append_assoc]

theorem feed_ans (c : Conn) (w : Bytes) : ans (feed c w).env.tr = ans c.env.tr := rfl

/-- a request of `Props/C07E2E` (configuration `g`, read to its end, KEEP_CONN) started from any
`StartAt`: it ends parked, nothing left unread -/
theorem serve_full_core {g : Cfg} (ok : g.OK) (hk : g.p.flags.toNat % 2 = 1) {left : List Rec}
    (hleft : LeftOK (alignedBufsize g.b) left) {Lw : Bytes} {evs : List String} {A0 : Nat} {c : Conn} (n fuel : Nat)
    (hLw : Lw = g.L0 ++ idleOwed g.mc left)
    (hstart : StartAt g.cap g.mc left Lw ((g.hscript, true) :: g.more) g.hs0 evs A0 g.W c)
    (hf : A0 + 1 ≤ fuel) (hsize : 4 * g.W.length + 17 ≤ 100000) :
    ∃ c' O1 O2, runTask fuel c n none = (c', "STALL") ∧ O1 ++ O2 = g.Ot ∧
      Waiting g.cap g.mc [] ((g.front left).L3 O1 O2) g.more (g.hs0 + 1) (hsEvent g.p.request :: evs) A0 c' ∧
      ∀ s ∈ g.revs, s ∈ c'.env.tr.events := by
  have okf := ok.front hleft
  have hout := (run_idle_out g.mc left hleft.1).1
  -- the stage at the start, and the facts about `c`
  have hst : Stage (g.front left) c ∧ c.env.segs = [] ∧ c.env.tr.endMode = .pend ∧ ans c.env.tr ≤ A0 ∧
      (∀ s ∈ evs, s ∈ c.env.tr.events) ∧ c.env.tr.input = g.W := by
    rcases hstart with ⟨c0, w, rfl⟩ | ⟨hl, hph, hin, hlog, hb, hstop, hsc, hm, hhs, hev, hsg, hem, hans⟩
    · obtain ⟨L, hL, hpst⟩ := w.pst g.W
      have hLe : L = g.L0 := by
        rw [hLw, hout] at hL
        exact (List.append_cancel_right hL).symm
      subst hLe
      refine ⟨.parse (F := serAll left) (by rw [Cfg.front_W]; exact hpst) w.sc w.mtx w.hs, w.segs, w.em, w.ans, w.ev, rfl⟩
    · subst hl
      refine ⟨.start (raw := []) hph (by rw [Cfg.front_W, hin]; rfl) (Nat.zero_le _) ?_ hb hstop hsc hm hhs,
        hsg, hem, hans, hev, hin⟩
      rw [hlog, hLw]; simp [idleOwed]; rfl
  obtain ⟨hst, hsg, hem, hans, hev, hin⟩ := hst
  obtain ⟨c', ⟨e1, e2, e3, e4⟩, O1, O2, hO, hres⟩ :=
    run_from_stage okf (ans c.env.tr) c n fuel hst hsg (Nat.le_refl _) (by omega) (by rw [hin]; exact hsize)
  rcases hres with ⟨_, hfin⟩ | ⟨hrun, hpk⟩
  · exfalso
    rcases hfin.why with h | ⟨_, h⟩
    · have : (g.front left).p.flags.toNat % 2 = 1 := hk
      omega
    · rw [e1, hem] at h; cases h
  · refine ⟨c', O1, O2, hrun, hO, ⟨?_, ?_, ?_, hpk.inp, hpk.log, ⟨(g.front left).L3 O1 O2, by rw [serAll_nil, resting_header]; exact (List.append_nil _).symm⟩, hpk.stop, hpk.ben,
      hpk.sc, hpk.mtx, hpk.ev.1, ?_, e3, hpk.em, by omega⟩, hpk.re⟩
    · rw [serAll_nil, track_nil]; exact hpk.ph
    · rw [serAll_nil, resting_header]; rfl
    · rw [serAll_nil, resting_header]; exact Nat.zero_le _
    · intro s hs
      rcases List.mem_cons.1 hs with rfl | hs
      · exact hpk.ev.2
      · exact e4 s (hev s hs)

/-- a Responder request whose handler reads nothing (configuration `g`, KEEP_CONN) started from any
`StartAt`: it ends parked behind its whole Stdin stream -/
theorem serve_unread_core {g : Cfg} (ok : UOK g) (hk : g.p.flags.toNat % 2 = 1) {left : List Rec}
    (hleft : LeftOK (alignedBufsize g.b) left) {Z : Bytes} (hbody : ∀ e ∈ g.body, IdleNoise e)
    (hZ : GoodNext g.cap g.mc g.body Z)
    {Lw : Bytes} {evs : List String} {A0 : Nat} {c : Conn} (n fuel : Nat)
    (hLw : Lw = g.L0 ++ idleOwed g.mc left)
    (hstart : StartAt g.cap g.mc left Lw ((g.hscript, true) :: g.more) g.hs0 evs A0 g.W c)
    (hf : A0 + 1 ≤ fuel) (hsize : 6 * g.W.length + 26 ≤ 100000) :
    ∃ c', runTask fuel c n none = (c', "STALL") ∧
      Waiting g.cap g.mc g.body ((g.front left).LU ++ idleOwed g.mc g.body) g.more (g.hs0 + 1)
        (hsEvent g.p.request :: evs) A0 c' := by
  have okf := ok.front hleft
  have hout := (run_idle_out g.mc left hleft.1).1
  have hst : UStage (g.front left) c ∧ c.env.segs = [] ∧ c.env.tr.endMode = .pend ∧ ans c.env.tr ≤ A0 ∧
      (∀ s ∈ evs, s ∈ c.env.tr.events) ∧ c.env.tr.input = g.W := by
    rcases hstart with ⟨c0, w, rfl⟩ | ⟨hl, hph, hin, hlog, hb, hstop, hsc, hm, hhs, hev, hsg, hem, hans⟩
    · obtain ⟨L, hL, hpst⟩ := w.pst g.W
      have hLe : L = g.L0 := by
        rw [hLw, hout] at hL
        exact (List.append_cancel_right hL).symm
      subst hLe
      refine ⟨.parse (F := serAll left) (by rw [Cfg.front_W]; exact hpst) w.sc w.mtx w.hs, w.segs, w.em, w.ans, w.ev, rfl⟩
    · subst hl
      refine ⟨.start (raw := []) hph (by rw [Cfg.front_W, hin]; rfl) (Nat.zero_le _) ?_ hb hstop hsc hm hhs,
        hsg, hem, hans, hev, hin⟩
      rw [hlog, hLw]; simp [idleOwed]; rfl
  obtain ⟨hst, hsg, hem, hans, hev, hin⟩ := hst
  have hU : (g.front left).U = serAll g.body := ok.hU
  obtain ⟨c', fin, hrun, hkp, hem', hev', hans', hsg', hend⟩ :=
    run_unread okf hk (Z := Z) (by rw [hU]; exact hZ.1) (by rw [hU]; exact hZ.2) .pend evs c n fuel hst hem hev hsg
      (by omega) (by rw [hin]; exact hsize)
  rcases hend with ⟨rfl, hp⟩ | ⟨_, hfn⟩
  · obtain ⟨F, hF, hps, hph, hlg⟩ := hp.pst
    have hFe : F = serAll g.body := by rw [hU] at hF; exact List.append_cancel_right hF
    subst hFe
    have hnf : (run .header (serAll g.body) g.mc).st.isFinal = false := (run_idle_out g.mc g.body hbody).2.2
    have hob : (run .header (serAll g.body) (g.front left).mc).out = idleOwed g.mc g.body :=
      (run_idle_out g.mc g.body hbody).1
    refine ⟨c', hrun, ⟨hph, hnf, hps.rem, hp.inp, by rw [hlg, hob], ⟨(g.front left).LU, by
      show _ = _ ++ (run .header (serAll g.body) (g.front left).mc).out
      rw [hob]⟩, hps.stop, hps.ben, hkp.sc, hkp.mx,
      hkp.hs, ?_, hsg', hem', by omega⟩⟩
    intro s hs
    rcases List.mem_cons.1 hs with rfl | hs
    · exact hkp.ev _ List.mem_cons_self
    · exact hev' s hs
  · rw [hfn.em] at hem'; cases hem'

end Fcgi.E2E
