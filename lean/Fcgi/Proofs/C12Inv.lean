import Fcgi.Proofs.RunLoop
/-!
# Helper lemmas for `Props/C12Inv.lean` (fail-stop of the whole poll / whole run)

The transport is a scripted object that the model drives through three write-side primitives
(`writeV`/`write`, `flush`); everything else (`read`, trace events, the peer releasing input, the
executor's bookkeeping) leaves the write-side fields `wr`, `fl`, `wlog` alone (`WSame`).

* a call *fails* when the caller has to stop: the transport answered with an error, or a write
  accepted 0 bytes (`pStop`/`fStop` of the answer; the library turns `Ok(0)` into `WriteZero`);
* `Clean t t'`: `t'` is reached from `t` by write-side-preserving changes and *non-failing*
  `writeV`/`flush` calls, in any number and order — a genuine call sequence, so the scripted answers
  are consumed in call order;
* `Failed t t'`: a clean sequence to some `t1`, then one failing call, then only write-side-preserving
  changes: the failing call is the last transport write/flush call, and `t'.wlog = t1.wlog`;
* `WOut t t' stop`: `Clean`, or `Failed` with a result that stops the caller (`stop = true`).

Every function of the async model satisfies `WOut` with `stop` computed from its result (an error
other than the library's abort signal).  `AClean`/`Clean.answers` translate `Clean` into the scripted
answers consumed (none of them a failing one), which is how `Props/C12Inv` recognises "a transport
write failed" from the two transport states alone.
-/
namespace Fcgi.C12Inv
open Fcgi Fcgi.Req Fcgi.Str Fcgi.Async Fcgi.Run

/-- `stop` read off a result: an error that is not the library's abort signal -/
def errStop (e : IoErr) : Bool := e != .abortRequest

/-- a `write` answer that stops the caller: an error, or 0 bytes accepted -/
def pStop : Poll (Except IoErr Nat) → Bool
  | .ready (.error e) => errStop e
  | .ready (.ok 0) => true
  | _ => false
/-- a `flush` answer that stops the caller -/
def fStop : Poll (Except IoErr Unit) → Bool
  | .ready (.error e) => errStop e
  | _ => false
def oStop : ORes → Bool | .err e => errStop e | _ => false
def iStop : IRes → Bool | .err e => errStop e | _ => false
def wStop : WRes → Bool | .err e => errStop e | _ => false
def cStop : CRes → Bool | .err _ => true | _ => false
def hStop : HRes → Bool | .done (.error e) => errStop e | _ => false

/-- the write-side fields are untouched -/
def WSame (t t' : Transport) : Prop := t'.wr = t.wr ∧ t'.fl = t.fl ∧ t'.wlog = t.wlog

theorem WSame.refl (t : Transport) : WSame t t := ⟨rfl, rfl, rfl⟩
theorem WSame.trans {a b c : Transport} (h1 : WSame a b) (h2 : WSame b c) : WSame a c :=
  ⟨h2.1.trans h1.1, h2.2.1.trans h1.2.1, h2.2.2.trans h1.2.2⟩

/-- A sequence of write-side-preserving changes and non-failing write/flush calls. -/
inductive Clean : Transport → Transport → Prop
  | frame {t t' : Transport} : WSame t t' → Clean t t'
  | write {t : Transport} (sl : List Bytes) (tag : String) : pStop (t.writeV sl tag).2 = false →
      Clean t (t.writeV sl tag).1
  | flush {t : Transport} : fStop t.flush.2 = false → Clean t t.flush.1
  | trans {a b c : Transport} : Clean a b → Clean b c → Clean a c

/-- one failing write/flush call -/
def FailCall (t1 t2 : Transport) : Prop :=
  (∃ sl tag, t2 = (t1.writeV sl tag).1 ∧ pStop (t1.writeV sl tag).2 = true) ∨
  (t2 = t1.flush.1 ∧ fStop t1.flush.2 = true)

/-- A failing call, and it was the last transport write/flush call. -/
def Failed (t t' : Transport) : Prop := ∃ t1 t2, Clean t t1 ∧ FailCall t1 t2 ∧ WSame t2 t'

def WOut (t t' : Transport) (stop : Bool) : Prop := Clean t t' ∨ (Failed t t' ∧ stop = true)

theorem Clean.refl (t : Transport) : Clean t t := .frame (WSame.refl t)

theorem Clean.of_eq {t t' : Transport} (h1 : t'.wr = t.wr) (h2 : t'.fl = t.fl) (h3 : t'.wlog = t.wlog) :
    Clean t t' := .frame ⟨h1, h2, h3⟩

theorem WOut.clean {t t' : Transport} (h : Clean t t') (s : Bool) : WOut t t' s := Or.inl h

theorem WOut.toClean {t t' : Transport} (h : WOut t t' false) : Clean t t' := by
  rcases h with h | ⟨_, h⟩
  · exact h
  · cases h

theorem WOut.pre {a b c : Transport} {s : Bool} (h1 : Clean a b) (h2 : WOut b c s) : WOut a c s := by
  rcases h2 with h | ⟨⟨t1, t2, hc, hf, hs⟩, hst⟩
  · exact Or.inl (h1.trans h)
  · exact Or.inr ⟨⟨t1, t2, h1.trans hc, hf, hs⟩, hst⟩

/-! ## Primitives -/

theorem read_clean {t t' : Transport} {cap : Nat} {res : Poll (Except IoErr Bytes)}
    (h : t.read cap = (t', res)) : Clean t t' := by
  unfold Transport.read at h
  split at h
  · cases h; exact Clean.of_eq rfl rfl rfl
  · split at h
    simp only at h
    split at h
    · cases h; exact Clean.of_eq rfl rfl rfl
    · cases h; exact Clean.of_eq rfl rfl rfl
    · split at h
      · split at h
        · cases h; exact Clean.of_eq rfl rfl rfl
        · split at h
          · cases h; exact Clean.of_eq rfl rfl rfl
          · cases h; exact Clean.of_eq rfl rfl rfl
          · cases h; exact Clean.of_eq rfl rfl rfl
      · cases h; exact Clean.of_eq rfl rfl rfl

theorem pStop_ok_ne {n : Nat} (hn : n ≠ 0) : pStop (.ready (.ok n)) = false := by
  cases n with
  | zero => exact absurd rfl hn
  | succ k => rfl

theorem writeV_wout' {t t' : Transport} {sl : List Bytes} {tag : String} {r : Poll (Except IoErr Nat)}
    (h : t.writeV sl tag = (t', r)) : WOut t t' (pStop r) := by
  have e1 : (t.writeV sl tag).1 = t' := by rw [h]
  have e2 : (t.writeV sl tag).2 = r := by rw [h]
  cases hb : pStop r with
  | false => rw [← e1]; exact Or.inl (.write sl tag (by rw [e2]; exact hb))
  | true =>
    exact Or.inr ⟨⟨t, t', Clean.refl t, Or.inl ⟨sl, tag, e1.symm, by rw [e2]; exact hb⟩, WSame.refl _⟩, rfl⟩

theorem writeV_ok_clean {t t' : Transport} {sl : List Bytes} {tag : String} {n : Nat}
    (h : t.writeV sl tag = (t', .ready (.ok n))) (hn : n ≠ 0) : Clean t t' := by
  have := writeV_wout' h
  rw [pStop_ok_ne hn] at this
  exact this.toClean

theorem write_wout {t t' : Transport} {buf : Bytes} {r : Poll (Except IoErr Nat)}
    (h : t.write buf = (t', r)) : WOut t t' (pStop r) := by
  unfold Transport.write at h; exact writeV_wout' h

theorem write_ok_clean {t t' : Transport} {buf : Bytes} {n : Nat}
    (h : t.write buf = (t', .ready (.ok n))) (hn : n ≠ 0) : Clean t t' := by
  unfold Transport.write at h; exact writeV_ok_clean h hn

theorem flush_wout {t t' : Transport} {r : Poll (Except IoErr Unit)}
    (h : t.flush = (t', r)) : WOut t t' (fStop r) := by
  have e1 : t.flush.1 = t' := by rw [h]
  have e2 : t.flush.2 = r := by rw [h]
  cases hb : fStop r with
  | false => rw [← e1]; exact Or.inl (.flush (by rw [e2]; exact hb))
  | true =>
    exact Or.inr ⟨⟨t, t', Clean.refl t, Or.inr ⟨e1.symm, by rw [e2]; exact hb⟩, WSame.refl _⟩, rfl⟩

/-! ## The scripted answers consumed by a clean sequence -/

def wrBad : WrAns → Bool
  | .err | .zero => true
  | _ => false

def flBad : FlAns → Bool
  | .err => true
  | _ => false

/-- Between `t` and `t'` the transport consumed only non-failing write/flush answers; the write log
grew by appending. -/
def AClean (t t' : Transport) : Prop :=
  ∃ cw cf d, t.wr = cw ++ t'.wr ∧ t.fl = cf ++ t'.fl ∧ t'.wlog = t.wlog ++ d ∧
    (∀ a ∈ cw, wrBad a = false) ∧ (∀ a ∈ cf, flBad a = false)

theorem AClean.of_same {t t' : Transport} (h : WSame t t') : AClean t t' :=
  ⟨[], [], [], by simp [h.1], by simp [h.2.1], by simp [h.2.2], nofun, nofun⟩

theorem AClean.trans {a b c : Transport} (h1 : AClean a b) (h2 : AClean b c) : AClean a c := by
  obtain ⟨cw1, cf1, d1, hw1, hf1, hl1, hb1, hc1⟩ := h1
  obtain ⟨cw2, cf2, d2, hw2, hf2, hl2, hb2, hc2⟩ := h2
  refine ⟨cw1 ++ cw2, cf1 ++ cf2, d1 ++ d2, by rw [hw1, hw2, List.append_assoc],
    by rw [hf1, hf2, List.append_assoc], by rw [hl2, hl1, List.append_assoc], ?_, ?_⟩
  · intro a ha; rcases List.mem_append.1 ha with h | h
    · exact hb1 a h
    · exact hb2 a h
  · intro a ha; rcases List.mem_append.1 ha with h | h
    · exact hc1 a h
    · exact hc2 a h

theorem wrErr_stop (t : Transport) : errStop t.wrErr = true := by
  unfold Transport.wrErr; split <;> rfl
theorem flErr_stop (t : Transport) : errStop t.flErr = true := by
  unfold Transport.flErr; split <;> rfl

theorem writeV_answers (t : Transport) (sl : List Bytes) (tag : String) :
    pStop (t.writeV sl tag).2 = false → AClean t (t.writeV sl tag).1 := by
  unfold Transport.writeV
  generalize sl.flatten = data
  by_cases hd : data.isEmpty = true
  · simp only [hd, if_true]
    intro h; cases h
  · simp only [hd, Bool.false_eq_true, if_false]
    rcases hwr : t.wr with _ | ⟨a, rest⟩
    · simp only []
      intro _
      exact ⟨[], [], data, by simp [hwr, Transport.ev], by simp [Transport.ev], by simp [Transport.ev], nofun, nofun⟩
    · cases a with
      | n k =>
        simp only []
        intro _
        exact ⟨[.n k], [], _, by simp [hwr, Transport.ev], by simp [Transport.ev], by simp [Transport.ev]; rfl,
          by simp [wrBad], nofun⟩
      | all =>
        simp only []
        intro _
        exact ⟨[.all], [], _, by simp [hwr, Transport.ev], by simp [Transport.ev], by simp [Transport.ev]; rfl,
          by simp [wrBad], nofun⟩
      | pending =>
        simp only []
        intro _
        exact ⟨[.pending], [], [], by simp [hwr, Transport.ev], by simp [Transport.ev], by simp [Transport.ev],
          by simp [wrBad], nofun⟩
      | zero =>
        simp only []
        intro h; cases h
      | err =>
        simp only []
        intro h
        have hs : pStop (Poll.ready (Except.error ({ t with wr := rest } : Transport).wrErr)) = true :=
          wrErr_stop _
        rw [hs] at h; cases h

theorem flush_answers (t : Transport) : fStop t.flush.2 = false → AClean t t.flush.1 := by
  unfold Transport.flush
  rcases hfl : t.fl with _ | ⟨a, rest⟩
  · simp only []
    intro _
    exact ⟨[], [], [], by simp [Transport.ev], by simp [hfl, Transport.ev], by simp [Transport.ev], nofun, nofun⟩
  · cases a with
    | ok =>
      simp only []
      intro _
      exact ⟨[], [.ok], [], by simp [Transport.ev], by simp [hfl, Transport.ev], by simp [Transport.ev],
        nofun, by simp [flBad]⟩
    | pending =>
      simp only []
      intro _
      exact ⟨[], [.pending], [], by simp [Transport.ev], by simp [hfl, Transport.ev], by simp [Transport.ev],
        nofun, by simp [flBad]⟩
    | err =>
      simp only []
      intro h
      have hs : fStop (Poll.ready (Except.error ({ t with fl := rest } : Transport).flErr)) = true :=
        flErr_stop _
      rw [hs] at h; cases h

/-- A clean call sequence consumed no failing answer. -/
theorem Clean.answers {t t' : Transport} (h : Clean t t') : AClean t t' := by
  induction h with
  | frame h => exact AClean.of_same h
  | write sl tag h => exact writeV_answers _ sl tag h
  | flush h => exact flush_answers _ h
  | trans _ _ ih1 ih2 => exact ih1.trans ih2

/-- A failing call writes nothing. -/
theorem FailCall.wlog {t1 t2 : Transport} (h : FailCall t1 t2) : t2.wlog = t1.wlog := by
  rcases h with ⟨sl, tag, rfl, hs⟩ | ⟨rfl, hs⟩
  · have hsp := (writeV_spec t1 sl tag).2
    revert hs hsp
    generalize (t1.writeV sl tag).2 = r
    cases r with
    | pending => intro hs; cases hs
    | ready x =>
      cases x with
      | error e => intro _ h; exact h
      | ok n =>
        cases n with
        | zero => intro _ h; simpa using h.2
        | succ k => intro hs; cases hs
  · exact flush_wlog t1

/-- After a failure the write log is the log at the moment of the failing call. -/
theorem Failed.wlog {t t' : Transport} (h : Failed t t') :
    ∃ t1, Clean t t1 ∧ t'.wlog = t1.wlog := by
  obtain ⟨t1, t2, hc, hf, hs⟩ := h
  exact ⟨t1, hc, hs.2.2.trans hf.wlog⟩

/-! ## Write loops -/

theorem writeAllLoop_wout : ∀ (fuel : Nat) (buf : Bytes) (t : Transport) {rest : Bytes} {t' : Transport} {res : ORes},
    writeAllLoop fuel buf t = (rest, t', res) → WOut t t' (oStop res) := by
  intro fuel
  induction fuel with
  | zero => intro buf t rest t' res h; simp only [writeAllLoop] at h; cases h; exact .clean (.refl _) _
  | succ n ih =>
    intro buf t rest t' res h
    simp only [writeAllLoop] at h
    split at h
    · cases h; exact .clean (.refl _) _
    · split at h
      · cases h; exact write_wout ‹_›
      · cases h; exact write_wout ‹_›
      · cases h; exact write_wout ‹_›
      · rename_i hne _
        exact WOut.pre (write_ok_clean ‹_› (fun h0 => hne (by rw [h0]))) (ih _ _ h)

theorem outLoop_wout : ∀ (fuel : Nat) (sp : Str.Parser) (t : Transport) {sp' : Str.Parser} {t' : Transport} {res : ORes},
    outLoop fuel sp t = (sp', t', res) → WOut t t' (oStop res) := by
  intro fuel
  induction fuel with
  | zero => intro sp t sp' t' res h; simp only [outLoop] at h; cases h; exact .clean (.refl _) _
  | succ n ih =>
    intro sp t sp' t' res h
    simp only [outLoop] at h
    split at h
    · cases h; exact .clean (.refl _) _
    · split at h
      · cases h; exact write_wout ‹_›
      · cases h; exact write_wout ‹_›
      · cases h; exact write_wout ‹_›
      · rename_i hne _
        exact WOut.pre (write_ok_clean ‹_› (fun h0 => hne (by rw [h0]))) (ih _ _ h)

theorem writeLoop_wout : ∀ (fuel : Nat) (w : Writer) (head buf : Bytes) (t : Transport)
    {w' : Writer} {t' : Transport} {res : WRes},
    writeLoop fuel w head buf t = (w', t', res) → WOut t t' (wStop res) := by
  intro fuel
  induction fuel with
  | zero => intro w head buf t w' t' res h; simp only [writeLoop] at h; cases h; exact .clean (.refl _) _
  | succ n ih =>
    intro w head buf t w' t' res h
    simp only [writeLoop] at h
    split at h
    · cases h; exact .clean (.refl _) _
    · split at h
      · cases h; exact .clean (.refl _) _
      · split at h
        · cases h; exact writeV_wout' ‹_›
        · cases h; exact writeV_wout' ‹_›
        · cases h; exact writeV_wout' ‹_›
        · rename_i hne _
          have hc := writeV_ok_clean ‹_› (fun h0 => hne (by rw [h0]))
          split at h
          · cases h; exact .clean hc _
          · exact WOut.pre hc (ih _ _ _ _ h)

theorem pollWrite_wout {w : Writer} {me : Nat} {buf : Bytes} {m : MutexSt} {t : Transport}
    {w' : Writer} {m' : MutexSt} {t' : Transport} {res : WRes}
    (h : w.pollWrite me buf m t = (w', m', t', res)) : WOut t t' (wStop res) := by
  simp only [Writer.pollWrite] at h
  split at h
  · cases h; exact .clean (.refl _) _
  · split at h
    · cases h; exact .clean (.refl _) _
    · split at h
      · cases h; exact .clean (.refl _) _
      · split at h
        · cases h; exact .clean (.refl _) _
        · split at h
          · cases h; exact .clean (.refl _) _
          · split at h
            · cases h; exact .clean (writeLoop_wout _ _ _ _ _ ‹_›).toClean _
            · cases h; exact writeLoop_wout _ _ _ _ _ ‹_›

theorem pollFlush_wout {w : Writer} {me : Nat} {m : MutexSt} {t : Transport}
    {w' : Writer} {m' : MutexSt} {t' : Transport} {res : WRes}
    (h : w.pollFlush me m t = (w', m', t', res)) : WOut t t' (wStop res) := by
  simp only [Writer.pollFlush] at h
  repeat' (split at h)
  all_goals first
    | (cases h; exact .clean (.refl _) _)
    | (cases h; exact flush_wout ‹_›)
    | (cases h; exact .clean (flush_wout ‹_›).toClean _)

theorem pollOutput_wout {r : AReq} {m : MutexSt} {t : Transport}
    {r' : AReq} {m' : MutexSt} {t' : Transport} {res : ORes}
    (h : r.pollOutput m t = (r', m', t', res)) : WOut t t' (oStop res) := by
  simp only [AReq.pollOutput] at h
  repeat' (split at h)
  all_goals first
    | (cases h; exact .clean (.refl _) _)
    | (cases h; exact outLoop_wout _ _ _ ‹_›)

/-! ## `poll_input`, `writeable()`, `record_boundary()` -/

theorem inLoop_wout : ∀ (fuel : Nat) (r : AReq) (new : Bytes) (dest : Option Nat) (m : MutexSt) (t : Transport)
    {r' : AReq} {m' : MutexSt} {t' : Transport} {res : IRes},
    inLoop fuel r new dest m t = (r', m', t', res) → WOut t t' (iStop res) := by
  intro fuel
  induction fuel with
  | zero => intro r new dest m t r' m' t' res h; simp only [inLoop] at h; cases h; exact .clean (.refl _) _
  | succ n ih =>
    intro r new dest m t r' m' t' res h
    simp only [inLoop] at h
    repeat' (split at h)
    all_goals first
      | (cases h; exact .clean (.refl _) _)
      | (cases h; exact pollOutput_wout ‹_›)
      | (cases h; exact .clean ((pollOutput_wout ‹_›).toClean.trans (read_clean ‹_›)) _)
      | exact WOut.pre ((pollOutput_wout ‹_›).toClean.trans (read_clean ‹_›)) (ih _ _ _ _ _ h)

theorem pollInput_wout {r : AReq} {dest : Option Nat} {m : MutexSt} {t : Transport}
    {r' : AReq} {m' : MutexSt} {t' : Transport} {res : IRes}
    (h : r.pollInput dest m t = (r', m', t', res)) : WOut t t' (iStop res) := by
  simp only [AReq.pollInput] at h
  repeat' (split at h)
  all_goals first
    | (cases h; exact .clean (.refl _) _)
    | (cases h; exact pollOutput_wout ‹_›)
    | exact WOut.pre (pollOutput_wout ‹_›).toClean (inLoop_wout _ _ _ _ _ _ h)

theorem writeablePoll_wout {r : AReq} {started : Bool} {m : MutexSt} {t : Transport}
    {r' : AReq} {b : Bool} {m' : MutexSt} {t' : Transport} {res : ORes}
    (h : r.writeablePoll started m t = (r', b, m', t', res)) : WOut t t' (oStop res) := by
  simp only [AReq.writeablePoll] at h
  repeat' (split at h)
  all_goals first
    | (cases h; exact .clean (.refl _) _)
    | (cases h; exact pollInput_wout ‹_›)
    | (cases h; exact .clean (pollInput_wout ‹_›).toClean _)

theorem boundaryCont_clean {n : Nat}
    (ih : ∀ (sp : Str.Parser) (new : Bytes) (t : Transport) {sp' : Str.Parser} {t' : Transport} {res : ORes},
      boundaryLoop n sp new t = (sp', t', res) → Clean t t')
    {sp : Str.Parser} {t : Transport} {sp' : Str.Parser} {t' : Transport} {res : ORes}
    (h : boundaryLoop.cont sp t n = (sp', t', res)) : Clean t t' := by
  simp only [boundaryLoop.cont] at h
  repeat' (split at h)
  all_goals first
    | (cases h; first | exact .refl _ | exact read_clean ‹_›)
    | exact (read_clean ‹_›).trans (ih _ _ _ h)

theorem boundaryLoop_clean : ∀ (fuel : Nat) (sp : Str.Parser) (new : Bytes) (t : Transport)
    {sp' : Str.Parser} {t' : Transport} {res : ORes},
    boundaryLoop fuel sp new t = (sp', t', res) → Clean t t' := by
  intro fuel
  induction fuel with
  | zero => intro sp new t sp' t' res h; simp only [boundaryLoop] at h; cases h; exact .refl _
  | succ n ih =>
    intro sp new t sp' t' res h
    simp only [boundaryLoop] at h
    repeat' (split at h)
    all_goals first
      | (cases h; exact .refl _)
      | exact boundaryCont_clean ih h

theorem closeBoundary_clean {sp : Str.Parser} {resume : Bool} {t : Transport}
    {sp' : Str.Parser} {t' : Transport} {res : ORes}
    (h : closeBoundary sp resume t = (sp', t', res)) : Clean t t' := by
  simp only [closeBoundary] at h
  repeat' (split at h)
  all_goals first
    | (cases h; first | exact .refl _ | exact read_clean ‹_›)
    | exact boundaryLoop_clean _ _ _ _ h
    | exact (read_clean ‹_›).trans (boundaryLoop_clean _ _ _ _ h)

/-! ## `close` -/

theorem errStop_false {e : IoErr} (h : (e == IoErr.abortRequest) = true) : errStop e = false := by
  have : e = .abortRequest := by simpa using h
  subst this; rfl

theorem closeP1_wout {r : AReq} {st : CloseSt} {m : MutexSt} {t : Transport} :
    (∀ {r1 m1 t1 st1}, closeP1 r st m t = .ok (r1, m1, t1, st1) → Clean t t1) ∧
    (∀ {r' cs' m' t' res}, closeP1 r st m t = .error (r', cs', m', t', res) → WOut t t' (cStop res)) := by
  constructor
  all_goals
    intros
    rename_i h
    simp only [closeP1] at h
    repeat' (split at h)
    all_goals first
      | (cases h; exact Clean.refl _)
      | (have hp := writeablePoll_wout ‹_›
         cases h
         first
          | exact hp.toClean
          | (rw [show oStop (ORes.err _) = errStop _ from rfl, errStop_false ‹_›] at hp; exact hp.toClean)
          | exact .clean hp.toClean _
          | (rcases hp with hp | ⟨hp, _⟩
             · exact Or.inl hp
             · exact Or.inr ⟨hp, rfl⟩))
      | cases h

theorem closeP2_wout {r : AReq} {m : MutexSt} {t : Transport} {st : CloseSt} :
    (∀ {r2 m2 t2 st2}, closeP2 r m t st = .ok (r2, m2, t2, st2) → Clean t t2) ∧
    (∀ {r' cs' m' t' res}, closeP2 r m t st = .error (r', cs', m', t', res) → Clean t t') := by
  constructor
  all_goals
    intros
    rename_i h
    simp only [closeP2] at h
    repeat' (split at h)
    all_goals (cases h <;> first | exact .refl _ | exact closeBoundary_clean ‹_›)

theorem finishEnd_wout {r : AReq} {rest : Bytes} {m : MutexSt} {t : Transport}
    {r' : AReq} {cs' : CloseSt} {m' : MutexSt} {t' : Transport} {res : CRes}
    (h : closePoll.finishEnd r rest m t = (r', cs', m', t', res)) : WOut t t' (cStop res) := by
  simp only [closePoll.finishEnd] at h
  repeat' (split at h)
  all_goals first
    | (have hp := writeAllLoop_wout _ _ _ ‹_›
       cases h
       first
        | exact .clean hp.toClean _
        | (rcases hp with hp | ⟨hp, _⟩
           · exact Or.inl hp
           · exact Or.inr ⟨hp, rfl⟩))

theorem closeP4_wout {r : AReq} {st : CloseSt} {m : MutexSt} {t : Transport}
    {r' : AReq} {cs' : CloseSt} {m' : MutexSt} {t' : Transport} {res : CRes}
    (h : closeP4 r m t st = (r', cs', m', t', res)) : WOut t t' (cStop res) := by
  simp only [closeP4] at h
  repeat' (split at h)
  all_goals first
    | (cases h; exact .clean (.refl _) _)
    | exact finishEnd_wout h
    | exact WOut.pre (writeAllLoop_wout _ _ _ ‹_›).toClean (finishEnd_wout h)
    | (have hp := writeAllLoop_wout _ _ _ ‹_›
       cases h
       first
        | exact .clean hp.toClean _
        | (rcases hp with hp | ⟨hp, _⟩
           · exact Or.inl hp
           · exact Or.inr ⟨hp, rfl⟩))

/-- One poll of `close`: clean, or the failing call was the last one and `close` returns an error. -/
theorem closePoll_wout {r : AReq} {st : CloseSt} {status : ExitStatus} {alive : Nat} {m : MutexSt} {t : Transport}
    {r' : AReq} {cs' : CloseSt} {m' : MutexSt} {t' : Transport} {res : CRes}
    (h : closePoll r st status alive m t = (r', cs', m', t', res)) : WOut t t' (cStop res) := by
  rw [closePoll_eq] at h
  split at h
  · subst h; exact closeP1_wout.2 ‹_›
  · have h1 := closeP1_wout.1 ‹closeP1 r st m t = _›
    split at h
    · subst h; exact .clean (h1.trans (closeP2_wout.2 ‹_›)) _
    · have h2 := h1.trans (closeP2_wout.1 ‹closeP2 _ _ _ _ = _›)
      split at h
      · subst h; have := closeP3_le.2 ‹closeP3 _ _ _ _ _ _ = _›; subst this; exact .clean h2 _
      · have := closeP3_le.1 ‹closeP3 _ _ _ _ _ _ = _›; subst this
        exact WOut.pre h2 (closeP4_wout h)

/-! ## The handler interpreter (propagating) -/

theorem handlerPoll_propagate : ∀ (fuel : Nat) (r : AReq) (h : HState) (e : Env)
    {r' : AReq} {h' : HState} {e' : Env} {res : HRes},
    handlerPoll fuel r h e = (r', h', e', res) → h'.propagate = h.propagate := by
  intro fuel
  induction fuel with
  | zero => intro r h e r' h' e' res hh; simp only [handlerPoll] at hh; cases hh; rfl
  | succ n ih =>
    intro r h e r' h' e' res hh
    simp only [handlerPoll] at hh
    repeat' (split at hh)
    all_goals first
      | (cases hh; rfl)
      | (have h1 := ih _ _ _ hh; exact h1)

macro "hw_clean" : tactic => `(tactic| first
  | exact Clean.of_eq rfl rfl rfl
  | (have h1 := pollWrite_wout ‹_›; exact h1.toClean.trans (Clean.of_eq rfl rfl rfl))
  | (have h1 := pollFlush_wout ‹_›; exact h1.toClean.trans (Clean.of_eq rfl rfl rfl))
  | (have h1 := pollInput_wout ‹_›; exact h1.toClean.trans (Clean.of_eq rfl rfl rfl))
  | (have h1 := writeablePoll_wout ‹_›; exact h1.toClean.trans (Clean.of_eq rfl rfl rfl)))

theorem WOut.post {t t' t'' : Transport} {s : Bool} (h : WOut t t' s) (hs : WSame t' t'') : WOut t t'' s := by
  rcases h with h | ⟨⟨t1, t2, hc, hf, hw⟩, hst⟩
  · exact Or.inl (h.trans (.frame hs))
  · exact Or.inr ⟨⟨t1, t2, hc, hf, hw.trans hs⟩, hst⟩

/-- One poll of a handler that propagates I/O errors: clean, or the failing call was the last one and
the handler returns that error (which is not the library's abort signal). -/
theorem handlerPoll_wout : ∀ (fuel : Nat) (r : AReq) (h : HState) (e : Env)
    {r' : AReq} {h' : HState} {e' : Env} {res : HRes},
    handlerPoll fuel r h e = (r', h', e', res) → h.propagate = true → WOut e.tr e'.tr (hStop res) := by
  intro fuel
  induction fuel with
  | zero => intro r h e r' h' e' res hh _; simp only [handlerPoll] at hh; cases hh; exact .clean (.refl _) _
  | succ n ih =>
    intro r h e r' h' e' res hh hprop
    simp only [handlerPoll] at hh
    repeat' (split at hh)
    all_goals first
      | exact absurd hprop ‹¬ h.propagate = true›
      | (cases hh
         first
          | exact .clean (.refl _) _
          | (have hp := pollInput_wout ‹_›; exact hp.post ⟨rfl, rfl, rfl⟩)
          | (have hp := writeablePoll_wout ‹_›; exact hp.post ⟨rfl, rfl, rfl⟩)
          | (have hp := pollWrite_wout ‹_›; exact hp.post ⟨rfl, rfl, rfl⟩)
          | (have hp := pollFlush_wout ‹_›; exact hp.post ⟨rfl, rfl, rfl⟩)
          | (refine .clean ?_ _; hw_clean))
      | (refine WOut.pre ?_ (ih _ _ _ hh hprop); hw_clean)

/-! ## The peer's release step and the executor's bookkeeping touch no write-side field -/

theorem release_go_wside : ∀ (fuel : Nat) (e : Env) (any : Bool),
    (Env.release.go fuel e any).1.tr.wr = e.tr.wr ∧ (Env.release.go fuel e any).1.tr.fl = e.tr.fl ∧
    (Env.release.go fuel e any).1.tr.wlog = e.tr.wlog := by
  intro fuel
  induction fuel with
  | zero => intro e any; unfold Env.release.go; exact ⟨rfl, rfl, rfl⟩
  | succ n ih =>
    intro e any
    obtain ⟨tr, mutex, segs⟩ := e
    cases segs with
    | nil => unfold Env.release.go; exact ⟨rfl, rfl, rfl⟩
    | cons p rest =>
      obtain ⟨g, bs⟩ := p
      simp only [Env.release.go]
      split
      · exact ih _ true
      · exact ⟨rfl, rfl, rfl⟩

theorem release_clean (e : Env) : Clean e.tr e.release.1.tr := by
  unfold Env.release
  have := release_go_wside (e.segs.length + 1) e false
  generalize Env.release.go (e.segs.length + 1) e false = x at this
  obtain ⟨e', any⟩ := x
  obtain ⟨h1, h2, h3⟩ := this
  exact Clean.of_eq h1 h2 h3

theorem prePoll_clean (c : Conn) (n : Nat) (sa : Option Nat) : Clean c.env.tr (prePoll c n sa).env.tr := by
  unfold prePoll
  have h : ∀ c0 : Conn, c0.env = c.env →
      Clean c.env.tr (match c0.env.release with
        | (env, _) => ({ c0 with env := ({ env with tr := { env.tr with woken := false } } : Env).ev s!"|{n}" } : Conn)).env.tr := by
    intro c0 h0
    have := release_clean c0.env
    generalize c0.env.release = x at this
    obtain ⟨e', any⟩ := x
    rw [h0] at this
    exact this.trans (Clean.of_eq rfl rfl rfl)
  split
  · exact h _ rfl
  · exact h _ rfl

theorem prePoll_frame (c : Conn) (n : Nat) (sa : Option Nat) :
    (prePoll c n sa).phase = c.phase ∧ (prePoll c n sa).scripts = c.scripts := by
  unfold prePoll
  split <;> exact ⟨rfl, rfl⟩

/-! ## A clean sequence cannot write without consuming an answer while the script is not exhausted

This is what makes `Failed` falsifiable from the two end states: with a non-empty write script every
byte written costs a scripted answer, and the answers are consumed in call order. -/

/-- the write script only shrinks; if it did not shrink (and is not exhausted) nothing was written -/
def Meas (t t' : Transport) : Prop :=
  t'.wr.length ≤ t.wr.length ∧ (t'.wr.length = t.wr.length → t.wr ≠ [] → t'.wlog = t.wlog)

theorem writeV_meas (t : Transport) (sl : List Bytes) (tag : String) : Meas t (t.writeV sl tag).1 := by
  unfold Transport.writeV
  generalize sl.flatten = data
  by_cases hd : data.isEmpty = true
  · simp only [hd, if_true]; exact ⟨Nat.le_refl _, fun _ _ => rfl⟩
  · simp only [hd, Bool.false_eq_true, if_false]
    rcases hwr : t.wr with _ | ⟨a, rest⟩
    · simp only []
      exact ⟨by simp [Transport.ev, hwr], fun _ h => absurd hwr h⟩
    · cases a <;> simp only [] <;>
        exact ⟨by simp [Transport.ev, hwr], fun h _ => by simp [Transport.ev, hwr] at h⟩

theorem flush_wr (t : Transport) : t.flush.1.wr = t.wr := by
  unfold Transport.flush; repeat' split
  all_goals simp [Transport.ev]

theorem Clean.meas {t t' : Transport} (h : Clean t t') : Meas t t' := by
  induction h with
  | frame h => exact ⟨by rw [h.1]; exact Nat.le_refl _, fun _ _ => h.2.2⟩
  | write sl tag _ => exact writeV_meas _ sl tag
  | flush _ => exact ⟨by rw [flush_wr]; exact Nat.le_refl _, fun _ _ => flush_wlog _⟩
  | @trans a b c _ _ ih1 ih2 =>
    refine ⟨Nat.le_trans ih2.1 ih1.1, fun he hne => ?_⟩
    have hb : b.wr.length = a.wr.length := Nat.le_antisymm ih1.1 (he ▸ ih2.1)
    have hbne : b.wr ≠ [] := by
      intro h0; apply hne
      have : a.wr.length = 0 := by rw [← hb, h0]; rfl
      exact List.length_eq_zero_iff.1 this
    rw [ih2.2 (he.trans hb.symm) hbne, ih1.2 hb hne]

/-- a failing call consumes at most one write answer -/
theorem FailCall.wr_len {t1 t2 : Transport} (h : FailCall t1 t2) : t1.wr.length ≤ t2.wr.length + 1 := by
  rcases h with ⟨sl, tag, rfl, -⟩ | ⟨rfl, -⟩
  · unfold Transport.writeV
    generalize sl.flatten = data
    by_cases hd : data.isEmpty = true
    · simp only [hd, if_true, Transport.ev]; omega
    · simp only [hd, Bool.false_eq_true, if_false]
      rcases t1.wr with _ | ⟨a, rest⟩
      · simp [Transport.ev]
      · cases a <;> simp [Transport.ev]
  · rw [flush_wr]; omega

end Fcgi.C12Inv
