import Fcgi.Proofs.E2EFilterStr
/-!
# End-to-end composition (C07/C05) — a Filter left wholly unread, any Data stream

Handler `[.ret st]`, role 3, KEEP_CONN.  `close()`: `writeable()` runs `set_stream(Data)` and
`poll_input(None)` over all of Stdin and on into the Data stream until Data content is buffered or the
Data stream ends (`fg_wpoll`, on `C09E.pollInput_sim_none`); `set_stream(None)` drops what is buffered;
`record_boundary()` runs the parser in ignore mode over the rest of the Data records until it stands
between two records (`bloop_simf`).  The outcome is existential in a split `g.R2 = d₁ ++ s₂` of the
DATA stream's record list.
-/
namespace Fcgi.E2E
open Fcgi Fcgi.Req Fcgi.Str Fcgi.Async Fcgi.Run Fcgi.Spec Fcgi.C09E

/-- all records of the Data stream -/
def Cfg.R2 (g : Cfg) : List Rec := g.body2 ++ [g.term2]

/-- The hypotheses: a Filter, `g.body`/`g.body2` the records of Stdin/Data before their terminators,
the handler is `[.ret st]`. -/
structure FGOK (g : Cfg) : Prop where
  wf : WellFormedPreamble g.p g.recs
  role : g.p.role = 3
  pairs : ∀ q ∈ g.p.pairs, (NV.enc q).length ≤ alignedBufsize g.b
  noise : NoiseFits (alignedBufsize g.b) g.recs
  str : ∀ r ∈ g.R, StdinRec g.p.id r
  hf : NoiseFits (alignedBufsize g.b) g.body
  hb2 : Body g.p.id 8 g.content2 g.body2
  str2 : ∀ r ∈ g.R2, DataRec g.p.id r
  hf2 : NoiseFits (alignedBufsize g.b) g.body2
  hp2 : g.pad2.length < 256
  hX2 : g.X2 = serAll g.body2 ++ g.term2.ser
  hX : g.X = serAll g.body ++ (g.term.ser ++ g.X2)
  hs : g.hscript = [.ret g.st]

theorem FGOK.fok {g : Cfg} (ok : FGOK g) : FOK g := ⟨ok.wf, ok.pairs, ok.noise⟩
theorem FGOK.hid {g : Cfg} (ok : FGOK g) : g.p.id < 65536 := (pid_of_wf ok.wf).2
theorem FGOK.term2_wf {g : Cfg} (ok : FGOK g) : g.term2.WF := ⟨ok.hid, by simp [Cfg.term2], ok.hp2⟩

theorem FGOK.XR {g : Cfg} (ok : FGOK g) : g.X = serAll g.R ++ serAll g.R2 := by
  rw [ok.hX, ok.hX2, Cfg.R, Cfg.R2]
  simp only [C02.serAll_append, C02.serAll_single, List.append_assoc]

theorem FGOK.front {g : Cfg} (ok : FGOK g) {us : List Rec} (hu : LeftOK (alignedBufsize g.b) us) : FGOK (g.front us) :=
  ⟨wf_idle ok.wf us hu.1, ok.role, ok.pairs, noiseFits_app hu.2 ok.noise, ok.str, ok.hf, ok.hb2, ok.str2, ok.hf2,
    ok.hp2, ok.hX2, ok.hX, ok.hs⟩

theorem FGOK.fits2 {g : Cfg} (ok : FGOK g) : NoiseFits g.cap g.R2 := by
  intro r hr hg
  rcases List.mem_append.1 hr with hr | hr
  · exact ok.hf2 r hr hg
  · rw [List.mem_singleton.1 hr] at hg
    exact absurd hg.1 (by simp [Cfg.term2, RT.getValues])

theorem FGOK.ctx {g : Cfg} (ok : FGOK g) : R2fCtx g.p.id g.mc g.cap g.R2 :=
  ⟨ok.str2, ok.hid, ok.fits2, by have := cap24 g; omega⟩

/-- the reference of the Data stream behind any suffix of the Stdin records -/
theorem FGOK.ref8 {g : Cfg} (ok : FGOK g) {A : List Rec} (hA : ∀ r ∈ A, StdinRec g.p.id r) :
    refWire (E8 g.p.id g.mc) (serAll (A ++ g.R2)) =
      ⟨g.content2, owedI g.p.id g.mc A ++ owedStream g.p.id 8 g.mc g.body2, .eos, g.term2.ser⟩ := by
  have hcls : rclass (E8 g.p.id g.mc) g.term2 = .endStream := by simp [rclass, Cfg.term2, RT.isInputStream]
  have href2 := refWire_stream (E8 g.p.id g.mc) (Or.inr rfl) ok.hid ok.hb2 g.term2 ok.term2_wf hcls []
    (fun _ h => nomatch h)
  rw [C02.serAll_append, refWire8_stdin g.p.id g.mc hA, Cfg.R2, href2]
  simp only [RefOut.pre, List.nil_append, C02.serAll_single]

theorem FGOK.kok {g : Cfg} (ok : FGOK g) : g.K8u.OK := by
  have hwf : ∀ r ∈ g.R ++ g.R2, r.WF := by
    intro r hr
    rcases List.mem_append.1 hr with hr | hr
    · exact (ok.str r hr).1
    · exact (ok.str2 r hr).1
  have href : refWire (E8 g.p.id g.mc) g.X =
      ⟨g.content2, owedI g.p.id g.mc g.R ++ owedStream g.p.id 8 g.mc g.body2, .eos, g.term2.ser⟩ := by
    rw [ok.XR, ← C02.serAll_append]; exact ok.ref8 ok.str
  refine ⟨href, ?_, by have := cap24 g; show 8 ≤ g.cap; omega⟩
  intro G hG hv
  have hG' : G <+: g.X := hG
  rw [ok.XR, ← C02.serAll_append] at hG'
  refine stream_fits (E8 g.p.id g.mc) _ hwf (by rw [C02.serAll_append, ← ok.XR, href]; intro h; cases h)
    (by have := cap24 g; show 8 ≤ alignedBufsize g.b; exact Nat.le_trans (by omega) this) ?_ G hG' hv
  intro r hr hg
  rcases List.mem_append.1 hr with hr | hr
  · rcases List.mem_append.1 hr with hr | hr
    · exact ok.hf r hr hg
    · rw [List.mem_singleton.1 hr] at hg
      exact absurd hg.1 (by simp [Cfg.term, RT.getValues])
  · exact ok.fits2 r hr hg

/-! ## Stages -/

/-- `close`, suspended in `writeable()` -/
def WStageP (g : Cfg) (c : Conn) : Prop :=
  ∃ r dO, c.phase = .closing r .inWriteable g.st 0 ∧ RSt g.K8u g.L1 [] r c.env.mutex c.env.tr [] dO ∧
    Pos (g.R ++ g.R2) r.sp.raw r.sp.pay r.sp.pad c.env.tr.input ∧
    Ben c.env.tr ∧ c.stop = false ∧ Ev1 g c.env.tr ∧ c.scripts = g.more

/-- `close`, suspended in the transport read of `record_boundary()` -/
def GBStage (g : Cfg) (c : Conn) : Prop :=
  ∃ r dO, c.phase = .closing r .inBoundary g.st 0 ∧
    (∃ G, R2f g.p.id g.mc g.cap g.R2 (owedI g.p.id g.mc g.R) r.sp G c.env.tr.input dO) ∧
    r.sp.request = g.p.request ∧ r.sp.maxConns = g.mc ∧ r.lock = .none ∧ r.writeable = true ∧
    c.env.mutex = none ∧ (∃ O1, c.env.tr.wlog = g.L1 ++ O1 ∧ O1 ++ r.sp.output = dO) ∧
    r.sp.isRecordBoundary = false ∧ r.sp.raw.length < g.cap ∧ r.sp.g0 = 0 ∧ r.sp.g1 = 0 ∧
    c.env.tr.input ≠ [] ∧ Ben c.env.tr ∧ c.stop = false ∧ Ev1 g c.env.tr ∧ c.scripts = g.more

def SG (g : Cfg) (c : Conn) : Prop :=
  FStage g c ∨ WStageP g c ∨ GBStage g c ∨
    ∃ d1 s2, g.R2 = d1 ++ s2 ∧ LStage (gC g (g.R ++ d1) s2) c

/-- `close` is done: the Stdin records and the Data records `d₁` are consumed, `serAll s₂` is left -/
def AG (g : Cfg) (c : Conn) : Prop := ∃ d1 s2, g.R2 = d1 ++ s2 ∧ AfterU (gC g (g.R ++ d1) s2) c

theorem SG.cong {g : Cfg} {c c' : Conn} (h : SG g c)
    (hph : c'.phase = c.phase) (hsc : c'.scripts = c.scripts) (hstop : c'.stop = c.stop)
    (hm : c'.env.mutex = c.env.mutex) (hs : TrSame c.env.tr c'.env.tr) : SG g c' := by
  rcases h with h | ⟨r, dO, h1, h2, h3, h4, h5, h6, h7⟩ |
    ⟨r, dO, h1, h2, h3, h4, h5, h6, h7, h8, h9, h10, h11, h12, h13, h14, h15, h16, h17⟩ | ⟨d1, s2, hsp, h⟩
  · exact Or.inl (h.cong hph hsc hstop hm hs)
  · exact Or.inr (Or.inl ⟨r, dO, hph.trans h1, h2.cong hm hs, by rw [hs.input]; exact h3, hs.ben h4, hstop.trans h5,
      hs.ev1 h6, hsc.trans h7⟩)
  · exact Or.inr (Or.inr (Or.inl ⟨r, dO, hph.trans h1, by rw [hs.input]; exact h2, h3, h4, h5, h6, hm.trans h7,
      by rw [hs.wlog]; exact h8, h9, h10, h11, h12, by rw [hs.input]; exact h13, hs.ben h14, hstop.trans h15,
      hs.ev1 h16, hsc.trans h17⟩))
  · exact Or.inr (Or.inr (Or.inr ⟨d1, s2, hsp, h.cong hph hsc hstop hm hs⟩))

/-! ## `record_boundary()` -/

/-- **`record_boundary()` returned**: the rest of that poll of `close` (the mutex is free by then). -/
theorem fboundary_out {g : Cfg} (ok : FGOK g) (hk : g.p.flags.toNat % 2 = 1) {c : Conn} {r r' : AReq} {cs : CloseSt}
    {sp0 sp' : Str.Parser} {t' : Transport} {res : ORes} {dO : Bytes}
    (hph : c.phase = .closing r cs g.st 0)
    (heq : closePoll r cs g.st 0 c.env.mutex c.env.tr = closeTail r' none g.st (sp', t', res))
    (hts : TStep c.env.tr t')
    (hend : BEndf g.p.id g.mc g.cap g.R2 (owedI g.p.id g.mc g.R) sp0 sp' dO t')
    (hreq : sp0.request = g.p.request) (hmc : sp0.maxConns = g.mc)
    (hres : (res = .ready ∧ sp'.isRecordBoundary = true) ∨
       (res = .pending ∧ t'.woken = true ∧ ans t' < ans c.env.tr ∧ sp'.isRecordBoundary = false ∧
          sp'.raw.length < g.cap ∧ sp'.g0 = 0 ∧ sp'.g1 = 0 ∧ t'.input ≠ []))
    (hlk : r'.lock = .none) (hwr : r'.writeable = true)
    (hlog : ∃ O1, t'.wlog = g.L1 ++ O1 ∧ O1 ++ sp0.output = dO)
    (hb : Ben c.env.tr) (hstop : c.stop = false) (hev : Ev1 g c.env.tr) (hsc : c.scripts = g.more) :
    GRes (SG g) (AG g) 2 c := by
  obtain ⟨⟨o, G', ho, hr2⟩, hreq', hmc'⟩ := hend
  obtain ⟨O1, hl1, hl2⟩ := hlog
  have hlog' : ∃ O1, t'.wlog = g.L1 ++ O1 ∧ O1 ++ sp'.output = dO ++ o :=
    ⟨O1, hl1, by rw [ho, ← List.append_assoc, hl2]⟩
  rcases hres with ⟨rfl, hbd⟩ | ⟨rfl, hwk, hans, hnb, hraw, hg0, hg1, hin⟩
  · -- at a record boundary: the split
    have hpay : sp'.pay = 0 ∧ sp'.pad = 0 := by
      simpa [Str.Parser.isRecordBoundary] using hbd
    obtain ⟨cc, pd, s2, hcc, hpd, hw, ⟨d1, hsuf⟩⟩ := hr2.ign.pos
    rw [hpay.1] at hcc
    rw [hpay.2] at hpd
    have hcc' : cc = [] := List.length_eq_zero_iff.1 hcc
    have hpd' : pd = [] := List.length_eq_zero_iff.1 hpd
    rw [hcc', hpd', List.nil_append, List.nil_append] at hw
    have hsp : g.R2 = d1 ++ s2 := hsuf.symm
    have hctx := ok.ctx
    obtain ⟨_, hout, _⟩ := hr2.now hctx
    have hrem : Rem (E1 g.p.id g.mc) (view1 sp') t'.input = refWire (E1 g.p.id g.mc) (serAll s2) := by
      show ref (E1 g.p.id g.mc) (view1 sp').state (view1 sp').pay (view1 sp').pad ((view1 sp').raw ++ t'.input) = _
      have e1 : (view1 sp').pay = 0 := hpay.1
      have e2 : (view1 sp').pad = 0 := hpay.2
      have e3 : (view1 sp').raw = sp'.raw := rfl
      rw [e1, e2, e3, hw]
      exact ref_eq_refWire (E1 g.p.id g.mc) _ _
    have hs2 : ∀ r ∈ s2, DataRec g.p.id r := fun r hr => ok.str2 r (by rw [hsp]; exact List.mem_append_right _ hr)
    rw [hrem, refWire_view1 g.p.id g.mc hs2] at hout
    have hdO : dO ++ o = owedI g.p.id g.mc (g.R ++ d1) := by
      have : owedI g.p.id g.mc g.R ++ owedI g.p.id g.mc g.R2 =
          owedI g.p.id g.mc (g.R ++ d1) ++ owedI g.p.id g.mc s2 := by
        rw [hsp]; simp [owedI, List.flatMap_append]
      rw [this] at hout
      exact List.append_cancel_right hout
    obtain ⟨O1', hl1', hl2'⟩ := hlog'
    have hepi : epilogueOf { r' with sp := sp' } g.st = (gC g (g.R ++ d1) s2).epi := by
      simp only [epilogueOf, hwr, if_true, Cfg.epi, outputStreams]
      show makeRequestEpilogue sp'.request.id g.st _ = _
      rw [hreq', hreq]; rfl
    have heq' : closePoll r cs (gC g (g.R ++ d1) s2).st 0 c.env.mutex c.env.tr =
        closeP4 { sp := sp', lock := .none, writeable := r'.writeable } none t'
          (.writeOut sp'.output (gC g (g.R ++ d1) s2).epi) := by
      show closePoll r cs g.st 0 c.env.mutex c.env.tr = _
      rw [heq, ← hepi]
      simp only [closeTail, closeP2Tail, closeP3_start, Nat.lt_irrefl, gt_iff_lt, if_false, hlk, lockDrop]
    have hrawlen : sp'.raw.length ≤ g.cap := by
      have := hr2.sinv.1
      have e : (view1 sp').freeStart = sp'.freeStart := rfl
      have e2 : (view1 sp').cap = sp'.cap := rfl
      rw [e, e2, hr2.capK] at this
      simp only [Str.Parser.freeStart] at this
      omega
    have hce : CEndW (gC g (g.R ++ d1) s2) { sp := sp', lock := .none, writeable := r'.writeable } t'.input :=
      ⟨hpay.1, hpay.2, hw, hreq'.trans hreq, hr2.capK, hmc'.trans hmc, hrawlen⟩
    have hU := uclose_out_m (g := gC g (g.R ++ d1) s2) hph heq' hts hce
      (by rw [gC_LU, hl1', ← hdO, ← hl2']; simp only [List.append_assoc]; rfl) hb hstop hev hsc
    exact (URes2.toG (g := gC g (g.R ++ d1) s2) hk hU).imp
      (fun _ _ h => Or.inr (Or.inr (Or.inr ⟨d1, s2, hsp, h⟩))) (fun _ _ h => ⟨d1, s2, hsp, h⟩)
  · -- suspended in the read
    have hstep := C07.closing_step c r cs g.st 0 hph
    rw [heq] at hstep
    have hstep' : stepConn c = .halt (mkC0 c (.closing { r' with sp := sp' } .inBoundary g.st 0) t') .pending := hstep
    refine Or.inl ⟨_, (Halts.now hstep').mono (by omega), mkC0_link c _ hts, ?_, hwk, hans⟩
    exact Or.inr (Or.inr (Or.inl ⟨{ r' with sp := sp' }, dO ++ o, rfl, ⟨G', hr2⟩, hreq'.trans hreq, hmc'.trans hmc,
      hlk, hwr, rfl, hlog', hnb, hraw, hg0, hg1, hin, hb.step hts, hstop, hev.step hts, hsc⟩))

/-- a poll that resumes `close` inside `record_boundary()` -/
theorem fb_poll {g : Cfg} (ok : FGOK g) (hk : g.p.flags.toNat % 2 = 1) {c : Conn} {r : AReq} {dO : Bytes}
    (hph : c.phase = .closing r .inBoundary g.st 0)
    (hr2 : ∃ G, R2f g.p.id g.mc g.cap g.R2 (owedI g.p.id g.mc g.R) r.sp G c.env.tr.input dO)
    (hreq : r.sp.request = g.p.request) (hmc : r.sp.maxConns = g.mc)
    (hlk : r.lock = .none) (hwr : r.writeable = true) (hm : c.env.mutex = none)
    (hlog : ∃ O1, c.env.tr.wlog = g.L1 ++ O1 ∧ O1 ++ r.sp.output = dO)
    (hnb : r.sp.isRecordBoundary = false) (hraw : r.sp.raw.length < g.cap) (hg0 : r.sp.g0 = 0)
    (hg1 : r.sp.g1 = 0) (hin : c.env.tr.input ≠ [])
    (hb : Ben c.env.tr) (hstop : c.stop = false) (hev : Ev1 g c.env.tr) (hsc : c.scripts = g.more) :
    GRes (SG g) (AG g) 2 c := by
  have hctx := ok.ctx
  obtain ⟨G, hr2⟩ := hr2
  have heq0 : closePoll r .inBoundary g.st 0 c.env.mutex c.env.tr =
      closeTail r none g.st (closeBoundary r.sp true c.env.tr) := by
    have := closePoll_bound_tail r c.env.mutex c.env.tr g.st
    rw [hm] at this ⊢
    exact this
  have hfree : r.sp.free = g.cap - r.sp.raw.length := by
    simp [Str.Parser.free, Str.Parser.freeStart, hr2.par, hr2.capK, hg0, hg1]
  have hfp : 0 < r.sp.free := by rw [hfree]; omega
  have hend0 : BEndf g.p.id g.mc g.cap g.R2 (owedI g.p.id g.mc g.R) r.sp r.sp dO c.env.tr :=
    ⟨⟨[], G, (List.append_nil _).symm, by rw [List.append_nil]; exact hr2⟩, rfl, rfl⟩
  rcases hrd : c.env.tr.read r.sp.free with ⟨t1, x⟩
  cases x with
  | pending =>
    have hwl : t1.wlog = c.env.tr.wlog := by have := read_wlog c.env.tr r.sp.free; rwa [hrd] at this
    obtain ⟨hinp, hw | hw⟩ := read_pending hb hrd
    · have hcb : closeBoundary r.sp true c.env.tr = (r.sp, t1, .pending) := by simp [closeBoundary, hrd]
      rw [hcb] at heq0
      exact fboundary_out ok hk (sp0 := r.sp) (dO := dO) hph heq0 (read_tstep hrd)
        ⟨⟨[], G, (List.append_nil _).symm, by rw [List.append_nil]; exact hr2.input hinp⟩, rfl, rfl⟩ hreq hmc
        (Or.inr ⟨rfl, hw.1, hw.2, hnb, hraw, hg0, hg1, by rw [hinp]; exact hin⟩) hlk hwr
        (by obtain ⟨O1, h1, h2⟩ := hlog; exact ⟨O1, hwl.trans h1, h2⟩) hb hstop hev hsc
    · exact absurd hw.1 hin
  | ready y =>
    cases y with
    | error e => exact (read_error hb hrd).elim
    | ok bs =>
      obtain ⟨hinp, hwl, hlen, hz⟩ := read_ok_ben hb hrd
      by_cases hbs : bs = []
      · rcases hz hbs with hz | hz
        · omega
        · exact absurd hz.1 hin
      · have hs1 := read_tstep hrd
        rcases hbl : boundaryLoop (t1.input.length + 2) r.sp bs t1 with ⟨sp', t', res⟩
        have hcb : closeBoundary r.sp true c.env.tr = (sp', t', res) := by
          cases bs with
          | nil => exact absurd rfl hbs
          | cons b0 bs' => simp [closeBoundary, hrd, hbl]
        rw [hcb] at heq0
        obtain ⟨q1, q2, q3, q4⟩ := bloop_simf hctx _ _ bs t1 (hb.step hs1) (hr2.input (by rw [← hinp]))
          hlen (Nat.le_refl _) hbl
        refine fboundary_out ok hk (sp0 := r.sp) (dO := dO) hph heq0 (hs1.trans q1) q3 hreq hmc ?_
          hlk hwr (by obtain ⟨O1, h1, h2⟩ := hlog; exact ⟨O1, (q2.trans hwl).trans h1, h2⟩) hb hstop hev hsc
        rcases q4 with q4 | ⟨a, b, c1, d⟩
        · exact Or.inl q4
        · exact Or.inr ⟨a, b, by have := hs1.ans_le; omega, d⟩


/-! ## `writeable()` -/

theorem closePoll_w_tail {r r' : AReq} {cs : CloseSt} {m m' : MutexSt} {t t' : Transport} (st : ExitStatus)
    (h1 : closeP1 r cs m t = .ok (r', m', t', .start)) :
    closePoll r cs st 0 m t = closeTail r' m' st (closeBoundary (spIgnore r'.sp) false t') := by
  rw [closePoll_eq', h1]
  simp only [closeFrom2]
  rw [closeP2_start]
  rfl

/-- **One poll of `close` inside `writeable()`** (its first, or a resumed one). -/
theorem fg_wpoll {g : Cfg} (ok : FGOK g) (hk : g.p.flags.toNat % 2 = 1) {c : Conn} {r r1 : AReq} {cs : CloseSt}
    {dO : Bytes} (hph : c.phase = .closing r cs g.st 0)
    (hp1 : closeP1 r cs c.env.mutex c.env.tr = wTail (r1.pollInput none c.env.mutex c.env.tr))
    (hs : RSt g.K8u g.L1 [] r1 c.env.mutex c.env.tr [] dO)
    (hpos : Pos (g.R ++ g.R2) r1.sp.raw r1.sp.pay r1.sp.pad c.env.tr.input)
    (hb : Ben c.env.tr) (hstop : c.stop = false) (hev : Ev1 g c.env.tr) (hsc : c.scripts = g.more) :
    GRes (SG g) (AG g) 2 c := by
  have hK := ok.kok
  have hwfA : ∀ r ∈ g.R ++ g.R2, r.WF := by
    intro r hr
    rcases List.mem_append.1 hr with hr | hr
    · exact (ok.str r hr).1
    · exact (ok.str2 r hr).1
  rcases hpi : r1.pollInput none c.env.mutex c.env.tr with ⟨r', m', t', res⟩
  obtain ⟨hts, hpost⟩ := pollInput_sim_none hK hb hs hpi
  have hpar1 : r1.sp.parsed = [] := by obtain ⟨G, hi⟩ := hs.inv; exact hi.par
  have hpos' : (∀ s, res ≠ .panic s) → Pos (g.R ++ g.R2) r'.sp.raw r'.sp.pay r'.sp.pad t'.input :=
    pollInput_pos_none hwfA hb hs.lk hs.mx hpar1 hpos hpi
  rw [hpi] at hp1
  cases res with
  | pending =>
    obtain ⟨⟨dO', hs'⟩, hwk, hans⟩ := hpost
    have heq : closePoll r cs g.st 0 c.env.mutex c.env.tr = (r', .inWriteable, m', t', .pending) := by
      rw [closePoll_eq', hp1]; rfl
    have hstep := C07.closing_step c r cs g.st 0 hph
    rw [heq] at hstep
    have hstep' : stepConn c = .halt ⟨.closing r' .inWriteable g.st 0, ⟨t', m', c.env.segs⟩, c.scripts, c.stop⟩ .pending :=
      hstep
    exact Or.inl ⟨_, (Halts.now hstep').mono (by omega), ⟨hts.w, rfl, rfl⟩,
      Or.inr (Or.inl ⟨r', dO', rfl, hs', hpos' (fun s hx => nomatch hx), hb.step hts, hstop, hev.step hts, hsc⟩),
      hwk, hans⟩
  | ready k d =>
    obtain ⟨_, hk', dO', hsB, hlk, hm', hposk, hfin⟩ := hpost
    subst hm'
    have hposR := hpos' (fun s hx => nomatch hx)
    obtain ⟨⟨G, hiB⟩, _, _, ⟨O1, hl1, hl2⟩⟩ := hsB
    have hwr : r'.writeable = true := hfin rfl
    have hstrm : r'.sp.stream = some 8 := hiB.mt.strm
    have hreq : r'.sp.request = g.p.request := hiB.req
    have hp1' : closeP1 r cs c.env.mutex c.env.tr = .ok (r', none, t', .start) := hp1
    by_cases hpar : r'.sp.parsed = []
    · -- nothing buffered: the Data stream has ended, without content
      have hk0 : k = 0 := by rw [hk', hpar]; rfl
      obtain ⟨_, hdO, hpay, hpad, hwire⟩ : AtEnd g.K8u r' t' ([] ++ r'.sp.parsed) dO' := by
        rcases hposk with hp | hp
        · omega
        · exact hp
      have hrb : (spIgnore r'.sp).isRecordBoundary = true := by
        simp [Str.Parser.isRecordBoundary, spIgnore_pay, spIgnore_pad, hpay, hpad]
      have h2 : closeP2 r' none t' .start = .ok ({ r' with sp := spIgnore r'.sp }, none, t', .start) := by
        rw [closeP2_start]
        simp [closeBoundary, hrb, closeP2Tail]
      have hepi : ∀ l, epilogueOf { sp := spIgnore r'.sp, lock := l, writeable := r'.writeable } g.st = (gF g).epi := by
        intro l
        simp only [epilogueOf, hwr, if_true, Cfg.epi, outputStreams]
        show makeRequestEpilogue (spIgnore r'.sp).request.id g.st _ = _
        rw [spIgnore_request, hreq]
        rfl
      have heq : closePoll r cs (gF g).st 0 c.env.mutex c.env.tr =
          closeP4 (closeReq r') none t' (.writeOut r'.sp.output (gF g).epi) := by
        show closePoll r cs g.st 0 c.env.mutex c.env.tr = _
        rw [closePoll_eq, hp1']
        simp only
        rw [h2]
        simp only
        rw [closeP3_start]
        simp only [Nat.lt_irrefl, if_false, gt_iff_lt, hlk, lockDrop, hepi, spIgnore_output]
        rfl
      have hrawlen : r'.sp.raw.length ≤ g.cap := by
        have := hiB.sinv.1
        rw [hiB.capK] at this
        simp only [Str.Parser.freeStart] at this
        have e : g.K8u.cap = g.cap := rfl
        omega
      have hce : CEndW (gF g) (closeReq r') t'.input :=
        ⟨by show (spIgnore r'.sp).pay = 0; rw [spIgnore_pay]; exact hpay,
          by show (spIgnore r'.sp).pad = 0; rw [spIgnore_pad]; exact hpad,
          by show (spIgnore r'.sp).raw ++ t'.input = serAll [g.term2]
             rw [spIgnore_raw, C02.serAll_single]; exact hwire,
          by show (spIgnore r'.sp).request = _; rw [spIgnore_request]; exact hreq,
          by show (spIgnore r'.sp).cap = _; rw [spIgnore_cap]; exact hiB.capK,
          by show (spIgnore r'.sp).maxConns = _; rw [spIgnore_mc]; exact hiB.mt.mc,
          by show (spIgnore r'.sp).raw.length ≤ _; rw [spIgnore_raw]; exact hrawlen⟩
      have hlog : t'.wlog ++ r'.sp.output ++ (gF g).epi = (gF g).LU := by
        rw [gF, gC_LU, hl1, List.append_assoc g.L1, hl2, List.nil_append, hdO]
        have : owedI g.p.id g.mc (g.R ++ g.body2) = g.K8u.O := by
          show _ = owedI g.p.id g.mc g.R ++ owedStream g.p.id 8 g.mc g.body2
          rw [← owedI_eq_owedStream8]; simp [owedI, List.flatMap_append]
        rw [this]; rfl
      exact (URes2.toG (g := gF g) hk (uclose_out_m (g := gF g) hph heq hts hce hlog hb hstop hev hsc)).imp
        (fun _ _ h => Or.inr (Or.inr (Or.inr ⟨g.body2, [g.term2], rfl, h⟩))) (fun _ _ h => ⟨g.body2, [g.term2], rfl, h⟩)
    · -- Data content is buffered: `set_stream(None)`, `record_boundary()`
      have hd : ([] ++ r'.sp.parsed : Bytes) ≠ [] := by simpa using hpar
      have hXR : g.K8u.X = serAll g.R ++ serAll g.R2 := ok.XR
      obtain ⟨Gd, hG⟩ := past_stdin (mc := g.mc) ok.str rfl hXR hiB hd
      have hposD := pos_in_data (mc := g.mc) ok.str hK rfl
        (fun A' hA => by rw [ok.ref8 (fun r hr => ok.str r (hA.subset hr))]; rfl) hiB hd hposR
      subst hG
      have hr2 := r2f_of_switch ok.str ok.ctx rfl hXR rfl hiB hposD
      have hctx := ok.ctx
      have hign : spIgnore r'.sp = r'.sp.switchTo none := by simp [spIgnore, hstrm]
      have heq0 := closePoll_w_tail g.st hp1'
      rw [hign] at heq0
      have hmc : (r'.sp.switchTo none).maxConns = g.mc := hiB.mt.mc
      have hlogt : ∃ O1, t'.wlog = g.L1 ++ O1 ∧ O1 ++ (r'.sp.switchTo none).output = dO' :=
        ⟨O1, hl1, by rw [show (r'.sp.switchTo none).output = r'.sp.output from rfl, hl2]; rfl⟩
      by_cases hbd : (r'.sp.switchTo none).isRecordBoundary = true
      · have hcb : closeBoundary (r'.sp.switchTo none) false t' = (r'.sp.switchTo none, t', .ready) := by
          simp [closeBoundary, hbd]
        rw [hcb] at heq0
        exact fboundary_out ok hk (sp0 := r'.sp.switchTo none) (dO := dO') hph heq0 hts
          ⟨⟨[], Gd, (List.append_nil _).symm, by rw [List.append_nil]; exact hr2⟩, rfl, rfl⟩ hreq hmc (Or.inl ⟨rfl, hbd⟩)
          hlk hwr hlogt hb hstop hev hsc
      · have hbd' : (r'.sp.switchTo none).isRecordBoundary = false := by simpa using hbd
        rcases hbl : boundaryLoop (t'.input.length + 2) (r'.sp.switchTo none) [] t' with ⟨sp', t2, res⟩
        have hcb : closeBoundary (r'.sp.switchTo none) false t' = (sp', t2, res) := by
          simp [closeBoundary, hbd', hbl]
        rw [hcb] at heq0
        obtain ⟨q1, q2, q3, q4⟩ := bloop_simf hctx _ _ [] t' (hb.step hts) (by rw [List.nil_append]; exact hr2)
          (Nat.zero_le _) (Nat.le_refl _) hbl
        refine fboundary_out ok hk (sp0 := r'.sp.switchTo none) (dO := dO') hph heq0 (hts.trans q1) q3 hreq hmc ?_
          hlk hwr (by obtain ⟨O1', h1, h2⟩ := hlogt; exact ⟨O1', q2.trans h1, h2⟩) hb hstop hev hsc
        rcases q4 with q4 | ⟨a, b, c1, d⟩
        · exact Or.inl q4
        · exact Or.inr ⟨a, b, by have := hts.ans_le; omega, d⟩
  | err e => exact hpost.elim
  | panic s => exact hpost.elim

/-- the first poll of the handler `[.ret st]` of the Filter: it returns, `close` starts `writeable()` -/
theorem filterG_first {g : Cfg} (ok : FGOK g) (hk : g.p.flags.toNat % 2 = 1) : FirstPoll g (SG g) (AG g) := by
  intro c e1 hph hlen hwire hlog hm hb hstop hev hsc
  have hrole : g.p.request.role = 3 := ok.role
  have hstep := C07.handler_step c _ _ hph
  obtain ⟨f, hf⟩ : ∃ f, (handlerFuel c.env (AReq.new (Str.Parser.fromParser g.cap g.p.request e1 g.mc)) + scriptOf c) = f + 1 :=
    ⟨(handlerFuel c.env (AReq.new (Str.Parser.fromParser g.cap g.p.request e1 g.mc)) + scriptOf c) - 1, by have := handlerFuel_ge c.env (AReq.new (Str.Parser.fromParser g.cap g.p.request e1 g.mc)); omega⟩
  rw [ok.hs, hf, hp_ret] at hstep
  have hts2 : TStep c.env.tr (c.env.tr.ev s!"HE(ok:{showStatus g.st})") := TStep.ev _ (by simp [isHS, toString_str])
  have hstep' : stepConn c = .next ⟨.closing (AReq.new (Str.Parser.fromParser g.cap g.p.request e1 g.mc)) .start g.st 0,
      c.env.ev s!"HE(ok:{showStatus g.st})", c.scripts, c.stop⟩ := hstep
  have hwr : (AReq.new (Str.Parser.fromParser g.cap g.p.request e1 g.mc)).writeable = false := by
    simp [AReq.new, Str.Parser.fromParser, hrole, inputStreams]
  have hstrm : (Str.Parser.fromParser g.cap g.p.request e1 g.mc).stream = some 5 := by
    simp [Str.Parser.fromParser, hrole, nextInputStream, RT.stdin]
  have hset : (Str.Parser.fromParser g.cap g.p.request e1 g.mc).setStream
      (inputStreams (Str.Parser.fromParser g.cap g.p.request e1 g.mc).request.role).getLast? =
      .ok ((Str.Parser.fromParser g.cap g.p.request e1 g.mc).switchTo (some 8)) := by
    have e : (inputStreams (Str.Parser.fromParser g.cap g.p.request e1 g.mc).request.role).getLast? = some 8 := by
      show (inputStreams g.p.request.role).getLast? = some 8
      rw [hrole]; rfl
    rw [e, setStream_some_input _ (by decide) (by intro e he; rw [hstrm] at he; cases he; decide), hstrm]
    have hl : Later (Str.Parser.fromParser g.cap g.p.request e1 g.mc).request.role (some 5) 8 := by
      show Later g.p.request.role (some 5) 8
      rw [hrole]; exact later358
    simp [hl]
  have hsinv0 := Str.SInv_fromParser g.cap g.p.request e1 g.mc hlen ok.hid
  have hri : RInv g.K8u
      ({ AReq.new (Str.Parser.fromParser g.cap g.p.request e1 g.mc) with
        sp := (Str.Parser.fromParser g.cap g.p.request e1 g.mc).switchTo (some 8) } : AReq)
      e1 c.env.tr.input [] [] := by
    refine ⟨⟨rfl, hrole, rfl, rfl, by show 8 ∈ inputStreams 3; decide⟩,
      SInv_switchTo hsinv0 (Or.inr ⟨8, rfl, by show 8 ∈ inputStreams g.p.request.role; rw [hrole]; decide⟩),
      rfl, rfl, rfl, hwire, fun x => ?_⟩
    rw [RefOut.pre_nil]
    exact (ref_eq_refWire _ _ _).symm
  have hcore := fg_wpoll ok hk
    (c := ⟨.closing (AReq.new (Str.Parser.fromParser g.cap g.p.request e1 g.mc)) .start g.st 0,
      c.env.ev s!"HE(ok:{showStatus g.st})", c.scripts, c.stop⟩) (dO := []) rfl
    (closeP1_first _ _ _ hwr hset)
    ⟨⟨e1, hri⟩, by show LockInv _ c.env.mutex; rw [hm]; exact lockInv_free rfl, Or.inl hm,
      ⟨[], by show c.env.tr.wlog = _; rw [hlog, List.append_nil], rfl⟩⟩
    ⟨[], [], g.R ++ g.R2, rfl, rfl, by
      show e1 ++ c.env.tr.input = [] ++ ([] ++ serAll (g.R ++ g.R2))
      rw [hwire, ok.XR, C02.serAll_append]; rfl, List.suffix_refl _⟩
    (hb.step hts2) hstop (hev.step hts2) hsc
  exact (GRes.of_steps (Steps.one hstep') ⟨hts2.w, rfl, rfl⟩ hcore).mono (by omega)


theorem sg_poll {g : Cfg} (ok : FGOK g) (hk : g.p.flags.toNat % 2 = 1) {c : Conn} (h : SG g c) :
    GRes (SG g) (AG g) (2 * c.env.tr.input.length + 9) c := by
  rcases h with h | ⟨r, dO, h1, h2, h3, h4, h5, h6, h7⟩ |
    ⟨r, dO, h1, h2, h3, h4, h5, h6, h7, h8, h9, h10, h11, h12, h13, h14, h15, h16, h17⟩ | ⟨d1, s2, hsp, h⟩
  · exact fstage_poll ok.fok (fun _ h => Or.inl h) (filterG_first ok hk) h
  · exact (fg_wpoll ok hk h1 (closeP1_resume _ _ _) h2 h3 h4 h5 h6 h7).mono (by omega)
  · exact (fb_poll ok hk h1 h2 h3 h4 h5 h6 h7 h8 h9 h10 h11 h12 h13 h14 h15 h16 h17).mono (by omega)
  · exact ((lstage_poll (g := gC g (g.R ++ d1) s2) hk h).imp
      (fun _ _ h => Or.inr (Or.inr (Or.inr ⟨d1, s2, hsp, h⟩))) (fun _ _ h => ⟨d1, s2, hsp, h⟩)).mono (by omega)

/-- **The executor** for a Filter request with KEEP_CONN whose handler is `[.ret st]`.  `Z`: what the
client will send next; whatever record suffix `s₂` of the Data stream is left over, `serAll s₂ ++ Z`
never fills the buffer and is not final before `Z`. -/
theorem run_filterG {g : Cfg} (ok : FGOK g) (hk : g.p.flags.toNat % 2 = 1) {Z : Bytes}
    (hns : ∀ d1 s2, g.R2 = d1 ++ s2 → NoStuckW g.cap g.mc (serAll s2 ++ Z))
    (hNF : ∀ d1 s2, g.R2 = d1 ++ s2 → ∀ F x, F ++ x ++ Z = serAll s2 ++ Z → (run .header F g.mc).st.isFinal = false)
    (em : EndMode) (evs0 : List String) (c : Conn) (n0 fuel : Nat) (hst : FStage g c)
    (hem : c.env.tr.endMode = em) (hev0 : ∀ s ∈ evs0, s ∈ c.env.tr.events)
    (hsegs : c.env.segs = []) (hf : ans c.env.tr + 1 ≤ fuel) (hlen : 6 * c.env.tr.input.length + 26 ≤ 100000) :
    ∃ c'' fin, runTask fuel c n0 none = (c'', fin) ∧
      GEnd g.cap g.mc Z g.more (g.hs0 + 1) (fun i : List Rec × List Rec => g.R2 = i.1 ++ i.2)
        (fun i => serAll i.2 ++ Z) (fun i => (gC g (g.R ++ i.1) i.2).LU)
        (fun _ => [hsEvent g.p.request]) em evs0 (ans c.env.tr) c'' fin :=
  run_stages (cap24 g) (fun i hi => hns i.1 i.2 hi) (fun i hi => hNF i.1 i.2 hi) (fun _ _ h => h.cong)
    (fun _ h => (sg_poll ok hk h).imp (fun _ _ h => h) (fun _ _ h => by
      obtain ⟨d1, s2, hsp, haf⟩ := h
      obtain ⟨i, _, hzt, hkp⟩ := AfterU.ztail (Z := Z) haf
      exact ⟨(d1, s2), hsp, hzt, hkp⟩))
    em evs0 c n0 fuel (Or.inl hst) hem hev0 hsegs hf hlen

/-- the Filter request started from any `StartAt` of a chain: it ends parked behind a record suffix
`s₂` of its Data stream -/
theorem serve_filterG_core {g : Cfg} (ok : FGOK g) (hk : g.p.flags.toNat % 2 = 1) {left : List Rec}
    (hleft : LeftOK (alignedBufsize g.b) left) {Z : Bytes} (hR : ∀ e ∈ g.R2, IdleNoise e)
    (hZ : ∀ d1 s2, g.R2 = d1 ++ s2 → GoodNext g.cap g.mc s2 Z)
    {Lw : Bytes} {evs : List String} {A0 : Nat} {c : Conn} (n0 fuel : Nat)
    (hLw : Lw = g.L0 ++ idleOwed g.mc left)
    (hstart : StartAt g.cap g.mc left Lw ((g.hscript, true) :: g.more) g.hs0 evs A0 g.W c)
    (hf : A0 + 1 ≤ fuel) (hsize : 6 * g.W.length + 26 ≤ 100000) :
    ∃ c' d1 s2, runTask fuel c n0 none = (c', "STALL") ∧ g.R2 = d1 ++ s2 ∧
      Waiting g.cap g.mc s2 ((gC (g.front left) (g.R ++ d1) s2).LU ++ idleOwed g.mc s2) g.more (g.hs0 + 1)
        (hsEvent g.p.request :: evs) A0 c' := by
  have okf := ok.front hleft
  obtain ⟨hst, hsg, hem, hans, hev, hin⟩ := fstage_of_startAt hleft hLw hstart
  obtain ⟨c', fin, hrun, ⟨d1, s2⟩, hsp, hkp, hem', hev', hans', hsg', hend⟩ :=
    run_filterG okf hk (Z := Z) (fun d1 s2 h => (hZ d1 s2 h).1) (fun d1 s2 h => (hZ d1 s2 h).2) .pend evs c n0 fuel hst hem hev hsg
      (by omega) (by rw [hin]; exact hsize)
  have hsp' : g.R2 = d1 ++ s2 := hsp
  have hs2 : ∀ e ∈ s2, IdleNoise e := fun e he => hR e (by rw [hsp']; exact List.mem_append_right _ he)
  rcases hend with ⟨rfl, hp⟩ | ⟨_, hfn⟩
  · obtain ⟨F, hF, hps, hph, hlg⟩ := hp.pst
    have hFe : F = serAll s2 := List.append_cancel_right hF
    subst hFe
    have hnf : (run .header (serAll s2) g.mc).st.isFinal = false := (run_idle_out g.mc s2 hs2).2.2
    have hob : (run .header (serAll s2) (g.front left).mc).out = idleOwed g.mc s2 :=
      (run_idle_out g.mc s2 hs2).1
    refine ⟨c', d1, s2, hrun, hsp', ⟨hph, hnf, hps.rem, hp.inp, by rw [hlg, hob]; rfl, ⟨(gC (g.front left) (g.R ++ d1) s2).LU, by
      show _ = _ ++ (run .header (serAll s2) (g.front left).mc).out
      rw [hob]⟩, hps.stop, hps.ben, hkp.sc, hkp.mx,
      hkp.hs, ?_, hsg', hem', by omega⟩⟩
    intro s hs
    rcases List.mem_cons.1 hs with rfl | hs
    · exact hkp.ev _ List.mem_cons_self
    · exact hev' s hs
  · rw [hfn.em] at hem'; cases hem'

end Fcgi.E2E
