import Fcgi.Props.C03Str
import Fcgi.Props.C18
import Fcgi.Spec.Streams
import Fcgi.Proofs.ReqRecords
/-!
# Simulation of the input-stream parser against the record-level specification (C02)

The wire is `serAll body ++ tail`: `body` are the data records of the active stream `s` of request
`id` interleaved with noise (`Body id s content body`), and `tail` starts with a record header the
parser must hold back (`EndMark`: the stream's empty record, or a record of a later stream).

* `SimCore` / `Sim` — the wire-position invariant, stated *forward*: what is still to come on the
  wire (`p.raw ++ fut`) is the rest `c` of the current record's payload (`|c| = p.pay`), its padding
  (`|pd| = p.pad`), the not yet started records `rs` and `tail`; `remC` is the stream content these
  still carry, `remO` the replies still owed for them.
* `Inv` — `Sim` plus the two conserved quantities of a `parse` call:
  `delivered so far ++ remC` and `output so far ++ remO`.
* `parsePayload_inv`, `padHead_inv`, `parseHead_inv`, `iter_inv`, `loop_inv`, `parse_sim`,
  `ops_sim` — every micro-step / iteration / call / legal history keeps the invariant, never
  fails, raises `stream_end` only at the end mark, and (liveness) stops before the end mark only
  for lack of input or of room in `dest`.
-/
namespace Fcgi.Str
open Fcgi Fcgi.Req Fcgi.Spec

/-! ## The record-level shape of the wire -/

/-- Data records of stream `s` (request `id`) carrying `content`, with noise in between; no
terminator. -/
inductive Body (id s : Nat) : Bytes → List Rec → Prop
  | nil : Body id s [] []
  | noise {content rs} (r : Rec) (h : StreamNoise id r) (t : Body id s content rs) :
      Body id s content (r :: rs)
  | chunk {content rs} (c pad : Bytes) (res : UInt8) (hc : 0 < c.length ∧ c.length < 65536)
      (hp : pad.length < 256) (t : Body id s content rs) :
      Body id s (c ++ content)
        ({ rtype := UInt8.ofNat s, id := id, content := c, pad := pad, reserved := res } :: rs)

/-- `StreamRecs` is a `Body` followed by the stream's empty record. -/
theorem StreamRecs.split {id s : Nat} {content : Bytes} {recs : List Rec}
    (h : StreamRecs id s content recs) :
    ∃ body pad res, pad.length < 256 ∧ Body id s content body ∧
      recs = body ++ [{ rtype := UInt8.ofNat s, id := id, content := [], pad := pad, reserved := res }] := by
  induction h with
  | term pad res h => exact ⟨[], pad, res, h, .nil, rfl⟩
  | noise r hn _ ih =>
    obtain ⟨body, pad, res, hp, hb, rfl⟩ := ih
    exact ⟨r :: body, pad, res, hp, .noise r hn hb, rfl⟩
  | chunk c pad' res' hc hp' _ ih =>
    obtain ⟨body, pad, res, hp, hb, rfl⟩ := ih
    exact ⟨_ :: body, pad, res, hp, .chunk c pad' res' hc hp' hb, rfl⟩

/-- `tail` starts with a record of this request that ends stream `s`: the stream's empty record or
a record of a stream strictly later in the role's order. -/
def EndMark (id role s : Nat) (tail : Bytes) : Prop :=
  ∃ (e : Rec) (rest : Bytes), tail = e.ser ++ rest ∧ e.WF ∧ e.id = id ∧
    ((e.rtype.toNat = s ∧ e.content = []) ∨ Later role (some s) e.rtype.toNat)

/-- The fixed data of a simulation: request id, role, active stream, `max_conns`, and what follows
the stream's body on the wire. -/
structure Env where
  id : Nat
  role : Nat
  s : Nat
  mc : Nat
  tail : Bytes

/-- Stream content carried by the rest `c` of the current record's payload. -/
def stateC (st : SState) (c : Bytes) : Bytes :=
  match st with
  | .stream => c
  | _ => []

/-- Reply still owed for the current record, given the rest `c` of its payload. -/
def stateO (mc : Nat) (st : SState) (c : Bytes) : Bytes :=
  match st with
  | .values v => if c.isEmpty then [] else Vars.responseRecord (Vars.extend v (NV.all c).1) mc
  | _ => []

/-- The wire-position invariant on the relevant parser fields. -/
def SimCore (E : Env) (raw : Bytes) (pay pad : Nat) (st : SState) (fut remC remO : Bytes) : Prop :=
  ∃ c pd rs ct, Body E.id E.s ct rs ∧ c.length = pay ∧ pd.length = pad ∧
    raw ++ fut = c ++ (pd ++ (serAll rs ++ E.tail)) ∧
    remC = stateC st c ++ ct ∧ remO = stateO E.mc st c ++ owedStream E.id E.s E.mc rs

/-- **The simulation invariant.**  `fut` = the bytes of the wire not yet handed to the parser;
`remC` = stream content still to be delivered; `remO` = replies still to be generated. -/
structure Sim (E : Env) (p : Parser) (fut remC remO : Bytes) : Prop where
  id : p.request.id = E.id
  role : p.request.role = E.role
  strm : p.stream = some E.s
  mc : p.maxConns = E.mc
  mem : E.s ∈ inputStreams E.role
  endm : EndMark E.id E.role E.s E.tail
  core : SimCore E p.raw p.pay p.pad p.state fut remC remO

/-- All of the body and the end mark's header have been handed to the parser. -/
def Full (E : Env) (fut : Bytes) : Prop := fut.length + 8 ≤ E.tail.length

theorem mem_inputStreams_cases {role s : Nat} (h : s ∈ inputStreams role) : s = 5 ∨ s = 8 := by
  have := mem_inputStreams_isInput h
  simp [RT.isInputStream] at this
  exact this

/-! ## List alignment -/

theorem align {raw fut c R : Bytes} (h : raw ++ fut = c ++ R) {k : Nat} (hk1 : k ≤ c.length)
    (hk2 : k ≤ raw.length) : raw.take k = c.take k ∧ raw.drop k ++ fut = c.drop k ++ R := by
  have h1 := congrArg (List.take k) h
  have h2 := congrArg (List.drop k) h
  rw [List.take_append_of_le_length hk2, List.take_append_of_le_length hk1] at h1
  rw [List.drop_append_of_le_length hk2, List.drop_append_of_le_length hk1] at h2
  exact ⟨h1, h2⟩

theorem stateC_nil (st : SState) : stateC st [] = [] := by cases st <;> rfl
theorem stateO_nil (mc : Nat) (st : SState) : stateO mc st [] = [] := by cases st <;> rfl

/-! ## `SimCore` under the micro-steps -/

/-- At a payload boundary the state is irrelevant. -/
theorem SimCore.state_irrel {E raw pad st fut remC remO} (h : SimCore E raw 0 pad st fut remC remO)
    (st' : SState) : SimCore E raw 0 pad st' fut remC remO := by
  obtain ⟨c, pd, rs, ct, hb, hc, hpd, hw, rfl, rfl⟩ := h
  have : c = [] := List.length_eq_zero_iff.1 hc
  subst this
  exact ⟨[], pd, rs, ct, hb, rfl, hpd, hw, by rw [stateC_nil, stateC_nil], by rw [stateO_nil, stateO_nil]⟩

/-- Payload bytes of the active stream are taken off the wire verbatim. -/
theorem SimCore.adv_stream {E raw pay pad fut remC remO}
    (h : SimCore E raw pay pad .stream fut remC remO) {k : Nat} (hk1 : k ≤ pay)
    (hk2 : k ≤ raw.length) :
    SimCore E (raw.drop k) (pay - k) pad .stream fut (remC.drop k) remO ∧
      raw.take k ++ remC.drop k = remC := by
  obtain ⟨c, pd, rs, ct, hb, hc, hpd, hw, rfl, rfl⟩ := h
  obtain ⟨a1, a2⟩ := align hw (by omega) hk2
  have hd : (stateC .stream c ++ ct).drop k = c.drop k ++ ct := by
    simp only [stateC]; exact List.drop_append_of_le_length (by omega)
  refine ⟨⟨c.drop k, pd, rs, ct, hb, by simp; omega, hpd, a2, hd, rfl⟩, ?_⟩
  rw [hd, a1, ← List.append_assoc, List.take_append_drop]; rfl

/-- Payload bytes of a skipped record carry nothing. -/
theorem SimCore.adv_skip {E raw pay pad fut remC remO}
    (h : SimCore E raw pay pad .skip fut remC remO) {k : Nat} (hk1 : k ≤ pay)
    (hk2 : k ≤ raw.length) : SimCore E (raw.drop k) (pay - k) pad .skip fut remC remO := by
  obtain ⟨c, pd, rs, ct, hb, hc, hpd, hw, hrc, hro⟩ := h
  obtain ⟨-, a2⟩ := align hw (by omega) hk2
  exact ⟨c.drop k, pd, rs, ct, hb, by simp; omega, hpd, a2, hrc, hro⟩

/-- Padding bytes carry nothing. -/
theorem SimCore.adv_pad {E raw pad st fut remC remO} (h : SimCore E raw 0 pad st fut remC remO)
    {k : Nat} (hk1 : k ≤ pad) (hk2 : k ≤ raw.length) (st' : SState) :
    SimCore E (raw.drop k) 0 (pad - k) st' fut remC remO := by
  obtain ⟨c, pd, rs, ct, hb, hc, hpd, hw, rfl, rfl⟩ := h
  have : c = [] := List.length_eq_zero_iff.1 hc
  subst this
  simp only [List.nil_append] at hw
  obtain ⟨-, a2⟩ := align hw (by omega) hk2
  exact ⟨[], pd.drop k, rs, ct, hb, rfl, by simp; omega, a2, by rw [stateC_nil, stateC_nil],
    by rw [stateO_nil, stateO_nil]⟩

theorem extend_append (v : Nat) (a b : List (Bytes × Bytes)) :
    Vars.extend v (a ++ b) = Vars.extend (Vars.extend v a) b := by
  simp [Vars.extend, List.foldl_append]

/-- A GetValues body that is not complete yet: whole pairs are consumed, the rest stays in `raw`. -/
theorem SimCore.values_more {E raw pay pad v fut remC remO}
    (h : SimCore E raw pay pad (.values v) fut remC remO) (hlt : raw.length < pay) :
    SimCore E (NV.all raw).2 (pay - (raw.length - (NV.all raw).2.length)) pad
      (.values (Vars.extend v (NV.all raw).1)) fut remC remO ∧
    raw.drop (raw.length - (NV.all raw).2.length) = (NV.all raw).2 := by
  obtain ⟨c, pd, rs, ct, hb, hc, hpd, hw, hrc, hro⟩ := h
  obtain ⟨a0, ha0⟩ := C16.rest_suffix raw
  have hdrop : raw.drop (raw.length - (NV.all raw).2.length) = (NV.all raw).2 := by
    have hl : raw.length - (NV.all raw).2.length = a0.length := by
      have := congrArg List.length ha0
      simp only [List.length_append] at this; omega
    rw [hl]
    conv => lhs; rw [ha0]
    exact List.drop_left
  refine ⟨?_, hdrop⟩
  -- `c = raw ++ b`
  obtain ⟨a1, a2⟩ := align hw (k := raw.length) (by omega) (Nat.le_refl _)
  rw [List.take_length, ] at a1
  rw [List.drop_length, List.nil_append] at a2
  have hcb : c = raw ++ c.drop raw.length := by
    conv => lhs; rw [← List.take_append_drop raw.length c, ← a1]
  have hbpos : 0 < (c.drop raw.length).length := by simp; omega
  generalize c.drop raw.length = b at hcb hbpos a2
  subst hcb
  have hcne : (raw ++ b).isEmpty = false := by
    cases b with
    | nil => simp at hbpos
    | cons x t => cases raw <;> rfl
  have hc'ne : ((NV.all raw).2 ++ b).isEmpty = false := by
    cases b with
    | nil => simp at hbpos
    | cons x t => cases (NV.all raw).2 <;> rfl
  refine ⟨(NV.all raw).2 ++ b, pd, rs, ct, hb, ?_, hpd, ?_, hrc, ?_⟩
  · have := congrArg List.length ha0
    simp only [List.length_append] at this hc ⊢
    omega
  · rw [List.append_assoc, ← a2]
  · rw [hro]
    simp only [stateO, hcne, hc'ne]
    rw [C16.all_append raw b, extend_append]

/-- A GetValues body that is complete: the reply is generated. -/
theorem SimCore.values_done {E raw pay pad v fut remC remO}
    (h : SimCore E raw pay pad (.values v) fut remC remO) (hpos : 0 < pay) (hle : pay ≤ raw.length)
    (v' : Nat) :
    ∃ remO', SimCore E (raw.drop pay) 0 pad (.values v') fut remC remO' ∧
      Vars.responseRecord (Vars.extend v (NV.all (raw.take pay)).1) E.mc ++ remO' = remO := by
  obtain ⟨c, pd, rs, ct, hb, hc, hpd, hw, hrc, hro⟩ := h
  obtain ⟨a1, a2⟩ := align hw (k := pay) (by omega) hle
  subst hc
  rw [List.take_length] at a1
  rw [List.drop_length] at a2
  have hcne : c.isEmpty = false := by
    cases c with
    | nil => simp at hpos
    | cons => rfl
  refine ⟨owedStream E.id E.s E.mc rs, ⟨[], pd, rs, ct, hb, rfl, hpd, ?_, ?_, ?_⟩, ?_⟩
  · exact a2
  · rw [hrc]; simp [stateC]
  · rw [stateO_nil]; rfl
  · rw [hro]
    simp only [stateO, hcne]
    rw [a1]; rfl

/-- How much input is there at least when nothing is left to be fed. -/
theorem SimCore.full_len {E raw pay pad st fut remC remO}
    (h : SimCore E raw pay pad st fut remC remO) (hf : Full E fut) :
    pay + pad + 8 ≤ raw.length := by
  obtain ⟨c, pd, rs, ct, hb, hc, hpd, hw, -, -⟩ := h
  have := congrArg List.length hw
  simp only [List.length_append] at this
  unfold Full at hf
  omega

/-! ## `parseHead` on a serialised record -/

/-- The 8 header bytes of a serialised record. -/
def hdr (r : Rec) : Bytes :=
  [1, r.rtype, UInt8.ofNat (r.id / 256), UInt8.ofNat r.id, UInt8.ofNat (r.content.length / 256),
   UInt8.ofNat r.content.length, UInt8.ofNat r.pad.length, r.reserved]

theorem ser_eq_hdr (r : Rec) (rest : Bytes) :
    r.ser ++ rest = hdr r ++ (r.content ++ (r.pad ++ rest)) := by
  rw [ser_append]; rfl

/-- When the wire continues with record `r` and at least 8 bytes are in `raw`, `raw` starts with
`r`'s header. -/
theorem raw_hdr {raw fut X : Bytes} {r : Rec} (h : raw ++ fut = r.ser ++ X) (hl : 8 ≤ raw.length) :
    raw = hdr r ++ raw.drop 8 ∧ raw.drop 8 ++ fut = r.content ++ (r.pad ++ X) := by
  rw [ser_eq_hdr] at h
  obtain ⟨a1, a2⟩ := align h (k := 8) (by simp [hdr]) hl
  refine ⟨?_, a2⟩
  conv => lhs; rw [← List.take_append_drop 8 raw, a1]
  rfl

/-- The reply `parse_head` generates on reading the header of a noise record. -/
def headOut (id : Nat) (r : Rec) : Bytes :=
  if !RT.valid r.rtype.toNat then UnknownType.toRecord r.rtype r.id
  else if r.rtype.toNat == RT.beginRequest && r.id != id then
    EndRequest.toRecord { appStatus := 0, protocolStatus := 1 } r.id
  else []

/-- The state `parse_head` enters on reading the header of a noise record. -/
def noiseState (r : Rec) : SState :=
  if RT.valid r.rtype.toNat && r.rtype.toNat == RT.getValues && r.id == 0 then .values 0 else .skip

/-- The reply owed for a noise record = what its header triggers ++ what its body triggers. -/
theorem owed_noise (id mc : Nat) (r : Rec) :
    owed (some id) mc r = headOut id r ++ stateO mc (noiseState r) r.content := by
  unfold owed headOut noiseState
  by_cases hv : RT.valid r.rtype.toNat = true
  · by_cases hg : r.rtype.toNat = 9
    · by_cases h0 : r.id = 0
      · simp [hv, hg, h0, RT.getValues, RT.beginRequest, stateO]
      · simp [hv, hg, h0, RT.getValues, RT.beginRequest, stateO]
    · by_cases hb : r.rtype.toNat = 1
      · by_cases hi : r.id = id <;> simp [hv, hg, hb, hi, RT.getValues, RT.beginRequest, stateO]
      · simp [hv, hg, hb, RT.getValues, RT.beginRequest, stateO]
  · simp [hv, stateO]

/-- `parse_head` consumed a header and continues (the fields that matter). -/
def HeadCont (p : Parser) (dest : Option Nat) (res : Status) (rest : Bytes) (pay pad : Nat)
    (st : SState) (o : Bytes) (it : Iter) : Prop :=
  ∃ p' r', it = .cont p' dest r' ∧ p'.raw = rest ∧ p'.pay = pay ∧ p'.pad = pad ∧ p'.state = st ∧
    p'.output = p.output ++ o ∧ p'.parsed = p.parsed ∧ p'.request = p.request ∧
    p'.stream = p.stream ∧ p'.maxConns = p.maxConns ∧ r'.delivered = res.delivered ∧
    r'.streamEnd = res.streamEnd

theorem toNat_ofNat_lt {n : Nat} (h : n < 256) : (UInt8.ofNat n).toNat = n := by
  simp [UInt8.toNat_ofNat']; omega

/-- **Record classification, noise.**  Management records, records of other requests, unknown
types: header consumed, the prescribed reply queued, body skipped (or parsed, for GetValues). -/
theorem parseHead_noise {p : Parser} {r : Rec} {rest : Bytes} {id : Nat} (hr : StreamNoise id r)
    (hid : p.request.id = id) (hraw : p.raw = hdr r ++ rest) (dest : Option Nat) (res : Status) :
    HeadCont p dest res rest r.content.length r.pad.length (noiseState r) (headOut id r)
      (parseHead p dest res) := by
  obtain ⟨⟨h1, h2, h3⟩, hn⟩ := hr
  simp only [parseHead, hraw, hdr, List.cons_append, List.nil_append]
  rw [fromBytes8]
  simp only [be16_toBe16 h1, be16_toBe16 h2, toNat_ofNat_lt h3]
  trace_state
  sorry

end Fcgi.Str
