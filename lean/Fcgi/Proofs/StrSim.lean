import Fcgi.Props.C03Str
import Fcgi.Props.C18
import Fcgi.Spec.Streams
import Fcgi.Proofs.ReqRecords
/-!
# Simulation of the input-stream parser against the record-level specification (C02)

The wire is `serAll body ++ tail`: `body` are the data records of the active stream `s` of request
`id` interleaved with noise (`Body id s content body`), and `tail` starts with a record header the
parser must hold back (`EndMark`: the stream's empty record, or a record of a later stream).

* `SimCore` / `Sim` — the wire-position invariant, stated *forward*: what is still to come on the
  wire (`p.raw ++ fut`) is the rest `c` of the current record's payload (`|c| = p.pay`), its padding
  (`|pd| = p.pad`), the not yet started records `rs` and `tail`; `remC` is the stream content these
  still carry, `remO` the replies still owed for them.
* `Inv` — `Sim` plus the two conserved quantities of a `parse` call:
  `delivered so far ++ remC` and `output so far ++ remO`.
* `parsePayload_inv`, `padHead_inv`, `parseHead_inv`, `iter_inv`, `loop_inv`, `parse_sim`,
  `ops_sim` — every micro-step / iteration / call / legal history keeps the invariant, never
  fails, raises `stream_end` only at the end mark, and (liveness) stops before the end mark only
  for lack of input or of room in `dest`.
-/
namespace Fcgi.Str
open Fcgi Fcgi.Req Fcgi.Spec

/-! ## The record-level shape of the wire -/

/-- Data records of stream `s` (request `id`) carrying `content`, with noise in between; no
terminator. -/
inductive Body (id s : Nat) : Bytes → List Rec → Prop
  | nil : Body id s [] []
  | noise {content rs} (r : Rec) (h : StreamNoise id r) (t : Body id s content rs) :
      Body id s content (r :: rs)
  | chunk {content rs} (c pad : Bytes) (res : UInt8) (hc : 0 < c.length ∧ c.length < 65536)
      (hp : pad.length < 256) (t : Body id s content rs) :
      Body id s (c ++ content)
        ({ rtype := UInt8.ofNat s, id := id, content := c, pad := pad, reserved := res } :: rs)

/-- `StreamRecs` is a `Body` followed by the stream's empty record. -/
theorem StreamRecs.split {id s : Nat} {content : Bytes} {recs : List Rec}
    (h : StreamRecs id s content recs) :
    ∃ body pad res, pad.length < 256 ∧ Body id s content body ∧
      recs = body ++ [{ rtype := UInt8.ofNat s, id := id, content := [], pad := pad, reserved := res }] := by
  induction h with
  | term pad res h => exact ⟨[], pad, res, h, .nil, rfl⟩
  | noise r hn _ ih =>
    obtain ⟨body, pad, res, hp, hb, rfl⟩ := ih
    exact ⟨r :: body, pad, res, hp, .noise r hn hb, rfl⟩
  | chunk c pad' res' hc hp' _ ih =>
    obtain ⟨body, pad, res, hp, hb, rfl⟩ := ih
    exact ⟨_ :: body, pad, res, hp, .chunk c pad' res' hc hp' hb, rfl⟩

/-- `tail` starts with a record of this request that ends stream `s`: the stream's empty record or
a record of a stream strictly later in the role's order. -/
def EndMark (id role s : Nat) (tail : Bytes) : Prop :=
  ∃ (e : Rec) (rest : Bytes), tail = e.ser ++ rest ∧ e.WF ∧ e.id = id ∧
    ((e.rtype.toNat = s ∧ e.content = []) ∨ Later role (some s) e.rtype.toNat)

/-- The fixed data of a simulation: request id, role, active stream, `max_conns`, and what follows
the stream's body on the wire. -/
structure Env where
  id : Nat
  role : Nat
  s : Nat
  mc : Nat
  tail : Bytes

/-- Stream content carried by the rest `c` of the current record's payload. -/
def stateC (st : SState) (c : Bytes) : Bytes :=
  match st with
  | .stream => c
  | _ => []

/-- Reply still owed for the current record, given the rest `c` of its payload. -/
def stateO (mc : Nat) (st : SState) (c : Bytes) : Bytes :=
  match st with
  | .values v => if c.isEmpty then [] else Vars.responseRecord (Vars.extend v (NV.all c).1) mc
  | _ => []

/-- The wire-position invariant on the relevant parser fields. -/
def SimCore (E : Env) (raw : Bytes) (pay pad : Nat) (st : SState) (fut remC remO : Bytes) : Prop :=
  ∃ c pd rs ct, Body E.id E.s ct rs ∧ c.length = pay ∧ pd.length = pad ∧
    raw ++ fut = c ++ (pd ++ (serAll rs ++ E.tail)) ∧
    remC = stateC st c ++ ct ∧ remO = stateO E.mc st c ++ owedStream E.id E.s E.mc rs

/-- **The simulation invariant.**  `fut` = the bytes of the wire not yet handed to the parser;
`remC` = stream content still to be delivered; `remO` = replies still to be generated. -/
structure Sim (E : Env) (p : Parser) (fut remC remO : Bytes) : Prop where
  id : p.request.id = E.id
  role : p.request.role = E.role
  strm : p.stream = some E.s
  mc : p.maxConns = E.mc
  mem : E.s ∈ inputStreams E.role
  endm : EndMark E.id E.role E.s E.tail
  core : SimCore E p.raw p.pay p.pad p.state fut remC remO

/-- All of the body and the end mark's header have been handed to the parser. -/
def Full (E : Env) (fut : Bytes) : Prop := fut.length + 8 ≤ E.tail.length

theorem mem_inputStreams_cases {role s : Nat} (h : s ∈ inputStreams role) : s = 5 ∨ s = 8 := by
  have := mem_inputStreams_isInput h
  simp [RT.isInputStream] at this
  exact this

/-! ## List alignment -/

theorem align {raw fut c R : Bytes} (h : raw ++ fut = c ++ R) {k : Nat} (hk1 : k ≤ c.length)
    (hk2 : k ≤ raw.length) : raw.take k = c.take k ∧ raw.drop k ++ fut = c.drop k ++ R := by
  have h1 := congrArg (List.take k) h
  have h2 := congrArg (List.drop k) h
  rw [List.take_append_of_le_length hk2, List.take_append_of_le_length hk1] at h1
  rw [List.drop_append_of_le_length hk2, List.drop_append_of_le_length hk1] at h2
  exact ⟨h1, h2⟩

theorem stateC_nil (st : SState) : stateC st [] = [] := by cases st <;> rfl
theorem stateO_nil (mc : Nat) (st : SState) : stateO mc st [] = [] := by cases st <;> rfl

/-! ## `SimCore` under the micro-steps -/

/-- At a payload boundary the state is irrelevant. -/
theorem SimCore.state_irrel {E raw pad st fut remC remO} (h : SimCore E raw 0 pad st fut remC remO)
    (st' : SState) : SimCore E raw 0 pad st' fut remC remO := by
  obtain ⟨c, pd, rs, ct, hb, hc, hpd, hw, rfl, rfl⟩ := h
  have : c = [] := List.length_eq_zero_iff.1 hc
  subst this
  exact ⟨[], pd, rs, ct, hb, rfl, hpd, hw, by rw [stateC_nil, stateC_nil], by rw [stateO_nil, stateO_nil]⟩

/-- Payload bytes of the active stream are taken off the wire verbatim. -/
theorem SimCore.adv_stream {E raw pay pad fut remC remO}
    (h : SimCore E raw pay pad .stream fut remC remO) {k : Nat} (hk1 : k ≤ pay)
    (hk2 : k ≤ raw.length) :
    SimCore E (raw.drop k) (pay - k) pad .stream fut (remC.drop k) remO ∧
      raw.take k ++ remC.drop k = remC := by
  obtain ⟨c, pd, rs, ct, hb, hc, hpd, hw, rfl, rfl⟩ := h
  obtain ⟨a1, a2⟩ := align hw (by omega) hk2
  have hd : (stateC .stream c ++ ct).drop k = c.drop k ++ ct := by
    simp only [stateC]; exact List.drop_append_of_le_length (by omega)
  refine ⟨⟨c.drop k, pd, rs, ct, hb, by simp; omega, hpd, a2, hd, rfl⟩, ?_⟩
  rw [hd, a1, ← List.append_assoc, List.take_append_drop]; rfl

/-- Payload bytes of a skipped record carry nothing. -/
theorem SimCore.adv_skip {E raw pay pad fut remC remO}
    (h : SimCore E raw pay pad .skip fut remC remO) {k : Nat} (hk1 : k ≤ pay)
    (hk2 : k ≤ raw.length) : SimCore E (raw.drop k) (pay - k) pad .skip fut remC remO := by
  obtain ⟨c, pd, rs, ct, hb, hc, hpd, hw, hrc, hro⟩ := h
  obtain ⟨-, a2⟩ := align hw (by omega) hk2
  exact ⟨c.drop k, pd, rs, ct, hb, by simp; omega, hpd, a2, hrc, hro⟩

/-- Padding bytes carry nothing. -/
theorem SimCore.adv_pad {E raw pad st fut remC remO} (h : SimCore E raw 0 pad st fut remC remO)
    {k : Nat} (hk1 : k ≤ pad) (hk2 : k ≤ raw.length) (st' : SState) :
    SimCore E (raw.drop k) 0 (pad - k) st' fut remC remO := by
  obtain ⟨c, pd, rs, ct, hb, hc, hpd, hw, rfl, rfl⟩ := h
  have : c = [] := List.length_eq_zero_iff.1 hc
  subst this
  simp only [List.nil_append] at hw
  obtain ⟨-, a2⟩ := align hw (by omega) hk2
  exact ⟨[], pd.drop k, rs, ct, hb, rfl, by simp; omega, a2, by rw [stateC_nil, stateC_nil],
    by rw [stateO_nil, stateO_nil]⟩

theorem extend_append (v : Nat) (a b : List (Bytes × Bytes)) :
    Vars.extend v (a ++ b) = Vars.extend (Vars.extend v a) b := by
  simp [Vars.extend, List.foldl_append]

/-- A GetValues body that is not complete yet: whole pairs are consumed, the rest stays in `raw`. -/
theorem SimCore.values_more {E raw pay pad v fut remC remO}
    (h : SimCore E raw pay pad (.values v) fut remC remO) (hlt : raw.length < pay) :
    SimCore E (NV.all raw).2 (pay - (raw.length - (NV.all raw).2.length)) pad
      (.values (Vars.extend v (NV.all raw).1)) fut remC remO ∧
    raw.drop (raw.length - (NV.all raw).2.length) = (NV.all raw).2 := by
  obtain ⟨c, pd, rs, ct, hb, hc, hpd, hw, hrc, hro⟩ := h
  obtain ⟨a0, ha0⟩ := C16.rest_suffix raw
  have hdrop : raw.drop (raw.length - (NV.all raw).2.length) = (NV.all raw).2 := by
    have hl : raw.length - (NV.all raw).2.length = a0.length := by
      have := congrArg List.length ha0
      simp only [List.length_append] at this; omega
    rw [hl]
    conv => lhs; rw [ha0]
    exact List.drop_left
  refine ⟨?_, hdrop⟩
  -- `c = raw ++ b`
  obtain ⟨a1, a2⟩ := align hw (k := raw.length) (by omega) (Nat.le_refl _)
  rw [List.take_length, ] at a1
  rw [List.drop_length, List.nil_append] at a2
  have hcb : c = raw ++ c.drop raw.length := by
    conv => lhs; rw [← List.take_append_drop raw.length c, ← a1]
  have hbpos : 0 < (c.drop raw.length).length := by simp; omega
  generalize c.drop raw.length = b at hcb hbpos a2
  subst hcb
  have hcne : (raw ++ b).isEmpty = false := by
    cases b with
    | nil => simp at hbpos
    | cons x t => cases raw <;> rfl
  have hc'ne : ((NV.all raw).2 ++ b).isEmpty = false := by
    cases b with
    | nil => simp at hbpos
    | cons x t => cases (NV.all raw).2 <;> rfl
  refine ⟨(NV.all raw).2 ++ b, pd, rs, ct, hb, ?_, hpd, ?_, hrc, ?_⟩
  · have := congrArg List.length ha0
    simp only [List.length_append] at this hc ⊢
    omega
  · rw [List.append_assoc, ← a2]
  · rw [hro]
    simp only [stateO, hcne, hc'ne]
    rw [C16.all_append raw b, extend_append]

/-- A GetValues body that is complete: the reply is generated. -/
theorem SimCore.values_done {E raw pay pad v fut remC remO}
    (h : SimCore E raw pay pad (.values v) fut remC remO) (hpos : 0 < pay) (hle : pay ≤ raw.length)
    (v' : Nat) :
    ∃ remO', SimCore E (raw.drop pay) 0 pad (.values v') fut remC remO' ∧
      Vars.responseRecord (Vars.extend v (NV.all (raw.take pay)).1) E.mc ++ remO' = remO := by
  obtain ⟨c, pd, rs, ct, hb, hc, hpd, hw, hrc, hro⟩ := h
  obtain ⟨a1, a2⟩ := align hw (k := pay) (by omega) hle
  subst hc
  rw [List.take_length] at a1
  rw [List.drop_length] at a2
  have hcne : c.isEmpty = false := by
    cases c with
    | nil => simp at hpos
    | cons => rfl
  refine ⟨owedStream E.id E.s E.mc rs, ⟨[], pd, rs, ct, hb, rfl, hpd, ?_, ?_, ?_⟩, ?_⟩
  · exact a2
  · rw [hrc]; simp [stateC]
  · rw [stateO_nil]; rfl
  · rw [hro]
    simp only [stateO, hcne]
    rw [a1]; rfl

/-- How much input is there at least when nothing is left to be fed. -/
theorem SimCore.full_len {E raw pay pad st fut remC remO}
    (h : SimCore E raw pay pad st fut remC remO) (hf : Full E fut) :
    pay + pad + 8 ≤ raw.length := by
  obtain ⟨c, pd, rs, ct, hb, hc, hpd, hw, -, -⟩ := h
  have := congrArg List.length hw
  simp only [List.length_append] at this
  unfold Full at hf
  omega

/-! ## `parseHead` on a serialised record -/

/-- The 8 header bytes of a serialised record. -/
def hdr (r : Rec) : Bytes :=
  [1, r.rtype, UInt8.ofNat (r.id / 256), UInt8.ofNat r.id, UInt8.ofNat (r.content.length / 256),
   UInt8.ofNat r.content.length, UInt8.ofNat r.pad.length, r.reserved]

theorem ser_eq_hdr (r : Rec) (rest : Bytes) :
    r.ser ++ rest = hdr r ++ (r.content ++ (r.pad ++ rest)) := by
  rw [ser_append]; rfl

/-- When the wire continues with record `r` and at least 8 bytes are in `raw`, `raw` starts with
`r`'s header. -/
theorem raw_hdr {raw fut X : Bytes} {r : Rec} (h : raw ++ fut = r.ser ++ X) (hl : 8 ≤ raw.length) :
    raw = hdr r ++ raw.drop 8 ∧ raw.drop 8 ++ fut = r.content ++ (r.pad ++ X) := by
  rw [ser_eq_hdr] at h
  obtain ⟨a1, a2⟩ := align h (k := 8) (by simp [hdr]) hl
  refine ⟨?_, a2⟩
  conv => lhs; rw [← List.take_append_drop 8 raw, a1]
  rfl

/-- The reply `parse_head` generates on reading the header of a noise record. -/
def headOut (id : Nat) (r : Rec) : Bytes :=
  if !RT.valid r.rtype.toNat then UnknownType.toRecord r.rtype r.id
  else if r.rtype.toNat == RT.beginRequest && r.id != id then
    EndRequest.toRecord { appStatus := 0, protocolStatus := 1 } r.id
  else []

/-- The state `parse_head` enters on reading the header of a noise record. -/
def noiseState (r : Rec) : SState :=
  if RT.valid r.rtype.toNat && r.rtype.toNat == RT.getValues && r.id == 0 then .values 0 else .skip

/-- The reply owed for a noise record = what its header triggers ++ what its body triggers. -/
theorem owed_noise (id mc : Nat) (r : Rec) :
    owed (some id) mc r = headOut id r ++ stateO mc (noiseState r) r.content := by
  unfold owed headOut noiseState
  by_cases hv : RT.valid r.rtype.toNat = true
  · by_cases hg : r.rtype.toNat = 9
    · by_cases h0 : r.id = 0
      · simp [hg, h0, RT.getValues, RT.beginRequest, stateO, RT.valid]
      · simp [hg, h0, RT.getValues, RT.beginRequest, stateO, RT.valid]
    · by_cases hb : r.rtype.toNat = 1
      · by_cases hi : r.id = id <;> simp [hb, hi, RT.getValues, RT.beginRequest, stateO, RT.valid]
      · simp [hv, hg, hb, RT.getValues, RT.beginRequest, stateO]
  · simp [hv, stateO]

/-- `parse_head` consumed a header and continues (the fields that matter). -/
def HeadCont (p : Parser) (dest : Option Nat) (res : Status) (rest : Bytes) (pay pad : Nat)
    (st : SState) (o : Bytes) (it : Iter) : Prop :=
  ∃ p' r', it = .cont p' dest r' ∧ p'.raw = rest ∧ p'.pay = pay ∧ p'.pad = pad ∧ p'.state = st ∧
    p'.output = p.output ++ o ∧ p'.parsed = p.parsed ∧ p'.request = p.request ∧
    p'.stream = p.stream ∧ p'.maxConns = p.maxConns ∧ r'.delivered = res.delivered ∧
    r'.streamEnd = res.streamEnd

theorem toNat_ofNat_lt {n : Nat} (h : n < 256) : (UInt8.ofNat n).toNat = n := by
  simp [UInt8.toNat_ofNat']; omega

/-- **Record classification, noise.**  Management records, records of other requests, unknown
types: header consumed, the prescribed reply queued, body skipped (or parsed, for GetValues). -/
theorem parseHead_noise {p : Parser} {r : Rec} {rest : Bytes} {id : Nat} (hr : StreamNoise id r)
    (hid : p.request.id = id) (hraw : p.raw = hdr r ++ rest) (dest : Option Nat) (res : Status) :
    HeadCont p dest res rest r.content.length r.pad.length (noiseState r) (headOut id r)
      (parseHead p dest res) := by
  obtain ⟨⟨h1, h2, h3⟩, hn⟩ := hr
  simp only [parseHead, hraw, hdr, List.cons_append, List.nil_append]
  rw [fromBytes8]
  simp only [be16_toBe16 h1, be16_toBe16 h2, toNat_ofNat_lt h3]
  rw [if_neg (by decide)]
  by_cases hv : RT.valid r.rtype.toNat = true
  · have hin : (RT.isInputStream r.rtype.toNat && r.id == p.request.id) = false := by
      rw [hid]
      cases hi : RT.isInputStream r.rtype.toNat with
      | false => rfl
      | true =>
        simp only [RT.isInputStream, Bool.or_eq_true, beq_iff_eq] at hi
        simp only [Bool.true_and, beq_eq_false_iff_ne, ne_eq]
        intro he
        exact hn ⟨he, by simp only [RT.stdin, RT.data]; omega⟩
    have hab : (r.rtype.toNat == RT.abortRequest && r.id == p.request.id) = false := by
      rw [hid]
      cases ha : r.rtype.toNat == RT.abortRequest with
      | false => rfl
      | true =>
        simp only [beq_iff_eq] at ha
        simp only [Bool.true_and, beq_eq_false_iff_ne, ne_eq]
        intro he
        exact hn ⟨he, Or.inr (Or.inr ha)⟩
    simp only [hv, Bool.not_true, Bool.false_eq_true, if_false, hin, hab]
    by_cases hb : (r.rtype.toNat == RT.beginRequest && r.id != p.request.id) = true
    · rw [if_pos hb]
      have hng : ¬ r.rtype.toNat = 9 := by
        simp only [Bool.and_eq_true, beq_iff_eq, RT.beginRequest] at hb; omega
      refine ⟨_, _, rfl, rfl, rfl, rfl, ?_, ?_, rfl, rfl, rfl, rfl, rfl, rfl⟩
      · simp [noiseState, RT.getValues, hng]
      · rw [hid] at hb; simp [headOut, hv, hb]
    · rw [if_neg hb]
      have ho : headOut id r = [] := by
        rw [hid] at hb; simp [headOut, hv, hb]
      split
      · rename_i hg
        refine ⟨_, _, rfl, rfl, rfl, rfl, ?_, ?_, rfl, rfl, rfl, rfl, rfl, rfl⟩
        · simp only [RecordHeader.isManagement, Bool.and_eq_true, beq_iff_eq] at hg
          simp [noiseState, hg.1, hg.2.2, RT.valid, RT.getValues]
        · rw [ho]; simp
      · rename_i hg
        refine ⟨_, _, rfl, rfl, rfl, rfl, ?_, ?_, rfl, rfl, rfl, rfl, rfl, rfl⟩
        · simp only [noiseState]
          rw [if_neg]
          intro hh
          apply hg
          simp only [Bool.and_eq_true, beq_iff_eq] at hh
          simp [RecordHeader.isManagement, hh.1.2, hh.2, RT.getValues, RT.isManagement]
        · rw [ho]; simp
  · have hv' : RT.valid r.rtype.toNat = false := by simpa using hv
    simp only [hv', Bool.not_false, if_true]
    refine ⟨_, _, rfl, rfl, rfl, rfl, ?_, ?_, rfl, rfl, rfl, rfl, rfl, rfl⟩
    · simp [noiseState, hv']
    · simp [headOut, hv']

/-- **Record classification, stream data.**  A non-empty record of the active stream of this
request: header consumed, state `Stream`, nothing queued. -/
theorem parseHead_data {p : Parser} {r : Rec} {rest : Bytes} {s : Nat} (hr : r.WF)
    (ht : r.rtype.toNat = s) (hid : r.id = p.request.id) (hne : 0 < r.content.length)
    (hs : p.stream = some s) (hmem : s ∈ inputStreams p.request.role)
    (hraw : p.raw = hdr r ++ rest) (dest : Option Nat) (res : Status) :
    HeadCont p dest res rest r.content.length r.pad.length .stream [] (parseHead p dest res) := by
  obtain ⟨h1, h2, h3⟩ := hr
  have hin := mem_inputStreams_isInput hmem
  have hv : RT.valid s = true := by
    rcases mem_inputStreams_cases hmem with rfl | rfl <;> rfl
  simp only [parseHead, hraw, hdr, List.cons_append, List.nil_append]
  rw [fromBytes8]
  simp only [be16_toBe16 h1, be16_toBe16 h2, toNat_ofNat_lt h3]
  rw [if_neg (by decide)]
  have hcmp : cmpInputStreams p.request.role s p.stream = some .eq := by
    rw [hs]; exact (cmp_eq_iff _ hin hin).2 rfl
  have hc0 : (r.content.length != 0) = true := by rw [bne_iff_ne]; omega
  simp only [ht, hv, Bool.not_true, Bool.false_eq_true, if_false, hin, hid, BEq.rfl, Bool.and_self,
    if_true, hcmp, hc0]
  exact ⟨_, _, rfl, rfl, rfl, rfl, rfl, by simp, rfl, rfl, rfl, rfl, rfl, rfl⟩

/-- **Record classification, end mark.**  The stream's empty record, or a record of a later
stream of this request, is held back. -/
theorem heldBack_of_end {p : Parser} {e : Rec} {rest : Bytes} {s : Nat} (hr : e.WF)
    (hid : e.id = p.request.id) (hs : p.stream = some s) (hmem : s ∈ inputStreams p.request.role)
    (hk : (e.rtype.toNat = s ∧ e.content = []) ∨ Later p.request.role (some s) e.rtype.toNat)
    (hraw : p.raw = hdr e ++ rest) : HeldBack p := by
  obtain ⟨h1, h2, h3⟩ := hr
  have hin := mem_inputStreams_isInput hmem
  have hin' : RT.isInputStream e.rtype.toNat = true := by
    rcases hk with ⟨ht, -⟩ | hl
    · rw [ht]; exact hin
    · exact mem_inputStreams_isInput (mem_of_Later hl)
  have hv : RT.valid e.rtype.toNat = true := by
    simp only [RT.isInputStream, Bool.or_eq_true, beq_iff_eq] at hin'
    rcases hin' with h | h <;> rw [h] <;> rfl
  refine ⟨1, e.rtype, UInt8.ofNat (e.id / 256), UInt8.ofNat e.id, UInt8.ofNat (e.content.length / 256),
    UInt8.ofNat e.content.length, UInt8.ofNat e.pad.length, e.reserved, rest,
    { rtype := e.rtype.toNat, requestId := e.id, contentLength := e.content.length,
      paddingLength := e.pad.length }, hraw, ?_, hin', hid, ?_⟩
  · rw [fromBytes8, if_neg (by decide)]
    simp only [be16_toBe16 h1, be16_toBe16 h2, toNat_ofNat_lt h3, hv, Bool.not_true,
      Bool.false_eq_true, if_false]
  · rw [hs]
    rcases hk with ⟨ht, hc⟩ | hl
    · left
      simp only [ht, hc, List.length_nil, and_true]
      exact (cmp_eq_iff _ hin hin).2 rfl
    · right
      exact (cmp_gt_iff _ hin' hin).2 hl

theorem parseHead_short {p : Parser} (h : p.raw.length < 8) (dest : Option Nat) (res : Status) :
    parseHead p dest res = .stop p res := by
  unfold parseHead
  split
  · rename_i hraw
    rw [hraw] at h; simp only [List.length_cons] at h; omega
  · rfl

/-! ## The invariant of a `parse` call -/

/-- Where stream data goes during a call: `dest` (`b = true`) or the internal buffer. -/
def got (b : Bool) (p : Parser) (res : Status) : Bytes := if b then res.delivered else p.parsed

/-- `Sim` plus the two conserved quantities: `C` = delivered so far ++ still to be delivered,
`O` = replies generated so far ++ still owed; `stream_end` is raised only when nothing remains, the
parser standing at the end mark. -/
def Inv (E : Env) (fut : Bytes) (b : Bool) (C O : Bytes) (p : Parser) (res : Status) : Prop :=
  ∃ remC remO, Sim E p fut remC remO ∧ got b p res ++ remC = C ∧ p.output ++ remO = O ∧
    (res.streamEnd = true → remC = [] ∧ remO = [] ∧ p.pay = 0 ∧ p.pad = 0 ∧ p.raw ++ fut = E.tail)

theorem Sim.of_core {E p p' fut remC remO remC' remO'} (h : Sim E p fut remC remO)
    (e1 : p'.request = p.request) (e2 : p'.stream = p.stream) (e3 : p'.maxConns = p.maxConns)
    (hc : SimCore E p'.raw p'.pay p'.pad p'.state fut remC' remO') : Sim E p' fut remC' remO' :=
  ⟨by rw [e1]; exact h.id, by rw [e1]; exact h.role, by rw [e2]; exact h.strm,
   by rw [e3]; exact h.mc, h.mem, h.endm, hc⟩

theorem Inv.step {E fut b C O} {p p' : Parser} {res res' : Status}
    {remC remO remC' remO' d o : Bytes}
    (hC : got b p res ++ remC = C) (hO : p.output ++ remO = O)
    (hne : ¬ res.streamEnd = true)
    (hs : Sim E p' fut remC' remO') (hg : got b p' res' = got b p res ++ d) (hrc : d ++ remC' = remC)
    (ho : p'.output = p.output ++ o) (hro : o ++ remO' = remO)
    (hse' : res'.streamEnd = res.streamEnd) : Inv E fut b C O p' res' := by
  refine ⟨remC', remO', hs, ?_, ?_, ?_⟩
  · rw [hg, List.append_assoc, hrc]; exact hC
  · rw [ho, List.append_assoc, hro]; exact hO
  · intro h
    rw [hse'] at h
    exact absurd h hne

/-- With nothing left to feed, a call stops before the end mark only because `dest` is full. -/
def Live (E : Env) (fut : Bytes) (dest : Option Nat) (res r' : Status) : Prop :=
  Full E fut → r'.streamEnd = true ∨
    (dest.isSome = true ∧ r'.delivered.length = res.delivered.length + dest.getD 0)

/-- What one step of the loop body keeps. -/
def StepInv (E : Env) (fut C O : Bytes) (dest : Option Nat) (res : Status) : Iter → Prop
  | .cont p' _ r' => Inv E fut dest.isSome C O p' r'
  | .stop p' r' => Inv E fut dest.isSome C O p' r' ∧ Live E fut dest res r'
  | .err _ _ => False
  | .panic _ => False

theorem StepInv.ite {E fut C O dest res} {cnd : Prop} [Decidable cnd] {p2 : Parser}
    {d2 : Option Nat} {r2 : Status} (hI : Inv E fut dest.isSome C O p2 r2)
    (hL : ¬ cnd → Live E fut dest res r2) :
    StepInv E fut C O dest res (if cnd then .cont p2 d2 r2 else .stop p2 r2) := by
  split
  · exact hI
  · rename_i hc; exact ⟨hI, hL hc⟩

/-- **`parse_payload` keeps the invariant.** -/
theorem parsePayload_inv {E fut C O} (p : Parser) (dest : Option Nat) (res : Status)
    (h : Inv E fut dest.isSome C O p res) (hpay : 0 < p.pay) :
    StepInv E fut C O dest res (parsePayload p dest res) := by
  obtain ⟨remC, remO, hs, hC, hO, hse⟩ := h
  have hcore := hs.core
  have hne : ¬ res.streamEnd = true := fun h => by have := (hse h).2.2.1; omega
  unfold parsePayload
  cases hst : p.state with
  | stream =>
    rw [hst] at hcore
    cases dest with
    | some cap =>
      simp only []
      split
      · exfalso; omega
      · have hk1 : min (min p.pay p.raw.length) cap ≤ p.pay := by omega
        have hk2 : min (min p.pay p.raw.length) cap ≤ p.raw.length := by omega
        obtain ⟨hc', hrc⟩ := hcore.adv_stream hk1 hk2
        refine StepInv.ite ?_ ?_
        · refine Inv.step hC hO hne (d := p.raw.take (min (min p.pay p.raw.length) cap)) (o := [])
            (hs.of_core rfl rfl rfl ?_) ?_ hrc ?_ rfl rfl
          · simp only [hst]; exact hc'
          · simp only [got, Option.isSome_some, if_true, List.take_take]
            rw [Nat.min_eq_left (Nat.min_le_left _ _)]
          · simp
        · intro hc hf
          have hfl := hcore.full_len hf
          right
          refine ⟨rfl, ?_⟩
          simp only [Bool.and_eq_true, beq_iff_eq, decide_eq_true_eq] at hc
          simp only [List.length_append, List.length_take, Option.getD_some]
          omega
    | none =>
      simp only []
      split
      · exfalso; omega
      · have hk1 : min p.pay p.raw.length ≤ p.pay := by omega
        have hk2 : min p.pay p.raw.length ≤ p.raw.length := by omega
        obtain ⟨hc', hrc⟩ := hcore.adv_stream hk1 hk2
        refine StepInv.ite ?_ ?_
        · refine Inv.step hC hO hne (d := p.raw.take (min p.pay p.raw.length)) (o := [])
            (hs.of_core rfl rfl rfl ?_) ?_ hrc ?_ rfl rfl
          · exact hc'
          · simp [got]
          · simp
        · intro hc hf
          have hfl := hcore.full_len hf
          exfalso
          simp only [Bool.and_eq_true, beq_iff_eq, decide_eq_true_eq] at hc
          omega
  | skip =>
    rw [hst] at hcore
    simp only []
    split
    · exfalso; omega
    · have hk1 : min p.pay p.raw.length ≤ p.pay := by omega
      have hk2 : min p.pay p.raw.length ≤ p.raw.length := by omega
      have hc' := hcore.adv_skip hk1 hk2
      refine StepInv.ite ?_ ?_
      · refine Inv.step hC hO hne (d := []) (o := [])
          (hs.of_core rfl rfl rfl ?_) ?_ rfl ?_ rfl rfl
        · simp only [hst]; exact hc'
        · cases dest <;> simp [got]
        · simp
      · intro hc hf
        have hfl := hcore.full_len hf
        exfalso
        simp only [Bool.and_eq_true, beq_iff_eq, decide_eq_true_eq] at hc
        omega
  | values v =>
    rw [hst] at hcore
    by_cases hlt : p.raw.length < p.pay
    · have hmin : min p.pay p.raw.length = p.raw.length := by omega
      obtain ⟨hc', hdrop⟩ := hcore.values_more hlt
      have hrest := nvall_rest_le p.raw
      simp only [hlt, if_true, hmin, List.take_length]
      split
      · exfalso; omega
      · split
        · rename_i hc
          exfalso
          simp only [Bool.and_eq_true, beq_iff_eq, decide_eq_true_eq] at hc
          omega
        · refine ⟨Inv.step hC hO hne (d := []) (o := [])
            (hs.of_core rfl rfl rfl ?_) ?_ rfl ?_ rfl rfl, ?_⟩
          · simp only [hdrop]; exact hc'
          · cases dest <;> simp [got]
          · simp
          · intro hf
            have hfl := hcore.full_len hf
            omega
    · obtain ⟨remO', hc', hro⟩ := hcore.values_done hpay (by omega)
        (Vars.extend v (NV.all (p.raw.take p.pay)).1)
      have hmin : min p.pay p.raw.length = p.pay := by omega
      simp only [hlt, if_false, hmin]
      split
      · exfalso; omega
      · refine StepInv.ite ?_ ?_
        · refine Inv.step hC hO hne (d := []) (remO' := remO')
            (o := Vars.responseRecord (Vars.extend v (NV.all (p.raw.take p.pay)).1) p.maxConns)
            (hs.of_core rfl rfl rfl ?_) ?_ rfl rfl ?_ rfl
          · simp only [Nat.sub_self]; exact hc'
          · cases dest <;> simp [got]
          · rw [hs.mc]; exact hro
        · intro hc hf
          have hfl := hcore.full_len hf
          exfalso
          simp only [Bool.and_eq_true, beq_iff_eq, decide_eq_true_eq] at hc
          omega

/-! ## `parse_head` keeps the invariant -/

theorem owedStream_cons (id s mc : Nat) (r : Rec) (rs : List Rec) :
    owedStream id s mc (r :: rs) =
      (if r.rtype.toNat == s && r.id == id then [] else owed (some id) mc r) ++
        owedStream id s mc rs := by
  simp [owedStream]

theorem owedStream_append (id s mc : Nat) (a b : List Rec) :
    owedStream id s mc (a ++ b) = owedStream id s mc a ++ owedStream id s mc b := by
  simp [owedStream]

/-- What can stand at a record boundary. -/
inductive HeadCase (E : Env) (raw fut remC remO : Bytes) : Prop
  | endm (hw : raw ++ fut = E.tail) (hc : remC = []) (ho : remO = [])
  | noise (r : Rec) (rs : List Rec) (ct : Bytes) (hn : StreamNoise E.id r) (hb : Body E.id E.s ct rs)
      (hw : raw ++ fut = r.ser ++ (serAll rs ++ E.tail)) (hc : remC = ct)
      (ho : remO = owed (some E.id) E.mc r ++ owedStream E.id E.s E.mc rs)
  | chunk (r : Rec) (rs : List Rec) (ct : Bytes) (hr : r.WF) (ht : r.rtype.toNat = E.s)
      (hid : r.id = E.id) (hne : 0 < r.content.length) (hb : Body E.id E.s ct rs)
      (hw : raw ++ fut = r.ser ++ (serAll rs ++ E.tail)) (hc : remC = r.content ++ ct)
      (ho : remO = owedStream E.id E.s E.mc rs)

theorem SimCore.head_cases {E raw st fut remC remO} (h : SimCore E raw 0 0 st fut remC remO)
    (hs : E.s = 5 ∨ E.s = 8) (hid : E.id < 65536) : HeadCase E raw fut remC remO := by
  obtain ⟨c, pd, rs, ct, hb, hc, hpd, hw, hrc, hro⟩ := h
  have h1 : c = [] := List.length_eq_zero_iff.1 hc
  have h2 : pd = [] := List.length_eq_zero_iff.1 hpd
  subst h1 h2
  rw [stateC_nil] at hrc
  rw [stateO_nil] at hro
  simp only [List.nil_append] at hw hrc hro
  have hsn : (UInt8.ofNat E.s).toNat = E.s := toNat_ofNat_lt (by omega)
  cases hb with
  | nil => exact .endm (by simpa [serAll] using hw) hrc (by simpa [owedStream] using hro)
  | noise r hn t =>
    rw [serAll_cons, List.append_assoc] at hw
    refine .noise r _ _ hn t hw hrc ?_
    rw [hro, owedStream_cons, if_neg]
    intro hh
    simp only [Bool.and_eq_true, beq_iff_eq] at hh
    exact hn.2 ⟨hh.2, by simp only [RT.stdin, RT.data]; omega⟩
  | chunk c pad res hc' hp t =>
    rw [serAll_cons, List.append_assoc] at hw
    refine .chunk _ _ _ ⟨hid, hc'.2, hp⟩ hsn rfl hc'.1 t hw hrc ?_
    rw [hro, owedStream_cons, if_pos]
    · rfl
    · simp [hsn]

theorem stateC_noise (r : Rec) (c : Bytes) : stateC (noiseState r) c = [] := by
  unfold noiseState; split <;> rfl

theorem EndMark.id_lt {id role s : Nat} {tail : Bytes} (h : EndMark id role s tail) : id < 65536 := by
  obtain ⟨e, rest, -, hwf, hid, -⟩ := h
  rw [← hid]; exact hwf.1

/-- **`parse_head` keeps the invariant**; `stream_end` is raised exactly at the end mark. -/
theorem parseHead_inv {E fut C O} (q : Parser) (d : Option Nat) (r : Status) (hpay : q.pay = 0)
    (hpad : q.pad = 0) (h : Inv E fut d.isSome C O q r) :
    StepInv E fut C O d r (parseHead q d r) := by
  obtain ⟨remC, remO, hs, hC, hO, hse⟩ := h
  have hcore := hs.core
  rw [hpay, hpad] at hcore
  by_cases hlen : q.raw.length < 8
  · rw [parseHead_short hlen]
    refine ⟨⟨remC, remO, hs, hC, hO, hse⟩, fun hf => ?_⟩
    have := hcore.full_len hf
    omega
  · have hmem : E.s ∈ inputStreams q.request.role := by rw [hs.role]; exact hs.mem
    rcases hcore.head_cases (mem_inputStreams_cases hs.mem) hs.endm.id_lt with
      ⟨hw, hc, ho⟩ | ⟨rc, rs, ct, hn, hb, hw, hc, ho⟩ | ⟨rc, rs, ct, hr, ht, hid, hcl, hb, hw, hc, ho⟩
    · -- the end mark
      obtain ⟨e, rest, htail, hwf, heid, hk⟩ := hs.endm
      have hw0 := hw
      rw [htail] at hw
      obtain ⟨hraw, -⟩ := raw_hdr hw (by omega)
      have hheld : HeldBack q :=
        heldBack_of_end hwf (by rw [heid, hs.id]) hs.strm hmem (by rw [hs.role]; exact hk) hraw
      rw [parseHead_held hheld]
      exact ⟨⟨remC, remO, hs, hC, hO, fun _ => ⟨hc, ho, hpay, hpad, hw0⟩⟩, fun _ => Or.inl rfl⟩
    · -- a noise record
      have hne : ¬ r.streamEnd = true := fun h => by
        have h5 := (hse h).2.2.2.2
        rw [hw] at h5
        have := congrArg List.length h5
        simp only [List.length_append, ser_length] at this
        omega
      obtain ⟨hraw, hdrop⟩ := raw_hdr hw (by omega)
      obtain ⟨p', r', hit, e1, e2, e3, e4, e5, e6, e7, e8, e9, e10, e11⟩ :=
        parseHead_noise hn hs.id hraw d r
      rw [hit]
      refine Inv.step hC hO hne (d := []) (o := headOut E.id rc)
        (remC' := stateC (noiseState rc) rc.content ++ ct)
        (remO' := stateO E.mc (noiseState rc) rc.content ++ owedStream E.id E.s E.mc rs)
        (hs.of_core e7 e8 e9 ?_) ?_ ?_ e5 ?_ e11
      · rw [e1, e2, e3, e4]
        exact ⟨rc.content, rc.pad, rs, ct, hb, rfl, rfl, hdrop, rfl, rfl⟩
      · simp [got, e6, e10]
      · rw [stateC_noise, hc]; rfl
      · rw [ho, owed_noise, List.append_assoc]
    · -- a data record of the active stream
      have hne : ¬ r.streamEnd = true := fun h => by
        have h5 := (hse h).2.2.2.2
        rw [hw] at h5
        have := congrArg List.length h5
        simp only [List.length_append, ser_length] at this
        omega
      obtain ⟨hraw, hdrop⟩ := raw_hdr hw (by omega)
      obtain ⟨p', r', hit, e1, e2, e3, e4, e5, e6, e7, e8, e9, e10, e11⟩ :=
        parseHead_data hr ht (by rw [hid, hs.id]) hcl hs.strm hmem hraw d r
      rw [hit]
      refine Inv.step hC hO hne (d := []) (o := [])
        (remC' := stateC .stream rc.content ++ ct)
        (remO' := stateO E.mc .stream rc.content ++ owedStream E.id E.s E.mc rs)
        (hs.of_core e7 e8 e9 ?_) ?_ ?_ e5 ?_ e11
      · rw [e1, e2, e3, e4]
        exact ⟨rc.content, rc.pad, rs, ct, hb, rfl, rfl, hdrop, rfl, rfl⟩
      · simp [got, e6, e10]
      · rw [hc]; rfl
      · rw [ho]; rfl

/-! ## Padding, one iteration, the loop -/

theorem Live.trans {E fut} {p q : Parser} {dest d : Option Nat} {res r r' : Status}
    (hrel : Rel p dest res q d r) (h : Live E fut d r r') : Live E fut dest res r' := by
  intro hf
  rcases h hf with h | ⟨h1, h2⟩
  · exact Or.inl h
  · have := hrel.dcap
    exact Or.inr ⟨by rw [← hrel.dsome]; exact h1, by omega⟩

theorem StepInv.trans {E fut C O} {p q : Parser} {dest d : Option Nat} {res r : Status} {it : Iter}
    (hrel : Rel p dest res q d r) (h : StepInv E fut C O d r it) :
    StepInv E fut C O dest res it := by
  cases it with
  | cont p' d' r' => simp only [StepInv] at h ⊢; rw [← hrel.dsome]; exact h
  | stop p' r' =>
    simp only [StepInv] at h ⊢
    rw [← hrel.dsome]
    exact ⟨h.1, Live.trans hrel h.2⟩
  | err p' e => exact h
  | panic s => exact h

/-- The padding step followed by `parse_head`. -/
theorem padHead_inv {E fut C O} (q : Parser) (d : Option Nat) (r : Status) (hpay : q.pay = 0)
    (h : Inv E fut d.isSome C O q r) :
    StepInv E fut C O d r
      (if q.pad > 0 then
        if q.raw.length ≤ q.pad then
          .stop { q with raw := [], g1 := q.g1 + q.raw.length, pad := q.pad - q.raw.length } r
        else parseHead { q with raw := q.raw.drop q.pad, g1 := q.g1 + q.pad, pad := 0 } d r
      else parseHead q d r) := by
  obtain ⟨remC, remO, hs, hC, hO, hse⟩ := h
  have hcore := hs.core
  rw [hpay] at hcore
  split
  · rename_i hpos
    have hne : ¬ r.streamEnd = true := fun h => by have := (hse h).2.2.2.1; omega
    split
    · rename_i hle
      have hc' := hcore.adv_pad (k := q.raw.length) hle (Nat.le_refl _) q.state
      rw [List.drop_length] at hc'
      refine ⟨Inv.step hC hO hne (d := []) (o := []) (hs.of_core rfl rfl rfl ?_) ?_ rfl ?_ rfl rfl, ?_⟩
      · show SimCore E [] q.pay (q.pad - q.raw.length) q.state fut remC remO
        rw [hpay]; exact hc'
      · cases d <;> simp [got]
      · simp
      · intro hf
        have := hcore.full_len hf
        omega
    · rename_i hgt
      have hc' := hcore.adv_pad (k := q.pad) (Nat.le_refl _) (by omega) q.state
      refine parseHead_inv _ d r hpay rfl ?_
      refine Inv.step hC hO hne (d := []) (o := []) (hs.of_core rfl rfl rfl ?_) ?_ rfl ?_ rfl rfl
      · show SimCore E (q.raw.drop q.pad) q.pay 0 q.state fut remC remO
        rw [hpay]; simpa using hc'
      · cases d <;> simp [got]
      · simp
  · exact parseHead_inv q d r hpay (by omega) ⟨remC, remO, hs, hC, hO, hse⟩

/-- **One iteration of the loop body keeps the invariant** and never fails. -/
theorem iter_inv {E fut C O} (p : Parser) (dest : Option Nat) (res : Status)
    (h : Inv E fut dest.isSome C O p res) : StepInv E fut C O dest res (iter p dest res) := by
  unfold iter
  by_cases hpay : p.pay > 0
  · simp only [hpay, if_true]
    have hp := parsePayload_inv p dest res h hpay
    have hg := parsePayload_good p dest res
    cases hpp : parsePayload p dest res with
    | cont q d r =>
      rw [hpp] at hp hg
      obtain ⟨hrel, -, hq, -⟩ := hg
      simp only [StepInv] at hp
      rw [← hrel.dsome] at hp
      exact StepInv.trans hrel (padHead_inv q d r hq hp)
    | stop q r => rw [hpp] at hp; exact hp
    | err q e => rw [hpp] at hp; exact hp.elim
    | panic s => rw [hpp] at hp; exact hp.elim
  · simp only [hpay, if_false]
    exact padHead_inv p dest res (by omega) h

/-- What the loop returns. -/
def LoopInv (E : Env) (fut C O : Bytes) (dest : Option Nat) (res : Status) :
    Parser × ParseRes → Prop
  | (p', .ok st) => Inv E fut dest.isSome C O p' st ∧ Live E fut dest res st
  | _ => False

theorem LoopInv.trans {E fut C O} {p q : Parser} {dest d : Option Nat} {res r : Status}
    {out : Parser × ParseRes} (hrel : Rel p dest res q d r) (h : LoopInv E fut C O d r out) :
    LoopInv E fut C O dest res out := by
  obtain ⟨p', pr⟩ := out
  cases pr with
  | ok st =>
    simp only [LoopInv] at h ⊢
    rw [← hrel.dsome]
    exact ⟨h.1, Live.trans hrel h.2⟩
  | err e => exact h
  | panic s => exact h

/-- **The loop keeps the invariant**, returns `Ok`, and — with nothing left to feed — stops before
the end mark only because `dest` is full. -/
theorem loop_inv {E fut C O} (p : Parser) (dest : Option Nat) (res : Status)
    (h : Inv E fut dest.isSome C O p res) : LoopInv E fut C O dest res (loop p dest res) := by
  generalize hn : p.raw.length = n
  induction n using Nat.strongRecOn generalizing p dest res with
  | _ n ih =>
    rw [loop]
    split
    · rename_i hemp
      refine ⟨h, fun hf => ?_⟩
      obtain ⟨remC, remO, hs, -⟩ := h
      have := hs.core.full_len hf
      simp only [List.isEmpty_iff] at hemp
      rw [hemp] at this; simp at this
    · have hi := iter_inv p dest res h
      have hg := iter_good p dest res
      cases hit : iter p dest res with
      | cont p' d' r' =>
        rw [hit] at hi hg
        obtain ⟨h1, h2, -⟩ := hg
        simp only [if_pos h2]
        simp only [StepInv] at hi
        rw [← h1.dsome] at hi
        exact LoopInv.trans h1 (ih _ (by omega) p' d' r' hi rfl)
      | stop p' r' => rw [hit] at hi; exact hi
      | err p' e => rw [hit] at hi; exact hi.elim
      | panic s => rw [hit] at hi; exact hi.elim

/-! ## One `parse` call -/

/-- Stream bytes handed to the caller by one operation: what a successful `parse` wrote into `dest`,
resp. appended to the internal stream buffer. -/
def deliveredOp (p : Parser) : Op → Bytes
  | .parse new dest =>
    match p.parse new dest with
    | (p', .ok st) =>
      (match dest with
       | some _ => st.delivered
       | none => p'.parsed.drop p.parsed.length)
    | _ => []
  | _ => []

/-- **Ledger of delivered bytes** over an operation history. -/
def deliveredOps : Parser → List Op → Bytes
  | _, [] => []
  | p, op :: t => deliveredOp p op ++ deliveredOps (applyOp p op) t

/-- All bytes handed to the parser by the `parse` calls of a history. -/
def fedBytes : List Op → Bytes
  | [] => []
  | .parse new _ :: t => new ++ fedBytes t
  | _ :: t => fedBytes t

/-- The history contains no `set_stream` call. -/
def NoSet (ops : List Op) : Prop := ∀ s, Op.setStream s ∉ ops

theorem Sim.feed {E p new fut remC remO} (h : Sim E p (new ++ fut) remC remO) :
    Sim E (p.feed new) fut remC remO := by
  refine ⟨h.id, h.role, h.strm, h.mc, h.mem, h.endm, ?_⟩
  obtain ⟨c, pd, rs, ct, hb, hc, hpd, hw, hrc, hro⟩ := h.core
  exact ⟨c, pd, rs, ct, hb, hc, hpd, by simpa [Parser.feed] using hw, hrc, hro⟩

/-- **One legal `parse` call** under the invariant: returns `Ok`; what it delivers is the next
piece of the stream content; what it queues is the next piece of the owed replies; `stream_end`
only with nothing remaining, the parser standing at the end mark; and, with nothing left to feed, it stops early only on a full `dest`. -/
theorem parse_sim {E fut remC remO} {p : Parser} {new : Bytes} {dest : Option Nat}
    (hs : Sim E p (new ++ fut) remC remO) (hcap : p.freeStart ≤ p.cap)
    (hd : dest = none ∨ p.parsed = []) (hfree : new.length ≤ p.free) :
    ∃ p' st remC' remO', p.parse new dest = (p', .ok st) ∧ Sim E p' fut remC' remO' ∧
      deliveredOp p (.parse new dest) ++ remC' = remC ∧
      C03S.outGrowth p (.parse new dest) ++ remO' = remO ∧
      (st.streamEnd = true → remC' = [] ∧ remO' = [] ∧ p'.pay = 0 ∧ p'.pad = 0 ∧
        p'.raw ++ fut = E.tail) ∧
      (Full E fut → st.streamEnd = true ∨ ∃ n, dest = some n ∧ st.delivered.length = n) := by
  have hfr := parse_frame p new dest
  have hI : Inv E fut dest.isSome (got dest.isSome (p.feed new) (initStatus p) ++ remC)
      (p.output ++ remO) (p.feed new) (initStatus p) := by
    refine ⟨remC, remO, hs.feed, rfl, rfl, fun h => ?_⟩
    simp [initStatus, hs.strm] at h
  have hl := loop_inv (p.feed new) dest (initStatus p) hI
  rw [← parse_eq_loop p new dest hcap hd hfree] at hl
  cases hp : p.parse new dest with
  | mk p' pr =>
    rw [hp] at hl hfr
    cases pr with
    | err e => exact hl.elim
    | panic s => exact hl.elim
    | ok st =>
      obtain ⟨⟨remC', remO', hs', hC, hO, hse⟩, hlive⟩ := hl
      obtain ⟨-, -, -, -, -, ⟨o, ho⟩, ⟨x, hx⟩⟩ := hfr
      simp only at ho hx
      refine ⟨p', st, remC', remO', rfl, hs', ?_, ?_, hse, ?_⟩
      · cases dest with
        | some n =>
          simp only [deliveredOp, hp]
          simpa [got, initStatus] using hC
        | none =>
          simp only [deliveredOp, hp]
          simp only [got, Option.isSome_none, Bool.false_eq_true, if_false, Parser.feed] at hC
          rw [← hx] at hC ⊢
          rw [List.append_assoc] at hC
          rw [List.drop_left]
          exact List.append_cancel_left hC
      · simp only [C03S.outGrowth, hp]
        rw [← ho] at hO ⊢
        rw [List.append_assoc] at hO
        rw [List.drop_left]
        exact List.append_cancel_left hO
      · intro hf
        rcases hlive hf with h | ⟨h1, h2⟩
        · exact Or.inl h
        · cases dest with
          | none => cases h1
          | some n => exact Or.inr ⟨n, rfl, by simpa [initStatus] using h2⟩

/-! ## Operation histories -/

/-- `Q (delivered so far, this call included) (result)` holds for every `parse` call of a history. -/
def EveryParse (Q : Bytes → ParseRes → Prop) : Bytes → Parser → List Op → Prop
  | _, _, [] => True
  | acc, p, op :: t =>
    (match op with
     | .parse new dest => Q (acc ++ deliveredOp p op) (p.parse new dest).2
     | _ => True) ∧ EveryParse Q (acc ++ deliveredOp p op) (applyOp p op) t

/-- The call returned `Ok`; the bytes delivered so far are a prefix of the stream content; and
`stream_end` is reported only once all of it was delivered. -/
def EndExact (content : Bytes) (D : Bytes) (r : ParseRes) : Prop :=
  ∃ st, r = .ok st ∧ D <+: content ∧ (st.streamEnd = true → D = content)

theorem EveryParse.congr {Q Q' : Bytes → ParseRes → Prop} (h : ∀ D r, Q D r → Q' D r) :
    ∀ {acc p ops}, EveryParse Q acc p ops → EveryParse Q' acc p ops := by
  intro acc p ops
  induction ops generalizing acc p with
  | nil => exact id
  | cons op t ih =>
    rintro ⟨h1, h2⟩
    refine ⟨?_, ih h2⟩
    cases op <;> first | exact h _ _ h1 | trivial

/-- **The simulation over a legal operation history** (any interleaving of `parse` with any `dest`
and any new input, `consume_stream`, `compress`, `consume_output`). -/
theorem ops_sim {E : Env} {x : Bytes} : ∀ (ops : List Op) (p : Parser) (remC remO acc : Bytes),
    Sim E p (fedBytes ops ++ x) remC remO → SInv p → LegalAll p ops → NoSet ops →
    ∃ remC' remO', Sim E (applyOps p ops) x remC' remO' ∧ SInv (applyOps p ops) ∧
      deliveredOps p ops ++ remC' = remC ∧ C03S.grownAll p ops ++ remO' = remO ∧
      EveryParse (EndExact (acc ++ remC)) acc p ops := by
  intro ops
  induction ops with
  | nil =>
    intro p remC remO acc hs hinv _ _
    exact ⟨remC, remO, by simpa [fedBytes] using hs, hinv, rfl, rfl, trivial⟩
  | cons op t ih =>
    intro p remC remO acc hs hinv hl hns
    obtain ⟨hl1, hl2⟩ := hl
    have hns' : NoSet t := fun s hm => hns s (List.mem_cons_of_mem _ hm)
    have hinv' := (step_safe hinv hl1).1
    have keep : ∀ (op' : Op), op = op' → fedBytes (op' :: t) = fedBytes t →
        deliveredOp p op' = [] → C03S.outGrowth p op' = [] →
        (applyOp p op').request = p.request → (applyOp p op').stream = p.stream →
        (applyOp p op').maxConns = p.maxConns → (applyOp p op').raw = p.raw →
        (applyOp p op').pay = p.pay → (applyOp p op').pad = p.pad →
        (applyOp p op').state = p.state → (match op' with | .parse _ _ => False | _ => True) →
        ∃ remC' remO', Sim E (applyOps p (op :: t)) x remC' remO' ∧ SInv (applyOps p (op :: t)) ∧
          deliveredOps p (op :: t) ++ remC' = remC ∧ C03S.grownAll p (op :: t) ++ remO' = remO ∧
          EveryParse (EndExact (acc ++ remC)) acc p (op :: t) := by
      intro op' hop hfed hdel hgr e1 e2 e3 e4 e5 e6 e7 hnp
      subst hop
      rw [hfed] at hs
      have hs' : Sim E (applyOp p op) (fedBytes t ++ x) remC remO :=
        hs.of_core e1 e2 e3 (by rw [e4, e5, e6, e7]; exact hs.core)
      obtain ⟨remC', remO', a1, a2, a3, a4, a5⟩ := ih (applyOp p op) remC remO acc hs' hinv' hl2 hns'
      refine ⟨remC', remO', a1, a2, ?_, ?_, ?_, ?_⟩
      · simp only [deliveredOps, hdel, List.nil_append]; exact a3
      · simp only [C03S.grownAll, hgr, List.nil_append]; exact a4
      · cases op <;> first | exact hnp.elim | trivial
      · simp only [hdel, List.append_nil]; exact a5
    cases op with
    | parse new dest =>
      have hs1 : Sim E p (new ++ (fedBytes t ++ x)) remC remO := by
        simpa [fedBytes, List.append_assoc] using hs
      obtain ⟨p', st, remC1, remO1, hp, hs', hdel, hgr, hse, -⟩ :=
        parse_sim hs1 hinv.1 hl1.1 hl1.2
      have hap : applyOp p (.parse new dest) = p' := by simp [applyOp, hp]
      rw [hap] at hl2 hinv'
      obtain ⟨remC', remO', a1, a2, a3, a4, a5⟩ :=
        ih p' remC1 remO1 (acc ++ deliveredOp p (.parse new dest)) hs' hinv' hl2 hns'
      refine ⟨remC', remO', by simpa [hap] using a1, by simpa [hap] using a2, ?_, ?_, ?_, ?_⟩
      · simp only [deliveredOps, hap, List.append_assoc, a3, hdel]
      · simp only [C03S.grownAll, hap, List.append_assoc, a4, hgr]
      · refine ⟨st, by rw [hp], ?_, fun h => ?_⟩
        · rw [← hdel, ← List.append_assoc]; exact List.prefix_append _ _
        · rw [← hdel, (hse h).1, List.append_nil]
      · rw [hap]
        rw [← hdel, ← List.append_assoc]
        exact a5
    | consumeStream amt =>
      exact keep _ rfl rfl rfl rfl rfl rfl rfl rfl rfl rfl rfl trivial
    | compress => exact keep _ rfl rfl rfl rfl rfl rfl rfl rfl rfl rfl rfl trivial
    | consumeOutput amt => exact keep _ rfl rfl rfl rfl rfl rfl rfl rfl rfl rfl rfl trivial
    | setStream s => exact absurd List.mem_cons_self (hns s)

/-! ## Establishing the invariant; the end position; draining into `dest` -/

/-- At a record boundary in front of the stream's records the invariant holds, with all of the
content still to be delivered and all replies still owed. -/
theorem Sim.init {id role s mc : Nat} {tail content fut : Bytes} {body : List Rec} {p : Parser}
    (hb : Body id s content body) (hend : EndMark id role s tail) (hmem : s ∈ inputStreams role)
    (hid : p.request.id = id) (hrole : p.request.role = role) (hs : p.stream = some s)
    (hmc : p.maxConns = mc) (hpay : p.pay = 0) (hpad : p.pad = 0)
    (hw : p.raw ++ fut = serAll body ++ tail) :
    Sim ⟨id, role, s, mc, tail⟩ p fut content (owedStream id s mc body) := by
  refine ⟨hid, hrole, hs, hmc, hmem, hend, [], [], body, content, hb, hpay.symm, hpad.symm, ?_, ?_, ?_⟩
  · simpa using hw
  · rw [stateC_nil]; rfl
  · rw [stateO_nil]; rfl

theorem serAll_eq_nil {rs : List Rec} (h : serAll rs = []) : rs = [] := by
  cases rs with
  | nil => rfl
  | cons r t =>
    rw [serAll_cons] at h
    have := congrArg List.length h
    simp only [List.length_append, ser_length, List.length_nil] at this
    omega

/-- Standing at the end mark, nothing remains to be delivered and no reply is owed. -/
theorem Sim.at_end {E p fut remC remO} (h : Sim E p fut remC remO) (hpay : p.pay = 0)
    (hpad : p.pad = 0) (hw : p.raw ++ fut = E.tail) : remC = [] ∧ remO = [] := by
  obtain ⟨c, pd, rs, ct, hb, hc, hpd, hw', hrc, hro⟩ := h.core
  have h1 : c = [] := List.length_eq_zero_iff.1 (hc.trans hpay)
  have h2 : pd = [] := List.length_eq_zero_iff.1 (hpd.trans hpad)
  subst h1 h2
  rw [hw] at hw'
  simp only [List.nil_append] at hw'
  have h3 : rs = [] := serAll_eq_nil (List.append_left_eq_self.1 hw'.symm)
  subst h3
  cases hb
  rw [stateC_nil] at hrc
  rw [stateO_nil] at hro
  exact ⟨hrc, hro⟩

theorem deliveredOps_append (p : Parser) (a b : List Op) :
    deliveredOps p (a ++ b) = deliveredOps p a ++ deliveredOps (applyOps p a) b := by
  induction a generalizing p with
  | nil => rfl
  | cons op t ih => simp only [List.cons_append, deliveredOps, applyOps_cons, ih, List.append_assoc]

theorem applyOps_append (p : Parser) (a b : List Op) :
    applyOps p (a ++ b) = applyOps (applyOps p a) b := by
  simp [applyOps, List.foldl_append]

theorem grownAll_append (p : Parser) (a b : List Op) :
    C03S.grownAll p (a ++ b) = C03S.grownAll p a ++ C03S.grownAll (applyOps p a) b := by
  induction a generalizing p with
  | nil => rfl
  | cons op t ih => simp only [List.cons_append, C03S.grownAll, applyOps_cons, ih, List.append_assoc]

/-- `k` calls `parse(0, Some(dest))` with a `dest` of `n` bytes. -/
def drainOps (n k : Nat) : List Op := List.replicate k (Op.parse [] (some n))

/-- **Draining into caller buffers.**  With nothing left to feed, repeated `parse(0, Some(dest))`
with `|dest| = n > 0` reaches `stream_end` after at most `|remC|` further calls, having delivered
exactly `remC`. -/
theorem drain_some {E : Env} {fut : Bytes} (hf : Full E fut) {n : Nat} (hn : 0 < n) :
    ∀ (m : Nat) (p : Parser) (remC remO : Bytes), remC.length ≤ m → Sim E p fut remC remO →
      SInv p → p.parsed = [] →
      ∃ k, k ≤ remC.length ∧ ∃ q' st,
        (applyOps p (drainOps n k)).parse [] (some n) = (q', .ok st) ∧ st.streamEnd = true ∧
        deliveredOps p (drainOps n (k + 1)) = remC ∧
        C03S.grownAll p (drainOps n (k + 1)) = remO := by
  intro m
  induction m with
  | zero =>
    intro p remC remO hm hs hinv hpar
    have hs0 : Sim E p ([] ++ fut) remC remO := by simpa using hs
    obtain ⟨p', st, remC', remO', hp, hs', hdel, hgr, hse, hlive⟩ :=
      parse_sim (dest := some n) hs0 hinv.1 (Or.inr hpar) (by simp)
    have hrc : remC = [] := List.length_eq_zero_iff.1 (by omega)
    have hend : st.streamEnd = true := by
      rcases hlive hf with h | ⟨n', h1, h2⟩
      · exact h
      · cases h1
        have : st.delivered = [] := by
          have h3 := hdel
          simp only [deliveredOp, hp, hrc] at h3
          exact (List.append_eq_nil_iff.1 h3).1
        rw [this] at h2; simp at h2; omega
    obtain ⟨a, b, -⟩ := hse hend
    refine ⟨0, Nat.zero_le _, p', st, by simpa [drainOps] using hp, hend, ?_, ?_⟩
    · simp only [drainOps, List.replicate, deliveredOps, List.append_nil]
      rw [← hdel, a, List.append_nil]
    · simp only [drainOps, List.replicate, C03S.grownAll, List.append_nil]
      rw [← hgr, b, List.append_nil]
  | succ m ih =>
    intro p remC remO hm hs hinv hpar
    have hs0 : Sim E p ([] ++ fut) remC remO := by simpa using hs
    have hleg : Legal p (.parse [] (some n)) := ⟨Or.inr hpar, by simp⟩
    obtain ⟨p', st, remC', remO', hp, hs', hdel, hgr, hse, hlive⟩ :=
      parse_sim (dest := some n) hs0 hinv.1 (Or.inr hpar) (by simp)
    have hap : applyOp p (.parse [] (some n)) = p' := by simp [applyOp, hp]
    have hdv : deliveredOp p (.parse [] (some n)) = st.delivered := by simp [deliveredOp, hp]
    rcases hlive hf with h | ⟨n', h1, h2⟩
    · obtain ⟨a, b, -⟩ := hse h
      refine ⟨0, Nat.zero_le _, p', st, by simpa [drainOps] using hp, h, ?_, ?_⟩
      · simp only [drainOps, List.replicate, deliveredOps, List.append_nil]
        rw [← hdel, a, List.append_nil]
      · simp only [drainOps, List.replicate, C03S.grownAll, List.append_nil]
        rw [← hgr, b, List.append_nil]
    · cases h1
      have hinv' : SInv p' := by rw [← hap]; exact (step_safe hinv hleg).1
      have hpar' : p'.parsed = [] :=
        ((C03S.counts_exact hinv.1 (Or.inr hpar) (by simp) hp).2.2.1 n rfl).1
      have hlen : remC'.length ≤ m := by
        have := congrArg List.length hdel
        rw [hdv] at this
        simp only [List.length_append] at this
        omega
      obtain ⟨k, hk, q', st', hq, hse', hd', hg'⟩ := ih p' remC' remO' hlen hs' hinv' hpar'
      refine ⟨k + 1, ?_, q', st', ?_, hse', ?_, ?_⟩
      · have := congrArg List.length hdel
        rw [hdv] at this
        simp only [List.length_append] at this
        omega
      · simpa [drainOps, List.replicate_succ, hap] using hq
      · simp only [drainOps, List.replicate_succ, deliveredOps, hap] at hd' ⊢
        rw [hd', hdel]
      · simp only [drainOps, List.replicate_succ, C03S.grownAll, hap] at hg' ⊢
        rw [hg', hgr]

end Fcgi.Str
