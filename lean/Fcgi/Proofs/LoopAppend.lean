import Fcgi.Proofs.IgnoreMode
import Fcgi.Proofs.ChainSkip
/-!
# The parse loop over `a ++ b` (ignore mode)

`parseHead_feed`, `parsePayload_feed`: the micro-steps on a buffer that is long enough do not look at
what follows.  `loop_append`: if the loop over `x` consumes all of `x` and ends at a record boundary,
the loop over `x ++ b` is the loop over `b` continued from that state.
-/
namespace Fcgi.Str
open Fcgi Fcgi.Req

/-- append `b` to the unparsed bytes of the parser an iteration returns -/
def mapFeed (b : Bytes) : Iter → Iter
  | .cont q d r => .cont (q.feed b) d r
  | .stop q r => .stop (q.feed b) r
  | .err q e => .err (q.feed b) e
  | .panic s => .panic s

theorem parseHead_feed (p : Parser) (b : Bytes) (d : Option Nat) (r : Status) (h8 : 8 ≤ p.raw.length) :
    parseHead (p.feed b) d r = mapFeed b (parseHead p d r) := by
  obtain ⟨cap, g0, parsed, g1, raw, output, request, stream, pay, pad, state, mc⟩ := p
  match raw, h8 with
  | b0 :: b1 :: b2 :: b3 :: b4 :: b5 :: b6 :: b7 :: rest, _ =>
    simp only [Parser.feed, List.cons_append, parseHead]
    split
    · rfl
    · rfl
    · rename_i head hh
      cases hc : cmpInputStreams request.role head.rtype stream with
      | none =>
        simp only [apply_ite (mapFeed b)]
        simp only [mapFeed, Parser.feed, List.cons_append]
        try rfl
      | some o =>
        cases o <;> simp only [apply_ite (mapFeed b)] <;> simp only [mapFeed, Parser.feed, List.cons_append] <;> try rfl
    · rfl

theorem parsePayload_feed (p : Parser) (b : Bytes) (d : Option Nat) (r : Status) (hs : p.state ≠ .stream)
    (hp : p.pay ≤ p.raw.length) :
    ∃ q d1 r1, q.pay = 0 ∧ q.pad = p.pad ∧ q.raw = p.raw.drop p.pay ∧
      parsePayload p d r = (if p.pay < p.raw.length then .cont q d1 r1 else .stop q r1) ∧
      parsePayload (p.feed b) d r =
        (if p.pay < p.raw.length + b.length then .cont (q.feed b) d1 r1 else .stop (q.feed b) r1) := by
  obtain ⟨cap, g0, parsed, g1, raw, output, request, stream, pay, pad, state, mc⟩ := p
  simp only at hs hp
  have hmin : min pay raw.length = pay := Nat.min_eq_left hp
  have hmin' : min pay (raw ++ b).length = pay := Nat.min_eq_left (by simp; omega)
  have htake : (raw ++ b).take pay = raw.take pay := List.take_append_of_le_length hp
  have hdrop : (raw ++ b).drop pay = raw.drop pay ++ b := List.drop_append_of_le_length hp
  cases state with
  | stream => exact absurd rfl hs
  | skip =>
    refine ⟨{ cap, g0, parsed, g1 := g1 + pay, raw := raw.drop pay, output, request, stream, pay := 0, pad,
              state := .skip, maxConns := mc }, d, r, rfl, rfl, rfl, ?_, ?_⟩
    · simp only [parsePayload, hmin]
      simp
    · simp only [parsePayload, Parser.feed, hmin', hdrop]
      simp
  | values v =>
    refine ⟨{ cap, g0, parsed, g1 := g1 + pay, raw := raw.drop pay,
              output := output ++ Vars.responseRecord (Vars.extend v (NV.all (raw.take pay)).1) mc, request, stream,
              pay := 0, pad, state := .values (Vars.extend v (NV.all (raw.take pay)).1), maxConns := mc }, d,
      { r with output := r.output + (Vars.responseRecord (Vars.extend v (NV.all (raw.take pay)).1) mc).length },
      rfl, rfl, rfl, ?_, ?_⟩
    · simp only [parsePayload, hmin]
      simp [Nat.not_lt.2 hp]
    · simp only [parsePayload, Parser.feed, hmin', hdrop, htake]
      simp [Nat.not_lt.2 (show pay ≤ raw.length + b.length by omega)]
      rw [hdrop]

/-- a parser that consumed all it was given and stands at a record boundary -/
def Clean (q : Parser) : Prop := q.raw = [] ∧ q.pay = 0 ∧ q.pad = 0

theorem padHead_feed_cont {q q1 : Parser} {d d1 : Option Nat} {r r1 : Status} (b : Bytes)
    (h : E2E.padHead q d r = .cont q1 d1 r1) : E2E.padHead (q.feed b) d r = .cont (q1.feed b) d1 r1 := by
  unfold E2E.padHead at h ⊢
  have key : ∀ (x : Parser), parseHead x d r = .cont q1 d1 r1 → parseHead (x.feed b) d r = .cont (q1.feed b) d1 r1 := by
    intro x hx
    have hfr := E2E.parseHead_fr x d r
    rw [hx] at hfr
    obtain ⟨b0, b1, b2, b3, b4, b5, b6, b7, rest, hraw, -⟩ := hfr
    rw [parseHead_feed x b d r (by rw [hraw]; simp), hx]
    rfl
  by_cases hpad : q.pad > 0
  · simp only [hpad, if_true] at h
    by_cases hle : q.raw.length ≤ q.pad
    · simp only [hle, if_true] at h; cases h
    · simp only [hle, if_false] at h
      have hle' : ¬ (q.feed b).raw.length ≤ (q.feed b).pad := by
        simp only [Parser.feed, List.length_append]; omega
      have hpad' : (q.feed b).pad > 0 := hpad
      simp only [hpad', if_true, hle', if_false]
      have := key _ h
      have heq : ({ q with raw := q.raw.drop q.pad, g1 := q.g1 + q.pad, pad := 0 } : Parser).feed b =
          { (q.feed b) with raw := (q.feed b).raw.drop (q.feed b).pad, g1 := (q.feed b).g1 + (q.feed b).pad, pad := 0 } := by
        simp only [Parser.feed]
        rw [List.drop_append_of_le_length (by omega)]
      rw [← heq]; exact this
  · have hpad' : ¬ (q.feed b).pad > 0 := hpad
    simp only [hpad, if_false] at h
    simp only [hpad', if_false]
    exact key q h

theorem parseHead_nil (x : Parser) (d : Option Nat) (r : Status) (h : x.raw = []) : parseHead x d r = .stop x r := by
  unfold parseHead; rw [h]

theorem padHead_feed_stop_clean {q q1 : Parser} {d : Option Nat} {r r1 : Status} {b : Bytes} (hb : b ≠ [])
    (h : E2E.padHead q d r = .stop q1 r1) (hc : Clean q1) :
    E2E.padHead (q.feed b) d r = E2E.padHead (q1.feed b) d r1 := by
  obtain ⟨c1, c2, c3⟩ := hc
  have hbl : 0 < b.length := List.length_pos_iff.mpr hb
  unfold E2E.padHead at h
  by_cases hpad : q.pad > 0
  · simp only [hpad, if_true] at h
    by_cases hle : q.raw.length ≤ q.pad
    · simp only [hle, if_true] at h
      injection h with h1 h2
      subst h1 h2
      simp only at c3
      have hlen : q.raw.length = q.pad := by omega
      unfold E2E.padHead
      have hpad' : (q.feed b).pad > 0 := hpad
      have hle' : ¬ (q.feed b).raw.length ≤ (q.feed b).pad := by
        simp only [Parser.feed, List.length_append]; omega
      have hp1 : ¬ (({ q with raw := [], g1 := q.g1 + q.raw.length, pad := q.pad - q.raw.length } : Parser).feed b).pad > 0 := by
        simp only [Parser.feed]; omega
      simp only [hpad', if_true, hle', if_false, hp1]
      congr 1
      simp only [Parser.feed, List.nil_append]
      rw [List.drop_append_of_le_length (by omega), ← hlen, List.drop_length, List.nil_append]
      simp [hlen]
    · simp only [hle, if_false] at h
      have hfr := E2E.parseHead_fr { q with raw := q.raw.drop q.pad, g1 := q.g1 + q.pad, pad := 0 } d r
      rw [h] at hfr
      have : q1.raw = q.raw.drop q.pad := by rw [hfr]
      rw [c1] at this
      have hl := congrArg List.length this
      simp only [List.length_nil, List.length_drop] at hl
      omega
  · simp only [hpad, if_false] at h
    have hfr := E2E.parseHead_fr q d r
    rw [h] at hfr
    subst hfr
    rw [parseHead_nil q1 d r c1] at h
    injection h with _ h2
    rw [h2]

theorem iter_feed_cont {p q : Parser} {d d1 : Option Nat} {r r1 : Status} (b : Bytes) (hs : p.state ≠ .stream)
    (h : iter p d r = .cont q d1 r1) : iter (p.feed b) d r = .cont (q.feed b) d1 r1 := by
  rw [E2E.iter_eq] at h ⊢
  by_cases hpay : p.pay > 0
  · have hpay' : (p.feed b).pay > 0 := hpay
    simp only [hpay, if_true] at h
    simp only [hpay', if_true]
    have hfr := E2E.parsePayload_fr p d r
    cases hpp : parsePayload p d r with
    | cont q2 d2 r2 =>
      rw [hpp] at h hfr
      obtain ⟨k, hk1, hk2, -, hk4, hk5, -⟩ := hfr
      have hple : p.pay ≤ p.raw.length := by omega
      obtain ⟨q', d', r', -, -, -, e1, e2⟩ := parsePayload_feed p b d r hs hple
      rw [hpp] at e1
      split at e1
      · rename_i hlt
        injection e1 with a1 a2 a3
        subst a1 a2 a3
        rw [e2, if_pos (by omega)]
        exact padHead_feed_cont b h
      · cases e1
    | stop q2 r2 => rw [hpp] at h; cases h
    | err q2 e => rw [hpp] at h; cases h
    | panic s => rw [hpp] at h; cases h
  · have hpay' : ¬ (p.feed b).pay > 0 := hpay
    simp only [hpay, if_false] at h
    simp only [hpay', if_false]
    exact padHead_feed_cont b h

theorem iter_feed_stop_clean {p q : Parser} {d : Option Nat} {r r1 : Status} {b : Bytes} (hb : b ≠ [])
    (hs : p.state ≠ .stream) (h : iter p d r = .stop q r1) (hc : Clean q) :
    ∃ d', iter (p.feed b) d r = iter (q.feed b) d' r1 := by
  have hbl : 0 < b.length := List.length_pos_iff.mpr hb
  have hq0 : ¬ (q.feed b).pay > 0 := by
    have : (q.feed b).pay = q.pay := rfl
    rw [this, hc.2.1]; omega
  rw [E2E.iter_eq] at h
  by_cases hpay : p.pay > 0
  · have hpay' : (p.feed b).pay > 0 := hpay
    simp only [hpay, if_true] at h
    have hfr := E2E.parsePayload_fr p d r
    cases hpp : parsePayload p d r with
    | cont q2 d2 r2 =>
      rw [hpp] at h hfr
      obtain ⟨k, hk1, hk2, -, hk4, hk5, -⟩ := hfr
      have hple : p.pay ≤ p.raw.length := by omega
      obtain ⟨q', d', r', -, -, -, e1, e2⟩ := parsePayload_feed p b d r hs hple
      rw [hpp] at e1
      split at e1
      · injection e1 with a1 a2 a3
        subst a1 a2 a3
        refine ⟨d2, ?_⟩
        rw [E2E.iter_eq, E2E.iter_eq]
        simp only [hpay', if_true, hq0, if_false]
        rw [e2, if_pos (by omega)]
        exact padHead_feed_stop_clean hb h hc
      · cases e1
    | stop q2 r2 =>
      rw [hpp] at h hfr
      injection h with h1 h2
      subst h1 h2
      obtain ⟨k, hk1, hk2, -, hk4, -⟩ := hfr
      have hple : p.pay ≤ p.raw.length := by have := hc.2.1; omega
      obtain ⟨q', d', r', -, -, -, e1, e2⟩ := parsePayload_feed p b d r hs hple
      rw [hpp] at e1
      split at e1
      · cases e1
      · injection e1 with a1 a2
        subst a1 a2
        refine ⟨d', ?_⟩
        rw [E2E.iter_eq, E2E.iter_eq]
        simp only [hpay', if_true, hq0, if_false]
        rw [e2, if_pos (by omega)]
    | err q2 e => rw [hpp] at h; cases h
    | panic s => rw [hpp] at h; cases h
  · have hpay' : ¬ (p.feed b).pay > 0 := hpay
    simp only [hpay, if_false] at h
    refine ⟨d, ?_⟩
    rw [E2E.iter_eq, E2E.iter_eq]
    simp only [hpay', if_false, hq0]
    exact padHead_feed_stop_clean hb h hc

theorem feed_nil (p : Parser) : p.feed [] = p := by
  cases p; simp [Parser.feed]

theorem SInv_feed' {p : Parser} {b : Bytes} (h : SInv p) (hf : p.freeStart + b.length ≤ p.cap) : SInv (p.feed b) :=
  SInv_feed h (by unfold Parser.free; omega)

/-- **Loop-append (ignore mode).**  If the loop over the buffered bytes consumes all of them and ends
at a record boundary (`Clean`), then with `b` appended to the buffer the loop does exactly the same
and continues over `b` from that state (whatever the destination: in ignore mode it is irrelevant). -/
theorem loop_append : ∀ (n : Nat) (p : Parser) (b : Bytes) (d : Option Nat) (r : Status), p.raw.length ≤ n →
    SInv p → Ign p → p.freeStart + b.length ≤ p.cap →
    ∀ (q : Parser) (st : Status), loop p d r = (q, .ok st) → Clean q →
      ∀ d', loop (p.feed b) d r = loop (q.feed b) d' st := by
  intro n
  induction n with
  | zero =>
    intro p b d r hn hinv hig hf q st hl _ d'
    have he : p.raw = [] := List.length_eq_zero_iff.1 (by omega)
    rw [loop.eq_1 p d r] at hl
    simp only [he, List.isEmpty_nil, if_true] at hl
    injection hl with h1 h2
    injection h2 with h2
    subst h1 h2
    exact loop_dest _ (p.feed b) d' d r (Nat.le_refl _) (SInv_feed' hinv hf) hig
  | succ n ih =>
    intro p b d r hn hinv hig hf q st hl hc d'
    by_cases hb : b = []
    · subst hb
      rw [feed_nil, feed_nil, hl]
      rw [loop.eq_1 q d' st]
      simp [hc.1]
    have hbl : 0 < b.length := List.length_pos_iff.mpr hb
    rw [loop.eq_1 p d r] at hl
    by_cases he : p.raw.isEmpty
    · rw [if_pos he] at hl
      injection hl with h1 h2
      injection h2 with h2
      subst h1 h2
      exact loop_dest _ (p.feed b) d' d r (Nat.le_refl _) (SInv_feed' hinv hf) hig
    · rw [if_neg he] at hl
      have hg := iter_good p d r
      have hi := iter_ign p d r hinv hig
      have hne : ¬ (p.feed b).raw.isEmpty := by
        simp only [Parser.feed, List.isEmpty_iff, List.append_eq_nil_iff]
        exact fun h => hb h.2
      cases hit : iter p d r with
      | panic s => rw [hit] at hl; cases hl
      | err q1 e => rw [hit] at hl; cases hl
      | stop q1 r1 =>
        rw [hit] at hl hg hi
        injection hl with h1 h2
        injection h2 with h2
        subst h1 h2
        obtain ⟨⟨dd, hrel⟩, hsinv1⟩ := hg
        have hf1 : q1.freeStart + b.length ≤ q1.cap := by rw [hrel.fs, hrel.cap]; exact hf
        have hinvq := SInv_feed' (hsinv1 hinv) hf1
        have higq : Ign (q1.feed b) := hi
        obtain ⟨d2, hstep⟩ := iter_feed_stop_clean hb hig.2 hit hc
        have hneq : ¬ (q1.feed b).raw.isEmpty := by
          simp only [Parser.feed, List.isEmpty_iff, List.append_eq_nil_iff]
          exact fun h => hb h.2
        rw [loop_dest _ (q1.feed b) d2 d' r1 (Nat.le_refl _) hinvq higq]
        rw [loop.eq_1 (p.feed b) d r, loop.eq_1 (q1.feed b) d2 r1, if_neg hne, if_neg hneq, hstep]
        have hg2 := iter_good (q1.feed b) d2 r1
        cases hit2 : iter (q1.feed b) d2 r1 with
        | panic s => rw [hit2] at hg2; exact absurd hinvq hg2
        | err q2 e => rfl
        | stop q2 r2 => rfl
        | cont q2 d3 r3 =>
          rw [hit2] at hg2
          simp only
          have h1 : q2.raw.length < (q1.feed b).raw.length := hg2.2.1
          have h2 : q2.raw.length < (p.feed b).raw.length := by
            simp only [Parser.feed, List.length_append, hc.1, List.length_nil, Nat.zero_add] at h1 ⊢
            omega
          rw [if_pos h1, if_pos h2]
      | cont q1 d1 r1 =>
        rw [hit] at hl hg hi
        simp only at hl
        by_cases hlt : q1.raw.length < p.raw.length
        · rw [if_pos hlt] at hl
          obtain ⟨hrel, -, hsinv1⟩ := hg
          have hf1 : q1.freeStart + b.length ≤ q1.cap := by rw [hrel.fs, hrel.cap]; exact hf
          have := ih q1 b d1 r1 (by omega) (hsinv1 hinv) hi hf1 q st hl hc d'
          rw [loop.eq_1 (p.feed b) d r, if_neg hne, iter_feed_cont b hig.2 hit]
          simp only
          rw [if_pos (by simp only [Parser.feed, List.length_append]; omega)]
          exact this
        · rw [if_neg hlt] at hl; cases hl

/-! ## The parser a call leaves does not depend on the `Status` it starts from -/

/-- same constructor, same parser, same destination -/
def SameP : Iter → Iter → Prop
  | .cont q d _, .cont q' d' _ => q = q' ∧ d = d'
  | .stop q _, .stop q' _ => q = q'
  | .err q e, .err q' e' => q = q' ∧ e = e'
  | .panic s, .panic s' => s = s'
  | _, _ => False

theorem parseHead_res (p : Parser) (d : Option Nat) (r r' : Status) : SameP (parseHead p d r) (parseHead p d r') := by
  unfold parseHead
  split
  · rename_i b0 b1 b2 b3 b4 b5 b6 b7 rest hraw
    split
    · exact ⟨rfl, rfl⟩
    · exact ⟨rfl, rfl⟩
    · rename_i head hh
      simp only []
      cases hc : cmpInputStreams p.request.role head.rtype p.stream with
      | none => repeat' split
                all_goals first | rfl | exact ⟨rfl, rfl⟩
      | some o =>
        cases o <;> (repeat' split) <;> first | rfl | exact ⟨rfl, rfl⟩
    · exact ⟨rfl, rfl⟩
  · rfl

theorem parsePayload_res (p : Parser) (d : Option Nat) (r r' : Status) :
    SameP (parsePayload p d r) (parsePayload p d r') := by
  unfold parsePayload
  cases hst : p.state with
  | stream =>
    cases d with
    | some c => simp only []; repeat' split
                all_goals first | rfl | exact ⟨rfl, rfl⟩
    | none => simp only []; repeat' split
              all_goals first | rfl | exact ⟨rfl, rfl⟩
  | skip => simp only []; repeat' split
            all_goals first | rfl | exact ⟨rfl, rfl⟩
  | values v =>
    by_cases hlt : p.raw.length < p.pay
    · simp only [hlt, if_true]; repeat' split
      all_goals first | rfl | exact ⟨rfl, rfl⟩
    · simp only [hlt, if_false]; repeat' split
      all_goals first | rfl | exact ⟨rfl, rfl⟩

theorem padHead_res (q : Parser) (d : Option Nat) (r r' : Status) :
    SameP (E2E.padHead q d r) (E2E.padHead q d r') := by
  unfold E2E.padHead
  split
  · split
    · rfl
    · exact parseHead_res _ d r r'
  · exact parseHead_res q d r r'

theorem iter_res (p : Parser) (d : Option Nat) (r r' : Status) : SameP (iter p d r) (iter p d r') := by
  rw [E2E.iter_eq, E2E.iter_eq]
  by_cases hpay : p.pay > 0
  · simp only [hpay, if_true]
    have h := parsePayload_res p d r r'
    cases h1 : parsePayload p d r <;> cases h2 : parsePayload p d r' <;> rw [h1, h2] at h <;>
      first | exact h.elim | skip
    · obtain ⟨rfl, rfl⟩ := h; exact padHead_res _ _ _ _
    · exact h
    · exact h
    · exact h
  · simp only [hpay, if_false]
    exact padHead_res p d r r'

def okRes : ParseRes → Bool
  | .ok _ => true
  | _ => false

/-- the parser and the kind of result do not depend on the initial `Status` -/
theorem loop_res : ∀ (n : Nat) (p : Parser) (d : Option Nat) (r r' : Status), p.raw.length ≤ n →
    (loop p d r).1 = (loop p d r').1 ∧ okRes (loop p d r).2 = okRes (loop p d r').2 := by
  intro n
  induction n with
  | zero =>
    intro p d r r' hn
    have he : p.raw = [] := List.length_eq_zero_iff.1 (by omega)
    rw [loop.eq_1 p d r, loop.eq_1 p d r']
    simp [he, okRes]
  | succ n ih =>
    intro p d r r' hn
    rw [loop.eq_1 p d r, loop.eq_1 p d r']
    by_cases he : p.raw.isEmpty
    · rw [if_pos he, if_pos he]; exact ⟨rfl, rfl⟩
    · rw [if_neg he, if_neg he]
      have h := iter_res p d r r'
      cases h1 : iter p d r <;> cases h2 : iter p d r' <;> rw [h1, h2] at h <;>
        first | exact h.elim | skip
      · obtain ⟨rfl, rfl⟩ := h
        rename_i q d1 r1 r2
        simp only
        by_cases hlt : q.raw.length < p.raw.length
        · rw [if_pos hlt, if_pos hlt]; exact ih q d1 r1 r2 (by omega)
        · rw [if_neg hlt, if_neg hlt]; exact ⟨rfl, rfl⟩
      · subst h; exact ⟨rfl, rfl⟩
      · obtain ⟨rfl, rfl⟩ := h; exact ⟨rfl, rfl⟩
      · exact ⟨rfl, rfl⟩

/-- **One `parse` call over `a ++ b` in ignore mode** is the call over `a` followed by the call over
`b`, when the call over `a` consumes all of it and ends at a record boundary: the same parser (its
output buffer included), the same kind of result. -/
theorem parse_append_ign {p : Parser} {a b : Bytes} {q : Parser} {st : Status} (hinv : SInv p) (hig : Ign p)
    (hfree : (a ++ b).length ≤ p.free) (ha : p.parse a none = (q, .ok st)) (hc : Clean q) :
    (p.parse (a ++ b) none).1 = (q.parse b none).1 ∧
      okRes (p.parse (a ++ b) none).2 = okRes (q.parse b none).2 := by
  have hfa : a.length ≤ p.free := by simp only [List.length_append] at hfree; omega
  have hfs : p.freeStart ≤ p.cap := hinv.1
  rw [parse_eq_loop p a none hfs (Or.inl rfl) hfa] at ha
  rw [parse_eq_loop p (a ++ b) none hfs (Or.inl rfl) hfree]
  have hinva := SInv_feed hinv hfa
  have hga := loop_good (p.feed a) none (initStatus p)
  rw [ha] at hga
  obtain ⟨⟨dd, hrel⟩, hsq⟩ := hga
  have hq := hsq hinva
  have e0 : (p.feed a).freeStart = p.freeStart + a.length := by
    simp only [Parser.feed, Parser.freeStart, List.length_append]; omega
  have e3 : (p.feed a).cap = p.cap := rfl
  have hfq : b.length ≤ q.free := by
    unfold Parser.free at hfree ⊢
    simp only [List.length_append] at hfree
    rw [hrel.fs, hrel.cap, e0, e3]
    omega
  rw [parse_eq_loop q b none hq.1 (Or.inl rfl) hfq]
  have happ : p.feed (a ++ b) = (p.feed a).feed b := by simp [Parser.feed, List.append_assoc]
  rw [happ]
  have hff : (p.feed a).freeStart + b.length ≤ (p.feed a).cap := by
    unfold Parser.free at hfree
    simp only [List.length_append] at hfree
    rw [e0, e3]
    omega
  rw [loop_append _ (p.feed a) b none (initStatus p) (Nat.le_refl _) hinva hig hff q st ha hc none]
  exact loop_res _ (q.feed b) none st (initStatus q) (Nat.le_refl _)

end Fcgi.Str
