import Fcgi.Proofs.E2EStop
import Fcgi.Proofs.E2EMulti
import Fcgi.Proofs.E2EIndep3Conn

/-!
# C14(a) end to end: the stop flag at an arbitrary poll of a connection serving TWO requests

`runFeed`: the model's executor `runTask` (same body, `runFeed_nil`) with a closed-loop client: when
the task has parked (a poll ended `Pending`, the waker was not invoked, nothing is released) and the
client still has a wire to send, it sends it (`feedA`: appended to the transport's input) and the task
is polled again — otherwise as `runTask`: a parked task sleeps until the poll `stopAt`.

`leg1`: request 1 up to the flag or up to the moment the client sends request 2.  `run_stop2`: the
whole run; after the feed it is `run_stop` for request 2 (`runFeed … [] = runTask …`), and the write
log only grows (`runTask_grow`), so the complete log of request 1 stays a prefix.
-/
namespace Fcgi.C14E
open Fcgi Fcgi.Req Fcgi.Str Fcgi.Async Fcgi.Run Fcgi.Spec Fcgi.E2E

/-- the peer sends `w` -/
def feedA (c : Conn) (w : Bytes) : Conn :=
  { c with env := { c.env with tr := { c.env.tr with input := c.env.tr.input ++ w } } }

theorem feedA_eq_feed (c : Conn) (w : Bytes) (h : c.env.tr.input = []) : feedA c w = E2E.feed c w := by
  unfold feedA E2E.feed
  rw [h, List.nil_append]

/-- `runTask` with a closed-loop client holding the wires `ws` of further requests -/
def runFeed (fuel : Nat) (c : Conn) (pollNo : Nat) (stopAt : Option Nat) (ws : List Bytes) : Conn × String :=
  match fuel with
  | 0 => (c, "FUEL")
  | fuel + 1 =>
    match pollConn (connFuel (prePoll c pollNo stopAt)) (prePoll c pollNo stopAt) with
    | (c, .finished) => (c, "RET")
    | (c, .panic _) => (c, "PANIC")
    | (c, .pending) =>
      if c.env.tr.woken then runFeed fuel c (pollNo + 1) stopAt ws
      else
        let (env, _) := c.env.release
        if env.tr.woken then runFeed fuel { c with env := env } (pollNo + 1) stopAt ws
        else
          let c := { c with env := env }
          match ws with
          | w :: ws' => runFeed fuel (feedA c w) (pollNo + 1) stopAt ws'
          | [] =>
            match stopAt with
            | some k => if k > pollNo && !c.stop then runFeed fuel c k stopAt [] else (c, "STALL")
            | none => (c, "STALL")

theorem runFeed_succ (fuel : Nat) (c : Conn) (pollNo : Nat) (stopAt : Option Nat) (ws : List Bytes) :
    runFeed (fuel + 1) c pollNo stopAt ws =
      match pollConn (connFuel (prePoll c pollNo stopAt)) (prePoll c pollNo stopAt) with
      | (c, .finished) => (c, "RET")
      | (c, .panic _) => (c, "PANIC")
      | (c, .pending) =>
        if c.env.tr.woken then runFeed fuel c (pollNo + 1) stopAt ws
        else
          let (env, _) := c.env.release
          if env.tr.woken then runFeed fuel { c with env := env } (pollNo + 1) stopAt ws
          else
            let c := { c with env := env }
            match ws with
            | w :: ws' => runFeed fuel (feedA c w) (pollNo + 1) stopAt ws'
            | [] =>
              match stopAt with
              | some k => if k > pollNo && !c.stop then runFeed fuel c k stopAt [] else (c, "STALL")
              | none => (c, "STALL") := by
  rw [runFeed]

/-- with nothing left to send, `runFeed` IS the model's executor -/
theorem runFeed_nil : ∀ (fuel : Nat) (c : Conn) (n : Nat) (sa : Option Nat),
    runFeed fuel c n sa [] = runTask fuel c n sa
  | 0, _, _, _ => rfl
  | f + 1, c, n, sa => by
    rw [runFeed_succ, runTask_succ]
    rcases pollConn (connFuel (prePoll c n sa)) (prePoll c n sa) with ⟨c1, r⟩
    cases r with
    | finished => rfl
    | panic s => rfl
    | pending =>
      simp only
      by_cases hw : c1.env.tr.woken = true
      · simp only [hw, if_true]; exact runFeed_nil f _ _ _
      · have hw' : c1.env.tr.woken = false := by simpa using hw
        simp only [hw', Bool.false_eq_true, if_false]
        rcases c1.env.release with ⟨env, any⟩
        simp only
        by_cases hw2 : env.tr.woken = true
        · simp only [hw2, if_true]; exact runFeed_nil f _ _ _
        · have hw2' : env.tr.woken = false := by simpa using hw2
          simp only [hw2', Bool.false_eq_true, if_false]
          cases sa with
          | none => rfl
          | some k =>
            simp only
            split
            · exact runFeed_nil f _ _ _
            · rfl

/-! ## With the flag raised the task never parks: `run_S`, `run_at` for `runFeed` -/

theorem run_S_feed {g : E2E.Cfg} (ok : g.OK) (ws : List Bytes) : ∀ (A : Nat) (c : Conn) (n fuel : Nat) (sa : Option Nat),
    StageS g c → c.env.segs = [] → ans c.env.tr ≤ A → A + 1 ≤ fuel →
    4 * c.env.tr.input.length + 17 ≤ 100000 →
    ∃ c', runFeed fuel c n sa ws = (c', "RET") ∧ FinOut g c' := by
  intro A
  induction A with
  | zero =>
    intro c n fuel sa hst hsegs hA hf hlen
    obtain ⟨f, rfl⟩ : ∃ f, fuel = f + 1 := ⟨fuel - 1, by omega⟩
    obtain ⟨hsame, hph, hsc, hstop, hmx, hsg, hwk⟩ := prePoll_same c n hsegs
    have hst0 := hst.cong hph hsc hstop hmx hsame
    obtain ⟨c', r, hh, hl, ho⟩ := stageS_poll ok hst0
    have hpoll := hh.pollT (by rw [hsame.input]; exact hlen)
    have hans0 : ans (prePoll c n none).env.tr = ans c.env.tr := by unfold ans; rw [hsame.rd, hsame.wr]
    rw [runFeed_succ, prePoll_stopped c n sa hst.stop, hpoll]
    cases ho with
    | early h => exact ⟨c', rfl, Or.inl h⟩
    | @done O1 O2 ex hO h => exact ⟨c', rfl, Or.inr ⟨O1, O2, ex, hO, h⟩⟩
    | pend hs' hw ha => omega
  | succ A ih =>
    intro c n fuel sa hst hsegs hA hf hlen
    obtain ⟨f, rfl⟩ : ∃ f, fuel = f + 1 := ⟨fuel - 1, by omega⟩
    obtain ⟨hsame, hph, hsc, hstop, hmx, hsg, hwk⟩ := prePoll_same c n hsegs
    have hst0 := hst.cong hph hsc hstop hmx hsame
    obtain ⟨c', r, hh, hl, ho⟩ := stageS_poll ok hst0
    have hpoll := hh.pollT (by rw [hsame.input]; exact hlen)
    have hans0 : ans (prePoll c n none).env.tr = ans c.env.tr := by unfold ans; rw [hsame.rd, hsame.wr]
    have hlen' : 4 * c'.env.tr.input.length + 17 ≤ 100000 := by
      have := hl.ts.inp
      rw [hsame.input] at this
      omega
    rw [runFeed_succ, prePoll_stopped c n sa hst.stop, hpoll]
    cases ho with
    | early h => exact ⟨c', rfl, Or.inl h⟩
    | @done O1 O2 ex hO h => exact ⟨c', rfl, Or.inr ⟨O1, O2, ex, hO, h⟩⟩
    | pend hs' hw ha =>
      simp only [hw, if_true]
      exact ih c' (n + 1) f sa hs' (hl.segs.trans hsg) (by omega) (by omega) hlen'

theorem run_at_feed {g : E2E.Cfg} (ok : g.OK) (ws : List Bytes) {c : Conn} {j fuel : Nat} (hst : Stage g c)
    (hsegs : c.env.segs = [])
    (hf : ans c.env.tr + 1 ≤ fuel) (hlen : 4 * c.env.tr.input.length + 17 ≤ 100000) :
    ∃ c', runFeed fuel c j (some j) ws = (c', "RET") ∧ FinOut g c' := by
  obtain ⟨f, rfl⟩ : ∃ f, fuel = f + 1 := ⟨fuel - 1, by omega⟩
  have hS : StageS g { c with stop := true } := by
    refine ⟨rfl, ?_⟩
    have : unstop { c with stop := true } = c := by
      obtain ⟨ph, env, sc, st⟩ := c
      have := stage_stop_false hst
      simp only at this
      subst this
      rfl
    rw [this]; exact hst
  have heq : runFeed (f + 1) c j (some j) ws = runFeed (f + 1) { c with stop := true } j (some j) ws := by
    rw [runFeed_succ, runFeed_succ, prePoll_eq, prePoll_stopped { c with stop := true } j (some j) rfl]
  rw [heq]
  exact run_S_feed ok ws (ans c.env.tr) { c with stop := true } j (f + 1) (some j) hS hsegs (Nat.le_refl _) hf hlen

/-! ## Leg 1: request 1, until the flag or until the client sends request 2 -/

/-- how the first leg ends: the task has returned (flag seen, or the run was over), or the task has
parked behind request 1 at a poll `m < j` and the client sends `w` -/
def Leg1 (g : E2E.Cfg) (j : Nat) (w : Bytes) (fuel : Nat) (c : Conn) (n : Nat) : Prop :=
  (∃ c', runFeed fuel c n (some j) [w] = (c', "RET") ∧ StopOut g c') ∨
  (∃ cP O1 O2 m f', O1 ++ O2 = g.Ot ∧ Parked g O1 O2 cP ∧ m < j ∧ cP.env.segs = [] ∧
      ans cP.env.tr ≤ ans c.env.tr ∧ fuel ≤ f' + (ans c.env.tr - ans cP.env.tr) + 1 ∧
      runFeed fuel c n (some j) [w] = runFeed f' (feedA cP w) (m + 1) (some j) [])

theorem leg1 {g : E2E.Cfg} (ok : g.OK) (j : Nat) (w : Bytes) : ∀ (A : Nat) (c : Conn) (n fuel : Nat),
    Stage g c → c.env.segs = [] → n ≤ j → ans c.env.tr ≤ A → A + 2 ≤ fuel →
    4 * c.env.tr.input.length + 17 ≤ 100000 → Leg1 g j w fuel c n := by
  intro A
  induction A with
  | zero =>
    intro c n fuel hst hsegs hn hA hf hlen
    by_cases hnj : n = j
    · subst hnj
      obtain ⟨c', h1, h2⟩ := run_at_feed ok [w] (j := n) (fuel := fuel) hst hsegs (by omega) hlen
      exact Or.inl ⟨c', h1, Or.inl h2⟩
    · obtain ⟨f, rfl⟩ : ∃ f, fuel = f + 1 := ⟨fuel - 1, by omega⟩
      obtain ⟨hsame, hph, hsc, hstop, hmx, hsg, hwk⟩ := prePoll_same c n hsegs
      have hst0 := hst.cong hph hsc hstop hmx hsame
      obtain ⟨c', r, hh, hl, ho⟩ := stage_poll ok hst0
      have hpoll := hh.pollT (by rw [hsame.input]; exact hlen)
      have hans0 : ans (prePoll c n none).env.tr = ans c.env.tr := by unfold ans; rw [hsame.rd, hsame.wr]
      unfold Leg1
      rw [runFeed_succ, prePoll_ne c n j (fun h => hnj h.symm), hpoll]
      cases ho with
      | @fin O1 O2 hO hfin => exact Or.inl ⟨c', rfl, Or.inr ⟨O1, O2, hO, hfin⟩⟩
      | pend hs' hw ha => omega
      | @park O1 O2 hs' hO hp =>
        rcases hl.ts.wk with hw | ⟨_, ha⟩
        · rw [hwk] at hw
          have hsg' : c'.env.segs = [] := hl.segs.trans hsg
          simp only [hw, Bool.false_eq_true, if_false]
          rw [release_nil _ hsg']
          simp only [hw, Bool.false_eq_true, if_false]
          refine Or.inr ⟨{ c' with env := { c'.env with tr := { c'.env.tr with hold := false, woken := false } } }, O1, O2, n, f, hO,
            hp.cong rfl rfl rfl rfl ⟨rfl, rfl, rfl, rfl, rfl, rfl, [], by simp, Quiet.nil⟩, by omega, hsg', ?_, ?_, rfl⟩
          · show ans c'.env.tr ≤ ans c.env.tr
            have := hl.ts.ans_le; omega
          · omega
        · omega
  | succ A ih =>
    intro c n fuel hst hsegs hn hA hf hlen
    by_cases hnj : n = j
    · subst hnj
      obtain ⟨c', h1, h2⟩ := run_at_feed ok [w] (j := n) (fuel := fuel) hst hsegs (by omega) hlen
      exact Or.inl ⟨c', h1, Or.inl h2⟩
    · obtain ⟨f, rfl⟩ : ∃ f, fuel = f + 1 := ⟨fuel - 1, by omega⟩
      obtain ⟨hsame, hph, hsc, hstop, hmx, hsg, hwk⟩ := prePoll_same c n hsegs
      have hst0 := hst.cong hph hsc hstop hmx hsame
      obtain ⟨c', r, hh, hl, ho⟩ := stage_poll ok hst0
      have hpoll := hh.pollT (by rw [hsame.input]; exact hlen)
      have hans0 : ans (prePoll c n none).env.tr = ans c.env.tr := by unfold ans; rw [hsame.rd, hsame.wr]
      have hsg' : c'.env.segs = [] := hl.segs.trans hsg
      have hlen' : 4 * c'.env.tr.input.length + 17 ≤ 100000 := by
        have := hl.ts.inp
        rw [hsame.input] at this
        omega
      have hale : ans c'.env.tr ≤ ans c.env.tr := by have := hl.ts.ans_le; omega
      unfold Leg1
      rw [runFeed_succ, prePoll_ne c n j (fun h => hnj h.symm), hpoll]
      cases ho with
      | @fin O1 O2 hO hfin => exact Or.inl ⟨c', rfl, Or.inr ⟨O1, O2, hO, hfin⟩⟩
      | pend hs' hw ha =>
        simp only [hw, if_true]
        rcases ih c' (n + 1) f hs' hsg' (by omega) (by omega) (by omega) hlen' with
          ⟨c2, h1, h2⟩ | ⟨cP, O1, O2, m, f', hO, hp, hm, hsP, haP, hfP, heq⟩
        · exact Or.inl ⟨c2, h1, h2⟩
        · exact Or.inr ⟨cP, O1, O2, m, f', hO, hp, hm, hsP, by omega, by omega, heq⟩
      | @park O1 O2 hs' hO hp =>
        rcases hl.ts.wk with hw | ⟨hw, ha⟩
        · rw [hwk] at hw
          simp only [hw, Bool.false_eq_true, if_false]
          rw [release_nil _ hsg']
          simp only [hw, Bool.false_eq_true, if_false]
          refine Or.inr ⟨{ c' with env := { c'.env with tr := { c'.env.tr with hold := false, woken := false } } }, O1, O2, n, f, hO,
            hp.cong rfl rfl rfl rfl ⟨rfl, rfl, rfl, rfl, rfl, rfl, [], by simp, Quiet.nil⟩, by omega, hsg', ?_, ?_, rfl⟩
          · show ans c'.env.tr ≤ ans c.env.tr
            exact hale
          · omega
        · simp only [hw, if_true]
          rcases ih c' (n + 1) f hs' hsg' (by omega) (by omega) (by omega) hlen' with
            ⟨c2, h1, h2⟩ | ⟨cP, O1, O2, m, f', hO, hp, hm, hsP, haP, hfP, heq⟩
          · exact Or.inl ⟨c2, h1, h2⟩
          · exact Or.inr ⟨cP, O1, O2, m, f', hO, hp, hm, hsP, by omega, by omega, heq⟩

/-! ## The whole run -/

/-- How the run over two requests ends when the flag is raised at poll `j`: during request 1 / before
the client has sent request 2 (`StopOut g1`), or later — then the complete log of request 1 is in
the write log and the rest is `StopOut` for request 2 started at that log. -/
def StopOut2 (g1 g2 : E2E.Cfg) (c' : Conn) : Prop :=
  StopOut g1 c' ∨
  ∃ O1 O2, O1 ++ O2 = g1.Ot ∧ g1.L3 O1 O2 <+: c'.env.tr.wlog ∧ StopOut (g2.at (g1.L3 O1 O2)) c'

theorem run_stop2 {g1 g2 : E2E.Cfg} (ok1 : g1.OK) (ok2 : g2.OK) (hl : Linked g1 g2) (j : Nat)
    {c : Conn} {n fuel : Nat} (hst : Stage g1 c) (hsegs : c.env.segs = []) (hn : n ≤ j)
    (hf : ans c.env.tr + 3 ≤ fuel) (hlen : 4 * c.env.tr.input.length + 17 ≤ 100000)
    (hlen2 : 4 * g2.W.length + 17 ≤ 100000) :
    ∃ c', runFeed fuel c n (some j) [g2.W] = (c', "RET") ∧ StopOut2 g1 g2 c' := by
  rcases leg1 ok1 j g2.W (ans c.env.tr) c n fuel hst hsegs hn (Nat.le_refl _) (by omega) hlen with
    ⟨c', h1, h2⟩ | ⟨cP, O1, O2, m, f', hO, hp, hm, hsP, haP, hfP, heq⟩
  · exact ⟨c', h1, Or.inl h2⟩
  · have hfe : feedA cP g2.W = E2E.feed cP (g2.at (g1.L3 O1 O2)).W := feedA_eq_feed cP g2.W hp.inp
    have hst2 : Stage (g2.at (g1.L3 O1 O2)) (feedA cP g2.W) := by
      rw [hfe]; exact next_stage (g2 := g2.at (g1.L3 O1 O2)) hp (hl.at_right _) rfl
    have hin2 : (feedA cP g2.W).env.tr.input = g2.W := by
      show cP.env.tr.input ++ g2.W = g2.W
      rw [hp.inp]; rfl
    obtain ⟨c', hrun, hout⟩ := run_stop (ok2.at (g1.L3 O1 O2)) j (ans cP.env.tr) (feedA cP g2.W) (m + 1) f' hst2
      hsP (by omega) (Nat.le_refl _) (by omega) (by rw [hin2]; exact hlen2)
    refine ⟨c', by rw [heq, runFeed_nil]; exact hrun, Or.inr ⟨O1, O2, hO, ?_, hout⟩⟩
    have hg := Indep3.runTask_grow f' (feedA cP g2.W) (m + 1) (some j)
    rw [hrun] at hg
    obtain ⟨⟨wx, hw⟩, _⟩ := hg
    have hw' : c'.env.tr.wlog = cP.env.tr.wlog ++ wx := hw
    rw [hw', hp.log]
    exact List.prefix_append _ _

end Fcgi.C14E
