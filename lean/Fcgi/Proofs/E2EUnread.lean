import Fcgi.Proofs.E2EAbortTail
/-!
# End-to-end composition (C07/C05) — handlers that leave their input unread, part 1

A Responder handler that does not read Stdin at all (`[.ret st]`, or the canonical write-only
`[.open_ 6, .writeAll 0 data, .dropW 0, .ret st]`).  `close`: `writeable()` is ready at once (a
Responder is writeable from the start), `set_stream(None)`, and `record_boundary()` returns at once —
the stream parser has not started a record (`pay = pad = 0`).  So `close` consumes NOTHING of the
Stdin stream: the epilogue is written, and the whole stream (what the request parser had read ahead
plus what is still in the transport) is handed to the NEXT request parser, which swallows its
records as idle noise — answering the management / unknown-type records among them as *idle* noise
(`owed none`), AFTER the epilogue.

`idleOwed`, `run_idle_out`: what the request parser makes of a list of idle-noise records.
`ZTail` / `ztail_poll`: `parse_request` over a wire of which only a prefix has arrived (the client
sends the next request only after the answer).  `UStage`, `ustage_poll`, `run_unread`: the stages
of the request and the executor.
-/
namespace Fcgi.E2E
open Fcgi Fcgi.Req Fcgi.Str Fcgi.Async Fcgi.Run Fcgi.Spec

/-! ## Idle noise, list-wise -/

/-- the replies the request parser owes for records it meets while idle -/
def idleOwed (mc : Nat) (us : List Rec) : Bytes := us.flatMap (owed none mc)

theorem idleOwed_cons (mc : Nat) (e : Rec) (us : List Rec) : idleOwed mc (e :: us) = owed none mc e ++ idleOwed mc us := by
  simp [idleOwed]

theorem wf_idle {p : Preamble} {recs : List Rec} (h : WellFormedPreamble p recs) :
    ∀ us : List Rec, (∀ e ∈ us, IdleNoise e) → WellFormedPreamble p (us ++ recs)
  | [], _ => h
  | e :: us, hu => .noise e (hu e List.mem_cons_self) (wf_idle h us (fun x hx => hu x (List.mem_cons_of_mem _ hx)))

theorem owedPreamble_idle (p : Preamble) (mc : Nat) :
    ∀ (us : List Rec), (∀ e ∈ us, IdleNoise e) → ∀ rs, owedPreamble p mc (us ++ rs) = idleOwed mc us ++ owedPreamble p mc rs
  | [], _, _ => rfl
  | e :: us, hu, rs => by
    rw [List.cons_append, C01.owedPreamble_noise p mc (hu e List.mem_cons_self),
      owedPreamble_idle p mc us (fun x hx => hu x (List.mem_cons_of_mem _ hx)), idleOwed_cons, List.append_assoc]

theorem noiseFits_app {M : Nat} {a b : List Rec} (ha : NoiseFits M a) (hb : NoiseFits M b) : NoiseFits M (a ++ b) := by
  intro r hr
  rcases List.mem_append.1 hr with hr | hr
  · exact ha r hr
  · exact hb r hr

theorem owed_emptyGetValues {r : Rec} (h : EmptyGetValues r) (mc : Nat) : owed none mc r = [] := by
  obtain ⟨ht, hid, hc, _⟩ := h
  simp [owed, ht, hid, hc, RT.valid, RT.getValues]

/-- The request parser over a list of idle-noise records: exactly the owed replies, nothing left. -/
theorem run_idle_out (mc : Nat) : ∀ (us : List Rec), (∀ e ∈ us, IdleNoise e) →
    (run .header (serAll us) mc).out = idleOwed mc us ∧ (run .header (serAll us) mc).rem = [] ∧
      (run .header (serAll us) mc).st.isFinal = false
  | [], _ => by rw [serAll_nil, resting_header mc]; exact ⟨rfl, rfl, rfl⟩
  | e :: us, hu => by
    have he := hu e List.mem_cons_self
    have ih := run_idle_out mc us (fun x hx => hu x (List.mem_cons_of_mem _ hx))
    rw [serAll_cons, idleOwed_cons]
    by_cases hus : us = []
    · subst hus
      rw [serAll_nil, List.append_nil]
      by_cases hg : EmptyGetValues e
      · rw [header_emptyGetValues_last e he.1 hg mc, owed_emptyGetValues hg]
        exact ⟨rfl, rfl, rfl⟩
      · have h := header_noise e he [] mc (Or.inr hg)
        rw [List.append_nil, resting_header mc] at h
        rw [h]
        exact ⟨by simp [pre, idleOwed], rfl, rfl⟩
    · have h := header_noise e he (serAll us) mc (Or.inl (serAll_ne_nil hus))
      rw [h]
      exact ⟨by simp [pre, ih.1], ih.2.1, ih.2.2⟩

/-- a trivial well-formed preamble (used only for its buffer bound: `remainder_lt` speaks about
prefixes of a preamble's wire) -/
def dummyP : Preamble := { id := 1, role := 1, flags := 0, pairs := [] }
def dummyRecs : List Rec :=
  [ { rtype := 1, id := 1, content := [0, 1, 0, 0, 0, 0, 0, 0], pad := [] },
    { rtype := 4, id := 1, content := [], pad := [] } ]

theorem dummy_wf : WellFormedPreamble dummyP dummyRecs :=
  .begin [] 0 [0, 0, 0, 0, 0] rfl (by decide) (by decide) (by decide) (fun q hq => by cases hq) (.done [] 0 (by decide))

theorem dummy_fits (M : Nat) : NoiseFits M dummyRecs := fun r hr hg => by
  exfalso
  simp only [dummyRecs, List.mem_cons, List.not_mem_nil, or_false] at hr
  rcases hr with rfl | rfl <;> exact absurd hg.1 (by decide)

/-- the leftover `serAll us` in front of any well-formed preamble's wire: never stuck, never final
before the preamble is complete -/
theorem idle_front {p : Preamble} {recs : List Rec} (hwf : WellFormedPreamble p recs) (b mc : Nat)
    (hpairs : ∀ q ∈ p.pairs, (NV.enc q).length ≤ alignedBufsize b) (hnoise : NoiseFits (alignedBufsize b) recs)
    {us : List Rec} (hu : ∀ e ∈ us, IdleNoise e) (hfit : NoiseFits (alignedBufsize b) us) (X : Bytes) :
    NoStuckW (alignedBufsize b) mc (serAll us ++ (serAll recs ++ X)) ∧
    ∀ F x, F ++ x ++ (serAll recs ++ X) = serAll us ++ (serAll recs ++ X) →
      (run .header F mc).st.isFinal = false := by
  have hwf' := wf_idle hwf us hu
  constructor
  · have := noStuck_of hwf' X b mc hpairs (noiseFits_app hfit hnoise)
    rwa [serAll_app, List.append_assoc] at this
  · intro F x hFx
    have h1 : F ++ x = serAll us := List.append_cancel_right hFx
    refine prefix_not_final hwf' (w := F) (t := x ++ serAll recs) ?_ ?_ mc
    · rw [← List.append_assoc, h1, serAll_app]
    · intro hx
      exact C01.preamble_ser_ne hwf (List.append_eq_nil_iff.1 hx).2

/-! ## `parse_request` over a wire whose end `Z` has not arrived yet -/

/-- what phase transitions inside `parse_request` leave alone -/
structure PKeep (sc : List (List HOp × Bool)) (h0 : Nat) (evs : List String) (c : Conn) : Prop where
  sc : c.scripts = sc
  mx : c.env.mutex = none
  hs : hsCount c.env.tr.events = h0
  ev : ∀ s ∈ evs, s ∈ c.env.tr.events

theorem PKeep.frame {sc : List (List HOp × Bool)} {h0 : Nat} {evs : List String} {c c' : Conn}
    (h : PKeep sc h0 evs c) (f : Frame c c') : PKeep sc h0 evs c' :=
  ⟨f.scripts.trans h.sc, f.mutex.trans h.mx, f.ts.hs.trans h.hs, fun s hs => f.ts.mem_events (h.ev s hs)⟩

theorem PKeep.same {sc : List (List HOp × Bool)} {h0 : Nat} {evs : List String} {c c' : Conn}
    (h : PKeep sc h0 evs c) (hsc : c'.scripts = c.scripts) (hm : c'.env.mutex = c.env.mutex)
    (ts : TrSame c.env.tr c'.env.tr) : PKeep sc h0 evs c' :=
  ⟨hsc.trans h.sc, hm.trans h.mx, ts.hs.trans h.hs, fun s hs => ts.mem (h.ev s hs)⟩

/-- inside (or at the start of) a `parse_request` on the wire `W0`, of which `Z` has not arrived -/
def ZT (cap mc : Nat) (W0 L Z : Bytes) (c : Conn) : Prop :=
  (∃ F, PSt cap mc W0 L Z c F) ∨
  (∃ raw, c.phase = .parseReq ⟨cap, raw, .header, mc⟩ .start ∧ raw ++ c.env.tr.input ++ Z = W0 ∧
    raw.length ≤ cap ∧ c.env.tr.wlog = L ∧ Ben c.env.tr ∧ c.stop = false)

theorem ZT.cong {cap mc : Nat} {W0 L Z : Bytes} {c c' : Conn} (h : ZT cap mc W0 L Z c)
    (hph : c'.phase = c.phase) (hstop : c'.stop = c.stop) (hs : TrSame c.env.tr c'.env.tr) :
    ZT cap mc W0 L Z c' := by
  rcases h with ⟨F, hst⟩ | ⟨raw, a, b, c0, d, e, f⟩
  · exact Or.inl ⟨F, hst.cong hph hstop hs⟩
  · exact Or.inr ⟨raw, hph.trans a, by rw [hs.input]; exact b, c0, hs.wlog.trans d, hs.ben e, hstop.trans f⟩

/-- parked: everything that has arrived (`F`) is consumed, its replies are written, `parse_request`
waits in its `read` -/
structure ZParked (cap mc : Nat) (W0 L Z : Bytes) (c : Conn) : Prop where
  pst : ∃ F, F ++ Z = W0 ∧ PSt cap mc W0 L Z c F ∧ c.phase = .parseReq (track cap mc F) .reading ∧
    c.env.tr.wlog = L ++ (run .header F mc).out
  inp : c.env.tr.input = []
  em : c.env.tr.endMode = .pend

/-- the peer closed instead of sending the rest: the task is done -/
structure ZFin (mc : Nat) (W0 L Z : Bytes) (c : Conn) : Prop where
  ph : c.phase = .finished
  log : ∃ F, F ++ Z = W0 ∧ c.env.tr.wlog = L ++ (run .header F mc).out
  em : c.env.tr.endMode = .eof

/-- how a poll of such a `parse_request` ends -/
def ZRes (cap mc : Nat) (W0 L Z : Bytes) (sc : List (List HOp × Bool)) (h0 : Nat) (evs : List String)
    (N : Nat) (c : Conn) : Prop :=
  (∃ c', Halts N c c' .pending ∧ Link c c' ∧ (ZT cap mc W0 L Z c' ∧ PKeep sc h0 evs c') ∧
    c'.env.tr.woken = true ∧ ans c'.env.tr < ans c.env.tr) ∨
  (∃ c', Halts N c c' .pending ∧ Link c c' ∧ c'.env.tr.woken = c.env.tr.woken ∧
    ZT cap mc W0 L Z c' ∧ PKeep sc h0 evs c' ∧ ZParked cap mc W0 L Z c') ∨
  (∃ c', Halts N c c' .finished ∧ Link c c' ∧ PKeep sc h0 evs c' ∧ ZFin mc W0 L Z c')

theorem ZRes.of_steps {cap mc : Nat} {W0 L Z : Bytes} {sc : List (List HOp × Bool)} {h0 : Nat}
    {evs : List String} {k N : Nat} {c c1 : Conn} (hs : Steps k c c1) (hl : Link c c1)
    (h : ZRes cap mc W0 L Z sc h0 evs N c1) : ZRes cap mc W0 L Z sc h0 evs (k + N) c := by
  rcases h with ⟨c', hh, hl2, hS, hw, ha⟩ | ⟨c', hh, hl2, hw, hz, hk, hp⟩ | ⟨c', hh, hl2, hk, hf⟩
  · exact Or.inl ⟨c', hh.of_steps hs, hl.trans hl2, hS, hw, by have := hl.ts.ans_le; omega⟩
  · rcases hl.ts.wk with hwk | ⟨hwk, hans⟩
    · exact Or.inr (Or.inl ⟨c', hh.of_steps hs, hl.trans hl2, hw.trans hwk, hz, hk, hp⟩)
    · exact Or.inl ⟨c', hh.of_steps hs, hl.trans hl2, ⟨hz, hk⟩, hw.trans hwk, by have := hl2.ts.ans_le; omega⟩
  · exact Or.inr (Or.inr ⟨c', hh.of_steps hs, hl.trans hl2, hk, hf⟩)

theorem ZRes.mono {cap mc : Nat} {W0 L Z : Bytes} {sc : List (List HOp × Bool)} {h0 : Nat}
    {evs : List String} {N M : Nat} {c : Conn} (h : ZRes cap mc W0 L Z sc h0 evs N c) (hm : N ≤ M) :
    ZRes cap mc W0 L Z sc h0 evs M c := by
  rcases h with ⟨c', hh, r⟩ | ⟨c', hh, r⟩ | ⟨c', hh, r⟩
  · exact Or.inl ⟨c', hh.mono hm, r⟩
  · exact Or.inr (Or.inl ⟨c', hh.mono hm, r⟩)
  · exact Or.inr (Or.inr ⟨c', hh.mono hm, r⟩)

theorem ztail_pst {cap mc : Nat} {W0 L Z : Bytes} (h24 : 24 ≤ cap) (hns : NoStuckW cap mc W0)
    (hNF : ∀ F x, F ++ x ++ Z = W0 → (run .header F mc).st.isFinal = false)
    {sc : List (List HOp × Bool)} {h0 : Nat} {evs : List String}
    {c : Conn} {F : Bytes} (hst : PSt cap mc W0 L Z c F) (hk : PKeep sc h0 evs c) :
    ZRes cap mc W0 L Z sc h0 evs (2 * c.env.tr.input.length + 5) c := by
  obtain ⟨n, c1, F1, hn, hs, hfr, hout⟩ := parse_loop h24 hns _ c F hst (Nat.le_refl _)
  have hnb : n ≤ 2 * c.env.tr.input.length + 2 := by have := wbit_le c; omega
  rcases hout with ⟨c2, h1, h2, h3, h4, h5⟩ | ⟨rest, t', _, hf, hw, _⟩ | ⟨hin, hnf, hph, hst1⟩
  · exact Or.inl ⟨c2, ⟨n, c1, by omega, hs, h1⟩, hfr.link.trans h3.link,
      ⟨Or.inl ⟨F1, h2⟩, (hk.frame hfr).frame h3⟩, h4, by have := hfr.ts.ans_le; omega⟩
  · rw [hNF F1 c1.env.tr.input hw] at hf
    cases hf
  · have hF1 : F1 ++ Z = W0 := by
      have := hst1.wire
      rwa [hin, List.append_nil] at this
    have hstep := step_reading c1 _ hph hst1.stop
    have hlog1 : c1.env.tr.wlog = L ++ (run .header F1 mc).out := by
      rcases hst1.ph with ⟨_, _, h⟩ | ⟨rest, hp', _⟩
      · exact h
      · rw [hph] at hp'; cases hp'
    have hfreepos : 0 < (track cap mc F1).free := by
      rcases hns F1 ⟨Z, hF1⟩ with h | h
      · rw [hnf] at h; cases h
      · simp only [track, Req.Parser.free]; omega
    have hk1 := hk.frame hfr
    rcases hrd : c1.env.tr.read (track cap mc F1).free with ⟨t, res⟩
    rw [hrd] at hstep
    have hts := read_tstep hrd
    have hwl : t.wlog = c1.env.tr.wlog := by have := read_wlog c1.env.tr (track cap mc F1).free; rwa [hrd] at this
    have hfr2 : Frame c1 { c1 with env := { c1.env with tr := t } } := ⟨rfl, rfl, rfl, rfl, hts⟩
    have hk2 := hk1.frame hfr2
    cases res with
    | pending =>
      obtain ⟨hi, hw⟩ := read_pending hst1.ben hrd
      have hst2 : PSt cap mc W0 L Z { c1 with env := { c1.env with tr := t } } F1 :=
        ⟨by simpa [hi] using hst1.wire, hst1.stop, hst1.ben.step hts, hst1.rem,
          Or.inl ⟨hph, hnf, by show t.wlog = _; rw [hwl, hlog1]⟩⟩
      rcases hw with hw | hw
      · exact Or.inl ⟨_, ⟨n, c1, by omega, hs, hstep⟩, hfr.link.trans hfr2.link,
          ⟨Or.inl ⟨F1, hst2⟩, hk2⟩, hw.1, by show ans t < ans c.env.tr; have := hfr.ts.ans_le; omega⟩
      · rcases hfr.ts.wk with hwk | ⟨hwk, hans⟩
        · exact Or.inr (Or.inl ⟨_, ⟨n, c1, by omega, hs, hstep⟩, hfr.link.trans hfr2.link,
            by show t.woken = c.env.tr.woken; rw [hw.2.2.2, hwk], Or.inl ⟨F1, hst2⟩, hk2,
            ⟨⟨F1, hF1, hst2, hph, by show t.wlog = _; rw [hwl, hlog1]⟩, by show t.input = []; rw [hi, hin],
              by show t.endMode = .pend; rw [hts.em]; exact hw.2.1⟩⟩)
        · exact Or.inl ⟨_, ⟨n, c1, by omega, hs, hstep⟩, hfr.link.trans hfr2.link,
            ⟨Or.inl ⟨F1, hst2⟩, hk2⟩, by show t.woken = true; rw [hw.2.2.2]; exact hwk,
            by show ans t < ans c.env.tr; have := hts.ans_le; omega⟩
    | ready x =>
      cases x with
      | error e => exact (read_error hst1.ben hrd).elim
      | ok bs =>
        obtain ⟨hinp, _, _, hz⟩ := read_ok_ben hst1.ben hrd
        have hbs : bs = [] := by
          rw [hin] at hinp
          exact (List.append_eq_nil_iff.1 hinp.symm).1
        subst hbs
        have heof : c1.env.tr.endMode = .eof := by
          rcases hz rfl with hz | hz
          · omega
          · exact hz.2
        have hfr3 : Frame c1 { c1 with phase := .finished, env := { c1.env with tr := t } } := ⟨rfl, rfl, rfl, rfl, hts⟩
        exact Or.inr (Or.inr ⟨{ c1 with phase := .finished, env := { c1.env with tr := t } },
          ⟨n, c1, by omega, hs, hstep⟩, hfr.link.trans hfr3.link, hk1.frame hfr3,
          ⟨rfl, ⟨F1, hF1, by show t.wlog = _; rw [hwl, hlog1]⟩, by show t.endMode = .eof; rw [hts.em]; exact heof⟩⟩)

/-- **One poll** of a `parse_request` whose wire has arrived only up to `Z`. -/
theorem ztail_poll {cap mc : Nat} {W0 L Z : Bytes} (h24 : 24 ≤ cap) (hns : NoStuckW cap mc W0)
    (hNF : ∀ F x, F ++ x ++ Z = W0 → (run .header F mc).st.isFinal = false)
    {sc : List (List HOp × Bool)} {h0 : Nat} {evs : List String}
    {c : Conn} (h : ZT cap mc W0 L Z c) (hk : PKeep sc h0 evs c) :
    ZRes cap mc W0 L Z sc h0 evs (2 * c.env.tr.input.length + 6) c := by
  rcases h with ⟨F, hst⟩ | ⟨raw, hph, hwire, hraw, hlog, hb, hstop⟩
  · exact (ztail_pst h24 hns hNF hst hk).mono (by omega)
  · have hpre : raw <+: W0 := ⟨c.env.tr.input ++ Z, by rw [← List.append_assoc]; exact hwire⟩
    have hstart := start_track h24 hraw (hns raw hpre)
    have hstep := step_start c _ hph hstop
    rw [hstart] at hstep
    have hstep' : stepConn c = .next (mkC c (.parseReq (track cap mc raw)
        (.writing (run .header raw mc).out (run .header raw mc).st.isFinal)) c.env.tr) := hstep
    have hremle : (run .header raw mc).rem.length ≤ cap := by
      have := (run_ok raw mc (st := .header) trivial).2.2.length_le
      omega
    have hst : PSt cap mc W0 L Z (mkC c (.parseReq (track cap mc raw)
        (.writing (run .header raw mc).out (run .header raw mc).st.isFinal)) c.env.tr) raw :=
      ⟨hwire, hstop, hb, hremle, Or.inr ⟨_, rfl, by show c.env.tr.wlog ++ _ = _; rw [hlog], [], rfl⟩⟩
    have hk' : PKeep sc h0 evs (mkC c (.parseReq (track cap mc raw)
        (.writing (run .header raw mc).out (run .header raw mc).st.isFinal)) c.env.tr) :=
      hk.frame ⟨rfl, rfl, rfl, rfl, .refl _⟩
    exact (ZRes.of_steps (Steps.one hstep') (mkC_link c _ (.refl _)) (ztail_pst h24 hns hNF hst hk')).mono
      (by show 1 + (2 * c.env.tr.input.length + 5) ≤ _; omega)

/-! ## A Responder request whose handler reads nothing -/

/-- The hypotheses; `g.body` = ALL records of the Stdin stream (they all stay unread), the handler is
`[.ret st]` or `[.open_ 6, .writeAll 0 data, .dropW 0, .ret st]`. -/
structure UOK (g : Cfg) : Prop where
  wf : WellFormedPreamble g.p g.recs
  role : g.p.role = 1
  pairs : ∀ q ∈ g.p.pairs, (NV.enc q).length ≤ alignedBufsize g.b
  noise : NoiseFits (alignedBufsize g.b) g.recs
  hX : g.X = serAll g.body
  hU : g.U = serAll g.body
  hOt : g.Ot = []
  hrv : g.revs = []
  mode : (g.hscript = [.ret g.st] ∧ g.data = []) ∨ g.hscript = oscript g.data g.st
  hfu : wcost g.data.length + 4 ≤ 1000

/-- the log when `close` is done: preamble replies, the handler's Stdout records, the epilogue -/
def Cfg.LU (g : Cfg) : Bytes := g.L1 ++ streamRecords 6 g.p.id g.data ++ g.epi

inductive UStage (g : Cfg) : Conn → Prop
  | start {c : Conn} {raw : Bytes} (hph : c.phase = .parseReq ⟨g.cap, raw, .header, g.mc⟩ .start)
      (hwire : raw ++ c.env.tr.input = g.W) (hraw : raw.length ≤ g.cap) (hlog : c.env.tr.wlog = g.L0)
      (hb : Ben c.env.tr) (hstop : c.stop = false)
      (hsc : c.scripts = (g.hscript, true) :: g.more) (hm : c.env.mutex = none)
      (hev : hsCount c.env.tr.events = g.hs0) : UStage g c
  | parse {c : Conn} {F : Bytes} (hst : PSt g.cap g.mc g.W g.L0 [] c F)
      (hsc : c.scripts = (g.hscript, true) :: g.more) (hm : c.env.mutex = none)
      (hev : hsCount c.env.tr.events = g.hs0) : UStage g c
  | hwrite {c : Conn} {r : AReq} {h : HState} {O1 : Bytes} (hph : c.phase = .handler r h)
      (hw : HWrite g.Wc O1 r h c.env) (hb : Ben c.env.tr) (hstop : c.stop = false)
      (hev : Ev1 g c.env.tr) (hsc : c.scripts = g.more) : UStage g c
  | closeW {c : Conn} {r : AReq} {rest' : Bytes}
      (hph : c.phase = .closing r (.writeOut rest' g.epi) g.st 0)
      (hce : CEndW g r c.env.tr.input) (hm : c.env.mutex = none)
      (hlog : c.env.tr.wlog ++ rest' ++ g.epi = g.LU)
      (hb : Ben c.env.tr) (hstop : c.stop = false) (hev : Ev1 g c.env.tr)
      (hsc : c.scripts = g.more) : UStage g c
  | close {c : Conn} {r : AReq} {rest' : Bytes} (hph : c.phase = .closing r (.writeEnd rest') g.st 0)
      (hce : CEnd g r c.env.tr.input) (hm : c.env.mutex = none) (hlog : c.env.tr.wlog ++ rest' = g.LU)
      (hb : Ben c.env.tr) (hstop : c.stop = false) (hev : Ev1 g c.env.tr)
      (hsc : c.scripts = g.more) : UStage g c

/-- `close` is done, the connection is reused: it is about to start the next `parse_request`; buffer
++ transport hold exactly the whole unread Stdin stream. -/
structure AfterU (g : Cfg) (c : Conn) : Prop where
  ph : ∃ raw, c.phase = .parseReq ⟨g.cap, raw, .header, g.mc⟩ .start ∧ raw ++ c.env.tr.input = g.U ∧
    raw.length ≤ g.cap
  log : c.env.tr.wlog = g.LU
  ben : Ben c.env.tr
  stop : c.stop = false
  ev : Ev1 g c.env.tr
  sc : c.scripts = g.more
  mtx : c.env.mutex = none
  keep : g.p.flags.toNat % 2 = 1

structure FinU (g : Cfg) (c' : Conn) : Prop where
  ph : c'.phase = .finished
  log : c'.env.tr.wlog = g.LU
  ev : Ev1 g c'.env.tr
  sc : c'.scripts = g.more
  nokeep : g.p.flags.toNat % 2 = 0

def URes (g : Cfg) (N : Nat) (c : Conn) : Prop :=
  (∃ c', Halts N c c' .pending ∧ Link c c' ∧ UStage g c' ∧ c'.env.tr.woken = true ∧
      ans c'.env.tr < ans c.env.tr) ∨
  (∃ k c1, k ≤ N ∧ Steps k c c1 ∧ Link c c1 ∧ AfterU g c1) ∨
  (∃ c', Halts N c c' .finished ∧ Link c c' ∧ FinU g c')

theorem URes.of_steps {g : Cfg} {k N : Nat} {c c1 : Conn} (hs : Steps k c c1)
    (hl : Link c c1) (h : URes g N c1) : URes g (k + N) c := by
  rcases h with ⟨c', hh, hl2, hS, hw, ha⟩ | ⟨k2, c2, hk, hs2, hl2, haf⟩ | ⟨c', hh, hl2, hf⟩
  · exact Or.inl ⟨c', hh.of_steps hs, hl.trans hl2, hS, hw, by have := hl.ts.ans_le; omega⟩
  · exact Or.inr (Or.inl ⟨k + k2, c2, by omega, hs.trans hs2, hl.trans hl2, haf⟩)
  · exact Or.inr (Or.inr ⟨c', hh.of_steps hs, hl.trans hl2, hf⟩)

theorem URes.mono {g : Cfg} {N M : Nat} {c : Conn} (h : URes g N c) (hm : N ≤ M) : URes g M c := by
  rcases h with ⟨c', hh, r⟩ | ⟨k2, c2, hk, r⟩ | ⟨c', hh, r⟩
  · exact Or.inl ⟨c', hh.mono hm, r⟩
  · exact Or.inr (Or.inl ⟨k2, c2, by omega, r⟩)
  · exact Or.inr (Or.inr ⟨c', hh.mono hm, r⟩)

/-! ### `close` -/

/-- A poll of `close` that is (back) in its last `write_all`. -/
theorem uclose_core {g : Cfg} {c : Conn} {r r2 : AReq} {cs : CloseSt}
    {rest : Bytes} {t1 : Transport}
    (hph : c.phase = .closing r cs g.st 0)
    (heq : closePoll r cs g.st 0 c.env.mutex c.env.tr = closePoll.finishEnd r2 rest c.env.mutex t1)
    (hts1 : TStep c.env.tr t1) (hin1 : t1.input = c.env.tr.input)
    (hce : CEnd g r2 c.env.tr.input) (hm : c.env.mutex = none) (hlog : t1.wlog ++ rest = g.LU)
    (hb : Ben c.env.tr) (hstop : c.stop = false) (hev : Ev1 g c.env.tr)
    (hsc : c.scripts = g.more) :
    URes g 2 c := by
  have hstep := C07.closing_step c r cs g.st 0 hph
  rw [heq] at hstep
  have hb1 := hb.step hts1
  rcases finishEnd_cases r2 rest c.env.mutex hb1 with
    ⟨rest', t', hfe, hts0, hinp0, hwl, hwk, hans⟩ | ⟨t', hts0, hinp0, hwl, hfe⟩
  · have hts := hts1.trans hts0
    have hinp := hinp0.trans hin1
    rw [hfe] at hstep
    have hstep' : stepConn c = .halt (mkC c (.closing r2 (.writeEnd rest') g.st 0) t') .pending := hstep
    refine Or.inl ⟨mkC c (.closing r2 (.writeEnd rest') g.st 0) t', (Halts.now hstep').mono (by omega),
      mkC_link c _ hts, ?_, hwk, by show ans t' < ans c.env.tr; have := hts1.ans_le; omega⟩
    exact .close (r := r2) (rest' := rest') rfl (by show CEnd g r2 t'.input; rw [hinp]; exact hce) hm
      (by show t'.wlog ++ rest' = _; rw [hwl, hlog]) (hb.step hts) hstop (hev.step hts) hsc
  · have hts := hts1.trans hts0
    have hinp := hinp0.trans hin1
    rw [hfe, hce.req, hce.into] at hstep
    have hlog' : t'.wlog = g.LU := by rw [hwl, hlog]
    by_cases hk : g.p.flags.toNat % 2 = 1
    · have hreq : (g.p.request.flags.toNat % 2 == 1) = true := by simpa [Preamble.request] using hk
      simp only [hreq, if_true] at hstep
      have hstep' : stepConn c = .next (mkC c (.parseReq ⟨g.cap, r2.sp.raw, .header, g.mc⟩ .start) t') := hstep
      refine Or.inr (Or.inl ⟨1, _, by omega, Steps.one hstep', mkC_link c _ hts,
        ⟨⟨r2.sp.raw, rfl, by show r2.sp.raw ++ t'.input = g.U; rw [hinp]; exact hce.wire, hce.rawlen⟩, hlog',
          hb.step hts, hstop, hev.step hts, hsc, hm, hk⟩⟩)
    · have hreq : (g.p.request.flags.toNat % 2 == 1) = false := by simpa [Preamble.request] using hk
      simp only [hreq, Bool.false_eq_true, if_false] at hstep
      have hstep' : stepConn c = .halt (mkC c .finished t') .finished := hstep
      exact Or.inr (Or.inr ⟨mkC c .finished t', (Halts.now hstep').mono (by omega), mkC_link c _ hts,
        ⟨rfl, hlog', hev.step hts, hsc, by omega⟩⟩)

/-- A poll of `close` that is (back) in the `write_all` of the replies still queued in the parser. -/
theorem uclose_out {g : Cfg} {c : Conn} {r r2 : AReq} {cs : CloseSt}
    {rest : Bytes}
    (hph : c.phase = .closing r cs g.st 0)
    (heq : closePoll r cs g.st 0 c.env.mutex c.env.tr =
      closeP4 r2 c.env.mutex c.env.tr (.writeOut rest g.epi))
    (hce : CEndW g r2 c.env.tr.input) (hm : c.env.mutex = none)
    (hlog : c.env.tr.wlog ++ rest ++ g.epi = g.LU)
    (hb : Ben c.env.tr) (hstop : c.stop = false) (hev : Ev1 g c.env.tr)
    (hsc : c.scripts = g.more) :
    URes g 2 c := by
  rcases hw : writeAllLoop (rest.length + 1) rest c.env.tr with ⟨rest', t', res⟩
  obtain ⟨hts, hinp, ⟨dn, hd, hl⟩, hres⟩ := writeAllLoop_ben _ _ _ hb (Nat.lt_succ_self _) hw
  rcases hres with ⟨rfl, rfl⟩ | ⟨rfl, _, hwk, hans⟩
  · -- the queued replies are out: on to the epilogue
    simp only [List.append_nil] at hd
    subst hd
    have heq' : closePoll r cs g.st 0 c.env.mutex c.env.tr =
        closePoll.finishEnd { r2 with sp := r2.sp.consumeOutput r2.sp.output.length } g.epi c.env.mutex t' := by
      rw [heq]; simp only [closeP4, hw]
    refine uclose_core hph heq' hts hinp ?_ hm (by rw [hl, ← hlog]) hb hstop hev hsc
    exact ⟨hce.pay, hce.pad, by simp [Str.Parser.consumeOutput], hce.wire, hce.req, hce.cap, hce.mc, hce.rawlen⟩
  · have hstep := C07.closing_step c r cs g.st 0 hph
    rw [heq] at hstep
    simp only [closeP4, hw] at hstep
    have hstep' : stepConn c = .halt (mkC c (.closing r2 (.writeOut rest' g.epi) g.st 0) t') .pending := hstep
    refine Or.inl ⟨_, (Halts.now hstep').mono (by omega), mkC_link c _ hts, ?_, hwk, hans⟩
    exact .closeW (r := r2) (rest' := rest') rfl (by show CEndW g r2 t'.input; rw [hinp]; exact hce) hm
      (by show t'.wlog ++ rest' ++ g.epi = _; rw [hl, ← hlog, hd]; simp only [List.append_assoc])
      (hb.step hts) hstop (hev.step hts) hsc


/-- `close` called right after the handler returned without having read anything: `writeable()` is
ready, `record_boundary()` returns at once — nothing of the stream is consumed. -/
theorem uclose_start {g : Cfg} {c : Conn} {r : AReq} (hph : c.phase = .closing r .start g.st 0)
    (hfin : REnd g.N r c.env.tr.input) (hout : r.sp.output = [])
    (hlog : c.env.tr.wlog = g.L1 ++ streamRecords 6 g.p.id g.data) (hm : c.env.mutex = none)
    (hb : Ben c.env.tr) (hstop : c.stop = false) (hev : Ev1 g c.env.tr) (hsc : c.scripts = g.more) :
    URes g 2 c := by
  obtain ⟨heq, hce⟩ := close_start_eq (g := g) hfin
  exact uclose_out hph (by rw [hm]; exact heq) hce hm (by rw [hlog, hout, List.append_nil]; rfl) hb hstop hev hsc

/-! ### The handler -/

/-- One poll that starts inside the (write-only) handler. -/
theorem uhandler_core {g : Cfg} (ok : UOK g) {c : Conn} {r : AReq} {h : HState} (hph : c.phase = .handler r h)
    (hout : HOut g.Wc (fun _ _ _ => False) c.env (handlerPoll ((handlerFuel c.env r + scriptOf c)) r h c.env))
    (hb : Ben c.env.tr) (hstop : c.stop = false) (hev : Ev1 g c.env.tr) (hsc : c.scripts = g.more) :
    URes g 4 c := by
  have hstep := C07.handler_step c r h hph
  rcases hhp : handlerPoll ((handlerFuel c.env r + scriptOf c)) r h c.env with ⟨r', h', e', res⟩
  rw [hhp] at hstep hout
  obtain ⟨hts, hsegs, hres⟩ := hout
  simp only at hts hsegs hres
  rcases hres with ⟨rfl, hwk, hans, hst⟩ | ⟨hres, O1, hd⟩
  · have hstep' : stepConn c = .halt ⟨.handler r' h', e', c.scripts, c.stop⟩ .pending := hstep
    rcases hst with hst | ⟨O1, hst⟩
    · exact hst.elim
    · exact Or.inl ⟨⟨.handler r' h', e', c.scripts, c.stop⟩, (Halts.now hstep').mono (by omega),
        ⟨hts.w, hsegs, rfl⟩, .hwrite rfl hst (hb.step hts) hstop (hev.step hts) hsc, hwk, hans⟩
  · have hres' : res = .done (.ok g.st) := hres
    subst hres'
    have halive : (h'.writers.filter Option.isSome).length = 0 := by rw [hd.ws]; rfl
    simp only [halive] at hstep
    have hstep' : stepConn c =
        .next ⟨.closing r' .start g.st 0, e'.ev s!"HE(ok:{showStatus g.st})", c.scripts, c.stop⟩ := hstep
    have hts2 : TStep c.env.tr (e'.tr.ev s!"HE(ok:{showStatus g.st})") :=
      hts.trans (TStep.ev _ (by simp [isHS, toString_str]))
    have hO : O1 ++ r'.sp.output = [] := by have := hd.out; rwa [show g.Wc.Otot = g.Ot from rfl, ok.hOt] at this
    obtain ⟨hO1, hO2⟩ := List.append_eq_nil_iff.1 hO
    have hcore := uclose_start (g := g)
      (c := ⟨.closing r' .start g.st 0, e'.ev s!"HE(ok:{showStatus g.st})", c.scripts, c.stop⟩) rfl hd.fin hO2
      (by show (e'.tr.ev _).wlog = _
          rw [Transport.ev_wlog, hd.log, hO1, List.append_nil]; rfl)
      hd.mtx (hb.step hts2) hstop (hev.step hts2) hsc
    exact (URes.of_steps (Steps.one hstep') ⟨hts2.w, hsegs, rfl⟩ hcore).mono (by omega)

/-- the first poll of the handler -/
theorem ufirst_poll {g : Cfg} (ok : UOK g) {c : Conn} {e1 : Bytes}
    (hph : c.phase = .handler (AReq.new (Str.Parser.fromParser g.cap g.p.request e1 g.mc))
      { ops := g.hscript, propagate := true })
    (hlen : e1.length ≤ g.cap) (hwire : e1 ++ c.env.tr.input = g.X) (hlog : c.env.tr.wlog = g.L1)
    (hm : c.env.mutex = none) (hb : Ben c.env.tr) (hstop : c.stop = false) (hev : Ev1 g c.env.tr)
    (hsc : c.scripts = g.more) : URes g 4 c := by
  have hfin : REnd g.N (AReq.new (Str.Parser.fromParser g.cap g.p.request e1 g.mc)) c.env.tr.input := by
    refine ⟨by simp [AReq.new, Str.Parser.fromParser, Preamble.request, ok.role, inputStreams], rfl, rfl, rfl, ?_,
      rfl, rfl, rfl, hlen, Str.SInv_fromParser g.cap g.p.request e1 g.mc hlen (pid_of_wf ok.wf).2⟩
    show e1 ++ c.env.tr.input = g.U
    rw [ok.hU, ← ok.hX]; exact hwire
  have hfuel := handlerFuel_ge c.env (AReq.new (Str.Parser.fromParser g.cap g.p.request e1 g.mc))
  have hfu := ok.hfu
  rcases ok.mode with ⟨hs, hdata⟩ | hs
  · -- `[.ret st]`
    have hstep := C07.handler_step c _ _ hph
    obtain ⟨f, hf⟩ : ∃ f, (handlerFuel c.env (AReq.new (Str.Parser.fromParser g.cap g.p.request e1 g.mc)) + scriptOf c) = f + 1 :=
      ⟨(handlerFuel c.env (AReq.new (Str.Parser.fromParser g.cap g.p.request e1 g.mc)) + scriptOf c) - 1, by omega⟩
    rw [hs, hf, hp_ret] at hstep
    have hstep' : stepConn c = .next ⟨.closing (AReq.new (Str.Parser.fromParser g.cap g.p.request e1 g.mc)) .start g.st 0,
        c.env.ev s!"HE(ok:{showStatus g.st})", c.scripts, c.stop⟩ := hstep
    have hts2 : TStep c.env.tr (c.env.tr.ev s!"HE(ok:{showStatus g.st})") :=
      TStep.ev _ (by simp [isHS, toString_str])
    have hcore := uclose_start (g := g)
      (c := ⟨.closing (AReq.new (Str.Parser.fromParser g.cap g.p.request e1 g.mc)) .start g.st 0,
        c.env.ev s!"HE(ok:{showStatus g.st})", c.scripts, c.stop⟩) rfl hfin rfl
      (by show (c.env.tr.ev _).wlog = _
          rw [Transport.ev_wlog, hlog, hdata, streamRecords_nil, List.append_nil])
      hm (hb.step hts2) hstop (hev.step hts2) hsc
    exact (URes.of_steps (Steps.one hstep') ⟨hts2.w, rfl, rfl⟩ hcore).mono (by omega)
  · refine uhandler_core ok hph ?_ hb hstop hev hsc
    rw [hs]
    exact open_phase (W := g.Wc) (O1 := []) hfin hm (by rw [hlog]; exact (List.append_nil _).symm)
      (by show [] ++ [] = g.Ot; rw [ok.hOt]; rfl)
      (by intro s hs'; rw [show g.Wc.revs = g.revs from rfl, ok.hrv] at hs'; cases hs') hb
      (by show wcost g.data.length + 4 ≤ _; omega)

/-! ### `parse_request` of the request, and one poll from any stage -/

theorem uns {g : Cfg} (ok : UOK g) : NoStuckW g.cap g.mc g.W := noStuck_of ok.wf g.X g.b g.mc ok.pairs ok.noise

theorem uparse_poll {g : Cfg} (ok : UOK g) {c : Conn} {F : Bytes}
    (hst : PSt g.cap g.mc g.W g.L0 [] c F) (hsc : c.scripts = (g.hscript, true) :: g.more)
    (hm : c.env.mutex = none) (hev : hsCount c.env.tr.events = g.hs0) :
    URes g (2 * c.env.tr.input.length + 8) c := by
  obtain ⟨n, c1, F1, hn, hs, hfr, hout⟩ := parse_loop (cap24 g) (uns ok) _ c F hst (Nat.le_refl _)
  have hnb : n ≤ 2 * c.env.tr.input.length + 2 := by have := wbit_le c; omega
  rcases hout with ⟨c2, h1, h2, h3, h4, h5⟩ | ⟨wrest, t', hph, hf, hw, hstop1, hben1, hrem1, hwa, hlog, hts', hinp'⟩ |
      ⟨hin, hnf, hph, hst1⟩
  · refine Or.inl ⟨c2, ⟨n, c1, by omega, hs, h1⟩, hfr.link.trans h3.link, ?_, h4,
      by have := hfr.ts.ans_le; omega⟩
    have hts := hfr.ts.trans h3.ts
    exact .parse h2 (h3.scripts.trans (hfr.scripts.trans hsc)) (h3.mutex.trans (hfr.mutex.trans hm))
      (hts.hs.trans hev)
  · -- the preamble is complete and its replies are written: the handler starts
    have hsc1 : c1.scripts = (g.hscript, true) :: g.more := hfr.scripts.trans hsc
    have hmx1 : c1.env.mutex = none := hfr.mutex.trans hm
    have hw' : F1 ++ c1.env.tr.input = g.W := by simpa using hw
    have hF1 : F1 <+: serAll g.recs ++ g.X := ⟨c1.env.tr.input, by simpa [Cfg.W] using hw'⟩
    rcases C06.run_wire_state ok.wf g.X hF1 g.mc with ⟨e1, hFe, he1, hrun⟩ | ⟨t, _, _, hnf⟩
    · have hd : (track g.cap g.mc F1).state = .done g.p.request := by simp only [track, hrun]
      obtain ⟨r, hrq, hr, hstep⟩ := C07.done_starts_handler c1 (track g.cap g.mc F1) wrest [] t' g.p.request
        hph hstop1 hwa hd
      rw [hsc1] at hstep
      have hcap : (track g.cap g.mc F1).cap = g.cap := rfl
      have hinput : (track g.cap g.mc F1).input = e1 := by simp only [track, hrun]
      have hmc : (track g.cap g.mc F1).maxConns = g.mc := rfl
      rw [hcap, hinput, hmc] at hr
      subst hr
      have hwire : e1 ++ c1.env.tr.input = g.X := by
        have : F1 ++ c1.env.tr.input = serAll g.recs ++ g.X := by simpa [Cfg.W] using hw'
        rw [hFe, List.append_assoc] at this
        exact List.append_cancel_left this
      have he1len : e1.length ≤ g.cap := by
        have := hrem1; rw [hrun] at this; exact this
      have hL1 : t'.wlog = g.L1 := by rw [hlog, hrun]; rfl
      have hstep' : stepConn c1 = .next
          ⟨.handler (AReq.new (Str.Parser.fromParser g.cap g.p.request e1 g.mc))
              { ops := g.hscript, propagate := true },
            (⟨t', c1.env.mutex, c1.env.segs⟩ : Run.Env).ev (hsEvent g.p.request), g.more, false⟩ := hstep
      have hwsE : WStep c1.env.tr (t'.ev (hsEvent g.p.request)) :=
        hts'.w.trans ⟨List.suffix_refl _, List.suffix_refl _, rfl, rfl, Or.inl rfl, Nat.le_refl _,
          fun s hs => List.mem_append_left _ hs⟩
      have hev1 : Ev1 g (t'.ev (hsEvent g.p.request)) := by
        have h0 : hsCount t'.events = g.hs0 := (hfr.ts.trans hts').hs.trans hev
        constructor
        · show hsCount (t'.events ++ [hsEvent g.p.request]) = g.hs0 + 1
          rw [hsCount_append, h0, hsCount_single_true (isHS_hsEvent _)]
        · show hsEvent g.p.request ∈ t'.events ++ [hsEvent g.p.request]
          simp
      have hben2 : Ben (t'.ev (hsEvent g.p.request)) := hben1.wstep hwsE
      have hcore := ufirst_poll ok
        (c := ⟨.handler (AReq.new (Str.Parser.fromParser g.cap g.p.request e1 g.mc))
                { ops := g.hscript, propagate := true },
            (⟨t', c1.env.mutex, c1.env.segs⟩ : Run.Env).ev (hsEvent g.p.request), g.more, false⟩) rfl he1len
        (by show e1 ++ t'.input = g.X; rw [hinp']; exact hwire) hL1 hmx1 hben2 rfl hev1 rfl
      have hres := URes.of_steps (hs.trans (Steps.one hstep')) (hfr.link.trans ⟨hwsE, rfl, hstop1.symm ▸ rfl⟩) hcore
      exact hres.mono (by omega)
    · rw [hf] at hnf; cases hnf
  · exfalso
    have hF1 : F1 = g.W := by
      have := hst1.wire
      rwa [hin, List.append_nil, List.append_nil] at this
    rcases C06.run_wire_state ok.wf g.X (F := F1) (by rw [hF1]; exact List.prefix_refl _) g.mc with
      ⟨e1, hFe, he1, hrun⟩ | ⟨t, ht, hFt, _⟩
    · rw [hrun] at hnf; cases hnf
    · rw [hF1, Cfg.W] at hFt
      have := congrArg List.length hFt
      have : 0 < t.length := List.length_pos_iff.mpr ht
      simp only [List.length_append] at *
      omega

/-- **One poll** of the connection task from any stage of the aborted request. -/
theorem ustage_poll {g : Cfg} (ok : UOK g) {c : Conn} (hst : UStage g c) :
    URes g (2 * c.env.tr.input.length + 9) c := by
  cases hst with
  | @start raw hph hwire hraw hlog hb hstop hsc hm hev =>
    have hpre : raw <+: g.W := ⟨c.env.tr.input, hwire⟩
    have hstart := start_track (cap24 g) hraw (uns ok _ hpre)
    have hstep := step_start c _ hph hstop
    rw [hstart] at hstep
    have hstep' : stepConn c = .next (mkC c (.parseReq (track g.cap g.mc raw)
        (.writing (run .header raw g.mc).out (run .header raw g.mc).st.isFinal)) c.env.tr) := hstep
    have hremle : (run .header raw g.mc).rem.length ≤ g.cap := by
      have := (run_ok raw g.mc (st := .header) trivial).2.2.length_le
      omega
    have hst : PSt g.cap g.mc g.W g.L0 [] (mkC c (.parseReq (track g.cap g.mc raw)
        (.writing (run .header raw g.mc).out (run .header raw g.mc).st.isFinal)) c.env.tr) raw :=
      ⟨by show raw ++ c.env.tr.input ++ [] = g.W
          rw [List.append_nil]; exact hwire,
        hstop, hb, hremle, Or.inr ⟨_, rfl, by show c.env.tr.wlog ++ _ = _; rw [hlog], [], rfl⟩⟩
    have := URes.of_steps (Steps.one hstep') (mkC_link c _ (.refl _)) (uparse_poll ok hst hsc hm hev)
    exact this.mono (by show 1 + (2 * c.env.tr.input.length + 8) ≤ _; omega)
  | parse hst hsc hm hev => exact (uparse_poll ok hst hsc hm hev).mono (by omega)
  | @hwrite r h O1 hph hw hb hstop hev hsc =>
    refine (uhandler_core ok hph (write_phase hw hb ?_) hb hstop hev hsc).mono (by omega)
    have := handlerFuel_ge c.env r
    have := ok.hfu
    show wcost g.data.length + 3 ≤ _
    omega
  | @closeW r rest' hph hce hm hlog hb hstop hev hsc =>
    refine (uclose_out (r2 := r) (rest := rest') hph ?_ hce hm hlog hb hstop hev hsc).mono (by omega)
    rw [closePoll_late _ _ _ _ _ _ rfl]
  | @close r rest' hph hce hm hlog hb hstop hev hsc =>
    refine (uclose_core (r2 := r) (rest := rest') hph ?_ (.refl _) rfl hce hm hlog hb hstop hev hsc).mono
      (by omega)
    rw [closePoll_late _ _ _ _ _ _ rfl]
    rfl


theorem UStage.cong {g : Cfg} {c c' : Conn} (h : UStage g c)
    (hph : c'.phase = c.phase) (hsc : c'.scripts = c.scripts) (hstop : c'.stop = c.stop)
    (hm : c'.env.mutex = c.env.mutex) (hs : TrSame c.env.tr c'.env.tr) : UStage g c' := by
  cases h with
  | start hph0 hwire hraw hlog hb hstop0 hsc0 hm0 hev =>
    exact .start (hph.trans hph0) (by rw [hs.input]; exact hwire) hraw (hs.wlog.trans hlog) (hs.ben hb)
      (hstop.trans hstop0) (hsc.trans hsc0) (hm.trans hm0) (hs.hs.trans hev)
  | parse hst hsc0 hm0 hev =>
    exact .parse (hst.cong hph hstop hs) (hsc.trans hsc0) (hm.trans hm0) (hs.hs.trans hev)
  | @hwrite r h O1 hph0 hw hb hstop0 hev hsc0 =>
    refine .hwrite (hph.trans hph0) ⟨hw.ops, hw.pr, ?_, hw.len, by rw [hs.input]; exact hw.fin, hw.out,
      fun s h => hs.mem (hw.ev s h)⟩ (hs.ben hb) (hstop.trans hstop0) (hs.ev1 hev) (hsc.trans hsc0)
    obtain ⟨w, L, sent, h1, h2, h3, h4⟩ := hw.wr
    exact ⟨w, L, sent, h1, by rw [hm]; exact h2, hs.wlog.trans h3, h4⟩
  | @closeW r rest' hph0 hce hm0 hlog hb hstop0 hev hsc0 =>
    exact .closeW (hph.trans hph0) (by rw [hs.input]; exact hce) (hm.trans hm0) (by rw [hs.wlog]; exact hlog)
      (hs.ben hb) (hstop.trans hstop0) (hs.ev1 hev) (hsc.trans hsc0)
  | @close r rest' hph0 hce hm0 hlog hb hstop0 hev hsc0 =>
    exact .close (hph.trans hph0) (by rw [hs.input]; exact hce) (hm.trans hm0) (by rw [hs.wlog]; exact hlog)
      (hs.ben hb) (hstop.trans hstop0) (hs.ev1 hev) (hsc.trans hsc0)

/-! ## The executor -/

/-- how the run of the unread request ends: parked behind the leftover stream (its records
swallowed, their replies written), or — the peer closed — returned.  `evs0`, `A0`: events that were
in the trace before, a bound for the scripted answers left. -/
def UEnd (g : Cfg) (Z : Bytes) (em : EndMode) (evs0 : List String) (A0 : Nat) (c' : Conn) (fin : String) : Prop :=
  PKeep g.more (g.hs0 + 1) [hsEvent g.p.request] c' ∧ c'.env.tr.endMode = em ∧
  (∀ s ∈ evs0, s ∈ c'.env.tr.events) ∧ ans c'.env.tr ≤ A0 ∧ c'.env.segs = [] ∧
  ((fin = "STALL" ∧ ZParked g.cap g.mc (g.U ++ Z) g.LU Z c') ∨ (fin = "RET" ∧ ZFin g.mc (g.U ++ Z) g.LU Z c'))

/-- **The executor** for a Responder request with KEEP_CONN whose handler reads nothing.  `Z`: what
the client will send next (not arrived yet; all that matters is that `g.U ++ Z` never fills the
buffer and is not final before `Z`). -/
theorem run_unread {g : Cfg} (ok : UOK g) (hk : g.p.flags.toNat % 2 = 1) {Z : Bytes}
    (hns : NoStuckW g.cap g.mc (g.U ++ Z))
    (hNF : ∀ F x, F ++ x ++ Z = g.U ++ Z → (run .header F g.mc).st.isFinal = false)
    (em : EndMode) (evs0 : List String) (c : Conn) (n fuel : Nat) (hst : UStage g c)
    (hem : c.env.tr.endMode = em) (hev0 : ∀ s ∈ evs0, s ∈ c.env.tr.events)
    (hsegs : c.env.segs = []) (hf : ans c.env.tr + 1 ≤ fuel) (hlen : 6 * c.env.tr.input.length + 26 ≤ 100000) :
    ∃ c'' fin, runTask fuel c n none = (c'', fin) ∧ UEnd g Z em evs0 (ans c.env.tr) c'' fin := by
  have h24 := cap24 g
  refine run_gen
    (fun c0 => ((UStage g c0) ∨
      (ZT g.cap g.mc (g.U ++ Z) g.LU Z c0 ∧ PKeep g.more (g.hs0 + 1) [hsEvent g.p.request] c0)) ∧
      c0.env.tr.endMode = em ∧ (∀ s ∈ evs0, s ∈ c0.env.tr.events) ∧ ans c0.env.tr ≤ ans c.env.tr)
    (fun c0 =>
      (∃ c', Halts (4 * c0.env.tr.input.length + 16) c0 c' .pending ∧ Link c0 c' ∧ c'.env.tr.woken = c0.env.tr.woken ∧
        ZT g.cap g.mc (g.U ++ Z) g.LU Z c' ∧ PKeep g.more (g.hs0 + 1) [hsEvent g.p.request] c' ∧
        ZParked g.cap g.mc (g.U ++ Z) g.LU Z c') ∨
      (∃ c', Halts (4 * c0.env.tr.input.length + 16) c0 c' .finished ∧ Link c0 c' ∧
        PKeep g.more (g.hs0 + 1) [hsEvent g.p.request] c' ∧ ZFin g.mc (g.U ++ Z) g.LU Z c'))
    (fun c'' fin => UEnd g Z em evs0 (ans c.env.tr) c'' fin)
    (fun c0 c1 h a b c d e => by
      refine ⟨?_, e.em.trans h.2.1, fun s hs => e.mem (h.2.2.1 s hs), by
        have := h.2.2.2; unfold ans at this ⊢; rw [e.rd, e.wr]; exact this⟩
      rcases h.1 with h1 | ⟨h1, h2⟩
      · exact Or.inl (h1.cong a b c d e)
      · exact Or.inr ⟨h1.cong a c e, h2.same b d e⟩)
    (fun c0 h => ?_)
    (fun c0 n0 f0 hS0 hsg hq _ hlen0 => ?_)
    (ans c.env.tr) c n fuel ⟨Or.inl hst, hem, hev0, Nat.le_refl _⟩ hsegs (Nat.le_refl _) hf hlen
  · -- one poll
    have keep : ∀ {c' : Conn}, Link c0 c' → c'.env.tr.endMode = em ∧ (∀ s ∈ evs0, s ∈ c'.env.tr.events) ∧
        ans c'.env.tr ≤ ans c.env.tr :=
      fun hl => ⟨hl.ts.em.trans h.2.1, fun s hs => hl.ts.evm s (h.2.2.1 s hs),
        Nat.le_trans hl.ts.ans_le h.2.2.2⟩
    rcases h.1 with h1 | ⟨h1, h2⟩
    · rcases ustage_poll ok h1 with ⟨c', hh, hl, hS, hw, ha⟩ | ⟨k, c1, hk1, hs, hl, haf⟩ | ⟨c', hh, hl, hf⟩
      · exact Or.inl ⟨c', hh.mono (by omega), hl, ⟨Or.inl hS, keep hl⟩, hw, ha⟩
      · obtain ⟨raw, hph, hw, hraw⟩ := haf.ph
        have hzt : ZT g.cap g.mc (g.U ++ Z) g.LU Z c1 :=
          Or.inr ⟨raw, hph, by rw [hw], hraw, haf.log, haf.ben, haf.stop⟩
        have hkp : PKeep g.more (g.hs0 + 1) [hsEvent g.p.request] c1 :=
          ⟨haf.sc, haf.mtx, haf.ev.1, fun s hs => by rw [List.mem_singleton.1 hs]; exact haf.ev.2⟩
        have hin1 := hl.ts.inp
        rcases ZRes.of_steps hs hl (ztail_poll h24 hns hNF hzt hkp) with ⟨c', hh, hl', hS, hw, ha⟩ | ⟨c', hh, r⟩ |
            ⟨c', hh, r⟩
        · exact Or.inl ⟨c', hh.mono (by omega), hl', ⟨Or.inr hS, keep hl'⟩, hw, ha⟩
        · exact Or.inr (Or.inl ⟨c', hh.mono (by omega), r⟩)
        · exact Or.inr (Or.inr ⟨c', hh.mono (by omega), r⟩)
      · have := hf.nokeep; omega
    · rcases ztail_poll h24 hns hNF h1 h2 with ⟨c', hh, hl', hS, hw, ha⟩ | ⟨c', hh, r⟩ | ⟨c', hh, r⟩
      · exact Or.inl ⟨c', hh.mono (by omega), hl', ⟨Or.inr hS, keep hl'⟩, hw, ha⟩
      · exact Or.inr (Or.inl ⟨c', hh.mono (by omega), r⟩)
      · exact Or.inr (Or.inr ⟨c', hh.mono (by omega), r⟩)
  · -- from the last poll to the end of `runTask`
    obtain ⟨hsame, hph, hsc, hstop, hmx, hsg', hwk⟩ := prePoll_same c0 n0 hsg
    have hN : 4 * (prePoll c0 n0 none).env.tr.input.length + 16 ≤ 100000 := by rw [hsame.input]; omega
    have hans0 : ans (prePoll c0 n0 none).env.tr = ans c0.env.tr := by unfold ans; rw [hsame.rd, hsame.wr]
    have keep : ∀ {c' : Conn}, Link (prePoll c0 n0 none) c' → c'.env.tr.endMode = em ∧
        (∀ s ∈ evs0, s ∈ c'.env.tr.events) ∧ ans c'.env.tr ≤ ans c.env.tr ∧ c'.env.segs = [] :=
      fun hl => ⟨(hl.ts.em.trans hsame.em).trans hS0.2.1, fun s hs => hl.ts.evm s (hsame.mem (hS0.2.2.1 s hs)),
        by have := hl.ts.ans_le; have := hS0.2.2.2; omega, hl.segs.trans hsg'⟩
    rcases hq with ⟨c', hh, hl, hw, hzt, hkp, hpk⟩ | ⟨c', hh, hl, hkp, hfin⟩
    · have hpoll := hh.pollT hN
      have hw' : c'.env.tr.woken = false := hw.trans hwk
      obtain ⟨k1, k2, k3, k4⟩ := keep hl
      rw [runTask_succ, hpoll]
      simp only [hw', Bool.false_eq_true, if_false]
      rw [release_nil _ k4]
      simp only [hw', Bool.false_eq_true, if_false]
      refine ⟨_, "STALL", rfl, ?_⟩
      obtain ⟨F, hF, hps, hph', hlg⟩ := hpk.pst
      exact ⟨hkp.same rfl rfl ⟨rfl, rfl, rfl, rfl, rfl, rfl, [], by simp, Quiet.nil⟩, k1, k2, k3, k4,
        Or.inl ⟨rfl, ⟨F, hF, hps.cong rfl rfl ⟨rfl, rfl, rfl, rfl, rfl, rfl, [], by simp, Quiet.nil⟩, hph', hlg⟩,
          hpk.inp, hpk.em⟩⟩
    · have hpoll := hh.pollT hN
      obtain ⟨k1, k2, k3, k4⟩ := keep hl
      exact ⟨c', "RET", by rw [runTask_succ, hpoll], hkp, k1, k2, k3, k4, Or.inr ⟨rfl, hfin⟩⟩


/-- **The executor** for a Responder request with KEEP_CONN whose handler reads nothing.  `Z`: what
the client will send next (not arrived yet; all that matters is that `g.U ++ Z` never fills the
buffer and is not final before `Z`). -/
theorem run_unread' {g : Cfg} (ok : UOK g) (hk : g.p.flags.toNat % 2 = 1) {Z : Bytes}
    (hns : NoStuckW g.cap g.mc (g.U ++ Z))
    (hNF : ∀ F x, F ++ x ++ Z = g.U ++ Z → (run .header F g.mc).st.isFinal = false)
    (em : EndMode) (evs0 : List String) (c : Conn) (n fuel : Nat) (hst : UStage g c)
    (hem : c.env.tr.endMode = em) (hev0 : ∀ s ∈ evs0, s ∈ c.env.tr.events)
    (hsegs : c.env.segs = []) (hf : ans c.env.tr + 1 ≤ fuel) :
    ∃ c'' fin, runTask fuel c n none = (c'', fin) ∧ UEnd g Z em evs0 (ans c.env.tr) c'' fin := by
  have h24 := cap24 g
  refine run_gen'
    (fun c0 => ((UStage g c0) ∨
      (ZT g.cap g.mc (g.U ++ Z) g.LU Z c0 ∧ PKeep g.more (g.hs0 + 1) [hsEvent g.p.request] c0)) ∧
      c0.env.tr.endMode = em ∧ (∀ s ∈ evs0, s ∈ c0.env.tr.events) ∧ ans c0.env.tr ≤ ans c.env.tr)
    (fun c0 =>
      (∃ c', Halts (4 * c0.env.tr.input.length + 16) c0 c' .pending ∧ Link c0 c' ∧ c'.env.tr.woken = c0.env.tr.woken ∧
        ZT g.cap g.mc (g.U ++ Z) g.LU Z c' ∧ PKeep g.more (g.hs0 + 1) [hsEvent g.p.request] c' ∧
        ZParked g.cap g.mc (g.U ++ Z) g.LU Z c') ∨
      (∃ c', Halts (4 * c0.env.tr.input.length + 16) c0 c' .finished ∧ Link c0 c' ∧
        PKeep g.more (g.hs0 + 1) [hsEvent g.p.request] c' ∧ ZFin g.mc (g.U ++ Z) g.LU Z c'))
    (fun c'' fin => UEnd g Z em evs0 (ans c.env.tr) c'' fin)
    (fun c0 c1 h a b c d e => by
      refine ⟨?_, e.em.trans h.2.1, fun s hs => e.mem (h.2.2.1 s hs), by
        have := h.2.2.2; unfold ans at this ⊢; rw [e.rd, e.wr]; exact this⟩
      rcases h.1 with h1 | ⟨h1, h2⟩
      · exact Or.inl (h1.cong a b c d e)
      · exact Or.inr ⟨h1.cong a c e, h2.same b d e⟩)
    (fun c0 h => ?_)
    (fun c0 n0 f0 hS0 hsg hq _ => ?_)
    (ans c.env.tr) c n fuel ⟨Or.inl hst, hem, hev0, Nat.le_refl _⟩ hsegs (Nat.le_refl _) hf
  · -- one poll
    have keep : ∀ {c' : Conn}, Link c0 c' → c'.env.tr.endMode = em ∧ (∀ s ∈ evs0, s ∈ c'.env.tr.events) ∧
        ans c'.env.tr ≤ ans c.env.tr :=
      fun hl => ⟨hl.ts.em.trans h.2.1, fun s hs => hl.ts.evm s (h.2.2.1 s hs),
        Nat.le_trans hl.ts.ans_le h.2.2.2⟩
    rcases h.1 with h1 | ⟨h1, h2⟩
    · rcases ustage_poll ok h1 with ⟨c', hh, hl, hS, hw, ha⟩ | ⟨k, c1, hk1, hs, hl, haf⟩ | ⟨c', hh, hl, hf⟩
      · exact Or.inl ⟨c', hh.mono (by omega), hl, ⟨Or.inl hS, keep hl⟩, hw, ha⟩
      · obtain ⟨raw, hph, hw, hraw⟩ := haf.ph
        have hzt : ZT g.cap g.mc (g.U ++ Z) g.LU Z c1 :=
          Or.inr ⟨raw, hph, by rw [hw], hraw, haf.log, haf.ben, haf.stop⟩
        have hkp : PKeep g.more (g.hs0 + 1) [hsEvent g.p.request] c1 :=
          ⟨haf.sc, haf.mtx, haf.ev.1, fun s hs => by rw [List.mem_singleton.1 hs]; exact haf.ev.2⟩
        have hin1 := hl.ts.inp
        rcases ZRes.of_steps hs hl (ztail_poll h24 hns hNF hzt hkp) with ⟨c', hh, hl', hS, hw, ha⟩ | ⟨c', hh, r⟩ |
            ⟨c', hh, r⟩
        · exact Or.inl ⟨c', hh.mono (by omega), hl', ⟨Or.inr hS, keep hl'⟩, hw, ha⟩
        · exact Or.inr (Or.inl ⟨c', hh.mono (by omega), r⟩)
        · exact Or.inr (Or.inr ⟨c', hh.mono (by omega), r⟩)
      · have := hf.nokeep; omega
    · rcases ztail_poll h24 hns hNF h1 h2 with ⟨c', hh, hl', hS, hw, ha⟩ | ⟨c', hh, r⟩ | ⟨c', hh, r⟩
      · exact Or.inl ⟨c', hh.mono (by omega), hl', ⟨Or.inr hS, keep hl'⟩, hw, ha⟩
      · exact Or.inr (Or.inl ⟨c', hh.mono (by omega), r⟩)
      · exact Or.inr (Or.inr ⟨c', hh.mono (by omega), r⟩)
  · -- from the last poll to the end of `runTask`
    obtain ⟨hsame, hph, hsc, hstop, hmx, hsg', hwk⟩ := prePoll_same c0 n0 hsg
    have hN : 4 * (prePoll c0 n0 none).env.tr.input.length + 16 ≤ 6 * (prePoll c0 n0 none).env.tr.input.length + 26 := by omega
    have hans0 : ans (prePoll c0 n0 none).env.tr = ans c0.env.tr := by unfold ans; rw [hsame.rd, hsame.wr]
    have keep : ∀ {c' : Conn}, Link (prePoll c0 n0 none) c' → c'.env.tr.endMode = em ∧
        (∀ s ∈ evs0, s ∈ c'.env.tr.events) ∧ ans c'.env.tr ≤ ans c.env.tr ∧ c'.env.segs = [] :=
      fun hl => ⟨(hl.ts.em.trans hsame.em).trans hS0.2.1, fun s hs => hl.ts.evm s (hsame.mem (hS0.2.2.1 s hs)),
        by have := hl.ts.ans_le; have := hS0.2.2.2; omega, hl.segs.trans hsg'⟩
    rcases hq with ⟨c', hh, hl, hw, hzt, hkp, hpk⟩ | ⟨c', hh, hl, hkp, hfin⟩
    · have hpoll := hh.pollB hN
      have hw' : c'.env.tr.woken = false := hw.trans hwk
      obtain ⟨k1, k2, k3, k4⟩ := keep hl
      rw [runTask_succ, hpoll]
      simp only [hw', Bool.false_eq_true, if_false]
      rw [release_nil _ k4]
      simp only [hw', Bool.false_eq_true, if_false]
      refine ⟨_, "STALL", rfl, ?_⟩
      obtain ⟨F, hF, hps, hph', hlg⟩ := hpk.pst
      exact ⟨hkp.same rfl rfl ⟨rfl, rfl, rfl, rfl, rfl, rfl, [], by simp, Quiet.nil⟩, k1, k2, k3, k4,
        Or.inl ⟨rfl, ⟨F, hF, hps.cong rfl rfl ⟨rfl, rfl, rfl, rfl, rfl, rfl, [], by simp, Quiet.nil⟩, hph', hlg⟩,
          hpk.inp, hpk.em⟩⟩
    · have hpoll := hh.pollB hN
      obtain ⟨k1, k2, k3, k4⟩ := keep hl
      exact ⟨c', "RET", by rw [runTask_succ, hpoll], hkp, k1, k2, k3, k4, Or.inr ⟨rfl, hfin⟩⟩

end Fcgi.E2E
