import Fcgi.Proofs.E2EBufRead
/-!
# `AsyncBufRead` handlers that do not drain their input with `fill_buf` / `consume` alone

* `rounds_runG` — the `fill_buf` / `consume(k)` rounds of one poll, any `n`, any `k`: the reader's view
  (`C09E.BSt`: `handed`, possibly bytes shown and not consumed in the stream buffer) and the framing of the
  unparsed bytes on the stream's records (`Pos`) are kept.
* `readAllO_run` — `readAll` started from such a request: the bytes still in the stream buffer come first
  (no transport call), then the usual loop; it returns exactly the content NOT handed over before
  (`h0 ++ acc = K.C`).
-/
namespace Fcgi.E2E
open Fcgi Fcgi.Req Fcgi.Str Fcgi.Async Fcgi.Run Fcgi.Spec Fcgi.C09E

theorem _root_.Fcgi.C09E.RInvB.rem_le {K : RCtx} (hK : K.OK) {r : AReq} {G fut dC dO : Bytes}
    (h : RInvB K r G fut dC dO) : K.C.length ≤ dC.length + K.cap + fut.length := by
  have h1 := (h.now hK).1
  have h2 := ref_content_le K.E _ r.sp.state r.sp.pay r.sp.pad (r.sp.raw ++ fut) (Nat.le_refl _)
  have h3 := h.sinv.1
  have h4 := h.capK
  rw [h1]
  unfold Rem
  simp only [List.length_append, Str.Parser.freeStart] at *
  omega

/-- `BSt`: what is still to come is bounded by two buffers and the input -/
theorem BSt.rem_le {K : RCtx} (hK : K.OK) {L P : Bytes} {r : AReq} {m : MutexSt} {t : Transport} {handed dO : Bytes}
    (h : BSt K L P r m t handed dO) : K.C.length ≤ handed.length + 2 * K.cap + t.input.length := by
  obtain ⟨⟨G, hi⟩, _⟩ := h
  have h1 := hi.rem_le hK
  have h2 := hi.sinv.1
  have h3 := hi.capK
  simp only [List.length_append, Str.Parser.freeStart] at *
  omega

/-- `poll_input` never clears the `writeable` flag -/
theorem inLoop_wmono : ∀ (fuel : Nat) (r : AReq) (new : Bytes) (dest : Option Nat) (m : MutexSt) (t : Transport)
    {r' : AReq} {m' : MutexSt} {t' : Transport} {res : IRes},
    inLoop fuel r new dest m t = (r', m', t', res) → r.writeable = true → r'.writeable = true := by
  intro fuel
  induction fuel with
  | zero => intro r new dest m t r' m' t' res h hw; simp only [inLoop] at h; cases h; exact hw
  | succ n ih =>
    intro r new dest m t r' m' t' res h hw
    simp only [inLoop] at h
    repeat' (split at h)
    all_goals first
      | (cases h; exact hw)
      | (cases h; rfl)
      | (have hq := (Run.pollOutput_spec ‹_›).2.2.1
         cases h
         rw [hq]; exact hw)
      | (have hq := (Run.pollOutput_spec ‹_›).2.2.1
         exact ih _ _ _ _ _ h (by rw [hq]; exact hw))

theorem pollInput_wmono {r : AReq} {dest : Option Nat} {m : MutexSt} {t : Transport}
    {r' : AReq} {m' : MutexSt} {t' : Transport} {res : IRes}
    (h : r.pollInput dest m t = (r', m', t', res)) (hw : r.writeable = true) : r'.writeable = true := by
  simp only [AReq.pollInput] at h
  repeat' (split at h)
  all_goals first
    | (cases h; exact hw)
    | (have hq := (Run.pollOutput_spec ‹_›).2.2.1
       cases h
       rw [hq]; exact hw)
    | (have hq := (Run.pollOutput_spec ‹_›).2.2.1
       exact inLoop_wmono _ _ _ _ _ _ h (by rw [hq]; exact hw))

/-- **The rounds of one poll**, general form. -/
theorem rounds_runG {K : RCtx} (hK : K.OK) {L P : Bytes} {R : List Rec} (hR : ∀ r ∈ R, r.WF) (k : Nat)
    (tail : List HOp) (ws : List (Option Writer)) (pr : Bool) :
    ∀ (n fuel : Nat) (r : AReq) (e : Run.Env) (handed dO : Bytes) (shown : List Bytes),
      2 * n + 1 ≤ fuel → Ben e.tr → BSt K L P r e.mutex e.tr handed dO →
      Pos R r.sp.raw r.sp.pay r.sp.pad e.tr.input →
      handed = taken k shown → SlEv shown e.tr →
      (∃ (n' : Nat) (r' : AReq) (e' : Run.Env) (handed' dO' : Bytes) (shown' : List Bytes), n' ≤ n ∧
        handlerPoll fuel r { ops := rounds n k ++ tail, sub := .fresh, writers := ws, propagate := pr } e =
          (r', { ops := rounds n' k ++ tail, sub := .fresh, writers := ws, propagate := pr }, e', .pending) ∧
        BSt K L P r' e'.mutex e'.tr handed' dO' ∧ Pos R r'.sp.raw r'.sp.pay r'.sp.pad e'.tr.input ∧
        handed' = taken k shown' ∧ SlEv shown' e'.tr ∧ e'.segs = e.segs ∧ TStep e.tr e'.tr ∧
        e'.tr.woken = true ∧ ans e'.tr < ans e.tr ∧ (r.writeable = true → r'.writeable = true)) ∨
      (∃ (r' : AReq) (e' : Run.Env) (handed' dO' : Bytes) (shown' : List Bytes) (fuel' : Nat),
        handlerPoll fuel r { ops := rounds n k ++ tail, sub := .fresh, writers := ws, propagate := pr } e =
          handlerPoll fuel' r' { ops := tail, sub := .fresh, writers := ws, propagate := pr } e' ∧
        fuel ≤ fuel' + 2 * n ∧ BSt K L P r' e'.mutex e'.tr handed' dO' ∧
        Pos R r'.sp.raw r'.sp.pay r'.sp.pad e'.tr.input ∧ handed' = taken k shown' ∧
        SlEv shown' e'.tr ∧ e'.segs = e.segs ∧ TStep e.tr e'.tr ∧ (r.writeable = true → r'.writeable = true)) := by
  intro n
  induction n with
  | zero =>
    intro fuel r e handed dO shown hf hb hs hpos hsh hev
    exact Or.inr ⟨r, e, handed, dO, shown, fuel, rfl, by omega, hs, hpos, hsh, hev, rfl, .refl _, id⟩
  | succ n ih =>
    intro fuel r e handed dO shown hf hb hs hpos hsh hev
    obtain ⟨f, rfl⟩ : ∃ f, fuel = f + 2 := ⟨fuel - 2, by omega⟩
    show _ ∨ _
    simp only [rounds, List.cons_append]
    rw [hp_fill]
    rcases hpi : r.pollInput none e.mutex e.tr with ⟨r1, m1, t1, res⟩
    obtain ⟨hts, hfo, hbuf⟩ := fill_spec hK hb hs hpi
    have hwm : r.writeable = true → r1.writeable = true := pollInput_wmono hpi
    have hpos1 : (∀ s, res ≠ .panic s) → Pos R r1.sp.raw r1.sp.pay r1.sp.pad t1.input := by
      intro hnp
      by_cases hp : r.sp.parsed = []
      · exact pollInput_pos_none hR hb hs.lk hs.mx hp hpos hpi hnp
      · obtain ⟨e1, e2⟩ := hbuf hp
        rw [e1, e2]; exact hpos
    cases res with
    | pending =>
      left
      obtain ⟨⟨dO', hs'⟩, _, hw, ha⟩ := hfo
      exact ⟨n + 1, r1, { e with mutex := m1, tr := t1 }, handed, dO', shown, Nat.le_refl _, rfl, hs',
        hpos1 (fun s hx => nomatch hx), hsh, hev.step hts, rfl, hts, hw, ha, hwm⟩
    | err x => exact hfo.elim
    | panic s => exact hfo.elim
    | ready k0 d =>
      obtain ⟨_, ⟨dO', hs'⟩, hend⟩ := hfo
      simp only
      rw [hp_consume]
      have hts1 : TStep e.tr (t1.ev (fEvent r1.sp.parsed)) := hts.trans (TStep.ev _ (isHS_fEvent _))
      have hs1 : BSt K L P r1 m1 (t1.ev (fEvent r1.sp.parsed)) handed dO' := hs'.ev _
      have hs2 := hs1.consume k
      have hev2 : SlEv (shown ++ [r1.sp.parsed]) (t1.ev (fEvent r1.sp.parsed)) := by
        intro s hs
        rcases List.mem_append.1 hs with hs | hs
        · exact hts1.mem_events (hev s hs)
        · rw [List.mem_singleton.1 hs]
          show fEvent r1.sp.parsed ∈ t1.events ++ [fEvent r1.sp.parsed]
          simp
      rcases ih f { r1 with sp := r1.sp.consumeStream k }
          (({ e with mutex := m1, tr := t1 } : Run.Env).ev (fEvent r1.sp.parsed))
          (handed ++ r1.sp.parsed.take k) dO' (shown ++ [r1.sp.parsed]) (by omega) (hb.step hts1) hs2
          (hpos1 (fun s hx => nomatch hx)) (by rw [taken_append, hsh]) hev2 with
        ⟨n', r', e', handed', dO2, shown', a0, a1, a2, a3, a4, a5, a6, a7, a8, a9, a10⟩ |
        ⟨r', e', handed', dO2, shown', f', b1, b2, b3, b4, b5, b6, b7, b8, b9⟩
      · left
        refine ⟨n', r', e', handed', dO2, shown', by omega, a1, a2, a3, a4, a5, a6, hts1.trans a7, a8, ?_, fun h => a10 (hwm h)⟩
        have := hts1.ans_le
        have a9' : ans e'.tr < ans (t1.ev (fEvent r1.sp.parsed)) := a9
        omega
      · right
        exact ⟨r', e', handed', dO2, shown', f', b1, by omega, b3, b4, b5, b6, b7, hts1.trans b8, fun h => b9 (hwm h)⟩

/-- **`readAll` from a request that has handed `h0` over already** (possibly with bytes shown and not
consumed in the stream buffer: `bb ≥ 1` then): suspended with `acc'` collected, or complete with exactly
the rest of the content. -/
theorem readAllO_run {K : RCtx} (hK : K.OK) {L P : Bytes} (h0 : Bytes) (rest : List HOp)
    (ws : List (Option Writer)) (pr : Bool) :
    ∀ (N fuel : Nat) (r : AReq) (sub : HSub) (e : Run.Env) (dO : Bytes) (d bb : Nat),
      2 * ((K.C.length - (h0 ++ accOf sub).length) / 64) + 2 * e.tr.input.length + d + 2 * bb < N → N + 1 ≤ fuel →
      (r.sp.parsed ≠ [] → 1 ≤ bb) →
      (d = 0 → Idle r.sp ∨ h0 ++ accOf sub = K.C) → Ben e.tr → BSt K L P r e.mutex e.tr (h0 ++ accOf sub) dO →
      (∃ (r' : AReq) (acc' : Bytes) (e' : Run.Env) (dO' : Bytes),
          handlerPoll fuel r { ops := .readAll :: rest, sub := sub, writers := ws, propagate := pr } e =
            (r', { ops := .readAll :: rest, sub := .readAllAcc acc', writers := ws, propagate := pr }, e', .pending) ∧
          BSt K L P r' e'.mutex e'.tr (h0 ++ acc') dO' ∧ e'.segs = e.segs ∧ TStep e.tr e'.tr ∧
          e'.tr.woken = true ∧ ans e'.tr < ans e.tr) ∨
      (∃ (r' : AReq) (e' : Run.Env) (acc : Bytes) (fuel' : Nat),
          handlerPoll fuel r { ops := .readAll :: rest, sub := sub, writers := ws, propagate := pr } e =
            handlerPoll fuel' r' { ops := rest, sub := .fresh, writers := ws, propagate := pr }
              (e'.ev (rEvent acc)) ∧
          fuel ≤ fuel' + N ∧ h0 ++ acc = K.C ∧ RSt K L P r' e'.mutex e'.tr K.C K.O ∧ r'.lock = .none ∧
          e'.mutex = none ∧ r'.sp.pay = 0 ∧ r'.sp.pad = 0 ∧ r'.sp.raw ++ e'.tr.input = K.U ∧
          (K.final = true → r'.writeable = true) ∧ e'.segs = e.segs ∧ TStep e.tr e'.tr) := by
  intro N
  induction N with
  | zero => intro fuel r sub e dO d bb hN; omega
  | succ N ih =>
    intro fuel r sub e dO d bb hN hf hbb hd hb hs
    obtain ⟨f, rfl⟩ : ∃ f, fuel = f + 1 := ⟨fuel - 1, by omega⟩
    rw [hp_readAll]
    by_cases hp : r.sp.parsed = []
    · -- nothing buffered: the usual loop
      have hs' : RSt K L P r e.mutex e.tr (h0 ++ accOf sub) dO := by
        have := RStB.toR hs hp
        rwa [hp, List.append_nil] at this
      rcases hpi : r.pollInput (some 64) e.mutex e.tr with ⟨r1, m1, t1, res⟩
      obtain ⟨s1, s4, s5⟩ := pollInput_sim hK (by omega : 0 < 64) hb hs' hpi
      cases res with
      | pending =>
        left
        obtain ⟨⟨dO', hst⟩, hw, ha⟩ := s4
        have hpar : r1.sp.parsed = [] := by obtain ⟨⟨G, hi⟩, _⟩ := hst; exact hi.par
        exact ⟨r1, accOf sub, { e with mutex := m1, tr := t1 }, dO', rfl,
          by unfold BSt; rw [hpar, List.append_nil]; exact .of hst, rfl, s1, hw, ha⟩
      | err x => exact s4.elim
      | panic x => exact s4.elim
      | ready k dd =>
        obtain ⟨hk, dO', hst, hlk, hm1, hor, hfull, hwr⟩ := s4
        subst hm1
        cases k with
        | zero =>
          right
          have hd0 : dd = [] := List.length_eq_zero_iff.1 hk.symm
          subst hd0
          rcases hor with hor | ⟨a1, a2, a3, a4, a5⟩
          · omega
          · simp only [List.append_nil] at a1 hst
            refine ⟨r1, { e with mutex := none, tr := t1 }, accOf sub, f, rfl,
              by have := s1.tle.input_len; show f + 1 ≤ f + (N + 1); omega,
              a1, ?_, hlk, rfl, a3, a4, a5, hwr, rfl, s1⟩
            rw [← a1, ← a2]; exact hst
        | succ k' =>
          simp only
          obtain ⟨G1, hi1⟩ := hst.inv
          have hpar1 : r1.sp.parsed = [] := hi1.par
          have hnow := (hi1.now hK).1
          have hlenC : (h0 ++ accOf sub).length + (k' + 1) ≤ K.C.length := by
            have := congrArg List.length hnow
            simp only [List.length_append] at this ⊢
            omega
          have hinle := s1.tle.input_len
          have hdec : ∃ d1, (d1 = 0 → Idle r1.sp ∨ h0 ++ (accOf sub ++ dd) = K.C) ∧
              2 * ((K.C.length - (h0 ++ (accOf sub ++ dd)).length) / 64) + 2 * t1.input.length + d1 + 2 * 0 < N := by
            have hin' : d = 0 → t1.input.length < e.tr.input.length := by
              intro h0'
              rcases hd h0' with hdr | hfin
              · exact s5 hdr _ _ rfl
              · rw [hfin] at hlenC; omega
            simp only [List.length_append] at hlenC hN ⊢
            rcases hfull with h64 | hdr | ⟨hfin, _⟩
            · refine ⟨1, fun h => by omega, ?_⟩
              by_cases h0' : d = 0
              · have := hin' h0'; omega
              · omega
            · refine ⟨0, fun _ => Or.inl hdr, ?_⟩
              by_cases h0' : d = 0
              · have := hin' h0'; omega
              · omega
            · refine ⟨0, fun _ => Or.inr (by rw [← List.append_assoc]; exact hfin), ?_⟩
              by_cases h0' : d = 0
              · have := hin' h0'; omega
              · omega
          obtain ⟨d1, hd1, hm1⟩ := hdec
          have hst1 : BSt K L P r1 none t1 (h0 ++ accOf (HSub.readAllAcc (accOf sub ++ dd))) dO' := by
            unfold BSt
            rw [hpar1, List.append_nil]
            show RStB K L P r1 none t1 (h0 ++ (accOf sub ++ dd)) dO'
            rw [← List.append_assoc]
            exact .of hst
          rcases ih f r1 (.readAllAcc (accOf sub ++ dd)) { e with mutex := none, tr := t1 } dO' d1 0 hm1
              (by omega) (fun h => absurd hpar1 h) hd1 (hb.step s1) hst1 with
            ⟨r2, acc2, e2, dO2, c1, c3, c5, c6, c8, c9⟩ |
            ⟨r2, e2, acc2, f2, c1, c2, c3, c4, c5, c6, c7, c8, cw, c9, c10, c11⟩
          · left
            refine ⟨r2, acc2, e2, dO2, c1, c3, c5, s1.trans c6, c8, ?_⟩
            have := s1.ans_le
            have c9' : ans e2.tr < ans t1 := c9
            omega
          · right
            exact ⟨r2, e2, acc2, f2, c1, by omega, c3, c4, c5, c6, c7, c8, cw, c9, c10, s1.trans c11⟩
    · -- bytes shown by a `fill_buf` and not consumed: they come first, without a transport call
      have hbb1 := hbb hp
      have hlen : 0 < r.sp.parsed.length := List.length_pos_iff.mpr hp
      rw [read_buffered r 64 e.mutex e.tr (by omega) hp]
      obtain ⟨k', hk'⟩ : ∃ k', min 64 r.sp.parsed.length = k' + 1 := ⟨min 64 r.sp.parsed.length - 1, by omega⟩
      rw [hk']
      simp only
      have hs2 := hs.consume (k' + 1)
      have hpre := hs.prefix hK
      have hlC : (h0 ++ accOf sub).length + r.sp.parsed.length ≤ K.C.length := by
        have := hpre.length_le
        simp only [List.length_append] at this ⊢
        omega
      have hst1 : BSt K L P { r with sp := r.sp.consumeStream (k' + 1) } e.mutex e.tr
          (h0 ++ accOf (HSub.readAllAcc (accOf sub ++ r.sp.parsed.take (k' + 1)))) dO := by
        show BSt K L P _ e.mutex e.tr (h0 ++ (accOf sub ++ r.sp.parsed.take (k' + 1))) dO
        rw [← List.append_assoc]
        exact hs2
      have htl : (r.sp.parsed.take (k' + 1)).length = k' + 1 := by
        rw [List.length_take]; omega
      have hparsed' : ({ r with sp := r.sp.consumeStream (k' + 1) } : AReq).sp.parsed = r.sp.parsed.drop (k' + 1) :=
        consumeStream_parsed _ _
      -- the measure
      have hmeas : ∃ bb', (({ r with sp := r.sp.consumeStream (k' + 1) } : AReq).sp.parsed ≠ [] → 1 ≤ bb') ∧
          2 * ((K.C.length - (h0 ++ (accOf sub ++ r.sp.parsed.take (k' + 1))).length) / 64) +
            2 * e.tr.input.length + 1 + 2 * bb' < N := by
        simp only [List.length_append, htl] at hlC hN ⊢
        by_cases h64 : 64 ≤ r.sp.parsed.length
        · refine ⟨1, fun _ => Nat.le_refl _, ?_⟩
          have hk64 : k' + 1 = 64 := by omega
          omega
        · refine ⟨0, fun hne => ?_, ?_⟩
          · exfalso
            apply hne
            rw [hparsed']
            exact List.drop_eq_nil_of_le (by omega)
          · omega
      obtain ⟨bb', hbb', hm'⟩ := hmeas
      rcases ih f { r with sp := r.sp.consumeStream (k' + 1) }
          (.readAllAcc (accOf sub ++ r.sp.parsed.take (k' + 1))) e dO 1 bb' hm' (by omega) hbb'
          (fun h => by omega) hb hst1 with
        ⟨r2, acc2, e2, dO2, c1, c3, c5, c6, c8, c9⟩ |
        ⟨r2, e2, acc2, f2, c1, c2, c3, c4, c5, c6, c7, c8, cw, c9, c10, c11⟩
      · left
        exact ⟨r2, acc2, e2, dO2, c1, c3, c5, c6, c8, c9⟩
      · right
        exact ⟨r2, e2, acc2, f2, c1, by omega, c3, c4, c5, c6, c7, c8, cw, c9, c10, c11⟩

/-! ## The write phase and `close`, with any payload -/

/-- a fact about the trace that survives more events -/
structure MonoQ (Q : Transport → Prop) : Prop where
  up : ∀ t t', (∀ s, s ∈ t.events → s ∈ t'.events) → Q t → Q t'

/-- the handler in its `write_all`, its input read to the end -/
def HWq (g : Cfg) (Q : Transport → Prop) (c : Conn) : Prop :=
  ∃ r h O1, c.phase = .handler r h ∧ HWriteG g.p.id g.data g.st (g.L1 ++ O1) h c.env ∧
    REnd g.N r c.env.tr.input ∧ O1 ++ r.sp.output = g.Ob ∧ Q c.env.tr ∧
    Ben c.env.tr ∧ c.stop = false ∧ Ev1 g c.env.tr ∧ c.scripts = g.more

def TQ (g : Cfg) (Q : Transport → Prop) (c : Conn) : Prop :=
  ∃ O1 O2, O1 ++ O2 = g.Ob ∧ Q c.env.tr ∧ LE g (g.Lb O1 O2) g.epi c
def AQ (g : Cfg) (Q : Transport → Prop) (c : Conn) : Prop :=
  ∃ O1 O2, O1 ++ O2 = g.Ob ∧ Q c.env.tr ∧ AfterE g (g.Lb O1 O2) c
def FQ (g : Cfg) (Q : Transport → Prop) (c : Conn) : Prop :=
  ∃ O1 O2, O1 ++ O2 = g.Ob ∧ Q c.env.tr ∧ FinE g (g.Lb O1 O2) c

/-- the stages: those of the reading part `S0`, the write phase, `close` -/
def SQ (g : Cfg) (Q : Transport → Prop) (S0 : Conn → Prop) (c : Conn) : Prop := S0 c ∨ HWq g Q c ∨ TQ g Q c

abbrev RQ0 (g : Cfg) (Q : Transport → Prop) (S0 : Conn → Prop) (N : Nat) (c : Conn) : Prop :=
  GRes3 (SQ g Q S0) (AQ g Q) (FQ g Q) N c

/-- **The handler has returned**: `close` of a request that has read its input to the end. -/
theorem bdoneQ {g : Cfg} {Q : Transport → Prop} {S0 : Conn → Prop} (hQ : MonoQ Q) {c : Conn} {r0 r : AReq} {h h' : HState} {e' : Run.Env}
    {O1 : Bytes} (hph : c.phase = .handler r0 h)
    (heq : handlerPoll ((handlerFuel c.env r0 + scriptOf c)) r0 h c.env = (r, h', e', .done (.ok g.st)))
    (hws : h'.writers = [none]) (hm : e'.mutex = none)
    (hlog : e'.tr.wlog = (g.L1 ++ O1) ++ streamRecords 6 g.p.id g.data)
    (hfin : REnd g.N r e'.tr.input) (hO : O1 ++ r.sp.output = g.Ob) (hseen : Q e'.tr)
    (hts : TStep c.env.tr e'.tr) (hsg : e'.segs = c.env.segs)
    (hb : Ben c.env.tr) (hstop : c.stop = false) (hev : Ev1 g c.env.tr) (hsc : c.scripts = g.more) :
    RQ0 g Q S0 3 c := by
  have hstep := C07.handler_step c r0 h hph
  rw [heq] at hstep
  have halive : (h'.writers.filter Option.isSome).length = 0 := by rw [hws]; rfl
  simp only [halive] at hstep
  have hstep' : stepConn c =
      .next ⟨.closing r .start g.st 0, e'.ev s!"HE(ok:{showStatus g.st})", c.scripts, c.stop⟩ := hstep
  have hts2 : TStep c.env.tr (e'.tr.ev s!"HE(ok:{showStatus g.st})") :=
    hts.trans (TStep.ev _ (by simp [isHS, toString_str]))
  obtain ⟨heq2, hce⟩ := close_start_eq (g := g) (r := r) (t := e'.tr.ev s!"HE(ok:{showStatus g.st})") hfin
  have hcore := eclose_out (g := g) (Lf := g.Lb O1 r.sp.output) (ep := g.epi)
    (c := ⟨.closing r .start g.st 0, e'.ev s!"HE(ok:{showStatus g.st})", c.scripts, c.stop⟩)
    (r := r) (r2 := closeReq r) (cs := .start) (rest := r.sp.output) rfl
    (by show closePoll r .start g.st 0 e'.mutex _ = closeP4 _ none _ _
        rw [hm]; exact heq2)
    (.refl _) hce
    (by show (e'.tr.ev _).wlog ++ r.sp.output ++ g.epi = g.Lb O1 r.sp.output
        rw [Transport.ev_wlog, hlog]; simp only [Cfg.Lb, List.append_assoc])
    (hb.step hts2) hstop (hev.step hts2) hsc
  have hseen2 : Q (e'.tr.ev s!"HE(ok:{showStatus g.st})") :=
    hQ.up _ _ (fun _ hx => List.mem_append_left _ hx) hseen
  have hres : RQ0 g Q S0 2 ⟨.closing r .start g.st 0, e'.ev s!"HE(ok:{showStatus g.st})", c.scripts, c.stop⟩ := hcore.imp
    (fun c' hl x => Or.inr (Or.inr ⟨O1, r.sp.output, hO, hQ.up _ _ (fun _ hx => hl.ts.evm _ hx) hseen2, x⟩))
    (fun c' hl x => (⟨O1, r.sp.output, hO, hQ.up _ _ (fun _ hx => hl.ts.evm _ hx) hseen2, x⟩ : AQ g Q c'))
    (fun c' hl x => (⟨O1, r.sp.output, hO, hQ.up _ _ (fun _ hx => hl.ts.evm _ hx) hseen2, x⟩ : FQ g Q c'))
  exact (GRes3.of_steps (Steps.one hstep') ⟨hts2.w, hsg, rfl⟩ hres).mono (by omega)

/-- what a poll of the write phase comes to -/
theorem bwrite_outQ {g : Cfg} {Q : Transport → Prop} {S0 : Conn → Prop} (hQ : MonoQ Q) {c : Conn} {r0 r : AReq} {h : HState} {e0 : Run.Env}
    {O1 : Bytes} (hph : c.phase = .handler r0 h)
    {out : AReq × HState × Run.Env × HRes}
    (heq : handlerPoll ((handlerFuel c.env r0 + scriptOf c)) r0 h c.env = out)
    (hw : WOutG g.p.id g.data g.st (g.L1 ++ O1) r e0 out)
    (hts0 : TStep c.env.tr e0.tr) (hsg0 : e0.segs = c.env.segs)
    (hfin : REnd g.N r e0.tr.input) (hO : O1 ++ r.sp.output = g.Ob) (hseen : Q e0.tr)
    (hb : Ben c.env.tr) (hstop : c.stop = false) (hev : Ev1 g c.env.tr) (hsc : c.scripts = g.more) :
    RQ0 g Q S0 3 c := by
  obtain ⟨r', h', e', res⟩ := out
  obtain ⟨q0, q1, q2, q3, q4⟩ := hw
  simp only at q0 q1 q2 q3 q4
  subst q0
  have hts := hts0.trans q1
  have hseen' : Q e'.tr := hQ.up _ _ (fun _ hx => q1.mem_events hx) hseen
  rcases q4 with ⟨rfl, hwk, hans, hwg⟩ | ⟨rfl, hws, hm, hlog⟩
  · have hstep := C07.handler_step c r0 h hph
    rw [heq] at hstep
    have hstep' : stepConn c = .halt ⟨.handler r' h', e', c.scripts, c.stop⟩ .pending := hstep
    exact Or.inl (Or.inl ⟨_, (Halts.now hstep').mono (by omega), ⟨hts.w, q3.trans hsg0, rfl⟩,
      Or.inr (Or.inl ⟨r', h', O1, rfl, hwg, by rw [q2]; exact hfin, hO, hseen', hb.step hts, hstop,
        hev.step hts, hsc⟩), hwk, by show ans e'.tr < ans c.env.tr; have := hts0.ans_le; omega⟩)
  · exact bdoneQ hQ hph heq hws hm hlog (by rw [q2]; exact hfin) hO hseen' hts (q3.trans hsg0) hb hstop hev hsc


theorem SQ.cong {g : Cfg} {Q : Transport → Prop} {S0 : Conn → Prop} (hQ : MonoQ Q)
    (h0 : ∀ c c', S0 c → c'.phase = c.phase → c'.scripts = c.scripts → c'.stop = c.stop →
      c'.env.mutex = c.env.mutex → TrSame c.env.tr c'.env.tr → S0 c') {c c' : Conn} (h : SQ g Q S0 c)
    (hph : c'.phase = c.phase) (hsc : c'.scripts = c.scripts) (hstop : c'.stop = c.stop)
    (hm : c'.env.mutex = c.env.mutex) (hs : TrSame c.env.tr c'.env.tr) : SQ g Q S0 c' := by
  rcases h with h | ⟨r, h, O1, h1, h2, h3, h4, h5, h6, h7, h8, h9⟩ | ⟨O1, O2, h1, h2, h3⟩
  · exact Or.inl (h0 c c' h hph hsc hstop hm hs)
  · exact Or.inr (Or.inl ⟨r, h, O1, hph.trans h1, h2.cong hm hs.wlog, by rw [hs.input]; exact h3, h4,
      hQ.up _ _ (fun _ hx => hs.mem hx) h5, hs.ben h6, hstop.trans h7, hs.ev1 h8, hsc.trans h9⟩)
  · exact Or.inr (Or.inr ⟨O1, O2, h1, hQ.up _ _ (fun _ hx => hs.mem hx) h2, h3.cong hph hsc hstop hm hs⟩)

/-- **One poll** with the handler in its `write_all`. -/
theorem hwq_poll {g : Cfg} {Q : Transport → Prop} {S0 : Conn → Prop} (hQ : MonoQ Q)
    (hfu : wcost g.data.length + 3 ≤ 1000) {c : Conn} (h : HWq g Q c) : RQ0 g Q S0 3 c := by
  obtain ⟨r, h, O1, hph, hw, hfin, hO, hseen, hb, hstop, hev, hsc⟩ := h
  have hfuel := handlerFuel_ge c.env r
  have hout := write_phaseG (r := r) hw hb (fuel := (handlerFuel c.env r + scriptOf c)) (by omega)
  exact bwrite_outQ hQ (r := r) (e0 := c.env) hph rfl hout (.refl _) rfl hfin hO hseen hb hstop hev hsc

theorem tq_poll {g : Cfg} {Q : Transport → Prop} {S0 : Conn → Prop} (hQ : MonoQ Q) {c : Conn} (h : TQ g Q c) :
    RQ0 g Q S0 2 c := by
  obtain ⟨O1, O2, hO, hseen, h⟩ := h
  exact (le_poll h).imp
    (fun c' hl x => Or.inr (Or.inr ⟨O1, O2, hO, hQ.up _ _ (fun _ hx => hl.ts.evm _ hx) hseen, x⟩))
    (fun c' hl x => ⟨O1, O2, hO, hQ.up _ _ (fun _ hx => hl.ts.evm _ hx) hseen, x⟩)
    (fun c' hl x => ⟨O1, O2, hO, hQ.up _ _ (fun _ hx => hl.ts.evm _ hx) hseen, x⟩)

/-! ## Variant 1: consume less than shown, then `readAll` the rest -/

theorem resp_kok {g : Cfg} (hid : g.p.id < 65536) (hb : Body g.p.id 5 g.content g.body)
    (hf : NoiseFits (alignedBufsize g.b) g.body) (hp : g.pad.length < 256) (hX2 : g.X2 = [])
    (hX : g.X = serAll g.body ++ g.term.ser) : g.K.OK := by
  have htw : g.term.WF := ⟨hid, by simp [Cfg.term], hp⟩
  have hXs : g.X = serAll (g.body ++ g.term :: []) := by
    rw [hX, C02.serAll_append, C02.serAll_single]
  have hcls : rclass ⟨g.p.id, g.p.role, 5, g.mc⟩ g.term = .endStream := by simp [rclass, Cfg.term, RT.isInputStream]
  have href := refWire_stream ⟨g.p.id, g.p.role, 5, g.mc⟩ (Or.inl rfl) hid hb g.term htw hcls []
    (fun _ h => nomatch h)
  have hwf : ∀ r ∈ g.body ++ g.term :: [], r.WF := by
    intro r hr
    rcases List.mem_append.1 hr with hr | hr
    · exact body_wf hid hb r hr
    · rw [List.mem_singleton.1 hr]; exact htw
  refine ⟨?_, ?_, by have := cap24 g; show 8 ≤ g.cap; omega⟩
  · show refWire ⟨g.p.id, g.p.role, 5, g.mc⟩ g.X = _
    rw [hXs, href]
    simp only [Cfg.K, hX2, C02.serAll_single, List.append_nil]
  · intro G hG hv
    have hG' : G <+: g.X := hG
    rw [hXs] at hG'
    refine stream_fits ⟨g.p.id, g.p.role, 5, g.mc⟩ _ hwf (by rw [href]; intro h; cases h)
      (by have := cap24 g; show 8 ≤ alignedBufsize g.b; exact Nat.le_trans (by omega) this) ?_ G hG' hv
    intro r hr hg
    rcases List.mem_append.1 hr with hr | hr
    · exact hf r hr hg
    · rw [List.mem_singleton.1 hr] at hg
      exact absurd hg.1 (by simp [Cfg.term, RT.getValues])


/-- `n` rounds of `fill_buf` / `consume(k)`, then `readAll`, then the write-only script -/
def bscript2 (n k : Nat) (data : Bytes) (st : ExitStatus) : List HOp := rounds n k ++ .readAll :: oscript data st

structure BR2OK (g : Cfg) (n k : Nat) : Prop where
  wf : WellFormedPreamble g.p g.recs
  role : g.p.role = 1
  pairs : ∀ q ∈ g.p.pairs, (NV.enc q).length ≤ alignedBufsize g.b
  noise : NoiseFits (alignedBufsize g.b) g.recs
  hb : Body g.p.id 5 g.content g.body
  hf : NoiseFits (alignedBufsize g.b) g.body
  hp : g.pad.length < 256
  hX2 : g.X2 = []
  hX : g.X = serAll g.body ++ g.term.ser
  hU : g.U = g.term.ser
  hs : g.hscript = bscript2 n k g.data g.st
  /-- model fuel -/
  hfu : 2 * n + wcost g.data.length + 20 ≤ 1000

theorem BR2OK.fok {g : Cfg} {n k : Nat} (ok : BR2OK g n k) : FOK g := ⟨ok.wf, ok.pairs, ok.noise⟩
theorem BR2OK.hid {g : Cfg} {n k : Nat} (ok : BR2OK g n k) : g.p.id < 65536 := (pid_of_wf ok.wf).2
theorem BR2OK.kok {g : Cfg} {n k : Nat} (ok : BR2OK g n k) : g.K.OK := resp_kok ok.hid ok.hb ok.hf ok.hp ok.hX2 ok.hX
theorem BR2OK.kfin {g : Cfg} {n k : Nat} (ok : BR2OK g n k) : g.K.final = true := by
  simp [RCtx.final, Cfg.K, ok.role, nextInputStream, RT.stdin]
theorem BR2OK.ku {g : Cfg} {n k : Nat} (ok : BR2OK g n k) : g.K.U = g.U := by simp [Cfg.K, ok.hX2, ok.hU]
theorem BR2OK.rwf {g : Cfg} {n k : Nat} (ok : BR2OK g n k) : ∀ r ∈ g.R, r.WF := by
  intro r hr
  rcases List.mem_append.1 hr with hr | hr
  · exact body_wf ok.hid ok.hb r hr
  · rw [List.mem_singleton.1 hr]; exact ⟨ok.hid, by simp [Cfg.term], ok.hp⟩
theorem BR2OK.XR {g : Cfg} {n k : Nat} (ok : BR2OK g n k) : g.X = serAll g.R := by
  rw [ok.hX, Cfg.R, C02.serAll_append, C02.serAll_single]

/-- what the handler has seen: the slices shown (it took the first `k` bytes of each) and what its
`readAll` then returned — together the whole content -/
def Q1 (g : Cfg) (k : Nat) (t : Transport) : Prop :=
  ∃ shown acc, g.content = taken k shown ++ acc ∧ SlEv shown t ∧ rEvent acc ∈ t.events

theorem q1_mono (g : Cfg) (k : Nat) : MonoQ (Q1 g k) :=
  ⟨fun _ _ hm ⟨shown, acc, h1, h2, h3⟩ => ⟨shown, acc, h1, fun s hs => hm _ (h2 s hs), hm _ h3⟩⟩

/-- the handler in its rounds, or about to start its `readAll` (`n' = 0`) -/
def HB1 (g : Cfg) (k : Nat) (c : Conn) : Prop :=
  ∃ r n' handed dO shown, c.phase = .handler r { ops := rounds n' k ++ .readAll :: oscript g.data g.st, propagate := true } ∧
    BSt g.K g.L1 [] r c.env.mutex c.env.tr handed dO ∧
    Pos g.R r.sp.raw r.sp.pay r.sp.pad c.env.tr.input ∧
    handed = taken k shown ∧ SlEv shown c.env.tr ∧ 2 * n' + wcost g.data.length + 20 ≤ 1000 ∧
    Ben c.env.tr ∧ c.stop = false ∧ Ev1 g c.env.tr ∧ c.scripts = g.more

/-- the handler suspended in its `readAll`, `acc` collected so far -/
def HA1 (g : Cfg) (k : Nat) (c : Conn) : Prop :=
  ∃ r acc dO shown, c.phase = .handler r { ops := .readAll :: oscript g.data g.st, sub := .readAllAcc acc, propagate := true } ∧
    BSt g.K g.L1 [] r c.env.mutex c.env.tr (taken k shown ++ acc) dO ∧ SlEv shown c.env.tr ∧
    Ben c.env.tr ∧ c.stop = false ∧ Ev1 g c.env.tr ∧ c.scripts = g.more

def S01 (g : Cfg) (k : Nat) (c : Conn) : Prop := FStage g c ∨ HB1 g k c ∨ HA1 g k c

theorem BSt.cong' {K : RCtx} {L P : Bytes} {r : AReq} {m m' : MutexSt} {t t' : Transport} {handed dO : Bytes}
    (h : BSt K L P r m t handed dO) (hm : m' = m) (hs : TrSame t t') : BSt K L P r m' t' handed dO := by
  obtain ⟨⟨G, hi⟩, a, b, ⟨O1, l1, l2⟩⟩ := h
  exact ⟨⟨G, by rw [hs.input]; exact hi⟩, by rw [hm]; exact a, by rw [hm]; exact b, ⟨O1, by rw [hs.wlog]; exact l1, l2⟩⟩

theorem S01.cong {g : Cfg} {k : Nat} (c c' : Conn) (h : S01 g k c)
    (hph : c'.phase = c.phase) (hsc : c'.scripts = c.scripts) (hstop : c'.stop = c.stop)
    (hm : c'.env.mutex = c.env.mutex) (hs : TrSame c.env.tr c'.env.tr) : S01 g k c' := by
  rcases h with h | ⟨r, n', handed, dO, shown, h1, h2, h3, h4, h5, h6, h7, h8, h9, h10⟩ |
    ⟨r, acc, dO, shown, h1, h2, h3, h4, h5, h6, h7⟩
  · exact Or.inl (h.cong hph hsc hstop hm hs)
  · exact Or.inr (Or.inl ⟨r, n', handed, dO, shown, hph.trans h1, BSt.cong' h2 hm hs, by rw [hs.input]; exact h3, h4,
      fun s hx => hs.mem (h5 s hx), h6, hs.ben h7, hstop.trans h8, hs.ev1 h9, hsc.trans h10⟩)
  · exact Or.inr (Or.inr ⟨r, acc, dO, shown, hph.trans h1, BSt.cong' h2 hm hs, fun s hx => hs.mem (h3 s hx), hs.ben h4,
      hstop.trans h5, hs.ev1 h6, hsc.trans h7⟩)

abbrev R1 (g : Cfg) (k : Nat) (N : Nat) (c : Conn) : Prop := RQ0 g (Q1 g k) (S01 g k) N c

/-- the rest of a poll from the handler's `readAll` on -/
theorem ra1_poll {g : Cfg} {n k : Nat} (ok : BR2OK g n k) {c : Conn} {r0 r : AReq} {H0 : HState} {sub : HSub}
    {e : Run.Env} {f : Nat} {dO : Bytes} {shown : List Bytes} (hph : c.phase = .handler r0 H0)
    (heq : handlerPoll ((handlerFuel c.env r0 + scriptOf c)) r0 H0 c.env =
      handlerPoll f r { ops := .readAll :: oscript g.data g.st, sub := sub, propagate := true } e)
    (hs : BSt g.K g.L1 [] r e.mutex e.tr (taken k shown ++ accOf sub) dO) (hsl : SlEv shown e.tr)
    (hts : TStep c.env.tr e.tr) (hsg : e.segs = c.env.segs)
    (hf : 2 * ((2 * g.cap + e.tr.input.length) / 64) + 2 * e.tr.input.length + wcost g.data.length + 12 ≤ f)
    (hb : Ben c.env.tr) (hstop : c.stop = false) (hev : Ev1 g c.env.tr) (hsc : c.scripts = g.more) :
    R1 g k 3 c := by
  have hK := ok.kok
  have hrl := BSt.rem_le hK hs
  have hcapK : g.K.cap = g.cap := rfl
  have hdiv : (g.K.C.length - (taken k shown ++ accOf sub).length) / 64 ≤ (2 * g.cap + e.tr.input.length) / 64 :=
    Nat.div_le_div_right (by omega)
  have hbe := hb.step hts
  rcases readAllO_run hK (L := g.L1) (P := []) (taken k shown) (oscript g.data g.st) [] true
      (2 * ((g.K.C.length - (taken k shown ++ accOf sub).length) / 64) + 2 * e.tr.input.length + 4) f r sub e dO 1 1
      (by omega) (by omega) (fun _ => Nat.le_refl _) (fun h => by omega) hbe hs with
    ⟨r', acc', e', dO', d1, d3, d5, d6, d8, d9⟩ |
    ⟨r', e', acc, f', d1, d2, d3, d4, dl, dm, dpay, dpad, dwire, dw, dsg, dts⟩
  · have hstep := C07.handler_step c r0 H0 hph
    rw [heq, d1] at hstep
    have hstep' : stepConn c = .halt ⟨.handler r' { ops := .readAll :: oscript g.data g.st, sub := .readAllAcc acc', propagate := true },
        e', c.scripts, c.stop⟩ .pending := hstep
    have ht := hts.trans d6
    exact Or.inl (Or.inl ⟨_, (Halts.now hstep').mono (by omega), ⟨ht.w, d5.trans hsg, rfl⟩,
      Or.inl (Or.inr (Or.inr ⟨r', acc', dO', shown, rfl, d3, hsl.step d6, hb.step ht, hstop, hev.step ht, hsc⟩)),
      d8, by show ans e'.tr < ans c.env.tr; have := hts.ans_le; omega⟩)
  · -- the `readAll` is complete: `output_stream(Stdout)`, `write_all(data)`
    obtain ⟨⟨G, hi⟩, _, _, ⟨O1, hl1, hl2⟩⟩ := d4
    have hreq : r'.sp.request = g.p.request := hi.req
    have hrl2 : r'.sp.raw.length ≤ g.cap := by
      have := hi.sinv.1
      rw [hi.capK] at this
      simp only [Str.Parser.freeStart] at this
      omega
    have hts1 : TStep e.tr (e'.ev (rEvent acc)).tr := dts.trans (TStep.ev _ (isHS_rEvent _))
    have hfin : REnd g.N r' (e'.ev (rEvent acc)).tr.input :=
      ⟨dw ok.kfin, dl, dpay, dpad, by show r'.sp.raw ++ e'.tr.input = g.U; rw [dwire]; exact ok.ku, hreq, hi.capK,
        hi.mt.mc, hrl2, hi.sinv⟩
    have hid2 : r'.sp.request.id = g.p.id := by rw [hreq]; rfl
    have hinle := dts.tle.input_len
    have hw := open_phaseG (data := g.data) (st := g.st) (Lb := g.L1 ++ O1) (r := r') (e := e'.ev (rEvent acc))
      (dw ok.kfin) (by rw [hreq]; exact ok.role) dm (by show (e'.tr.ev _).wlog = _; rw [Transport.ev_wlog, hl1])
      (hbe.step hts1) (fuel := f') (by omega)
    rw [hid2] at hw
    have hseen : Q1 g k (e'.ev (rEvent acc)).tr :=
      ⟨shown, acc, d3.symm, fun s hx => (hts1.mem_events (hsl s hx)), by
        show rEvent acc ∈ e'.tr.events ++ [rEvent acc]; simp⟩
    have hO : O1 ++ r'.sp.output = g.Ob := by rw [hl2]; rfl
    exact bwrite_outQ (q1_mono g k) (r := r') (e0 := e'.ev (rEvent acc)) (O1 := O1) hph (heq.trans d1) hw
      (hts.trans hts1) (dsg.trans hsg) hfin hO hseen hb hstop hev hsc

/-- **One poll** with the handler in its rounds. -/
theorem hb1_poll {g : Cfg} {n k : Nat} (ok : BR2OK g n k) {c : Conn} (h : HB1 g k c) : R1 g k 3 c := by
  obtain ⟨r, n', handed, dO, shown, hph, hs, hpos, hsh, hevs, hfu, hb, hstop, hev, hsc⟩ := h
  have hK := ok.kok
  have hcapr : r.sp.cap = g.cap := by obtain ⟨⟨G, hi⟩, _⟩ := hs; exact hi.capK
  have hfuel : 1000 + 4 * c.env.tr.input.length + 4 * g.cap ≤ (handlerFuel c.env r + scriptOf c) := by
    unfold handlerFuel; rw [hcapr]; omega
  rcases rounds_runG hK (L := g.L1) (P := []) ok.rwf k (.readAll :: oscript g.data g.st) [] true n'
      ((handlerFuel c.env r + scriptOf c)) r c.env handed dO shown (by omega) hb hs hpos hsh hevs with
    ⟨n2, r', e', handed', dO', shown', a0, a1, a2, a3, a4, a5, a6, a7, a8, a9, _⟩ |
    ⟨r', e', handed', dO', shown', f', b1, b2, b3, b4, b5, b6, b7, b8, _⟩
  · have hstep := C07.handler_step c r _ hph
    rw [a1] at hstep
    have hstep' : stepConn c = .halt ⟨.handler r' { ops := rounds n2 k ++ .readAll :: oscript g.data g.st, propagate := true },
        e', c.scripts, c.stop⟩ .pending := hstep
    exact Or.inl (Or.inl ⟨_, (Halts.now hstep').mono (by omega), ⟨a7.w, a6, rfl⟩,
      Or.inl (Or.inr (Or.inl ⟨r', n2, handed', dO', shown', rfl, a2, a3, a4, a5, by omega, hb.step a7, hstop, hev.step a7,
        hsc⟩)), a8, a9⟩)
  · have hinle := b8.tle.input_len
    have hdiv : (2 * g.cap + e'.tr.input.length) / 64 ≤ (2 * g.cap + c.env.tr.input.length) / 64 :=
      Nat.div_le_div_right (by omega)
    refine ra1_poll ok (sub := .fresh) (shown := shown') hph b1 (by
        rw [← b5]
        show BSt g.K g.L1 [] r' e'.mutex e'.tr (handed' ++ []) dO'
        rw [List.append_nil]; exact b3) b6 b8 b7 ?_
      hb hstop hev hsc
    omega

/-- **One poll** with the handler suspended in its `readAll`. -/
theorem ha1_poll {g : Cfg} {n k : Nat} (ok : BR2OK g n k) {c : Conn} (h : HA1 g k c) : R1 g k 3 c := by
  obtain ⟨r, acc, dO, shown, hph, hs, hsl, hb, hstop, hev, hsc⟩ := h
  have hcapr : r.sp.cap = g.cap := by obtain ⟨⟨G, hi⟩, _⟩ := hs; exact hi.capK
  have hfuel : 1000 + 4 * c.env.tr.input.length + 4 * g.cap ≤ (handlerFuel c.env r + scriptOf c) := by
    unfold handlerFuel; rw [hcapr]; omega
  have hfu := ok.hfu
  refine ra1_poll ok (sub := .readAllAcc acc) (shown := shown) hph rfl hs hsl (.refl _) rfl ?_ hb hstop hev hsc
  omega

/-- the first poll of the handler -/
theorem bufread2_first {g : Cfg} {n k : Nat} (ok : BR2OK g n k) (c : Conn) (hc : FirstCfg g c) : R1 g k 6 c := by
  obtain ⟨e1, hph, hlen, hwire, hlog, hm, hb, hstop, hev, hsc⟩ := hc
  have hrole : g.p.request.role = 1 := ok.role
  have hstart : C03SI.Start g.K.E (Str.Parser.fromParser g.cap g.p.request e1 g.mc) :=
    C03SI.start_fresh g.cap g.p.request e1 g.mc hlen ok.hid (Or.inl hrole)
  have hrinv : RInv g.K (AReq.new (Str.Parser.fromParser g.cap g.p.request e1 g.mc)) e1 c.env.tr.input [] [] := by
    refine ⟨hstart.mtch, hstart.inv, rfl, rfl, rfl, hwire, fun x => ?_⟩
    have := C03SI.rem_start hstart x
    show refWire g.K.E (e1 ++ x) = (Rem g.K.E (Str.Parser.fromParser g.cap g.p.request e1 g.mc) x).pre [] []
    rw [this]; rfl
  have hrst : RSt g.K g.L1 [] (AReq.new (Str.Parser.fromParser g.cap g.p.request e1 g.mc)) c.env.mutex c.env.tr [] [] :=
    ⟨⟨e1, hrinv⟩, by rw [hm]; exact lockInv_free rfl, Or.inl hm, ⟨[], by rw [hlog, List.append_nil], rfl⟩⟩
  rw [ok.hs] at hph
  have hfu := ok.hfu
  exact (hb1_poll ok ⟨_, n, [], [], [], hph, by
      show RStB g.K g.L1 [] _ c.env.mutex c.env.tr ([] ++ _) []
      exact .of hrst,
    ⟨[], [], g.R, rfl, rfl, by
      show e1 ++ c.env.tr.input = [] ++ ([] ++ serAll g.R)
      rw [hwire, ok.XR]; rfl, List.suffix_refl _⟩,
    rfl, (fun _ h => nomatch h), by omega, hb, hstop, hev, hsc⟩).mono (by omega)

theorem s1q_poll {g : Cfg} {n k : Nat} (ok : BR2OK g n k) {c : Conn} (h : SQ g (Q1 g k) (S01 g k) c) :
    R1 g k (2 * c.env.tr.input.length + 15) c := by
  have hfu := ok.hfu
  rcases h with (h | h | h) | h | h
  · exact fstage_poll3 ok.fok (fun _ h => Or.inl (Or.inl h)) (bufread2_first ok) h
  · exact (hb1_poll ok h).mono (by omega)
  · exact (ha1_poll ok h).mono (by omega)
  · exact (hwq_poll (q1_mono g k) (by omega) h).mono (by omega)
  · exact (tq_poll (q1_mono g k) h).mono (by omega)

/-- **The executor**, variant 1. -/
theorem run_bufread2 {g : Cfg} {n k : Nat} (ok : BR2OK g n k) {Z : Bytes}
    (hns : NoStuckW g.cap g.mc (g.U ++ Z))
    (hNF : ∀ F x, F ++ x ++ Z = g.U ++ Z → (run .header F g.mc).st.isFinal = false)
    (em : EndMode) (evs0 : List String) (c : Conn) (n0 fuel : Nat) (hst : FStage g c)
    (hem : c.env.tr.endMode = em) (hev0 : ∀ s ∈ evs0, s ∈ c.env.tr.events)
    (hsegs : c.env.segs = []) (hf : ans c.env.tr + 1 ≤ fuel) (hlen : 6 * c.env.tr.input.length + 26 ≤ 100000) :
    ∃ c'' fin, runTask fuel c n0 none = (c'', fin) ∧
      (GEnd g.cap g.mc Z g.more (g.hs0 + 1)
          (fun i : Bytes × Bytes × List Bytes × Bytes => g.p.flags.toNat % 2 = 1 ∧ i.1 ++ i.2.1 = g.Ob ∧
            g.content = taken k i.2.2.1 ++ i.2.2.2)
          (fun _ => g.U ++ Z) (fun i => g.Lb i.1 i.2.1)
          (fun i => hsEvent g.p.request :: rEvent i.2.2.2 :: i.2.2.1.map fEvent) em evs0 (ans c.env.tr) c'' fin ∨
       (fin = "RET" ∧ FQ g (Q1 g k) c'' ∧ c''.env.tr.endMode = em ∧ (∀ s ∈ evs0, s ∈ c''.env.tr.events))) :=
  run_stages3 (cap24 g) (fun _ _ => hns) (fun _ _ => hNF)
    (fun _ _ h => SQ.cong (q1_mono g k) (fun c c' h a b d e f => S01.cong c c' h a b d e f) h)
    (fun _ h => (s1q_poll ok h).imp (fun _ _ h => h) (fun c1 _ h => by
      obtain ⟨O1, O2, hO, ⟨shown, acc, q1, q2, q3⟩, haf⟩ := h
      obtain ⟨raw, hph, hw, hraw⟩ := haf.ph
      exact ⟨(O1, O2, shown, acc), ⟨haf.keep, hO, q1⟩,
        Or.inr ⟨raw, hph, by rw [hw], hraw, haf.log, haf.ben, haf.stop⟩,
        ⟨haf.sc, haf.mtx, haf.ev.1, fun s hs => by
          rcases List.mem_cons.1 hs with rfl | hs
          · exact haf.ev.2
          rcases List.mem_cons.1 hs with rfl | hs
          · exact q3
          · obtain ⟨x, hx, rfl⟩ := List.mem_map.1 hs
            exact q2 x hx⟩⟩) (fun _ _ h => h))
    em evs0 c n0 fuel (Or.inl (Or.inl hst)) hem hev0 hsegs hf hlen

/-- `run_bufread2` without the size hypothesis (`run_stages3'`). -/
theorem run_bufread2' {g : Cfg} {n k : Nat} (ok : BR2OK g n k) {Z : Bytes}
    (hns : NoStuckW g.cap g.mc (g.U ++ Z))
    (hNF : ∀ F x, F ++ x ++ Z = g.U ++ Z → (run .header F g.mc).st.isFinal = false)
    (em : EndMode) (evs0 : List String) (c : Conn) (n0 fuel : Nat) (hst : FStage g c)
    (hem : c.env.tr.endMode = em) (hev0 : ∀ s ∈ evs0, s ∈ c.env.tr.events)
    (hsegs : c.env.segs = []) (hf : ans c.env.tr + 1 ≤ fuel) :
    ∃ c'' fin, runTask fuel c n0 none = (c'', fin) ∧
      (GEnd g.cap g.mc Z g.more (g.hs0 + 1)
          (fun i : Bytes × Bytes × List Bytes × Bytes => g.p.flags.toNat % 2 = 1 ∧ i.1 ++ i.2.1 = g.Ob ∧
            g.content = taken k i.2.2.1 ++ i.2.2.2)
          (fun _ => g.U ++ Z) (fun i => g.Lb i.1 i.2.1)
          (fun i => hsEvent g.p.request :: rEvent i.2.2.2 :: i.2.2.1.map fEvent) em evs0 (ans c.env.tr) c'' fin ∨
       (fin = "RET" ∧ FQ g (Q1 g k) c'' ∧ c''.env.tr.endMode = em ∧ (∀ s ∈ evs0, s ∈ c''.env.tr.events))) :=
  run_stages3' (cap24 g) (fun _ _ => hns) (fun _ _ => hNF)
    (fun _ _ h => SQ.cong (q1_mono g k) (fun c c' h a b d e f => S01.cong c c' h a b d e f) h)
    (fun _ h => (s1q_poll ok h).imp (fun _ _ h => h) (fun c1 _ h => by
      obtain ⟨O1, O2, hO, ⟨shown, acc, q1, q2, q3⟩, haf⟩ := h
      obtain ⟨raw, hph, hw, hraw⟩ := haf.ph
      exact ⟨(O1, O2, shown, acc), ⟨haf.keep, hO, q1⟩,
        Or.inr ⟨raw, hph, by rw [hw], hraw, haf.log, haf.ben, haf.stop⟩,
        ⟨haf.sc, haf.mtx, haf.ev.1, fun s hs => by
          rcases List.mem_cons.1 hs with rfl | hs
          · exact haf.ev.2
          rcases List.mem_cons.1 hs with rfl | hs
          · exact q3
          · obtain ⟨x, hx, rfl⟩ := List.mem_map.1 hs
            exact q2 x hx⟩⟩) (fun _ _ h => h))
    em evs0 c n0 fuel (Or.inl (Or.inl hst)) hem hev0 hsegs hf

/-! ## Variant 2: consume part of the input, return -/

/-- **The rounds of one poll**, general form, with the lock: after a `fill_buf` that returned, the lock is free. -/
theorem rounds_runL {K : RCtx} (hK : K.OK) {L P : Bytes} {R : List Rec} (hR : ∀ r ∈ R, r.WF) (k : Nat)
    (tail : List HOp) (ws : List (Option Writer)) (pr : Bool) :
    ∀ (n fuel : Nat) (r : AReq) (e : Run.Env) (handed dO : Bytes) (shown : List Bytes),
      2 * n + 1 ≤ fuel → Ben e.tr → BSt K L P r e.mutex e.tr handed dO →
      Pos R r.sp.raw r.sp.pay r.sp.pad e.tr.input →
      handed = taken k shown → SlEv shown e.tr →
      ((n = 0 ∨ r.sp.parsed ≠ []) → r.lock = .none ∧ e.mutex = none) →
      (∃ (n' : Nat) (r' : AReq) (e' : Run.Env) (handed' dO' : Bytes) (shown' : List Bytes), n' ≤ n ∧
        handlerPoll fuel r { ops := rounds n k ++ tail, sub := .fresh, writers := ws, propagate := pr } e =
          (r', { ops := rounds n' k ++ tail, sub := .fresh, writers := ws, propagate := pr }, e', .pending) ∧
        BSt K L P r' e'.mutex e'.tr handed' dO' ∧ Pos R r'.sp.raw r'.sp.pay r'.sp.pad e'.tr.input ∧
        handed' = taken k shown' ∧ SlEv shown' e'.tr ∧ e'.segs = e.segs ∧ TStep e.tr e'.tr ∧
        e'.tr.woken = true ∧ ans e'.tr < ans e.tr ∧ (r.writeable = true → r'.writeable = true) ∧
        ((n' = 0 ∨ r'.sp.parsed ≠ []) → r'.lock = .none ∧ e'.mutex = none)) ∨
      (∃ (r' : AReq) (e' : Run.Env) (handed' dO' : Bytes) (shown' : List Bytes) (fuel' : Nat),
        handlerPoll fuel r { ops := rounds n k ++ tail, sub := .fresh, writers := ws, propagate := pr } e =
          handlerPoll fuel' r' { ops := tail, sub := .fresh, writers := ws, propagate := pr } e' ∧
        fuel ≤ fuel' + 2 * n ∧ BSt K L P r' e'.mutex e'.tr handed' dO' ∧
        Pos R r'.sp.raw r'.sp.pay r'.sp.pad e'.tr.input ∧ handed' = taken k shown' ∧
        SlEv shown' e'.tr ∧ e'.segs = e.segs ∧ TStep e.tr e'.tr ∧ (r.writeable = true → r'.writeable = true) ∧
        r'.lock = .none ∧ e'.mutex = none) := by
  intro n
  induction n with
  | zero =>
    intro fuel r e handed dO shown hf hb hs hpos hsh hev hl0
    exact Or.inr ⟨r, e, handed, dO, shown, fuel, rfl, by omega, hs, hpos, hsh, hev, rfl, .refl _, id, hl0 (Or.inl rfl)⟩
  | succ n ih =>
    intro fuel r e handed dO shown hf hb hs hpos hsh hev hl0
    obtain ⟨f, rfl⟩ : ∃ f, fuel = f + 2 := ⟨fuel - 2, by omega⟩
    show _ ∨ _
    simp only [rounds, List.cons_append]
    rw [hp_fill]
    rcases hpi : r.pollInput none e.mutex e.tr with ⟨r1, m1, t1, res⟩
    obtain ⟨hts, hfo, hbuf⟩ := fill_spec hK hb hs hpi
    have hwm : r.writeable = true → r1.writeable = true := pollInput_wmono hpi
    have hpos1 : (∀ s, res ≠ .panic s) → Pos R r1.sp.raw r1.sp.pay r1.sp.pad t1.input := by
      intro hnp
      by_cases hp : r.sp.parsed = []
      · exact pollInput_pos_none hR hb hs.lk hs.mx hp hpos hpi hnp
      · obtain ⟨e1, e2⟩ := hbuf hp
        rw [e1, e2]; exact hpos
    cases res with
    | pending =>
      left
      obtain ⟨⟨dO', hs'⟩, hpar1, hw, ha⟩ := hfo
      exact ⟨n + 1, r1, { e with mutex := m1, tr := t1 }, handed, dO', shown, Nat.le_refl _, rfl, hs',
        hpos1 (fun s hx => nomatch hx), hsh, hev.step hts, rfl, hts, hw, ha, hwm, fun h => by
          rcases h with h | h
          · omega
          · exact absurd hpar1 h⟩
    | err x => exact hfo.elim
    | panic s => exact hfo.elim
    | ready k0 d =>
      obtain ⟨_, ⟨dO', hs'⟩, hend⟩ := hfo
      have hl1 : r1.lock = .none ∧ m1 = none := by
        by_cases hp : r.sp.parsed = []
        · have hsr : RSt K L P r e.mutex e.tr handed dO := by
            have := RStB.toR hs hp
            rwa [hp, List.append_nil] at this
          obtain ⟨_, hpost⟩ := pollInput_sim_none hK hb hsr hpi
          obtain ⟨_, _, dO2, _, hlk, hm', _⟩ := hpost
          exact ⟨hlk, hm'⟩
        · have hfb := fill_buffered r e.mutex e.tr hp
          rw [hfb] at hpi
          cases hpi
          exact hl0 (Or.inr hp)
      simp only
      rw [hp_consume]
      have hts1 : TStep e.tr (t1.ev (fEvent r1.sp.parsed)) := hts.trans (TStep.ev _ (isHS_fEvent _))
      have hs1 : BSt K L P r1 m1 (t1.ev (fEvent r1.sp.parsed)) handed dO' := hs'.ev _
      have hs2 := hs1.consume k
      have hev2 : SlEv (shown ++ [r1.sp.parsed]) (t1.ev (fEvent r1.sp.parsed)) := by
        intro s hs
        rcases List.mem_append.1 hs with hs | hs
        · exact hts1.mem_events (hev s hs)
        · rw [List.mem_singleton.1 hs]
          show fEvent r1.sp.parsed ∈ t1.events ++ [fEvent r1.sp.parsed]
          simp
      rcases ih f { r1 with sp := r1.sp.consumeStream k }
          (({ e with mutex := m1, tr := t1 } : Run.Env).ev (fEvent r1.sp.parsed))
          (handed ++ r1.sp.parsed.take k) dO' (shown ++ [r1.sp.parsed]) (by omega) (hb.step hts1) hs2
          (hpos1 (fun s hx => nomatch hx)) (by rw [taken_append, hsh]) hev2 (fun _ => hl1) with
        ⟨n', r', e', handed', dO2, shown', a0, a1, a2, a3, a4, a5, a6, a7, a8, a9, a10, a11⟩ |
        ⟨r', e', handed', dO2, shown', f', b1, b2, b3, b4, b5, b6, b7, b8, b9, b10, b11⟩
      · left
        refine ⟨n', r', e', handed', dO2, shown', by omega, a1, a2, a3, a4, a5, a6, hts1.trans a7, a8, ?_, fun h => a10 (hwm h), a11⟩
        have := hts1.ans_le
        have a9' : ans e'.tr < ans (t1.ev (fEvent r1.sp.parsed)) := a9
        omega
      · right
        exact ⟨r', e', handed', dO2, shown', f', b1, by omega, b3, b4, b5, b6, b7, hts1.trans b8, fun h => b9 (hwm h), b10, b11⟩


/-- `r2_of_switch` from a request with bytes still in its stream buffer (`set_stream(None)` drops them) -/
theorem r2_of_switchB {id mc cap : Nat} {R : List Rec} (hc : R2Ctx id mc cap R) {K : RCtx} {r : AReq}
    {G fut dC dO : Bytes} (hE : K.E = ⟨id, 1, 5, mc⟩) (hX : K.X = serAll R) (hcap : K.cap = cap)
    (hi : RInvB K r G fut dC dO) (hpos : Pos R r.sp.raw r.sp.pay r.sp.pad fut) :
    R2 id mc cap R (r.sp.switchTo none) G fut dO := by
  have hR := stdin_recsOK hc.recs
  have hmt := hi.mt
  rw [hE] at hmt
  have hsinv := hi.sinv
  refine ⟨⟨rfl, hmt.id, hpos⟩, ⟨hmt.id, rfl, rfl, hmt.mc, (by show 8 ∈ inputStreams 3; decide)⟩, ?_, hi.capK.trans hcap, rfl,
    by rw [← hX]; exact hi.wire, ?_⟩
  · obtain ⟨h1, h2, h3, h4, _, h6⟩ := hsinv
    refine ⟨?_, h2, h3, ?_, Or.inr ⟨8, rfl, (by show 8 ∈ inputStreams 3; decide)⟩, h6⟩
    · simp only [Str.Parser.freeStart, view, Str.Parser.switchTo, Str.Parser.discardStream, List.length_nil] at h1 ⊢
      omega
    · show match (if r.sp.state == .stream then SState.skip else r.sp.state) with | .values v => v < 8 | _ => True
      rw [demote_eq]
      cases hst : r.sp.state with
      | values v => rw [hst] at h4; exact h4
      | stream => trivial
      | skip => trivial
  · intro x hx
    have hxf : x <+: fut := by
      rw [← hX, ← hi.wire] at hx
      exact (List.prefix_append_right_inj G).1 hx
    have hclean0 : CleanW id 0 0 (G ++ x) := clean_recs id R hR _ hx
    have hclean1 : CleanW id r.sp.pay r.sp.pad (r.sp.raw ++ x) :=
      clean_pos hR hpos ((List.prefix_append_right_inj r.sp.raw).2 hxf)
    have hw : refWire (Ev id mc) (G ++ x) = switchRef (Ev id mc) (refWire ⟨id, 1, 5, mc⟩ (G ++ x)) := by
      rw [← ref_eq_refWire (Ev id mc) .skip, ← ref_eq_refWire ⟨id, 1, 5, mc⟩ .skip, ref_role id mc hclean0]
      exact ref_switch (E := ⟨id, 3, 5, mc⟩) later358 (G ++ x) .skip 0 0
    have hrem : Rem (Ev id mc) (view (r.sp.switchTo none)) x = switchRef (Ev id mc) (Rem ⟨id, 1, 5, mc⟩ r.sp x) := by
      unfold Rem
      show ref (Ev id mc) (if r.sp.state == .stream then SState.skip else r.sp.state) r.sp.pay r.sp.pad (r.sp.raw ++ x) = _
      rw [demote_eq, ref_role id mc hclean1]
      exact ref_switch (E := ⟨id, 3, 5, mc⟩) later358 (r.sp.raw ++ x) r.sp.state r.sp.pay r.sp.pad
    have h1 := hi.hist x
    rw [hE] at h1
    rw [hw, h1, switchRef_pre, hrem]


structure BR3OK (g : Cfg) (n k : Nat) : Prop where
  wf : WellFormedPreamble g.p g.recs
  role : g.p.role = 1
  pairs : ∀ q ∈ g.p.pairs, (NV.enc q).length ≤ alignedBufsize g.b
  noise : NoiseFits (alignedBufsize g.b) g.recs
  hb : Body g.p.id 5 g.content g.body
  hf : NoiseFits (alignedBufsize g.b) g.body
  hp : g.pad.length < 256
  hX2 : g.X2 = []
  hX : g.X = serAll g.body ++ g.term.ser
  str : ∀ r ∈ g.R, StdinRec g.p.id r
  hs : g.hscript = rounds n k ++ [.ret g.st]
  /-- model fuel -/
  hfu : 2 * n + 10 ≤ 1000

/-- the same request with the handler `[.read 1, .ret st]` (for the facts about the wire) -/
theorem BR3OK.pok {g : Cfg} {n k : Nat} (ok : BR3OK g n k) : POK { g with hscript := [.read 1, .ret g.st] } 1 :=
  ⟨ok.wf, ok.role, ok.pairs, ok.noise, ok.hb, ok.hf, ok.hp, ok.hX2, ok.hX, ok.str, rfl, Nat.one_pos⟩

theorem BR3OK.fok {g : Cfg} {n k : Nat} (ok : BR3OK g n k) : FOK g := ⟨ok.wf, ok.pairs, ok.noise⟩
theorem BR3OK.hid {g : Cfg} {n k : Nat} (ok : BR3OK g n k) : g.p.id < 65536 := (pid_of_wf ok.wf).2
theorem BR3OK.kok {g : Cfg} {n k : Nat} (ok : BR3OK g n k) : g.K.OK := ok.pok.kok
theorem BR3OK.ctx {g : Cfg} {n k : Nat} (ok : BR3OK g n k) : R2Ctx g.p.id g.mc g.cap g.R := ok.pok.ctx
theorem BR3OK.XR {g : Cfg} {n k : Nat} (ok : BR3OK g n k) : g.X = serAll g.R := ok.pok.XR
theorem BR3OK.front {g : Cfg} {n k : Nat} (ok : BR3OK g n k) {us : List Rec} (hu : LeftOK (alignedBufsize g.b) us) :
    BR3OK (g.front us) n k :=
  ⟨wf_idle ok.wf us hu.1, ok.role, ok.pairs, noiseFits_app hu.2 ok.noise, ok.hb, ok.hf, ok.hp, ok.hX2, ok.hX, ok.str,
    ok.hs, ok.hfu⟩

/-- what the handler has consumed: of the slices shown the first `k` bytes each — a prefix of the content -/
def Q2 (g : Cfg) (k : Nat) (t : Transport) : Prop :=
  ∃ shown, taken k shown <+: g.content ∧ SlEv shown t

theorem q2_mono (g : Cfg) (k : Nat) : MonoQ (Q2 g k) :=
  ⟨fun _ _ hm ⟨shown, h1, h2⟩ => ⟨shown, h1, fun s hs => hm _ (h2 s hs)⟩⟩

/-- the handler in its rounds -/
def HB2 (g : Cfg) (k : Nat) (c : Conn) : Prop :=
  ∃ r n' handed dO shown, c.phase = .handler r { ops := rounds n' k ++ [.ret g.st], propagate := true } ∧
    BSt g.K g.L1 [] r c.env.mutex c.env.tr handed dO ∧
    Pos g.R r.sp.raw r.sp.pay r.sp.pad c.env.tr.input ∧
    handed = taken k shown ∧ SlEv shown c.env.tr ∧ r.writeable = true ∧
    ((n' = 0 ∨ r.sp.parsed ≠ []) → r.lock = .none ∧ c.env.mutex = none) ∧ 2 * n' + 10 ≤ 1000 ∧
    Ben c.env.tr ∧ c.stop = false ∧ Ev1 g c.env.tr ∧ c.scripts = g.more

/-- `close`, suspended in the transport read of `record_boundary()` -/
def BD2 (g : Cfg) (Q : Transport → Prop) (c : Conn) : Prop :=
  ∃ r dO, c.phase = .closing r .inBoundary g.st 0 ∧
    (∃ G, R2 g.p.id g.mc g.cap g.R r.sp G c.env.tr.input dO) ∧
    r.sp.request = g.p.request ∧ r.sp.maxConns = g.mc ∧ r.lock = .none ∧ r.writeable = true ∧
    c.env.mutex = none ∧ (∃ O1, c.env.tr.wlog = g.L1 ++ O1 ∧ O1 ++ r.sp.output = dO) ∧
    r.sp.isRecordBoundary = false ∧ r.sp.raw.length < g.cap ∧ r.sp.g0 = 0 ∧ r.sp.g1 = 0 ∧
    c.env.tr.input ≠ [] ∧ Q c.env.tr ∧ Ben c.env.tr ∧ c.stop = false ∧ Ev1 g c.env.tr ∧ c.scripts = g.more

/-- `close`, in its `write_all`s; the split of the stream's records is fixed -/
def LT2 (g : Cfg) (Q : Transport → Prop) (c : Conn) : Prop :=
  ∃ s1 s2, g.R = s1 ++ s2 ∧ Q c.env.tr ∧ LStage (gC g s1 s2) c

def S3b (g : Cfg) (k : Nat) (Q : Transport → Prop) (c : Conn) : Prop :=
  FStage g c ∨ HB2 g k c ∨ BD2 g Q c ∨ LT2 g Q c
def A3b (g : Cfg) (Q : Transport → Prop) (c : Conn) : Prop :=
  ∃ s1 s2, g.R = s1 ++ s2 ∧ Q c.env.tr ∧ AfterU (gC g s1 s2) c
def F3b (g : Cfg) (Q : Transport → Prop) (c : Conn) : Prop :=
  ∃ s1 s2, g.R = s1 ++ s2 ∧ Q c.env.tr ∧ FinU (gC g s1 s2) c

abbrev R3b (g : Cfg) (k : Nat) (Q : Transport → Prop) (N : Nat) (c : Conn) : Prop :=
  GRes3 (S3b g k Q) (A3b g Q) (F3b g Q) N c

theorem of_ures3 {g : Cfg} {k : Nat} {Q : Transport → Prop} (hQ : MonoQ Q) {N : Nat} {c : Conn} {s1 s2 : List Rec}
    (hsp : g.R = s1 ++ s2) (h : URes2 (gC g s1 s2) N c) (hq : Q c.env.tr) : R3b g k Q N c :=
  h.toG3.imp
    (fun c' hl x => Or.inr (Or.inr (Or.inr ⟨s1, s2, hsp, hQ.up _ _ (fun _ hx => hl.ts.evm _ hx) hq, x⟩)))
    (fun c' hl x => ⟨s1, s2, hsp, hQ.up _ _ (fun _ hx => hl.ts.evm _ hx) hq, x⟩)
    (fun c' hl x => ⟨s1, s2, hsp, hQ.up _ _ (fun _ hx => hl.ts.evm _ hx) hq, x⟩)

/-- **`record_boundary()` returned** (`.ready`: at a record boundary of the record list; `.pending`:
suspended in a transport read): the rest of that poll of `close`. -/
theorem pboundary_out3 {g : Cfg} {n k : Nat} {Q : Transport → Prop} (ok : BR3OK g n k) (hQ : MonoQ Q) {c : Conn} {r : AReq} {cs : CloseSt} {sp0 sp' : Str.Parser}
    {t' : Transport} {res : ORes} {dO : Bytes}
    (hph : c.phase = .closing r cs g.st 0)
    (heq : closePoll r cs g.st 0 c.env.mutex c.env.tr = closeTail r c.env.mutex g.st (sp', t', res))
    (hts : TStep c.env.tr t') (hwl : t'.wlog = c.env.tr.wlog)
    (hend : BEnd g.p.id g.mc g.cap g.R sp0 sp' dO t')
    (hreq : sp0.request = g.p.request) (hmc : sp0.maxConns = g.mc)
    (hres : (res = .ready ∧ sp'.isRecordBoundary = true) ∨
       (res = .pending ∧ t'.woken = true ∧ ans t' < ans c.env.tr ∧ sp'.isRecordBoundary = false ∧
          sp'.raw.length < g.cap ∧ sp'.g0 = 0 ∧ sp'.g1 = 0 ∧ t'.input ≠ []))
    (hlk : r.lock = .none) (hwr : r.writeable = true) (hm : c.env.mutex = none)
    (hlog : ∃ O1, c.env.tr.wlog = g.L1 ++ O1 ∧ O1 ++ sp0.output = dO) (hrd : Q c.env.tr)
    (hb : Ben c.env.tr) (hstop : c.stop = false) (hev : Ev1 g c.env.tr) (hsc : c.scripts = g.more) :
    R3b g k Q 2 c := by
  obtain ⟨⟨o, G', ho, hr2⟩, hreq', hmc'⟩ := hend
  obtain ⟨O1, hl1, hl2⟩ := hlog
  have hlog' : ∃ O1, t'.wlog = g.L1 ++ O1 ∧ O1 ++ sp'.output = dO ++ o :=
    ⟨O1, hwl.trans hl1, by rw [ho, ← List.append_assoc, hl2]⟩
  rcases hres with ⟨rfl, hbd⟩ | ⟨rfl, hwk, hans, hnb, hraw, hg0, hg1, hin⟩
  · -- at a record boundary: the split
    have hpay : sp'.pay = 0 ∧ sp'.pad = 0 := by
      simpa [Str.Parser.isRecordBoundary] using hbd
    obtain ⟨cc, pd, s2, hcc, hpd, hw, ⟨s1, hsuf⟩⟩ := hr2.ign.pos
    rw [hpay.1] at hcc
    rw [hpay.2] at hpd
    have hcc' : cc = [] := List.length_eq_zero_iff.1 hcc
    have hpd' : pd = [] := List.length_eq_zero_iff.1 hpd
    rw [hcc', hpd', List.nil_append, List.nil_append] at hw
    have hsp : g.R = s1 ++ s2 := hsuf.symm
    -- all replies for `s1` are generated
    have hctx := ok.ctx
    obtain ⟨_, hout, _⟩ := hr2.now hctx
    have hrem : Rem (Ev g.p.id g.mc) (view sp') t'.input = refWire (Ev g.p.id g.mc) (serAll s2) := by
      have hst : (view sp').state = .skip ∨ True := Or.inr trivial
      show ref (Ev g.p.id g.mc) (view sp').state (view sp').pay (view sp').pad ((view sp').raw ++ t'.input) = _
      have e1 : (view sp').pay = 0 := hpay.1
      have e2 : (view sp').pad = 0 := hpay.2
      have e3 : (view sp').raw = sp'.raw := rfl
      rw [e1, e2, e3, hw]
      exact ref_eq_refWire (Ev g.p.id g.mc) _ _
    have hs2 : ∀ r ∈ s2, StdinRec g.p.id r := fun r hr => ok.str r (by rw [hsp]; exact List.mem_append_right _ hr)
    rw [hrem, refWire_view g.p.id g.mc hs2] at hout
    have hdO : dO ++ o = owedI g.p.id g.mc s1 := by
      have : owedI g.p.id g.mc g.R = owedI g.p.id g.mc s1 ++ owedI g.p.id g.mc s2 := by
        rw [hsp]; simp [owedI, List.flatMap_append]
      rw [this] at hout
      exact List.append_cancel_right hout
    obtain ⟨O1', hl1', hl2'⟩ := hlog'
    have hepi : epilogueOf { r with sp := sp' } g.st = (gC g s1 s2).epi := by
      simp only [epilogueOf, hwr, if_true, Cfg.epi, outputStreams]
      show makeRequestEpilogue sp'.request.id g.st _ = _
      rw [hreq', hreq]; rfl
    have heq' : closePoll r cs (gC g s1 s2).st 0 c.env.mutex c.env.tr =
        closeP4 { sp := sp', lock := .none, writeable := r.writeable } c.env.mutex t'
          (.writeOut sp'.output (gC g s1 s2).epi) := by
      show closePoll r cs g.st 0 c.env.mutex c.env.tr = _
      rw [heq, ← hepi]
      simp only [closeTail, closeP2Tail, closeP3_start, Nat.lt_irrefl, gt_iff_lt, if_false, hlk, lockDrop]
    have hrawlen : sp'.raw.length ≤ g.cap := by
      have := hr2.sinv.1
      have e : (view sp').freeStart = sp'.freeStart := rfl
      have e2 : (view sp').cap = sp'.cap := rfl
      rw [e, e2, hr2.capK] at this
      simp only [Str.Parser.freeStart] at this
      omega
    have hce : CEndW (gC g s1 s2) { sp := sp', lock := .none, writeable := r.writeable } t'.input :=
      ⟨hpay.1, hpay.2, hw, hreq'.trans hreq, hr2.capK, hmc'.trans hmc, hrawlen⟩
    have hU := uclose_out' (g := gC g s1 s2) hph heq' hts hce hm
      (by rw [gC_LU, hl1', ← hdO, ← hl2']; simp only [List.append_assoc]; rfl) hb hstop hev hsc
    exact of_ures3 hQ hsp hU hrd
  · -- suspended in the read
    have hstep := C07.closing_step c r cs g.st 0 hph
    rw [heq] at hstep
    have hstep' : stepConn c = .halt (mkC c (.closing { r with sp := sp' } .inBoundary g.st 0) t') .pending := hstep
    refine Or.inl (Or.inl ⟨_, (Halts.now hstep').mono (by omega), mkC_link c _ hts, ?_, hwk, hans⟩)
    exact Or.inr (Or.inr (Or.inl ⟨{ r with sp := sp' }, dO ++ o, rfl, ⟨G', hr2⟩, hreq'.trans hreq, hmc'.trans hmc,
      hlk, hwr, hm, hlog', hnb, hraw, hg0, hg1, hin, hQ.up _ _ (fun _ hx => hts.mem_events hx) hrd, hb.step hts, hstop,
      hev.step hts, hsc⟩))

/-- **`close` called** after the handler's `read`: `writeable()` is ready, `set_stream(None)`,
`record_boundary()`. -/
theorem pclose_start3 {g : Cfg} {n k : Nat} {Q : Transport → Prop} (ok : BR3OK g n k) (hQ : MonoQ Q) {c : Conn} {r : AReq} {G dC dO : Bytes}
    (hph : c.phase = .closing r .start g.st 0)
    (hi : RInvB g.K r G c.env.tr.input dC dO) (hpos : Pos g.R r.sp.raw r.sp.pay r.sp.pad c.env.tr.input)
    (hlk : r.lock = .none) (hwr : r.writeable = true) (hm : c.env.mutex = none)
    (hlog : ∃ O1, c.env.tr.wlog = g.L1 ++ O1 ∧ O1 ++ r.sp.output = dO) (hrd : Q c.env.tr)
    (hb : Ben c.env.tr) (hstop : c.stop = false) (hev : Ev1 g c.env.tr) (hsc : c.scripts = g.more) :
    R3b g k Q 2 c := by
  have hctx := ok.ctx
  have hE : g.K.E = ⟨g.p.id, 1, 5, g.mc⟩ := by show (⟨g.p.id, g.p.role, 5, g.mc⟩ : Str.Cfg) = _; rw [ok.role]
  have hr2 : R2 g.p.id g.mc g.cap g.R (r.sp.switchTo none) G c.env.tr.input dO :=
    r2_of_switchB hctx hE ok.XR rfl hi hpos
  have hstrm : r.sp.stream = some 5 := hi.mt.strm
  have hign : spIgnore r.sp = r.sp.switchTo none := by simp [spIgnore, hstrm]
  have heq0 := closePoll_start_tail r c.env.mutex c.env.tr g.st hwr
  rw [hign] at heq0
  have hreq : (r.sp.switchTo none).request = g.p.request := hi.req
  have hmc : (r.sp.switchTo none).maxConns = g.mc := hi.mt.mc
  have hout : (r.sp.switchTo none).output = r.sp.output := rfl
  by_cases hbd : (r.sp.switchTo none).isRecordBoundary = true
  · have hcb : closeBoundary (r.sp.switchTo none) false c.env.tr = (r.sp.switchTo none, c.env.tr, .ready) := by
      simp [closeBoundary, hbd]
    rw [hcb] at heq0
    exact pboundary_out3 ok hQ (sp0 := r.sp.switchTo none) (dO := dO) hph heq0 (.refl _) rfl
      ⟨⟨[], G, (List.append_nil _).symm, by rw [List.append_nil]; exact hr2⟩, rfl, rfl⟩ hreq hmc (Or.inl ⟨rfl, hbd⟩)
      hlk hwr hm (by rw [hout]; exact hlog) hrd hb hstop hev hsc
  · have hbd' : (r.sp.switchTo none).isRecordBoundary = false := by simpa using hbd
    rcases hbl : boundaryLoop (c.env.tr.input.length + 2) (r.sp.switchTo none) [] c.env.tr with ⟨sp', t', res⟩
    have hcb : closeBoundary (r.sp.switchTo none) false c.env.tr = (sp', t', res) := by
      simp [closeBoundary, hbd', hbl]
    rw [hcb] at heq0
    obtain ⟨q1, q2, q3, q4⟩ := bloop_sim hctx _ _ [] c.env.tr hb (by rw [List.nil_append]; exact hr2)
      (Nat.zero_le _) (Nat.le_refl _) hbl
    exact pboundary_out3 ok hQ (sp0 := r.sp.switchTo none) (dO := dO) hph heq0 q1 q2 q3 hreq hmc q4
      hlk hwr hm (by rw [hout]; exact hlog) hrd hb hstop hev hsc

/-- a poll that resumes `close` inside `record_boundary()` -/
theorem pbound_poll3 {g : Cfg} {n k : Nat} {Q : Transport → Prop} (ok : BR3OK g n k) (hQ : MonoQ Q) {c : Conn} {r : AReq} {dO : Bytes}
    (hph : c.phase = .closing r .inBoundary g.st 0)
    (hr2 : ∃ G, R2 g.p.id g.mc g.cap g.R r.sp G c.env.tr.input dO)
    (hreq : r.sp.request = g.p.request) (hmc : r.sp.maxConns = g.mc)
    (hlk : r.lock = .none) (hwr : r.writeable = true) (hm : c.env.mutex = none)
    (hlog : ∃ O1, c.env.tr.wlog = g.L1 ++ O1 ∧ O1 ++ r.sp.output = dO)
    (hnb : r.sp.isRecordBoundary = false) (hraw : r.sp.raw.length < g.cap) (hg0 : r.sp.g0 = 0)
    (hg1 : r.sp.g1 = 0) (hin : c.env.tr.input ≠ []) (hre : Q c.env.tr)
    (hb : Ben c.env.tr) (hstop : c.stop = false) (hev : Ev1 g c.env.tr) (hsc : c.scripts = g.more) :
    R3b g k Q 2 c := by
  have hctx := ok.ctx
  obtain ⟨G, hr2⟩ := hr2
  have heq0 := closePoll_bound_tail r c.env.mutex c.env.tr g.st
  have hfree : r.sp.free = g.cap - r.sp.raw.length := by
    simp [Str.Parser.free, Str.Parser.freeStart, hr2.par, hr2.capK, hg0, hg1]
  have hfp : 0 < r.sp.free := by rw [hfree]; omega
  have hend0 : BEnd g.p.id g.mc g.cap g.R r.sp r.sp dO c.env.tr :=
    ⟨⟨[], G, (List.append_nil _).symm, by rw [List.append_nil]; exact hr2⟩, rfl, rfl⟩
  rcases hrd : c.env.tr.read r.sp.free with ⟨t1, x⟩
  cases x with
  | pending =>
    have hwl : t1.wlog = c.env.tr.wlog := by have := read_wlog c.env.tr r.sp.free; rwa [hrd] at this
    obtain ⟨hinp, hw | hw⟩ := read_pending hb hrd
    · have hcb : closeBoundary r.sp true c.env.tr = (r.sp, t1, .pending) := by simp [closeBoundary, hrd]
      rw [hcb] at heq0
      exact pboundary_out3 ok hQ (sp0 := r.sp) (dO := dO) hph heq0 (read_tstep hrd) hwl
        ⟨⟨[], G, (List.append_nil _).symm, by rw [List.append_nil]; exact hr2.input hinp⟩, rfl, rfl⟩ hreq hmc
        (Or.inr ⟨rfl, hw.1, hw.2, hnb, hraw, hg0, hg1, by rw [hinp]; exact hin⟩) hlk hwr hm hlog hre hb hstop hev hsc
    · exact absurd hw.1 hin
  | ready y =>
    cases y with
    | error e => exact (read_error hb hrd).elim
    | ok bs =>
      obtain ⟨hinp, hwl, hlen, hz⟩ := read_ok_ben hb hrd
      by_cases hbs : bs = []
      · rcases hz hbs with hz | hz
        · omega
        · exact absurd hz.1 hin
      · have hs1 := read_tstep hrd
        rcases hbl : boundaryLoop (t1.input.length + 2) r.sp bs t1 with ⟨sp', t', res⟩
        have hcb : closeBoundary r.sp true c.env.tr = (sp', t', res) := by
          cases bs with
          | nil => exact absurd rfl hbs
          | cons b0 bs' => simp [closeBoundary, hrd, hbl]
        rw [hcb] at heq0
        obtain ⟨q1, q2, q3, q4⟩ := bloop_sim hctx _ _ bs t1 (hb.step hs1) (hr2.input (by rw [← hinp]))
          hlen (Nat.le_refl _) hbl
        refine pboundary_out3 ok hQ (sp0 := r.sp) (dO := dO) hph heq0 (hs1.trans q1) (q2.trans hwl) q3 hreq hmc ?_
          hlk hwr hm hlog hre hb hstop hev hsc
        rcases q4 with q4 | ⟨a, b, c1, d⟩
        · exact Or.inl q4
        · exact Or.inr ⟨a, b, by have := hs1.ans_le; omega, d⟩


theorem S3b.cong {g : Cfg} {k : Nat} {Q : Transport → Prop} (hQ : MonoQ Q) {c c' : Conn} (h : S3b g k Q c)
    (hph : c'.phase = c.phase) (hsc : c'.scripts = c.scripts) (hstop : c'.stop = c.stop)
    (hm : c'.env.mutex = c.env.mutex) (hs : TrSame c.env.tr c'.env.tr) : S3b g k Q c' := by
  rcases h with h | ⟨r, n', handed, dO, shown, h1, h2, h3, h4, h5, h6, h7, h8, h9, h10, h11, h12⟩ |
    ⟨r, dO, h1, h2, h3, h4, h5, h6, h7, h8, h9, h10, h11, h12, h13, h14, h15, h16, h17, h18⟩ | ⟨s1, s2, hsp, hq, h⟩
  · exact Or.inl (h.cong hph hsc hstop hm hs)
  · exact Or.inr (Or.inl ⟨r, n', handed, dO, shown, hph.trans h1, BSt.cong' h2 hm hs, by rw [hs.input]; exact h3, h4,
      fun s hx => hs.mem (h5 s hx), h6, by rw [hm]; exact h7, h8, hs.ben h9, hstop.trans h10, hs.ev1 h11, hsc.trans h12⟩)
  · exact Or.inr (Or.inr (Or.inl ⟨r, dO, hph.trans h1, by rw [hs.input]; exact h2, h3, h4, h5, h6, hm.trans h7,
      by rw [hs.wlog]; exact h8, h9, h10, h11, h12, by rw [hs.input]; exact h13, hQ.up _ _ (fun _ hx => hs.mem hx) h14,
      hs.ben h15, hstop.trans h16, hs.ev1 h17, hsc.trans h18⟩))
  · exact Or.inr (Or.inr (Or.inr ⟨s1, s2, hsp, hQ.up _ _ (fun _ hx => hs.mem hx) hq, h.cong hph hsc hstop hm hs⟩))

/-- **One poll** with the handler in its rounds: suspended in a `fill_buf`, or the handler returns and
`close` runs `record_boundary()`. -/
theorem hb2_poll {g : Cfg} {n k : Nat} (ok : BR3OK g n k) {c : Conn} (h : HB2 g k c) :
    R3b g k (Q2 g k) 4 c := by
  obtain ⟨r, n', handed, dO, shown, hph, hs, hpos, hsh, hevs, hwr, hl0, hfu, hb, hstop, hev, hsc⟩ := h
  have hK := ok.kok
  have hfuel := handlerFuel_ge c.env r
  have hRwf : ∀ r ∈ g.R, r.WF := fun r hr => (ok.str r hr).1
  rcases rounds_runL hK (L := g.L1) (P := []) hRwf k [.ret g.st] [] true n'
      ((handlerFuel c.env r + scriptOf c)) r c.env handed dO shown (by omega) hb hs hpos hsh hevs hl0 with
    ⟨n2, r', e', handed', dO', shown', a0, a1, a2, a3, a4, a5, a6, a7, a8, a9, a10, a11⟩ |
    ⟨r', e', handed', dO', shown', f', b1, b2, b3, b4, b5, b6, b7, b8, b9, b10, b11⟩
  · have hstep := C07.handler_step c r _ hph
    rw [a1] at hstep
    have hstep' : stepConn c = .halt ⟨.handler r' { ops := rounds n2 k ++ [.ret g.st], propagate := true },
        e', c.scripts, c.stop⟩ .pending := hstep
    exact Or.inl (Or.inl ⟨_, (Halts.now hstep').mono (by omega), ⟨a7.w, a6, rfl⟩,
      Or.inr (Or.inl ⟨r', n2, handed', dO', shown', rfl, a2, a3, a4, a5, a10 hwr, a11, by omega, hb.step a7, hstop,
        hev.step a7, hsc⟩), a8, a9⟩)
  · -- the handler returns
    obtain ⟨f2, rfl⟩ : ∃ f2, f' = f2 + 1 := ⟨f' - 1, by omega⟩
    rw [hp_ret] at b1
    have hstep := C07.handler_step c r _ hph
    rw [b1] at hstep
    have hstep' : stepConn c =
        .next ⟨.closing r' .start g.st 0, e'.ev s!"HE(ok:{showStatus g.st})", c.scripts, c.stop⟩ := hstep
    have hts2 : TStep c.env.tr (e'.tr.ev s!"HE(ok:{showStatus g.st})") :=
      b8.trans (TStep.ev _ (by simp [isHS, toString_str]))
    have hpre : handed' <+: g.content := (List.prefix_append _ _).trans (BSt.prefix hK b3)
    obtain ⟨⟨G, hi⟩, _, _, ⟨O1, l1, l2⟩⟩ := b3
    have hq : Q2 g k (e'.tr.ev s!"HE(ok:{showStatus g.st})") :=
      ⟨shown', by rw [← b5]; exact hpre, fun s hx => List.mem_append_left _ (b6 s hx)⟩
    have hcore := pclose_start3 ok (q2_mono g k)
      (c := ⟨.closing r' .start g.st 0, e'.ev s!"HE(ok:{showStatus g.st})", c.scripts, c.stop⟩) rfl
      (G := G) (dO := dO') hi b4 b10 (b9 hwr) b11 ⟨O1, l1, by rw [l2]; rfl⟩ hq (hb.step hts2) hstop (hev.step hts2) hsc
    exact (GRes3.of_steps (Steps.one hstep') ⟨hts2.w, b7, rfl⟩ hcore).mono (by omega)

/-- the first poll of the handler -/
theorem bufread3_first {g : Cfg} {n k : Nat} (ok : BR3OK g n k) (c : Conn) (hc : FirstCfg g c) :
    R3b g k (Q2 g k) 6 c := by
  obtain ⟨e1, hph, hlen, hwire, hlog, hm, hb, hstop, hev, hsc⟩ := hc
  have hrole : g.p.request.role = 1 := ok.role
  have hstart : C03SI.Start g.K.E (Str.Parser.fromParser g.cap g.p.request e1 g.mc) :=
    C03SI.start_fresh g.cap g.p.request e1 g.mc hlen ok.hid (Or.inl hrole)
  have hrinv : RInv g.K (AReq.new (Str.Parser.fromParser g.cap g.p.request e1 g.mc)) e1 c.env.tr.input [] [] := by
    refine ⟨hstart.mtch, hstart.inv, rfl, rfl, rfl, hwire, fun x => ?_⟩
    have := C03SI.rem_start hstart x
    show refWire g.K.E (e1 ++ x) = (Rem g.K.E (Str.Parser.fromParser g.cap g.p.request e1 g.mc) x).pre [] []
    rw [this]; rfl
  have hrst : RSt g.K g.L1 [] (AReq.new (Str.Parser.fromParser g.cap g.p.request e1 g.mc)) c.env.mutex c.env.tr [] [] :=
    ⟨⟨e1, hrinv⟩, by rw [hm]; exact lockInv_free rfl, Or.inl hm, ⟨[], by rw [hlog, List.append_nil], rfl⟩⟩
  have hwr : (AReq.new (Str.Parser.fromParser g.cap g.p.request e1 g.mc)).writeable = true := by
    simp [AReq.new, Str.Parser.fromParser, hrole, inputStreams]
  rw [ok.hs] at hph
  have hfu := ok.hfu
  exact (hb2_poll ok ⟨_, n, [], [], [], hph, by
      show RStB g.K g.L1 [] _ c.env.mutex c.env.tr ([] ++ _) []
      exact .of hrst,
    ⟨[], [], g.R, rfl, rfl, by
      show e1 ++ c.env.tr.input = [] ++ ([] ++ serAll g.R)
      rw [hwire, ok.XR]; rfl, List.suffix_refl _⟩,
    rfl, (fun _ h => nomatch h), hwr, (fun _ => ⟨rfl, hm⟩), by omega, hb, hstop, hev, hsc⟩).mono (by omega)

theorem s3b_poll {g : Cfg} {n k : Nat} (ok : BR3OK g n k) {c : Conn} (h : S3b g k (Q2 g k) c) :
    R3b g k (Q2 g k) (2 * c.env.tr.input.length + 15) c := by
  rcases h with h | h | ⟨r, dO, h1, h2, h3, h4, h5, h6, h7, h8, h9, h10, h11, h12, h13, h14, h15, h16, h17, h18⟩ |
    ⟨s1, s2, hsp, hq, h⟩
  · exact fstage_poll3 ok.fok (fun _ h => Or.inl h) (bufread3_first ok) h
  · exact (hb2_poll ok h).mono (by omega)
  · exact (pbound_poll3 ok (q2_mono g k) h1 h2 h3 h4 h5 h6 h7 h8 h9 h10 h11 h12 h13 h14 h15 h16 h17 h18).mono (by omega)
  · exact ((lstage_poll3 h).imp
      (fun c' hl x => Or.inr (Or.inr (Or.inr ⟨s1, s2, hsp, (q2_mono g k).up _ _ (fun _ hx => hl.ts.evm _ hx) hq, x⟩)))
      (fun c' hl x => ⟨s1, s2, hsp, (q2_mono g k).up _ _ (fun _ hx => hl.ts.evm _ hx) hq, x⟩)
      (fun c' hl x => ⟨s1, s2, hsp, (q2_mono g k).up _ _ (fun _ hx => hl.ts.evm _ hx) hq, x⟩)).mono (by omega)

/-- **The executor**, variant 2. -/
theorem run_bufread3 {g : Cfg} {n k : Nat} (ok : BR3OK g n k) {Z : Bytes}
    (hns : ∀ s1 s2, g.R = s1 ++ s2 → NoStuckW g.cap g.mc (serAll s2 ++ Z))
    (hNF : ∀ s1 s2, g.R = s1 ++ s2 → ∀ F x, F ++ x ++ Z = serAll s2 ++ Z → (run .header F g.mc).st.isFinal = false)
    (em : EndMode) (evs0 : List String) (c : Conn) (n0 fuel : Nat) (hst : FStage g c)
    (hem : c.env.tr.endMode = em) (hev0 : ∀ s ∈ evs0, s ∈ c.env.tr.events)
    (hsegs : c.env.segs = []) (hf : ans c.env.tr + 1 ≤ fuel) (hlen : 6 * c.env.tr.input.length + 26 ≤ 100000) :
    ∃ c'' fin, runTask fuel c n0 none = (c'', fin) ∧
      (GEnd g.cap g.mc Z g.more (g.hs0 + 1)
          (fun i : List Rec × List Rec × List Bytes => g.R = i.1 ++ i.2.1 ∧ taken k i.2.2 <+: g.content ∧
            g.p.flags.toNat % 2 = 1)
          (fun i => serAll i.2.1 ++ Z) (fun i => (gC g i.1 i.2.1).LU)
          (fun i => hsEvent g.p.request :: i.2.2.map fEvent) em evs0 (ans c.env.tr) c'' fin ∨
       (fin = "RET" ∧ F3b g (Q2 g k) c'' ∧ c''.env.tr.endMode = em ∧ (∀ s ∈ evs0, s ∈ c''.env.tr.events))) :=
  run_stages3 (cap24 g) (fun i hi => hns i.1 i.2.1 hi.1) (fun i hi => hNF i.1 i.2.1 hi.1)
    (fun _ _ h => S3b.cong (q2_mono g k) h)
    (fun _ h => (s3b_poll ok h).imp (fun _ _ h => h) (fun c1 _ h => by
      obtain ⟨s1, s2, hsp, ⟨shown, q1, q2⟩, haf⟩ := h
      obtain ⟨raw, hph, hw, hraw⟩ := haf.ph
      exact ⟨(s1, s2, shown), ⟨hsp, q1, haf.keep⟩,
        Or.inr ⟨raw, hph, by rw [hw]; rfl, hraw, haf.log, haf.ben, haf.stop⟩,
        ⟨haf.sc, haf.mtx, haf.ev.1, fun s hs => by
          rcases List.mem_cons.1 hs with rfl | hs
          · exact haf.ev.2
          · obtain ⟨x, hx, rfl⟩ := List.mem_map.1 hs
            exact q2 x hx⟩⟩) (fun _ _ h => h))
    em evs0 c n0 fuel (Or.inl hst) hem hev0 hsegs hf hlen

/-- `run_bufread3` without the size hypothesis (`run_stages3'`). -/
theorem run_bufread3' {g : Cfg} {n k : Nat} (ok : BR3OK g n k) {Z : Bytes}
    (hns : ∀ s1 s2, g.R = s1 ++ s2 → NoStuckW g.cap g.mc (serAll s2 ++ Z))
    (hNF : ∀ s1 s2, g.R = s1 ++ s2 → ∀ F x, F ++ x ++ Z = serAll s2 ++ Z → (run .header F g.mc).st.isFinal = false)
    (em : EndMode) (evs0 : List String) (c : Conn) (n0 fuel : Nat) (hst : FStage g c)
    (hem : c.env.tr.endMode = em) (hev0 : ∀ s ∈ evs0, s ∈ c.env.tr.events)
    (hsegs : c.env.segs = []) (hf : ans c.env.tr + 1 ≤ fuel) :
    ∃ c'' fin, runTask fuel c n0 none = (c'', fin) ∧
      (GEnd g.cap g.mc Z g.more (g.hs0 + 1)
          (fun i : List Rec × List Rec × List Bytes => g.R = i.1 ++ i.2.1 ∧ taken k i.2.2 <+: g.content ∧
            g.p.flags.toNat % 2 = 1)
          (fun i => serAll i.2.1 ++ Z) (fun i => (gC g i.1 i.2.1).LU)
          (fun i => hsEvent g.p.request :: i.2.2.map fEvent) em evs0 (ans c.env.tr) c'' fin ∨
       (fin = "RET" ∧ F3b g (Q2 g k) c'' ∧ c''.env.tr.endMode = em ∧ (∀ s ∈ evs0, s ∈ c''.env.tr.events))) :=
  run_stages3' (cap24 g) (fun i hi => hns i.1 i.2.1 hi.1) (fun i hi => hNF i.1 i.2.1 hi.1)
    (fun _ _ h => S3b.cong (q2_mono g k) h)
    (fun _ h => (s3b_poll ok h).imp (fun _ _ h => h) (fun c1 _ h => by
      obtain ⟨s1, s2, hsp, ⟨shown, q1, q2⟩, haf⟩ := h
      obtain ⟨raw, hph, hw, hraw⟩ := haf.ph
      exact ⟨(s1, s2, shown), ⟨hsp, q1, haf.keep⟩,
        Or.inr ⟨raw, hph, by rw [hw]; rfl, hraw, haf.log, haf.ben, haf.stop⟩,
        ⟨haf.sc, haf.mtx, haf.ev.1, fun s hs => by
          rcases List.mem_cons.1 hs with rfl | hs
          · exact haf.ev.2
          · obtain ⟨x, hx, rfl⟩ := List.mem_map.1 hs
            exact q2 x hx⟩⟩) (fun _ _ h => h))
    em evs0 c n0 fuel (Or.inl hst) hem hev0 hsegs hf

end Fcgi.E2E
