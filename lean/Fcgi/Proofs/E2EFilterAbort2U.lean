import Fcgi.Proofs.E2EUnb
/-!
# Filter-abort rows (a)/(b), placements (i)/(ii), without `|Stdin wire| ≤ 31000`

`Proofs/E2EFilterAbort2.lean` needs `FR1OK.hfu`/`FR2OK.hfu : g.X.length ≤ 31000` because `hr1A_core` demands handler
fuel `2·(rem/64) + 4·|input| + 10`: its `readAll_runAW` only reports `fuel ≤ fuel' + N` for what the failed first
`readAll` leaves.  With the accounting of `E2EHandler.readAll_run` (`fuel + 2·|input'| ≤ fuel' + N`,
`readAll_runAWs`) the demand is `2·(rem/64) + 2·|input| + 10`, which the model's handler fuel
`1000 + 4·|input| + 4·cap` always covers (`rem ≤ cap + |input|`).  So the bound was an artefact of the proof, not of
the model's fuel.  Below: `FR1OKu`/`FR2OKu` (= `FR1OK`/`FR2OK` without `hfu`) and copies (text transformation) of
every lemma of `E2EFilterAbort2` / `E2EUnb` that takes one of them, suffix `U`.
-/
namespace Fcgi.E2E
open Fcgi Fcgi.Req Fcgi.Str Fcgi.Async Fcgi.Run Fcgi.Spec Fcgi.C09E

/-- `readAll_runAW` with the fuel ACCOUNTING of `readAll_run` (`fuel + 2·|input'| ≤ fuel' + N`): what the failed
`readAll` leaves of the handler fuel still pays for reading all that is left on the transport. -/
theorem readAll_runAWs {K : RCtx} (hK : K.Aborted) (hnf : K.final = false ∨ K.C = []) {L P : Bytes} (rest : List HOp) (ws : List (Option Writer))
    (pr : Bool) :
    ∀ (N fuel : Nat) (r : AReq) (sub : HSub) (e : Run.Env) (dO : Bytes) (d : Nat),
      2 * ((K.C.length - (accOf sub).length) / 64) + 2 * e.tr.input.length + d < N → N + 1 ≤ fuel →
      (d = 0 → Idle r.sp) → Ben e.tr → RSt K L P r e.mutex e.tr (accOf sub) dO →
      (∃ (r' : AReq) (acc' : Bytes) (e' : Run.Env) (dO' : Bytes),
          handlerPoll fuel r { ops := .readAll :: rest, sub := sub, writers := ws, propagate := pr } e =
            (r', { ops := .readAll :: rest, sub := .readAllAcc acc', writers := ws, propagate := pr }, e', .pending) ∧
          RSt K L P r' e'.mutex e'.tr acc' dO' ∧ e'.segs = e.segs ∧ TStep e.tr e'.tr ∧
          e'.tr.woken = true ∧ ans e'.tr < ans e.tr ∧ r'.writeable = r.writeable) ∨
      (∃ (r' : AReq) (acc lost : Bytes) (e' : Run.Env) (fuel' : Nat),
          handlerPoll fuel r { ops := .readAll :: rest, sub := sub, writers := ws, propagate := pr } e =
            (if pr then (r', { ops := rest, sub := .fresh, writers := ws, propagate := pr },
                e'.ev (raEvent acc), .done (.error .abortRequest))
             else handlerPoll fuel' r' { ops := rest, sub := .fresh, writers := ws, propagate := pr }
                (e'.ev (raEvent acc))) ∧
          fuel + 2 * e'.tr.input.length ≤ fuel' + N ∧ acc ++ lost = K.C ∧ AtAbort K L P r' e'.tr ∧ e'.mutex = none ∧
          e'.segs = e.segs ∧ TStep e.tr e'.tr ∧ r'.writeable = r.writeable ∧ r'.sp.parsed = [] ∧
          r'.sp.stream = r.sp.stream) := by
  intro N
  induction N with
  | zero => intro fuel r sub e dO d hN; omega
  | succ N ih =>
    intro fuel r sub e dO d hN hf hd hb hs
    obtain ⟨f, rfl⟩ : ∃ f, fuel = f + 1 := ⟨fuel - 1, by omega⟩
    rw [hp_readAll]
    rcases hpi : r.pollInput (some 64) e.mutex e.tr with ⟨r1, m1, t1, res⟩
    obtain ⟨s1, s4, s5, s6⟩ := pollInput_simA hK (by omega : 0 < 64) hb hs hpi
    have s8 : r1.sp.parsed = [] := pollInput_some_parsed hpi hs.inv.choose_spec.par
    have s9 : r1.sp.stream = r.sp.stream := pollInput_stream hpi
    have s7 : r1.writeable = r.writeable := by
      rcases pollInput_keepW hpi with h | ⟨k, dd, hres, hfin⟩
      · exact h
      · exfalso
        subst hres
        obtain ⟨hk, hkpos, dO', hs', _⟩ := s4
        obtain ⟨G1, hi1⟩ := hs'.inv
        rcases hnf with hnf | hnf
        · rw [isFinal_of_match hi1.mt, hnf] at hfin; cases hfin
        · have hnow := (hi1.nowA hK).1
          have := congrArg List.length hnow
          simp only [List.length_append, hnf, List.length_nil] at this
          omega
    cases res with
    | pending =>
      left
      obtain ⟨⟨dO', hs'⟩, hw, ha⟩ := s4
      exact ⟨r1, accOf sub, { e with mutex := m1, tr := t1 }, dO', rfl, hs', rfl, s1, hw, ha, s7⟩
    | panic x => exact s4.elim
    | err x =>
      right
      obtain ⟨hx, hm1, ⟨lost, hl⟩, hat⟩ := s4
      subst hx hm1
      have hinle0 := s1.tle.input_len
      exact ⟨r1, accOf sub, lost, { e with mutex := none, tr := t1 }, f, rfl,
        (by show f + 1 + 2 * t1.input.length ≤ f + (N + 1); omega), hl, hat, rfl, rfl, s1, s7, s8, s9⟩
    | ready k dd =>
      obtain ⟨hk, hkpos, dO', hs', hlk, hm1, hfull⟩ := s4
      subst hm1
      cases k with
      | zero => omega
      | succ k' =>
        simp only
        obtain ⟨G1, hi1⟩ := hs'.inv
        have hnow := (hi1.nowA hK).1
        have hlenC : (accOf sub).length + (k' + 1) ≤ K.C.length := by
          have := congrArg List.length hnow
          simp only [List.length_append] at this
          omega
        have hinle := s1.tle.input_len
        have hdec : ∃ d1, (d1 = 0 → Idle r1.sp) ∧
            2 * ((K.C.length - (accOf sub ++ dd).length) / 64) + 2 * t1.input.length + d1 < N := by
          have hin' : d = 0 → t1.input.length < e.tr.input.length := by
            intro h0
            exact s5 (hd h0) _ _ rfl
          simp only [List.length_append]
          rcases hfull with h64 | hdr
          · refine ⟨1, fun h => by omega, ?_⟩
            by_cases h0 : d = 0
            · have := hin' h0; omega
            · omega
          · refine ⟨0, fun _ => hdr, ?_⟩
            by_cases h0 : d = 0
            · have := hin' h0; omega
            · omega
        obtain ⟨d1, hd1, hm1⟩ := hdec
        rcases ih f r1 (.readAllAcc (accOf sub ++ dd)) { e with mutex := none, tr := t1 } dO' d1 hm1
            (by omega) hd1 (hb.step s1) hs' with
          ⟨r2, acc2, e2, dO2, d1', d3, d5, d6, d8, d9, d10⟩ |
          ⟨r2, acc2, lost2, e2, f2, d1', d2, d3, d4, d5, d6, d7, d8, d8', d8s⟩
        · left
          refine ⟨r2, acc2, e2, dO2, d1', d3, d5, s1.trans d6, d8, ?_, d10.trans s7⟩
          have := s1.ans_le
          have d9' : ans e2.tr < ans t1 := d9
          omega
        · right
          exact ⟨r2, acc2, lost2, e2, f2, d1', by omega, d3, d4, d5, d6, s1.trans d7, d8.trans s7, d8', d8s.trans s9⟩


/-- `hr1A_core` with the fuel demand `2·(rem/64) + 2·|input| + 10` (instead of `4·|input|`). -/
theorem hr1A_coreU {g : Cfg} {K1 : RCtx} (hK1 : K1.Aborted) (hfin : K1.final = false) (hl1 : KLink g K1)
    (hs5 : K1.E.s = 5) (hK0 : g.K0.Aborted) (hrole : g.p.role = 3) {Ow : Bytes} (hOw : K1.O = Ow)
    (s0 : ExitStatus) (pr : Bool) (fuel : Nat) (r : AReq) (sub : HSub) (e : Run.Env) (dO : Bytes)
    (hf : 2 * ((K1.C.length - (accOf sub).length) / 64) + 2 * e.tr.input.length + 10 ≤ fuel) (hb : Ben e.tr)
    (hs : RSt K1 g.L1 [] r e.mutex e.tr (accOf sub) dO) :
    (∃ (r' : AReq) (acc' : Bytes) (e' : Run.Env) (dO' : Bytes),
      handlerPoll fuel r ⟨rscript s0, sub, [], pr⟩ e = (r', ⟨rscript s0, .readAllAcc acc', [], pr⟩, e', .pending) ∧
      RSt K1 g.L1 [] r' e'.mutex e'.tr acc' dO' ∧ e'.segs = e.segs ∧ TStep e.tr e'.tr ∧
      e'.tr.woken = true ∧ ans e'.tr < ans e.tr ∧ r'.writeable = r.writeable) ∨
    (∃ (r' : AReq) (acc' : Bytes) (e' : Run.Env) (dO' : Bytes),
      handlerPoll fuel r ⟨rscript s0, sub, [], pr⟩ e =
        (r', ⟨[.readAll, .ret s0], .readAllAcc acc', [], pr⟩, e', .pending) ∧
      RSt g.K0 g.L1 Ow r' e'.mutex e'.tr acc' dO' ∧ e'.segs = e.segs ∧ TStep e.tr e'.tr ∧
      e'.tr.woken = true ∧ ans e'.tr < ans e.tr ∧ r'.writeable = r.writeable) ∨
    HDoneA g Ow s0 pr fuel r ⟨rscript s0, sub, [], pr⟩ e := by
  obtain ⟨G0, hi0⟩ := hs.inv
  rcases readAll_runAWs hK1 (Or.inl hfin) (L := g.L1) (P := []) [.setStream 8, .readAll, .ret s0] [] pr
      (2 * ((K1.C.length - (accOf sub).length) / 64) + 2 * e.tr.input.length + 2) fuel r sub e dO 1
      (by omega) (by omega) (fun h => by omega) hb hs with
    ⟨r', acc', e', dO', d1, d3, d5, d6, d8, d9, d10⟩ |
    ⟨r', acc, lost, e', f', d1, d2, d3, d4, d5, d6, d7, d8, d9, d10⟩
  · exact Or.inl ⟨r', acc', e', dO', d1, d3, d5, d6, d8, d9, d10⟩
  · right
    have hts1 : TStep e.tr (e'.ev (raEvent acc)).tr := d7.trans (TStep.ev _ (isHS_raEvent _))
    have hstr : r'.sp.stream = some 5 := by rw [d10, hi0.mt.strm, hs5]
    cases pr with
    | true =>
      right
      refine ⟨K1, [], r', ⟨[.setStream 8, .readAll, .ret s0], .fresh, [], true⟩, e'.ev (raEvent acc), hl1,
        by rw [List.nil_append]; exact hOw, ?_, rfl, d4.congr rfl rfl, d5, d6, hts1, d8, d9, Or.inl hstr⟩
      simpa [rscript] using d1
    | false =>
      simp only [Bool.false_eq_true, if_false] at d1
      obtain ⟨f2, rfl⟩ : ∃ f2, f' = f2 + 1 := ⟨f' - 1, by omega⟩
      obtain ⟨sp8, hset, hrst⟩ := reabort_rst hrole d4 hl1 d9 (Or.inl hstr)
      have hset' : r'.setStream 8 = some { r' with sp := sp8 } := by simp [AReq.setStream, hset]
      rw [hp_setStream, hset'] at d1
      simp only at d1
      have hrst' : RSt g.K0 g.L1 Ow ({ r' with sp := sp8 } : AReq) ((e'.ev (raEvent acc)).ev "s=ok").mutex
          ((e'.ev (raEvent acc)).ev "s=ok").tr (accOf .fresh) [] := by
        rw [List.nil_append, hOw] at hrst
        obtain ⟨⟨G, hi⟩, lk, mx, lg⟩ := hrst
        show RSt g.K0 g.L1 Ow _ e'.mutex _ [] []
        rw [d5]
        exact ⟨⟨G, hi⟩, lk, mx, lg⟩
      have hts2 : TStep e.tr ((e'.ev (raEvent acc)).ev "s=ok").tr := hts1.trans (TStep.ev _ (by decide))
      have hinle : ((e'.ev (raEvent acc)).ev "s=ok").tr.input.length = e'.tr.input.length := rfl
      rcases hr2_core (g := g) hK0 rfl ⟨rfl, rfl, rfl, rfl⟩ (Or.inr rfl) (P2 := Ow) (Ow := Ow) (List.append_nil _) s0
          false f2 { r' with sp := sp8 } .fresh ((e'.ev (raEvent acc)).ev "s=ok") [] (by omega)
          (hb.step hts2) hrst' with
        ⟨r2, acc2, e2, dO2, q1, q3, q5, q6, q8, q9, q10⟩ |
        ⟨K, P, r2, H2, e2, k1, k2, k3, k4, k5, k6, k7, k8, k9, k10, k11⟩
      · left
        refine ⟨r2, acc2, e2, dO2, by rw [rscript, d1]; exact q1, q3, q5.trans d6, hts2.trans q6, q8, ?_, q10.trans d8⟩
        have := hts2.ans_le
        have q9' : ans e2.tr < ans ((e'.ev (raEvent acc)).ev "s=ok").tr := q9
        omega
      · right
        exact ⟨K, P, r2, H2, e2, k1, k2, by rw [rscript, d1]; exact k3, k4, k5, k6, k7.trans d6, hts2.trans k8,
          k9.trans d8, k10, k11⟩

/-- The hypotheses: a Filter; `g.body` = the Stdin records (content `g.content`, no terminator) and noise
before the request's `AbortRequest` record `a`, `g.body2` = the records behind it; the handler `rscript s0`
in mode `pr`; `g.st` = the status `close` is called with. -/
structure FR1OKu (g : Cfg) (a : Rec) (s0 : ExitStatus) (pr : Bool) : Prop where
  wf : WellFormedPreamble g.p g.recs
  role : g.p.role = 3
  pairs : ∀ q ∈ g.p.pairs, (NV.enc q).length ≤ alignedBufsize g.b
  noise : NoiseFits (alignedBufsize g.b) g.recs
  body : Body g.p.id 5 g.content g.body
  bfits : NoiseFits (alignedBufsize g.b) g.body
  ab : IsAbort g.p.id a
  hX : g.X = serAll (g.body ++ [a]) ++ serAll g.body2
  hU : g.U = a.ser ++ serAll g.body2
  hs : g.hscript = rscript s0
  mode : g.st = if pr then ExitStatus.abort else s0

theorem FR1OKu.fok {g : Cfg} {a : Rec} {s0 : ExitStatus} {pr : Bool} (ok : FR1OKu g a s0 pr) : FOK g :=
  ⟨ok.wf, ok.pairs, ok.noise⟩

theorem FR1OKu.hid {g : Cfg} {a : Rec} {s0 : ExitStatus} {pr : Bool} (ok : FR1OKu g a s0 pr) : g.p.id < 65536 :=
  (pid_of_wf ok.wf).2

theorem FR1OKu.front {g : Cfg} {a : Rec} {s0 : ExitStatus} {pr : Bool} (ok : FR1OKu g a s0 pr) {us : List Rec}
    (hu : LeftOK (alignedBufsize g.b) us) : FR1OKu (g.front us) a s0 pr :=
  ⟨wf_idle ok.wf us hu.1, ok.role, ok.pairs, noiseFits_app hu.2 ok.noise, ok.body, ok.bfits, ok.ab, ok.hX, ok.hU,
    ok.hs, ok.mode⟩

theorem FR1OKu.k5 {g : Cfg} {a : Rec} {s0 : ExitStatus} {pr : Bool} (ok : FR1OKu g a s0 pr) : g.K5a.Aborted := by
  have h := aborted_of_body ⟨g.p.id, 3, 5, g.mc⟩ (Or.inl rfl) ok.hid ok.body ok.ab (serAll g.body2) g.p.request g.cap
    (by have := cap24 g; omega) ok.bfits
  rw [← ok.hX, ← ok.hU] at h
  exact h

theorem FR1OKu.k0 {g : Cfg} {a : Rec} {s0 : ExitStatus} {pr : Bool} (ok : FR1OKu g a s0 pr) : g.K0.Aborted :=
  k0_aborted ok.hid ok.ab ok.hU

/-- **One poll** with the handler in (or about to start) its first `readAll`. -/
theorem hr1A_pollU {g : Cfg} {a : Rec} {s0 : ExitStatus} {pr : Bool} (ok : FR1OKu g a s0 pr) {c : Conn}
    (h : HR1A g s0 pr c) :
    GRes3 (S1 g s0 pr) (AfterE g (g.LfO g.Ow1)) (FinE g (g.LfO g.Ow1)) 3 c := by
  obtain ⟨r, sub, dO, hph, hs, hnw, hb, hstop, hev, hsc⟩ := h
  have hK := ok.k5
  obtain ⟨G0, hi0⟩ := hs.inv
  have hrl := hi0.rem_leA hK
  have hcapr : r.sp.cap = g.cap := hi0.capK
  have hcapK : g.K5a.cap = g.cap := rfl
  have hinl : c.env.tr.input.length ≤ g.X.length := by
    have := congrArg List.length hi0.wire
    simp only [List.length_append] at this
    have e : g.K5a.X = g.X := rfl
    rw [e] at this
    omega
  have hfu := handlerFuel_ge' c.env r
  have hfuel : 2 * ((g.K5a.C.length - (accOf sub).length) / 64) + 2 * c.env.tr.input.length + 10 ≤
      (handlerFuel c.env r + scriptOf c) := by
    omega
  rcases hr1A_coreU hK (k5a_final g) ⟨rfl, rfl, rfl, rfl⟩ rfl ok.k0 ok.role (Ow := g.Ow1) rfl s0 pr
      (handlerFuel c.env r + scriptOf c) r sub c.env dO hfuel hb hs with
    ⟨r', acc', e', dO', d1, d3, d5, d6, d8, d9, d10⟩ | ⟨r', acc', e', dO', d1, d3, d5, d6, d8, d9, d10⟩ | hd
  · have hstep := C07.handler_step c r _ hph
    rw [d1] at hstep
    have hstep' : stepConn c = .halt ⟨.handler r' ⟨rscript s0, .readAllAcc acc', [], pr⟩, e', c.scripts, c.stop⟩
        .pending := hstep
    exact Or.inl (Or.inl ⟨_, (Halts.now hstep').mono (by omega), ⟨d6.w, d5, rfl⟩,
      Or.inr (Or.inl ⟨r', .readAllAcc acc', dO', rfl, d3, d10.trans hnw, hb.step d6, hstop, hev.step d6, hsc⟩),
      d8, d9⟩)
  · have hstep := C07.handler_step c r _ hph
    rw [d1] at hstep
    have hstep' : stepConn c = .halt ⟨.handler r' ⟨[.readAll, .ret s0], .readAllAcc acc', [], pr⟩, e', c.scripts, c.stop⟩
        .pending := hstep
    exact Or.inl (Or.inl ⟨_, (Halts.now hstep').mono (by omega), ⟨d6.w, d5, rfl⟩,
      Or.inr (Or.inr (Or.inl ⟨r', .readAllAcc acc', dO', rfl, d3, d10.trans hnw, hb.step d6, hstop, hev.step d6,
        hsc⟩)), d8, d9⟩)
  · exact (done_close ok.k0 ok.role ok.mode hph hd hnw hb hstop hev hsc).imp
      (fun _ _ h => Or.inr (Or.inr (Or.inr h))) (fun _ _ h => h) (fun _ _ h => h)

/-- the first poll of the handler -/
theorem filterR1_firstU {g : Cfg} {a : Rec} {s0 : ExitStatus} {pr : Bool} (ok : FR1OKu g a s0 pr) (c : Conn)
    (hc : FirstCfgP g pr c) :
    GRes3 (S1 g s0 pr) (AfterE g (g.LfO g.Ow1)) (FinE g (g.LfO g.Ow1)) 6 c := by
  obtain ⟨e1, hph, hlen, hwire, hlog, hm, hb, hstop, hev, hsc⟩ := hc
  have hrole : g.p.request.role = 3 := ok.role
  have hwr : (AReq.new (Str.Parser.fromParser g.cap g.p.request e1 g.mc)).writeable = false := by
    simp [AReq.new, Str.Parser.fromParser, hrole, inputStreams]
  have hstart : C03SI.Start g.K5a.E (Str.Parser.fromParser g.cap g.p.request e1 g.mc) := by
    have := C03SI.start_fresh g.cap g.p.request e1 g.mc hlen ok.hid (Or.inr hrole)
    rw [hrole] at this
    exact this
  have hrinv : RInv g.K5a (AReq.new (Str.Parser.fromParser g.cap g.p.request e1 g.mc)) e1 c.env.tr.input [] [] := by
    refine ⟨hstart.mtch, hstart.inv, rfl, rfl, rfl, hwire, fun x => ?_⟩
    have := C03SI.rem_start hstart x
    show refWire g.K5a.E (e1 ++ x) = (Rem g.K5a.E (Str.Parser.fromParser g.cap g.p.request e1 g.mc) x).pre [] []
    rw [this]; rfl
  rw [ok.hs] at hph
  exact (hr1A_pollU ok ⟨_, .fresh, [], hph, ⟨⟨e1, hrinv⟩, by rw [hm]; exact lockInv_free rfl, Or.inl hm,
    ⟨[], by rw [hlog, List.append_nil], rfl⟩⟩, hwr, hb, hstop, hev, hsc⟩).mono (by omega)

theorem s1_pollU {g : Cfg} {a : Rec} {s0 : ExitStatus} {pr : Bool} (ok : FR1OKu g a s0 pr) {c : Conn}
    (h : S1 g s0 pr c) :
    GRes3 (S1 g s0 pr) (AfterE g (g.LfO g.Ow1)) (FinE g (g.LfO g.Ow1)) (2 * c.env.tr.input.length + 15) c := by
  rcases h with h | h | h | h
  · exact fstage_poll3P ok.fok (fun _ h => Or.inl h) (filterR1_firstU ok) h
  · exact (hr1A_pollU ok h).mono (by omega)
  · exact ((hr2_poll ok.k0 rfl ⟨rfl, rfl, rfl, rfl⟩ (Or.inr rfl) (List.append_nil _) ok.k0 ok.role ok.mode h).imp
      (fun _ _ h => h.elim (fun h => Or.inr (Or.inr (Or.inl h))) (fun h => Or.inr (Or.inr (Or.inr h))))
      (fun _ _ h => h) (fun _ _ h => h)).mono (by omega)
  · exact ((ta_poll ok.k0 h).imp (fun _ _ h => Or.inr (Or.inr (Or.inr h))) (fun _ _ h => h) (fun _ _ h => h)).mono
      (by omega)

/-- The hypotheses: a Filter; `g.body` = the Stdin records (content `g.content`) and noise before the
Stdin terminator `g.term`, `mid` = what lies between the terminator and the request's `AbortRequest`
record `a` (noise; no Data record), `g.body2` = the records behind `a`. -/
structure FR2OKu (g : Cfg) (mid : List Rec) (a : Rec) (s0 : ExitStatus) (pr : Bool) : Prop where
  wf : WellFormedPreamble g.p g.recs
  role : g.p.role = 3
  pairs : ∀ q ∈ g.p.pairs, (NV.enc q).length ≤ alignedBufsize g.b
  noise : NoiseFits (alignedBufsize g.b) g.recs
  body : Body g.p.id 5 g.content g.body
  bfits : NoiseFits (alignedBufsize g.b) g.body
  hpad : g.pad.length < 256
  hmid : ∀ r ∈ mid, StdinRec g.p.id r
  mfits : NoiseFits (alignedBufsize g.b) mid
  hpost : ∀ r ∈ g.body2, r.WF
  pfits : NoiseFits (alignedBufsize g.b) g.body2
  ab : IsAbort g.p.id a
  hX : g.X = serAll g.body ++ (g.term.ser ++ g.X2)
  hX2 : g.X2 = serAll (mid ++ [a]) ++ serAll g.body2
  hU : g.U = a.ser ++ serAll g.body2
  hs : g.hscript = rscript s0
  mode : g.st = if pr then ExitStatus.abort else s0

theorem FR2OKu.fok {g : Cfg} {mid : List Rec} {a : Rec} {s0 : ExitStatus} {pr : Bool} (ok : FR2OKu g mid a s0 pr) :
    FOK g := ⟨ok.wf, ok.pairs, ok.noise⟩

theorem FR2OKu.hid {g : Cfg} {mid : List Rec} {a : Rec} {s0 : ExitStatus} {pr : Bool} (ok : FR2OKu g mid a s0 pr) :
    g.p.id < 65536 := (pid_of_wf ok.wf).2

theorem FR2OKu.front {g : Cfg} {mid : List Rec} {a : Rec} {s0 : ExitStatus} {pr : Bool} (ok : FR2OKu g mid a s0 pr)
    {us : List Rec} (hu : LeftOK (alignedBufsize g.b) us) : FR2OKu (g.front us) mid a s0 pr :=
  ⟨wf_idle ok.wf us hu.1, ok.role, ok.pairs, noiseFits_app hu.2 ok.noise, ok.body, ok.bfits, ok.hpad, ok.hmid,
    ok.mfits, ok.hpost, ok.pfits, ok.ab, ok.hX, ok.hX2, ok.hU, ok.hs, ok.mode⟩

theorem FR2OKu.term_wf {g : Cfg} {mid : List Rec} {a : Rec} {s0 : ExitStatus} {pr : Bool}
    (ok : FR2OKu g mid a s0 pr) : g.term.WF := ⟨ok.hid, by simp [Cfg.term], ok.hpad⟩

/-- the Stdin stream is complete -/
theorem FR2OKu.k1 {g : Cfg} {mid : List Rec} {a : Rec} {s0 : ExitStatus} {pr : Bool} (ok : FR2OKu g mid a s0 pr) :
    g.K.OK := by
  have hid := ok.hid
  have hwa := isAbort_wf ok.ab hid
  have hrw : ∀ r ∈ mid ++ [a] ++ g.body2, r.WF := by
    intro r hr
    rcases List.mem_append.1 hr with hr | hr
    · rcases List.mem_append.1 hr with hr | hr
      · exact (ok.hmid r hr).1
      · rw [List.mem_singleton.1 hr]; exact hwa
    · exact ok.hpost r hr
  have hrf : NoiseFits (alignedBufsize g.b) (mid ++ [a] ++ g.body2) := by
    intro r hr hg
    rcases List.mem_append.1 hr with hr | hr
    · rcases List.mem_append.1 hr with hr | hr
      · exact ok.mfits r hr hg
      · rw [List.mem_singleton.1 hr] at hg
        exact absurd hg.1 (by rw [ok.ab.1]; decide)
    · exact ok.pfits r hr hg
  have hX2 : g.X2 = serAll (mid ++ [a] ++ g.body2) := by rw [ok.hX2, ← C02.serAll_append]
  have hXs : g.X = serAll (g.body ++ g.term :: (mid ++ [a] ++ g.body2)) := by
    rw [ok.hX, hX2]
    simp only [C02.serAll_append, serAll_cons, List.append_assoc]
  have hcls : rclass ⟨g.p.id, g.p.role, 5, g.mc⟩ g.term = .endStream := by simp [rclass, Cfg.term, RT.isInputStream]
  have href := refWire_stream ⟨g.p.id, g.p.role, 5, g.mc⟩ (Or.inl rfl) hid ok.body g.term ok.term_wf hcls _ hrw
  have hwf : ∀ r ∈ g.body ++ g.term :: (mid ++ [a] ++ g.body2), r.WF := by
    intro r hr
    rcases List.mem_append.1 hr with hr | hr
    · exact body_wf hid ok.body r hr
    · rcases List.mem_cons.1 hr with rfl | hr
      · exact ok.term_wf
      · exact hrw r hr
  refine ⟨?_, ?_, by have := cap24 g; show 8 ≤ g.cap; omega⟩
  · show refWire ⟨g.p.id, g.p.role, 5, g.mc⟩ g.X = _
    rw [hXs, href]
    simp only [Cfg.K, hX2, serAll_cons]
  · intro G hG hv
    have hG' : G <+: g.X := hG
    rw [hXs] at hG'
    refine stream_fits ⟨g.p.id, g.p.role, 5, g.mc⟩ _ hwf (by rw [href]; intro h; cases h)
      (by have := cap24 g; show 8 ≤ alignedBufsize g.b; exact Nat.le_trans (by omega) this) ?_ G hG' hv
    intro r hr hg
    rcases List.mem_append.1 hr with hr | hr
    · exact ok.bfits r hr hg
    · rcases List.mem_cons.1 hr with rfl | hr
      · exact absurd hg.1 (by simp [Cfg.term, RT.getValues])
      · exact hrf r hr hg

theorem FR2OKu.k8 {g : Cfg} {mid : List Rec} {a : Rec} {s0 : ExitStatus} {pr : Bool} (ok : FR2OKu g mid a s0 pr) :
    (g.K8m mid).Aborted := by
  have ok' : FAOK { g with body := g.term :: mid, X := g.term.ser ++ g.X2, hscript := [.ret g.st] } a := by
    refine ⟨ok.wf, ok.role, ok.pairs, ok.noise, ?_, ?_, ok.ab, ?_, ok.hU, rfl⟩
    · intro r hr
      rcases List.mem_cons.1 hr with rfl | hr
      · exact ⟨ok.term_wf, Or.inr ⟨rfl, rfl⟩⟩
      · exact ok.hmid r hr
    · intro r hr hg
      rcases List.mem_cons.1 hr with rfl | hr
      · exact absurd hg.1 (by simp [Cfg.term, RT.getValues])
      · exact ok.mfits r hr hg
    · show g.term.ser ++ g.X2 = serAll (g.term :: mid ++ [a]) ++ serAll g.body2
      rw [ok.hX2, List.cons_append, serAll_cons, List.append_assoc]
  have h := ok'.kaok
  have e : Cfg.KFA { g with body := g.term :: mid, X := g.term.ser ++ g.X2, hscript := [.ret g.st] } a = g.K8m mid := by
    simp only [Cfg.KFA, Cfg.K8m, ok.hU]
    rfl
  rw [e] at h
  exact h

theorem FR2OKu.k0 {g : Cfg} {mid : List Rec} {a : Rec} {s0 : ExitStatus} {pr : Bool} (ok : FR2OKu g mid a s0 pr) :
    g.K0.Aborted := k0_aborted ok.hid ok.ab ok.hU

theorem FR2OKu.follows {g : Cfg} {mid : List Rec} {a : Rec} {s0 : ExitStatus} {pr : Bool} (ok : FR2OKu g mid a s0 pr) :
    Follows g.K (g.K8m mid) :=
  ⟨by show (⟨g.p.id, g.p.role, 5, g.mc⟩ : Str.Cfg) = ⟨g.p.id, 3, 5, g.mc⟩; rw [ok.role], rfl, rfl, rfl, rfl⟩

/-- The handler in its first `readAll`, on a complete Stdin stream; the Data stream behind it is cut by
the abort before any content. -/
theorem hr1_coreU {g : Cfg} {mid : List Rec} {a : Rec} {s0 : ExitStatus} {pr : Bool} (ok : FR2OKu g mid a s0 pr)
    (fuel : Nat) (r : AReq) (sub : HSub) (e : Run.Env) (dO : Bytes)
    (hf : 2 * ((g.K.C.length - (accOf sub).length) / 64) + 2 * e.tr.input.length + 8 ≤ fuel) (hb : Ben e.tr)
    (hs : RSt g.K g.L1 [] r e.mutex e.tr (accOf sub) dO) :
    (∃ (r' : AReq) (acc' : Bytes) (e' : Run.Env) (dO' : Bytes),
      handlerPoll fuel r ⟨rscript s0, sub, [], pr⟩ e = (r', ⟨rscript s0, .readAllAcc acc', [], pr⟩, e', .pending) ∧
      RSt g.K g.L1 [] r' e'.mutex e'.tr acc' dO' ∧ e'.segs = e.segs ∧ TStep e.tr e'.tr ∧
      e'.tr.woken = true ∧ ans e'.tr < ans e.tr ∧ r'.writeable = r.writeable) ∨
    (∃ (r' : AReq) (acc' : Bytes) (e' : Run.Env) (dO' : Bytes),
      handlerPoll fuel r ⟨rscript s0, sub, [], pr⟩ e =
        (r', ⟨[.readAll, .ret s0], .readAllAcc acc', [], pr⟩, e', .pending) ∧
      RSt (g.K8m mid) g.L1 g.Ow1 r' e'.mutex e'.tr acc' dO' ∧ e'.segs = e.segs ∧ TStep e.tr e'.tr ∧
      e'.tr.woken = true ∧ ans e'.tr < ans e.tr ∧ r'.writeable = r.writeable) ∨
    HDoneA g (g.Ow2 mid) s0 pr fuel r ⟨rscript s0, sub, [], pr⟩ e := by
  have hK1 := ok.k1
  rcases readAll_runW hK1 (k_final ok.role) (L := g.L1) (P := []) [.setStream 8, .readAll, .ret s0] [] pr
      (2 * ((g.K.C.length - (accOf sub).length) / 64) + 2 * e.tr.input.length + 2) fuel r sub e dO 1
      (by omega) (by omega) (fun h => by omega) hb hs with
    ⟨r', acc', e', dO', d1, d3, d5, d6, d8, d9, d10⟩ |
    ⟨r', e', f', d1, d2, d3, dl, dm, dpay, dpad, dwire, dw, dsg, dts, dwr⟩
  · exact Or.inl ⟨r', acc', e', dO', d1, d3, d5, d6, d8, d9, d10⟩
  · right
    have hts1 : TStep e.tr (e'.ev (rEvent g.K.C)).tr := dts.trans (TStep.ev _ (isHS_rEvent _))
    obtain ⟨f2, rfl⟩ : ∃ f2, f' = f2 + 1 := ⟨f' - 1, by omega⟩
    obtain ⟨r8, hset, hlk8, hrst⟩ := switch_stream ok.follows d3 dpay dpad dwire
    have hw8 := setStream_writeable hset
    rw [hp_setStream, hset] at d1
    simp only at d1
    have hrst' : RSt (g.K8m mid) g.L1 g.Ow1 r8 ((e'.ev (rEvent g.K.C)).ev "s=ok").mutex
        ((e'.ev (rEvent g.K.C)).ev "s=ok").tr (accOf .fresh) [] := by
      rw [List.nil_append] at hrst
      obtain ⟨⟨G, hi⟩, lk, mx, lg⟩ := hrst
      exact ⟨⟨G, hi⟩, lk, mx, lg⟩
    have hts2 : TStep e.tr ((e'.ev (rEvent g.K.C)).ev "s=ok").tr := hts1.trans (TStep.ev _ (by decide))
    have hin2 : ((e'.ev (rEvent g.K.C)).ev "s=ok").tr.input.length = e'.tr.input.length := rfl
    rcases hr2_core (g := g) ok.k8 rfl ⟨rfl, rfl, rfl, rfl⟩ (Or.inr rfl) (P2 := g.Ow1) (Ow := g.Ow2 mid) rfl s0
        pr f2 r8 .fresh ((e'.ev (rEvent g.K.C)).ev "s=ok") [] (by omega)
        (hb.step hts2) hrst' with
      ⟨r2, acc2, e2, dO2, q1, q3, q5, q6, q8, q9, q10⟩ |
      ⟨K, P, r2, H2, e2, k1, k2, k3, k4, k5, k6, k7, k8, k9, k10, k11⟩
    · left
      refine ⟨r2, acc2, e2, dO2, by rw [rscript, d1]; exact q1, q3, q5.trans dsg, hts2.trans q6, q8, ?_,
        (q10.trans hw8).trans dwr⟩
      have := hts2.ans_le
      have q9' : ans e2.tr < ans ((e'.ev (rEvent g.K.C)).ev "s=ok").tr := q9
      omega
    · right
      exact ⟨K, P, r2, H2, e2, k1, k2, by rw [rscript, d1]; exact k3, k4, k5, k6, k7.trans dsg, hts2.trans k8,
        (k9.trans hw8).trans dwr, k10, k11⟩

/-- **One poll** with the handler in (or about to start) its first `readAll`. -/
theorem hr1_pollU {g : Cfg} {mid : List Rec} {a : Rec} {s0 : ExitStatus} {pr : Bool} (ok : FR2OKu g mid a s0 pr)
    {c : Conn} (h : HR1 g s0 pr c) :
    GRes3 (S2 g mid s0 pr) (AfterE g (g.LfO (g.Ow2 mid))) (FinE g (g.LfO (g.Ow2 mid))) 3 c := by
  obtain ⟨r, sub, dO, hph, hs, hnw, hb, hstop, hev, hsc⟩ := h
  have hK := ok.k1
  obtain ⟨G0, hi0⟩ := hs.inv
  have hrl := hi0.rem_le hK
  have hcapr : r.sp.cap = g.cap := hi0.capK
  have hcapK : g.K.cap = g.cap := rfl
  have hinl : c.env.tr.input.length ≤ g.X.length := by
    have := congrArg List.length hi0.wire
    simp only [List.length_append] at this
    have e : g.K.X = g.X := rfl
    rw [e] at this
    omega
  have hfu := handlerFuel_ge' c.env r
  have hfuel : 2 * ((g.K.C.length - (accOf sub).length) / 64) + 2 * c.env.tr.input.length + 8 ≤
      (handlerFuel c.env r + scriptOf c) := by
    omega
  rcases hr1_coreU ok (handlerFuel c.env r + scriptOf c) r sub c.env dO hfuel hb hs with
    ⟨r', acc', e', dO', d1, d3, d5, d6, d8, d9, d10⟩ | ⟨r', acc', e', dO', d1, d3, d5, d6, d8, d9, d10⟩ | hd
  · have hstep := C07.handler_step c r _ hph
    rw [d1] at hstep
    have hstep' : stepConn c = .halt ⟨.handler r' ⟨rscript s0, .readAllAcc acc', [], pr⟩, e', c.scripts, c.stop⟩
        .pending := hstep
    exact Or.inl (Or.inl ⟨_, (Halts.now hstep').mono (by omega), ⟨d6.w, d5, rfl⟩,
      Or.inr (Or.inl ⟨r', .readAllAcc acc', dO', rfl, d3, d10.trans hnw, hb.step d6, hstop, hev.step d6, hsc⟩),
      d8, d9⟩)
  · have hstep := C07.handler_step c r _ hph
    rw [d1] at hstep
    have hstep' : stepConn c = .halt ⟨.handler r' ⟨[.readAll, .ret s0], .readAllAcc acc', [], pr⟩, e', c.scripts, c.stop⟩
        .pending := hstep
    exact Or.inl (Or.inl ⟨_, (Halts.now hstep').mono (by omega), ⟨d6.w, d5, rfl⟩,
      Or.inr (Or.inr (Or.inl ⟨r', .readAllAcc acc', dO', rfl, d3, d10.trans hnw, hb.step d6, hstop, hev.step d6,
        hsc⟩)), d8, d9⟩)
  · exact (done_close ok.k0 ok.role ok.mode hph hd hnw hb hstop hev hsc).imp
      (fun _ _ h => Or.inr (Or.inr (Or.inr h))) (fun _ _ h => h) (fun _ _ h => h)

/-- the first poll of the handler -/
theorem filterR2_firstU {g : Cfg} {mid : List Rec} {a : Rec} {s0 : ExitStatus} {pr : Bool}
    (ok : FR2OKu g mid a s0 pr) (c : Conn) (hc : FirstCfgP g pr c) :
    GRes3 (S2 g mid s0 pr) (AfterE g (g.LfO (g.Ow2 mid))) (FinE g (g.LfO (g.Ow2 mid))) 6 c := by
  obtain ⟨e1, hph, hlen, hwire, hlog, hm, hb, hstop, hev, hsc⟩ := hc
  have hrole : g.p.request.role = 3 := ok.role
  have hwr : (AReq.new (Str.Parser.fromParser g.cap g.p.request e1 g.mc)).writeable = false := by
    simp [AReq.new, Str.Parser.fromParser, hrole, inputStreams]
  have hstart : C03SI.Start g.K.E (Str.Parser.fromParser g.cap g.p.request e1 g.mc) :=
    C03SI.start_fresh g.cap g.p.request e1 g.mc hlen ok.hid (Or.inr hrole)
  have hrinv : RInv g.K (AReq.new (Str.Parser.fromParser g.cap g.p.request e1 g.mc)) e1 c.env.tr.input [] [] := by
    refine ⟨hstart.mtch, hstart.inv, rfl, rfl, rfl, hwire, fun x => ?_⟩
    have := C03SI.rem_start hstart x
    show refWire g.K.E (e1 ++ x) = (Rem g.K.E (Str.Parser.fromParser g.cap g.p.request e1 g.mc) x).pre [] []
    rw [this]; rfl
  rw [ok.hs] at hph
  exact (hr1_pollU ok ⟨_, .fresh, [], hph, ⟨⟨e1, hrinv⟩, by rw [hm]; exact lockInv_free rfl, Or.inl hm,
    ⟨[], by rw [hlog, List.append_nil], rfl⟩⟩, hwr, hb, hstop, hev, hsc⟩).mono (by omega)

theorem s2_pollU {g : Cfg} {mid : List Rec} {a : Rec} {s0 : ExitStatus} {pr : Bool} (ok : FR2OKu g mid a s0 pr)
    {c : Conn} (h : S2 g mid s0 pr c) :
    GRes3 (S2 g mid s0 pr) (AfterE g (g.LfO (g.Ow2 mid))) (FinE g (g.LfO (g.Ow2 mid)))
      (2 * c.env.tr.input.length + 15) c := by
  rcases h with h | h | h | h
  · exact fstage_poll3P ok.fok (fun _ h => Or.inl h) (filterR2_firstU ok) h
  · exact (hr1_pollU ok h).mono (by omega)
  · exact ((hr2_poll ok.k8 rfl ⟨rfl, rfl, rfl, rfl⟩ (Or.inr rfl) rfl ok.k0 ok.role ok.mode h).imp
      (fun _ _ h => h.elim (fun h => Or.inr (Or.inr (Or.inl h))) (fun h => Or.inr (Or.inr (Or.inr h))))
      (fun _ _ h => h) (fun _ _ h => h)).mono (by omega)
  · exact ((ta_poll ok.k0 h).imp (fun _ _ h => Or.inr (Or.inr (Or.inr h))) (fun _ _ h => h) (fun _ _ h => h)).mono
      (by omega)

theorem run_filterR1U {g : Cfg} {a : Rec} {s0 : ExitStatus} {pr : Bool} (ok : FR1OKu g a s0 pr) {Z : Bytes}
    (hns : NoStuckW g.cap g.mc (g.U ++ Z))
    (hNF : ∀ F x, F ++ x ++ Z = g.U ++ Z → (run .header F g.mc).st.isFinal = false)
    (em : EndMode) (evs0 : List String) (c : Conn) (n0 fuel : Nat) (hst : FStageP g pr c)
    (hem : c.env.tr.endMode = em) (hev0 : ∀ s ∈ evs0, s ∈ c.env.tr.events)
    (hsegs : c.env.segs = []) (hf : ans c.env.tr + 1 ≤ fuel) :
    ∃ c'' fin, runTask fuel c n0 none = (c'', fin) ∧
      (GEnd g.cap g.mc Z g.more (g.hs0 + 1) (fun _ : Unit => g.p.flags.toNat % 2 = 1) (fun _ => g.U ++ Z)
          (fun _ => g.LfO g.Ow1) (fun _ => [hsEvent g.p.request]) em evs0 (ans c.env.tr) c'' fin ∨
       (fin = "RET" ∧ FinE g (g.LfO g.Ow1) c'' ∧ c''.env.tr.endMode = em ∧ (∀ s ∈ evs0, s ∈ c''.env.tr.events))) :=
  run_stages3' (cap24 g) (fun _ _ => hns) (fun _ _ => hNF) (fun _ _ h => h.cong)
    (fun _ h => (s1_pollU ok h).imp (fun _ _ h => h)
      (fun _ _ h => h.ztail (evs := []) (fun _ hs => nomatch hs)) (fun _ _ h => h))
    em evs0 c n0 fuel (Or.inl hst) hem hev0 hsegs hf

theorem serve_filterR1_coreU {g : Cfg} {a : Rec} {s0 : ExitStatus} {pr : Bool} (ok : FR1OKu g a s0 pr) (hk : g.p.flags.toNat % 2 = 1)
    {left : List Rec} (hleft : LeftOK (alignedBufsize g.b) left) {Z : Bytes}
    (hR : ∀ e ∈ a :: g.body2, IdleNoise e) (hZ : GoodNext g.cap g.mc (a :: g.body2) Z)
    {Lw : Bytes} {evs : List String} {A0 : Nat} {c : Conn} (n0 fuel : Nat)
    (hLw : Lw = g.L0 ++ idleOwed g.mc left)
    (hstart : StartAt g.cap g.mc left Lw ((g.hscript, pr) :: g.more) g.hs0 evs A0 g.W c)
    (hf : A0 + 1 ≤ fuel) :
    ∃ c', runTask fuel c n0 none = (c', "STALL") ∧
      Waiting g.cap g.mc (a :: g.body2) ((g.front left).LfO g.Ow1 ++ idleOwed g.mc (a :: g.body2)) g.more
        (g.hs0 + 1) (hsEvent g.p.request :: evs) A0 c' := by
  have okf := ok.front hleft
  obtain ⟨hst, hsg, hem, hans, hev, hin⟩ := fstage_of_startAtP hleft hLw hstart
  have hser : serAll (a :: g.body2) = g.U := by rw [ok.hU, serAll_cons]
  obtain ⟨c', fin, hrun, hres⟩ :=
    run_filterR1U okf (Z := Z) (by show NoStuckW g.cap g.mc (g.U ++ Z); rw [← hser]; exact hZ.1)
      (by show ∀ F x, F ++ x ++ Z = g.U ++ Z → _; rw [← hser]; exact hZ.2) .pend evs c n0 fuel hst hem hev hsg
      (by omega)
  rcases hres with ⟨_, _, hkp, hem', hev', hans', hsg', hend⟩ | ⟨_, hfu, _, _⟩
  · rcases hend with ⟨rfl, hp⟩ | ⟨_, hfn⟩
    · obtain ⟨F, hF, hps, hph, hlg⟩ := hp.pst
      have hFe : F = serAll (a :: g.body2) := by
        have : F ++ Z = g.U ++ Z := hF
        rw [hser]; exact List.append_cancel_right this
      subst hFe
      have hnf : (run .header (serAll (a :: g.body2)) g.mc).st.isFinal = false := (run_idle_out g.mc _ hR).2.2
      have hob : (run .header (serAll (a :: g.body2)) (g.front left).mc).out = idleOwed g.mc (a :: g.body2) :=
        (run_idle_out g.mc _ hR).1
      refine ⟨c', hrun, ⟨hph, hnf, hps.rem, hp.inp, by rw [hlg, hob]; rfl, ⟨(g.front left).LfO g.Ow1, by
        show _ = _ ++ (run .header (serAll (a :: g.body2)) (g.front left).mc).out
        rw [hob]⟩, hps.stop, hps.ben, hkp.sc, hkp.mx,
        hkp.hs, ?_, hsg', hem', by omega⟩⟩
      intro s hs
      rcases List.mem_cons.1 hs with rfl | hs
      · exact hkp.ev _ List.mem_cons_self
      · exact hev' s hs
    · rw [hfn.em] at hem'; cases hem'
  · have := hfu.nokeep
    have e : (g.front left).p = g.p := rfl
    rw [e] at this
    omega

theorem run_filterR2U {g : Cfg} {mid : List Rec} {a : Rec} {s0 : ExitStatus} {pr : Bool}
    (ok : FR2OKu g mid a s0 pr) {Z : Bytes}
    (hns : NoStuckW g.cap g.mc (g.U ++ Z))
    (hNF : ∀ F x, F ++ x ++ Z = g.U ++ Z → (run .header F g.mc).st.isFinal = false)
    (em : EndMode) (evs0 : List String) (c : Conn) (n0 fuel : Nat) (hst : FStageP g pr c)
    (hem : c.env.tr.endMode = em) (hev0 : ∀ s ∈ evs0, s ∈ c.env.tr.events)
    (hsegs : c.env.segs = []) (hf : ans c.env.tr + 1 ≤ fuel) :
    ∃ c'' fin, runTask fuel c n0 none = (c'', fin) ∧
      (GEnd g.cap g.mc Z g.more (g.hs0 + 1) (fun _ : Unit => g.p.flags.toNat % 2 = 1) (fun _ => g.U ++ Z)
          (fun _ => g.LfO (g.Ow2 mid)) (fun _ => [hsEvent g.p.request]) em evs0 (ans c.env.tr) c'' fin ∨
       (fin = "RET" ∧ FinE g (g.LfO (g.Ow2 mid)) c'' ∧ c''.env.tr.endMode = em ∧
        (∀ s ∈ evs0, s ∈ c''.env.tr.events))) :=
  run_stages3' (cap24 g) (fun _ _ => hns) (fun _ _ => hNF) (fun _ _ h => h.cong)
    (fun _ h => (s2_pollU ok h).imp (fun _ _ h => h)
      (fun _ _ h => h.ztail (evs := []) (fun _ hs => nomatch hs)) (fun _ _ h => h))
    em evs0 c n0 fuel (Or.inl hst) hem hev0 hsegs hf

theorem serve_filterR2_coreU {g : Cfg} {mid : List Rec} {a : Rec} {s0 : ExitStatus} {pr : Bool} (ok : FR2OKu g mid a s0 pr) (hk : g.p.flags.toNat % 2 = 1)
    {left : List Rec} (hleft : LeftOK (alignedBufsize g.b) left) {Z : Bytes}
    (hR : ∀ e ∈ a :: g.body2, IdleNoise e) (hZ : GoodNext g.cap g.mc (a :: g.body2) Z)
    {Lw : Bytes} {evs : List String} {A0 : Nat} {c : Conn} (n0 fuel : Nat)
    (hLw : Lw = g.L0 ++ idleOwed g.mc left)
    (hstart : StartAt g.cap g.mc left Lw ((g.hscript, pr) :: g.more) g.hs0 evs A0 g.W c)
    (hf : A0 + 1 ≤ fuel) :
    ∃ c', runTask fuel c n0 none = (c', "STALL") ∧
      Waiting g.cap g.mc (a :: g.body2) ((g.front left).LfO (g.Ow2 mid) ++ idleOwed g.mc (a :: g.body2)) g.more
        (g.hs0 + 1) (hsEvent g.p.request :: evs) A0 c' := by
  have okf := ok.front hleft
  obtain ⟨hst, hsg, hem, hans, hev, hin⟩ := fstage_of_startAtP hleft hLw hstart
  have hser : serAll (a :: g.body2) = g.U := by rw [ok.hU, serAll_cons]
  obtain ⟨c', fin, hrun, hres⟩ :=
    run_filterR2U okf (Z := Z) (by show NoStuckW g.cap g.mc (g.U ++ Z); rw [← hser]; exact hZ.1)
      (by show ∀ F x, F ++ x ++ Z = g.U ++ Z → _; rw [← hser]; exact hZ.2) .pend evs c n0 fuel hst hem hev hsg
      (by omega)
  rcases hres with ⟨_, _, hkp, hem', hev', hans', hsg', hend⟩ | ⟨_, hfu, _, _⟩
  · rcases hend with ⟨rfl, hp⟩ | ⟨_, hfn⟩
    · obtain ⟨F, hF, hps, hph, hlg⟩ := hp.pst
      have hFe : F = serAll (a :: g.body2) := by
        have : F ++ Z = g.U ++ Z := hF
        rw [hser]; exact List.append_cancel_right this
      subst hFe
      have hnf : (run .header (serAll (a :: g.body2)) g.mc).st.isFinal = false := (run_idle_out g.mc _ hR).2.2
      have hob : (run .header (serAll (a :: g.body2)) (g.front left).mc).out = idleOwed g.mc (a :: g.body2) :=
        (run_idle_out g.mc _ hR).1
      refine ⟨c', hrun, ⟨hph, hnf, hps.rem, hp.inp, by rw [hlg, hob]; rfl, ⟨(g.front left).LfO (g.Ow2 mid), by
        show _ = _ ++ (run .header (serAll (a :: g.body2)) (g.front left).mc).out
        rw [hob]⟩, hps.stop, hps.ben, hkp.sc, hkp.mx,
        hkp.hs, ?_, hsg', hem', by omega⟩⟩
      intro s hs
      rcases List.mem_cons.1 hs with rfl | hs
      · exact hkp.ev _ List.mem_cons_self
      · exact hev' s hs
    · rw [hfn.em] at hem'; cases hem'
  · have := hfu.nokeep
    have e : (g.front left).p = g.p := rfl
    rw [e] at this
    omega

end Fcgi.E2E
