import Fcgi.Proofs.E2EBufRead2NF
/-!
# `fill_buf`/`consume` rounds that leave part of the stream unread (`Proofs/E2EBufRead2`, variant 2) without the model-fuel bound

`BR3OK.hfu : 2·n + 10 ≤ 1000` and the matching conjunct of `HB2` are gone: `scriptOf c` (the cost of the script still to
run, part of the handler fuel of the model) dominates the rounds that remain.  Same transformation as
`Proofs/E2EBufRead2NF.lean` (suffix `NF`).
-/
namespace Fcgi.E2E
open Fcgi Fcgi.Req Fcgi.Str Fcgi.Async Fcgi.Run Fcgi.Spec Fcgi.C09E

/-- `BR3OK` without the model-fuel bound -/
structure BR3OKN (g : Cfg) (n k : Nat) : Prop where
  wf : WellFormedPreamble g.p g.recs
  role : g.p.role = 1
  pairs : ∀ q ∈ g.p.pairs, (NV.enc q).length ≤ alignedBufsize g.b
  noise : NoiseFits (alignedBufsize g.b) g.recs
  hb : Body g.p.id 5 g.content g.body
  hf : NoiseFits (alignedBufsize g.b) g.body
  hp : g.pad.length < 256
  hX2 : g.X2 = []
  hX : g.X = serAll g.body ++ g.term.ser
  str : ∀ r ∈ g.R, StdinRec g.p.id r
  hs : g.hscript = rounds n k ++ [.ret g.st]

/-- `HB2` without the fuel conjunct -/
def HB2N (g : Cfg) (k : Nat) (c : Conn) : Prop :=
  ∃ r n' handed dO shown, c.phase = .handler r { ops := rounds n' k ++ [.ret g.st], propagate := true } ∧
    BSt g.K g.L1 [] r c.env.mutex c.env.tr handed dO ∧
    Pos g.R r.sp.raw r.sp.pay r.sp.pad c.env.tr.input ∧
    handed = taken k shown ∧ SlEv shown c.env.tr ∧ r.writeable = true ∧
    ((n' = 0 ∨ r.sp.parsed ≠ []) → r.lock = .none ∧ c.env.mutex = none) ∧
    Ben c.env.tr ∧ c.stop = false ∧ Ev1 g c.env.tr ∧ c.scripts = g.more

def S3bN (g : Cfg) (k : Nat) (Q : Transport → Prop) (c : Conn) : Prop :=
  FStage g c ∨ HB2N g k c ∨ BD2 g Q c ∨ LT2 g Q c

abbrev R3bN (g : Cfg) (k : Nat) (Q : Transport → Prop) (N : Nat) (c : Conn) : Prop :=
  GRes3 (S3bN g k Q) (A3b g Q) (F3b g Q) N c

/-- the same request with the handler `[.read 1, .ret st]` (for the facts about the wire) -/
theorem BR3OKN.pok {g : Cfg} {n k : Nat} (ok : BR3OKN g n k) : POK { g with hscript := [.read 1, .ret g.st] } 1 :=
  ⟨ok.wf, ok.role, ok.pairs, ok.noise, ok.hb, ok.hf, ok.hp, ok.hX2, ok.hX, ok.str, rfl, Nat.one_pos⟩

theorem BR3OKN.fok {g : Cfg} {n k : Nat} (ok : BR3OKN g n k) : FOK g := ⟨ok.wf, ok.pairs, ok.noise⟩

theorem BR3OKN.hid {g : Cfg} {n k : Nat} (ok : BR3OKN g n k) : g.p.id < 65536 := (pid_of_wf ok.wf).2

theorem BR3OKN.kok {g : Cfg} {n k : Nat} (ok : BR3OKN g n k) : g.K.OK := ok.pok.kok

theorem BR3OKN.ctx {g : Cfg} {n k : Nat} (ok : BR3OKN g n k) : R2Ctx g.p.id g.mc g.cap g.R := ok.pok.ctx

theorem BR3OKN.XR {g : Cfg} {n k : Nat} (ok : BR3OKN g n k) : g.X = serAll g.R := ok.pok.XR

theorem BR3OKN.front {g : Cfg} {n k : Nat} (ok : BR3OKN g n k) {us : List Rec} (hu : LeftOK (alignedBufsize g.b) us) :
    BR3OKN (g.front us) n k :=
  ⟨wf_idle ok.wf us hu.1, ok.role, ok.pairs, noiseFits_app hu.2 ok.noise, ok.hb, ok.hf, ok.hp, ok.hX2, ok.hX, ok.str,
    ok.hs⟩

theorem of_ures3NF {g : Cfg} {k : Nat} {Q : Transport → Prop} (hQ : MonoQ Q) {N : Nat} {c : Conn} {s1 s2 : List Rec}
    (hsp : g.R = s1 ++ s2) (h : URes2 (gC g s1 s2) N c) (hq : Q c.env.tr) : R3bN g k Q N c :=
  h.toG3.imp
    (fun c' hl x => Or.inr (Or.inr (Or.inr ⟨s1, s2, hsp, hQ.up _ _ (fun _ hx => hl.ts.evm _ hx) hq, x⟩)))
    (fun c' hl x => ⟨s1, s2, hsp, hQ.up _ _ (fun _ hx => hl.ts.evm _ hx) hq, x⟩)
    (fun c' hl x => ⟨s1, s2, hsp, hQ.up _ _ (fun _ hx => hl.ts.evm _ hx) hq, x⟩)

/-- **`record_boundary()` returned** (`.ready`: at a record boundary of the record list; `.pending`:
suspended in a transport read): the rest of that poll of `close`. -/
theorem pboundary_out3NF {g : Cfg} {n k : Nat} {Q : Transport → Prop} (ok : BR3OKN g n k) (hQ : MonoQ Q) {c : Conn} {r : AReq} {cs : CloseSt} {sp0 sp' : Str.Parser}
    {t' : Transport} {res : ORes} {dO : Bytes}
    (hph : c.phase = .closing r cs g.st 0)
    (heq : closePoll r cs g.st 0 c.env.mutex c.env.tr = closeTail r c.env.mutex g.st (sp', t', res))
    (hts : TStep c.env.tr t') (hwl : t'.wlog = c.env.tr.wlog)
    (hend : BEnd g.p.id g.mc g.cap g.R sp0 sp' dO t')
    (hreq : sp0.request = g.p.request) (hmc : sp0.maxConns = g.mc)
    (hres : (res = .ready ∧ sp'.isRecordBoundary = true) ∨
       (res = .pending ∧ t'.woken = true ∧ ans t' < ans c.env.tr ∧ sp'.isRecordBoundary = false ∧
          sp'.raw.length < g.cap ∧ sp'.g0 = 0 ∧ sp'.g1 = 0 ∧ t'.input ≠ []))
    (hlk : r.lock = .none) (hwr : r.writeable = true) (hm : c.env.mutex = none)
    (hlog : ∃ O1, c.env.tr.wlog = g.L1 ++ O1 ∧ O1 ++ sp0.output = dO) (hrd : Q c.env.tr)
    (hb : Ben c.env.tr) (hstop : c.stop = false) (hev : Ev1 g c.env.tr) (hsc : c.scripts = g.more) :
    R3bN g k Q 2 c := by
  obtain ⟨⟨o, G', ho, hr2⟩, hreq', hmc'⟩ := hend
  obtain ⟨O1, hl1, hl2⟩ := hlog
  have hlog' : ∃ O1, t'.wlog = g.L1 ++ O1 ∧ O1 ++ sp'.output = dO ++ o :=
    ⟨O1, hwl.trans hl1, by rw [ho, ← List.append_assoc, hl2]⟩
  rcases hres with ⟨rfl, hbd⟩ | ⟨rfl, hwk, hans, hnb, hraw, hg0, hg1, hin⟩
  · -- at a record boundary: the split
    have hpay : sp'.pay = 0 ∧ sp'.pad = 0 := by
      simpa [Str.Parser.isRecordBoundary] using hbd
    obtain ⟨cc, pd, s2, hcc, hpd, hw, ⟨s1, hsuf⟩⟩ := hr2.ign.pos
    rw [hpay.1] at hcc
    rw [hpay.2] at hpd
    have hcc' : cc = [] := List.length_eq_zero_iff.1 hcc
    have hpd' : pd = [] := List.length_eq_zero_iff.1 hpd
    rw [hcc', hpd', List.nil_append, List.nil_append] at hw
    have hsp : g.R = s1 ++ s2 := hsuf.symm
    -- all replies for `s1` are generated
    have hctx := ok.ctx
    obtain ⟨_, hout, _⟩ := hr2.now hctx
    have hrem : Rem (Ev g.p.id g.mc) (view sp') t'.input = refWire (Ev g.p.id g.mc) (serAll s2) := by
      have hst : (view sp').state = .skip ∨ True := Or.inr trivial
      show ref (Ev g.p.id g.mc) (view sp').state (view sp').pay (view sp').pad ((view sp').raw ++ t'.input) = _
      have e1 : (view sp').pay = 0 := hpay.1
      have e2 : (view sp').pad = 0 := hpay.2
      have e3 : (view sp').raw = sp'.raw := rfl
      rw [e1, e2, e3, hw]
      exact ref_eq_refWire (Ev g.p.id g.mc) _ _
    have hs2 : ∀ r ∈ s2, StdinRec g.p.id r := fun r hr => ok.str r (by rw [hsp]; exact List.mem_append_right _ hr)
    rw [hrem, refWire_view g.p.id g.mc hs2] at hout
    have hdO : dO ++ o = owedI g.p.id g.mc s1 := by
      have : owedI g.p.id g.mc g.R = owedI g.p.id g.mc s1 ++ owedI g.p.id g.mc s2 := by
        rw [hsp]; simp [owedI, List.flatMap_append]
      rw [this] at hout
      exact List.append_cancel_right hout
    obtain ⟨O1', hl1', hl2'⟩ := hlog'
    have hepi : epilogueOf { r with sp := sp' } g.st = (gC g s1 s2).epi := by
      simp only [epilogueOf, hwr, if_true, Cfg.epi, outputStreams]
      show makeRequestEpilogue sp'.request.id g.st _ = _
      rw [hreq', hreq]; rfl
    have heq' : closePoll r cs (gC g s1 s2).st 0 c.env.mutex c.env.tr =
        closeP4 { sp := sp', lock := .none, writeable := r.writeable } c.env.mutex t'
          (.writeOut sp'.output (gC g s1 s2).epi) := by
      show closePoll r cs g.st 0 c.env.mutex c.env.tr = _
      rw [heq, ← hepi]
      simp only [closeTail, closeP2Tail, closeP3_start, Nat.lt_irrefl, gt_iff_lt, if_false, hlk, lockDrop]
    have hrawlen : sp'.raw.length ≤ g.cap := by
      have := hr2.sinv.1
      have e : (view sp').freeStart = sp'.freeStart := rfl
      have e2 : (view sp').cap = sp'.cap := rfl
      rw [e, e2, hr2.capK] at this
      simp only [Str.Parser.freeStart] at this
      omega
    have hce : CEndW (gC g s1 s2) { sp := sp', lock := .none, writeable := r.writeable } t'.input :=
      ⟨hpay.1, hpay.2, hw, hreq'.trans hreq, hr2.capK, hmc'.trans hmc, hrawlen⟩
    have hU := uclose_out' (g := gC g s1 s2) hph heq' hts hce hm
      (by rw [gC_LU, hl1', ← hdO, ← hl2']; simp only [List.append_assoc]; rfl) hb hstop hev hsc
    exact of_ures3NF hQ hsp hU hrd
  · -- suspended in the read
    have hstep := C07.closing_step c r cs g.st 0 hph
    rw [heq] at hstep
    have hstep' : stepConn c = .halt (mkC c (.closing { r with sp := sp' } .inBoundary g.st 0) t') .pending := hstep
    refine Or.inl (Or.inl ⟨_, (Halts.now hstep').mono (by omega), mkC_link c _ hts, ?_, hwk, hans⟩)
    exact Or.inr (Or.inr (Or.inl ⟨{ r with sp := sp' }, dO ++ o, rfl, ⟨G', hr2⟩, hreq'.trans hreq, hmc'.trans hmc,
      hlk, hwr, hm, hlog', hnb, hraw, hg0, hg1, hin, hQ.up _ _ (fun _ hx => hts.mem_events hx) hrd, hb.step hts, hstop,
      hev.step hts, hsc⟩))

/-- **`close` called** after the handler's `read`: `writeable()` is ready, `set_stream(None)`,
`record_boundary()`. -/
theorem pclose_start3NF {g : Cfg} {n k : Nat} {Q : Transport → Prop} (ok : BR3OKN g n k) (hQ : MonoQ Q) {c : Conn} {r : AReq} {G dC dO : Bytes}
    (hph : c.phase = .closing r .start g.st 0)
    (hi : RInvB g.K r G c.env.tr.input dC dO) (hpos : Pos g.R r.sp.raw r.sp.pay r.sp.pad c.env.tr.input)
    (hlk : r.lock = .none) (hwr : r.writeable = true) (hm : c.env.mutex = none)
    (hlog : ∃ O1, c.env.tr.wlog = g.L1 ++ O1 ∧ O1 ++ r.sp.output = dO) (hrd : Q c.env.tr)
    (hb : Ben c.env.tr) (hstop : c.stop = false) (hev : Ev1 g c.env.tr) (hsc : c.scripts = g.more) :
    R3bN g k Q 2 c := by
  have hctx := ok.ctx
  have hE : g.K.E = ⟨g.p.id, 1, 5, g.mc⟩ := by show (⟨g.p.id, g.p.role, 5, g.mc⟩ : Str.Cfg) = _; rw [ok.role]
  have hr2 : R2 g.p.id g.mc g.cap g.R (r.sp.switchTo none) G c.env.tr.input dO :=
    r2_of_switchB hctx hE ok.XR rfl hi hpos
  have hstrm : r.sp.stream = some 5 := hi.mt.strm
  have hign : spIgnore r.sp = r.sp.switchTo none := by simp [spIgnore, hstrm]
  have heq0 := closePoll_start_tail r c.env.mutex c.env.tr g.st hwr
  rw [hign] at heq0
  have hreq : (r.sp.switchTo none).request = g.p.request := hi.req
  have hmc : (r.sp.switchTo none).maxConns = g.mc := hi.mt.mc
  have hout : (r.sp.switchTo none).output = r.sp.output := rfl
  by_cases hbd : (r.sp.switchTo none).isRecordBoundary = true
  · have hcb : closeBoundary (r.sp.switchTo none) false c.env.tr = (r.sp.switchTo none, c.env.tr, .ready) := by
      simp [closeBoundary, hbd]
    rw [hcb] at heq0
    exact pboundary_out3NF ok hQ (sp0 := r.sp.switchTo none) (dO := dO) hph heq0 (.refl _) rfl
      ⟨⟨[], G, (List.append_nil _).symm, by rw [List.append_nil]; exact hr2⟩, rfl, rfl⟩ hreq hmc (Or.inl ⟨rfl, hbd⟩)
      hlk hwr hm (by rw [hout]; exact hlog) hrd hb hstop hev hsc
  · have hbd' : (r.sp.switchTo none).isRecordBoundary = false := by simpa using hbd
    rcases hbl : boundaryLoop (c.env.tr.input.length + 2) (r.sp.switchTo none) [] c.env.tr with ⟨sp', t', res⟩
    have hcb : closeBoundary (r.sp.switchTo none) false c.env.tr = (sp', t', res) := by
      simp [closeBoundary, hbd', hbl]
    rw [hcb] at heq0
    obtain ⟨q1, q2, q3, q4⟩ := bloop_sim hctx _ _ [] c.env.tr hb (by rw [List.nil_append]; exact hr2)
      (Nat.zero_le _) (Nat.le_refl _) hbl
    exact pboundary_out3NF ok hQ (sp0 := r.sp.switchTo none) (dO := dO) hph heq0 q1 q2 q3 hreq hmc q4
      hlk hwr hm (by rw [hout]; exact hlog) hrd hb hstop hev hsc

/-- a poll that resumes `close` inside `record_boundary()` -/
theorem pbound_poll3NF {g : Cfg} {n k : Nat} {Q : Transport → Prop} (ok : BR3OKN g n k) (hQ : MonoQ Q) {c : Conn} {r : AReq} {dO : Bytes}
    (hph : c.phase = .closing r .inBoundary g.st 0)
    (hr2 : ∃ G, R2 g.p.id g.mc g.cap g.R r.sp G c.env.tr.input dO)
    (hreq : r.sp.request = g.p.request) (hmc : r.sp.maxConns = g.mc)
    (hlk : r.lock = .none) (hwr : r.writeable = true) (hm : c.env.mutex = none)
    (hlog : ∃ O1, c.env.tr.wlog = g.L1 ++ O1 ∧ O1 ++ r.sp.output = dO)
    (hnb : r.sp.isRecordBoundary = false) (hraw : r.sp.raw.length < g.cap) (hg0 : r.sp.g0 = 0)
    (hg1 : r.sp.g1 = 0) (hin : c.env.tr.input ≠ []) (hre : Q c.env.tr)
    (hb : Ben c.env.tr) (hstop : c.stop = false) (hev : Ev1 g c.env.tr) (hsc : c.scripts = g.more) :
    R3bN g k Q 2 c := by
  have hctx := ok.ctx
  obtain ⟨G, hr2⟩ := hr2
  have heq0 := closePoll_bound_tail r c.env.mutex c.env.tr g.st
  have hfree : r.sp.free = g.cap - r.sp.raw.length := by
    simp [Str.Parser.free, Str.Parser.freeStart, hr2.par, hr2.capK, hg0, hg1]
  have hfp : 0 < r.sp.free := by rw [hfree]; omega
  have hend0 : BEnd g.p.id g.mc g.cap g.R r.sp r.sp dO c.env.tr :=
    ⟨⟨[], G, (List.append_nil _).symm, by rw [List.append_nil]; exact hr2⟩, rfl, rfl⟩
  rcases hrd : c.env.tr.read r.sp.free with ⟨t1, x⟩
  cases x with
  | pending =>
    have hwl : t1.wlog = c.env.tr.wlog := by have := read_wlog c.env.tr r.sp.free; rwa [hrd] at this
    obtain ⟨hinp, hw | hw⟩ := read_pending hb hrd
    · have hcb : closeBoundary r.sp true c.env.tr = (r.sp, t1, .pending) := by simp [closeBoundary, hrd]
      rw [hcb] at heq0
      exact pboundary_out3NF ok hQ (sp0 := r.sp) (dO := dO) hph heq0 (read_tstep hrd) hwl
        ⟨⟨[], G, (List.append_nil _).symm, by rw [List.append_nil]; exact hr2.input hinp⟩, rfl, rfl⟩ hreq hmc
        (Or.inr ⟨rfl, hw.1, hw.2, hnb, hraw, hg0, hg1, by rw [hinp]; exact hin⟩) hlk hwr hm hlog hre hb hstop hev hsc
    · exact absurd hw.1 hin
  | ready y =>
    cases y with
    | error e => exact (read_error hb hrd).elim
    | ok bs =>
      obtain ⟨hinp, hwl, hlen, hz⟩ := read_ok_ben hb hrd
      by_cases hbs : bs = []
      · rcases hz hbs with hz | hz
        · omega
        · exact absurd hz.1 hin
      · have hs1 := read_tstep hrd
        rcases hbl : boundaryLoop (t1.input.length + 2) r.sp bs t1 with ⟨sp', t', res⟩
        have hcb : closeBoundary r.sp true c.env.tr = (sp', t', res) := by
          cases bs with
          | nil => exact absurd rfl hbs
          | cons b0 bs' => simp [closeBoundary, hrd, hbl]
        rw [hcb] at heq0
        obtain ⟨q1, q2, q3, q4⟩ := bloop_sim hctx _ _ bs t1 (hb.step hs1) (hr2.input (by rw [← hinp]))
          hlen (Nat.le_refl _) hbl
        refine pboundary_out3NF ok hQ (sp0 := r.sp) (dO := dO) hph heq0 (hs1.trans q1) (q2.trans hwl) q3 hreq hmc ?_
          hlk hwr hm hlog hre hb hstop hev hsc
        rcases q4 with q4 | ⟨a, b, c1, d⟩
        · exact Or.inl q4
        · exact Or.inr ⟨a, b, by have := hs1.ans_le; omega, d⟩

theorem S3bN.cong {g : Cfg} {k : Nat} {Q : Transport → Prop} (hQ : MonoQ Q) {c c' : Conn} (h : S3bN g k Q c)
    (hph : c'.phase = c.phase) (hsc : c'.scripts = c.scripts) (hstop : c'.stop = c.stop)
    (hm : c'.env.mutex = c.env.mutex) (hs : TrSame c.env.tr c'.env.tr) : S3bN g k Q c' := by
  rcases h with h | ⟨r, n', handed, dO, shown, h1, h2, h3, h4, h5, h6, h7, h9, h10, h11, h12⟩ |
    ⟨r, dO, h1, h2, h3, h4, h5, h6, h7, h8, h9, h10, h11, h12, h13, h14, h15, h16, h17, h18⟩ | ⟨s1, s2, hsp, hq, h⟩
  · exact Or.inl (h.cong hph hsc hstop hm hs)
  · exact Or.inr (Or.inl ⟨r, n', handed, dO, shown, hph.trans h1, BSt.cong' h2 hm hs, by rw [hs.input]; exact h3, h4,
      fun s hx => hs.mem (h5 s hx), h6, by rw [hm]; exact h7, hs.ben h9, hstop.trans h10, hs.ev1 h11, hsc.trans h12⟩)
  · exact Or.inr (Or.inr (Or.inl ⟨r, dO, hph.trans h1, by rw [hs.input]; exact h2, h3, h4, h5, h6, hm.trans h7,
      by rw [hs.wlog]; exact h8, h9, h10, h11, h12, by rw [hs.input]; exact h13, hQ.up _ _ (fun _ hx => hs.mem hx) h14,
      hs.ben h15, hstop.trans h16, hs.ev1 h17, hsc.trans h18⟩))
  · exact Or.inr (Or.inr (Or.inr ⟨s1, s2, hsp, hQ.up _ _ (fun _ hx => hs.mem hx) hq, h.cong hph hsc hstop hm hs⟩))

/-- **One poll** with the handler in its rounds: suspended in a `fill_buf`, or the handler returns and
`close` runs `record_boundary()`. -/
theorem hb2_pollNF {g : Cfg} {n k : Nat} (ok : BR3OKN g n k) {c : Conn} (h : HB2N g k c) :
    R3bN g k (Q2 g k) 4 c := by
  obtain ⟨r, n', handed, dO, shown, hph, hs, hpos, hsh, hevs, hwr, hl0, hb, hstop, hev, hsc⟩ := h
  have hK := ok.kok
  have hfuel := handlerFuel_ge c.env r
  have hcost : 2 * n' + 1 ≤ scriptOf c := by
    rw [scriptOf_handler hph, scriptCost_fresh]
    have := rounds_cost n' k
    simp only [List.map_append, List.sum_append, List.map_cons, List.sum_cons, opCost, List.map_nil, List.sum_nil]
    omega
  have hRwf : ∀ r ∈ g.R, r.WF := fun r hr => (ok.str r hr).1
  rcases rounds_runL hK (L := g.L1) (P := []) hRwf k [.ret g.st] [] true n'
      ((handlerFuel c.env r + scriptOf c)) r c.env handed dO shown (by omega) hb hs hpos hsh hevs hl0 with
    ⟨n2, r', e', handed', dO', shown', a0, a1, a2, a3, a4, a5, a6, a7, a8, a9, a10, a11⟩ |
    ⟨r', e', handed', dO', shown', f', b1, b2, b3, b4, b5, b6, b7, b8, b9, b10, b11⟩
  · have hstep := C07.handler_step c r _ hph
    rw [a1] at hstep
    have hstep' : stepConn c = .halt ⟨.handler r' { ops := rounds n2 k ++ [.ret g.st], propagate := true },
        e', c.scripts, c.stop⟩ .pending := hstep
    exact Or.inl (Or.inl ⟨_, (Halts.now hstep').mono (by omega), ⟨a7.w, a6, rfl⟩,
      Or.inr (Or.inl ⟨r', n2, handed', dO', shown', rfl, a2, a3, a4, a5, a10 hwr, a11, hb.step a7, hstop,
        hev.step a7, hsc⟩), a8, a9⟩)
  · -- the handler returns
    obtain ⟨f2, rfl⟩ : ∃ f2, f' = f2 + 1 := ⟨f' - 1, by omega⟩
    rw [hp_ret] at b1
    have hstep := C07.handler_step c r _ hph
    rw [b1] at hstep
    have hstep' : stepConn c =
        .next ⟨.closing r' .start g.st 0, e'.ev s!"HE(ok:{showStatus g.st})", c.scripts, c.stop⟩ := hstep
    have hts2 : TStep c.env.tr (e'.tr.ev s!"HE(ok:{showStatus g.st})") :=
      b8.trans (TStep.ev _ (by simp [isHS, toString_str]))
    have hpre : handed' <+: g.content := (List.prefix_append _ _).trans (BSt.prefix hK b3)
    obtain ⟨⟨G, hi⟩, _, _, ⟨O1, l1, l2⟩⟩ := b3
    have hq : Q2 g k (e'.tr.ev s!"HE(ok:{showStatus g.st})") :=
      ⟨shown', by rw [← b5]; exact hpre, fun s hx => List.mem_append_left _ (b6 s hx)⟩
    have hcore := pclose_start3NF ok (q2_mono g k)
      (c := ⟨.closing r' .start g.st 0, e'.ev s!"HE(ok:{showStatus g.st})", c.scripts, c.stop⟩) rfl
      (G := G) (dO := dO') hi b4 b10 (b9 hwr) b11 ⟨O1, l1, by rw [l2]; rfl⟩ hq (hb.step hts2) hstop (hev.step hts2) hsc
    exact (GRes3.of_steps (Steps.one hstep') ⟨hts2.w, b7, rfl⟩ hcore).mono (by omega)

/-- the first poll of the handler -/
theorem bufread3_firstNF {g : Cfg} {n k : Nat} (ok : BR3OKN g n k) (c : Conn) (hc : FirstCfg g c) :
    R3bN g k (Q2 g k) 6 c := by
  obtain ⟨e1, hph, hlen, hwire, hlog, hm, hb, hstop, hev, hsc⟩ := hc
  have hrole : g.p.request.role = 1 := ok.role
  have hstart : C03SI.Start g.K.E (Str.Parser.fromParser g.cap g.p.request e1 g.mc) :=
    C03SI.start_fresh g.cap g.p.request e1 g.mc hlen ok.hid (Or.inl hrole)
  have hrinv : RInv g.K (AReq.new (Str.Parser.fromParser g.cap g.p.request e1 g.mc)) e1 c.env.tr.input [] [] := by
    refine ⟨hstart.mtch, hstart.inv, rfl, rfl, rfl, hwire, fun x => ?_⟩
    have := C03SI.rem_start hstart x
    show refWire g.K.E (e1 ++ x) = (Rem g.K.E (Str.Parser.fromParser g.cap g.p.request e1 g.mc) x).pre [] []
    rw [this]; rfl
  have hrst : RSt g.K g.L1 [] (AReq.new (Str.Parser.fromParser g.cap g.p.request e1 g.mc)) c.env.mutex c.env.tr [] [] :=
    ⟨⟨e1, hrinv⟩, by rw [hm]; exact lockInv_free rfl, Or.inl hm, ⟨[], by rw [hlog, List.append_nil], rfl⟩⟩
  have hwr : (AReq.new (Str.Parser.fromParser g.cap g.p.request e1 g.mc)).writeable = true := by
    simp [AReq.new, Str.Parser.fromParser, hrole, inputStreams]
  rw [ok.hs] at hph
  exact (hb2_pollNF ok ⟨_, n, [], [], [], hph, by
      show RStB g.K g.L1 [] _ c.env.mutex c.env.tr ([] ++ _) []
      exact .of hrst,
    ⟨[], [], g.R, rfl, rfl, by
      show e1 ++ c.env.tr.input = [] ++ ([] ++ serAll g.R)
      rw [hwire, ok.XR]; rfl, List.suffix_refl _⟩,
    rfl, (fun _ h => nomatch h), hwr, (fun _ => ⟨rfl, hm⟩), hb, hstop, hev, hsc⟩).mono (by omega)

theorem s3b_pollNF {g : Cfg} {n k : Nat} (ok : BR3OKN g n k) {c : Conn} (h : S3bN g k (Q2 g k) c) :
    R3bN g k (Q2 g k) (2 * c.env.tr.input.length + 15) c := by
  rcases h with h | h | ⟨r, dO, h1, h2, h3, h4, h5, h6, h7, h8, h9, h10, h11, h12, h13, h14, h15, h16, h17, h18⟩ |
    ⟨s1, s2, hsp, hq, h⟩
  · exact fstage_poll3 ok.fok (fun _ h => Or.inl h) (bufread3_firstNF ok) h
  · exact (hb2_pollNF ok h).mono (by omega)
  · exact (pbound_poll3NF ok (q2_mono g k) h1 h2 h3 h4 h5 h6 h7 h8 h9 h10 h11 h12 h13 h14 h15 h16 h17 h18).mono (by omega)
  · exact ((lstage_poll3 h).imp
      (fun c' hl x => Or.inr (Or.inr (Or.inr ⟨s1, s2, hsp, (q2_mono g k).up _ _ (fun _ hx => hl.ts.evm _ hx) hq, x⟩)))
      (fun c' hl x => ⟨s1, s2, hsp, (q2_mono g k).up _ _ (fun _ hx => hl.ts.evm _ hx) hq, x⟩)
      (fun c' hl x => ⟨s1, s2, hsp, (q2_mono g k).up _ _ (fun _ hx => hl.ts.evm _ hx) hq, x⟩)).mono (by omega)

/-- `run_bufread3` without the size hypothesis (`run_stages3'`). -/
theorem run_bufread3NF' {g : Cfg} {n k : Nat} (ok : BR3OKN g n k) {Z : Bytes}
    (hns : ∀ s1 s2, g.R = s1 ++ s2 → NoStuckW g.cap g.mc (serAll s2 ++ Z))
    (hNF : ∀ s1 s2, g.R = s1 ++ s2 → ∀ F x, F ++ x ++ Z = serAll s2 ++ Z → (run .header F g.mc).st.isFinal = false)
    (em : EndMode) (evs0 : List String) (c : Conn) (n0 fuel : Nat) (hst : FStage g c)
    (hem : c.env.tr.endMode = em) (hev0 : ∀ s ∈ evs0, s ∈ c.env.tr.events)
    (hsegs : c.env.segs = []) (hf : ans c.env.tr + 1 ≤ fuel) :
    ∃ c'' fin, runTask fuel c n0 none = (c'', fin) ∧
      (GEnd g.cap g.mc Z g.more (g.hs0 + 1)
          (fun i : List Rec × List Rec × List Bytes => g.R = i.1 ++ i.2.1 ∧ taken k i.2.2 <+: g.content ∧
            g.p.flags.toNat % 2 = 1)
          (fun i => serAll i.2.1 ++ Z) (fun i => (gC g i.1 i.2.1).LU)
          (fun i => hsEvent g.p.request :: i.2.2.map fEvent) em evs0 (ans c.env.tr) c'' fin ∨
       (fin = "RET" ∧ F3b g (Q2 g k) c'' ∧ c''.env.tr.endMode = em ∧ (∀ s ∈ evs0, s ∈ c''.env.tr.events))) :=
  run_stages3' (cap24 g) (fun i hi => hns i.1 i.2.1 hi.1) (fun i hi => hNF i.1 i.2.1 hi.1)
    (fun _ _ h => S3bN.cong (q2_mono g k) h)
    (fun _ h => (s3b_pollNF ok h).imp (fun _ _ h => h) (fun c1 _ h => by
      obtain ⟨s1, s2, hsp, ⟨shown, q1, q2⟩, haf⟩ := h
      obtain ⟨raw, hph, hw, hraw⟩ := haf.ph
      exact ⟨(s1, s2, shown), ⟨hsp, q1, haf.keep⟩,
        Or.inr ⟨raw, hph, by rw [hw]; rfl, hraw, haf.log, haf.ben, haf.stop⟩,
        ⟨haf.sc, haf.mtx, haf.ev.1, fun s hs => by
          rcases List.mem_cons.1 hs with rfl | hs
          · exact haf.ev.2
          · obtain ⟨x, hx, rfl⟩ := List.mem_map.1 hs
            exact q2 x hx⟩⟩) (fun _ _ h => h))
    em evs0 c n0 fuel (Or.inl hst) hem hev0 hsegs hf

end Fcgi.E2E
