import Fcgi.Proofs.E2EEcho
/-!
# The output gate of a Filter, end to end up to the moment the gate opens (C09)

A Filter whose handler does NOT read Stdin but awaits `writeable()` (`HOp.writeable`): `writeable()` selects the
last input stream (Data) and runs `poll_input(None)` until Data content is buffered or the Data stream has ended;
the Stdin records are passed over.  The handler script is `.writeable :: rest` with ANY `rest` (`open`, `write_all`,
… — whatever follows runs only once the gate is open).

* `gate_pi` — one `poll_input(None)` of `writeable()` (on `pollInput_sim_none`, `past_stdin`): `Pending` leaves the
  request not writeable, parked on a read with only owed replies written; `Ready` only in a state `GateAt`: the
  request is writeable, everything of the preamble and of the Stdin stream INCLUDING its terminating record has been
  taken from the transport (what is left in the transport lies inside the Data records), and the write log is
  `L1 ++` a prefix of the owed replies — no handler byte;
* stages `FStage` (the request's `parse_request`) and `WH` (handler suspended in `writeable()`), `gate_poll`;
* `run_to_gate` — the executor from the start of the connection to the poll in which the gate opens: every poll
  before it ends `Pending` in one of the two stages (the run with that many polls ends `"FUEL"` there), and in the
  gate poll the handler passes `.writeable` in a state `GateAt` and goes on with `rest`.

What happens AFTER the gate (the handler's records between the parser's replies) needs a write-log ledger that
`Proofs/E2EStr` does not have (see `Proofs/E2EEcho`); it is not covered here.
-/
namespace Fcgi.E2E
open Fcgi Fcgi.Req Fcgi.Str Fcgi.Async Fcgi.Run Fcgi.Spec Fcgi.C09E

/-- The hypotheses on the request: a Filter; Stdin and Data streams with any noise within the buffer bound. -/
structure GOK (g : Cfg) (rest : List HOp) : Prop where
  wf : WellFormedPreamble g.p g.recs
  role : g.p.role = 3
  pairs : ∀ q ∈ g.p.pairs, (NV.enc q).length ≤ alignedBufsize g.b
  noise : NoiseFits (alignedBufsize g.b) g.recs
  str : ∀ r ∈ g.R, StdinRec g.p.id r
  hf : NoiseFits (alignedBufsize g.b) g.body
  hb2 : Body g.p.id 8 g.content2 g.body2
  str2 : ∀ r ∈ g.R2, DataRec g.p.id r
  hf2 : NoiseFits (alignedBufsize g.b) g.body2
  hp2 : g.pad2.length < 256
  hX2 : g.X2 = serAll g.body2 ++ g.term2.ser
  hX : g.X = serAll g.body ++ (g.term.ser ++ g.X2)
  hs : g.hscript = .writeable :: rest

theorem GOK.fok {g : Cfg} {rest : List HOp} (ok : GOK g rest) : FOK g := ⟨ok.wf, ok.pairs, ok.noise⟩
theorem GOK.hid {g : Cfg} {rest : List HOp} (ok : GOK g rest) : g.p.id < 65536 := (pid_of_wf ok.wf).2

/-- the facts of `Proofs/E2EFilterConn` (stated for the script `[ret st]`) do not depend on the script -/
theorem GOK.fg {g : Cfg} {rest : List HOp} (ok : GOK g rest) : FGOK ({ g with hscript := [.ret g.st] } : Cfg) :=
  ⟨ok.wf, ok.role, ok.pairs, ok.noise, ok.str, ok.hf, ok.hb2, ok.str2, ok.hf2, ok.hp2, ok.hX2, ok.hX, rfl⟩

theorem GOK.kok {g : Cfg} {rest : List HOp} (ok : GOK g rest) : g.K8u.OK := by
  have h := ok.fg.kok
  exact h

theorem GOK.XR {g : Cfg} {rest : List HOp} (ok : GOK g rest) : g.X = serAll g.R ++ serAll g.R2 := by
  have h := ok.fg.XR
  exact h

/-- **the gate is open**: writeable; what the transport still holds lies inside the Data records; the log has only
owed replies -/
structure GateAt (g : Cfg) (r : AReq) (m : MutexSt) (t : Transport) : Prop where
  wr : r.writeable = true
  inp : t.input.length ≤ (serAll g.R2).length
  taken : ∃ G, G ++ t.input = g.X ∧ serAll g.R <+: G
  log : ∃ O1, t.wlog = g.L1 ++ O1 ∧ O1 <+: g.K8u.O
  mx : m = none
  lock : r.lock = .none

/-- one `poll_input(None)` of `writeable()` -/
theorem gate_pi {g : Cfg} {rest : List HOp} (ok : GOK g rest) {r1 : AReq} {m : MutexSt} {t : Transport} {dO : Bytes}
    (hs : RSt g.K8u g.L1 [] r1 m t [] dO) (hwr1 : r1.writeable = false)
    (hpos : Pos (g.R ++ g.R2) r1.sp.raw r1.sp.pay r1.sp.pad t.input) (hb : Ben t)
    {r' : AReq} {m' : MutexSt} {t' : Transport} {res : IRes}
    (hpi : r1.pollInput none m t = (r', m', t', res)) :
    TStep t t' ∧
    match res with
    | .pending => (∃ dO', RSt g.K8u g.L1 [] r' m' t' [] dO') ∧ r'.writeable = false ∧
        Pos (g.R ++ g.R2) r'.sp.raw r'.sp.pay r'.sp.pad t'.input ∧ t'.woken = true ∧ ans t' < ans t
    | .ready _ _ => GateAt g r' m' t'
    | .err _ => False
    | .panic _ => False := by
  have hK := ok.kok
  have hwfA : ∀ r ∈ g.R ++ g.R2, r.WF := by
    intro r hr
    rcases List.mem_append.1 hr with hr | hr
    · exact (ok.str r hr).1
    · exact (ok.str2 r hr).1
  obtain ⟨hts, hpost⟩ := pollInput_sim_none hK hb hs hpi
  refine ⟨hts, ?_⟩
  have hpar1 : r1.sp.parsed = [] := by obtain ⟨G, hi⟩ := hs.inv; exact hi.par
  have hpos' : (∀ s, res ≠ .panic s) → Pos (g.R ++ g.R2) r'.sp.raw r'.sp.pay r'.sp.pad t'.input :=
    pollInput_pos_none hwfA hb hs.lk hs.mx hpar1 hpos hpi
  have hainv : AInv r1 := by
    obtain ⟨⟨G, hi⟩, _⟩ := hs
    exact ⟨hi.sinv, by rw [hi.capK]; exact cap24 g⟩
  have hpo := (Async.pollInput_spec hainv hs.lk hpi).2.1
  cases res with
  | pending =>
    obtain ⟨hs', hwk, hans⟩ := hpost
    refine ⟨hs', ?_, hpos' (fun s hx => nomatch hx), hwk, hans⟩
    cases hw : r'.writeable with
    | false => rfl
    | true =>
      rcases hpo.wset hw with h | ⟨_, k, d, hx⟩
      · rw [hwr1] at h; cases h
      · cases hx
  | err x => exact hpost.elim
  | panic x => exact hpost.elim
  | ready k d =>
    obtain ⟨_, hk', dO', hsB, hlk, hm', hposk, hfin⟩ := hpost
    obtain ⟨⟨G, hiB⟩, _, _, ⟨O1, hl1, hl2⟩⟩ := hsB
    have hXR : g.K8u.X = serAll g.R ++ serAll g.R2 := ok.XR
    have hwire : G ++ t'.input = serAll g.R ++ serAll g.R2 := by rw [← hXR]; exact hiB.wire
    have hO1 : O1 <+: g.K8u.O := by
      have h2 := (hiB.now hK).2.1
      rw [h2]
      exact ⟨r'.sp.output ++ (Rem g.K8u.E r'.sp t'.input).out, by rw [← List.append_assoc, hl2]; simp⟩
    have hGd : serAll g.R <+: G := by
      by_cases hpar : r'.sp.parsed = []
      · -- the Data stream has ended without content: only its terminator is left
        have hk0 : k = 0 := by rw [hk', hpar]; rfl
        obtain ⟨_, _, _, _, hwU⟩ : AtEnd g.K8u r' t' ([] ++ r'.sp.parsed) dO' := by
          rcases hposk with hp | hp
          · omega
          · exact hp
        have hU : g.K8u.U = g.term2.ser := rfl
        have hle : t'.input.length ≤ (serAll g.R2).length := by
          have h1 := congrArg List.length hwU
          rw [hU] at h1
          have h2 : (serAll g.R2).length = (serAll g.body2).length + g.term2.ser.length := by
            rw [Cfg.R2, C02.serAll_append, C02.serAll_single, List.length_append]
          simp only [List.length_append] at h1
          omega
        have hGp : G <+: serAll g.R ++ serAll g.R2 := ⟨_, hwire⟩
        rcases List.prefix_or_prefix_of_prefix hGp (List.prefix_append _ _) with h | h
        · have h1 := h.length_le
          have h2 := congrArg List.length hwire
          simp only [List.length_append] at h2
          have : G = serAll g.R := h.eq_of_length (by omega)
          rw [this]; exact List.prefix_refl _
        · exact h
      · have hd : ([] ++ r'.sp.parsed : Bytes) ≠ [] := by simpa using hpar
        obtain ⟨Gd, hG⟩ := past_stdin (mc := g.mc) ok.str rfl hXR hiB hd
        exact ⟨Gd, hG.symm⟩
    have hinp : t'.input.length ≤ (serAll g.R2).length := by
      obtain ⟨Gd, hG⟩ := hGd
      have h2 := congrArg List.length hwire
      rw [← hG] at h2
      simp only [List.length_append] at h2
      omega
    exact ⟨hfin rfl, hinp, ⟨G, by rw [ok.XR]; exact hwire, hGd⟩, ⟨O1, hl1, hO1⟩, hm', hlk⟩

/-! ## `writeable()` in the handler -/

/-- what `writeable()` makes of the result of its `poll_input(None)` -/
def wmap (x : AReq × MutexSt × Transport × IRes) : AReq × Bool × MutexSt × Transport × ORes :=
  match x with
  | (r, m, t, .ready _ _) => (r, true, m, t, .ready)
  | (r, m, t, .pending) => (r, true, m, t, .pending)
  | (r, m, t, .err e) => (r, true, m, t, .err e)
  | (r, m, t, .panic s) => (r, true, m, t, .panic s)

theorem wp_first (r : AReq) (m : MutexSt) (t : Transport) (hwr : r.writeable = false) {sp8 : Str.Parser}
    (hset : r.sp.setStream (inputStreams r.sp.request.role).getLast? = .ok sp8) :
    r.writeablePoll false m t = wmap (({ r with sp := sp8 } : AReq).pollInput none m t) := by
  rcases h : ({ r with sp := sp8 } : AReq).pollInput none m t with ⟨r', m', t', res⟩
  have h' : ({ sp := sp8, lock := r.lock, writeable := false } : AReq).pollInput none m t = (r', m', t', res) := by
    rw [← hwr]; exact h
  cases res <;> simp [AReq.writeablePoll, hwr, hset, h', wmap]

theorem wp_resume (r : AReq) (m : MutexSt) (t : Transport) :
    r.writeablePoll true m t = wmap (r.pollInput none m t) := by
  rcases h : r.pollInput none m t with ⟨r', m', t', res⟩
  cases res <;> simp [AReq.writeablePoll, h, wmap]

theorem hp_writeable_pending {fuel : Nat} {r : AReq} {rest : List HOp} {sub : HSub} {ws : List (Option Writer)}
    {pr : Bool} {e : Run.Env} {r' : AReq} {b : Bool} {m : MutexSt} {t : Transport}
    (h : r.writeablePoll (sub == .writeableStarted) e.mutex e.tr = (r', b, m, t, .pending)) :
    handlerPoll (fuel + 1) r { ops := .writeable :: rest, sub := sub, writers := ws, propagate := pr } e =
      (r', { ops := .writeable :: rest, sub := .writeableStarted, writers := ws, propagate := pr },
        { e with mutex := m, tr := t }, .pending) := by
  simp only [handlerPoll, h]

theorem hp_writeable_ready {fuel : Nat} {r : AReq} {rest : List HOp} {sub : HSub} {ws : List (Option Writer)}
    {pr : Bool} {e : Run.Env} {r' : AReq} {b : Bool} {m : MutexSt} {t : Transport}
    (h : r.writeablePoll (sub == .writeableStarted) e.mutex e.tr = (r', b, m, t, .ready)) :
    handlerPoll (fuel + 1) r { ops := .writeable :: rest, sub := sub, writers := ws, propagate := pr } e =
      handlerPoll fuel r' { ops := rest, sub := .fresh, writers := ws, propagate := pr }
        (({ e with mutex := m, tr := t } : Run.Env).ev "w=ok") := by
  simp only [handlerPoll, h]

/-! ## Stages -/

/-- the handler suspended in `writeable()`: not writeable, no writer, only owed replies in the log -/
def WH (g : Cfg) (rest : List HOp) (c : Conn) : Prop :=
  ∃ r dO, c.phase = .handler r { ops := .writeable :: rest, sub := .writeableStarted, writers := [], propagate := true } ∧
    RSt g.K8u g.L1 [] r c.env.mutex c.env.tr [] dO ∧ r.writeable = false ∧
    Pos (g.R ++ g.R2) r.sp.raw r.sp.pay r.sp.pad c.env.tr.input ∧
    Ben c.env.tr ∧ c.stop = false ∧ Ev1 g c.env.tr ∧ c.scripts = g.more

/-- before the gate: the request's `parse_request`, or the handler suspended in `writeable()` -/
def SGate (g : Cfg) (rest : List HOp) (c : Conn) : Prop := FStage g c ∨ WH g rest c

theorem SGate.cong {g : Cfg} {rest : List HOp} (c c' : Conn) (h : SGate g rest c)
    (hph : c'.phase = c.phase) (hsc : c'.scripts = c.scripts) (hstop : c'.stop = c.stop)
    (hm : c'.env.mutex = c.env.mutex) (hs : TrSame c.env.tr c'.env.tr) : SGate g rest c' := by
  rcases h with h | ⟨r, dO, h1, h2, h3, h4, h5, h6, h7, h8⟩
  · exact Or.inl (h.cong hph hsc hstop hm hs)
  · exact Or.inr ⟨r, dO, hph.trans h1, h2.cong hm hs, h3, by rw [hs.input]; exact h4, hs.ben h5, hstop.trans h6,
      hs.ev1 h7, hsc.trans h8⟩

/-- the handler passes `.writeable` in this poll, in a state `GateAt`, and goes on with `rest` -/
def GateNow (g : Cfg) (rest : List HOp) (c : Conn) : Prop :=
  ∃ (r0 : AReq) (h0 : HState) (r' : AReq) (e' : Run.Env) (f : Nat), c.phase = .handler r0 h0 ∧ h0.writers = [] ∧
    handlerPoll (handlerFuel c.env r0 + scriptOf c) r0 h0 c.env =
      handlerPoll f r' { ops := rest, sub := .fresh, writers := [], propagate := true } (e'.ev "w=ok") ∧
    GateAt g r' e'.mutex e'.tr ∧ TStep c.env.tr e'.tr ∧ c.scripts = g.more ∧ Ev1 g c.env.tr

/-- … possibly after the phase transitions that end `parse_request` and start the handler -/
def GatePoll (g : Cfg) (rest : List HOp) (c : Conn) : Prop :=
  ∃ k c1, Steps k c c1 ∧ Link c c1 ∧ GateNow g rest c1

/-- one poll of the handler in (or starting) `writeable()` -/
theorem wh_core {g : Cfg} {rest : List HOp} (ok : GOK g rest) {c : Conn} {r0 r1 : AReq} {sub : HSub} {dO : Bytes}
    (hph : c.phase = .handler r0 { ops := .writeable :: rest, sub := sub, writers := [], propagate := true })
    (hwp : r0.writeablePoll (sub == .writeableStarted) c.env.mutex c.env.tr =
      wmap (r1.pollInput none c.env.mutex c.env.tr))
    (hs : RSt g.K8u g.L1 [] r1 c.env.mutex c.env.tr [] dO) (hwr1 : r1.writeable = false)
    (hpos : Pos (g.R ++ g.R2) r1.sp.raw r1.sp.pay r1.sp.pad c.env.tr.input)
    (hb : Ben c.env.tr) (hstop : c.stop = false) (hev : Ev1 g c.env.tr) (hsc : c.scripts = g.more) :
    (∃ c', Halts 1 c c' .pending ∧ Link c c' ∧ WH g rest c' ∧ c'.env.tr.woken = true ∧ ans c'.env.tr < ans c.env.tr) ∨
    GateNow g rest c := by
  rcases hpi : r1.pollInput none c.env.mutex c.env.tr with ⟨r', m', t', res⟩
  obtain ⟨hts, hpost⟩ := gate_pi ok hs hwr1 hpos hb hpi
  rw [hpi] at hwp
  have hfuel := handlerFuel_ge c.env r0
  obtain ⟨f, hf⟩ : ∃ f, handlerFuel c.env r0 + scriptOf c = f + 1 := ⟨handlerFuel c.env r0 + scriptOf c - 1, by omega⟩
  cases res with
  | pending =>
    obtain ⟨⟨dO', hs'⟩, hw', hpos', hwk, hans⟩ := hpost
    left
    have hstep := C07.handler_step c r0 _ hph
    rw [hf, hp_writeable_pending (by rw [hwp]; rfl)] at hstep
    have hstep' : stepConn c = .halt ⟨.handler r' ⟨.writeable :: rest, .writeableStarted, [], true⟩,
        ⟨t', m', c.env.segs⟩, c.scripts, c.stop⟩ .pending := hstep
    exact ⟨_, Halts.now hstep', ⟨hts.w, rfl, rfl⟩,
      ⟨r', dO', rfl, hs', hw', hpos', hb.step hts, hstop, hev.step hts, hsc⟩, hwk, hans⟩
  | err x => exact hpost.elim
  | panic x => exact hpost.elim
  | ready k d =>
    right
    refine ⟨r0, _, r', ⟨t', m', c.env.segs⟩, f, hph, rfl, ?_, hpost, hts, hsc, hev⟩
    rw [hf, hp_writeable_ready (by rw [hwp]; rfl)]

theorem wh_poll {g : Cfg} {rest : List HOp} (ok : GOK g rest) {c : Conn} (h : WH g rest c) :
    (∃ c', Halts 1 c c' .pending ∧ Link c c' ∧ WH g rest c' ∧ c'.env.tr.woken = true ∧ ans c'.env.tr < ans c.env.tr) ∨
    GateNow g rest c := by
  obtain ⟨r, dO, hph, hs, hwr, hpos, hb, hstop, hev, hsc⟩ := h
  exact wh_core ok hph (by rw [show ((HSub.writeableStarted == HSub.writeableStarted) = true) from rfl]; exact wp_resume _ _ _)
    hs hwr hpos hb hstop hev hsc

/-- the first poll of the handler -/
theorem gate_first {g : Cfg} {rest : List HOp} (ok : GOK g rest) (c : Conn) (hc : FirstCfg g c) :
    (∃ c', Halts 1 c c' .pending ∧ Link c c' ∧ WH g rest c' ∧ c'.env.tr.woken = true ∧ ans c'.env.tr < ans c.env.tr) ∨
    GateNow g rest c := by
  obtain ⟨e1, hph, hlen, hwire, hlog, hm, hb, hstop, hev, hsc⟩ := hc
  have hrole : g.p.request.role = 3 := ok.role
  rw [ok.hs] at hph
  have hwr : (AReq.new (Str.Parser.fromParser g.cap g.p.request e1 g.mc)).writeable = false := by
    simp [AReq.new, Str.Parser.fromParser, hrole, inputStreams]
  have hstrm : (Str.Parser.fromParser g.cap g.p.request e1 g.mc).stream = some 5 := by
    simp [Str.Parser.fromParser, hrole, nextInputStream, RT.stdin]
  have hset : (Str.Parser.fromParser g.cap g.p.request e1 g.mc).setStream
      (inputStreams (Str.Parser.fromParser g.cap g.p.request e1 g.mc).request.role).getLast? =
      .ok ((Str.Parser.fromParser g.cap g.p.request e1 g.mc).switchTo (some 8)) := by
    have e : (inputStreams (Str.Parser.fromParser g.cap g.p.request e1 g.mc).request.role).getLast? = some 8 := by
      show (inputStreams g.p.request.role).getLast? = some 8
      rw [hrole]; rfl
    rw [e, setStream_some_input _ (by decide) (by intro e he; rw [hstrm] at he; cases he; decide), hstrm]
    have hl : Later (Str.Parser.fromParser g.cap g.p.request e1 g.mc).request.role (some 5) 8 := by
      show Later g.p.request.role (some 5) 8
      rw [hrole]; exact later358
    simp [hl]
  have hsinv0 := Str.SInv_fromParser g.cap g.p.request e1 g.mc hlen ok.hid
  have hri : RInv g.K8u
      ({ AReq.new (Str.Parser.fromParser g.cap g.p.request e1 g.mc) with
        sp := (Str.Parser.fromParser g.cap g.p.request e1 g.mc).switchTo (some 8) } : AReq)
      e1 c.env.tr.input [] [] := by
    refine ⟨⟨rfl, hrole, rfl, rfl, by show 8 ∈ inputStreams 3; decide⟩,
      SInv_switchTo hsinv0 (Or.inr ⟨8, rfl, by show 8 ∈ inputStreams g.p.request.role; rw [hrole]; decide⟩),
      rfl, rfl, rfl, hwire, fun x => ?_⟩
    rw [RefOut.pre_nil]
    exact (ref_eq_refWire _ _ _).symm
  exact wh_core ok (sub := .fresh) (dO := []) hph
    (by rw [show ((HSub.fresh == HSub.writeableStarted) = false) from rfl]; exact wp_first _ _ _ hwr hset)
    ⟨⟨e1, hri⟩, by show LockInv _ c.env.mutex; rw [hm]; exact lockInv_free rfl, Or.inl hm,
      ⟨[], by show c.env.tr.wlog = _; rw [hlog, List.append_nil], rfl⟩⟩
    hwr
    ⟨[], [], g.R ++ g.R2, rfl, rfl, by
      show e1 ++ c.env.tr.input = [] ++ ([] ++ serAll (g.R ++ g.R2))
      rw [hwire, ok.XR, C02.serAll_append]; rfl, List.suffix_refl _⟩
    hb hstop hev hsc

/-- **One poll before the gate.** -/
theorem gate_poll {g : Cfg} {rest : List HOp} (ok : GOK g rest) {c : Conn} (h : SGate g rest c) :
    (∃ c', Halts (2 * c.env.tr.input.length + 15) c c' .pending ∧ Link c c' ∧ SGate g rest c' ∧
      c'.env.tr.woken = true ∧ ans c'.env.tr < ans c.env.tr) ∨ GatePoll g rest c := by
  rcases h with h | h
  · rcases fstage_first ok.fok h with ⟨c', hh, hl, hS', hw, ha⟩ | ⟨k, c1, hk, hs, hl, hf⟩
    · exact Or.inl ⟨c', hh.mono (by omega), hl, Or.inl hS', hw, ha⟩
    · rcases gate_first ok c1 hf with ⟨c', hh, hl2, hS', hw, ha⟩ | hg
      · exact Or.inl ⟨c', (hh.of_steps hs).mono (by omega), hl.trans hl2, Or.inr hS', hw, by
          have := hl.ts.ans_le; omega⟩
      · exact Or.inr ⟨k, c1, hs, hl, hg⟩
  · rcases wh_poll ok h with ⟨c', hh, hl, hS', hw, ha⟩ | hg
    · exact Or.inl ⟨c', hh.mono (by omega), hl, Or.inr hS', hw, ha⟩
    · exact Or.inr ⟨0, c, .refl _, .refl _, hg⟩

/-- **The run up to the gate.**  From a stage before the gate: some number `k` of polls end `Pending` in a stage
before the gate (the run with `j ≤ k` polls ends `"FUEL"` in such a stage), and the next poll is the gate poll. -/
theorem run_to_gate {g : Cfg} {rest : List HOp} (ok : GOK g rest) :
    ∀ (A : Nat) (c : Conn) (n : Nat), SGate g rest c → c.env.segs = [] → ans c.env.tr ≤ A →
      ∃ k, k ≤ A ∧ (∀ j, j ≤ k → ∃ cj, runTask j c n none = (cj, "FUEL") ∧ SGate g rest cj ∧ cj.env.segs = []) ∧
        ∃ ck, runTask k c n none = (ck, "FUEL") ∧ GatePoll g rest (prePoll ck (n + k) none) := by
  intro A
  induction A with
  | zero =>
    intro c n hS hsegs hA
    obtain ⟨hsame, hph, hsc, hstop, hmx, hsg, hwk⟩ := prePoll_same c n hsegs
    have hans0 : ans (prePoll c n none).env.tr = ans c.env.tr := by unfold ans; rw [hsame.rd, hsame.wr]
    rcases gate_poll ok (SGate.cong _ _ hS hph hsc hstop hmx hsame) with ⟨c', _, _, _, _, ha⟩ | hg
    · omega
    · exact ⟨0, Nat.le_refl _, fun j hj => ⟨c, by rw [Nat.le_zero.1 hj]; rfl, hS, hsegs⟩, c, rfl, hg⟩
  | succ A ih =>
    intro c n hS hsegs hA
    obtain ⟨hsame, hph, hsc, hstop, hmx, hsg, hwk⟩ := prePoll_same c n hsegs
    have hans0 : ans (prePoll c n none).env.tr = ans c.env.tr := by unfold ans; rw [hsame.rd, hsame.wr]
    rcases gate_poll ok (SGate.cong _ _ hS hph hsc hstop hmx hsame) with ⟨c', hh, hl, hS', hw, ha⟩ | hg
    · have hpoll' := hh.pollB (by omega)
      have hsg' : c'.env.segs = [] := hl.segs.trans hsg
      obtain ⟨k, hk, hall, ck, hrun, hgp⟩ := ih c' (n + 1) hS' hsg' (by omega)
      have hstep : ∀ j, runTask (j + 1) c n none = runTask j c' (n + 1) none := by
        intro j
        rw [runTask_succ, hpoll']
        simp only [hw, if_true]
      refine ⟨k + 1, by omega, fun j hj => ?_, ck, by rw [hstep]; exact hrun, by
        rw [show n + (k + 1) = n + 1 + k by omega]; exact hgp⟩
      cases j with
      | zero => exact ⟨c, rfl, hS, hsegs⟩
      | succ j => rw [hstep]; exact hall j (by omega)
    · exact ⟨0, Nat.zero_le _, fun j hj => ⟨c, by rw [Nat.le_zero.1 hj]; rfl, hS, hsegs⟩, c, rfl, hg⟩

end Fcgi.E2E
