import Fcgi.Proofs.StrDecomp
/-!
# The replies of the stream-parser reference, record by record (C04, stream half, any input)

`(refWire E w).out` spelled out: one `Spec.owed` per record in front of the stop position, in record
order, then what the unfinished tail contributes.
-/
namespace Fcgi.Str
open Fcgi Fcgi.Req Fcgi.Spec

/-- Number of records in front of the stop position. -/
def Stop.idx : Stop → Nat → Nat
  | .ranOut, n => n
  | .endOfStream k, _ => k
  | .abort k, _ => k

theorem Stop.idx_succ (s : Stop) (n : Nat) : s.succ.idx (n + 1) = s.idx n + 1 := by
  cases s <;> rfl

/-- Records of an input-stream type are never owed a reply. -/
theorem owed_input (cur : Option Nat) (mc : Nat) {r : Rec}
    (h : RT.isInputStream r.rtype.toNat = true) : owed cur mc r = [] := by
  simp only [RT.isInputStream, Bool.or_eq_true, beq_iff_eq] at h
  unfold owed
  rcases h with h | h <;> simp [h, RT.valid, RT.getValues, RT.beginRequest]

theorem rclass_data_input {E : Cfg} {r : Rec} (h : rclass E r = .data) :
    RT.isInputStream r.rtype.toNat = true := by
  unfold rclass at h
  split at h
  · rename_i hc; exact hc.1
  · split at h <;> cases h

/-- **The replies of `refRun`**: for each record in front of the stop position, in order, exactly
what the specification owes for it (`Spec.owed`, relative to the request in progress); nothing for
the stopping record and what follows. -/
theorem refRun_out (E : Cfg) (rs : List Rec) :
    (refRun E rs).out =
      (rs.take ((refRun E rs).stop.idx rs.length)).flatMap (owed (some E.id) E.mc) := by
  induction rs with
  | nil => rfl
  | cons r rs ih =>
    simp only [refRun]
    cases hcl : rclass E r with
    | data =>
      simp only [List.length_cons, Stop.idx_succ, List.take_succ_cons, List.flatMap_cons,
        owed_input (some E.id) E.mc (rclass_data_input hcl), List.nil_append]
      exact ih
    | noise =>
      simp only [List.length_cons, Stop.idx_succ, List.take_succ_cons, List.flatMap_cons]
      rw [ih]
    | endStream => rfl
    | abort => rfl

/-- The stream content of `refRun`: the contents of the `data` records in front of the stop
position, concatenated. -/
theorem refRun_content (E : Cfg) (rs : List Rec) :
    (refRun E rs).content =
      (rs.take ((refRun E rs).stop.idx rs.length)).flatMap
        (fun r => if rclass E r = .data then r.content else []) := by
  induction rs with
  | nil => rfl
  | cons r rs ih =>
    simp only [refRun]
    cases hcl : rclass E r with
    | data =>
      simp only [List.length_cons, Stop.idx_succ, List.take_succ_cons, List.flatMap_cons, hcl,
        if_true]
      rw [ih]
    | noise =>
      simp only [List.length_cons, Stop.idx_succ, List.take_succ_cons, List.flatMap_cons, hcl]
      simpa using ih
    | endStream => rfl
    | abort => rfl

/-- A header the parser passes over into a state other than `Stream`: state and header-triggered
reply are those of a noise record with this type and id. -/
theorem hclass_pass_noise {E : Cfg} {b0 b1 b2 b3 b4 b5 : UInt8} {st : SState} {o : Bytes}
    (h : hclass E b0 b1 b2 b3 b4 b5 = .pass st o) (hst : st ≠ .stream) (r : Rec)
    (ht : r.rtype = b1) (hid : r.id = be16 b2 b3) :
    st = noiseState r ∧ o = headOut E.id r := by
  unfold hclass at h
  unfold noiseState headOut
  rw [ht, hid]
  by_cases hv : b0.toNat ≠ 1
  · rw [if_pos hv] at h; cases h
  · rw [if_neg hv] at h
    by_cases hval : RT.valid b1.toNat = false
    · rw [if_pos hval] at h; cases h; simp [hval]
    · have hval' : RT.valid b1.toNat = true := by simpa using hval
      rw [if_neg hval] at h
      by_cases hin : RT.isInputStream b1.toNat = true ∧ be16 b2 b3 = E.id
      · rw [if_pos hin] at h
        have hi := hin.1
        simp only [RT.isInputStream, Bool.or_eq_true, beq_iff_eq] at hi
        have e1 : (b1.toNat == RT.getValues) = false := by
          simp only [RT.getValues, beq_eq_false_iff_ne]; omega
        have e2 : (b1.toNat == RT.beginRequest) = false := by
          simp only [RT.beginRequest, beq_eq_false_iff_ne]; omega
        repeat' (split at h)
        all_goals first
          | (cases h; done)
          | (cases h; exact absurd rfl hst)
          | (cases h; simp [hval', e1, e2])
      · rw [if_neg hin] at h
        by_cases hab : b1.toNat = RT.abortRequest ∧ be16 b2 b3 = E.id
        · rw [if_pos hab] at h; cases h
        · rw [if_neg hab] at h
          by_cases hbg : b1.toNat = RT.beginRequest ∧ be16 b2 b3 ≠ E.id
          · rw [if_pos hbg] at h; cases h
            simp [hbg.1, hbg.2, RT.beginRequest, RT.getValues, RT.valid]
          · rw [if_neg hbg] at h
            have h2 : (b1.toNat == RT.beginRequest && be16 b2 b3 != E.id) = false := by
              cases hb : b1.toNat == RT.beginRequest with
              | false => rfl
              | true =>
                simp only [beq_iff_eq] at hb
                simp only [Bool.true_and, bne_eq_false_iff_eq]
                exact Classical.byContradiction fun he => hbg ⟨hb, he⟩
            by_cases hgv : b1.toNat = RT.getValues ∧ be16 b2 b3 = 0
            · rw [if_pos hgv] at h; cases h
              simp [hgv.1, hgv.2, RT.getValues, RT.beginRequest, RT.valid]
            · rw [if_neg hgv] at h; cases h
              have h3 : (b1.toNat == RT.getValues && be16 b2 b3 == 0) = false := by
                cases hb : b1.toNat == RT.getValues with
                | false => rfl
                | true =>
                  simp only [beq_iff_eq] at hb
                  simp only [Bool.true_and, beq_eq_false_iff_ne, ne_eq]
                  exact fun he => hgv ⟨hb, he⟩
              simp [hval', h2, h3]

/-- **The replies of the unfinished tail.**  Fewer than 8 bytes, a foreign version, a header the
parser stops at, the header of a data record of the active stream: nothing.  Otherwise, with `r`
the record announced by the header (its content: the payload bytes that are there): as soon as the
header is there, the reply the header alone triggers (`UnknownType`, `EndRequest(CantMpxConn)`);
and once the whole body is there, everything owed for `r` (`Spec.owed`: the `GetValuesResult` in
addition). -/
theorem refTail_out (E : Cfg) (b0 b1 b2 b3 b4 b5 b6 b7 : UInt8) (rest : Bytes) :
    (refTail E (b0 :: b1 :: b2 :: b3 :: b4 :: b5 :: b6 :: b7 :: rest)).out =
      match hclass E b0 b1 b2 b3 b4 b5 with
      | .stop _ => []
      | .pass .stream _ => []
      | .pass _ _ =>
        if be16 b4 b5 ≤ rest.length then
          owed (some E.id) E.mc
            { rtype := b1, id := be16 b2 b3, content := rest.take (be16 b4 b5), pad := [], reserved := b7 }
        else headOut E.id
            { rtype := b1, id := be16 b2 b3, content := rest.take (be16 b4 b5), pad := [], reserved := b7 } := by
  simp only [refTail]
  cases hc : hclass E b0 b1 b2 b3 b4 b5 with
  | stop v => rfl
  | pass st o =>
    by_cases hst : st = .stream
    · subst hst
      have ho : o = [] := by
        unfold hclass at hc
        repeat' (split at hc)
        all_goals first
          | (cases hc; done)
          | (cases hc; rfl)
      subst ho
      simp only
      split <;> simp [stateO]
    · obtain ⟨e1, e2⟩ := hclass_pass_noise hc hst
        { rtype := b1, id := be16 b2 b3, content := rest.take (be16 b4 b5), pad := [], reserved := b7 }
        rfl rfl
      have hgoal : (if rest.length < be16 b4 b5 then
            (⟨stateC st rest, o, .more, partialRest st rest⟩ : RefOut)
          else ⟨stateC st (rest.take (be16 b4 b5)), o ++ stateO E.mc st (rest.take (be16 b4 b5)),
            .more, []⟩).out =
          if be16 b4 b5 ≤ rest.length then
            owed (some E.id) E.mc
              { rtype := b1, id := be16 b2 b3, content := rest.take (be16 b4 b5), pad := [], reserved := b7 }
          else headOut E.id
              { rtype := b1, id := be16 b2 b3, content := rest.take (be16 b4 b5), pad := [], reserved := b7 } := by
        by_cases hl : rest.length < be16 b4 b5
        · rw [if_pos hl, if_neg (by omega)]; exact e2
        · rw [if_neg hl, if_pos (by omega), owed_noise, ← e1, ← e2]
      cases st with
      | stream => exact absurd rfl hst
      | skip => exact hgoal
      | values v => exact hgoal

theorem refTail_out_short (E : Cfg) {tail : Bytes} (h : tail.length < 8) :
    (refTail E tail).out = [] := by
  unfold refTail
  split
  · simp only [List.length_cons] at h; omega
  · rfl

/-- **`(refWire E w).out`, spelled out** — with `(rs, tail)` the decomposition of `w` and `k` the
stop position of `refRun`: `Spec.owed` of each of the first `k` records, in order, followed —
only if no record stops the parser — by the replies of the tail. -/
theorem refWire_out (E : Cfg) (w : Bytes) :
    (refWire E w).out =
      ((decomp w).1.take ((refRun E (decomp w).1).stop.idx (decomp w).1.length)).flatMap
          (owed (some E.id) E.mc) ++
        (match (refRun E (decomp w).1).stop with
         | .ranOut => (refTail E (decomp w).2).out
         | _ => []) := by
  have h := refWire_cases E w
  rw [← refRun_out]
  cases hst : (refRun E (decomp w).1).stop with
  | ranOut => rw [hst] at h; simp only at h ⊢; rw [h]; rfl
  | endOfStream k => rw [hst] at h; simp only at h ⊢; rw [h]; simp
  | abort k => rw [hst] at h; simp only at h ⊢; rw [h]; simp

end Fcgi.Str
