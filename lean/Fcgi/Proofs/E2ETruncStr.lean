import Fcgi.Proofs.E2ETrunc

/-!
# C12 end to end, part 2: the input ends inside a stream the handler reads

`RCtx.Cut K`: the reference on the wire `K.X` of the stream says "more input needed" — the wire ends
before the stream's end mark.  `K.C` is the stream content the wire carries (whole data records and
the part of a cut one), `K.O` the replies owed for the noise records whose bytes are complete enough
to be answered, `K.U` the bytes of the last, incomplete record the parser cannot use.

`parse_rinvT` / `inLoop_simT` / `pollInput_simT` / `readAll_runT`: the read side of `E2EStr` for
such a wire on a transport that then reports end-of-file: a `poll_input` delivers the next piece of
`K.C`, or ends on a transient `Pending`, or — when the transport says `Ok(0)` — fails with
`UnexpectedEof`; then everything of `K.C` has been delivered, every reply of `K.O` has been written.
It never reports a clean end of the stream (`Ready(0)`).
-/
namespace Fcgi.C12E
open Fcgi Fcgi.Req Fcgi.Str Fcgi.Async Fcgi.Run Fcgi.Spec Fcgi.E2E

structure _root_.Fcgi.E2E.RCtx.Cut (K : RCtx) : Prop where
  ref : refWire K.E K.X = ⟨K.C, K.O, .more, K.U⟩
  /-- no prefix of the wire leaves an incomplete `GetValues` pair that fills the buffer -/
  fits : ∀ G, G <+: K.X → (refWire K.E G).verdict = .more → (refWire K.E G).unread.length < K.cap
  cap8 : 8 ≤ K.cap

theorem nowT {K : RCtx} (hK : K.Cut) {r : AReq} {G fut dC dO : Bytes} (h : RInv K r G fut dC dO) :
    K.C = dC ++ (Rem K.E r.sp fut).content ∧ K.O = dO ++ (Rem K.E r.sp fut).out ∧
    (Rem K.E r.sp fut).verdict = .more ∧ (Rem K.E r.sp fut).unread = K.U := by
  have := h.hist fut
  rw [h.wire, hK.ref] at this
  have h1 := congrArg RefOut.content this
  have h2 := congrArg RefOut.out this
  have h3 := congrArg RefOut.verdict this
  have h4 := congrArg RefOut.unread this
  simp only [RefOut.pre_content, RefOut.pre_out, RefOut.pre_verdict, RefOut.pre_unread] at h1 h2 h3 h4
  exact ⟨h1, h2, h3.symm, h4.symm⟩

/-- One `parse` call of the read loop on a cut stream: it never fails and never reports the end of
the stream. -/
theorem parse_rinvT {K : RCtx} (hK : K.Cut) {r : AReq} {G new fut dC dO : Bytes} {n : Nat} (hn : 0 < n)
    (hi : RInv K r G (new ++ fut) dC dO) (hfree : new.length ≤ r.sp.free) :
    ∃ p' st o, r.sp.parse new (some n) = (p', .ok st) ∧ st.stream = st.delivered.length ∧ st.stream ≤ n ∧
      st.streamEnd = false ∧ p'.output = r.sp.output ++ o ∧
      RInv K { r with sp := p' } (G ++ new) fut (dC ++ st.delivered) (dO ++ o) ∧
      (st.stream < n → Idle p') ∧
      (st.stream = 0 → p'.raw.length < K.cap ∧ (fut = [] → dC ++ st.delivered = K.C ∧ dO ++ o = K.O)) := by
  have hpt := C03S.parse_total r.sp new (some n) hi.sinv (Or.inr hi.par) hfree
  have hri : ∀ x, ∃ lost, _ := fun x =>
    parse_ri (E := K.E) (fut := x) (p := r.sp) (new := new) (dest := some n) hi.mt hi.sinv (Or.inr hi.par) hfree
  have hnow := nowT hK hi
  cases hp : r.sp.parse new (some n) with
  | mk p' pr =>
    rw [hp] at hpt
    cases pr with
    | panic s => exact hpt.elim
    | err e =>
      exfalso
      obtain ⟨lost, _, _, _, hv, _, _, hm⟩ := hri fut
      rw [hp] at hv hm
      simp only at hv hm
      obtain ⟨a, b, c⟩ := hm
      rw [a, b, ref_atStop c] at hv
      have := hnow.2.2.1
      unfold Rem at this
      rw [← hv] at this
      cases this
    | ok st =>
      obtain ⟨hs', _, hcap', hreq', _, _, _⟩ := hpt
      have hc := (C03S.counts_exact hi.sinv.1 (Or.inr hi.par) hfree hp).2.2.1 n rfl
      obtain ⟨⟨o, ho, _⟩, _⟩ := C03S.counts_exact hi.sinv.1 (Or.inr hi.par) hfree hp
      have hog : C03S.outGrowth r.sp (.parse new (some n)) = o := by
        simp only [C03S.outGrowth, hp, ho, List.drop_left]
      have hav : availOp r.sp (.parse new (some n)) = st.delivered := by simp [availOp, hp]
      have hist' : ∀ x, refWire K.E ((G ++ new) ++ x) = (Rem K.E p' x).pre (dC ++ st.delivered) (dO ++ o) := by
        intro x
        obtain ⟨lost, _, h1, h2, h3, h4, _, hm⟩ := hri x
        rw [hp] at h1 h2 h3 h4 hm
        simp only at h1 h2 h3 h4 hm
        rw [hm.1, List.append_nil, hav] at h1
        rw [hog] at h2
        rw [List.append_assoc, hi.hist (new ++ x)]
        apply RefOut.ext'
        · simp only [RefOut.pre_content, Rem, List.append_assoc]; rw [← h1]
        · simp only [RefOut.pre_out, Rem, List.append_assoc]; rw [← h2]
        · simp only [RefOut.pre_verdict, Rem]; rw [h3]
        · simp only [RefOut.pre_unread, Rem]; rw [h4]
      have hmt' : Match K.E p' := by
        obtain ⟨_, hm', _⟩ := hri fut
        rw [hp] at hm'; exact hm'
      have hi' : RInv K { r with sp := p' } (G ++ new) fut (dC ++ st.delivered) (dO ++ o) :=
        ⟨hmt', hs', hreq'.trans hi.req, hcap'.trans hi.capK, hc.1,
          by rw [List.append_assoc]; exact hi.wire, hist'⟩
      have hse : st.streamEnd = false := by
        cases hse : st.streamEnd with
        | false => rfl
        | true =>
          exfalso
          obtain ⟨lost, _, _, _, _, _, _, hm⟩ := hri fut
          rw [hp] at hm
          obtain ⟨a, b, c⟩ := hm.2 hse
          have hnow' := nowT hK hi'
          simp only [Rem] at hnow'
          rw [a, b, ref_atStop c] at hnow'
          cases hnow'.2.2.1
      refine ⟨p', st, o, rfl, hc.2.2.1.symm, hc.2.2.2, hse, ho, hi', ?_, ?_⟩
      · intro h2
        exact parse_stall hi.sinv.1 hi.par hfree hp hse h2
      · intro h2
        have hidle : Idle p' := parse_stall hi.sinv.1 hi.par hfree hp hse (by omega)
        have h0 := hist' []
        rw [idle_ref K.E hidle, List.append_nil] at h0
        have hv : (refWire K.E (G ++ new)).verdict = .more := by rw [h0]; rfl
        have hu : (refWire K.E (G ++ new)).unread = p'.raw := by rw [h0]; rfl
        constructor
        · rw [← hu]
          exact hK.fits _ ⟨fut, by rw [List.append_assoc]; exact hi.wire⟩ hv
        · intro hf
          subst hf
          have hw := hi.wire
          rw [List.append_nil] at hw
          rw [hw, hK.ref] at h0
          have h1 := congrArg RefOut.content h0
          have h2 := congrArg RefOut.out h0
          simp only [RefOut.pre_content, RefOut.pre_out, List.append_nil] at h1 h2
          exact ⟨h1.symm, h2.symm⟩

/-! ## The read loop -/

/-- What `poll_input` returns to a `read` on a cut stream. -/
def ReadPostT (K : RCtx) (n : Nat) (L P dC : Bytes) (t : Transport) (r' : AReq) (m' : MutexSt)
    (t' : Transport) : IRes → Prop
  | .pending => (∃ dO', RSt K L P r' m' t' dC dO') ∧ t'.woken = true ∧ ans t' < ans t
  | .ready k d => k = d.length ∧ 0 < k ∧ ∃ dO', RSt K L P r' m' t' (dC ++ d) dO' ∧ r'.lock = .none ∧
      m' = none ∧ (k = n ∨ Idle r'.sp)
  | .err e => e = .unexpectedEof ∧ m' = none ∧ dC = K.C ∧ t'.input = [] ∧ t'.wlog = L ++ (P ++ K.O) ∧
      r'.lock = .none ∧ r'.sp.output = []
  | .panic _ => False

/-- **The read loop of `poll_input`** on a benign transport that ends with end-of-file, for a stream
whose wire is cut. -/
theorem inLoop_simT {K : RCtx} (hK : K.Cut) {n : Nat} (hn : 0 < n) {L P : Bytes} : ∀ (fuel : Nat) (r : AReq)
    (new : Bytes) (t : Transport) {dC dO : Bytes} {r' : AReq} {m' : MutexSt} {t' : Transport} {res : IRes},
    Ben t → t.endMode = .eof → (∃ G, RInv K r G (new ++ t.input) dC dO) → r.lock = .none → r.sp.output = [] →
    t.wlog = L ++ (P ++ dO) → new.length ≤ r.sp.free → t.input.length + 2 ≤ fuel →
    inLoop fuel r new (some n) none t = (r', m', t', res) →
    TStep t t' ∧ ReadPostT K n L P dC t r' m' t' res ∧
    (Idle r.sp → new = [] → ∀ k d, res = .ready k d → t'.input.length < t.input.length) := by
  intro fuel
  induction fuel with
  | zero => intro r new t dC dO r' m' t' res _ _ _ _ _ _ _ hf; omega
  | succ k ih =>
    intro r new t dC dO r' m' t' res hb hem ⟨G, hi⟩ hlk hout hlog hfree hf h
    obtain ⟨p', st, o, hp, hcnt, hle, hse, ho, hi', hidle, hstall⟩ := parse_rinvT hK hn hi hfree
    rw [hout, List.nil_append] at ho
    simp only [inLoop, hp] at h
    split at h
    · -- the call delivered something
      rename_i hc
      have hpos : 0 < st.stream := by
        simp only [hse, Bool.false_or, decide_eq_true_eq] at hc
        exact hc
      have key : ∀ w : Bool,
          (({ sp := p', lock := r.lock, writeable := w } : AReq), (none : MutexSt), t,
            IRes.ready st.stream st.delivered) = (r', m', t', res) →
          TStep t t' ∧ ReadPostT K n L P dC t r' m' t' res ∧
          (Idle r.sp → new = [] → ∀ k d, res = .ready k d → t'.input.length < t.input.length) := by
        intro w h
        cases h
        have hst : RSt K L P { sp := p', lock := r.lock, writeable := w } none t (dC ++ st.delivered) (dO ++ o) :=
          ⟨⟨G ++ new, hi'.congr rfl rfl rfl rfl rfl rfl rfl rfl rfl hi'.sinv⟩,
            lockInv_free hlk, Or.inl rfl, ⟨P ++ dO, hlog, by rw [ho, List.append_assoc]⟩⟩
        refine ⟨.refl _, ⟨hcnt, hpos, dO ++ o, hst, hlk, rfl, ?_⟩, ?_⟩
        · by_cases hlt : st.stream < n
          · exact Or.inr (hidle hlt)
          · exact Or.inl (by omega)
        · intro hd hnew kk dd _
          exfalso
          subst hnew
          rw [idle_parse hd hi.sinv.1 hi.par n] at hp
          cases hp
          simp [initStatus, hi.mt.strm] at hc
      split at h
      · exact key true h
      · exact key r.writeable h
    · -- nothing delivered: compress, flush the replies, read more
      rename_i hc
      simp only [Bool.or_eq_true, decide_eq_true_eq, not_or, Bool.not_eq_true, Nat.not_lt,
        Nat.le_zero_eq] at hc
      obtain ⟨hraw, hlast⟩ := hstall hc.2
      have hd0 : st.delivered = [] := List.length_eq_zero_iff.1 (by omega)
      rw [hd0, List.append_nil] at hi' hlast
      have hi2 : RInv K { r with sp := p'.compress } (G ++ new) t.input dC (dO ++ o) :=
        hi'.congr rfl rfl rfl rfl rfl rfl rfl rfl rfl (SInv_compress hi'.sinv)
      have hl2 : LockInv { r with sp := p'.compress } none := lockInv_free hlk
      rcases hpo : AReq.pollOutput { r with sp := p'.compress } none t with ⟨r3, m3, t3, ores⟩
      rw [hpo] at h
      obtain ⟨kk, e1, e2, e3, e4, e5, _, e7, e8⟩ := Async.pollOutput_spec hl2 hpo
      obtain ⟨b1, b2⟩ := pollOutput_ben hl2 (Or.inl rfl) hb hpo
      have hout2 : ({ r with sp := p'.compress } : AReq).sp.output = o := ho
      have hi3 : RInv K r3 (G ++ new) t3.input dC (dO ++ o) := by
        rw [e4.1]
        exact hi2.consumed e1
      have hlog3 : ∃ O1, t3.wlog = L ++ O1 ∧ O1 ++ r3.sp.output = P ++ (dO ++ o) :=
        ⟨P ++ dO ++ o.take kk, by rw [e3, hlog, hout2]; simp only [List.append_assoc], by
          rw [e1]
          show (P ++ dO ++ o.take kk) ++ (p'.compress.output.drop kk) = _
          rw [show p'.compress.output = o from ho]
          simp only [List.append_assoc, List.take_append_drop]⟩
      rcases b2 with rfl | ⟨rfl, bw, ba⟩
      · -- flushed
        obtain ⟨f1, f2, f3, f4⟩ := e7 rfl
        have hm3 : m3 = none := by
          by_cases ho0 : o = []
          · exact (f3 (by rw [hout2]; exact ho0)).2.1
          · exact f4 (by rw [hout2]; exact ho0)
        subst hm3
        have hlog3' : t3.wlog = L ++ (P ++ (dO ++ o)) := by
          obtain ⟨O1, g1, g2⟩ := hlog3
          rw [f1, List.append_nil] at g2
          rw [g1, g2]
        have hfreepos : 0 < r3.sp.free := by
          have hpar := hi3.par
          have hcap := hi3.capK
          rw [e1] at hpar hcap ⊢
          simp only [Str.Parser.consumeOutput, Str.Parser.compress] at hpar hcap
          simp [Str.Parser.free, Str.Parser.freeStart, Str.Parser.compress, Str.Parser.consumeOutput, hpar, hcap]
          omega
        have hb3 := hb.step b1
        have hem3 : t3.endMode = .eof := b1.em.trans hem
        simp only at h
        split at h
        · rename_i t1 hr
          have hwl : t1.wlog = t3.wlog := by have := read_wlog t3 r3.sp.free; rwa [hr] at this
          cases h
          obtain ⟨hinp, hw | hw⟩ := read_pending hb3 hr
          · refine ⟨b1.trans (read_tstep hr), ⟨⟨dO ++ o, ⟨⟨G ++ new, by rw [hinp]; exact hi3⟩, e5, Or.inl rfl,
              ⟨P ++ (dO ++ o), by rw [hwl, hlog3'], by rw [f1, List.append_nil]⟩⟩⟩, hw.1,
              by have := b1.ans_le; omega⟩, fun _ _ kk dd hx => (by cases hx)⟩
          · rw [hem3] at hw; exact absurd hw.2.1 (by decide)
        · rename_i t1 e hr
          exact (read_error hb3 hr).elim
        · -- `Ok(0)`: the input ended inside the stream
          rename_i t1 hr
          obtain ⟨hinp, hwl, _, hz⟩ := read_ok_ben hb3 hr
          have hin3 : t3.input = [] := by
            rcases hz rfl with hz | hz
            · omega
            · exact hz.1
          have hin1 : t1.input = [] := by
            rw [hin3] at hinp
            exact (List.append_eq_nil_iff.mp hinp.symm).2
          have hin0 : t.input = [] := by rw [← e4.1]; exact hin3
          obtain ⟨hC, hO⟩ := hlast hin0
          cases h
          refine ⟨b1.trans (read_tstep hr), ⟨rfl, rfl, hC, hin1, ?_, f2, f1⟩, fun _ _ kk dd hx => (by cases hx)⟩
          rw [hwl, hlog3', hO]
        · rename_i t1 bs hbs hr
          obtain ⟨hin, hwl, hlen, _⟩ := read_ok_ben hb3 hr
          have hbne : bs ≠ [] := fun hx => hbs (by rw [hx])
          have hbpos : 0 < bs.length := List.length_pos_iff.mpr hbne
          have hs1 := read_tstep hr
          have hlen1 : t1.input.length + 2 ≤ k := by
            have := congrArg List.length hin
            rw [e4.1] at this
            simp only [List.length_append] at this
            omega
          obtain ⟨q1, q4, _⟩ := ih r3 bs t1 (hb3.step hs1) (hs1.em.trans hem3)
            ⟨G ++ new, by rw [← hin]; exact hi3⟩ f2 f1 (by rw [hwl, hlog3']) hlen hlen1 h
          refine ⟨(b1.trans hs1).trans q1, ?_, fun _ _ kk dd _ => ?_⟩
          · cases res with
            | pending =>
              exact ⟨q4.1, q4.2.1, by have := (b1.trans hs1).ans_le; have := q4.2.2; omega⟩
            | ready k d => exact q4
            | err e => exact q4
            | panic s => exact q4
          · have := q1.tle.input_len
            have := congrArg List.length hin
            rw [e4.1] at this
            simp only [List.length_append] at this
            omega
      · -- the transport is busy: `Pending` with the lock held
        obtain ⟨g1, g2⟩ := e8 (by intro hx; cases hx)
        have hm3 : m3 = some 0 := by
          rcases g2 with ⟨g2, _⟩ | ⟨_, _, _, _, i, hi⟩
          · exact g2
          · cases hi
        cases h
        exact ⟨b1, ⟨⟨dO ++ o, ⟨⟨G ++ new, hi3⟩, e5, Or.inr hm3, hlog3⟩⟩, bw, ba⟩,
          fun _ _ kk dd hx => (by cases hx)⟩

/-- **`poll_input(Some(n))`** for the `read` of `readAll`, on a cut stream. -/
theorem pollInput_simT {K : RCtx} (hK : K.Cut) {n : Nat} (hn : 0 < n) {L P : Bytes} {r : AReq} {m : MutexSt}
    {t : Transport} {dC dO : Bytes} {r' : AReq} {m' : MutexSt} {t' : Transport} {res : IRes}
    (hb : Ben t) (hem : t.endMode = .eof) (hs : RSt K L P r m t dC dO)
    (h : r.pollInput (some n) m t = (r', m', t', res)) :
    TStep t t' ∧ ReadPostT K n L P dC t r' m' t' res ∧
    (Idle r.sp → ∀ k d, res = .ready k d → t'.input.length < t.input.length) := by
  obtain ⟨n', rfl⟩ : ∃ n', n = n' + 1 := ⟨n - 1, by omega⟩
  obtain ⟨⟨G, hi⟩, hl, hm, ⟨O1, hlog1, hlog2⟩⟩ := hs
  have hpar := hi.par
  simp only [AReq.pollInput, hpar] at h
  rcases hpo : r.pollOutput m t with ⟨r3, m3, t3, ores⟩
  rw [hpo] at h
  obtain ⟨kk, e1, e2, e3, e4, e5, _, e7, e8⟩ := Async.pollOutput_spec hl hpo
  obtain ⟨b1, b2⟩ := pollOutput_ben hl hm hb hpo
  have hi3 : RInv K r3 G t3.input dC dO := by
    rw [e4.1]
    exact hi.consumed e1
  have hlog3 : ∃ O1', t3.wlog = L ++ O1' ∧ O1' ++ r3.sp.output = P ++ dO :=
    ⟨O1 ++ r.sp.output.take kk, by rw [e3, hlog1, List.append_assoc], by
      rw [e1]; simp only [Str.Parser.consumeOutput, List.append_assoc, List.take_append_drop]; exact hlog2⟩
  rcases b2 with rfl | ⟨rfl, bw, ba⟩
  · obtain ⟨f1, f2, f3, f4⟩ := e7 rfl
    have hm3 : m3 = none := by
      by_cases ho0 : r.sp.output = []
      · have hm0 : m = none := by
          rcases hm with hm | hm
          · exact hm
          · have := hl.1.2 hm
            rw [hl.2 ho0] at this; cases this
        rw [(f3 ho0).2.1, hm0]
      · exact f4 ho0
    subst hm3
    have hlog3' : t3.wlog = L ++ (P ++ dO) := by
      obtain ⟨O1', g1, g2⟩ := hlog3
      rw [f1, List.append_nil] at g2
      rw [g1, g2]
    simp only at h
    obtain ⟨q1, q2, q3⟩ := inLoop_simT hK hn (L := L) (P := P) _ r3 [] t3 (hb.step b1) (b1.em.trans hem)
      ⟨G, by simpa using hi3⟩ f2 f1 hlog3' (by simp) (Nat.le_refl _) h
    refine ⟨b1.trans q1, ?_, fun hd kk dd hx => ?_⟩
    · cases res with
      | pending => exact ⟨q2.1, q2.2.1, by have := b1.ans_le; have := q2.2.2; omega⟩
      | ready k d => exact q2
      | err e => exact q2
      | panic s => exact q2
    · have hd3 : Idle r3.sp := by
        rw [e1]
        simpa [Idle, Dry, VStall, Str.Parser.consumeOutput] using hd
      have := q3 hd3 rfl kk dd hx
      rw [e4.1] at this
      exact this
  · obtain ⟨g1, g2⟩ := e8 (by intro hx; cases hx)
    have hm3 : m3 = some 0 := by
      rcases g2 with ⟨g2, _⟩ | ⟨_, _, hmm, _, i, hi⟩
      · exact g2
      · rcases hm with hm | hm <;> rw [hm] at hi <;> cases hi
    cases h
    exact ⟨b1, ⟨⟨dO, ⟨⟨G, hi3⟩, e5, Or.inr hm3, hlog3⟩⟩, bw, ba⟩, fun _ kk dd hx => (by cases hx)⟩

/-! ## `readAll` -/

/-- the trace event of a `readAll` that failed with `UnexpectedEof` after collecting `acc` -/
def reEvent (acc : Bytes) : String := s!"R!{showIo .unexpectedEof}:{acc.length}:{hexOrDash acc}"

theorem isHS_reEvent (acc : Bytes) : isHS (reEvent acc) = false := by
  simp [isHS, reEvent, toString_str]

/-- What `handlerPoll` does for `readAll` on a cut stream: it suspends on a transient `Pending` with
the bytes read so far in its accumulator, or the read fails with `UnexpectedEof` after exactly the
content `K.C` of the cut wire was collected and all replies `K.O` were written; with `propagate`
the handler returns that error, otherwise it goes on with its next operation. -/
theorem readAll_runT {K : RCtx} (hK : K.Cut) {L P : Bytes} (rest : List HOp) (ws : List (Option Writer))
    (pr : Bool) :
    ∀ (N fuel : Nat) (r : AReq) (sub : HSub) (e : Run.Env) (dO : Bytes) (d : Nat),
      2 * ((K.C.length - (accOf sub).length) / 64) + 2 * e.tr.input.length + d < N → N + 1 ≤ fuel →
      (d = 0 → Idle r.sp) → Ben e.tr → e.tr.endMode = .eof → RSt K L P r e.mutex e.tr (accOf sub) dO →
      (∃ (r' : AReq) (acc' : Bytes) (e' : Run.Env) (dO' : Bytes),
          handlerPoll fuel r { ops := .readAll :: rest, sub := sub, writers := ws, propagate := pr } e =
            (r', { ops := .readAll :: rest, sub := .readAllAcc acc', writers := ws, propagate := pr }, e', .pending) ∧
          RSt K L P r' e'.mutex e'.tr acc' dO' ∧ e'.segs = e.segs ∧ TStep e.tr e'.tr ∧
          e'.tr.woken = true ∧ ans e'.tr < ans e.tr) ∨
      (∃ (r' : AReq) (e' : Run.Env) (fuel' : Nat),
          handlerPoll fuel r { ops := .readAll :: rest, sub := sub, writers := ws, propagate := pr } e =
            (if pr then (r', { ops := rest, sub := .fresh, writers := ws, propagate := pr },
                e'.ev (reEvent K.C), .done (.error .unexpectedEof))
             else handlerPoll fuel' r' { ops := rest, sub := .fresh, writers := ws, propagate := pr }
                (e'.ev (reEvent K.C))) ∧
          fuel ≤ fuel' + N ∧ e'.tr.input = [] ∧ e'.tr.wlog = L ++ (P ++ K.O) ∧ r'.lock = .none ∧
          r'.sp.output = [] ∧ e'.mutex = none ∧ e'.segs = e.segs ∧ TStep e.tr e'.tr) := by
  intro N
  induction N with
  | zero => intro fuel r sub e dO d hN; omega
  | succ N ih =>
    intro fuel r sub e dO d hN hf hd hb hem hs
    obtain ⟨f, rfl⟩ : ∃ f, fuel = f + 1 := ⟨fuel - 1, by omega⟩
    rw [hp_readAll]
    rcases hpi : r.pollInput (some 64) e.mutex e.tr with ⟨r1, m1, t1, res⟩
    obtain ⟨s1, s4, s5⟩ := pollInput_simT hK (by omega : 0 < 64) hb hem hs hpi
    cases res with
    | pending =>
      left
      obtain ⟨⟨dO', hs'⟩, hw, ha⟩ := s4
      exact ⟨r1, accOf sub, { e with mutex := m1, tr := t1 }, dO', rfl, hs', rfl, s1, hw, ha⟩
    | panic x => exact s4.elim
    | err x =>
      right
      obtain ⟨hx, hm1, hC, hin, hwl, hlk, hout⟩ := s4
      subst hx hm1
      rw [hC]
      exact ⟨r1, { e with mutex := none, tr := t1 }, f, rfl, by omega, hin, hwl, hlk, hout, rfl, rfl, s1⟩
    | ready k dd =>
      obtain ⟨hk, hkpos, dO', hs', hlk, hm1, hfull⟩ := s4
      subst hm1
      cases k with
      | zero => omega
      | succ k' =>
        simp only
        obtain ⟨G1, hi1⟩ := hs'.inv
        have hnow := (nowT hK hi1).1
        have hlenC : (accOf sub).length + (k' + 1) ≤ K.C.length := by
          have := congrArg List.length hnow
          simp only [List.length_append] at this
          omega
        have hinle := s1.tle.input_len
        have hdec : ∃ d1, (d1 = 0 → Idle r1.sp) ∧
            2 * ((K.C.length - (accOf sub ++ dd).length) / 64) + 2 * t1.input.length + d1 < N := by
          have hin' : d = 0 → t1.input.length < e.tr.input.length := by
            intro h0
            exact s5 (hd h0) _ _ rfl
          simp only [List.length_append]
          rcases hfull with h64 | hdr
          · refine ⟨1, fun h => by omega, ?_⟩
            by_cases h0 : d = 0
            · have := hin' h0; omega
            · omega
          · refine ⟨0, fun _ => hdr, ?_⟩
            by_cases h0 : d = 0
            · have := hin' h0; omega
            · omega
        obtain ⟨d1, hd1, hm1⟩ := hdec
        rcases ih f r1 (.readAllAcc (accOf sub ++ dd)) { e with mutex := none, tr := t1 } dO' d1 hm1
            (by omega) hd1 (hb.step s1) (s1.em.trans hem) hs' with
          ⟨r2, acc2, e2, dO2, d1', d3, d5, d6, d8, d9⟩ |
          ⟨r2, e2, f2, d1', d2, d3, d4, d5, d6, d7, d8, d9⟩
        · left
          refine ⟨r2, acc2, e2, dO2, d1', d3, d5, s1.trans d6, d8, ?_⟩
          have := s1.ans_le
          have d9' : ans e2.tr < ans t1 := d9
          omega
        · right
          exact ⟨r2, e2, f2, d1', by omega, d3, d4, d5, d6, d7, d8, s1.trans d9⟩

end Fcgi.C12E
