import Fcgi.Proofs.E2ETruncCut

/-!
# C12 end to end, Filter: the input ends inside the Data stream

`FCfg`: a well-formed preamble `recs` for a Filter request `p`; behind it the wire `K1.X`: the whole
`Stdin` stream (the reference says "end of stream" on it: `K1.OK`, unread rest `K1.U` = its
terminating record and what follows) and of the `Data` stream only a cut part (`K2.X = K1.U`,
`K2.Cut`: the reference for stream 8 says "more input needed").  The handler reads Stdin to its end,
selects Data, reads it — and that `readAll` fails with `UnexpectedEof` after the content `K2.C` the
cut wire carries; the handler propagates.  `fstage_poll`: one poll; `fmid_run_start`: the executor.
-/
namespace Fcgi.C12E
open Fcgi Fcgi.Req Fcgi.Str Fcgi.Async Fcgi.Run Fcgi.Spec Fcgi.E2E

structure FCfg where
  p : Preamble
  recs : List Rec
  b : Nat
  mc : Nat
  K1 : RCtx
  K2 : RCtx
  /-- the handler's operations after the second `readAll`; the scripts of later requests -/
  rest2 : List HOp
  more : List (List HOp × Bool)
  L0 : Bytes
  hs0 : Nat

namespace FCfg
def cap (g : FCfg) : Nat := alignedBufsize g.b
def W (g : FCfg) : Bytes := serAll g.recs ++ g.K1.X
def L1 (g : FCfg) : Bytes := g.L0 ++ owedPreamble g.p g.mc g.recs
def hscript (g : FCfg) : List HOp := .readAll :: .setStream 8 :: .readAll :: g.rest2

structure OK (g : FCfg) : Prop where
  wf : WellFormedPreamble g.p g.recs
  role : g.p.role = 3
  pairs : ∀ q ∈ g.p.pairs, (NV.enc q).length ≤ g.cap
  noise : NoiseFits g.cap g.recs
  k1 : g.K1.OK
  k2 : g.K2.Cut
  fol : Follows g.K1 g.K2
  e1 : g.K1.E = ⟨g.p.id, g.p.role, 5, g.mc⟩
  rq : g.K1.rq = g.p.request
  capK : g.K1.cap = g.cap
  fuel : g.cap / 16 + 16 ≤ 1000

/-- `OK` without the model-fuel bound: the `4·cap` term of the handler fuel pays for `cap/16` (all the lemmas
below need only this). -/
structure OKu (g : FCfg) : Prop where
  wf : WellFormedPreamble g.p g.recs
  role : g.p.role = 3
  pairs : ∀ q ∈ g.p.pairs, (NV.enc q).length ≤ g.cap
  noise : NoiseFits g.cap g.recs
  k1 : g.K1.OK
  k2 : g.K2.Cut
  fol : Follows g.K1 g.K2
  e1 : g.K1.E = ⟨g.p.id, g.p.role, 5, g.mc⟩
  rq : g.K1.rq = g.p.request
  capK : g.K1.cap = g.cap

theorem OK.toU {g : FCfg} (ok : g.OK) : g.OKu :=
  ⟨ok.wf, ok.role, ok.pairs, ok.noise, ok.k1, ok.k2, ok.fol, ok.e1, ok.rq, ok.capK⟩
end FCfg

theorem fpid_lt {g : FCfg} (ok : g.OKu) : 0 < g.p.id ∧ g.p.id < 65536 := by
  have h := ok.wf
  generalize g.recs = rs at h
  induction h with
  | noise r hn t ih => exact ih
  | «begin» pad res body5 hb hp hid hrole hl t => exact hid

theorem fns {g : FCfg} (ok : g.OKu) : NoStuckW g.cap g.mc g.W := noStuck_of ok.wf g.K1.X g.b g.mc ok.pairs ok.noise

def FEv1 (g : FCfg) (t : Transport) : Prop := hsCount t.events = g.hs0 + 1 ∧ hsEvent g.p.request ∈ t.events

theorem FEv1.step {g : FCfg} {t t' : Transport} (h : FEv1 g t) (s : TStep t t') : FEv1 g t' :=
  ⟨s.hs.trans h.1, s.mem_events h.2⟩

/-- the handler state in its first / second `readAll` -/
abbrev fH1 (g : FCfg) (sub : HSub) : HState := { ops := g.hscript, sub := sub, writers := [], propagate := true }
abbrev fH2 (g : FCfg) (sub : HSub) : HState :=
  { ops := .readAll :: g.rest2, sub := sub, writers := [], propagate := true }

inductive FStage (g : FCfg) (c : Conn) : Prop
  | parse {F : Bytes} : PSt g.cap g.mc g.W g.L0 [] c F → c.scripts = (g.hscript, true) :: g.more →
      c.env.mutex = none → hsCount c.env.tr.events = g.hs0 → FStage g c
  | r1 {r : AReq} {sub : HSub} {dO : Bytes} : c.phase = .handler r (fH1 g sub) →
      RSt g.K1 g.L1 [] r c.env.mutex c.env.tr (accOf sub) dO → Ben c.env.tr → FEv1 g c.env.tr →
      c.scripts = g.more → FStage g c
  | r2 {r : AReq} {sub : HSub} {dO : Bytes} : c.phase = .handler r (fH2 g sub) →
      RSt g.K2 g.L1 g.K1.O r c.env.mutex c.env.tr (accOf sub) dO → Ben c.env.tr → FEv1 g c.env.tr →
      rEvent g.K1.C ∈ c.env.tr.events → c.scripts = g.more → FStage g c

/-- How the task ends: one handler start; the Stdin `readAll` returned the whole content `K1.C`;
the Data `readAll` collected exactly `K2.C` and failed with `UnexpectedEof`; the handler returned
that error; finished without `close`: the log holds the preamble replies and the replies owed for
the noise of both streams as far as it arrived, nothing else. -/
structure FFin (g : FCfg) (c' : Conn) : Prop where
  phase : c'.phase = .finished
  wlog : c'.env.tr.wlog = g.L1 ++ (g.K1.O ++ g.K2.O)
  input : c'.env.tr.input = []
  hs : hsCount c'.env.tr.events = g.hs0 + 1
  start : hsEvent g.p.request ∈ c'.env.tr.events
  read1 : rEvent g.K1.C ∈ c'.env.tr.events
  rerr : reEvent g.K2.C ∈ c'.env.tr.events
  herr : heEvent ∈ c'.env.tr.events
  scripts : c'.scripts = g.more

def FOut (g : FCfg) (c c' : Conn) (r : PRes) : Prop :=
  (r = .pending ∧ FStage g c' ∧ c'.env.tr.woken = true ∧ ans c'.env.tr < ans c.env.tr) ∨
  (r = .finished ∧ FFin g c')

theorem FOut.mono {g : FCfg} {c c1 c' : Conn} {r : PRes} (hl : Link c c1) (h : FOut g c1 c' r) : FOut g c c' r := by
  rcases h with ⟨a, b, d, e⟩ | h
  · exact Or.inl ⟨a, b, d, by have := hl.ts.ans_le; omega⟩
  · exact Or.inr h

def FRes (g : FCfg) (N : Nat) (c : Conn) : Prop := ∃ c' r, Halts N c c' r ∧ Link c c' ∧ FOut g c c' r

theorem FRes.of_steps {g : FCfg} {k N : Nat} {c c1 : Conn} (hs : Steps k c c1) (hl : Link c c1)
    (h : FRes g N c1) : FRes g (k + N) c := by
  obtain ⟨c', r, hh, hl2, ho⟩ := h
  exact ⟨c', r, hh.of_steps hs, hl.trans hl2, ho.mono hl⟩

theorem FRes.mono {g : FCfg} {N M : Nat} {c : Conn} (h : FRes g N c) (hm : N ≤ M) : FRes g M c := by
  obtain ⟨c', r, hh, hl2, ho⟩ := h
  exact ⟨c', r, hh.mono hm, hl2, ho⟩

/-- what the second `readAll` does to the handler poll -/
theorem second_hp {g : FCfg} (ok : g.OKu) (fuel : Nat) (r : AReq) (sub : HSub) (e : Run.Env) (dO : Bytes)
    (hs : RSt g.K2 g.L1 g.K1.O r e.mutex e.tr (accOf sub) dO) (hb : Ben e.tr) (hem : e.tr.endMode = .eof)
    (hfu : g.cap / 32 + 3 * e.tr.input.length + 6 ≤ fuel) :
    (∃ (r' : AReq) (acc' : Bytes) (e' : Run.Env) (dO' : Bytes),
        handlerPoll fuel r (fH2 g sub) e = (r', fH2 g (.readAllAcc acc'), e', .pending) ∧
        RSt g.K2 g.L1 g.K1.O r' e'.mutex e'.tr acc' dO' ∧ e'.segs = e.segs ∧ TStep e.tr e'.tr ∧
        e'.tr.woken = true ∧ ans e'.tr < ans e.tr) ∨
    (∃ (r' : AReq) (e' : Run.Env),
        handlerPoll fuel r (fH2 g sub) e =
          (r', { ops := g.rest2, sub := .fresh, writers := [], propagate := true }, e'.ev (reEvent g.K2.C),
            .done (.error .unexpectedEof)) ∧
        e'.tr.input = [] ∧ e'.tr.wlog = g.L1 ++ (g.K1.O ++ g.K2.O) ∧ e'.segs = e.segs ∧ TStep e.tr e'.tr) := by
  obtain ⟨G0, hi0⟩ := hs.inv
  have hrl := rem_leT ok.k2 hi0
  have hc2 : g.K2.cap = g.cap := ok.fol.cap.trans ok.capK
  rcases readAll_runT ok.k2 (L := g.L1) (P := g.K1.O) g.rest2 [] true
      (2 * ((g.K2.C.length - (accOf sub).length) / 64) + 2 * e.tr.input.length + 2) fuel
      r sub e dO 1 (by omega) (by omega) (fun h => by omega) hb hem hs with
    ⟨r', acc', e', dO', d1, d3, d5, d6, d8, d9⟩ |
    ⟨r', e', f', d1, _, d3, d4, _, _, _, d8, d9⟩
  · exact Or.inl ⟨r', acc', e', dO', d1, d3, d5, d6, d8, d9⟩
  · simp only [if_true] at d1
    exact Or.inr ⟨r', e', d1, d3, d4, d8, d9⟩

/-- the connection task's step on the result of the second `readAll` -/
theorem r2_finish {g : FCfg} {c : Conn} {r : AReq} {h : HState} (hph : c.phase = .handler r h)
    {r' : AReq} {h' : HState} {e' : Run.Env}
    (hhp : handlerPoll ((handlerFuel c.env r + scriptOf c)) r h c.env = (r', h', e'.ev (reEvent g.K2.C), .done (.error .unexpectedEof))) :
    stepConn c = .halt ⟨.finished, (e'.ev (reEvent g.K2.C)).ev heEvent, c.scripts, c.stop⟩ .finished := by
  have hstep := C07.handler_step c r h hph
  rw [hhp] at hstep
  rw [hstep]; simp [heEvent]

theorem ffin_of {g : FCfg} {c : Conn} {e' : Run.Env} (hev : FEv1 g c.env.tr) (hr1 : rEvent g.K1.C ∈ e'.tr.events)
    (hts : TStep c.env.tr e'.tr) (hin : e'.tr.input = []) (hlog : e'.tr.wlog = g.L1 ++ (g.K1.O ++ g.K2.O))
    (hsc : c.scripts = g.more) :
    FFin g ⟨.finished, (e'.ev (reEvent g.K2.C)).ev heEvent, c.scripts, c.stop⟩ := by
  have hts2 : TStep c.env.tr ((e'.tr.ev (reEvent g.K2.C)).ev heEvent) :=
    (hts.trans (TStep.ev _ (isHS_reEvent _))).trans (TStep.ev _ (by simp [isHS, heEvent, toString_str, showIo]))
  refine ⟨rfl, hlog, hin, (hev.step hts2).1, (hev.step hts2).2, ?_, ?_, ?_, hsc⟩
  · show rEvent g.K1.C ∈ (e'.tr.events ++ [reEvent g.K2.C]) ++ [heEvent]
    simp [hr1]
  · show reEvent g.K2.C ∈ (e'.tr.events ++ [reEvent g.K2.C]) ++ [heEvent]
    simp
  · show heEvent ∈ (e'.tr.events ++ [reEvent g.K2.C]) ++ [heEvent]
    simp

/-- One poll that starts inside the second `readAll`. -/
theorem r2_poll {g : FCfg} (ok : g.OKu) {c : Conn} {r : AReq} {sub : HSub} {dO : Bytes}
    (hph : c.phase = .handler r (fH2 g sub))
    (hs : RSt g.K2 g.L1 g.K1.O r c.env.mutex c.env.tr (accOf sub) dO) (hb : Ben c.env.tr)
    (hem : c.env.tr.endMode = .eof) (hev : FEv1 g c.env.tr) (hr1 : rEvent g.K1.C ∈ c.env.tr.events)
    (hsc : c.scripts = g.more) : FRes g 1 c := by
  have hfu := handlerFuel_ge' c.env r
  obtain ⟨G0, hi0⟩ := hs.inv
  have hcapr := hi0.capK
  have hc2 : g.K2.cap = g.cap := ok.fol.cap.trans ok.capK
  rcases second_hp ok ((handlerFuel c.env r + scriptOf c)) r sub c.env dO hs hb hem (by omega) with
    ⟨r', acc', e', dO', d1, d3, d5, d6, d8, d9⟩ | ⟨r', e', d1, d3, d4, d8, d9⟩
  · have hstep := C07.handler_step c r _ hph
    rw [d1] at hstep
    have hstep' : stepConn c = .halt ⟨.handler r' (fH2 g (.readAllAcc acc')), e', c.scripts, c.stop⟩ .pending := hstep
    exact ⟨_, .pending, Halts.now hstep', ⟨d6.w, d5, rfl⟩,
      Or.inl ⟨rfl, .r2 rfl d3 (hb.step d6) (hev.step d6) (d6.mem_events hr1) hsc, d8, d9⟩⟩
  · have hstep' := r2_finish (g := g) hph d1
    have hts2 : TStep c.env.tr ((e'.tr.ev (reEvent g.K2.C)).ev heEvent) :=
      (d9.trans (TStep.ev _ (isHS_reEvent _))).trans (TStep.ev _ (by simp [isHS, heEvent, toString_str, showIo]))
    exact ⟨_, .finished, Halts.now hstep', ⟨hts2.w, d8, rfl⟩,
      Or.inr ⟨rfl, ffin_of hev (d9.mem_events hr1) d9 d3 d4 hsc⟩⟩

/-- One poll that starts inside the first `readAll`. -/
theorem r1_poll {g : FCfg} (ok : g.OKu) {c : Conn} {r : AReq} {sub : HSub} {dO : Bytes}
    (hph : c.phase = .handler r (fH1 g sub))
    (hs : RSt g.K1 g.L1 [] r c.env.mutex c.env.tr (accOf sub) dO) (hb : Ben c.env.tr)
    (hem : c.env.tr.endMode = .eof) (hev : FEv1 g c.env.tr) (hsc : c.scripts = g.more) : FRes g 1 c := by
  have hfu := handlerFuel_ge' c.env r
  have hstep := C07.handler_step c r _ hph
  obtain ⟨G0, hi0⟩ := hs.inv
  have hcapr := hi0.capK
  have hrl := hi0.rem_le ok.k1
  have hc1 := ok.capK
  rcases readAll_run ok.k1 (L := g.L1) (P := []) (.setStream 8 :: .readAll :: g.rest2) [] true
      (2 * ((g.K1.C.length - (accOf sub).length) / 64) + 2 * c.env.tr.input.length + 2) ((handlerFuel c.env r + scriptOf c))
      r sub c.env dO 1 (by omega) (by omega) (fun h => by omega) hb hs with
    ⟨r', acc', e', dO', d1, d3, d5, d6, d8, d9⟩ |
    ⟨r', e', f', d1, d2, d3, dl, dm, d4, d5, d6, dw, d8, d9⟩
  · have d1' : handlerPoll ((handlerFuel c.env r + scriptOf c)) r (fH1 g sub) c.env =
        (r', fH1 g (.readAllAcc acc'), e', .pending) := d1
    rw [d1'] at hstep
    have hstep' : stepConn c = .halt ⟨.handler r' (fH1 g (.readAllAcc acc')), e', c.scripts, c.stop⟩ .pending := hstep
    exact ⟨_, .pending, Halts.now hstep', ⟨d6.w, d5, rfl⟩,
      Or.inl ⟨rfl, .r1 rfl d3 (hb.step d6) (hev.step d6) hsc, d8, d9⟩⟩
  · -- Stdin is read to its end: `set_stream(Data)`, then the second `readAll` in the same poll
    have hf2pos : 0 < f' := by unfold handlerFuel at d2; omega
    obtain ⟨f2, rfl⟩ : ∃ f2, f' = f2 + 1 := ⟨f' - 1, by omega⟩
    obtain ⟨r2, hset, hlk2, hs2⟩ := switch_stream ok.fol d3 d4 d5 d6
    have hs1 : TStep c.env.tr ((e'.ev (rEvent g.K1.C)).ev "s=ok").tr :=
      (d9.trans (TStep.ev _ (isHS_rEvent _))).trans (TStep.ev _ (by decide))
    have hinle := d9.tle.input_len
    have hs2' : RSt g.K2 g.L1 g.K1.O r2 ((e'.ev (rEvent g.K1.C)).ev "s=ok").mutex
        ((e'.ev (rEvent g.K1.C)).ev "s=ok").tr (accOf .fresh) [] := by
      have : RSt g.K2 g.L1 ([] ++ g.K1.O) r2 e'.mutex e'.tr [] [] := hs2
      rw [List.nil_append] at this
      exact ⟨this.inv, this.lk, this.mx, this.log⟩
    have heq : handlerPoll ((handlerFuel c.env r + scriptOf c)) r (fH1 g sub) c.env =
        handlerPoll f2 r2 (fH2 g .fresh) ((e'.ev (rEvent g.K1.C)).ev "s=ok") := by
      have d1' : handlerPoll ((handlerFuel c.env r + scriptOf c)) r (fH1 g sub) c.env =
          handlerPoll (f2 + 1) r' { ops := .setStream 8 :: .readAll :: g.rest2, sub := .fresh, writers := [], propagate := true }
            (e'.ev (rEvent g.K1.C)) := d1
      rw [d1', hp_setStream, hset]
    have hr1 : rEvent g.K1.C ∈ ((e'.ev (rEvent g.K1.C)).ev "s=ok").tr.events := by
      show rEvent g.K1.C ∈ (e'.tr.events ++ [rEvent g.K1.C]) ++ ["s=ok"]; simp
    have hb2 : Ben ((e'.ev (rEvent g.K1.C)).ev "s=ok").tr := hb.step hs1
    rcases second_hp ok f2 r2 .fresh ((e'.ev (rEvent g.K1.C)).ev "s=ok") [] hs2' hb2 (hs1.em.trans hem)
        (by show g.cap / 32 + 3 * e'.tr.input.length + 6 ≤ f2
            omega) with
      ⟨r3, acc3, e3, dO3, q1, q3, q5, q6, q8, q9⟩ | ⟨r3, e3, q1, q3, q4, q8, q9⟩
    · rw [heq, q1] at hstep
      have hstep' : stepConn c = .halt ⟨.handler r3 (fH2 g (.readAllAcc acc3)), e3, c.scripts, c.stop⟩ .pending := hstep
      have hts := hs1.trans q6
      exact ⟨_, .pending, Halts.now hstep', ⟨hts.w, q5.trans d8, rfl⟩,
        Or.inl ⟨rfl, .r2 rfl q3 (hb.step hts) (hev.step hts) (q6.mem_events hr1) hsc, q8, by
          show ans e3.tr < ans c.env.tr
          have h1 := hs1.ans_le
          have h2 : ans e3.tr < ans ((e'.ev (rEvent g.K1.C)).ev "s=ok").tr := q9
          omega⟩⟩
    · have hstep' := r2_finish (g := g) hph (heq.trans q1)
      have hts := hs1.trans q9
      have hts2 : TStep c.env.tr ((e3.tr.ev (reEvent g.K2.C)).ev heEvent) :=
        (hts.trans (TStep.ev _ (isHS_reEvent _))).trans (TStep.ev _ (by simp [isHS, heEvent, toString_str, showIo]))
      exact ⟨_, .finished, Halts.now hstep', ⟨hts2.w, q8.trans d8, rfl⟩,
        Or.inr ⟨rfl, ffin_of hev (q9.mem_events hr1) hts q3 q4 hsc⟩⟩

/-! ## `parse_request`, the stages, the executor -/

/-- **The handler start** on the cut wire: `parse_request` has consumed `F1`, its request parser is
`done`, the final `write_all` of its replies completes. -/
theorem fhandler_start {g : FCfg} (ok : g.OKu) {c1 : Conn} {F1 rest : Bytes} {t' : Transport}
    (hph : c1.phase = .parseReq (track g.cap g.mc F1) (.writing rest true))
    (hw : F1 ++ c1.env.tr.input = g.W) (hstop1 : c1.stop = false)
    (hrem1 : (run .header F1 g.mc).rem.length ≤ g.cap)
    (hf : (run .header F1 g.mc).st.isFinal = true)
    (hwa : writeAllLoop (rest.length + 1) rest c1.env.tr = ([], t', .ready))
    (hlog : t'.wlog = g.L0 ++ (run .header F1 g.mc).out)
    (hsc1 : c1.scripts = (g.hscript, true) :: g.more) :
    ∃ e1, F1 = serAll g.recs ++ e1 ∧ e1 ++ c1.env.tr.input = g.K1.X ∧ t'.wlog = g.L1 ∧ e1.length ≤ g.cap ∧
      stepConn c1 = .next
        ⟨.handler (AReq.new (Str.Parser.fromParser g.cap g.p.request e1 g.mc))
            { ops := g.hscript, propagate := true },
          (⟨t', c1.env.mutex, c1.env.segs⟩ : Run.Env).ev (hsEvent g.p.request), g.more, false⟩ := by
  have hF1 : F1 <+: serAll g.recs ++ g.K1.X := ⟨c1.env.tr.input, by simpa [FCfg.W] using hw⟩
  rcases C06.run_wire_state ok.wf g.K1.X hF1 g.mc with ⟨e1, hFe, he1, hrun⟩ | ⟨t, _, _, hnf⟩
  · have hd : (track g.cap g.mc F1).state = .done g.p.request := by simp only [track, hrun]
    obtain ⟨r, hrq, hr, hstep⟩ := C07.done_starts_handler c1 (track g.cap g.mc F1) rest [] t' g.p.request
      hph hstop1 hwa hd
    rw [hsc1] at hstep
    have hcap : (track g.cap g.mc F1).cap = g.cap := rfl
    have hinput : (track g.cap g.mc F1).input = e1 := by simp only [track, hrun]
    have hmc : (track g.cap g.mc F1).maxConns = g.mc := rfl
    rw [hcap, hinput, hmc] at hr
    subst hr
    have hwire : e1 ++ c1.env.tr.input = g.K1.X := by
      have : F1 ++ c1.env.tr.input = serAll g.recs ++ g.K1.X := by simpa [FCfg.W] using hw
      rw [hFe, List.append_assoc] at this
      exact List.append_cancel_left this
    have he1len : e1.length ≤ g.cap := by
      have := hrem1; rw [hrun] at this; exact this
    exact ⟨e1, hFe, hwire, by rw [hlog, hrun]; rfl, he1len, hstep⟩
  · rw [hf] at hnf; cases hnf

theorem frinv_start {g : FCfg} (ok : g.OKu) {e1 input : Bytes}
    (hlen : e1.length ≤ g.cap) (hwire : e1 ++ input = g.K1.X) :
    RInv g.K1 (AReq.new (Str.Parser.fromParser g.cap g.p.request e1 g.mc)) e1 input [] [] := by
  have hstart : C03SI.Start ⟨g.p.id, g.p.role, 5, g.mc⟩ (Str.Parser.fromParser g.cap g.p.request e1 g.mc) :=
    C03SI.start_fresh g.cap g.p.request e1 g.mc hlen (fpid_lt ok).2 (Or.inr ok.role)
  rw [← ok.e1] at hstart
  refine ⟨hstart.mtch, hstart.inv, ok.rq.symm, ok.capK.symm, rfl, hwire, fun x => ?_⟩
  have := C03SI.rem_start hstart x
  show refWire g.K1.E (e1 ++ x) = (Rem g.K1.E (Str.Parser.fromParser g.cap g.p.request e1 g.mc) x).pre [] []
  rw [this]; rfl

/-- A poll that is inside `parse_request`. -/
theorem fparse_poll {g : FCfg} (ok : g.OKu) {c : Conn} {F : Bytes} (hst : PSt g.cap g.mc g.W g.L0 [] c F)
    (hem : c.env.tr.endMode = .eof)
    (hsc : c.scripts = (g.hscript, true) :: g.more) (hm : c.env.mutex = none)
    (hev : hsCount c.env.tr.events = g.hs0) : FRes g (2 * c.env.tr.input.length + 6) c := by
  obtain ⟨n, c1, F1, hn, hs, hfr, hout⟩ := parse_loop (alignedBufsize_ge g.b) (fns ok) _ c F hst (Nat.le_refl _)
  have hnb : n ≤ 2 * c.env.tr.input.length + 2 := by have := wbit_le c; omega
  rcases hout with ⟨c2, h1, h2, h3, h4, h5⟩ | ⟨rest, t', hph, hf, hw, hstop1, hben1, hrem1, hwa, hlog, hts', hinp'⟩ |
      ⟨hin, hnf, hph, hst1⟩
  · refine ⟨c2, .pending, ⟨n, c1, by omega, hs, h1⟩, hfr.link.trans h3.link, Or.inl ⟨rfl, ?_, h4, ?_⟩⟩
    · have hts := hfr.ts.trans h3.ts
      exact .parse h2 (h3.scripts.trans (hfr.scripts.trans hsc)) (h3.mutex.trans (hfr.mutex.trans hm))
        (hts.hs.trans hev)
    · have := hfr.ts.ans_le; omega
  · -- the preamble is complete and its replies are written: the handler starts
    have hsc1 : c1.scripts = (g.hscript, true) :: g.more := hfr.scripts.trans hsc
    obtain ⟨e1, _, hwire, hL1, he1len, hstep'⟩ :=
      fhandler_start ok hph (by simpa using hw) hstop1 hrem1 hf hwa hlog hsc1
    have hmx1 : c1.env.mutex = none := hfr.mutex.trans hm
    have hwsE : WStep c1.env.tr (t'.ev (hsEvent g.p.request)) :=
      hts'.w.trans ⟨List.suffix_refl _, List.suffix_refl _, rfl, rfl, Or.inl rfl, Nat.le_refl _,
        fun s hs => List.mem_append_left _ hs⟩
    have hev1 : FEv1 g (t'.ev (hsEvent g.p.request)) := by
      have h0 : hsCount t'.events = g.hs0 := (hfr.ts.trans hts').hs.trans hev
      constructor
      · show hsCount (t'.events ++ [hsEvent g.p.request]) = g.hs0 + 1
        rw [hsCount_append, h0, hsCount_single_true (isHS_hsEvent _)]
      · show hsEvent g.p.request ∈ t'.events ++ [hsEvent g.p.request]
        simp
    have hben2 : Ben (t'.ev (hsEvent g.p.request)) := hben1.wstep hwsE
    have hem2 : (t'.ev (hsEvent g.p.request)).endMode = .eof := hwsE.em.trans (hfr.ts.em.trans hem)
    have hrst : RSt g.K1 g.L1 [] (AReq.new (Str.Parser.fromParser g.cap g.p.request e1 g.mc)) c1.env.mutex
        (t'.ev (hsEvent g.p.request)) [] [] := by
      refine ⟨⟨e1, frinv_start ok he1len (by show e1 ++ t'.input = g.K1.X; rw [hinp']; exact hwire)⟩, ?_,
        Or.inl hmx1, ⟨[], by show t'.wlog = _; rw [hL1, List.append_nil], rfl⟩⟩
      rw [hmx1]; exact lockInv_free rfl
    have hcore := r1_poll ok
      (c := ⟨.handler (AReq.new (Str.Parser.fromParser g.cap g.p.request e1 g.mc))
              { ops := g.hscript, propagate := true },
          (⟨t', c1.env.mutex, c1.env.segs⟩ : Run.Env).ev (hsEvent g.p.request), g.more, false⟩)
      (sub := .fresh) rfl hrst hben2 hem2 hev1 rfl
    have hres := FRes.of_steps (hs.trans (Steps.one hstep')) (hfr.link.trans ⟨hwsE, rfl, hstop1.symm ▸ rfl⟩) hcore
    exact hres.mono (by omega)
  · exfalso
    have hF1 : F1 = g.W := by
      have := hst1.wire
      rwa [hin, List.append_nil, List.append_nil] at this
    rcases C06.run_wire_state ok.wf g.K1.X (F := F1) (by rw [hF1]; exact List.prefix_refl _) g.mc with
      ⟨e1, _, _, hrun⟩ | ⟨t, ht, hFt, _⟩
    · rw [hrun] at hnf; cases hnf
    · rw [hF1, FCfg.W] at hFt
      have := congrArg List.length hFt
      have : 0 < t.length := List.length_pos_iff.mpr ht
      simp only [List.length_append] at *
      omega

theorem fstage_poll {g : FCfg} (ok : g.OKu) {c : Conn} (hst : FStage g c) (hem : c.env.tr.endMode = .eof) :
    FRes g (2 * c.env.tr.input.length + 6) c := by
  cases hst with
  | parse h1 h2 h3 h4 => exact fparse_poll ok h1 hem h2 h3 h4
  | r1 h1 h2 h3 h4 h5 => exact (r1_poll ok h1 h2 h3 hem h4 h5).mono (by omega)
  | r2 h1 h2 h3 h4 h5 h6 => exact (r2_poll ok h1 h2 h3 hem h4 h5 h6).mono (by omega)

theorem FStage.cong {g : FCfg} {c c' : Conn} (h : FStage g c) (hph : c'.phase = c.phase)
    (hsc : c'.scripts = c.scripts) (hstop : c'.stop = c.stop) (hmx : c'.env.mutex = c.env.mutex)
    (hs : TrSame c.env.tr c'.env.tr) : FStage g c' := by
  cases h with
  | parse h1 h2 h3 h4 => exact .parse (h1.cong hph hstop hs) (hsc.trans h2) (hmx.trans h3) (hs.hs.trans h4)
  | r1 h1 h2 h3 h4 h5 =>
    exact .r1 (hph.trans h1) (h2.cong hmx hs) (hs.ben h3) ⟨hs.hs.trans h4.1, hs.mem h4.2⟩ (hsc.trans h5)
  | r2 h1 h2 h3 h4 h5 h6 =>
    exact .r2 (hph.trans h1) (h2.cong hmx hs) (hs.ben h3) ⟨hs.hs.trans h4.1, hs.mem h4.2⟩ (hs.mem h5) (hsc.trans h6)

/-- **The executor** on a wire cut inside the stream. -/
theorem fmid_run {g : FCfg} (ok : g.OKu) : ∀ (A : Nat) (c : Conn) (n fuel : Nat),
    FStage g c → c.env.tr.endMode = .eof → c.env.segs = [] → ans c.env.tr ≤ A → A + 1 ≤ fuel →
    2 * c.env.tr.input.length + 6 ≤ 100000 →
    ∃ c', runTask fuel c n none = (c', "RET") ∧ FFin g c' := by
  intro A
  induction A with
  | zero =>
    intro c n fuel hst hem hsegs hA hf hlen
    obtain ⟨f, rfl⟩ : ∃ f, fuel = f + 1 := ⟨fuel - 1, by omega⟩
    obtain ⟨hsame, hph, hsc, hstop, hmx, hsg, hwk⟩ := prePoll_same c n hsegs
    have hst0 := hst.cong hph hsc hstop hmx hsame
    obtain ⟨c', r, hh, hl, ho⟩ := fstage_poll ok hst0 (hsame.em.trans hem)
    have hpoll := hh.pollT (by rw [hsame.input]; exact hlen)
    have hans0 : ans (prePoll c n none).env.tr = ans c.env.tr := by unfold ans; rw [hsame.rd, hsame.wr]
    rw [runTask_succ, hpoll]
    rcases ho with ⟨rfl, _, _, ha⟩ | ⟨rfl, hfin⟩
    · omega
    · exact ⟨c', rfl, hfin⟩
  | succ A ih =>
    intro c n fuel hst hem hsegs hA hf hlen
    obtain ⟨f, rfl⟩ : ∃ f, fuel = f + 1 := ⟨fuel - 1, by omega⟩
    obtain ⟨hsame, hph, hsc, hstop, hmx, hsg, hwk⟩ := prePoll_same c n hsegs
    have hst0 := hst.cong hph hsc hstop hmx hsame
    obtain ⟨c', r, hh, hl, ho⟩ := fstage_poll ok hst0 (hsame.em.trans hem)
    have hpoll := hh.pollT (by rw [hsame.input]; exact hlen)
    have hans0 : ans (prePoll c n none).env.tr = ans c.env.tr := by unfold ans; rw [hsame.rd, hsame.wr]
    rw [runTask_succ, hpoll]
    rcases ho with ⟨rfl, hst', hw, ha⟩ | ⟨rfl, hfin⟩
    · simp only [hw, if_true]
      have hlen' : 2 * c'.env.tr.input.length + 6 ≤ 100000 := by
        have := hl.ts.inp
        rw [hsame.input] at this
        omega
      exact ih c' (n + 1) f hst' (hl.ts.em.trans (hsame.em.trans hem)) (hl.segs.trans hsg) (by omega)
        (by omega) hlen'
    · exact ⟨c', rfl, hfin⟩

/-- … started in front of `parse_request`. -/
theorem fmid_run_start {g : FCfg} (ok : g.OK) {c : Conn} {n fuel : Nat}
    (hph : c.phase = .parseReq ⟨g.cap, [], .header, g.mc⟩ .start) (hstop : c.stop = false)
    (hinp : c.env.tr.input = g.W) (hlog : c.env.tr.wlog = g.L0) (hb : Ben c.env.tr)
    (hem : c.env.tr.endMode = .eof) (hsegs : c.env.segs = []) (hm : c.env.mutex = none)
    (hsc : c.scripts = (g.hscript, true) :: g.more) (hev : hsCount c.env.tr.events = g.hs0)
    (hf : ans c.env.tr + 1 ≤ fuel) (hlen : 2 * c.env.tr.input.length + 7 ≤ 100000) :
    ∃ c', runTask fuel c n none = (c', "RET") ∧ FFin g c' := by
  have ok := ok.toU
  obtain ⟨f, rfl⟩ : ∃ f, fuel = f + 1 := ⟨fuel - 1, by omega⟩
  obtain ⟨hsame, hph0, hsc0, hstop0, hmx, hsg, hwk⟩ := prePoll_same c n hsegs
  rw [runTask_succ]
  generalize prePoll c n none = c0 at *
  have hstop1 : c0.stop = false := hstop0.trans hstop
  have hns0 := fns ok [] (List.nil_prefix)
  have h24 := alignedBufsize_ge g.b
  have hstart := start_track (cap := g.cap) (mc := g.mc) h24 (raw := []) (Nat.zero_le _) hns0
  have hstep := step_start c0 _ (hph0.trans hph) hstop1
  rw [hstart] at hstep
  have hstep' : stepConn c0 = .next (mkC c0 (.parseReq (track g.cap g.mc [])
      (.writing (run .header [] g.mc).out (run .header [] g.mc).st.isFinal)) c0.env.tr) := hstep
  have hremle : (run .header [] g.mc).rem.length ≤ g.cap := by
    have := (run_ok [] g.mc (st := .header) trivial).2.2.length_le
    simp only [List.length_nil] at this
    omega
  have hst : PSt g.cap g.mc g.W g.L0 [] (mkC c0 (.parseReq (track g.cap g.mc [])
      (.writing (run .header [] g.mc).out (run .header [] g.mc).st.isFinal)) c0.env.tr) [] :=
    ⟨by show [] ++ c0.env.tr.input ++ [] = g.W
        rw [hsame.input, hinp, List.nil_append, List.append_nil],
      hstop1, hsame.ben hb, hremle, Or.inr ⟨_, rfl, by show c0.env.tr.wlog ++ _ = _; rw [hsame.wlog, hlog], [], rfl⟩⟩
  have hres := fparse_poll ok hst (hsame.em.trans hem) (hsc0.trans hsc) (hmx.trans hm) (hsame.hs.trans hev)
  obtain ⟨c', r, hh, hl, ho⟩ := FRes.of_steps (Steps.one hstep') (mkC_link c0 _ (.refl _)) hres
  have hpoll := hh.pollT (by
    show 1 + (2 * c0.env.tr.input.length + 6) ≤ 100000
    rw [hsame.input]; omega)
  have hans0 : ans c0.env.tr = ans c.env.tr := by unfold ans; rw [hsame.rd, hsame.wr]
  rw [hpoll]
  rcases ho with ⟨rfl, hst', hw, ha⟩ | ⟨rfl, hfin⟩
  · simp only [hw, if_true]
    have hlen' : 2 * c'.env.tr.input.length + 6 ≤ 100000 := by
      have := hl.ts.inp
      rw [hsame.input] at this
      omega
    exact fmid_run ok (ans c'.env.tr) c' (n + 1) f hst' (hl.ts.em.trans (hsame.em.trans hem))
      (hl.segs.trans hsg) (Nat.le_refl _) (by omega) hlen'
  · exact ⟨c', rfl, hfin⟩


end Fcgi.C12E
