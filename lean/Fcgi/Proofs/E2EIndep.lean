import Fcgi.Proofs.C12Inv

/-!
# A run depends only on the scripted WRITE answers it has consumed — the async layer

`ext xs t`: the transport `t` with the answers `xs` appended to its write script.  The first answer
of `xs` is a failing one (`BadHead xs`: `.err` or `.zero`).  Every function `f` of the async model
satisfies the dichotomy

* **same**: `f (ext xs t)` is `f t` with `xs` appended to the remaining script — same results, same
  events, same log (the run on `t` did not need more answers than `t.wr` has: the appended ones were
  not reached); or
* **hit**: the run on `ext xs t` consumed the failing answer: its result is a stopping error
  (`C12Inv.oStop` … `= true`) and its write log is a byte PREFIX of the log of the run on `t`
  (at the failing call the two logs were equal; the failing run writes nothing more inside `f`, the
  other one only appends — `TLe`).

On an empty script the model answers `.all` (accept everything): that is what the run on `t` does
where the run on `ext xs t` meets the failing answer.
-/
namespace Fcgi.Indep
open Fcgi Fcgi.Req Fcgi.Str Fcgi.Async Fcgi.Run Fcgi.C12Inv

def ext (xs : List WrAns) (t : Transport) : Transport := { t with wr := t.wr ++ xs }

/-- the appended answers start with a failing one -/
def BadHead (xs : List WrAns) : Prop := ∃ b post, xs = b :: post ∧ wrBad b = true

@[simp] theorem ext_input (xs : List WrAns) (t : Transport) : (ext xs t).input = t.input := rfl
@[simp] theorem ext_wlog (xs : List WrAns) (t : Transport) : (ext xs t).wlog = t.wlog := rfl
theorem ext_ev (xs : List WrAns) (t : Transport) (s : String) : (ext xs t).ev s = ext xs (t.ev s) := rfl

theorem pre_tle {a : Bytes} {t t' : Transport} (h : a <+: t.wlog) (hle : TLe t t') : a <+: t'.wlog := by
  obtain ⟨w, hw⟩ := hle.wl
  rw [hw]; exact h.trans (List.prefix_append _ _)

/-! ## The primitives -/

theorem read_ext (xs : List WrAns) (t : Transport) (cap : Nat) :
    (ext xs t).read cap = (ext xs (t.read cap).1, (t.read cap).2) := by
  obtain ⟨input, endMode, rd, wr, fl, wlog, events, hold, woken, readWaker, abortKind⟩ := t
  unfold Transport.read ext
  simp only
  repeat' split
  all_goals first | rfl | simp_all [Transport.ev, Transport.rdErr]

theorem flush_ext (xs : List WrAns) (t : Transport) :
    (ext xs t).flush = (ext xs t.flush.1, t.flush.2) := by
  obtain ⟨input, endMode, rd, wr, fl, wlog, events, hold, woken, readWaker, abortKind⟩ := t
  unfold Transport.flush ext
  simp only
  repeat' split
  all_goals first | rfl | simp_all [Transport.ev, Transport.flErr]

theorem writeV_ext (xs : List WrAns) (t : Transport) (sl : List Bytes) (tag : String)
    (h : t.wr ≠ [] ∨ sl.flatten = []) :
    (ext xs t).writeV sl tag = (ext xs (t.writeV sl tag).1, (t.writeV sl tag).2) := by
  obtain ⟨input, endMode, rd, wr, fl, wlog, events, hold, woken, readWaker, abortKind⟩ := t
  unfold Transport.writeV ext
  simp only
  by_cases hd : sl.flatten.isEmpty = true
  · simp [hd, Transport.ev]
  · have hd' : sl.flatten ≠ [] := by simpa using hd
    rcases h with h | h
    · simp only at h
      cases wr with
      | nil => exact absurd rfl h
      | cons a r =>
        simp only [hd, Bool.false_eq_true, if_false, List.cons_append]
        cases a <;> simp [Transport.ev, Transport.wrErr]
    · exact absurd h hd'

/-- the failing answer is consumed: a stopping result, nothing written -/
theorem writeV_hit {xs : List WrAns} (hx : BadHead xs) (t : Transport) (sl : List Bytes) (tag : String)
    (hwr : t.wr = []) (hd : sl.flatten ≠ []) :
    pStop ((ext xs t).writeV sl tag).2 = true ∧ ((ext xs t).writeV sl tag).1.wlog = t.wlog := by
  obtain ⟨b, post, rfl, hb⟩ := hx
  obtain ⟨input, endMode, rd, wr, fl, wlog, events, hold, woken, readWaker, abortKind⟩ := t
  simp only at hwr
  subst hwr
  have hd' : sl.flatten.isEmpty = false := by simpa using hd
  unfold Transport.writeV ext
  simp only [hd', List.nil_append]
  cases b <;> simp_all [wrBad, Transport.ev, Transport.wrErr, pStop, errStop] <;> split <;> simp

theorem writeV_dich {xs : List WrAns} (hx : BadHead xs) (t : Transport) (sl : List Bytes) (tag : String) :
    (ext xs t).writeV sl tag = (ext xs (t.writeV sl tag).1, (t.writeV sl tag).2) ∨
    (pStop ((ext xs t).writeV sl tag).2 = true ∧ ((ext xs t).writeV sl tag).1.wlog = t.wlog) := by
  by_cases h : t.wr ≠ [] ∨ sl.flatten = []
  · exact Or.inl (writeV_ext xs t sl tag h)
  · have h1 : t.wr = [] := by
      by_cases h' : t.wr = []
      · exact h'
      · exact absurd (Or.inl h') h
    exact Or.inr (writeV_hit hx t sl tag h1 (fun h' => h (Or.inr h')))

theorem write_dich {xs : List WrAns} (hx : BadHead xs) (t : Transport) (buf : Bytes) :
    (ext xs t).write buf = (ext xs (t.write buf).1, (t.write buf).2) ∨
    (pStop ((ext xs t).write buf).2 = true ∧ ((ext xs t).write buf).1.wlog = t.wlog) :=
  writeV_dich hx t [buf] "W"

/-- what a `pStop` answer is -/
theorem pStop_cases {r : Poll (Except IoErr Nat)} (h : pStop r = true) :
    (∃ e, r = .ready (.error e) ∧ errStop e = true) ∨ r = .ready (.ok 0) := by
  cases r with
  | pending => cases h
  | ready x =>
    cases x with
    | error e => exact Or.inl ⟨e, rfl, h⟩
    | ok n =>
      cases n with
      | zero => exact Or.inr rfl
      | succ k => cases h

/-! ## `write_all`, `poll_output` -/

theorem writeAllLoop_dich {xs : List WrAns} (hx : BadHead xs) : ∀ (fuel : Nat) (buf : Bytes) (t : Transport)
    {rest : Bytes} {t' : Transport} {res : ORes}, writeAllLoop fuel buf t = (rest, t', res) →
    writeAllLoop fuel buf (ext xs t) = (rest, ext xs t', res) ∨
    (∃ rest2 t2 res2, writeAllLoop fuel buf (ext xs t) = (rest2, t2, res2) ∧ oStop res2 = true ∧
      t2.wlog <+: t'.wlog) := by
  intro fuel
  induction fuel with
  | zero => intro buf t rest t' res h; simp only [writeAllLoop] at h ⊢; cases h; exact Or.inl rfl
  | succ n ih =>
    intro buf t rest t' res h
    have hle := writeAllLoop_le _ _ _ h
    simp only [writeAllLoop] at h ⊢
    by_cases hbuf : buf.isEmpty = true
    · simp only [hbuf, if_true] at h ⊢
      cases h; exact Or.inl rfl
    · simp only [hbuf, Bool.false_eq_true, if_false] at h ⊢
      rcases write_dich hx t buf with hs | ⟨hp, hl⟩
      · rw [hs]
        rcases hw : t.write buf with ⟨tw, r⟩
        rw [hw] at h
        simp only
        cases r with
        | pending => simp only at h ⊢; cases h; exact Or.inl rfl
        | ready x =>
          cases x with
          | error e => simp only at h ⊢; cases h; exact Or.inl rfl
          | ok k =>
            cases k with
            | zero => simp only at h ⊢; cases h; exact Or.inl rfl
            | succ k => simp only at h ⊢; exact ih _ _ h
      · right
        rcases h2 : (ext xs t).write buf with ⟨t2, r2⟩
        rw [h2] at hp hl
        simp only at hp hl
        rcases pStop_cases hp with ⟨e, rfl, he⟩ | rfl
        · exact ⟨buf, t2, .err e, rfl, he, by rw [hl]; exact pre_tle (List.prefix_refl _) hle⟩
        · exact ⟨buf, t2, .err .writeZero, rfl, rfl, by rw [hl]; exact pre_tle (List.prefix_refl _) hle⟩

theorem outLoop_dich {xs : List WrAns} (hx : BadHead xs) : ∀ (fuel : Nat) (sp : Str.Parser) (t : Transport)
    {sp' : Str.Parser} {t' : Transport} {res : ORes}, outLoop fuel sp t = (sp', t', res) →
    outLoop fuel sp (ext xs t) = (sp', ext xs t', res) ∨
    (∃ sp2 t2 res2, outLoop fuel sp (ext xs t) = (sp2, t2, res2) ∧ oStop res2 = true ∧ t2.wlog <+: t'.wlog) := by
  intro fuel
  induction fuel with
  | zero => intro sp t sp' t' res h; simp only [outLoop] at h ⊢; cases h; exact Or.inl rfl
  | succ n ih =>
    intro sp t sp' t' res h
    have hle := outLoop_le _ _ _ h
    simp only [outLoop] at h ⊢
    by_cases hbuf : sp.output.isEmpty = true
    · simp only [hbuf, if_true] at h ⊢
      cases h; exact Or.inl rfl
    · simp only [hbuf, Bool.false_eq_true, if_false] at h ⊢
      rcases write_dich hx t sp.output with hs | ⟨hp, hl⟩
      · rw [hs]
        rcases hw : t.write sp.output with ⟨tw, r⟩
        rw [hw] at h
        simp only
        cases r with
        | pending => simp only at h ⊢; cases h; exact Or.inl rfl
        | ready x =>
          cases x with
          | error e => simp only at h ⊢; cases h; exact Or.inl rfl
          | ok k =>
            cases k with
            | zero => simp only at h ⊢; cases h; exact Or.inl rfl
            | succ k => simp only at h ⊢; exact ih _ _ h
      · right
        rcases h2 : (ext xs t).write sp.output with ⟨t2, r2⟩
        rw [h2] at hp hl
        simp only at hp hl
        rcases pStop_cases hp with ⟨e, rfl, he⟩ | rfl
        · exact ⟨sp, t2, .err e, rfl, he, by rw [hl]; exact pre_tle (List.prefix_refl _) hle⟩
        · exact ⟨sp, t2, .err .writeZero, rfl, rfl, by rw [hl]; exact pre_tle (List.prefix_refl _) hle⟩

/-- what an `oStop` result is -/
theorem oStop_cases {r : ORes} (h : oStop r = true) : ∃ e, r = .err e ∧ errStop e = true := by
  cases r with
  | err e => exact ⟨e, rfl, h⟩
  | ready => cases h
  | pending => cases h
  | panic s => cases h

theorem pollOutput_dich {xs : List WrAns} (hx : BadHead xs) {r : AReq} {m : MutexSt} {t : Transport}
    {r' : AReq} {m' : MutexSt} {t' : Transport} {res : ORes} (h : r.pollOutput m t = (r', m', t', res)) :
    r.pollOutput m (ext xs t) = (r', m', ext xs t', res) ∨
    (∃ r2 m2 t2 res2, r.pollOutput m (ext xs t) = (r2, m2, t2, res2) ∧ oStop res2 = true ∧ t2.wlog <+: t'.wlog) := by
  simp only [AReq.pollOutput] at h ⊢
  split
  · split
    · simp_all
    · simp_all
  · rename_i hne
    simp only [hne, Bool.false_eq_true, if_false] at h
    rcases hlp : lockPoll (if r.lock == .none then LockSt.polling else r.lock) m 0 with ⟨l, m1, got⟩
    rw [hlp] at h
    simp only at h ⊢
    by_cases hg : got = true
    · subst hg
      simp only [Bool.not_true, Bool.false_eq_true, if_false] at h ⊢
      rcases ho : outLoop (r.sp.output.length + 1) r.sp t with ⟨sp1, t1, o⟩
      rw [ho] at h
      rcases outLoop_dich hx _ _ _ ho with hs | ⟨sp2, t2, res2, h2, hst, hpre⟩
      · left
        simp only [hs]
        cases o <;> simp only at h ⊢ <;> cases h <;> rfl
      · right
        obtain ⟨e, rfl, he⟩ := oStop_cases hst
        simp only [h2]
        refine ⟨_, _, t2, .err e, rfl, he, ?_⟩
        cases o <;> simp only at h <;> cases h <;> exact hpre
    · have hg' : got = false := by simpa using hg
      subst hg'
      simp only [Bool.not_false, if_true] at h ⊢
      cases h; exact Or.inl rfl

/-! ## `poll_input` -/

/-- the part of the read loop behind `poll_output`: read, then loop -/
def inCont (fuel : Nat) (r : AReq) (dest : Option Nat) (m : MutexSt) (t : Transport) :
    AReq × MutexSt × Transport × IRes :=
  match t.read r.sp.free with
  | (t, .pending) => (r, m, t, .pending)
  | (t, .ready (.error e)) => (r, m, t, .err e)
  | (t, .ready (.ok [])) => (r, m, t, .err .unexpectedEof)
  | (t, .ready (.ok bs)) => inLoop fuel r bs dest m t

theorem inLoop_succ (fuel : Nat) (r : AReq) (new : Bytes) (dest : Option Nat) (m : MutexSt) (t : Transport) :
    inLoop (fuel + 1) r new dest m t =
      match r.sp.parse new dest with
      | (sp, .panic s) => ({ r with sp := sp }, m, t, .panic s)
      | (sp, .err e) => ({ r with sp := sp }, m, t, .err (ioOfPErr e))
      | (sp, .ok st) =>
        if st.streamEnd || st.stream > 0 then
          ((if !r.writeable && ({ r with sp := sp } : AReq).isFinalStream then { sp := sp, lock := r.lock, writeable := true }
            else { r with sp := sp }), m, t, .ready st.stream st.delivered)
        else
          match ({ r with sp := sp.compress } : AReq).pollOutput m t with
          | (r, m, t, .pending) => (r, m, t, .pending)
          | (r, m, t, .err e) => (r, m, t, .err e)
          | (r, m, t, .panic s) => (r, m, t, .panic s)
          | (r, m, t, .ready) => inCont fuel r dest m t := by
  simp only [inLoop, inCont]
  rfl

theorem iStop_cases {r : IRes} (h : iStop r = true) : ∃ e, r = .err e ∧ errStop e = true := by
  cases r with
  | err e => exact ⟨e, rfl, h⟩
  | ready n d => cases h
  | pending => cases h
  | panic s => cases h

theorem inLoop_dich {xs : List WrAns} (hx : BadHead xs) : ∀ (fuel : Nat) (r : AReq) (new : Bytes) (dest : Option Nat)
    (m : MutexSt) (t : Transport) {r' : AReq} {m' : MutexSt} {t' : Transport} {res : IRes},
    inLoop fuel r new dest m t = (r', m', t', res) →
    inLoop fuel r new dest m (ext xs t) = (r', m', ext xs t', res) ∨
    (∃ r2 m2 t2 res2, inLoop fuel r new dest m (ext xs t) = (r2, m2, t2, res2) ∧ iStop res2 = true ∧
      t2.wlog <+: t'.wlog) := by
  intro fuel
  induction fuel with
  | zero => intro r new dest m t r' m' t' res h; simp only [inLoop] at h ⊢; cases h; exact Or.inl rfl
  | succ n ih =>
    intro r new dest m t r' m' t' res h
    -- the continuation behind `poll_output`
    have hcont : ∀ (r3 : AReq) (m3 : MutexSt) (t3 : Transport), inCont n r3 dest m3 t3 = (r', m', t', res) →
        TLe t3 t' ∧ (inCont n r3 dest m3 (ext xs t3) = (r', m', ext xs t', res) ∨
          (∃ r2 m2 t2 res2, inCont n r3 dest m3 (ext xs t3) = (r2, m2, t2, res2) ∧ iStop res2 = true ∧
            t2.wlog <+: t'.wlog)) := by
      intro r3 m3 t3 hc
      simp only [inCont] at hc ⊢
      rw [read_ext]
      rcases hr : t3.read r3.sp.free with ⟨t4, rr⟩
      rw [hr] at hc
      have h4 := read_le hr
      simp only
      cases rr with
      | pending => simp only at hc ⊢; cases hc; exact ⟨h4, Or.inl rfl⟩
      | ready x =>
        cases x with
        | error e => simp only at hc ⊢; cases hc; exact ⟨h4, Or.inl rfl⟩
        | ok bs =>
          cases bs with
          | nil => simp only at hc ⊢; cases hc; exact ⟨h4, Or.inl rfl⟩
          | cons b bs => simp only at hc ⊢; exact ⟨h4.trans (inLoop_le _ _ _ _ _ _ hc), ih _ _ _ _ _ hc⟩
    rw [inLoop_succ] at h ⊢
    rcases hp : r.sp.parse new dest with ⟨sp, pr⟩
    rw [hp] at h
    cases pr with
    | panic s => simp only at h ⊢; cases h; exact Or.inl rfl
    | err e => simp only at h ⊢; cases h; exact Or.inl rfl
    | ok st =>
      by_cases hc : (st.streamEnd || decide (st.stream > 0)) = true
      · simp only [hc, if_true] at h ⊢
        cases h; exact Or.inl rfl
      · simp only [hc, Bool.false_eq_true, if_false] at h ⊢
        rcases hpo : AReq.pollOutput { r with sp := sp.compress } m t with ⟨r3, m3, t3, o⟩
        rw [hpo] at h
        rcases pollOutput_dich hx hpo with hs | ⟨r2, m2, t2, res2, h2, hst, hpre⟩
        · rw [hs]
          cases o with
          | pending => simp only at h ⊢; cases h; exact Or.inl rfl
          | err e => simp only at h ⊢; cases h; exact Or.inl rfl
          | panic s => simp only at h ⊢; cases h; exact Or.inl rfl
          | ready => simp only at h ⊢; exact (hcont _ _ _ h).2
        · right
          obtain ⟨e, rfl, he⟩ := oStop_cases hst
          rw [h2]
          simp only
          refine ⟨r2, m2, t2, .err e, rfl, he, ?_⟩
          cases o with
          | pending => simp only at h; cases h; exact hpre
          | err e => simp only at h; cases h; exact hpre
          | panic s => simp only at h; cases h; exact hpre
          | ready => simp only at h; exact pre_tle hpre (hcont _ _ _ h).1

/-- `poll_input` behind its shortcuts: `poll_output`, then the read loop -/
def piMain (r : AReq) (dest : Option Nat) (m : MutexSt) (t : Transport) : AReq × MutexSt × Transport × IRes :=
  match r.pollOutput m t with
  | (r, m, t, .pending) => (r, m, t, .pending)
  | (r, m, t, .err e) => (r, m, t, .err e)
  | (r, m, t, .panic s) => (r, m, t, .panic s)
  | (r, m, t, .ready) => inLoop (t.input.length + 2) r [] dest m t

theorem piMain_dich {xs : List WrAns} (hx : BadHead xs) {r : AReq} {dest : Option Nat} {m : MutexSt} {t : Transport}
    {r' : AReq} {m' : MutexSt} {t' : Transport} {res : IRes} (h : piMain r dest m t = (r', m', t', res)) :
    piMain r dest m (ext xs t) = (r', m', ext xs t', res) ∨
    (∃ r2 m2 t2 res2, piMain r dest m (ext xs t) = (r2, m2, t2, res2) ∧ iStop res2 = true ∧ t2.wlog <+: t'.wlog) := by
  simp only [piMain] at h ⊢
  rcases hpo : r.pollOutput m t with ⟨r3, m3, t3, o⟩
  rw [hpo] at h
  rcases pollOutput_dich hx hpo with hs | ⟨r2, m2, t2, res2, h2, hst, hpre⟩
  · rw [hs]
    cases o with
    | pending => simp only at h ⊢; cases h; exact Or.inl rfl
    | err e => simp only at h ⊢; cases h; exact Or.inl rfl
    | panic s => simp only at h ⊢; cases h; exact Or.inl rfl
    | ready => simp only [ext_input] at h ⊢; exact inLoop_dich hx _ _ _ _ _ _ h
  · right
    obtain ⟨e, rfl, he⟩ := oStop_cases hst
    rw [h2]
    simp only
    refine ⟨r2, m2, t2, .err e, rfl, he, ?_⟩
    cases o with
    | pending => simp only at h; cases h; exact hpre
    | err e => simp only at h; cases h; exact hpre
    | panic s => simp only at h; cases h; exact hpre
    | ready => simp only at h; exact pre_tle hpre (inLoop_le _ _ _ _ _ _ h)

theorem pollInput_eq (r : AReq) (dest : Option Nat) (m : MutexSt) (t : Transport) :
    r.pollInput dest m t =
      match dest, r.sp.parsed with
      | some 0, _ => (r, m, t, .ready 0 [])
      | none, _ :: _ => (r, m, t, .ready 0 [])
      | some n, b :: bs =>
        ({ r with sp := r.sp.consumeStream (min n (b :: bs).length) }, m, t,
          .ready (min n (b :: bs).length) ((b :: bs).take (min n (b :: bs).length)))
      | _, _ => piMain r dest m t := by
  unfold AReq.pollInput piMain
  rcases dest with _ | n
  · rcases hb : r.sp.parsed with _ | ⟨b, bs⟩ <;> rfl
  · rcases n with _ | n
    · rfl
    · rcases hb : r.sp.parsed with _ | ⟨b, bs⟩ <;> rfl

theorem pollInput_dich {xs : List WrAns} (hx : BadHead xs) {r : AReq} {dest : Option Nat} {m : MutexSt} {t : Transport}
    {r' : AReq} {m' : MutexSt} {t' : Transport} {res : IRes} (h : r.pollInput dest m t = (r', m', t', res)) :
    r.pollInput dest m (ext xs t) = (r', m', ext xs t', res) ∨
    (∃ r2 m2 t2 res2, r.pollInput dest m (ext xs t) = (r2, m2, t2, res2) ∧ iStop res2 = true ∧ t2.wlog <+: t'.wlog) := by
  rw [pollInput_eq] at h ⊢
  split at h
  · cases h; exact Or.inl rfl
  · cases h; exact Or.inl rfl
  · cases h; exact Or.inl rfl
  · exact piMain_dich hx h

theorem writeablePoll_dich {xs : List WrAns} (hx : BadHead xs) {r : AReq} {started : Bool} {m : MutexSt} {t : Transport}
    {r' : AReq} {b : Bool} {m' : MutexSt} {t' : Transport} {res : ORes}
    (h : r.writeablePoll started m t = (r', b, m', t', res)) :
    r.writeablePoll started m (ext xs t) = (r', b, m', ext xs t', res) ∨
    (∃ r2 b2 m2 t2 res2, r.writeablePoll started m (ext xs t) = (r2, b2, m2, t2, res2) ∧ oStop res2 = true ∧
      t2.wlog <+: t'.wlog) := by
  unfold AReq.writeablePoll at h ⊢
  by_cases hc : (!started && r.writeable) = true
  · simp only [hc, if_true] at h ⊢; cases h; exact Or.inl rfl
  · simp only [hc, Bool.false_eq_true, if_false] at h ⊢
    split at h
    · rename_i heq
      try simp only [heq]
      cases h; exact Or.inl rfl
    · rename_i r0 heq
      try simp only [heq]
      rcases hpi : r0.pollInput none m t with ⟨r3, m3, t3, ri⟩
      rw [hpi] at h
      rcases pollInput_dich hx hpi with hs | ⟨r2, m2, t2, res2, h2, hst, hpre⟩
      · rw [hs]
        cases ri <;> simp only at h ⊢ <;> cases h <;> exact Or.inl rfl
      · right
        obtain ⟨e, rfl, he⟩ := iStop_cases hst
        rw [h2]
        refine ⟨r2, true, m2, t2, .err e, rfl, he, ?_⟩
        cases ri <;> simp only at h <;> cases h <;> exact hpre

/-! ## `StreamWriter` -/

theorem wStop_cases {r : WRes} (h : wStop r = true) : ∃ e, r = .err e ∧ errStop e = true := by
  cases r with
  | err e => exact ⟨e, rfl, h⟩
  | ready n => cases h
  | pending => cases h
  | panic s => cases h

theorem writeLoop_dich {xs : List WrAns} (hx : BadHead xs) : ∀ (fuel : Nat) (w : Writer) (head buf : Bytes) (t : Transport)
    {w' : Writer} {t' : Transport} {res : WRes}, writeLoop fuel w head buf t = (w', t', res) →
    writeLoop fuel w head buf (ext xs t) = (w', ext xs t', res) ∨
    (∃ w2 t2 res2, writeLoop fuel w head buf (ext xs t) = (w2, t2, res2) ∧ wStop res2 = true ∧ t2.wlog <+: t'.wlog) := by
  intro fuel
  induction fuel with
  | zero => intro w head buf t w' t' res h; simp only [writeLoop] at h ⊢; cases h; exact Or.inl rfl
  | succ n ih =>
    intro w head buf t w' t' res h
    have hle := writeLoop_le _ _ _ _ _ h
    simp only [writeLoop] at h ⊢
    by_cases h1 : (!w.isWriting) = true
    · simp only [h1, if_true] at h ⊢; cases h; exact Or.inl rfl
    · simp only [h1, Bool.false_eq_true, if_false] at h ⊢
      by_cases h2 : w.contentLen > buf.length
      · simp only [h2, if_true] at h ⊢; cases h; exact Or.inl rfl
      · simp only [h2, if_false] at h ⊢
        rcases writeV_dich hx t [head.drop w.headIdx, buf.drop (buf.length - w.contentLen), zeros w.padLen] "V" with
          hs | ⟨hp, hl⟩
        · rw [hs]
          rcases hw : t.writeV [head.drop w.headIdx, buf.drop (buf.length - w.contentLen), zeros w.padLen] "V" with ⟨tw, r⟩
          rw [hw] at h
          cases r with
          | pending => simp only at h ⊢; cases h; exact Or.inl rfl
          | ready x =>
            cases x with
            | error e => simp only at h ⊢; cases h; exact Or.inl rfl
            | ok k =>
              cases k with
              | zero => simp only at h ⊢; cases h; exact Or.inl rfl
              | succ k =>
                simp only at h ⊢
                split at h
                · rename_i hc
                  rw [if_pos hc]
                  cases h; exact Or.inl rfl
                · rename_i hc
                  rw [if_neg hc]
                  exact ih _ _ _ _ h
        · right
          rcases h2' : (ext xs t).writeV [head.drop w.headIdx, buf.drop (buf.length - w.contentLen), zeros w.padLen] "V" with
            ⟨t2, r2⟩
          rw [h2'] at hp hl
          simp only at hp hl
          rcases pStop_cases hp with ⟨e, rfl, he⟩ | rfl
          · exact ⟨w, t2, .err e, rfl, he, by rw [hl]; exact pre_tle (List.prefix_refl _) hle⟩
          · exact ⟨w, t2, .err .writeZero, rfl, rfl, by rw [hl]; exact pre_tle (List.prefix_refl _) hle⟩

theorem pollWrite_dich {xs : List WrAns} (hx : BadHead xs) {w : Writer} {me : Nat} {buf : Bytes} {m : MutexSt}
    {t : Transport} {w' : Writer} {m' : MutexSt} {t' : Transport} {res : WRes}
    (h : w.pollWrite me buf m t = (w', m', t', res)) :
    w.pollWrite me buf m (ext xs t) = (w', m', ext xs t', res) ∨
    (∃ w2 m2 t2 res2, w.pollWrite me buf m (ext xs t) = (w2, m2, t2, res2) ∧ wStop res2 = true ∧ t2.wlog <+: t'.wlog) := by
  simp only [Writer.pollWrite] at h ⊢
  split at h
  · rename_i hc; (try simp only [hc, if_true]); cases h; exact Or.inl rfl
  · rename_i hc
    try simp only [hc, if_false]
    split at h
    · rename_i heq; (try simp only [heq]); cases h; exact Or.inl rfl
    · rename_i w1 heq
      try simp only [heq]
      split at h
      · rename_i hc1; (try simp only [hc1, if_true]); cases h; exact Or.inl rfl
      · rename_i hc1
        try simp only [hc1, if_false]
        split at h
        · rename_i hc2; (try simp only [hc2, if_true]); cases h; exact Or.inl rfl
        · rename_i hc2
          try simp only [hc2, if_false]
          rcases hlp : lockPoll w1.lock m (me + 1) with ⟨l, m1, got⟩
          rw [hlp] at h
          simp only at h ⊢
          split at h
          · rename_i hg; (try simp only [hg, if_true]); cases h; exact Or.inl rfl
          · rename_i hg
            try simp only [hg, if_false]
            rcases hwl : writeLoop (8 + w1.contentLen + w1.padLen + 1) { w1 with lock := l }
              ({ w1 with lock := l } : Writer).headBytes (buf.take w1.origLen) t with ⟨w3, t3, r3⟩
            rw [hwl] at h
            rcases writeLoop_dich hx _ _ _ _ _ hwl with hs | ⟨w2, t2, res2, h2, hst, hpre⟩
            · rw [hs]
              cases r3 <;> simp only at h ⊢ <;> cases h <;> exact Or.inl rfl
            · right
              obtain ⟨e, rfl, he⟩ := wStop_cases hst
              rw [h2]
              refine ⟨w2, m1, t2, .err e, rfl, he, ?_⟩
              cases r3 <;> simp only at h <;> cases h <;> exact hpre

theorem pollFlush_ext (xs : List WrAns) (w : Writer) (me : Nat) (m : MutexSt) (t : Transport) :
    w.pollFlush me m (ext xs t) =
      ((w.pollFlush me m t).1, (w.pollFlush me m t).2.1, ext xs (w.pollFlush me m t).2.2.1, (w.pollFlush me m t).2.2.2) := by
  simp only [Writer.pollFlush]
  split
  · rfl
  · rcases lockPoll (if w.lock == .none then LockSt.polling else w.lock) m (me + 1) with ⟨l, m1, got⟩
    simp only
    split
    · rfl
    · rw [flush_ext]
      rcases t.flush with ⟨tf, r⟩
      cases r with
      | pending => rfl
      | ready x => cases x <;> rfl

/-! ## The handler -/

def extE (xs : List WrAns) (e : Env) : Env := { e with tr := ext xs e.tr }

theorem hStop_err {e : IoErr} (h : errStop e = true) : hStop (.done (.error e)) = true := h

/-- log-only order -/
theorem pre_ev {a : Bytes} {t : Transport} (s : String) (h : a <+: t.wlog) : a <+: (t.ev s).wlog := h

def restOf (sub : HSub) (data : Bytes) : Bytes :=
  match sub with
  | .writeRest rd => rd
  | _ => data

theorem hp_writeAll' (fuel : Nat) (r : AReq) (i : Nat) (data : Bytes) (rest : List HOp) (sub : HSub)
    (ws : List (Option Writer)) (w : Writer) (hw : ws.getD i none = some w) (e : Run.Env) :
    handlerPoll (fuel + 1) r { ops := .writeAll i data :: rest, sub := sub, writers := ws, propagate := true } e =
      if (restOf sub data).isEmpty then
        handlerPoll fuel r { ops := rest, sub := .fresh, writers := ws, propagate := true } (e.ev "W=ok")
      else match w.pollWrite i (restOf sub data) e.mutex e.tr with
        | (w, m, t, .pending) =>
          (r, { ops := .writeAll i data :: rest, sub := .writeRest (restOf sub data), writers := ws.set i (some w), propagate := true },
            { e with mutex := m, tr := t }, .pending)
        | (w, m, t, .ready 0) =>
          (r, { ops := rest, sub := .fresh, writers := ws.set i (some w), propagate := true },
            ({ e with mutex := m, tr := t }.ev "W!writezero"), .done (.error .writeZero))
        | (w, m, t, .ready n) =>
          handlerPoll fuel r
            { ops := .writeAll i data :: rest, sub := .writeRest ((restOf sub data).drop n), writers := ws.set i (some w), propagate := true }
            { e with mutex := m, tr := t }
        | (w, m, t, .err x) =>
          (r, { ops := rest, sub := .fresh, writers := ws.set i (some w), propagate := true },
            ({ e with mutex := m, tr := t }.ev s!"W!{showIo x}"), .done (.error x))
        | (w, m, t, .panic s) =>
          (r, { ops := .writeAll i data :: rest, sub := sub, writers := ws.set i (some w), propagate := true },
            { e with mutex := m, tr := t }, .panic s) := by
  simp only [handlerPoll, hw]
  cases sub <;> rfl

theorem handlerPoll_dich {xs : List WrAns} (hx : BadHead xs) : ∀ (fuel : Nat) (r : AReq) (h : HState) (e : Env)
    {r' : AReq} {h' : HState} {e' : Env} {res : HRes}, h.propagate = true →
    handlerPoll fuel r h e = (r', h', e', res) →
    handlerPoll fuel r h (extE xs e) = (r', h', extE xs e', res) ∨
    (∃ r2 h2 e2 res2, handlerPoll fuel r h (extE xs e) = (r2, h2, e2, res2) ∧ hStop res2 = true ∧
      e2.tr.wlog <+: e'.tr.wlog) := by
  intro fuel
  induction fuel with
  | zero => intro r h e r' h' e' res _ hh; simp only [handlerPoll] at hh ⊢; cases hh; exact Or.inl rfl
  | succ n ih =>
    intro r h e r' h' e' res hpr hh
    obtain ⟨ops, sub, ws, pr⟩ := h
    simp only at hpr
    subst hpr
    cases ops with
    | nil => simp only [handlerPoll] at hh ⊢; cases hh; exact Or.inl rfl
    | cons op rest =>
      cases op with
      | ret st => simp only [handlerPoll] at hh ⊢; cases hh; exact Or.inl rfl
      | retErr x => simp only [handlerPoll] at hh ⊢; cases hh; exact Or.inl rfl
      | consume k => simp only [handlerPoll] at hh ⊢; exact ih _ _ _ rfl hh
      | setStream ty =>
        simp only [handlerPoll] at hh ⊢
        cases hs : r.setStream ty with
        | none => rw [hs] at hh; simp only at hh ⊢; cases hh; exact Or.inl rfl
        | some r1 => rw [hs] at hh; simp only at hh ⊢; exact ih _ _ (e.ev "s=ok") rfl hh
      | open_ ty =>
        simp only [handlerPoll] at hh ⊢
        split at hh
        · rename_i hc; rw [if_pos hc]; cases hh; exact Or.inl rfl
        · rename_i hc; rw [if_neg hc]; exact ih _ _ (e.ev _) rfl hh
      | dropW i =>
        simp only [handlerPoll] at hh ⊢
        cases hw : ws.getD i none with
        | none => rw [hw] at hh; simp only at hh ⊢; exact ih _ _ _ rfl hh
        | some w => rw [hw] at hh; simp only at hh ⊢; exact ih _ _ { e with mutex := lockDrop w.lock e.mutex } rfl hh
      | read k =>
        simp only [handlerPoll, extE] at hh ⊢
        rcases hpi : r.pollInput (some k) e.mutex e.tr with ⟨r3, m3, t3, ri⟩
        rw [hpi] at hh
        rcases pollInput_dich hx hpi with hs | ⟨r2, m2, t2, res2, h2, hst, hpre⟩
        · rw [hs]
          cases ri with
          | pending => simp only at hh ⊢; cases hh; exact Or.inl rfl
          | ready kk d => simp only at hh ⊢; exact ih _ _ ({ e with mutex := m3, tr := t3 }.ev _) rfl hh
          | err x => simp only [if_true] at hh ⊢; cases hh; exact Or.inl rfl
          | panic s => simp only at hh ⊢; cases hh; exact Or.inl rfl
        · right
          obtain ⟨x, rfl, he⟩ := iStop_cases hst
          rw [h2]
          simp only [if_true]
          refine ⟨_, _, _, _, rfl, hStop_err he, ?_⟩
          show t2.wlog <+: e'.tr.wlog
          cases ri with
          | pending => simp only at hh; cases hh; exact hpre
          | ready kk d => simp only at hh; exact pre_tle (pre_ev _ hpre) (handlerPoll_le _ _ _ _ hh)
          | err x => simp only [if_true] at hh; cases hh; exact hpre
          | panic s => simp only at hh; cases hh; exact hpre
      | fill =>
        simp only [handlerPoll, extE] at hh ⊢
        rcases hpi : r.pollInput none e.mutex e.tr with ⟨r3, m3, t3, ri⟩
        rw [hpi] at hh
        rcases pollInput_dich hx hpi with hs | ⟨r2, m2, t2, res2, h2, hst, hpre⟩
        · rw [hs]
          cases ri with
          | pending => simp only at hh ⊢; cases hh; exact Or.inl rfl
          | ready kk d => simp only at hh ⊢; exact ih _ _ ({ e with mutex := m3, tr := t3 }.ev _) rfl hh
          | err x => simp only [if_true] at hh ⊢; cases hh; exact Or.inl rfl
          | panic s => simp only at hh ⊢; cases hh; exact Or.inl rfl
        · right
          obtain ⟨x, rfl, he⟩ := iStop_cases hst
          rw [h2]
          simp only [if_true]
          refine ⟨_, _, _, _, rfl, hStop_err he, ?_⟩
          show t2.wlog <+: e'.tr.wlog
          cases ri with
          | pending => simp only at hh; cases hh; exact hpre
          | ready kk d => simp only at hh; exact pre_tle (pre_ev _ hpre) (handlerPoll_le _ _ _ _ hh)
          | err x => simp only [if_true] at hh; cases hh; exact hpre
          | panic s => simp only at hh; cases hh; exact hpre
      | readAll =>
        simp only [handlerPoll, extE] at hh ⊢
        rcases hpi : r.pollInput (some 64) e.mutex e.tr with ⟨r3, m3, t3, ri⟩
        rw [hpi] at hh
        rcases pollInput_dich hx hpi with hs | ⟨r2, m2, t2, res2, h2, hst, hpre⟩
        · rw [hs]
          cases ri with
          | pending => simp only at hh ⊢; cases hh; exact Or.inl rfl
          | ready kk d =>
            cases kk with
            | zero => simp only at hh ⊢; exact ih _ _ ({ e with mutex := m3, tr := t3 }.ev _) rfl hh
            | succ kk => simp only at hh ⊢; exact ih _ _ { e with mutex := m3, tr := t3 } rfl hh
          | err x => simp only [if_true] at hh ⊢; cases hh; exact Or.inl rfl
          | panic s => simp only at hh ⊢; cases hh; exact Or.inl rfl
        · right
          obtain ⟨x, rfl, he⟩ := iStop_cases hst
          rw [h2]
          simp only [if_true]
          refine ⟨_, _, _, _, rfl, hStop_err he, ?_⟩
          show t2.wlog <+: e'.tr.wlog
          cases ri with
          | pending => simp only at hh; cases hh; exact hpre
          | ready kk d =>
            cases kk with
            | zero => simp only at hh; exact pre_tle (pre_ev _ hpre) (handlerPoll_le _ _ _ _ hh)
            | succ kk => simp only at hh; exact pre_tle hpre (handlerPoll_le _ _ _ _ hh)
          | err x => simp only [if_true] at hh; cases hh; exact hpre
          | panic s => simp only at hh; cases hh; exact hpre
      | writeable =>
        simp only [handlerPoll, extE] at hh ⊢
        rcases hpi : r.writeablePoll (sub == .writeableStarted) e.mutex e.tr with ⟨r3, b3, m3, t3, ri⟩
        rw [hpi] at hh
        rcases writeablePoll_dich hx hpi with hs | ⟨r2, b2, m2, t2, res2, h2, hst, hpre⟩
        · rw [hs]
          cases ri with
          | pending => simp only at hh ⊢; cases hh; exact Or.inl rfl
          | ready => simp only at hh ⊢; exact ih _ _ ({ e with mutex := m3, tr := t3 }.ev _) rfl hh
          | err x => simp only [if_true] at hh ⊢; cases hh; exact Or.inl rfl
          | panic s => simp only at hh ⊢; cases hh; exact Or.inl rfl
        · right
          obtain ⟨x, rfl, he⟩ := oStop_cases hst
          rw [h2]
          simp only [if_true]
          refine ⟨_, _, _, _, rfl, hStop_err he, ?_⟩
          show t2.wlog <+: e'.tr.wlog
          cases ri with
          | pending => simp only at hh; cases hh; exact hpre
          | ready => simp only at hh; exact pre_tle (pre_ev _ hpre) (handlerPoll_le _ _ _ _ hh)
          | err x => simp only [if_true] at hh; cases hh; exact hpre
          | panic s => simp only at hh; cases hh; exact hpre
      | flush i =>
        simp only [handlerPoll, extE] at hh ⊢
        cases hw : ws.getD i none with
        | none => rw [hw] at hh; simp only at hh ⊢; exact ih _ _ (e.ev _) rfl hh
        | some w =>
          rw [hw] at hh
          simp only at hh ⊢
          rw [pollFlush_ext]
          rcases hpf : w.pollFlush i e.mutex e.tr with ⟨w3, m3, t3, rf⟩
          rw [hpf] at hh
          cases rf with
          | pending => simp only at hh ⊢; cases hh; exact Or.inl rfl
          | ready kk => simp only at hh ⊢; exact ih _ _ ({ e with mutex := m3, tr := t3 }.ev _) rfl hh
          | err x => simp only [if_true] at hh ⊢; cases hh; exact Or.inl rfl
          | panic s => simp only at hh ⊢; cases hh; exact Or.inl rfl
      | writeAll i data =>
        cases hw : ws.getD i none with
        | none =>
          simp only [handlerPoll, extE, hw] at hh ⊢
          exact ih _ _ (e.ev _) rfl hh
        | some w =>
          rw [hp_writeAll' _ _ _ _ _ _ _ w hw] at hh ⊢
          simp only [extE] at hh ⊢
          by_cases hc : (restOf sub data).isEmpty = true
          · rw [if_pos hc] at hh ⊢; exact ih _ _ (e.ev _) rfl hh
          · rw [if_neg hc] at hh ⊢
            rcases hpw : w.pollWrite i (restOf sub data) e.mutex e.tr with ⟨w3, m3, t3, rw3⟩
            rw [hpw] at hh
            rcases pollWrite_dich hx hpw with hs | ⟨w2, m2, t2, res2, h2, hst, hpre⟩
            · rw [hs]
              cases rw3 with
              | pending => simp only at hh ⊢; cases hh; exact Or.inl rfl
              | ready kk =>
                cases kk with
                | zero => simp only at hh ⊢; cases hh; exact Or.inl rfl
                | succ kk => simp only at hh ⊢; exact ih _ _ { e with mutex := m3, tr := t3 } rfl hh
              | err x => simp only at hh ⊢; cases hh; exact Or.inl rfl
              | panic s => simp only at hh ⊢; cases hh; exact Or.inl rfl
            · right
              obtain ⟨x, rfl, he⟩ := wStop_cases hst
              rw [h2]
              refine ⟨_, _, _, _, rfl, hStop_err he, ?_⟩
              show t2.wlog <+: e'.tr.wlog
              cases rw3 with
              | pending => simp only at hh; cases hh; exact hpre
              | ready kk =>
                cases kk with
                | zero => simp only at hh; cases hh; exact hpre
                | succ kk => simp only at hh; exact pre_tle hpre (handlerPoll_le _ _ _ _ hh)
              | err x => simp only at hh; cases hh; exact hpre
              | panic s => simp only at hh; cases hh; exact hpre

/-! ## `close` -/

theorem boundaryLoop_ext (xs : List WrAns) : ∀ (fuel : Nat) (sp : Str.Parser) (new : Bytes) (t : Transport),
    boundaryLoop fuel sp new (ext xs t) =
      ((boundaryLoop fuel sp new t).1, ext xs (boundaryLoop fuel sp new t).2.1, (boundaryLoop fuel sp new t).2.2) := by
  intro fuel
  induction fuel with
  | zero => intro sp new t; simp only [boundaryLoop]
  | succ n ih =>
    intro sp new t
    have hcont : ∀ (sp : Str.Parser) (t : Transport), boundaryLoop.cont sp (ext xs t) n =
        ((boundaryLoop.cont sp t n).1, ext xs (boundaryLoop.cont sp t n).2.1, (boundaryLoop.cont sp t n).2.2) := by
      intro sp t
      simp only [boundaryLoop.cont]
      split
      · rfl
      · split
        · rfl
        · rw [read_ext]
          rcases t.read sp.compress.free with ⟨t4, rr⟩
          cases rr with
          | pending => rfl
          | ready x =>
            cases x with
            | error e => rfl
            | ok bs =>
              cases bs with
              | nil => rfl
              | cons b bs => exact ih _ _ _
    simp only [boundaryLoop]
    rcases sp.parse new none with ⟨sp1, pr⟩
    cases pr with
    | panic s => rfl
    | err e =>
      simp only
      split
      · exact hcont _ _
      · rfl
    | ok st => exact hcont _ _

theorem closeBoundary_ext (xs : List WrAns) (sp : Str.Parser) (resume : Bool) (t : Transport) :
    closeBoundary sp resume (ext xs t) =
      ((closeBoundary sp resume t).1, ext xs (closeBoundary sp resume t).2.1, (closeBoundary sp resume t).2.2) := by
  simp only [closeBoundary]
  split
  · rw [read_ext]
    rcases t.read sp.free with ⟨t4, rr⟩
    cases rr with
    | pending => rfl
    | ready x =>
      cases x with
      | error e => rfl
      | ok bs =>
        cases bs with
        | nil => rfl
        | cons b bs => exact boundaryLoop_ext xs _ _ _ _
  · split
    · rfl
    · exact boundaryLoop_ext xs _ _ _ _

/-- `ext` on the two kinds of phase results -/
def mapOut (xs : List WrAns) (x : CloseOut) : CloseOut := (x.1, x.2.1, x.2.2.1, ext xs x.2.2.2.1, x.2.2.2.2)
def mapMid (xs : List WrAns) (x : CloseMid) : CloseMid := (x.1, x.2.1, ext xs x.2.2.1, x.2.2.2)
def mapX (xs : List WrAns) : Except CloseOut CloseMid → Except CloseOut CloseMid
  | .error x => .error (mapOut xs x)
  | .ok y => .ok (mapMid xs y)

theorem closeP2_ext (xs : List WrAns) (r : AReq) (m : MutexSt) (t : Transport) (st : CloseSt) :
    closeP2 r m (ext xs t) st = mapX xs (closeP2 r m t st) := by
  simp only [closeP2]
  split
  · split
    · rfl
    · rw [closeBoundary_ext]
      rcases closeBoundary _ _ t with ⟨sp1, t1, o⟩
      cases o <;> rfl
  · split
    · rfl
    · rw [closeBoundary_ext]
      rcases closeBoundary _ _ t with ⟨sp1, t1, o⟩
      cases o <;> rfl
  · rfl

theorem closeP3_ext (xs : List WrAns) (r : AReq) (m : MutexSt) (t : Transport) (st : CloseSt) (status : ExitStatus)
    (alive : Nat) : closeP3 r m (ext xs t) st status alive = mapX xs (closeP3 r m t st status alive) := by
  simp only [closeP3]
  split
  · split <;> rfl
  · rfl

/-- the transport a phase ends with -/
def xTr : Except CloseOut CloseMid → Transport
  | .error x => x.2.2.2.1
  | .ok y => y.2.2.1

theorem closeP1_dich {xs : List WrAns} (hx : BadHead xs) (r : AReq) (st : CloseSt) (m : MutexSt) (t : Transport) :
    closeP1 r st m (ext xs t) = mapX xs (closeP1 r st m t) ∨
    (∃ r2 cs2 m2 t2 e, closeP1 r st m (ext xs t) = .error (r2, cs2, m2, t2, .err e) ∧ errStop e = true ∧
      t2.wlog <+: (xTr (closeP1 r st m t)).wlog) := by
  have main : ∀ b : Bool,
      (match r.writeablePoll b m (ext xs t) with
        | (r, _, m, t, .ready) => (Except.ok (r, m, t, CloseSt.start) : Except CloseOut CloseMid)
        | (r, _, m, t, .pending) => .error (r, .inWriteable, m, t, .pending)
        | (r, _, m, t, .err e) => if e == IoErr.abortRequest then .ok (r, m, t, .start) else .error (r, .inWriteable, m, t, .err e)
        | (r, _, m, t, .panic s) => .error (r, .inWriteable, m, t, .panic s)) =
      mapX xs (match r.writeablePoll b m t with
        | (r, _, m, t, .ready) => (Except.ok (r, m, t, CloseSt.start) : Except CloseOut CloseMid)
        | (r, _, m, t, .pending) => .error (r, .inWriteable, m, t, .pending)
        | (r, _, m, t, .err e) => if e == IoErr.abortRequest then .ok (r, m, t, .start) else .error (r, .inWriteable, m, t, .err e)
        | (r, _, m, t, .panic s) => .error (r, .inWriteable, m, t, .panic s)) ∨
      (∃ r2 cs2 m2 t2 e, (match r.writeablePoll b m (ext xs t) with
        | (r, _, m, t, .ready) => (Except.ok (r, m, t, CloseSt.start) : Except CloseOut CloseMid)
        | (r, _, m, t, .pending) => .error (r, .inWriteable, m, t, .pending)
        | (r, _, m, t, .err e) => if e == IoErr.abortRequest then .ok (r, m, t, .start) else .error (r, .inWriteable, m, t, .err e)
        | (r, _, m, t, .panic s) => .error (r, .inWriteable, m, t, .panic s)) = .error (r2, cs2, m2, t2, .err e) ∧
        errStop e = true ∧ t2.wlog <+: (xTr (match r.writeablePoll b m t with
        | (r, _, m, t, .ready) => (Except.ok (r, m, t, CloseSt.start) : Except CloseOut CloseMid)
        | (r, _, m, t, .pending) => .error (r, .inWriteable, m, t, .pending)
        | (r, _, m, t, .err e) => if e == IoErr.abortRequest then .ok (r, m, t, .start) else .error (r, .inWriteable, m, t, .err e)
        | (r, _, m, t, .panic s) => .error (r, .inWriteable, m, t, .panic s))).wlog) := by
    intro b
    rcases hwp : r.writeablePoll b m t with ⟨r3, b3, m3, t3, o⟩
    rcases writeablePoll_dich hx hwp with hs | ⟨r2, b2, m2, t2, res2, h2, hst, hpre⟩
    · left
      rw [hs]
      cases o with
      | ready => rfl
      | pending => rfl
      | panic s => rfl
      | err e => simp only; split <;> rfl
    · right
      obtain ⟨e, rfl, he⟩ := oStop_cases hst
      rw [h2]
      have hne : (e == IoErr.abortRequest) = false := by
        simpa [errStop] using he
      simp only [hne, Bool.false_eq_true, if_false]
      refine ⟨_, _, _, _, e, rfl, he, ?_⟩
      cases o with
      | ready => exact hpre
      | pending => exact hpre
      | panic s => exact hpre
      | err e' => simp only; split <;> exact hpre
  cases st with
  | start => exact main _
  | inWriteable => exact main _
  | inBoundary => exact Or.inl rfl
  | writeOut a b => exact Or.inl rfl
  | writeEnd a => exact Or.inl rfl

theorem cStop_err (e : IoErr) : cStop (.err e) = true := rfl

theorem finishEnd_dich {xs : List WrAns} (hx : BadHead xs) {r : AReq} {rest : Bytes} {m : MutexSt} {t : Transport}
    {r' : AReq} {cs' : CloseSt} {m' : MutexSt} {t' : Transport} {res : CRes}
    (h : closePoll.finishEnd r rest m t = (r', cs', m', t', res)) :
    closePoll.finishEnd r rest m (ext xs t) = (r', cs', m', ext xs t', res) ∨
    (∃ r2 cs2 m2 t2 res2, closePoll.finishEnd r rest m (ext xs t) = (r2, cs2, m2, t2, res2) ∧ cStop res2 = true ∧
      t2.wlog <+: t'.wlog) := by
  simp only [closePoll.finishEnd] at h ⊢
  rcases hw : writeAllLoop (rest.length + 1) rest t with ⟨rest1, t1, o⟩
  rw [hw] at h
  rcases writeAllLoop_dich hx _ _ _ hw with hs | ⟨rest2, t2, res2, h2, hst, hpre⟩
  · rw [hs]
    cases o with
    | pending => simp only at h ⊢; cases h; exact Or.inl rfl
    | err e => simp only at h ⊢; cases h; exact Or.inl rfl
    | panic s => simp only at h ⊢; cases h; exact Or.inl rfl
    | ready =>
      simp only at h ⊢
      split at h
      · rename_i hk
        rw [if_pos hk]
        split at h <;> (cases h; exact Or.inl rfl)
      · rename_i hk
        rw [if_neg hk]
        cases h; exact Or.inl rfl
  · right
    obtain ⟨e, rfl, he⟩ := oStop_cases hst
    rw [h2]
    refine ⟨_, _, _, t2, .err e, rfl, rfl, ?_⟩
    have : t1 = t' := by
      cases o with
      | pending => simp only at h; cases h; rfl
      | err e => simp only at h; cases h; rfl
      | panic s => simp only at h; cases h; rfl
      | ready =>
        simp only at h
        split at h
        · split at h <;> (cases h; rfl)
        · cases h; rfl
    rw [← this]; exact hpre

theorem closeP4_dich {xs : List WrAns} (hx : BadHead xs) {r : AReq} {st : CloseSt} {m : MutexSt} {t : Transport}
    {r' : AReq} {cs' : CloseSt} {m' : MutexSt} {t' : Transport} {res : CRes}
    (h : closeP4 r m t st = (r', cs', m', t', res)) :
    closeP4 r m (ext xs t) st = (r', cs', m', ext xs t', res) ∨
    (∃ r2 cs2 m2 t2 res2, closeP4 r m (ext xs t) st = (r2, cs2, m2, t2, res2) ∧ cStop res2 = true ∧
      t2.wlog <+: t'.wlog) := by
  cases st with
  | start => simp only [closeP4] at h ⊢; cases h; exact Or.inl rfl
  | inWriteable => simp only [closeP4] at h ⊢; cases h; exact Or.inl rfl
  | inBoundary => simp only [closeP4] at h ⊢; cases h; exact Or.inl rfl
  | writeEnd rest => simp only [closeP4] at h ⊢; exact finishEnd_dich hx h
  | writeOut rest endreq =>
    simp only [closeP4] at h ⊢
    rcases hw : writeAllLoop (rest.length + 1) rest t with ⟨rest1, t1, o⟩
    rw [hw] at h
    rcases writeAllLoop_dich hx _ _ _ hw with hs | ⟨rest2, t2, res2, h2, hst, hpre⟩
    · rw [hs]
      cases o with
      | pending => simp only at h ⊢; cases h; exact Or.inl rfl
      | err e => simp only at h ⊢; cases h; exact Or.inl rfl
      | panic s => simp only at h ⊢; cases h; exact Or.inl rfl
      | ready => simp only at h ⊢; exact finishEnd_dich hx h
    · right
      obtain ⟨e, rfl, he⟩ := oStop_cases hst
      rw [h2]
      refine ⟨_, _, _, t2, .err e, rfl, rfl, ?_⟩
      cases o with
      | pending => simp only at h; cases h; exact hpre
      | err e => simp only at h; cases h; exact hpre
      | panic s => simp only at h; cases h; exact hpre
      | ready => simp only at h; exact pre_tle hpre (finishEnd_le h)

end Fcgi.Indep
